// Package publisher drives the real notifications.Publisher (components "publisher" and
// "publisherconc", property C18).
//
// Line protocol (one op per line):
//
//	startup | sub <t> <s> | unsub <s> | pub <t> <e> | close <t> | shutdown | sync
//
// A line may be prefixed by `@<p>`: consecutive prefixed lines form a parallel block, producer p
// executes its lines in order on its own goroutine; the block is joined before the next
// unprefixed line.  Component "publisher": producers of one block use disjoint topics and
// subscribers (guaranteed by the generator), calls are made without any harness lock, and the
// file order is a valid linearisation for every per-subscriber observation.  Component
// "publisherconc" (oracle only): producers share topics and subscribers, every call is made under
// a harness mutex that records the linearisation order the oracle then uses.
//
// Output: one line per op — `ok`, or `true`/`false` for Subscribe/Unsubscribe; for `sync` the
// callbacks received since the previous sync, per subscriber — and a final `end <sync line>`.
// Per subscriber the callbacks are printed in order, except that each maximal run of consecutive
// OnClose calls is sorted by topic (such a run comes from ranging over a Go map).
package publisher

import (
	"bufio"
	"fmt"
	"math/rand"
	"os"
	"runtime"
	"sort"
	"strconv"
	"strings"
	"sync"
	"time"

	"github.com/ipfs/go-graphsync/notifications"

	"verifharness/reg"
)

func init() {
	reg.Register(&reg.Component{Name: "publisher", Gen: Gen, Run: func(c []reg.Case, o *reg.Out) { Run(c, o, false) }})
	reg.Register(&reg.Component{Name: "publisherconc", Gen: GenConc, Run: func(c []reg.Case, o *reg.Out) { Run(c, o, true) }})
}

// ---------------------------------------------------------------- generators

type gen struct {
	r  *rand.Rand
	w  *bufio.Writer
	ev int
}

// one random API line over topics [t0,t0+nt) and subscribers [s0,s0+ns)
func (g *gen) apiLine(t0, nt, s0, ns int, allowShutdown bool) string {
	t := t0 + g.r.Intn(nt)
	s := s0 + g.r.Intn(ns)
	k := g.r.Intn(100)
	switch {
	case k < 30:
		return fmt.Sprintf("sub %d %d", t, s)
	case k < 70:
		g.ev++
		return fmt.Sprintf("pub %d %d", t, g.ev)
	case k < 83:
		return fmt.Sprintf("close %d", t)
	case k < 97:
		return fmt.Sprintf("unsub %d", s)
	default:
		if allowShutdown {
			return "shutdown"
		}
		g.ev++
		return fmt.Sprintf("pub %d %d", t, g.ev)
	}
}

func (g *gen) seqCase(id string) {
	g.ev = 0
	nt := 1 + g.r.Intn(3)
	ns := 1 + g.r.Intn(3)
	n := 1 + g.r.Intn(30)
	startAt := 0 // index of the op before which startup is issued; -1 never
	switch k := g.r.Intn(100); {
	case k < 75:
		startAt = 0
	case k < 90:
		startAt = g.r.Intn(n + 1)
	case k < 96:
		startAt = n
	default:
		startAt = -1
	}
	syncP := []int{0, 10, 30, 100}[g.r.Intn(4)]
	fmt.Fprintf(g.w, "case %s\n", id)
	for i := 0; i < n; i++ {
		if i == startAt {
			fmt.Fprintln(g.w, "startup")
		}
		fmt.Fprintln(g.w, g.apiLine(0, nt, 0, ns, true))
		if g.r.Intn(100) < syncP {
			fmt.Fprintln(g.w, "sync")
		}
	}
	if startAt == n {
		fmt.Fprintln(g.w, "startup")
	}
	if g.r.Intn(100) < 70 {
		fmt.Fprintln(g.w, "shutdown")
		for g.r.Intn(3) == 0 {
			fmt.Fprintln(g.w, g.apiLine(0, nt, 0, ns, true))
		}
	}
}

// Gen (component "publisher"): random sequential cases (with late / missing Startup, calls after
// Shutdown, sync points), disjoint-producer parallel cases; thorough adds every command sequence
// of length <= 6 over 2 topics x 2 subscribers up to renaming of topics/subscribers.
func Gen(seed int64, n int, tier string, w *bufio.Writer) {
	g := &gen{r: rand.New(rand.NewSource(seed)), w: w}
	for i := 0; i < n; i++ {
		if i%10 == 9 {
			g.parDisjointCase(fmt.Sprintf("p%d", i))
		} else {
			g.seqCase(fmt.Sprintf("r%d", i))
		}
	}
	if tier == "thorough" {
		exhaustive(w, 6)
	}
}

func (g *gen) parDisjointCase(id string) {
	g.ev = 0
	fmt.Fprintf(g.w, "case %s\n", id)
	late := g.r.Intn(5) == 0
	if !late {
		fmt.Fprintln(g.w, "startup")
	}
	nblocks := 1 + g.r.Intn(3)
	for b := 0; b < nblocks; b++ {
		np := 2 + g.r.Intn(3)
		for p := 0; p < np; p++ {
			n := 1 + g.r.Intn(12)
			for i := 0; i < n; i++ {
				fmt.Fprintf(g.w, "@%d %s\n", p, g.apiLine(2*p, 2, 2*p, 2, false))
			}
		}
		if late && b == 0 {
			fmt.Fprintln(g.w, "startup")
		}
		if g.r.Intn(2) == 0 {
			fmt.Fprintln(g.w, "sync")
		}
	}
	if g.r.Intn(100) < 80 {
		fmt.Fprintln(g.w, "shutdown")
	}
}

// GenConc (component "publisherconc"): producers sharing topics and subscribers, Shutdown may be
// called by any producer at any time.
func GenConc(seed int64, n int, tier string, w *bufio.Writer) {
	g := &gen{r: rand.New(rand.NewSource(seed ^ 0x5eed)), w: w}
	for i := 0; i < n; i++ {
		g.ev = 0
		fmt.Fprintf(w, "case c%d\nstartup\n", i)
		nblocks := 1 + g.r.Intn(3)
		for b := 0; b < nblocks; b++ {
			np := 2 + g.r.Intn(3)
			nt, ns := 1+g.r.Intn(2), 1+g.r.Intn(3)
			shut := g.r.Intn(4) == 0
			for p := 0; p < np; p++ {
				m := 1 + g.r.Intn(12)
				for j := 0; j < m; j++ {
					fmt.Fprintf(w, "@%d %s\n", p, g.apiLine(0, nt, 0, ns, shut))
				}
			}
			if g.r.Intn(2) == 0 {
				fmt.Fprintln(w, "sync")
			}
		}
		if g.r.Intn(100) < 80 {
			fmt.Fprintln(w, "shutdown")
		}
	}
}

// every command sequence of length 1..maxLen over {sub t s, pub t, close t, unsub s, shutdown},
// t,s in {0,1}, canonical under renaming (topic 1 / subscriber 1 only after 0 was mentioned)
func exhaustive(w *bufio.Writer, maxLen int) {
	k := 0
	var rec func(prefix []string, depth, maxT, maxS int)
	emit := func(prefix []string) {
		fmt.Fprintf(w, "case x%d\nstartup\n%s\n", k, strings.Join(prefix, "\n"))
		k++
		if len(prefix) <= 4 {
			// the same commands queued before the goroutine starts
			fmt.Fprintf(w, "case x%d\n%s\nstartup\n", k, strings.Join(prefix, "\n"))
			k++
		}
	}
	rec = func(prefix []string, depth, maxT, maxS int) {
		if len(prefix) > 0 {
			emit(prefix)
		}
		if depth == 0 {
			return
		}
		ext := func(line string, mt, ms int) {
			rec(append(append([]string{}, prefix...), line), depth-1, mt, ms)
		}
		max := func(a, b int) int {
			if a > b {
				return a
			}
			return b
		}
		for t := 0; t <= 1 && t <= maxT+1; t++ {
			for s := 0; s <= 1 && s <= maxS+1; s++ {
				ext(fmt.Sprintf("sub %d %d", t, s), max(maxT, t), max(maxS, s))
			}
			ext(fmt.Sprintf("pub %d %d", t, len(prefix)+1), max(maxT, t), maxS)
			ext(fmt.Sprintf("close %d", t), max(maxT, t), maxS)
		}
		for s := 0; s <= 1 && s <= maxS+1; s++ {
			ext(fmt.Sprintf("unsub %d", s), maxT, max(maxS, s))
		}
		ext("shutdown", maxT, maxS)
	}
	rec(nil, maxLen, -1, -1)
}

// ---------------------------------------------------------------- recording subscribers

type item struct {
	sub, topic, ev int
	close          bool
}

type hub struct {
	mu  sync.Mutex
	log []item
}

type recSub struct {
	id int
	h  *hub
}

func (r *recSub) OnNext(t notifications.Topic, e notifications.Event) {
	ti, ok1 := t.(int)
	ei, ok2 := e.(int)
	if !ok1 || !ok2 {
		ti, ei = -1, -1 // a sentinel event delivered to a real subscriber: shows up as garbage
	}
	r.h.mu.Lock()
	r.h.log = append(r.h.log, item{sub: r.id, topic: ti, ev: ei})
	r.h.mu.Unlock()
}

func (r *recSub) OnClose(t notifications.Topic) {
	ti, ok := t.(int)
	if !ok {
		ti = -1
	}
	r.h.mu.Lock()
	r.h.log = append(r.h.log, item{sub: r.id, topic: ti, close: true})
	r.h.mu.Unlock()
}

type sentinelTopic struct{}

type sentinel struct {
	next chan int
}

func (s *sentinel) OnNext(_ notifications.Topic, e notifications.Event) {
	if n, ok := e.(int); ok {
		select {
		case s.next <- n:
		default:
		}
	}
}
func (s *sentinel) OnClose(notifications.Topic) {}

// Barrier timeouts.  On code where the property holds no barrier ever times out; the first
// timeout of a run waits long (loaded machine), later ones ever shorter, and after 100 the run
// is abandoned (exit status 3: the check reports a broken tie).
var timeouts int

func barrierTimeout() time.Duration {
	switch {
	case timeouts == 0:
		return 3 * time.Second
	case timeouts == 1:
		return 500 * time.Millisecond
	case timeouts == 2:
		return 100 * time.Millisecond
	}
	return 30 * time.Millisecond
}

// ---------------------------------------------------------------- run

type apiCall struct {
	kind    string // sub unsub pub close shutdown
	t, s, e int
}

type runner struct {
	ps        notifications.Publisher
	h         *hub
	subs      map[int]*recSub
	subsMu    sync.Mutex
	sent      *sentinel
	sentSub   bool
	sentN     int
	started   bool
	shutCall  bool // Shutdown has been called at least once
	baseG     int
	timedOut  bool
	lin       []apiCall // linearisation of the API calls (without startup)
	linMu     sync.Mutex
	useLinMu  bool
	startedAt int // len(lin) when startup was called; -1 never
	out       *reg.Out
	consumed  int // prefix of h.log already printed
}

func (r *runner) sub(i int) *recSub {
	r.subsMu.Lock()
	defer r.subsMu.Unlock()
	if r.subs[i] == nil {
		r.subs[i] = &recSub{id: i, h: r.h}
	}
	return r.subs[i]
}

// do performs one API call on the real publisher and returns the output line
func (r *runner) do(c apiCall) string {
	if r.useLinMu {
		r.linMu.Lock()
		defer r.linMu.Unlock()
	}
	res := "ok"
	switch c.kind {
	case "sub":
		res = strconv.FormatBool(r.ps.Subscribe(c.t, r.sub(c.s)))
	case "unsub":
		res = strconv.FormatBool(r.ps.Unsubscribe(r.sub(c.s)))
	case "pub":
		r.ps.Publish(c.t, c.e)
	case "close":
		r.ps.Close(c.t)
	case "shutdown":
		r.ps.Shutdown()
	}
	if r.useLinMu {
		r.lin = append(r.lin, c)
	}
	return res
}

func (r *runner) waitExit() {
	// the goroutine started by Startup returns after the final sweep
	deadline := time.Now().Add(barrierTimeout())
	for spins := 0; runtime.NumGoroutine() > r.baseG; spins++ {
		if spins < 200 {
			runtime.Gosched()
			continue
		}
		if time.Now().After(deadline) {
			r.timedOut = true
			timeouts++
			return
		}
		time.Sleep(20 * time.Microsecond)
	}
}

// barrier waits until the publisher goroutine has processed everything queued so far
func (r *runner) barrier() {
	if !r.started {
		r.out.Cov("sync.prestart")
		return
	}
	if r.shutCall {
		r.out.Cov("sync.exit")
		r.waitExit()
		return
	}
	r.out.Cov("sync.sentinel")
	if !r.sentSub {
		r.ps.Subscribe(sentinelTopic{}, r.sent)
		r.sentSub = true
	}
	r.sentN++
	r.ps.Publish(sentinelTopic{}, r.sentN)
	t := time.NewTimer(barrierTimeout())
	defer t.Stop()
	for {
		select {
		case n := <-r.sent.next:
			if n == r.sentN {
				return
			}
		case <-t.C:
			r.timedOut = true
			timeouts++
			return
		}
	}
}

func renderItems(items []item) string {
	bySub := map[int][]item{}
	var ids []int
	for _, it := range items {
		if _, ok := bySub[it.sub]; !ok {
			ids = append(ids, it.sub)
		}
		bySub[it.sub] = append(bySub[it.sub], it)
	}
	if len(ids) == 0 {
		return "-"
	}
	sort.Ints(ids)
	var parts []string
	for _, id := range ids {
		var toks []string
		var run []int
		flush := func() {
			sort.Ints(run)
			for _, t := range run {
				toks = append(toks, fmt.Sprintf("c%d", t))
			}
			run = nil
		}
		for _, it := range bySub[id] {
			if it.close {
				run = append(run, it.topic)
			} else {
				flush()
				toks = append(toks, fmt.Sprintf("n%d.%d", it.topic, it.ev))
			}
		}
		flush()
		parts = append(parts, fmt.Sprintf("%d:%s", id, strings.Join(toks, ",")))
	}
	return strings.Join(parts, " ")
}

func (r *runner) syncLine() string {
	r.barrier()
	r.h.mu.Lock()
	items := append([]item{}, r.h.log[r.consumed:]...)
	r.consumed = len(r.h.log)
	r.h.mu.Unlock()
	s := renderItems(items)
	if r.timedOut {
		s += " TIMEOUT"
	}
	return s
}

func parseCall(op []string) (apiCall, bool) {
	atoi := func(s string) (int, bool) {
		n, err := strconv.Atoi(s)
		return n, err == nil && n >= 0
	}
	switch {
	case op[0] == "sub" && len(op) == 3:
		t, ok1 := atoi(op[1])
		s, ok2 := atoi(op[2])
		return apiCall{kind: "sub", t: t, s: s}, ok1 && ok2
	case op[0] == "pub" && len(op) == 3:
		t, ok1 := atoi(op[1])
		e, ok2 := atoi(op[2])
		return apiCall{kind: "pub", t: t, e: e}, ok1 && ok2
	case op[0] == "unsub" && len(op) == 2:
		s, ok := atoi(op[1])
		return apiCall{kind: "unsub", s: s}, ok
	case op[0] == "close" && len(op) == 2:
		t, ok := atoi(op[1])
		return apiCall{kind: "close", t: t}, ok
	case op[0] == "shutdown" && len(op) == 1:
		return apiCall{kind: "shutdown"}, true
	}
	return apiCall{}, false
}

func Run(cases []reg.Case, out *reg.Out, conc bool) {
	for _, c := range cases {
		out.BeginCase(c)
		runCase(c, out, conc)
		if timeouts > 0 {
			out.W.Flush()
		}
		if timeouts >= 100 {
			out.Finish()
			fmt.Fprintln(os.Stderr, "publisher harness: 100 barrier timeouts, giving up")
			os.Exit(3)
		}
	}
}

func runCase(c reg.Case, out *reg.Out, conc bool) {
	r := &runner{
		ps: notifications.NewPublisher(), h: &hub{}, subs: map[int]*recSub{},
		sent:      &sentinel{next: make(chan int, 64)},
		baseG:     runtime.NumGoroutine(),
		useLinMu:  conc,
		startedAt: -1, out: out,
	}
	ops := c.Ops
	for i := 0; i < len(ops); {
		op := ops[i]
		if strings.HasPrefix(op[0], "@") {
			// parallel block
			j := i
			byProd := map[string][]apiCall{}
			var order []string
			var lines []string
			for j < len(ops) && strings.HasPrefix(ops[j][0], "@") {
				p := ops[j][0]
				call, ok := parseCall(ops[j][1:])
				if len(ops[j]) < 2 || !ok {
					lines = append(lines, "bad-op")
					j++
					continue
				}
				lines = append(lines, "")
				if _, seen := byProd[p]; !seen {
					order = append(order, p)
				}
				byProd[p] = append(byProd[p], call)
				out.Cov("op.par." + call.kind)
				j++
			}
			results := map[string][]string{}
			var resMu sync.Mutex
			var wg sync.WaitGroup
			startGate := make(chan struct{})
			for _, p := range order {
				wg.Add(1)
				go func(p string, calls []apiCall) {
					defer wg.Done()
					<-startGate
					rs := make([]string, len(calls))
					for k, call := range calls {
						rs[k] = r.do(call)
					}
					resMu.Lock()
					results[p] = rs
					resMu.Unlock()
				}(p, byProd[p])
			}
			g0 := runtime.NumGoroutine() - len(order)
			close(startGate)
			wg.Wait()
			// producers have passed wg.Done but may not have exited yet: wait until they are gone so
			// that later goroutine counts are exact
			for spins := 0; runtime.NumGoroutine() > g0 && spins < 100000; spins++ {
				runtime.Gosched()
			}
			if !conc {
				// file order is a valid linearisation (disjoint producers)
				for k := i; k < j; k++ {
					if call, ok := parseCall(ops[k][1:]); ok {
						r.lin = append(r.lin, call)
					}
				}
			}
			for _, call := range r.lin {
				if call.kind == "shutdown" {
					r.shutCall = true
				}
			}
			idx := map[string]int{}
			for k := i; k < j; k++ {
				if lines[k-i] == "bad-op" {
					out.Line("bad-op")
					continue
				}
				p := ops[k][0]
				res := results[p][idx[p]]
				idx[p]++
				if conc {
					// return values depend on the interleaving with Shutdown: not an output
					res = "ok"
				}
				out.Line("%s", res)
			}
			i = j
			continue
		}
		i++
		switch {
		case op[0] == "startup" && len(op) == 1:
			if r.started {
				out.Line("bad-op")
				continue
			}
			switch {
			case r.shutCall:
				out.Cov("startup.after-shutdown")
			case len(r.lin) > 0:
				out.Cov("startup.late")
			default:
				out.Cov("startup.first")
			}
			r.baseG = runtime.NumGoroutine()
			r.ps.Startup()
			r.started = true
			r.startedAt = len(r.lin)
			out.Line("ok")
		case op[0] == "sync" && len(op) == 1:
			out.Line("%s", r.syncLine())
		default:
			call, ok := parseCall(op)
			if !ok {
				out.Line("bad-op")
				continue
			}
			out.Cov("op." + call.kind)
			if r.shutCall {
				out.Cov("op.after-shutdown." + call.kind)
			}
			res := r.do(call)
			if !conc {
				r.lin = append(r.lin, call)
			}
			if call.kind == "shutdown" {
				r.shutCall = true
			}
			out.Line("%s", res)
		}
	}
	out.Line("end %s", r.syncLine())
	if r.startedAt < 0 {
		out.Cov("startup.never")
	}
	// ---- oracle (from the property text), on everything observed up to here
	r.h.mu.Lock()
	observed := append([]item{}, r.h.log...)
	r.h.mu.Unlock()
	oracle(r.lin, r.startedAt >= 0, observed, out)
	// ---- cleanup: stop the goroutine (unobserved)
	if r.started && !r.shutCall {
		r.ps.Shutdown()
		r.shutCall = true
		r.waitExit()
	}
}

// ---------------------------------------------------------------- oracle

type key struct{ s, t int }

type expItem struct {
	ev    int
	close bool
}

// oracle: interval reconstruction.  For every (subscriber, topic): a subscription starts at a
// `sub t s` while none is open, and ends at the first following `close t`, `unsub s` or
// `shutdown`.  The subscriber must receive exactly the events published on t inside the
// interval, in order, then exactly one OnClose(t); nothing outside intervals.  Calls after the
// first Shutdown are not part of the history (the publisher is shut down).
func oracle(lin []apiCall, started bool, observed []item, out *reg.Out) {
	exp := map[key][]expItem{}
	open := map[key]bool{}
	ended := map[key]bool{}
	lateEv := map[key]map[int]bool{} // events published on t while (s,t) was closed after an earlier subscription
	markLate := func(t, e int) {
		for k := range ended {
			if k.t == t && !open[k] {
				if lateEv[k] == nil {
					lateEv[k] = map[int]bool{}
				}
				lateEv[k][e] = true
			}
		}
	}
	endIt := func(k key) {
		exp[k] = append(exp[k], expItem{close: true})
		delete(open, k)
		ended[k] = true
	}
	shut := false
	for _, c := range lin {
		if shut {
			if c.kind == "pub" {
				markLate(c.t, c.e)
			}
			continue
		}
		switch c.kind {
		case "sub":
			k := key{c.s, c.t}
			if open[k] {
				out.Cov("sub.dup")
			} else {
				out.Cov("sub.new")
			}
			open[k] = true
		case "pub":
			n := 0
			for k := range open {
				if k.t == c.t {
					exp[k] = append(exp[k], expItem{ev: c.e})
					n++
				}
			}
			markLate(c.t, c.e)
			out.Cov(fmt.Sprintf("pub.receivers%d", min(n, 3)))
		case "close":
			n := 0
			for k := range open {
				if k.t == c.t {
					endIt(k)
					n++
				}
			}
			out.Cov(fmt.Sprintf("close.subs%d", min(n, 3)))
		case "unsub":
			n := 0
			for k := range open {
				if k.s == c.s {
					endIt(k)
					n++
				}
			}
			out.Cov(fmt.Sprintf("unsub.topics%d", min(n, 3)))
		case "shutdown":
			n := 0
			for k := range open {
				endIt(k)
				n++
			}
			out.Cov(fmt.Sprintf("shutdown.open%d", min(n, 3)))
			shut = true
		}
	}
	if !started {
		// no goroutine: nothing may be delivered at all
		exp = map[key][]expItem{}
	}
	act := map[key][]expItem{}
	for _, it := range observed {
		k := key{it.sub, it.topic}
		act[k] = append(act[k], expItem{ev: it.ev, close: it.close})
	}
	keys := map[key]bool{}
	for k := range exp {
		keys[k] = true
	}
	for k := range act {
		keys[k] = true
	}
	var ks []key
	for k := range keys {
		ks = append(ks, k)
	}
	sort.Slice(ks, func(i, j int) bool { return ks[i].s < ks[j].s || ks[i].s == ks[j].s && ks[i].t < ks[j].t })
	for _, k := range ks {
		if cls, msg := compare(exp[k], act[k], lateEv[k]); cls != "" {
			out.Fail(cls, "subscriber %d topic %d: %s; expected %s got %s", k.s, k.t, msg, fmtItems(exp[k]), fmtItems(act[k]))
		}
	}
}

func fmtItems(xs []expItem) string {
	var p []string
	for _, x := range xs {
		if x.close {
			p = append(p, "close")
		} else {
			p = append(p, strconv.Itoa(x.ev))
		}
	}
	return "[" + strings.Join(p, " ") + "]"
}

func compare(exp, act []expItem, late map[int]bool) (string, string) {
	same := len(exp) == len(act)
	if same {
		for i := range exp {
			if exp[i] != act[i] {
				same = false
				break
			}
		}
	}
	if same {
		return "", ""
	}
	cnt := map[int]int{}
	var expEv, actEv []int
	expC, actC := 0, 0
	for _, x := range exp {
		if x.close {
			expC++
		} else {
			cnt[x.ev]++
			expEv = append(expEv, x.ev)
		}
	}
	for _, x := range act {
		if x.close {
			actC++
			continue
		}
		actEv = append(actEv, x.ev)
		cnt[x.ev]--
		if cnt[x.ev] < 0 {
			if late[x.ev] {
				return "after-close", fmt.Sprintf("event %d delivered although the subscription had ended", x.ev)
			}
			return "extra-event", fmt.Sprintf("event %d delivered outside any subscription interval (or twice)", x.ev)
		}
	}
	for e, n := range cnt {
		if n > 0 {
			return "missing-event", fmt.Sprintf("event %d published inside the subscription was not delivered", e)
		}
	}
	if expC != actC {
		return "close-count", fmt.Sprintf("%d OnClose calls for %d ended subscriptions", actC, expC)
	}
	for i := range expEv {
		if expEv[i] != actEv[i] {
			return "order", "events delivered out of publication order"
		}
	}
	return "after-close", "OnClose not at the end of its subscription interval"
}
