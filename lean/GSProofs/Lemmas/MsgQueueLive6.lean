import GSProofs.Lemmas.MsgQueueLive5
/-!
# Message queue liveness, part 6: the signal invariant in all reachable states; the variant rule
-/
namespace GS.MQ
open GS.Alloc GS.Temporal

/-- the signal invariant and the retry bound, together -/
def TK (s : State) : Prop := TI s ∧ PcOK s

theorem attempt_tk (pick : Pick) {s s1 : State} {m : InFlight} (i : Nat) (r : Res s s1) (h : TI s) :
    TK (s1.attempt pick m i) := by
  unfold State.attempt
  split
  · next hi =>
    have r' : Res s ({ s1.emit [Event.wire m.topic i] with pc := .sending m i } : State) := r.trans (Res.fields rfl rfl rfl)
    exact ⟨r'.ti h, hi⟩
  · obtain ⟨f1, f2⟩ := finish_res (s1.publishError pick m) m
    exact ⟨((r.trans (publishError_res pick s1 m)).trans f1).ti h, (idle_ok f2).1⟩

theorem errfin_tk (pick : Pick) {s s1 : State} {m : InFlight} (r : Res s s1) (h : TI s) :
    TK ((s1.publishError pick m).finish m) := by
  obtain ⟨f1, f2⟩ := finish_res (s1.publishError pick m) m
  exact ⟨((r.trans (publishError_res pick s1 m)).trans f1).ti h, (idle_ok f2).1⟩

theorem ack_tk (pick : Pick) {s : State} (h : TK s) (ok : Bool) : TK (s.ack pick ok) := by
  obtain ⟨hti, hok⟩ := h
  obtain ⟨peer, maxRetries, builders, nextTopic, token, done, sender, pc, closedStreams, waiters,
    nextTicket, topics, pubClosed, alloc, log⟩ := s
  cases pc with
  | idle => exact ⟨hti, hok⟩
  | exited => exact ⟨hti, hok⟩
  | exiting =>
    unfold State.ack
    simp only
    have f := (allocStep_quiet pick (⟨peer, maxRetries, builders, nextTopic, token, done, sender, .exiting, closedStreams, waiters,
      nextTicket, topics, pubClosed, alloc, log⟩ : State) (.releasePeer peer))
    have r : Res (⟨peer, maxRetries, builders, nextTopic, token, done, sender, .exiting, closedStreams, waiters,
      nextTicket, topics, pubClosed, alloc, log⟩ : State)
      ({ ((State.allocStep pick (⟨peer, maxRetries, builders, nextTopic, token, done, sender, .exiting, closedStreams, waiters,
      nextTicket, topics, pubClosed, alloc, log⟩ : State) (.releasePeer peer)).1.emit [Event.exitCallback]) with pc := .exited } : State) := by
      exact Res.fields rfl rfl rfl
    exact ⟨r.ti hti, trivial⟩
  | opening m r =>
    cases r with
    | none =>
      unfold State.ack
      simp only
      split
      · exact attempt_tk pick 0 (Res.fields (s' := ⟨peer, maxRetries, builders, nextTopic, token, done, true, .opening m none, closedStreams, waiters,
          nextTicket, topics, pubClosed, alloc, log⟩) rfl rfl rfl) hti
      · generalize hs1 : State.publishError pick (⟨peer, maxRetries, builders, nextTopic, token, done, sender, .opening m none,
            closedStreams, waiters, nextTicket, topics, pubClosed, alloc, log⟩ : State) m = s1
        have r1 : Res (⟨peer, maxRetries, builders, nextTopic, token, done, sender, .opening m none,
            closedStreams, waiters, nextTicket, topics, pubClosed, alloc, log⟩ : State) s1 := by
          rw [← hs1]; exact publishError_res pick _ m
        obtain ⟨f1, f2⟩ := finish_res ({ s1 with done := true } : State) m
        exact ⟨((r1.trans (Res.fields (s' := { s1 with done := true }) rfl rfl rfl)).trans f1).ti hti, (idle_ok f2).1⟩
    | some i =>
      unfold State.ack
      simp only
      split
      · exact attempt_tk pick (i + 1) (Res.fields (s' := ⟨peer, maxRetries, builders, nextTopic, token, done, true, .opening m (some i), closedStreams, waiters,
          nextTicket, topics, pubClosed, alloc, log⟩) rfl rfl rfl) hti
      · exact errfin_tk pick (Res.refl _) hti
  | sending m i =>
    unfold State.ack
    simp only
    split
    · obtain ⟨f1, f2⟩ := finish_res (State.publishSent pick (⟨peer, maxRetries, builders, nextTopic, token, done, sender, .sending m i,
            closedStreams, waiters, nextTicket, topics, pubClosed, alloc, log⟩ : State) m) m
      exact ⟨((publishSent_res pick _ m).trans f1).ti hti, (idle_ok f2).1⟩
    · exact ⟨hti, hok⟩
  | resetting m i =>
    unfold State.ack
    simp only
    split
    · exact errfin_tk pick (Res.refl _) hti
    · exact ⟨hti, hok⟩

theorem run_tk (pick : Pick) {s : State} (h : TK s) (pw : Bool) : TK (s.run pick pw) := by
  obtain ⟨hti, hok⟩ := h
  obtain ⟨peer, maxRetries, builders, nextTopic, token, done, sender, pc, closedStreams, waiters,
    nextTicket, topics, pubClosed, alloc, log⟩ := s
  cases pc with
  | idle =>
    unfold State.run
    simp only
    split
    · obtain ⟨e1, e2⟩ := extract_shape (⟨peer, maxRetries, builders, nextTopic, false, done, sender, .idle, closedStreams, waiters,
          nextTicket, topics, pubClosed, alloc, log⟩ : State)
      cases he : (⟨peer, maxRetries, builders, nextTopic, false, done, sender, .idle, closedStreams, waiters,
          nextTicket, topics, pubClosed, alloc, log⟩ : State).extract with
      | mk s1 om =>
        cases om with
        | none =>
          obtain ⟨a1, _, _, a4, _⟩ := e1 s1 he
          refine ⟨?_, ?_⟩
          · intro ⟨x, hx, _⟩; rw [a1] at hx; cases hx
          · exact (idle_ok (s := s1) a4).1
        | some m =>
          obtain ⟨pre, b, _, _, _, _, htk, _⟩ := e2 s1 m he
          have hti1 : TI s1 := by
            intro ⟨x, hx, _⟩
            rw [htk]
            cases hr : s1.builders with
            | nil => rw [hr] at hx; cases hx
            | cons _ _ => simp
          have f2 := publish_frame s1 m.topic Kind.queued
          have r2 : Res s1 (s1.publish m.topic Kind.queued) := Res.fields f2.builders f2.token f2.maxRetries
          show TK (if (s1.publish m.topic Kind.queued).sender = true then _ else _)
          split
          · exact attempt_tk pick 0 r2 hti1
          · have r' : Res s1 ({ s1.publish m.topic Kind.queued with pc := .opening m none } : State) := r2.trans (Res.fields rfl rfl rfl)
            exact ⟨r'.ti hti1, trivial⟩
    · split
      · have key : ∀ s1 : State, TI s1 → TK ({ (if s1.sender = true then s1.emit [Event.senderClosed] else s1) with pc := .exiting }) := by
          intro s1 h1
          have r : Res s1 ({ (if s1.sender = true then s1.emit [Event.senderClosed] else s1) with pc := .exiting } : State) := by
            refine Res.fields ?_ ?_ ?_
            · show (if s1.sender = true then s1.emit [Event.senderClosed] else s1).builders = _
              split <;> rfl
            · show (if s1.sender = true then s1.emit [Event.senderClosed] else s1).token = _
              split <;> rfl
            · show (if s1.sender = true then s1.emit [Event.senderClosed] else s1).maxRetries = _
              split <;> rfl
          exact ⟨r.ti h1, trivial⟩
        apply key
        intro ⟨x, hx, _⟩
        rw [drain_builders_nil pick builders.length _ (Nat.le_refl _)] at hx
        cases hx
      · exact ⟨hti, hok⟩
  | opening m r => exact ⟨hti, hok⟩
  | sending m i => exact ⟨hti, hok⟩
  | resetting m i => exact ⟨hti, hok⟩
  | exiting => exact ⟨hti, hok⟩
  | exited => exact ⟨hti, hok⟩

/-- the drain loop keeps the signal invariant -/
theorem drain_ti (pick : Pick) : ∀ (fuel : Nat) (s : State), TI s → TI (State.drain pick fuel s)
  | 0, _, h => h
  | fuel + 1, s, h => by
    obtain ⟨e1, e2⟩ := extract_shape s
    unfold State.drain
    cases he : s.extract with
    | mk s' om =>
      cases om with
      | none =>
        obtain ⟨a1, _⟩ := e1 s' he
        simp only
        intro ⟨x, hx, _⟩; rw [a1] at hx; cases hx
      | some m =>
        obtain ⟨pre, b, _, _, _, _, htk, _⟩ := e2 s' m he
        have hti1 : TI s' := by
          intro ⟨x, hx, _⟩
          rw [htk]
          cases hr : s'.builders with
          | nil => rw [hr] at hx; cases hx
          | cons _ _ => simp
        simp only
        apply drain_ti pick fuel
        have r := publishError_res pick s' m
        have f := closeTopic_frame (s'.publishError pick m) m.topic
        exact (r.trans (Res.fields f.builders f.token f.maxRetries)).ti hti1

/-- what callers' steps keep of `TK`, on any queue -/
structure KeepsT (s s' : State) : Prop where
  ti : TI s → TI s'
  maxRetries : s'.maxRetries = s.maxRetries
  pc : s'.pc = s.pc

theorem KeepsT.trans {a b c : State} (h1 : KeepsT a b) (h2 : KeepsT b c) : KeepsT a c :=
  ⟨fun t => h2.ti (h1.ti t), h2.maxRetries.trans h1.maxRetries, h2.pc.trans h1.pc⟩

theorem KeepsT.fields {s s' : State} (hb : s'.builders = s.builders) (ht : s'.token = s.token)
    (hm : s'.maxRetries = s.maxRetries) (hp : s'.pc = s.pc) : KeepsT s s' :=
  ⟨(Keeps.fields hb ht hm hp).ti, hm, hp⟩

theorem Keeps.t {s s' : State} (k : Keeps s s') : KeepsT s s' := ⟨k.ti, k.maxRetries, k.pc⟩

theorem KeepsT.tk {s s' : State} (k : KeepsT s s') (h : TK s) : TK s' :=
  ⟨k.ti h.1, by unfold PcOK; rw [k.pc, k.maxRetries]; exact h.2⟩

theorem buildMsg_keepsT (pick : Pick) (s : State) (ticket : Nat) (tx : Tx) (size : Nat) :
    KeepsT s (s.buildMsg pick ticket tx size) := by
  have k := (buildMessage_keeps pick s ticket tx size).t
  unfold State.buildMsg
  split
  · obtain ⟨d1, _, d3, _⟩ := drain_shape pick 1 (s.buildMessage pick ticket tx size)
    exact k.trans ⟨drain_ti pick 1 _, d3, d1⟩
  · exact k

theorem buildWith_keepsT (pick : Pick) (s : State) (tx : Tx) (size : Nat) : KeepsT s (buildWith pick s tx size) := by
  unfold buildWith
  simp only
  have k0 : KeepsT s ({ s with nextTicket := s.nextTicket + 1 } : State) := KeepsT.fields rfl rfl rfl rfl
  split
  · exact k0.trans (buildMsg_keepsT _ _ _ _ _)
  · have k1 := k0.trans (allocStep_keeps pick ({ s with nextTicket := s.nextTicket + 1 } : State) (.alloc s.peer size s.nextTicket)).t
    split
    · exact k1.trans (buildMsg_keepsT _ _ _ _ _)
    · exact k1.trans (KeepsT.fields rfl rfl rfl rfl)

theorem step_tk (pick : Pick) {s : State} (h : TK s) (a : Act) : TK (step pick s a) := by
  cases a with
  | run pw => exact run_tk pick h pw
  | ack ok => exact ack_tk pick h ok
  | build tx =>
    show TK (s.build pick tx)
    rw [build_eq]; split
    · exact h
    · exact (buildWith_keepsT pick s tx _).tk h
  | wake t =>
    show TK (s.wake pick t)
    unfold State.wake
    split
    · exact h
    · next w _ =>
      simp only
      have k0 : KeepsT s ({ s with waiters := s.waiters.filter (·.ticket != w.ticket) } : State) := KeepsT.fields rfl rfl rfl rfl
      split
      · exact (k0.trans (buildMsg_keepsT _ _ _ _ _)).tk h
      · exact (k0.trans (KeepsT.fields rfl rfl rfl rfl)).tk h
  | shutdown =>
    exact (KeepsT.fields (s := s) (s' := step pick s .shutdown) rfl rfl rfl rfl).tk h
  | env op =>
    exact (allocStep_keeps pick s op).t.tk h

theorem init_tk (peer mr mt mp : Nat) : TK (init peer mr mt mp) :=
  ⟨by intro ⟨x, hx, _⟩; simp [init] at hx, trivial⟩

/-- **the variant rule** for message `t` -/
theorem live_rule (pick : Pick) (t : Nat) : VariantRule (LSys pick) fairAct (LiveP t) (LiveQ t) (V t) where
  progress := by
    intro s hP _
    obtain ⟨hn, hti, hok, hrun, hp⟩ := hP
    cases hpc : s.pc with
    | idle =>
      refine ⟨.run true, trivial, ?_⟩
      have htok : s.token = true := by
        rcases hp with ⟨x, hx, _, he⟩ | ⟨m, hm, _⟩
        · exact hti ⟨x, hx, he⟩
        · rw [hpc] at hm; cases hm
      show (if runEnabled s then some (s.run pick true) else none).isSome = true
      have : runEnabled s = true := by unfold runEnabled; rw [hpc, htok]; rfl
      rw [this]; rfl
    | exiting => exact absurd hpc hrun.1
    | exited => exact absurd hpc hrun.2
    | opening m r =>
      refine ⟨.ack true, trivial, ?_⟩
      show (if ackEnabled s then some (s.ack pick true) else none).isSome = true
      have : ackEnabled s = true := by unfold ackEnabled; rw [hpc]
      rw [this]; rfl
    | sending m i =>
      refine ⟨.ack true, trivial, ?_⟩
      show (if ackEnabled s then some (s.ack pick true) else none).isSome = true
      have : ackEnabled s = true := by unfold ackEnabled; rw [hpc]
      rw [this]; rfl
    | resetting m i =>
      refine ⟨.ack true, trivial, ?_⟩
      show (if ackEnabled s then some (s.ack pick true) else none).isSome = true
      have : ackEnabled s = true := by unfold ackEnabled; rw [hpc]
      rw [this]; rfl
  keep := by
    intro s a s' hP _ hstep
    cases a with
    | run pw =>
      have hs : (if runEnabled s then some (s.run pick pw) else none) = some s' := hstep
      by_cases hen : runEnabled s = true
      · rw [if_pos hen] at hs; cases hs
        obtain ⟨h1, h2, _⟩ := run_live pick hP pw hen
        exact ⟨h1, h2⟩
      · rw [if_neg hen] at hs; cases hs
    | ack ok =>
      have hs : (if ackEnabled s then some (s.ack pick ok) else none) = some s' := hstep
      by_cases hen : ackEnabled s = true
      · rw [if_pos hen] at hs; cases hs
        obtain ⟨h1, h2⟩ := ack_live pick hP ok hen
        exact ⟨h1, Nat.le_of_lt h2⟩
      · rw [if_neg hen] at hs; cases hs
    | build tx =>
      have hs : some (step pick s (.build tx)) = some s' := hstep
      cases hs
      obtain ⟨h1, h2⟩ := caller_live pick hP (.build tx) (by intro pw h; cases h) (by intro ok h; cases h)
      exact ⟨Or.inl h1, Nat.le_of_eq h2⟩
    | wake w =>
      have hs : some (step pick s (.wake w)) = some s' := hstep
      cases hs
      obtain ⟨h1, h2⟩ := caller_live pick hP (.wake w) (by intro pw h; cases h) (by intro ok h; cases h)
      exact ⟨Or.inl h1, Nat.le_of_eq h2⟩
    | shutdown =>
      have hs : some (step pick s .shutdown) = some s' := hstep
      cases hs
      obtain ⟨h1, h2⟩ := caller_live pick hP .shutdown (by intro pw h; cases h) (by intro ok h; cases h)
      exact ⟨Or.inl h1, Nat.le_of_eq h2⟩
    | env op =>
      have hs : some (step pick s (.env op)) = some s' := hstep
      cases hs
      obtain ⟨h1, h2⟩ := caller_live pick hP (.env op) (by intro pw h; cases h) (by intro ok h; cases h)
      exact ⟨Or.inl h1, Nat.le_of_eq h2⟩
  decr := by
    intro s a s' hP _ hf hstep
    cases a with
    | run pw =>
      have hs : (if runEnabled s then some (s.run pick pw) else none) = some s' := hstep
      by_cases hen : runEnabled s = true
      · rw [if_pos hen] at hs; cases hs
        exact (run_live pick hP pw hen).2.2
      · rw [if_neg hen] at hs; cases hs
    | ack ok =>
      have hs : (if ackEnabled s then some (s.ack pick ok) else none) = some s' := hstep
      by_cases hen : ackEnabled s = true
      · rw [if_pos hen] at hs; cases hs
        exact Or.inr (ack_live pick hP ok hen).2
      · rw [if_neg hen] at hs; cases hs
    | build tx => exact absurd hf (fun h => h)
    | wake w => exact absurd hf (fun h => h)
    | shutdown => exact absurd hf (fun h => h)
    | env op => exact absurd hf (fun h => h)

end GS.MQ
