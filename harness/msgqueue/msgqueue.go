// Package msgqueue drives the real messagequeue.MessageQueue (component "msgqueue", properties
// C15, C16 and the FIFO part of C17) together with the real allocator.Allocator, the real
// notifications publisher (inside the queue) and the real responseassembler (transactions, operation
// sizes, stream closing).  Only the network is fake: every ConnectTo / SendMsg / Reset call of the
// queue goroutine, and its final ReleasePeerMemory, block until the script answers them.
//
// Determinism.  After every script operation the harness waits until every other goroutine of the
// process is parked (channel receive, select, cond wait): then the queue goroutine is either inside
// one of the fake calls, or in the select of runQueue, or gone; the publisher goroutine has
// delivered everything; every transaction has either returned or waits for memory.  (The only
// self-waking park, the 100ms timer after a failed SendMsg, is always followed by a ConnectTo, which
// the harness waits for explicitly.)  The one choice the Go scheduler makes on its own -- which
// ready case the select of runQueue takes when both outgoingWork and done are ready -- is part of
// the script (`ack … n|d`); a run that took the other branch is discarded and the case re-run.
// Cases therefore run one at a time per process; `run` fans them out over worker processes.
package msgqueue

import (
	"bufio"
	"bytes"
	"context"
	"errors"
	"fmt"
	"io"
	"math/rand"
	"os"
	"os/exec"
	"runtime"
	"sort"
	"strconv"
	"strings"
	"sync"
	"sync/atomic"
	"time"

	"github.com/ipfs/go-cid"
	"github.com/ipfs/go-graphsync"
	"github.com/ipfs/go-graphsync/allocator"
	gsmsg "github.com/ipfs/go-graphsync/message"
	"github.com/ipfs/go-graphsync/messagequeue"
	gsnet "github.com/ipfs/go-graphsync/network"
	"github.com/ipfs/go-graphsync/notifications"
	"github.com/ipfs/go-graphsync/responsemanager/responseassembler"
	cidlink "github.com/ipld/go-ipld-prime/linking/cid"
	"github.com/ipld/go-ipld-prime/node/basicnode"
	"github.com/ipld/go-ipld-prime/traversal/selector/builder"
	"github.com/libp2p/go-libp2p/core/peer"
	mh "github.com/multiformats/go-multihash"

	"verifharness/reg"
)

func init() {
	reg.Register(&reg.Component{Name: "msgqueue", Gen: Gen, Run: Run})
}

// ---------------------------------------------------------------- small helpers

var zeros = make([]byte, 1<<20)

var cidCache = map[int]cid.Cid{}
var cidRev = map[string]int{}

func mkCid(i int) cid.Cid {
	if c, ok := cidCache[i]; ok {
		return c
	}
	h, _ := mh.Sum([]byte(fmt.Sprintf("verif-block-%d", i)), mh.SHA2_256, -1)
	c := cid.NewCidV1(cid.Raw, h)
	cidCache[i] = c
	cidRev[c.KeyString()] = i
	return c
}

func mkReqID(i int) graphsync.RequestID {
	b := make([]byte, 16)
	copy(b, []byte("verif-request"))
	b[14] = byte(i >> 8)
	b[15] = byte(i)
	id, err := graphsync.ParseRequestID(b)
	if err != nil {
		panic(err)
	}
	return id
}

// encoded length of a dag-cbor byte string with payload length l
func cborBytesLen(l int) int {
	switch {
	case l < 24:
		return l + 1
	case l < 256:
		return l + 2
	case l < 65536:
		return l + 3
	default:
		return l + 5
	}
}

// payload length whose encoding has exactly enc bytes (-1 if none)
func payloadFor(enc int) int {
	for _, h := range []int{1, 2, 3, 5} {
		if l := enc - h; l >= 0 && cborBytesLen(l) == enc {
			return l
		}
	}
	return -1
}

// ---------------------------------------------------------------- generator

var blockSizes = []int{100, 1000, 100000, 200000, 300000, 600000}
var extEncs = []int{0, 11, 503, 70003}

type genState struct {
	r        *rand.Rand
	nextCid  int
	live     []int       // cids used with a block by requests still in progress
	old      []int       // cids of blocks sent by requests that have finished since
	sizeOf   map[int]int // cid -> size
	finished map[int]bool
	fails    int
}

func (g *genState) items(req int) []string {
	n := 1 + g.r.Intn(3)
	var out []string
	for i := 0; i < n; i++ {
		switch k := g.r.Intn(100); {
		case k < 55:
			var c int
			if len(g.live) > 0 && g.r.Intn(5) == 0 {
				c = g.live[g.r.Intn(len(g.live))]
			} else if len(g.old) > 0 && g.r.Intn(6) == 0 {
				// a block of a finished request: the link tracker forgot it, so it is put on the wire
				// again -- possibly into a message that already carries it (counted twice, carried once)
				c = g.old[g.r.Intn(len(g.old))]
				if !g.finished[req] {
					g.live = append(g.live, c)
				}
			} else {
				c = g.nextCid
				g.nextCid++
				g.sizeOf[c] = blockSizes[g.r.Intn(len(blockSizes))]
				if !g.finished[req] {
					g.live = append(g.live, c)
				}
			}
			out = append(out, fmt.Sprintf("b%d:%d", c, g.sizeOf[c]))
		case k < 63:
			out = append(out, fmt.Sprintf("m%d", g.nextCid))
			g.nextCid++
		case k < 85:
			out = append(out, fmt.Sprintf("e%d", extEncs[g.r.Intn(len(extEncs))]))
		case k < 90:
			out = append(out, "p")
		default:
			// finishing clears dedup state: blocks of that request may be sent again; cids of a
			// finished request are not reused so that no block enters one message twice
			if g.r.Intn(2) == 0 {
				out = append(out, "f")
			} else {
				out = append(out, "x31")
			}
			g.finished[req] = true
			g.old = append(g.old, g.live...)
			g.live = nil
		}
	}
	return out
}

func genCase(r *rand.Rand, w *bufio.Writer, id string) {
	g := &genState{r: r, nextCid: 1, sizeOf: map[int]int{}, finished: map[int]bool{}}
	totals := []int{1 << 30, 1 << 30, 900000, 700000}
	peers := []int{1 << 30, 1 << 30, 700000, 600000, 300000}
	retries := []int{1, 1, 2, 3, 0}
	subs := []string{"0 1 2 3", "0 1 2 3", "0 1 2 2", "0 0 1 1"}
	fmt.Fprintf(w, "case %s\ncfg %d %d %d %s\n", id, totals[r.Intn(len(totals))], peers[r.Intn(len(peers))],
		retries[r.Intn(len(retries))], subs[r.Intn(len(subs))])
	n := 3 + r.Intn(22)
	overlapCase := r.Intn(25) == 0 // a second queue of the same peer is alive (C17 overlap)
	shut := false
	hint := func() string {
		// once Shutdown has been called every `n` is a coin the real scheduler must also throw:
		// keep them rare so that the scripted schedule is reproduced within a few re-runs
		if shut {
			if r.Intn(6) == 0 {
				return "n"
			}
			return "d"
		}
		if r.Intn(2) == 0 {
			return "n"
		}
		return "d"
	}
	for i := 0; i < n; i++ {
		switch k := r.Intn(100); {
		case k < 38:
			req := r.Intn(4)
			if r.Intn(3) > 0 {
				req = r.Intn(2)
			}
			fmt.Fprintf(w, "tx %d %s\n", req, strings.Join(g.items(req), " "))
		case k < 42:
			id := 100 + r.Intn(3)
			fmt.Fprintf(w, "rq %d %d\n", id, 7+id%2)
		case k < 80:
			res := "ok"
			if x := r.Intn(100); x < 22 && g.fails < 3 {
				res = "fail"
				g.fails++
			} else if x < 27 && g.fails < 3 {
				res = "fail2"
				g.fails++
			}
			fmt.Fprintf(w, "ack %s %s\n", res, hint())
		case k < 89:
			fmt.Fprintf(w, "wake\n")
		case k < 90:
			fmt.Fprintf(w, "shutdown\n")
			shut = true
		case k < 96:
			fmt.Fprintf(w, "xalloc %d\n", []int{100000, 300000, 600000}[r.Intn(3)])
		default:
			fmt.Fprintf(w, "xrel %d\n", []int{100000, 300000, 600000}[r.Intn(3)])
		}
		if overlapCase && r.Intn(5) == 0 {
			switch r.Intn(4) {
			case 0, 1:
				fmt.Fprintf(w, "oalloc %d\n", []int{1000, 100000}[r.Intn(2)])
			case 2:
				fmt.Fprintf(w, "orel %d\n", []int{1000, 100000}[r.Intn(2)])
			default:
				fmt.Fprintf(w, "orelpeer\n")
			}
		}
	}
	if r.Intn(4) == 0 {
		fmt.Fprintf(w, "shutdown\n")
	}
	fmt.Fprintf(w, "finish\n")
}

// Gen: random scripts; the thorough tier adds, for a set of base transaction scripts, every
// placement of send/connect results of length <= 5 and every shutdown position.
// genEmptyMid: an EMPTY builder in the middle of the queue.  A transaction of a request waits for
// memory, the request's earlier message fails (stream closed), another message goes in flight, a
// non-empty builder A is queued, the waiting transaction continues: it does not fit into A (size
// limit), starts its own builder and -- stream closed -- adds nothing; a block > 512KiB cannot join the
// empty builder and starts the next one.  Then the queue comes to rest, or is shut down at some
// point, or more traffic arrives.  Every message behind the empty builder must still be reported.
func genEmptyMid(r *rand.Rand, w *bufio.Writer, id string) {
	a := []int{300000, 400000, 500000}[r.Intn(3)]
	x := 520000 - a + []int{0, 50000, 100000}[r.Intn(3)]
	big := []int{530000, 600000, 700000}[r.Intn(3)]
	subs := []string{"0 1 2 3", "0 1 2 2", "0 0 1 1"}[r.Intn(3)]
	fmt.Fprintf(w, "case %s\ncfg 1300000 1073741824 1 %s\n", id, subs)
	fmt.Fprintf(w, "xalloc 1000000\ntx 0 b1:100000\nack ok n\ntx 0 b2:%d\nack fail n\nack ok n\nack ok n\nxrel 1000000\n", x+20000)
	fmt.Fprintf(w, "tx 2 b3:1000\ntx 1 b4:%d\nwake\ntx 3 b5:%d\n", a, big)
	if r.Intn(3) == 0 {
		fmt.Fprintf(w, "tx 1 b6:%d e11\n", big) // a second big message behind it
	}
	switch r.Intn(5) {
	case 0: // rest
		fmt.Fprintf(w, "ack ok n\nack ok n\nack ok n\nack ok n\n")
	case 1: // shutdown while the message before A is in flight
		fmt.Fprintf(w, "shutdown\nack ok %s\n", []string{"n", "d"}[r.Intn(2)])
	case 2: // shutdown while A is in flight
		fmt.Fprintf(w, "ack ok n\nshutdown\nack ok d\n")
	case 3: // A fails
		fmt.Fprintf(w, "ack ok n\nack fail n\nack ok n\nack ok n\n")
	default: // straight to the epilogue
	}
	fmt.Fprintf(w, "finish\n")
}

// genDoubleBlock: the SAME block queued twice into one pending message under two reservations (the
// first request finished, so the link tracker lets the second one -- another request, or the same
// request again -- send it again), then an earlier message of those requests fails and the pending
// message is scrubbed (of both, or of one of them), or is sent.  Every reserved byte must come back.
func genDoubleBlock(r *rand.Rand, w *bufio.Writer, id string) {
	sz := []int{1000, 100000, 200000}[r.Intn(3)]
	second := []int{1, 1, 0}[r.Intn(3)] // the request that queues the block the second time
	fmt.Fprintf(w, "case %s\ncfg 1073741824 1073741824 1 0 1 2 3\n", id)
	fmt.Fprintf(w, "tx 2 b9:100\n")
	switch r.Intn(3) {
	case 0: // the message that will fail carries both requests
		fmt.Fprintf(w, "tx 0 b1:1000\ntx 1 b2:1000\n")
	case 1: // only the first
		fmt.Fprintf(w, "tx 0 b1:1000\n")
	default: // only the second
		fmt.Fprintf(w, "tx %d b2:1000\n", second)
	}
	fmt.Fprintf(w, "ack ok n\nack ok n\n") // message of request 2 sent, the next one is in SendMsg
	fmt.Fprintf(w, "tx 0 b5:%d f\ntx %d b5:%d\n", sz, second, sz)
	if r.Intn(3) == 0 {
		fmt.Fprintf(w, "tx 3 b6:1000 b5:%d\n", sz) // and a third time, by a bystander
	}
	switch r.Intn(4) {
	case 0, 1: // the message in flight fails: retries exhausted
		fmt.Fprintf(w, "ack fail n\nack ok n\nack ok n\n")
	case 2: // it is sent
		fmt.Fprintf(w, "ack ok n\n")
	default: // shutdown
		fmt.Fprintf(w, "shutdown\nack fail d\nack ok d\n")
	}
	fmt.Fprintf(w, "finish\n")
}

// genRoomInFirst: the sender is busy (blocked in SendMsg); behind the message in flight a SMALL block
// is queued (its builder has room left), then a LARGE block that does not fit that builder (next
// builder), then small blocks again.  The later small blocks belong behind the large one: they may
// share its message (the last builder) but must not travel in the earlier message that has room.
func genRoomInFirst(r *rand.Rand, w *bufio.Writer, id string) {
	small := []int{100, 1000, 20000}[r.Intn(3)]
	large := []int{400000, 500000, 524000}[r.Intn(3)]
	fmt.Fprintf(w, "case %s\ncfg 1073741824 1073741824 1 0 1 2 3\n", id)
	fmt.Fprintf(w, "tx 0 b1:500\nack ok n\n") // message 0 in flight
	fmt.Fprintf(w, "tx %d b2:%d\n", r.Intn(2), small)
	fmt.Fprintf(w, "tx 1 b3:%d\n", large)
	fmt.Fprintf(w, "tx %d b4:%d\n", []int{0, 2, 3}[r.Intn(3)], []int{100, 700}[r.Intn(2)])
	if r.Intn(2) == 0 {
		fmt.Fprintf(w, "tx 2 b5:300 e11\n")
	}
	switch r.Intn(3) {
	case 0:
		fmt.Fprintf(w, "ack ok n\nack ok n\nack ok n\n")
	case 1:
		fmt.Fprintf(w, "ack ok n\nack fail n\nack ok n\nack ok n\nack ok n\n")
	default:
	}
	fmt.Fprintf(w, "finish\n")
}

func Gen(seed int64, n int, tier string, w *bufio.Writer) {
	r := rand.New(rand.NewSource(seed))
	for i := 0; i < n; i++ {
		genCase(r, w, fmt.Sprintf("r%d", i))
	}
	for i := 0; i < 12+n/40; i++ {
		genEmptyMid(r, w, fmt.Sprintf("em%d", i))
	}
	for i := 0; i < 16+n/40; i++ {
		genDoubleBlock(r, w, fmt.Sprintf("db%d", i))
	}
	for i := 0; i < 10+n/60; i++ {
		genRoomInFirst(r, w, fmt.Sprintf("rf%d", i))
	}
	if tier == "thorough" {
		bases := [][]string{
			{"tx 0 b1:300000", "tx 0 b2:300000 e503", "tx 1 b3:300000", "tx 0 b4:100 f"},
			{"tx 0 b1:1000 e11", "tx 1 b2:600000", "tx 0 b3:200000", "tx 1 m9 x31"},
			{"tx 0 b1:300000", "tx 1 b1:300000 b2:1000", "rq 100 7", "tx 0 e70003"},
		}
		cfgs := []string{"cfg 1073741824 1073741824 1 0 1 2 3", "cfg 700000 600000 2 0 0 1 1"}
		results := []string{"ok", "fail"}
		k := 0
		for _, base := range bases {
			for _, cfg := range cfgs {
				for L := 1; L <= 5; L++ {
					for v := 0; v < 1<<uint(L); v++ {
						for sh := -1; sh <= L; sh += 2 {
							var ops []string
							// first transaction, then acks interleaved with the remaining transactions
							ops = append(ops, base[0])
							bi := 1
							for j := 0; j < L; j++ {
								if sh == j {
									ops = append(ops, "shutdown")
								}
								h := "n"
								if (v>>uint(j))&1 == 1 && j%2 == 1 {
									h = "d"
								}
								ops = append(ops, fmt.Sprintf("ack %s %s", results[(v>>uint(j))&1], h))
								if bi < len(base) {
									ops = append(ops, base[bi])
									bi++
								}
								if j == 2 {
									ops = append(ops, "wake")
								}
							}
							ops = append(ops, "finish")
							fmt.Fprintf(w, "case x%d\n%s\n%s\n", k, cfg, strings.Join(ops, "\n"))
							k++
						}
					}
				}
			}
		}
	}
}

// ---------------------------------------------------------------- run: fan out over worker processes

func Run(cases []reg.Case, out *reg.Out) {
	if os.Getenv("GS_MQ_WORKER") == "1" || len(cases) <= 1 {
		for _, c := range cases {
			runCaseWithRetries(c, out)
		}
		return
	}
	nw := runtime.NumCPU()
	if nw > 12 {
		nw = 12
	}
	if nw > len(cases) {
		nw = len(cases)
	}
	exe, err := os.Executable()
	if err != nil {
		for _, c := range cases {
			runCaseWithRetries(c, out)
		}
		return
	}
	chunk := (len(cases) + nw - 1) / nw
	outs := make([][]byte, nw)
	var wg sync.WaitGroup
	for i := 0; i < nw; i++ {
		lo, hi := i*chunk, (i+1)*chunk
		if lo >= len(cases) {
			break
		}
		if hi > len(cases) {
			hi = len(cases)
		}
		wg.Add(1)
		go func(i int, cs []reg.Case) {
			defer wg.Done()
			var in bytes.Buffer
			for _, c := range cs {
				in.WriteString(c.Header + "\n")
				for _, op := range c.Ops {
					in.WriteString(strings.Join(op, " ") + "\n")
				}
			}
			cmd := exec.Command(exe, "run")
			cmd.Env = append(os.Environ(), "GS_MQ_WORKER=1")
			cmd.Stdin = &in
			cmd.Stderr = os.Stderr
			o, err := cmd.Output()
			if err != nil {
				o = append(o, []byte(fmt.Sprintf("#worker %d failed: %v\n", i, err))...)
			}
			outs[i] = o
		}(i, cases[lo:hi])
	}
	wg.Wait()
	for _, o := range outs {
		out.W.Write(o)
	}
}

// ---------------------------------------------------------------- one execution of one case

type cpInfo struct {
	kind string // connect | send | reset | relpeer
	msg  gsmsg.GraphSyncMessage
}

type note struct {
	topic uint64
	kind  byte // Q S E C
	seq   int64
}

var noteSeq atomic.Int64

type subscriber struct {
	id  int
	mu  sync.Mutex
	log []note
}

func (s *subscriber) OnNext(t notifications.Topic, ev notifications.Event) {
	e, ok := ev.(messagequeue.Event)
	k := byte('?')
	if ok {
		switch e.Name {
		case messagequeue.Queued:
			k = 'Q'
		case messagequeue.Sent:
			k = 'S'
		case messagequeue.Error:
			k = 'E'
		}
	}
	tt, _ := t.(messagequeue.Topic)
	s.mu.Lock()
	s.log = append(s.log, note{uint64(tt), k, noteSeq.Add(1)})
	s.mu.Unlock()
}

func (s *subscriber) OnClose(t notifications.Topic) {
	tt, _ := t.(messagequeue.Topic)
	s.mu.Lock()
	s.log = append(s.log, note{uint64(tt), 'C', noteSeq.Add(1)})
	s.mu.Unlock()
}

// txRec is the harness's own record of one transaction (the C15 ledger entries)
type txRec struct {
	id       int
	req      int
	isReq    bool
	sub      int
	size     uint64 // harness-computed: sent block bytes + encoded extension bytes
	asked    uint64 // what the assembler asked AllocateAndBuildMessage for
	reached  bool   // AllocateAndBuildMessage was called
	fnRan    bool
	attached bool // the build function added its content (stream not closed)
	bidx     int  // index of the builder (creation order) it was built into
	links    []string
	dead     bool // built after the queue goroutine took the done branch: must be rejected with Error (coverage only)
	wipedBy  bool // its reservation was removed by a ReleasePeerMemory while it still held it
	allocErr bool // its allocation channel delivered an error
	state    int  // 0 not built, 1 queued/in flight, 2 resolved (sent/failed), 3 discarded (scrubbed)
	returned atomic.Bool
	sizeSeen bool
	sentCids []int
	buildSeq int  // order in which build functions ran (= queued order)
	shares   bool // links to a block another request's transaction put on the wire (dedup)
	replaced bool // a later transaction set another subscriber for the same request in the same message
}

type otherAlloc struct {
	ch <-chan error
	n  uint64
}

func (e *env) pollOther() {
	rest := e.otherChans[:0]
	for _, o := range e.otherChans {
		select {
		case err := <-o.ch:
			if err == nil {
				e.otherHeld += o.n
			}
		default:
			rest = append(rest, o)
		}
	}
	e.otherChans = rest
}

type waiter struct {
	real   <-chan error
	out    chan error
	has    bool
	val    error
	tx     *txRec
	amount uint64
	wiped  bool // granted, and then removed by a ReleasePeerMemory before the caller continued
}

type env struct {
	arrive  chan cpInfo
	release chan string
	at      *cpInfo
	exited  atomic.Bool
	cbNow   atomic.Bool

	alloc   *allocator.Allocator
	mq      *messagequeue.MessageQueue
	ra      *responseassembler.ResponseAssembler
	streams map[int]responseassembler.ResponseStream
	subs    map[int]*subscriber
	subOf   []int
	marks   map[int]int

	nextSenderErr bool
	afterReset    bool
	shutdownDone  bool // Shutdown() called or the queue shut itself down
	expectConnect bool

	waiters  []*waiter
	cur      *txRec
	txs      []*txRec
	builders map[*messagequeue.Builder]int
	bcids    map[int]map[int]bool
	nextExt  int

	relMu       sync.Mutex
	overRelease [][2]uint64 // (amount, accounted at that moment) of releases larger than what is accounted
	released    uint64
	granted     uint64

	sentOrder []int // builder indexes in first-SendMsg order
	doubled     bool // some block entered one message twice
	overlap     bool // another queue of the same peer used the allocator
	otherHeld   uint64
	// bytes this queue (or a caller of it) still holds although a ReleasePeerMemory -- the exit of
	// another queue of the same peer, or this queue's own exit while a granted caller had not yet
	// continued -- removed them from the allocator, plus bytes the simulated other queue released
	// beyond its holdings.  Releases may exceed what is accounted by at most this much, and the ledger
	// may be short by at most this much; everything else is checked as usual.
	wipedPool     uint64
	stealReported bool
	sloppy        bool // the SIMULATED other queue released more than it held (an artifact of the script, not of the code)
	otherChans  []otherAlloc
	nBuilt    int
	lastSent  int
	exact     bool
}

var errNet = errors.New("scripted network failure")

func (e *env) block(info cpInfo) string {
	e.arrive <- info
	return <-e.release
}

// --- fake MessageNetwork / MessageSender
func (e *env) ConnectTo(context.Context, peer.ID) error {
	switch e.block(cpInfo{kind: "connect"}) {
	case "fail":
		return errNet
	case "fail2":
		e.nextSenderErr = true
	default:
		e.nextSenderErr = false
	}
	return nil
}
func (e *env) NewMessageSender(context.Context, peer.ID, gsnet.MessageSenderOpts) (gsnet.MessageSender, error) {
	if e.nextSenderErr {
		return nil, errNet
	}
	return &sender{e}, nil
}

type sender struct{ e *env }

func (s *sender) SendMsg(_ context.Context, m gsmsg.GraphSyncMessage) error {
	if s.e.block(cpInfo{kind: "send", msg: m}) == "ok" {
		return nil
	}
	return errNet
}
// Close is called by the queue goroutine in the done branch, after the shutdown drain and before the
// deferred ReleasePeerMemory.  In every second exit (parity of the transactions started so far, so that
// both windows are exercised and the choice is a function of the script) the goroutine is held HERE
// instead of at ReleasePeerMemory: for the model both are the position "after the drain, closed, before
// ReleasePeerMemory" (printed as pc=relpeer), so a transaction scripted at that position arrives right
// after the final drain, while the sender is being closed -- it must be rejected with Error.
func (s *sender) Close() error {
	if len(s.e.txs)%2 == 1 {
		s.e.block(cpInfo{kind: "close"})
	}
	return nil
}
func (s *sender) Reset() error { s.e.block(cpInfo{kind: "reset"}); return nil }

// --- allocator wrapper (messagequeue.Allocator): the real allocator does all the accounting; the
// wrapper only delays the delivery of a deferred answer until the script says `wake`, stops the
// queue goroutine at ReleasePeerMemory, and records what was asked for.
type allocWrap struct{ e *env }

var peer0 = peer.ID("verif-peer-0")
var peer1 = peer.ID("verif-peer-1")

func (a allocWrap) AllocateBlockMemory(p peer.ID, amount uint64) <-chan error {
	e := a.e
	ch := e.alloc.AllocateBlockMemory(p, amount)
	tx := e.cur
	out := make(chan error, 1)
	select {
	case err := <-ch:
		out <- err
		if err == nil {
			e.granted += amount
		} else if tx != nil {
			tx.allocErr = true
		}
		return out
	default:
	}
	e.waiters = append(e.waiters, &waiter{real: ch, out: out, tx: tx, amount: amount})
	return out
}

func (a allocWrap) ReleaseBlockMemory(p peer.ID, amount uint64) error {
	e := a.e
	e.relMu.Lock()
	cur := e.alloc.AllocatedForPeer(p)
	if amount > cur {
		e.overRelease = append(e.overRelease, [2]uint64{amount, cur})
	}
	e.released += amount
	e.relMu.Unlock()
	return e.alloc.ReleaseBlockMemory(p, amount)
}

func (a allocWrap) ReleasePeerMemory(p peer.ID) error {
	a.e.block(cpInfo{kind: "relpeer"})
	return a.e.alloc.ReleasePeerMemory(p)
}

// --- PeerMessageHandler for the response assembler
type handler struct{ e *env }

func (h handler) AllocateAndBuildMessage(p peer.ID, size uint64, fn func(*messagequeue.Builder)) {
	e := h.e
	tx := e.cur
	tx.reached = true
	tx.asked = size
	e.mq.AllocateAndBuildMessage(size, func(b *messagequeue.Builder) { e.built(tx, b, fn) })
}

// runs under the queue's builders lock, on the transaction's goroutine
func (e *env) built(tx *txRec, b *messagequeue.Builder, fn func(*messagequeue.Builder)) {
	idx, ok := e.builders[b]
	if !ok {
		idx = len(e.builders)
		e.builders[b] = idx
		e.bcids[idx] = map[int]bool{}
	}
	tx.fnRan = true
	tx.bidx = idx
	e.nBuilt++
	tx.buildSeq = e.nBuilt
	if e.exited.Load() || (e.at != nil && (e.at.kind == "relpeer" || e.at.kind == "close")) {
		tx.dead = true
	}
	fn(b)
	if tx.isReq {
		tx.attached = true
	} else {
		_, tx.attached = b.ResponseStreams()[mkReqID(tx.req)]
	}
	if tx.attached {
		tx.state = 1
		if tx.shares {
			e.exact = false
		}
		for _, o := range e.txs {
			if o != tx && o.attached && o.bidx == idx && o.req == tx.req && o.isReq == tx.isReq && o.sub != tx.sub {
				o.replaced = true
			}
		}
		for _, c := range tx.sentCids {
			if e.bcids[idx][c] {
				// the same block entered one message twice: it is accounted twice but carried once, and any
				// scrub of that message recounts it once -- only the totals at rest are comparable
				e.exact = false
				e.doubled = true
			}
			e.bcids[idx][c] = true
		}
	}
}

// ---------------------------------------------------------------- quiescence

// goroutine states in which a goroutine stays until another goroutine (or the harness) acts
var parkedStates = []string{"chan receive", "chan send", "select", "sync.Cond.Wait", "IO wait", "sync.WaitGroup.Wait"}

func allParked() bool {
	buf := make([]byte, 1<<16)
	for {
		n := runtime.Stack(buf, true)
		if n < len(buf) {
			buf = buf[:n]
			break
		}
		buf = make([]byte, 2*len(buf))
	}
	first := true
	for _, blk := range bytes.Split(buf, []byte("\n\n")) {
		if !bytes.HasPrefix(blk, []byte("goroutine ")) {
			continue
		}
		if first { // the calling goroutine
			first = false
			continue
		}
		nl := bytes.IndexByte(blk, '\n')
		hdr := blk
		if nl >= 0 {
			hdr = blk[:nl]
		}
		i := bytes.IndexByte(hdr, '[')
		if i < 0 {
			return false
		}
		st := string(hdr[i+1:])
		if bytes.Contains(blk, []byte("os/signal.")) || bytes.Contains(blk, []byte("msgqueue.Run.func")) || bytes.Contains(blk, []byte("os/exec.")) {
			continue
		}
		parked := false
		for _, ps := range parkedStates {
			if strings.HasPrefix(st, ps) {
				parked = true
			}
		}
		if !parked {
			return false
		}
	}
	return true
}

type stuck struct{ what string }

// settle waits until the system is quiescent; returns an error text if the watchdog fires
func (e *env) settle() string {
	deadline := time.Now().Add(120 * time.Second)
	spins := 0
	for {
		if e.at == nil {
			select {
			case info := <-e.arrive:
				e.at = &info
				e.expectConnect = false
			default:
			}
		}
		if e.expectConnect && e.at == nil {
			select {
			case info := <-e.arrive:
				e.at = &info
				e.expectConnect = false
			case <-time.After(60 * time.Second):
				return "watchdog: no ConnectTo after a failed SendMsg"
			}
			continue
		}
		if allParked() {
			if e.at == nil {
				select {
				case info := <-e.arrive:
					e.at = &info
					continue
				default:
				}
			}
			return ""
		}
		spins++
		if spins < 50 {
			runtime.Gosched()
		} else {
			time.Sleep(20 * time.Microsecond)
		}
		if time.Now().After(deadline) {
			return "watchdog: goroutines never became quiescent"
		}
	}
}

// ---------------------------------------------------------------- script interpreter

type result struct {
	lines    []string
	fails    [][2]string
	cov      []string
	mismatch bool
}

func (r *result) fail(class, format string, a ...interface{}) {
	r.fails = append(r.fails, [2]string{class, fmt.Sprintf(format, a...)})
}

func runCaseWithRetries(c reg.Case, out *reg.Out) {
	var res *result
	tries := 0
	for {
		tries++
		res = runCase(c)
		if !res.mismatch || tries >= 1000 {
			break
		}
	}
	out.BeginCase(c)
	for _, l := range res.lines {
		out.Line("%s", l)
	}
	if res.mismatch {
		out.Line("schedule-not-reproduced after %d runs", tries)
	}
	for _, f := range res.fails {
		out.Fail(f[0], "%s", f[1])
	}
	for _, k := range res.cov {
		out.Cov(k)
	}
	if tries > 1 {
		out.CovN("sched.reruns", tries-1)
	}
}

func newEnv(maxTotal, maxPeer uint64, retries int, subOf []int) *env {
	e := &env{
		arrive:   make(chan cpInfo, 1),
		release:  make(chan string),
		streams:  map[int]responseassembler.ResponseStream{},
		subs:     map[int]*subscriber{},
		subOf:    subOf,
		marks:    map[int]int{},
		builders: map[*messagequeue.Builder]int{},
		bcids:    map[int]map[int]bool{},
		lastSent: -1,
		exact:    true,
	}
	e.alloc = allocator.NewAllocator(maxTotal, maxPeer)
	e.mq = messagequeue.New(context.Background(), peer0, e, allocWrap{e}, retries, time.Minute, func(peer.ID) {
		e.exited.Store(true)
		e.cbNow.Store(true)
	})
	e.mq.Startup()
	e.ra = responseassembler.New(context.Background(), handler{e})
	return e
}

func (e *env) sub(id int) *subscriber {
	s, ok := e.subs[id]
	if !ok {
		s = &subscriber{id: id}
		e.subs[id] = s
	}
	return s
}

func (e *env) subFor(req int) int {
	if req < len(e.subOf) {
		return e.subOf[req]
	}
	return req
}

func (e *env) stream(req int) responseassembler.ResponseStream {
	s, ok := e.streams[req]
	if !ok {
		s = e.ra.NewStream(context.Background(), peer0, mkReqID(req), e.sub(e.subFor(req)))
		e.streams[req] = s
	}
	return s
}

func pcName(e *env) string {
	if e.at != nil {
		if e.at.kind == "close" {
			return "relpeer"
		}
		return e.at.kind
	}
	if e.exited.Load() {
		return "exited"
	}
	return "idle"
}

func (e *env) wireSummary(m gsmsg.GraphSyncMessage) string {
	var reqs []int
	for _, r := range m.Requests() {
		reqs = append(reqs, reqNum(r.ID()))
	}
	sort.Ints(reqs)
	type rs struct {
		id int
		s  string
	}
	var resps []rs
	for _, r := range m.Responses() {
		var links []string
		r.Metadata().Iterate(func(c cid.Cid, a graphsync.LinkAction) {
			sign := "-"
			if a == graphsync.LinkActionPresent {
				sign = "+"
			}
			links = append(links, fmt.Sprintf("%d%s", cidRev[c.KeyString()], sign))
		})
		id := reqNum(r.RequestID())
		resps = append(resps, rs{id, fmt.Sprintf("%d:%d:%s:x%d", id, int(r.Status()), strings.Join(links, "."), len(r.ExtensionNames()))})
	}
	sort.Slice(resps, func(i, j int) bool { return resps[i].id < resps[j].id })
	var rss []string
	for _, r := range resps {
		rss = append(rss, r.s)
	}
	var blks []int
	for _, b := range m.Blocks() {
		blks = append(blks, cidRev[b.Cid().KeyString()])
	}
	sort.Ints(blks)
	return fmt.Sprintf("Q[%s]R[%s]B[%s]", joinInts(reqs), strings.Join(rss, ";"), joinInts(blks))
}

func reqNum(id graphsync.RequestID) int {
	b := id.Bytes()
	return int(b[14])<<8 | int(b[15])
}

func joinInts(xs []int) string {
	ss := make([]string, len(xs))
	for i, x := range xs {
		ss[i] = strconv.Itoa(x)
	}
	return strings.Join(ss, ",")
}

func (e *env) blocked() int {
	n := 0
	for _, t := range e.txs {
		if t.reached && !t.returned.Load() {
			n++
		}
	}
	return n
}

// render prints the observables and feeds the new notifications to the oracles
func (e *env) render(res *result) {
	ids := make([]int, 0, len(e.subs))
	for id := range e.subs {
		ids = append(ids, id)
	}
	sort.Ints(ids)
	var parts []string
	var fresh []struct {
		sub int
		n   note
	}
	for _, id := range ids {
		s := e.subs[id]
		s.mu.Lock()
		nw := append([]note{}, s.log[e.marks[id]:]...)
		e.marks[id] = len(s.log)
		s.mu.Unlock()
		if len(nw) == 0 {
			continue
		}
		var ss []string
		for _, n := range nw {
			ss = append(ss, fmt.Sprintf("%d%c", n.topic, n.kind))
			fresh = append(fresh, struct {
				sub int
				n   note
			}{id, n})
		}
		parts = append(parts, fmt.Sprintf("%d:%s", id, strings.Join(ss, ".")))
	}
	sort.Slice(fresh, func(i, j int) bool { return fresh[i].n.seq < fresh[j].n.seq })
	for _, f := range fresh {
		e.observe(res, f.sub, f.n)
	}
	if e.at != nil && e.at.kind == "send" {
		e.noteSend(res)
	}
	st := e.alloc.Stats()
	w := "-"
	if e.at != nil && e.at.kind == "send" {
		w = e.wireSummary(e.at.msg)
	}
	cb := 0
	if e.cbNow.Swap(false) {
		cb = 1
	}
	res.lines = append(res.lines, fmt.Sprintf("pc=%s blocked=%d ev=%s alloc=%d tot=%d/%d/%d cb=%d w=%s",
		pcName(e), e.blocked(), strings.Join(parts, "|"), e.alloc.AllocatedForPeer(peer0),
		st.TotalAllocatedAllPeers, st.TotalPendingAllocations, st.NumPeersWithPendingAllocations, cb, w))
	e.checkLedger(res)
}

// ---------------------------------------------------------------- oracles (from the property text)

// observe: one notification delivered to a subscriber.  Sent/Error on topic t resolves every
// transaction carried by message t; Error also discards everything still queued for the requests
// whose response data was in message t (C15: "discarded because another message of the same
// request failed").
func (e *env) observe(res *result, sub int, n note) {
	if n.kind != 'S' && n.kind != 'E' {
		return
	}
	failed := map[int]bool{}
	for _, t := range e.txs {
		if t.state == 1 && t.bidx == int(n.topic) {
			t.state = 2
			if n.kind == 'E' && !t.isReq {
				failed[t.req] = true
			}
		}
	}
	if n.kind == 'E' {
		// also requests whose transactions in message t were resolved by the same event delivered
		// to another subscriber a moment ago
		for _, t := range e.txs {
			if t.state == 2 && t.bidx == int(n.topic) && !t.isReq {
				failed[t.req] = true
			}
		}
		for _, t := range e.txs {
			if t.state == 1 && !t.isReq && failed[t.req] && t.bidx != int(n.topic) {
				t.state = 3
			}
		}
	}
}

// mark what a ReleasePeerMemory(peer0) that is about to happen removes from under this queue
func (e *env) markWiped() {
	for _, t := range e.txs {
		if t.state == 1 && !t.wipedBy {
			t.wipedBy = true
			e.wipedPool += t.size
		}
	}
	for _, w := range e.waiters {
		w.poll()
		if w.has && w.val == nil && w.tx != nil && !w.tx.fnRan && !w.wiped {
			w.wiped = true
			w.tx.wipedBy = true
			e.wipedPool += w.amount
		}
	}
}

// C15 ledger at a quiescent point, from the harness's own sizes
func (e *env) checkLedger(res *result) {
	e.relMu.Lock()
	over := e.overRelease
	e.overRelease = nil
	e.relMu.Unlock()
	for _, o := range over {
		d := o[0] - o[1]
		if d <= e.wipedPool {
			e.wipedPool -= d // the release of bytes a ReleasePeerMemory had already removed: a no-op
			continue
		}
		res.fail("over-release", "release of %d bytes while only %d are accounted (a byte released twice)", o[0], o[1])
	}
	var held uint64
	for _, t := range e.txs {
		if t.state == 1 && !t.wipedBy {
			held += t.size
		}
	}
	for _, w := range e.waiters {
		w.poll()
		if w.has && w.val == nil && w.tx != nil && !w.tx.fnRan && !w.wiped {
			held += w.amount // granted, transaction not yet continued
		}
	}
	if e.overlap {
		e.pollOther()
		held += e.otherHeld
	}
	got := e.alloc.AllocatedForPeer(peer0)
	for _, t := range e.txs {
		if t.fnRan && t.attached && t.allocErr {
			res.fail("unreserved-build", "transaction %d (request %d, %d bytes) was queued although its reservation was refused", t.id, t.req, t.size)
			t.allocErr = false
		}
		if t.reached && t.asked != t.size && !t.sizeSeen {
			res.fail("op-size", "transaction %d: assembler reserved %d bytes, the operations carry %d", t.id, t.asked, t.size)
			t.sizeSeen = true
		}
	}
	idle := e.at == nil && e.blocked() == 0
	if idle {
		res.cov = append(res.cov, "state.idle")
	}
	// Exact when every block on the wire belongs to exactly one transaction.  When requests share a
	// block (dedup), discarding one request keeps the block -- and its reservation -- in the message
	// for the other, so only the lower bound holds until the message is done; when a block entered one
	// message twice only the totals at rest are comparable.
	exact := e.exact || idle || e.exited.Load()
	switch {
	case e.doubled && !idle && !e.exited.Load():
	case got > held && exact:
		cls := "ledger"
		if idle {
			cls = "idle-nonzero"
		}
		if e.exited.Load() {
			cls = "exit-nonzero"
		}
		res.fail(cls, "AllocatedForPeer = %d but unsent reserved data = %d bytes (reserved %d, released %d)", got, held, e.granted, e.released)
	case got+e.wipedPool < held:
		res.fail("ledger", "AllocatedForPeer = %d is less than the unsent reserved data, %d bytes (reserved %d, released %d; %d bytes removed by ReleasePeerMemory)", got, held, e.granted, e.released, e.wipedPool)
	case got < held:
		// short by no more than what a ReleasePeerMemory removed from under a holder: the later release
		// of those bytes took somebody else's
		if !e.stealReported {
			e.stealReported = true
			if e.sloppy {
				res.cov = append(res.cov, "overlap.sloppy-other")
			} else if e.overlap {
				res.fail("overlap-release-wipes-successor", "AllocatedForPeer = %d while %d reserved bytes are unsent: a ReleasePeerMemory of a queue of this peer removed reservations another holder still had, and their later release took %d bytes of somebody else's", got, held, held-got)
			} else if e.exited.Load() {
				res.fail("dead-queue-over-release", "AllocatedForPeer = %d while %d reserved bytes are held by callers of the exited queue: a caller whose granted reservation was removed by the queue's own ReleasePeerMemory released it later and took %d bytes another caller had reserved since", got, held, held-got)
			} else {
				res.fail("ledger", "AllocatedForPeer = %d is less than the unsent reserved data, %d bytes, with a single queue", got, held)
			}
		}
	}
}

func (w *waiter) poll() {
	if w.has {
		return
	}
	select {
	case err := <-w.real:
		w.has = true
		w.val = err
	default:
	}
}

// C16 / C17-fifo at the end of the case (after `finish` every queued message had its chance)
func (e *env) finalChecks(res *result, finished bool) {
	// per (subscriber, topic) notification sequences
	type key struct {
		sub   int
		topic uint64
	}
	seqs := map[key]string{}
	for id, s := range e.subs {
		s.mu.Lock()
		for _, n := range s.log {
			k := key{id, n.topic}
			seqs[k] += string(n.kind)
		}
		s.mu.Unlock()
	}
	allowed := map[string]bool{"QSC": true, "QEC": true, "EC": true}
	prefix := func(s string) bool {
		for a := range allowed {
			if strings.HasPrefix(a, s) {
				return true
			}
		}
		return false
	}
	keys := make([]key, 0, len(seqs))
	for k := range seqs {
		keys = append(keys, k)
	}
	sort.Slice(keys, func(i, j int) bool {
		if keys[i].sub != keys[j].sub {
			return keys[i].sub < keys[j].sub
		}
		return keys[i].topic < keys[j].topic
	})
	for _, k := range keys {
		s := seqs[k]
		if !prefix(s) {
			res.fail("exactly-once", "subscriber %d, message %d: notifications %q (want Queued? then exactly one of Sent/Error, then one close)", k.sub, k.topic, s)
		}
		// was this subscriber attached to that message at all?
		att := false
		for _, t := range e.txs {
			if t.attached && t.bidx == int(k.topic) && t.sub == k.sub {
				att = true
			}
		}
		if !att {
			res.fail("spurious-event", "subscriber %d got %q for message %d it never attached to", k.sub, s, k.topic)
		}
	}
	if !finished {
		return
	}
	// eventually: every attachment is reported (or was discarded after an Error of its request)
	for _, t := range e.txs {
		if !t.attached || t.replaced {
			continue
		}
		s := seqs[key{t.sub, uint64(t.bidx)}]
		switch {
		case t.state == 3:
			// discarded: the subscriber must have seen an Error for the same request on an earlier message
			ok := false
			for _, u := range e.txs {
				if u.req == t.req && !u.isReq && u.state == 2 && u.sub == t.sub && strings.Contains(seqs[key{u.sub, uint64(u.bidx)}], "E") {
					ok = true
				}
			}
			if !ok {
				res.fail("discarded-unreported", "transaction %d of request %d was discarded but its subscriber %d never got an Error for that request", t.id, t.req, t.sub)
			}
		case allowed[s]:
		default:
			res.fail("unreported", "transaction %d (request %d, subscriber %d) in message %d: notifications %q, not reported sent or failed", t.id, t.req, t.sub, t.bidx, s)
		}
	}
	if e.exited.Load() {
		e.checkLedger(res)
	}
}

func (e *env) startTx(tx *txRec, run func()) {
	tx.id = len(e.txs)
	e.txs = append(e.txs, tx)
	e.cur = tx
	go func() {
		run()
		tx.returned.Store(true)
	}()
}

func (e *env) doAck(res *result, r string) {
	at := e.at
	if at == nil {
		return
	}
	e.at = nil
	if at.kind == "close" {
		// sender.Close() returns; the goroutine goes on to its deferred ReleasePeerMemory, which is the
		// call this `ack` answers
		e.release <- "ok"
		select {
		case info := <-e.arrive:
			at = &info
		case <-time.After(60 * time.Second):
			res.fail("watchdog", "no ReleasePeerMemory after sender.Close() returned")
			return
		}
		if at.kind != "relpeer" {
			res.fail("watchdog", "after sender.Close() the queue goroutine stopped at %q, not at ReleasePeerMemory", at.kind)
		}
	}
	switch at.kind {
	case "connect":
		if r != "ok" && !e.afterReset {
			e.shutdownDone = true // the queue shuts itself down
		}
		e.afterReset = false
	case "send":
	case "reset":
		e.afterReset = true
		if !e.shutdownDone {
			e.expectConnect = true
		}
	case "relpeer":
		// the queue's own exit: whatever is still held under this peer's entry is removed.  Nothing of
		// the queue's own is (drained), but a caller whose reservation was granted and who has not yet
		// continued loses it, and so does another queue of this peer.
		e.markWiped()
		e.pollOther()
		e.otherHeld = 0
		e.otherChans = nil
	}
	e.release <- r
}

func (e *env) wakeOne() bool {
	for i, w := range e.waiters {
		w.poll()
		if w.has {
			e.waiters = append(e.waiters[:i:i], e.waiters[i+1:]...)
			if w.val == nil {
				e.granted += w.amount
			} else if w.tx != nil {
				w.tx.allocErr = true
			}
			w.out <- w.val
			return true
		}
	}
	return false
}

// after an `ack` with done closed: did the select take the branch the script asked for?
func (e *env) checkHint(hint string, errsBefore map[[2]uint64]bool) bool {
	if !e.shutdownDone {
		return true
	}
	// the select of runQueue was evaluated in this step only if a message finished in it
	// (its topic was closed) -- otherwise the queue goroutine went from one call to the next
	finished := false
	for id, s := range e.subs {
		s.mu.Lock()
		for _, n := range s.log[e.marks[id]:] {
			if n.kind == 'C' {
				finished = true
			}
		}
		s.mu.Unlock()
	}
	if !finished {
		return true
	}
	// work branch taken <=> a new message was Queued in this step;
	// done branch taken with work pending <=> a message got Error without ever being Queued (drain)
	for id, s := range e.subs {
		s.mu.Lock()
		q := map[uint64]bool{}
		for k, n := range s.log {
			if n.kind == 'Q' {
				q[n.topic] = true
				if hint == "d" && k >= e.marks[id] {
					s.mu.Unlock()
					return false
				}
			}
			if hint == "n" && n.kind == 'E' && !q[n.topic] && !errsBefore[[2]uint64{uint64(id), n.topic}] {
				s.mu.Unlock()
				return false
			}
		}
		s.mu.Unlock()
	}
	return true
}

func (e *env) errSet() map[[2]uint64]bool {
	m := map[[2]uint64]bool{}
	for id, s := range e.subs {
		s.mu.Lock()
		for _, n := range s.log {
			if n.kind == 'E' {
				m[[2]uint64{uint64(id), n.topic}] = true
			}
		}
		s.mu.Unlock()
	}
	return m
}

func runCase(c reg.Case) *result {
	res := &result{}
	var e *env
	finished := false
	defer func() {
		if e != nil {
			e.teardown()
		}
	}()
	for _, op := range c.Ops {
		res.cov = append(res.cov, "op."+op[0])
		if op[0] == "cfg" && len(op) >= 4 {
			mt, _ := strconv.ParseUint(op[1], 10, 64)
			mp, _ := strconv.ParseUint(op[2], 10, 64)
			mr, _ := strconv.Atoi(op[3])
			var subOf []int
			for _, s := range op[4:] {
				v, _ := strconv.Atoi(s)
				subOf = append(subOf, v)
			}
			if e != nil {
				e.teardown()
			}
			e = newEnv(mt, mp, mr, subOf)
			if w := e.settle(); w != "" {
				res.fail("watchdog", "%s", w)
			}
			res.lines = append(res.lines, "ok")
			continue
		}
		if e == nil {
			res.lines = append(res.lines, "bad-op")
			continue
		}
		hint := ""
		var errsBefore map[[2]uint64]bool
		switch op[0] {
		case "tx":
			if len(op) < 2 {
				res.lines = append(res.lines, "bad-op")
				continue
			}
			req, err := strconv.Atoi(op[1])
			items, ok := parseItems(op[2:])
			if err != nil || !ok {
				res.lines = append(res.lines, "bad-op")
				continue
			}
			tx := &txRec{req: req, sub: e.subFor(req)}
			rs := e.stream(req)
			e.startTx(tx, func() {
				_ = rs.Transaction(func(rb responseassembler.ResponseBuilder) error {
					for _, it := range items {
						switch it.kind {
						case 'b':
							bd := rb.SendResponse(cidlink.Link{Cid: mkCid(it.a)}, zeros[:it.b])
							tx.size += bd.BlockSizeOnWire()
							if bd.BlockSizeOnWire() > 0 {
								tx.sentCids = append(tx.sentCids, it.a)
							} else {
								tx.shares = true
							}
							tx.links = append(tx.links, fmt.Sprintf("%d+", it.a))
						case 'm':
							rb.SendResponse(cidlink.Link{Cid: mkCid(it.a)}, nil)
							tx.links = append(tx.links, fmt.Sprintf("%d-", it.a))
						case 'e':
							e.nextExt++
							ext := graphsync.ExtensionData{Name: graphsync.ExtensionName(fmt.Sprintf("verif/x%d", e.nextExt))}
							if it.a > 0 {
								ext.Data = basicnode.NewBytes(zeros[:payloadFor(it.a)])
							}
							rb.SendExtensionData(ext)
							tx.size += uint64(it.a)
						case 'p':
							rb.PauseRequest()
						case 'f':
							rb.FinishRequest()
						case 'x':
							rb.FinishWithError(graphsync.ResponseStatusCode(it.a))
						}
					}
					return nil
				})
			})
		case "rq":
			if len(op) != 3 {
				res.lines = append(res.lines, "bad-op")
				continue
			}
			id, err1 := strconv.Atoi(op[1])
			su, err2 := strconv.Atoi(op[2])
			if err1 != nil || err2 != nil {
				res.lines = append(res.lines, "bad-op")
				continue
			}
			tx := &txRec{req: id, sub: su, isReq: true}
			ssb := builder.NewSelectorSpecBuilder(basicnode.Prototype.Any)
			request := gsmsg.NewRequest(mkReqID(id), mkCid(0), ssb.Matcher().Node(), graphsync.Priority(1))
			s := e.sub(su)
			e.startTx(tx, func() {
				handler{e}.AllocateAndBuildMessage(peer0, 0, func(b *messagequeue.Builder) {
					b.AddRequest(request)
					b.SetSubscriber(request.ID(), s)
				})
			})
		case "wake":
			e.wakeOne()
		case "ack":
			if len(op) != 3 {
				res.lines = append(res.lines, "bad-op")
				continue
			}
			hint = op[2]
			errsBefore = e.errSet()
			r := op[1]
			if r != "ok" && r != "fail2" {
				r = "fail"
			}
			if e.at != nil {
				res.cov = append(res.cov, "ack."+e.at.kind+"."+r)
			}
			e.doAck(res, r)
		case "shutdown":
			e.mq.Shutdown()
			e.shutdownDone = true
		case "xalloc":
			n, _ := strconv.ParseUint(op[1], 10, 64)
			e.alloc.AllocateBlockMemory(peer1, n)
		case "xrel":
			n, _ := strconv.ParseUint(op[1], 10, 64)
			_ = e.alloc.ReleaseBlockMemory(peer1, n)
		case "oalloc":
			// what another queue of the SAME peer does while a stopping queue and its successor overlap
			n, _ := strconv.ParseUint(op[1], 10, 64)
			e.overlap = true
			e.otherChans = append(e.otherChans, otherAlloc{e.alloc.AllocateBlockMemory(peer0, n), n})
		case "orel":
			n, _ := strconv.ParseUint(op[1], 10, 64)
			e.overlap = true
			e.pollOther()
			take := n
			if cur := e.alloc.AllocatedForPeer(peer0); take > cur {
				take = cur
			}
			if take > e.otherHeld {
				// the simulated other queue releases more than it holds: it takes this queue's bytes
				e.sloppy = true
				e.wipedPool += take - e.otherHeld
				e.otherHeld = 0
			} else {
				e.otherHeld -= take
			}
			_ = e.alloc.ReleaseBlockMemory(peer0, n)
		case "orelpeer":
			e.overlap = true
			e.pollOther()
			e.markWiped()
			_ = e.alloc.ReleasePeerMemory(peer0)
			e.otherHeld = 0
			e.otherChans = nil
		case "finish":
			finished = true
			for i := 0; i < 64; i++ {
				if w := e.settle(); w != "" {
					res.fail("watchdog", "%s", w)
					break
				}
				if e.wakeOne() {
					continue
				}
				if e.at != nil {
					eb := e.errSet()
					e.doAck(res, "ok")
					if w := e.settle(); w != "" {
						res.fail("watchdog", "%s", w)
						break
					}
					if !e.checkHint("d", eb) {
						res.mismatch = true
						return res
					}
					continue
				}
				break
			}
		default:
			res.lines = append(res.lines, "bad-op")
			continue
		}
		if w := e.settle(); w != "" {
			res.fail("watchdog", "%s", w)
		}
		e.cur = nil
		if hint != "" && !e.checkHint(hint, errsBefore) {
			res.mismatch = true
			return res
		}
		if e.at != nil {
			res.cov = append(res.cov, "at."+e.at.kind)
		}
		e.render(res)
	}
	if e != nil {
		e.finalChecks(res, finished)
		for _, t := range e.txs {
			switch {
			case t.allocErr && !t.fnRan:
				res.cov = append(res.cov, "tx.alloc-refused")
			case t.dead:
				res.cov = append(res.cov, "tx.dead")
			case !t.reached:
				res.cov = append(res.cov, "tx.closed-early")
			case t.fnRan && !t.attached:
				res.cov = append(res.cov, "tx.closed-while-waiting")
			case t.state == 3:
				res.cov = append(res.cov, "tx.discarded")
			case t.state == 2:
				res.cov = append(res.cov, "tx.resolved")
			}
		}
	}
	return res
}

// C17 fifo: messages leave in the order their builders were created, and inside a message every
// request's links are in transaction order
func (e *env) noteSend(res *result) {
	m := e.at.msg
	// which builder is this?  the one holding the message's requests, by the harness's records
	idx := -1
	for _, r := range m.Responses() {
		id := reqNum(r.RequestID())
		for _, t := range e.txs {
			if t.attached && !t.isReq && t.req == id && t.state == 1 && (idx == -1 || t.bidx < idx) {
				idx = t.bidx
			}
		}
	}
	for _, r := range m.Requests() {
		id := reqNum(r.ID())
		for _, t := range e.txs {
			if t.attached && t.isReq && t.req == id && t.state == 1 && (idx == -1 || t.bidx < idx) {
				idx = t.bidx
			}
		}
	}
	if idx == -1 {
		return
	}
	if idx < e.lastSent {
		res.fail("fifo", "message of builder %d handed to the network after builder %d", idx, e.lastSent)
	}
	if idx > e.lastSent {
		// every earlier builder that still has unresolved content should have gone first
		for _, t := range e.txs {
			if t.attached && t.state == 1 && t.bidx < idx {
				res.fail("fifo", "message of builder %d sent while builder %d (transaction %d) is still queued", idx, t.bidx, t.id)
				break
			}
		}
		// no overtaking between transactions: data only ever joins the LAST builder, so nothing that is
		// still queued in another message was handed to the queue before something in this message
		last := 0
		for _, t := range e.txs {
			if t.attached && t.bidx == idx && t.buildSeq > last {
				last = t.buildSeq
			}
		}
		for _, t := range e.txs {
			if t.attached && t.state == 1 && t.bidx > idx && t.buildSeq < last {
				res.fail("fifo", "message of builder %d carries data queued after transaction %d (request %d), which is still queued in builder %d: later data overtook earlier data", idx, t.id, t.req, t.bidx)
				break
			}
		}
		e.lastSent = idx
	}
	for _, r := range m.Responses() {
		id := reqNum(r.RequestID())
		var want []string
		var parts []*txRec
		for _, t := range e.txs {
			if t.attached && !t.isReq && t.req == id && t.bidx == idx && t.state == 1 {
				parts = append(parts, t)
			}
		}
		// queued order = the order in which the transactions were built into the message
		sort.Slice(parts, func(i, j int) bool { return parts[i].buildSeq < parts[j].buildSeq })
		for _, t := range parts {
			want = append(want, t.links...)
		}
		var got []string
		r.Metadata().Iterate(func(c cid.Cid, a graphsync.LinkAction) {
			sign := "-"
			if a == graphsync.LinkActionPresent {
				sign = "+"
			}
			got = append(got, fmt.Sprintf("%d%s", cidRev[c.KeyString()], sign))
		})
		if strings.Join(want, ".") != strings.Join(got, ".") {
			res.fail("fifo", "request %d in message %d: links on the wire %v, queued order %v", id, idx, got, want)
		}
	}
}

// teardown lets every goroutine of the case end
func (e *env) teardown() {
	e.mq.Shutdown()
	for i := 0; i < 200; i++ {
		if w := e.settle(); w != "" {
			break
		}
		if e.wakeOne() {
			continue
		}
		if e.at != nil {
			at := e.at
			e.at = nil
			_ = at
			e.release <- "ok"
			continue
		}
		break
	}
	// waiters whose allocation never gets answered: release the peers so that they fail
	_ = e.alloc.ReleasePeerMemory(peer0)
	_ = e.alloc.ReleasePeerMemory(peer1)
	for e.wakeOne() {
	}
	e.settle()
}

type item struct {
	kind byte
	a, b int
}

func parseItems(toks []string) ([]item, bool) {
	var out []item
	for _, t := range toks {
		if t == "p" || t == "f" {
			out = append(out, item{kind: t[0]})
			continue
		}
		if len(t) < 2 {
			return nil, false
		}
		rest := t[1:]
		switch t[0] {
		case 'b':
			p := strings.Split(rest, ":")
			if len(p) != 2 {
				return nil, false
			}
			c, e1 := strconv.Atoi(p[0])
			z, e2 := strconv.Atoi(p[1])
			if e1 != nil || e2 != nil || z < 0 || z > len(zeros) {
				return nil, false
			}
			out = append(out, item{'b', c, z})
		case 'm', 'x':
			c, e1 := strconv.Atoi(rest)
			if e1 != nil {
				return nil, false
			}
			out = append(out, item{t[0], c, 0})
		case 'e':
			c, e1 := strconv.Atoi(rest)
			if e1 != nil || (c > 0 && payloadFor(c) < 0) || c > len(zeros) {
				return nil, false
			}
			out = append(out, item{'e', c, 0})
		default:
			return nil, false
		}
	}
	return out, true
}

var _ io.Closer = (*sender)(nil)
