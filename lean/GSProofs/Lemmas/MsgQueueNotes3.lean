import GSProofs.Lemmas.MsgQueueNotes2
import GSProofs.Lemmas.MsgQueueLedger2
/-!
# Message queue: notification / wire-order invariant — extract, scrub, wire, publishError
-/
namespace GS.MQ

theorem dropEmpty_suffix : ∀ (bs : List Builder), ∃ pre, bs = pre ++ dropEmpty bs
  | [] => ⟨[], rfl⟩
  | b :: r => by
    simp only [dropEmpty]
    split
    · obtain ⟨pre, h⟩ := dropEmpty_suffix r
      exact ⟨b :: pre, by rw [List.cons_append, ← h]⟩
    · exact ⟨[], rfl⟩

theorem topicsOf_append (a b : List Builder) : topicsOf (a ++ b) = topicsOf a ++ topicsOf b := by
  unfold topicsOf; rw [List.map_append]

theorem topicsOf_cons (b : Builder) (r : List Builder) : topicsOf (b :: r) = (b.topic : Nat) :: topicsOf r := rfl

theorem scrubAll_topics_sublist (reqs : List Req) : ∀ (bs : List Builder),
    (topicsOf (scrubAll reqs bs).1).Sublist (topicsOf bs)
  | [] => by simp [scrubAll, topicsOf]
  | b :: r => by
    have ih := scrubAll_topics_sublist reqs r
    simp only [scrubAll]
    split
    · rw [topicsOf_cons]; exact ih.cons _
    · rw [topicsOf_cons, topicsOf_cons]
      have : (b.scrub reqs).1.topic = b.topic := rfl
      rw [this]; exact ih.cons₂ _

/-- `extractOutgoingMessage` + `build` from the idle phase -/
theorem Idle.extract {s : State} (h : Idle s) :
    (∀ s', s.extract = (s', none) → Idle s') ∧
    (∀ s' m, s.extract = (s', some m) → ∃ U, Mid s' m U [] true) := by
  obtain ⟨pre, hpre⟩ := dropEmpty_suffix s.builders
  unfold State.extract
  cases hd : dropEmpty s.builders with
  | nil =>
    simp only
    constructor
    · intro s' he
      cases he
      refine ⟨⟨h.open_, ?_, ?_, ?_, h.wsorted⟩, h.topics, h.done, ?_⟩
      · intro t ht u
        apply h.fresh t
        rcases ht with ht | ht
        · exact Or.inl ht
        · simp [topicsOf] at ht
      · simp [topicsOf]
      · intro t ht; simp [topicsOf] at ht
      · intro w hw; exact ⟨(h.wbelow w hw).1, by intro t ht; simp [topicsOf] at ht⟩
    · intro s' m he; cases he
  | cons b rest =>
    simp only
    constructor
    · intro s' he; cases he
    · intro s' m he
      simp only [Prod.mk.injEq, Option.some.injEq] at he
      obtain ⟨he1, he2⟩ := he
      subst he1 he2
      rw [hd] at hpre
      have htop : topicsOf s.builders = topicsOf pre ++ (b.topic : Nat) :: topicsOf rest := by
        rw [hpre, topicsOf_append, topicsOf_cons]
      have hsorted := h.sorted
      rw [htop, List.pairwise_append] at hsorted
      obtain ⟨_, hs2, _⟩ := hsorted
      rw [List.pairwise_cons] at hs2
      have hbmem : (b.topic : Nat) ∈ topicsOf s.builders := by rw [htop]; simp
      have hrest : ∀ t ∈ topicsOf rest, t ∈ topicsOf s.builders := by
        intro t ht; rw [htop]; simp [ht]
      -- the state before subscribing
      have hsub := subscribe_log (s := { s with builders := rest, token := s.token || !rest.isEmpty })
        h.open_ b.topic (dedupSubs b.subs)
      have hfr := subscribe_frame ({ s with builders := rest, token := s.token || !rest.isEmpty }) b.topic (dedupSubs b.subs)
      refine ⟨(dedupSubs b.subs).foldl insertSub [], ⟨⟨hsub.2.2, ?_, ?_, ?_, ?_⟩, ?_, ?_, ?_, ?_, ?_, ?_⟩⟩
      · intro t ht u
        rw [hsub.1]
        apply h.fresh t
        rw [hfr.nextTopic, hfr.builders] at ht
        rcases ht with ht | ht
        · exact Or.inl ht
        · exact Or.inr (hrest t ht)
      · rw [hfr.builders]; exact hs2.2
      · rw [hfr.builders, hfr.nextTopic]; intro t ht; exact h.below t (hrest t ht)
      · rw [hsub.1]; exact h.wsorted
      · rw [hsub.2.1]
        show aset s.topics b.topic _ = _
        rw [h.topics]; simp [aset, aget]
      · exact foldl_insertSub_nodup _ _ (by simp)
      · intro u
        rw [hsub.1]
        show seqOf u b.topic s.log = _
        rw [h.fresh b.topic (Or.inr hbmem) u]; split <;> rfl
      · intro t u _
        rw [hsub.1]; exact h.done t u
      · rw [hfr.nextTopic, hfr.builders]
        exact ⟨h.below _ hbmem, fun t ht => hs2.1 t ht⟩
      · intro w hw
        rw [hsub.1] at hw
        simp only [if_true]
        exact (h.wbelow w hw).2 _ hbmem

/-- replacing the builders by a sub-sequence (scrubbing), other fields arbitrary but log/topics -/
theorem Mid.subBuilders {s s' : State} {m : InFlight} {U : List Sub} {σ : List Kind} {b : Bool}
    (h : Mid s m U σ b) (hlog : s'.log = s.log) (htop : s'.topics = s.topics) (hpub : s'.pubClosed = s.pubClosed)
    (hnt : s'.nextTopic = s.nextTopic) (hsub : (topicsOf s'.builders).Sublist (topicsOf s.builders)) :
    Mid s' m U σ b := by
  refine ⟨⟨hpub ▸ h.open_, ?_, ?_, ?_, ?_⟩, htop ▸ h.topics, h.nodupU, ?_, ?_, ?_, ?_⟩
  · intro t ht u
    rw [hlog]; apply h.fresh t
    rw [hnt] at ht
    rcases ht with ht | ht
    · exact Or.inl ht
    · exact Or.inr (hsub.subset ht)
  · exact h.sorted.sublist hsub
  · rw [hnt]; intro t ht; exact h.below t (hsub.subset ht)
  · rw [hlog]; exact h.wsorted
  · rw [hlog]; exact h.seqM
  · rw [hlog]; exact h.done
  · rw [hnt]; exact ⟨h.mBelow.1, fun t ht => h.mBelow.2 t (hsub.subset ht)⟩
  · rw [hlog]; exact h.wbelow

/-- handing the message to the network for the first time -/
theorem Mid.wire0 {s : State} {m : InFlight} {U : List Sub} {σ : List Kind} (h : Mid s m U σ true) :
    Mid (s.emit [Event.wire m.topic 0]) m U σ false := by
  have hf := emit_frame s [Event.wire m.topic 0]
  have hlog : (s.emit [Event.wire m.topic 0]).log = s.log ++ [Event.wire m.topic 0] := rfl
  have hseq : ∀ u t, seqOf u t (s.emit [Event.wire m.topic 0]).log = seqOf u t s.log := by
    intro u t; rw [hlog, seqOf_append]; simp [seqOf]
  have hw : wiresOf (s.emit [Event.wire m.topic 0]).log = wiresOf s.log ++ [(m.topic : Nat)] := by
    rw [hlog, wiresOf_append]; rfl
  refine ⟨⟨h.open_, ?_, ?_, ?_, ?_⟩, h.topics, h.nodupU, ?_, ?_, ?_, ?_⟩
  · intro t ht u; rw [hseq]; exact h.fresh t ht u
  · exact h.sorted
  · exact h.below
  · rw [hw, List.pairwise_append]
    refine ⟨h.wsorted, by simp, ?_⟩
    intro a ha b hb
    simp at hb; subst hb
    have := h.wbelow a ha
    simpa using this
  · intro u; rw [hseq]; exact h.seqM u
  · intro t u ht; rw [hseq]; exact h.done t u ht
  · exact h.mBelow
  · intro w hw'
    rw [hw] at hw'
    simp only [Bool.false_eq_true, if_false]
    rcases List.mem_append.mp hw' with hw' | hw'
    · have := h.wbelow w hw'
      simp only [if_true] at this
      exact Nat.le_of_lt this
    · simp at hw'; rw [hw']; exact Nat.le_refl _

theorem Mid.weaken {s : State} {m : InFlight} {U : List Sub} {σ : List Kind} (h : Mid s m U σ true) :
    Mid s m U σ false := by
  refine ⟨h.toBase, h.topics, h.nodupU, h.seqM, h.done, h.mBelow, ?_⟩
  intro w hw
  have := h.wbelow w hw
  simp only [if_true] at this
  simp only [Bool.false_eq_true, if_false]
  exact Nat.le_of_lt this

end GS.MQ
