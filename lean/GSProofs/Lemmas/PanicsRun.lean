import GS.Model.Panics
/-!
Helper lemmas for C22: when every panic in every script happens under a recover frame, a run of the
whole system under any schedule decomposes into independent runs of the single requests
(`run_decompose`): request `j` ends up exactly where it would when executed alone for as many steps
as the schedule gave it, and the callback log restricted to `j` is what that lone execution produces.
-/
namespace GS.Panics
open GS.Generated.PanicSites

/-- callback-log entries caused by an effect of request `i` -/
def effLog (i : Nat) : Eff → List CbEntry
  | .cb sd k => [(i, sd, k)]
  | _ => []

def effCbs : Eff → List (Side × Kind)
  | .cb sd k => [(sd, k)]
  | _ => []

def tag (j : Nat) (l : List (Side × Kind)) : List CbEntry := l.map (fun sk => (j, sk.1, sk.2))

/-- the generated handler, applied to any value with any callback setting: callback (if set) with
that very value, then a RecoveredPanicErr carrying that very value; `recover()` = nil gives nil -/
theorem runHandler_total {α : Type} (cbSet : Bool) (v : α) :
    runHandler cbSet (some v) =
      { ret := .recovered (some v), cbs := if cbSet then [some v] else [] } := by
  cases cbSet <;> rfl

theorem runHandler_nil {α : Type} (cbSet : Bool) :
    runHandler cbSet (none : Option α) = { ret := .nil, cbs := [] } := by
  cases cbSet <;> rfl

/-- so a recover frame turns a panic of the call (sd, k) into exactly the RecoveredPanicErr of that
call and one callback -/
theorem handled_eq (sd : Side) (k : Kind) : handled sd k = (.panicErr sd k, .cb sd k) := by
  simp [handled, runHandler_total]

theorem stepReq_safe {fr : Frames} {r : Req} (h : safeScript fr r.script) :
    (stepReq fr r).2 ≠ .crash ∧ safeScript fr (stepReq fr r).1.script := by
  unfold stepReq
  split
  · split
    · exact ⟨by simp, by intro c hc; cases hc⟩
    · rename_i c rest hs
      split
      · refine ⟨by simp, ?_⟩
        intro c' hc'
        exact h c' (by rw [hs]; exact List.mem_cons_of_mem _ hc')
      · exact ⟨by simp, by intro c hc; cases hc⟩
      · rename_i hp
        have hfr : fr c.side c.kind = true := h c (by rw [hs]; exact List.mem_cons_self) hp
        simp [hfr, handled_eq]
        intro c hc; cases hc
  · exact ⟨by simp, h⟩

theorem runReq_succ (fr : Frames) (n : Nat) (r : Req) :
    runReq fr (n + 1) r =
      ((runReq fr n (stepReq fr r).1).1, effCbs (stepReq fr r).2 ++ (runReq fr n (stepReq fr r).1).2) := by
  rw [runReq]
  rcases hsr : stepReq fr r with ⟨r', e⟩
  cases e <;> simp [effCbs]

/-- one scheduler step when nothing can crash -/
theorem step_safe {fr : Frames} {s : Sys} {i : Nat} {r : Req} (hc : s.crashed = false)
    (hr : s.reqs[i]? = some r) (hs : safeScript fr r.script) :
    step fr s i = { reqs := s.reqs.set i (stepReq fr r).1, crashed := false,
                    cbLog := s.cbLog ++ effLog i (stepReq fr r).2 } := by
  have hne := (stepReq_safe hs).1
  unfold step
  simp only [hc, hr]
  rcases hsr : stepReq fr r with ⟨r', e⟩
  rw [hsr] at hne
  cases e with
  | none => simp [effLog]
  | cb sd k => simp [effLog]
  | crash => exact absurd rfl hne

theorem step_none {fr : Frames} {s : Sys} {i : Nat} (hr : s.reqs[i]? = none) : step fr s i = s := by
  unfold step
  split
  · rfl
  · simp [hr]

theorem filter_effLog_self (i : Nat) (e : Eff) :
    (effLog i e).filter (fun x => x.1 == i) = tag i (effCbs e) := by
  cases e <;> simp [effLog, effCbs, tag]

theorem filter_effLog_ne {i j : Nat} (h : i ≠ j) (e : Eff) :
    (effLog i e).filter (fun x => x.1 == j) = [] := by
  cases e <;> simp [effLog, h]

/-- The decomposition: with only recovered panics around, the system never crashes and every request
evolves exactly as if it ran alone. -/
theorem run_decompose (fr : Frames) (sched : List Nat) :
    ∀ (s : Sys), s.crashed = false → (∀ (j : Nat) (r : Req), s.reqs[j]? = some r → safeScript fr r.script) →
      (run fr s sched).crashed = false ∧
      (∀ j, (run fr s sched).reqs[j]? = (s.reqs[j]?).map (fun r => (runReq fr (sched.count j) r).1)) ∧
      (∀ j, (run fr s sched).cbLog.filter (fun x => x.1 == j) =
            s.cbLog.filter (fun x => x.1 == j) ++
              (match s.reqs[j]? with
               | some r => tag j (runReq fr (sched.count j) r).2
               | none => [])) := by
  induction sched with
  | nil =>
    intro s hc _
    refine ⟨hc, ?_, ?_⟩
    · intro j; simp [run, runReq]
    · intro j; cases h : s.reqs[j]? <;> simp [run, runReq, tag]
  | cons i rest ih =>
    intro s hc hsafe
    have hrun : run fr s (i :: rest) = run fr (step fr s i) rest := by simp [run]
    rw [hrun]
    cases hri : s.reqs[i]? with
    | none =>
      rw [step_none hri]
      obtain ⟨h1, h2, h3⟩ := ih s hc hsafe
      refine ⟨h1, ?_, ?_⟩
      · intro j
        rw [h2 j]
        by_cases hij : i = j
        · subst hij; simp [hri]
        · simp [hij]
      · intro j
        rw [h3 j]
        by_cases hij : i = j
        · subst hij; simp [hri]
        · simp [hij]
    | some r =>
      have hs := hsafe i r hri
      have hlt : i < s.reqs.length := by
        rcases List.getElem?_eq_some_iff.mp hri with ⟨h, _⟩; exact h
      rw [step_safe hc hri hs]
      have hsafe' : ∀ (j : Nat) (r' : Req), (s.reqs.set i (stepReq fr r).1)[j]? = some r' → safeScript fr r'.script := by
        intro j r' hj
        rw [List.getElem?_set] at hj
        by_cases hij : i = j
        · simp [hij] at hj
          subst hij
          simp [hlt] at hj
          rw [← hj]; exact (stepReq_safe hs).2
        · simp [hij] at hj; exact hsafe j r' hj
      obtain ⟨h1, h2, h3⟩ := ih { reqs := s.reqs.set i (stepReq fr r).1, crashed := false,
                                  cbLog := s.cbLog ++ effLog i (stepReq fr r).2 } rfl hsafe'
      refine ⟨h1, ?_, ?_⟩
      · intro j
        rw [h2 j]
        by_cases hij : i = j
        · subst hij
          simp only [List.getElem?_set_self hlt, hri, Option.map_some, List.count_cons, beq_self_eq_true, if_true]
          rw [runReq_succ]
        · simp [List.getElem?_set_ne hij, hij]
      · intro j
        rw [h3 j]
        by_cases hij : i = j
        · subst hij
          simp only [List.getElem?_set_self hlt, hri, List.count_cons, beq_self_eq_true, if_true,
            List.filter_append, filter_effLog_self]
          rw [runReq_succ]
          simp [tag, List.append_assoc]
        · simp only [List.getElem?_set_ne hij, List.filter_append, filter_effLog_ne hij, List.append_nil]
          simp [hij]

/-- what an observer sees of request `j` after any schedule, when nothing can crash -/
theorem view_run (fr : Frames) (reqs : List Req) (sched : List Nat)
    (hsafe : ∀ (j : Nat) (r : Req), reqs[j]? = some r → safeScript fr r.script) (j : Nat) :
    view (run fr (init reqs) sched) j =
      some ((reqs[j]?).map (fun r => (runReq fr (sched.count j) r).1),
            match reqs[j]? with
            | some r => tag j (runReq fr (sched.count j) r).2
            | none => []) := by
  obtain ⟨h1, h2, h3⟩ := run_decompose fr sched (init reqs) rfl hsafe
  unfold view
  rw [h1]
  simp only [Bool.false_eq_true, if_false]
  rw [h2 j, h3 j]
  simp [init]

/-! ### a lone request with an injected panic -/

theorem runReq_done (fr : Frames) (n : Nat) (r : Req) (h : r.out ≠ .running) : runReq fr n r = (r, []) := by
  induction n with
  | zero => rfl
  | succ n ih =>
    rw [runReq_succ]
    have : stepReq fr r = (r, .none) := by
      unfold stepReq
      split
      · rename_i h'; exact absurd h' h
      · rfl
    rw [this]
    simp [effCbs, ih]

/-- if the calls before position `pos` return normally and the schedule gives the request more than
`pos` steps, the injected panic is reached: under a recover frame the request ends with the
RecoveredPanicErr of that call and exactly one callback -/
theorem runReq_inject (fr : Frames) :
    ∀ (script : List Call) (pos n : Nat) (c : Call), script[pos]? = some c →
      (∀ c' ∈ script.take pos, c'.res = .ok) → pos < n → fr c.side c.kind = true →
      runReq fr n { script := injectScript script pos, out := .running } =
        ({ script := [], out := .panicErr c.side c.kind }, [(c.side, c.kind)]) := by
  intro script
  induction script with
  | nil => intro pos n c h; simp at h
  | cons d rest ih =>
    intro pos n c hc hok hn hf
    cases n with
    | zero => omega
    | succ n =>
      rw [runReq_succ]
      cases pos with
      | zero =>
        simp at hc
        subst hc
        have : stepReq fr { script := injectScript (d :: rest) 0, out := .running } =
            ({ script := [], out := .panicErr d.side d.kind }, .cb d.side d.kind) := by
          simp [stepReq, injectScript, hf, handled_eq]
        rw [this]
        simp [effCbs, runReq_done]
      | succ pos =>
        have hd : d.res = .ok := hok d (by simp)
        have : stepReq fr { script := injectScript (d :: rest) (pos + 1), out := .running } =
            ({ script := injectScript rest pos, out := .running }, .none) := by
          simp [stepReq, injectScript, hd]
        rw [this]
        have hc' : rest[pos]? = some c := by simpa using hc
        have hok' : ∀ c' ∈ rest.take pos, c'.res = .ok := by
          intro c' hc''
          exact hok c' (by simp [List.take_succ_cons, hc''])
        rw [ih pos n c hc' hok' (by omega) hf]
        simp [effCbs]

theorem mem_injectScript {cs : List Call} {pos : Nat} {c : Call} (h : c ∈ injectScript cs pos) :
    ∃ c0 ∈ cs, c.side = c0.side ∧ c.kind = c0.kind := by
  induction cs generalizing pos with
  | nil => simp [injectScript] at h
  | cons d rest ih =>
    cases pos with
    | zero =>
      simp [injectScript] at h
      rcases h with h | h
      · exact ⟨d, by simp, by simp [h], by simp [h]⟩
      · exact ⟨c, by simp [h], rfl, rfl⟩
    | succ pos =>
      simp [injectScript] at h
      rcases h with h | h
      · exact ⟨d, by simp, by simp [h], by simp [h]⟩
      · obtain ⟨c0, h0, h1, h2⟩ := ih h
        exact ⟨c0, by simp [h0], h1, h2⟩

end GS.Panics
