import GSProofs.Lemmas.RespLifeOutcomeQWorker
/-!
Outcome accounting, part 3: `QS0` for the manager handlers.
-/
namespace GS.RespLife

theorem qs0_pushTask (r : Id) (s : State) (p : Peer) (id : Id) (pri : Nat) : QS0 r s (pushTask s p id pri) := by
  unfold pushTask
  simp only
  split
  · exact QS0.refl r s
  · split <;> exact qs0_field rfl rfl rfl

theorem qs0_removeTask (r : Id) (s : State) (p : Peer) (id : Id) : QS0 r s (removeTask s p id) := by
  unfold removeTask
  simp only
  split
  · exact qs0_field rfl rfl rfl
  · exact QS0.refl r s

theorem qs0_taskDone (r : Id) (s : State) (p : Peer) (id : Id) : QS0 r s (taskDone s p id) := by
  unfold taskDone
  split
  · exact qs0_field rfl rfl rfl
  · exact QS0.refl r s

theorem qs0_terminate (r : Id) (s : State) (id : Id) : QS0 r s (terminate s id) := by
  unfold terminate
  split
  · exact QS0.refl r s
  · rename_i x hl
    have h1 := qs0_emit r s (.unprotect x.peer id) rfl
    have h2 : QS0 r (emit s (.unprotect x.peer id))
        { (emit s (.unprotect x.peer id)) with prot := (emit s (.unprotect x.peer id)).prot.filter (· != (x.peer, id)) } :=
      qs0_field rfl rfl rfl
    exact (h1.trans h2).trans (qs0_delResp r _ id)

theorem qs0_abortRequest (r : Id) (s : State) (id : Id) (err : Sig) : QS0 r s (abortRequest s id err).1 := by
  unfold abortRequest
  split
  · exact QS0.refl r s
  · rename_i x hl
    simp only
    have hrm := qs0_removeTask r s x.peer id
    split
    · exact hrm
    · split
      · cases err with
        | ctxCancel => exact (hrm.trans (qs0_terminate r _ id)).trans (qs0_emit r _ _ rfl)
        | network => exact hrm.trans (qs0_terminate r _ id)
        | cancelCmd => exact (hrm.trans (qs0_setState r _ id .completing)).trans (qs0_execTx r _ _ _ _ _)
      · dsimp only
        exact hrm.trans (qs0_modAux r _ id _)

theorem qs0_pauseRequest (r : Id) (s : State) (id : Id) : QS0 r s (pauseRequest s id).1 := by
  unfold pauseRequest
  split
  · exact QS0.refl r s
  · split
    · exact QS0.refl r s
    · split
      · exact QS0.refl r s
      · dsimp only; exact qs0_modAux r s id _

theorem qs0_unpauseFinish (r : Id) (s : State) (id : Id) : QS0 r s (unpauseFinish s id) := by
  unfold unpauseFinish
  split
  · exact QS0.refl r s
  · exact qs0_pushTask r s _ id _

theorem qs0_unpauseRequest (r : Id) (s : State) (id : Id) (ext : Bool) : QS0 r s (unpauseRequest s id ext).1 := by
  unfold unpauseRequest
  split
  · exact QS0.refl r s
  · rename_i x hl
    split
    · exact QS0.refl r s
    · simp only
      have h1 : QS0 r s (setState (modAux s id fun a => { a with sigPause := false }) id .queued) :=
        (qs0_modAux r s id _).trans (qs0_setState r _ id .queued)
      split
      · have hx := qs0_execTx r (setState (modAux s id fun a => { a with sigPause := false }) id .queued) .mgr
          x.peer id [.ext]
        generalize execTx (setState (modAux s id fun a => { a with sigPause := false }) id .queued) .mgr
          x.peer id [.ext] = pr at hx
        obtain ⟨s2, ok⟩ := pr
        simp only at hx ⊢
        split
        · exact (h1.trans hx).trans (qs0_unpauseFinish r s2 id)
        · exact (h1.trans hx).trans (qs0_parkMgr r s2 _ x.peer id [.ext])
      · exact h1.trans (qs0_unpauseFinish r _ id)

theorem qs0_updateRequest (r : Id) (s : State) (id : Id) (ext : Bool) : QS0 r s (updateRequest s id ext).1 := by
  unfold updateRequest
  split
  · exact QS0.refl r s
  · rename_i x hl
    simp only
    have hx := qs0_execTx r s .mgr x.peer id ((if ext = true then [TxOp.ext] else []) ++ [TxOp.status stPartial])
    generalize execTx s .mgr x.peer id ((if ext = true then [TxOp.ext] else []) ++ [TxOp.status stPartial]) = pr at hx
    obtain ⟨s1, ok⟩ := pr
    simp only at hx ⊢
    split
    · exact hx
    · exact hx.trans (qs0_parkMgr r s1 _ x.peer id _)

theorem qs0_procUpdateFinish (r : Id) (s : State) (id : Id) (plan : UP) : QS0 r s (procUpdateFinish s id plan) := by
  unfold procUpdateFinish
  split
  · exact QS0.refl r s
  · split
    · exact qs0_setState r s _ _
    · split
      · exact qs0_unpauseRequest r s id false
      · exact QS0.refl r s

theorem qs0_processUpdate (r : Id) (s : State) (id : Id) (plan : UP) : QS0 r s (processUpdate s id plan) := by
  unfold processUpdate
  split
  · exact QS0.refl r s
  · rename_i x hl
    split
    · exact QS0.refl r s
    · split
      · exact qs0_modAux r s id _
      · simp only
        generalize ((if (plan == .ext || plan == .unpauseExt) = true then [TxOp.ext] else []) ++
          (if (plan == .err) = true then [TxOp.status stFailedUnknown] else [])) = ops
        have hx := qs0_execTx r s .mgr x.peer id ops
        generalize execTx s .mgr x.peer id ops = pr at hx
        obtain ⟨s1, ok⟩ := pr
        simp only at hx ⊢
        split
        · exact hx.trans (qs0_procUpdateFinish r s1 id plan)
        · exact hx.trans (qs0_parkMgr r s1 _ x.peer id ops)

theorem qs0_newReqFinish (r : Id) (s : State) (p : Peer) (id : Id) (cfg : ReqCfg) : QS0 r s (newReqFinish s p id cfg) := by
  unfold newReqFinish
  split
  · exact qs0_insertResp r s _
  · exact qs0_insertResp r s _
  · exact qs0_insertResp r s _
  · exact (qs0_pushTask r s p id cfg.pri).trans (qs0_insertResp r _ _)

/-- the part of `newRequest` after the stream was opened -/
theorem qs0_newRequest_rest (r : Id) (s : State) (p : Peer) (id : Id) (cfg : ReqCfg) :
    QS0 r (openStream (protect s p id) id) (newRequest s p id cfg) := by
  unfold newRequest
  simp only
  have hx := qs0_execTx r (openStream (protect s p id) id) .mgr p id (prepareOps cfg.hook)
  generalize execTx (openStream (protect s p id) id) .mgr p id (prepareOps cfg.hook) = pr at hx
  obtain ⟨s3, ok⟩ := pr
  simp only at hx ⊢
  split
  · exact hx.trans (qs0_newReqFinish r s3 p id cfg)
  · exact hx.trans (qs0_parkMgr r s3 _ p id _)

theorem doneC_protect (r : Id) (s : State) (p : Peer) (id : Id) : doneC r (openStream (protect s p id) id) = doneC r s := by
  simp [doneC, openStream, protect, emit, List.countP_append, doneEv]

theorem qs0_protect (r : Id) (s : State) (p : Peer) (id : Id) (hid : id ≠ r) :
    QS0 r s (openStream (protect s p id) id) := by
  refine ⟨doneC_protect r s p id, ?_, fun _ hn => hn⟩
  have hne : (r != id) = true := by simpa using fun e => hid e.symm
  simp only [isClosed, openStream, protect, emit, List.contains_eq_mem, List.mem_filter, hne, and_true]

theorem qs0_newRequest (r : Id) (s : State) (p : Peer) (id : Id) (cfg : ReqCfg) (hid : id ≠ r) :
    QS0 r s (newRequest s p id cfg) := (qs0_protect r s p id hid).trans (qs0_newRequest_rest r s p id cfg)

theorem qs0_startTask (r : Id) (s : State) (w : Nat) : QS0 r s (startTask s w) := by
  unfold startTask
  split
  · exact QS0.refl r s
  · split
    · exact (qs0_taskDone r s _ _).trans (qs0_setPhase r _ w _)
    · rename_i x hl
      split
      · exact (qs0_taskDone r s _ _).trans (qs0_setPhase r _ w _)
      · simp only
        generalize hs1 : (if x.aux.started = true then s else emit s (.proc x.id)) = s1
        have hc1 : QS0 r s s1 := by
          rw [← hs1]; split
          · exact QS0.refl r s
          · exact qs0_emit r s _ rfl
        exact ((hc1.trans (qs0_modAux r s1 x.id _)).trans (qs0_setState r _ x.id .running)).trans (qs0_setWorker r _ w _)

theorem qs0_finishTask (r : Id) (s : State) (w : Nat) (err : Option WErr) : QS0 r s (finishTask s w err) := by
  unfold finishTask
  split
  · exact QS0.refl r s
  · rename_i wk hw
    have h1 : QS0 r s (setPhase (taskDone s wk.peer wk.id) w .done) :=
      (qs0_taskDone r s _ _).trans (qs0_setPhase r _ w _)
    simp only
    generalize setPhase (taskDone s wk.peer wk.id) w .done = s1 at h1
    split
    · exact h1
    · rename_i x hl
      split
      · split
        · exact h1.trans (qs0_pushTask r s1 _ _ _)
        · exact h1
      · split
        · exact h1.trans (qs0_terminate r s1 x.id)
        · split
          · exact h1.trans (qs0_setState r s1 _ _)
          · split
            · exact (h1.trans (qs0_emit r s1 _ rfl)).trans (qs0_terminate r _ x.id)
            · split
              · exact h1.trans (qs0_terminate r s1 x.id)
              · exact h1.trans (qs0_setState r s1 _ _)

theorem qs0_getUpdates (r : Id) (s : State) (w : Nat) : QS0 r s (getUpdates s w) := by
  unfold getUpdates
  split
  · exact QS0.refl r s
  · split
    · split
      · exact qs0_setPhase r s w _
      · rename_i x hl
        exact (qs0_modAux r s x.id _).trans (qs0_setPhase r _ w _)
    · exact QS0.refl r s

theorem qs0_clearPubWait (r : Id) (s : State) (p : Peer) : QS0 r s (clearPubWait s p) := by
  unfold clearPubWait
  simp only
  exact qs0_updMQ_same r s p (fun q => { q with pubWait := false }) (fun _ => rfl) (fun _ => rfl) (fun _ => rfl)

theorem qs0_dropNerr (r : Id) (s : State) (p : Peer) (id : Id) : QS0 r s (dropNerr s p id) := by
  unfold dropNerr
  simp only
  exact qs0_updMQ_same r s p (fun q => { q with pubQ := q.pubQ.erase (.emitNerr id) }) (fun _ => rfl) (fun _ => rfl)
    (fun _ => rfl)

/-- every handler except the registration of `r` -/
theorem qs0_handle (r : Id) (s : State) (m : Msg)
    (hnew : ∀ p cfg, m = .processRequests p (.new r cfg) → foreign s p r = true) : QS0 r s (handle s m) := by
  cases m with
  | processRequests p q =>
    show QS0 r s (if foreign s p q.id = true then s else processRequest s p q)
    split
    · exact QS0.refl r s
    · rename_i hf
      cases q with
      | new id cfg =>
        refine qs0_newRequest r s p id cfg ?_
        intro hid
        subst hid
        exact hf (hnew p cfg rfl)
      | cancel id => exact qs0_abortRequest r s id .ctxCancel
      | update id plan => exact qs0_processUpdate r s id plan
  | api c =>
    cases c with
    | pause id =>
      show QS0 r s (emit (pauseRequest s id).1 _)
      exact (qs0_pauseRequest r s id).trans (qs0_emit r _ _ rfl)
    | unpause id ext =>
      show QS0 r s (if (unpauseRequest s id ext).2.2 = true then (unpauseRequest s id ext).1
        else emit (unpauseRequest s id ext).1 _)
      split
      · exact qs0_unpauseRequest r s id ext
      · exact (qs0_unpauseRequest r s id ext).trans (qs0_emit r _ _ rfl)
    | cancel id =>
      show QS0 r s (emit (abortRequest s id .cancelCmd).1 _)
      exact (qs0_abortRequest r s id .cancelCmd).trans (qs0_emit r _ _ rfl)
    | update id ext =>
      show QS0 r s (if (updateRequest s id ext).2.2 = true then (updateRequest s id ext).1
        else emit (updateRequest s id ext).1 _)
      split
      · exact qs0_updateRequest r s id ext
      · exact (qs0_updateRequest r s id ext).trans (qs0_emit r _ _ rfl)
  | startTask w => exact qs0_startTask r s w
  | getUpdates w => exact qs0_getUpdates r s w
  | finishTask w err => exact qs0_finishTask r s w err
  | closeNetErr id inc pub =>
    rw [handle_closeNetErr]
    split
    · split
      · exact (qs0_abortRequest r s id .network).trans (qs0_clearPubWait r _ pub)
      · exact ((qs0_abortRequest r s id .network).trans (qs0_clearPubWait r _ pub)).trans (qs0_dropNerr r _ pub id)
    · exact (qs0_clearPubWait r s pub).trans (qs0_dropNerr r _ pub id)
  | terminate id inc pub =>
    rw [handle_terminate]
    split
    · exact (qs0_terminate r s id).trans (qs0_clearPubWait r _ pub)
    · exact qs0_clearPubWait r s pub

theorem qs0_resumeMgr (r : Id) (s : State) (pk : MgrPark) : QS0 r s (resumeMgr s pk) := by
  unfold resumeMgr
  simp only
  have h0 : QS0 r s { s with park := none } := qs0_field rfl rfl rfl
  have h1 := h0.trans (qs0_buildNow r { s with park := none } .mgr pk.peer pk.id pk.ops)
  generalize buildNow { s with park := none } .mgr pk.peer pk.id pk.ops = s1 at h1
  cases pk.cont with
  | newReq p id cfg => exact h1.trans (qs0_newReqFinish r s1 p id cfg)
  | procUpdate id plan => exact h1.trans (qs0_procUpdateFinish r s1 id plan)
  | unpause id ext => exact (h1.trans (qs0_unpauseFinish r s1 id)).trans (qs0_emit r _ _ rfl)
  | update id ext => exact h1.trans (qs0_emit r s1 _ rfl)

end GS.RespLife
