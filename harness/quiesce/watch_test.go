package quiesce

import (
	"runtime"
	"sync"
	"testing"
	"time"
)

// a goroutine blocked on a mutex for good: Wait never returns, nothing is runnable -> onHang
func TestWatchDeclaresHangOnlyWithoutRunnableWork(t *testing.T) {
	runtime.GOMAXPROCS(1)
	var mu sync.Mutex
	mu.Lock()
	go func() { mu.Lock() }()
	got := make(chan string, 1)
	w := NewWatch(500*time.Millisecond, 200*time.Millisecond, time.Minute,
		func(d string) { got <- "hang: " + d }, func(d string) { got <- "timeout: " + d })
	defer w.Stop()
	go Wait(nil)
	select {
	case s := <-got:
		if s[:5] != "hang:" {
			t.Fatalf("expected hang, got %s", s)
		}
	case <-time.After(20 * time.Second):
		t.Fatal("watch did not fire")
	}
}

// a goroutine that keeps working: never a hang, a timeout at the limit
func TestWatchTimeoutWhileWorkIsRunnable(t *testing.T) {
	runtime.GOMAXPROCS(1)
	stop := make(chan struct{})
	defer close(stop)
	go func() {
		for {
			select {
			case <-stop:
				return
			default:
				runtime.Gosched()
			}
		}
	}()
	got := make(chan string, 1)
	w := NewWatch(300*time.Millisecond, 200*time.Millisecond, 3*time.Second,
		func(d string) { got <- "hang: " + d }, func(d string) { got <- "timeout: " + d })
	defer w.Stop()
	select {
	case s := <-got:
		if s[:8] != "timeout:" {
			t.Fatalf("expected timeout, got %s", s)
		}
	case <-time.After(30 * time.Second):
		t.Fatal("watch did not fire")
	}
}
