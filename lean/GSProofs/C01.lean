import GS.Model.Loader
/-!
# C01 — Requestor only delivers and stores verified, selector-reachable data
(theorems are added below as they are proved; see the end of the file for what is still open)
-/
namespace GS.C01
open GS.Loader

/-- placeholder obligation while the cluster is being built: the action table of
    `LinkAction.DidFollowLink` (complete finite table, `decide` is a proof). -/
theorem didFollow_table : ∀ a : Action, a.didFollow = (a = .present ∨ a = .dupNotSent) := by
  intro a; cases a <;> simp [Action.didFollow]

end GS.C01
