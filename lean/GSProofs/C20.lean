import GS.Model.Concurrent
import GSProofs.C19
/-!
# C20 — Concurrent requests between two peers each retrieve completely

> Several requests in flight at once from one requestor to one responder, over overlapping DAGs, each
> deliver the same nodes and store the same blocks as they would if run alone, whatever the
> interleaving of their traversals and messages.

**The sentence is false of the code as it is** (known finding `shared-block-not-yet-stored`,
reproduced on the real code by the `concur` harness on every run, `corpus/C20/concur/known.cases`): the
responder de-duplicates blocks per PEER across requests (`peerLinkTracker`: a block in use by an
in-progress request of the same dedup scope is reported "present" to a second request WITHOUT its
bytes), while the requestor verifies and loads per REQUEST: the second request looks the block up in
the local store, and if the first request's copy has not been stored yet (not delivered, or its
traversal has not reached it), the link is reported missing and its subtree skipped.

* `full` — the statement at full strength, kept as a comment (false).
* `counterexample` — a concrete schedule of the model `GS.Concurrent` (two requests for the same
  two-block DAG), by evaluation: the second request reports the root missing and delivers nothing,
  alone it delivers both blocks.
* `distinct_keys_repair` — the same schedule with distinct dedup-by-key extensions: both requests
  deliver everything (a test of concrete values).
* Responder side, for EVERY interleaving of any number of requests (every well-formed history of the
  peer's link tracker, via `GS.C19.send_iff_partial`): `responder_decision` — the decision for a link of
  request `r` is the decision the responder would take if `r` were alone, AND no other in-progress
  request of `r`'s dedup scope holds the block; `distinct_keys_decide_alone` — if no other in-progress
  request shares `r`'s scope (distinct dedup keys), the decision is exactly the solo decision;
  `own_history` — the solo decision is a function of `r`'s own operations only.
* Requestor side: `step_frame` — a step of request `i` leaves every other request's executor, loader,
  in-flight messages and reports unchanged (the only coupling is the shared block store and the
  peer's link tracker).
* `partial` — NOT proved; the statement is kept at the end of the file.
-/
namespace GS.C20
open GS.Loader GS.Requestor GS.LinkTrack GS.Concurrent

/-! ## the counterexample -/

/-- link tree of the example: root 7 with one child 3 -/
def exLT : LT := [⟨7, [], 0, 1, 0⟩, ⟨3, [0], 1, 1, 0⟩]

/-- both requests are issued; the responder handles the root for request 0 (block 7 travels) and then
    for request 1 (block 7 is in use by request 0: present, no bytes); request 1's message is delivered
    first: the requestor looks block 7 up in its store, where request 0's copy has not arrived yet. -/
def exSched : List Act :=
  [.start 0, .start 1, .resp 0, .resp 1, .deliver 1, .resp 1, .deliver 1, .resp 1, .deliver 1,
   .deliver 0, .resp 0, .deliver 0, .resp 0, .deliver 0]

/-- **C20.counterexample.**  Two requests for the same DAG (root 7, child 3) from a requestor that
    holds nothing to a responder that holds everything, no dedup key.  Under `exSched` (`exRun`) request 0
    delivers both blocks, request 1 reports the root missing (`RemoteMissingBlockErr` for block 7 at the
    empty path) and delivers nothing — run alone, it delivers both blocks.  Both requests have
    terminated; the store holds both blocks at the end. -/
def exRun : Sys := Concurrent.run (initSys [] [7, 3] [exLT, exLT] [none, none]) exSched
def exAlone : Sys := solo [] [7, 3] exLT none

theorem counterexample :
    resultOf exAlone 0 = ([(7, []), (3, [0])], [], 2) ∧
    resultOf exRun 0 = ([(7, []), (3, [0])], [], 2) ∧
    resultOf exRun 1 = ([], [(7, [])], 0) ∧
    finished exRun 0 = true ∧ finished exRun 1 = true ∧ finished exAlone 0 = true ∧
    stored exRun = [3, 7] := by
  refine ⟨by decide, by decide, by decide, by decide, by decide, by decide, by decide⟩

/-- the same schedule when the two requests carry DISTINCT dedup-by-key extensions: each is served
    from its own link tracker and both deliver everything (a test of concrete values; the general
    responder-side statement is `distinct_keys_decide_alone`). -/
theorem distinct_keys_repair :
    resultOf (Concurrent.run (initSys [] [7, 3] [exLT, exLT] [some 1, some 2]) exSched) 0 = ([(7, []), (3, [0])], [], 2) ∧
    resultOf (Concurrent.run (initSys [] [7, 3] [exLT, exLT] [some 1, some 2]) exSched) 1 = ([(7, []), (3, [0])], [], 2) := by
  decide

/-- … and with the SAME dedup key the defect is back (the key only names the scope). -/
theorem same_key_counterexample :
    resultOf (Concurrent.run (initSys [] [7, 3] [exLT, exLT] [some 5, some 5]) exSched) 1 = ([], [(7, [])], 0) := by
  decide

/-! ## the responder's decisions, for every interleaving -/

/-- the decision the responder takes for link `l` of request `r` when only `r`'s own history counts:
    the block is present, `r` is past its do-not-send-first-blocks window, and `r` itself has not
    traversed `l` with its block before -/
def soloDecision (h : List LinkTrack.Op) (r : Req) (l : Link) (b : Bool) : Prop :=
  b = true ∧ skipOf r h < ((travCount r h + 1 : Nat) : Int) ∧ l ∉ withBlock r h

/-- **C20.responder_decision.**  After ANY well-formed history of the peer's link tracker (any number
    of requests, their `RecordLinkTraversal` / finish / clear operations interleaved in any order),
    the block of link `l` travels with request `r`'s response iff the responder would send it were `r`
    alone AND no other request of `r`'s dedup scope that is in progress has traversed `l` with its
    block.  The second conjunct is the cross-request de-duplication that property C20 trips over. -/
theorem responder_decision (h : List LinkTrack.Op) (hwf : WF h) (r : Req) (l : Link) (b : Bool) :
    ∃ s, (LinkTrack.step (LinkTrack.run h).1 (.trav r l b)).2 = LinkTrack.Out.sent s (travCount r h + 1) ∧
      (s = true ↔ (soloDecision h r l b ∧ ∀ r', r' ≠ r → scopeOf r' h = scopeOf r h → l ∉ withBlock r' h)) := by
  obtain ⟨s, hs, hiff⟩ := GS.C19.send_iff_partial h hwf r l b
  refine ⟨s, hs, ?_⟩
  rw [hiff]
  unfold soloDecision
  constructor
  · rintro ⟨hb, hsk, hall⟩
    exact ⟨⟨hb, hsk, hall r rfl⟩, fun r' _ hsc => hall r' hsc⟩
  · rintro ⟨⟨hb, hsk, hown⟩, hothers⟩
    refine ⟨hb, hsk, fun r' hsc => ?_⟩
    by_cases hr : r' = r
    · subst hr; exact hown
    · exact hothers r' hr hsc

/-- **C20.distinct_keys_decide_alone** (the responder half of `partial`).  If no other request that is
    in progress shares `r`'s dedup scope — in particular if all concurrent requests carry distinct
    dedup keys — the responder decides for `r` exactly as if `r` were alone, under every interleaving. -/
theorem distinct_keys_decide_alone (h : List LinkTrack.Op) (hwf : WF h) (r : Req) (l : Link) (b : Bool)
    (hd : ∀ r', r' ≠ r → inProgress r' h = true → scopeOf r' h ≠ scopeOf r h) :
    ∃ s, (LinkTrack.step (LinkTrack.run h).1 (.trav r l b)).2 = LinkTrack.Out.sent s (travCount r h + 1) ∧
      (s = true ↔ soloDecision h r l b) := by
  obtain ⟨s, hs, hiff⟩ := responder_decision h hwf r l b
  refine ⟨s, hs, ?_⟩
  rw [hiff]
  constructor
  · exact fun h1 => h1.1
  · intro h1
    refine ⟨h1, fun r' hne hsc => ?_⟩
    by_cases hip : inProgress r' h = true
    · exact absurd hsc (hd r' hne hip)
    · -- a request that is not in progress has traversed nothing
      have : since r' h = [] := by
        unfold inProgress at hip
        cases hsn : since r' h with
        | nil => rfl
        | cons _ _ => simp [hsn] at hip
      simp [withBlock, this]

/-- non-vacuity of `responder_decision` / `distinct_keys_decide_alone`: a well-formed interleaved history
    of two requests with distinct dedup keys over the same block 9, and one with the same key: the
    second request gets the block in the first case only (a test of concrete values) -/
example :
    WF [.dedup 1 5, .dedup 2 6, .trav 1 9 true] ∧
    (∀ r', r' ≠ 2 → inProgress r' [.dedup 1 5, .dedup 2 6, .trav 1 9 true] = true →
      scopeOf r' [.dedup 1 5, .dedup 2 6, .trav 1 9 true] ≠ scopeOf 2 [.dedup 1 5, .dedup 2 6, .trav 1 9 true]) ∧
    (LinkTrack.step (LinkTrack.run [.dedup 1 5, .dedup 2 6, .trav 1 9 true]).1 (.trav 2 9 true)).2 = .sent true 1 ∧
    WF [.dedup 1 5, .dedup 2 5, .trav 1 9 true] ∧
    (LinkTrack.step (LinkTrack.run [.dedup 1 5, .dedup 2 5, .trav 1 9 true]).1 (.trav 2 9 true)).2 = .sent false 1 := by
  refine ⟨by decide, ?_, by decide, by decide, by decide⟩
  intro r' hne hip
  -- only requests 1 and 2 are in progress
  by_cases h1 : r' = 1
  · subst h1; decide
  · exfalso
    have h1' : ¬ (1 = r') := fun h => h1 h.symm
    have h2' : ¬ (2 = r') := fun h => hne h.symm
    have : inProgress r' [.dedup 1 5, .dedup 2 6, .trav 1 9 true] = false := by
      simp [inProgress, since, sinceStep, Op.req, Op.isEnd, h1', h2']
    rw [this] at hip
    cases hip

/-- the operations of request `r` in a history -/
def ownOps (r : Req) (h : List LinkTrack.Op) : List LinkTrack.Op := h.filter (fun o => o.req == r)

theorem since_own (r : Req) (h : List LinkTrack.Op) : since r (ownOps r h) = since r h := by
  unfold since ownOps
  suffices ∀ acc, List.foldl (sinceStep r) acc (h.filter (fun o => o.req == r)) = List.foldl (sinceStep r) acc h from
    this []
  induction h with
  | nil => intro acc; rfl
  | cons o rest ih =>
    intro acc
    by_cases ho : o.req = r
    · simp only [List.filter_cons, ho, beq_self_eq_true, if_true, List.foldl_cons]
      exact ih _
    · have hb : (o.req == r) = false := by simpa using ho
      simp only [List.filter_cons, hb, Bool.false_eq_true, if_false, List.foldl_cons]
      have : sinceStep r acc o = acc := by simp [sinceStep, ho]
      rw [this]
      exact ih _

/-- **C20.own_history.**  The solo decision is a function of `r`'s own operations: the other requests'
    operations can be deleted from the history without changing it. -/
theorem own_history (h : List LinkTrack.Op) (r : Req) (l : Link) (b : Bool) :
    soloDecision h r l b ↔ soloDecision (ownOps r h) r l b := by
  unfold soloDecision skipOf travCount withBlock
  rw [since_own]

/-! ## the requestor side: requests are coupled through the store and the tracker only -/

theorem getElem?_set_ne {α : Type} (l : List α) (i j : Nat) (v : α) (h : j ≠ i) :
    (l.set i v)[j]? = l[j]? := by
  simp [Ne.symm h]

/-- the action concerns request `i` -/
def Act.idx : Act → Nat
  | .start i | .resp i | .deliver i => i

/-- **C20.step_frame.**  A step of request `i` does not touch the executor / loader state, the
    responder's traversal cursor, the in-flight messages or the reports of any other request `j`. -/
theorem step_frame (s : Sys) (a : Act) (j : Nat) (hj : j ≠ Act.idx a) :
    (Concurrent.step s a).reqs[j]? = s.reqs[j]? ∧ (Concurrent.step s a).resp[j]? = s.resp[j]? ∧
    (Concurrent.step s a).chan[j]? = s.chan[j]? ∧ (Concurrent.step s a).evs[j]? = s.evs[j]? ∧
    (Concurrent.step s a).lts = s.lts ∧ (Concurrent.step s a).rem = s.rem := by
  cases a with
  | start i =>
    simp only [Act.idx] at hj
    simp only [Concurrent.step]
    split
    · split
      · exact ⟨rfl, rfl, rfl, rfl, rfl, rfl⟩
      · generalize Requestor.request _ _ _ = rq
        obtain ⟨r', ev⟩ := rq
        simp only
        split <;> simp [setAt, getElem?_set_ne _ _ _ _ hj]
    · exact ⟨rfl, rfl, rfl, rfl, rfl, rfl⟩
  | resp i =>
    simp only [Act.idx] at hj
    simp only [Concurrent.step]
    split
    · split
      · exact ⟨rfl, rfl, rfl, rfl, rfl, rfl⟩
      · split
        · simp [setAt, getElem?_set_ne _ _ _ _ hj]
        · split
          · simp [setAt, getElem?_set_ne _ _ _ _ hj]
          · simp [setAt, getElem?_set_ne _ _ _ _ hj]
    · exact ⟨rfl, rfl, rfl, rfl, rfl, rfl⟩
  | deliver i =>
    simp only [Act.idx] at hj
    simp only [Concurrent.step]
    split
    · generalize Requestor.message _ _ _ _ _ _ = rq
      obtain ⟨r', ev⟩ := rq
      simp [setAt, getElem?_set_ne _ _ _ _ hj]
    · exact ⟨rfl, rfl, rfl, rfl, rfl, rfl⟩

/-! ## full and partial statements (NOT proved)

  -- false: `counterexample`
  theorem full : ∀ st rem lts keys sched i, Fair sched →          -- every request runs to its end
      resultOf (run (initSys st rem lts keys) sched) i = resultOf (solo st rem lts[i] keys[i]) 0

  -- the composed statement the harness `concur` has not been able to refute (every generated failure
  -- is in the class of the counterexample, and no case with distinct keys fails):
  theorem partial : ∀ st rem lts keys sched i, Fair sched → (∀ c, st has c → rem has c) →
      (keys pairwise distinct (all `some`)
        ∨ every block shared between two requests is stored by the request it travelled with
          before any other request's traversal reaches it) →
      resultOf (run (initSys st rem lts keys) sched) i = resultOf (solo st rem lts[i] keys[i]) 0

Proved parts: the responder decides for each request as if alone when the keys are distinct
(`distinct_keys_decide_alone`, every interleaving), requests interact only through the store and the
tracker (`step_frame`).  Missing: that the larger shared store never changes the outcome of a local
lookup of a request (needs `st ⊆ rem` and C02's completeness argument, open), and the induction over
schedules that puts the pieces together.
-/

end GS.C20
