package main

import (
	"os"

	"verifharness/concur"
	"verifharness/reg"
)

func main() {
	if len(os.Args) > 1 && os.Args[1] == "child" {
		concur.Child()
		return
	}
	reg.Main("concur")
}
