/-
IPLD data model, selector specifications and go-ipld-prime's selector walk (core Lean only).

Mirrors (go-ipld-prime v0.24.0, the version pinned by /repo/go.mod):
  datamodel.Node (basicnode)                         -> Node
  traversal/selector/builder  (the builder DSL)      -> Sel  +  enc : Sel → Node
  selector.ParseSelector (what "well-formed" means)  -> wf
  selector.Selector (compiled selectors), restricted to the combinators that
    /repo/selectorvalidator/selectorvalidator.go uses for `maxDepthSelector`
    (Matcher, ExploreAll, ExploreFields, ExploreRecursiveEdge, ExploreUnion,
     ExploreRecursive)                               -> RSel, compile, interests, explore, isMatch
  traversal.Progress.WalkMatching / walkAdv / explore over an in-memory node with the default
    (zero) configuration: no budget, no link system  -> walk

Used by GS/Model/Validator.lean (property C08).
-/
namespace GS.Sel

/-! ## IPLD nodes -/

inductive Node where
  | null
  | bool (b : Bool)
  | int (i : Int)
  | str (s : String)
  | bytes (s : String)
  | link (c : Nat)
  | list (xs : List Node)
  | map (kvs : List (String × Node))
deriving Repr, Inhabited

def Node.isLink : Node → Bool
  | .link _ => true
  | _ => false

/-- `LookupByString` on a basicnode map: first entry with that key. -/
def lookupNode (k : String) : List (String × Node) → Option Node
  | [] => none
  | (k', v) :: rest => if k' = k then some v else lookupNode k rest

/-! ## Selector specifications (what the builder DSL can express, plus `stopAt`) -/

inductive Limit where
  | none
  | depth (d : Int)
deriving Repr, DecidableEq, Inhabited

inductive Sel where
  | matcher (subset : Option (Int × Int))
  | all (next : Sel)
  | fields (fs : List (String × Sel))
  | index (i : Int) (next : Sel)
  | range (a b : Int) (next : Sel)
  /-- `stopAt` is a Condition; go-ipld-prime only knows the link condition `{"/": <link>}` -/
  | recursive (limit : Limit) (seq : Sel) (stopAt : Option Nat)
  | edge
  | union (ms : List Sel)
  | interpretAs (adl : String) (next : Sel)
deriving Repr, Inhabited

def encLimit : Limit → Node
  | .none => .map [("none", .map [])]
  | .depth d => .map [("depth", .int d)]

/-! `enc` = the node the builder produces (same keys, same entry order). -/
mutual
def enc : Sel → Node
  | .matcher none => .map [(".", .map [])]
  | .matcher (some (a, b)) => .map [(".", .map [("subset", .map [("[", .int a), ("]", .int b)])])]
  | .all n => .map [("a", .map [(">", enc n)])]
  | .fields fs => .map [("f", .map [("f>", .map (encFields fs))])]
  | .index i n => .map [("i", .map [("i", .int i), (">", enc n)])]
  | .range a b n => .map [("r", .map [("^", .int a), ("$", .int b), (">", enc n)])]
  | .recursive l seq none => .map [("R", .map [("l", encLimit l), (":>", enc seq)])]
  | .recursive l seq (some c) =>
      .map [("R", .map [("l", encLimit l), (":>", enc seq), ("!", .map [("/", .link c)])])]
  | .edge => .map [("@", .map [])]
  | .union ms => .map [("|", .list (encList ms))]
  | .interpretAs adl n => .map [("~", .map [("as", .str adl), (">", enc n)])]
def encFields : List (String × Sel) → List (String × Node)
  | [] => []
  | (k, s) :: rest => (k, enc s) :: encFields rest
def encList : List Sel → List Node
  | [] => []
  | s :: rest => enc s :: encList rest
end

/-! ### every recursion limit occurring anywhere in a selector specification -/
mutual
def limits : Sel → List Limit
  | .matcher _ => []
  | .all n => limits n
  | .fields fs => limitsFields fs
  | .index _ n => limits n
  | .range _ _ n => limits n
  | .recursive l seq _ => l :: limits seq
  | .edge => []
  | .union ms => limitsList ms
  | .interpretAs _ n => limits n
def limitsFields : List (String × Sel) → List Limit
  | [] => []
  | (_, s) :: rest => limits s ++ limitsFields rest
def limitsList : List Sel → List Limit
  | [] => []
  | s :: rest => limits s ++ limitsList rest
end

/-! ### well-formedness = `selector.ParseSelector (enc s)` succeeds -/

mutual
/-- number of ExploreRecursiveEdge clauses that link to the nearest enclosing ExploreRecursive
    (`exploreRecursiveContext.edgesFound`): edges inside a nested recursion are not counted. -/
def directEdges : Sel → Nat
  | .matcher _ => 0
  | .all n => directEdges n
  | .fields fs => directEdgesFields fs
  | .index _ n => directEdges n
  | .range _ _ n => directEdges n
  | .recursive _ _ _ => 0
  | .edge => 1
  | .union ms => directEdgesList ms
  | .interpretAs _ n => directEdges n
def directEdgesFields : List (String × Sel) → Nat
  | [] => 0
  | (_, s) :: rest => directEdges s + directEdgesFields rest
def directEdgesList : List Sel → Nat
  | [] => 0
  | s :: rest => directEdges s + directEdgesList rest
end

def keysNodup : List String → Bool
  | [] => true
  | k :: rest => !rest.contains k && keysNodup rest

mutual
/-- `inRec`: some ExploreRecursive encloses this clause. -/
def wfIn (inRec : Bool) : Sel → Bool
  | .matcher none => true
  | .matcher (some (a, b)) => !(b ≥ 0 && a > b)
  | .all n => wfIn inRec n
  | .fields fs => wfFields inRec fs
  | .index _ n => wfIn inRec n
  | .range a b n => a < b && wfIn inRec n
  | .recursive _ seq _ => wfIn true seq && directEdges seq ≥ 1
  | .edge => inRec
  | .union ms => wfList inRec ms
  | .interpretAs _ n => wfIn inRec n
def wfFields (inRec : Bool) : List (String × Sel) → Bool
  | [] => true
  | (_, s) :: rest => wfIn inRec s && wfFields inRec rest
def wfList (inRec : Bool) : List Sel → Bool
  | [] => true
  | s :: rest => wfIn inRec s && wfList inRec rest
end

mutual
/-- a basicnode map cannot hold a key twice: `enc s` exists as a Go value only if this holds -/
def buildable : Sel → Bool
  | .matcher _ => true
  | .all n => buildable n
  | .fields fs => keysNodup (fs.map (·.1)) && buildableFields fs
  | .index _ n => buildable n
  | .range _ _ n => buildable n
  | .recursive _ seq _ => buildable seq
  | .edge => true
  | .union ms => buildableList ms
  | .interpretAs _ n => buildable n
def buildableFields : List (String × Sel) → Bool
  | [] => true
  | (_, s) :: rest => buildable s && buildableFields rest
def buildableList : List Sel → Bool
  | [] => true
  | s :: rest => buildable s && buildableList rest
end

/-- well-formed selector specification: the builder can produce it and ParseSelector accepts it -/
def wf (s : Sel) : Bool := buildable s && wfIn false s

/-! ### which nodes go-ipld-prime's ParseSelector reads as a given selector specification

`enc s` is only the builder's canonical node.  ParseSelector looks fields up by name
(`LookupByString`), so it accepts the entries of every clause body in any order and ignores
entries it does not know; a limit `{"none": v}` is accepted for any `v`; the bodies of matcher and
recursive-edge clauses may hold anything.  What it insists on: every selector (and limit, and
condition) node is a map with exactly ONE entry (keyed union); clause bodies are maps (the union
body a list); `f>` is a map; required fields are present with the right kind; a `subset` / `!`
entry, if present, has the right shape.  `parsesB s n` = "ParseSelector reads node `n` as the
specification `s`" (well-formedness conditions on `s` itself — edges under a recursion, range
bounds … — are `wfIn`, as for `enc`).  Validated against the real parser by the `alt` ops of the
correspondence stream. -/

/-- the entry of a single-entry map (a keyed union) -/
def clause : Node → Option (String × Node)
  | .map [(k, v)] => some (k, v)
  | _ => none

/-- `n = {key: {kvs…}}` -/
def bodyOf (key : String) (n : Node) : Option (List (String × Node)) :=
  match clause n with
  | some (k, .map kvs) => if k = key then some kvs else none
  | _ => none

/-- `parseLimit` -/
def parsesLimitB : Limit → Node → Bool
  | .none, n =>
    match clause n with
    | some (k, _) => k == "none"
    | none => false
  | .depth d, n =>
    match clause n with
    | some (k, .int i) => k == "depth" && i == d
    | _ => false

/-- the optional `subset` entry of a matcher body -/
def parsesSubsetB (sub : Option (Int × Int)) (kvs : List (String × Node)) : Bool :=
  match lookupNode "subset" kvs with
  | none => sub.isNone
  | some (.map skvs) =>
    match lookupNode "[" skvs, lookupNode "]" skvs with
    | some (.int a), some (.int b) => sub == some (a, b)
    | _, _ => false
  | some _ => false

/-- the optional `!` (stopAt) entry of an ExploreRecursive body: `{"/": <link>}` -/
def parsesStopB (st : Option Nat) (kvs : List (String × Node)) : Bool :=
  match lookupNode "!" kvs with
  | none => st.isNone
  | some n =>
    match clause n with
    | some (k, .link c) => k == "/" && st == some c
    | _ => false

mutual
def parsesB : Sel → Node → Bool
  | .matcher sub, n =>
    match bodyOf "." n with
    | some kvs => parsesSubsetB sub kvs
    | none => false
  | .all s, n =>
    match bodyOf "a" n with
    | some kvs =>
      (match lookupNode ">" kvs with
       | some n' => parsesB s n'
       | none => false)
    | none => false
  | .fields fs, n =>
    match bodyOf "f" n with
    | some kvs =>
      (match lookupNode "f>" kvs with
       | some (.map fkvs) => parsesFieldsB fs fkvs
       | _ => false)
    | none => false
  | .index i s, n =>
    match bodyOf "i" n with
    | some kvs =>
      (match lookupNode "i" kvs, lookupNode ">" kvs with
       | some (.int j), some n' => j == i && parsesB s n'
       | _, _ => false)
    | none => false
  | .range a b s, n =>
    match bodyOf "r" n with
    | some kvs =>
      (match lookupNode "^" kvs, lookupNode "$" kvs, lookupNode ">" kvs with
       | some (.int a'), some (.int b'), some n' => a' == a && b' == b && parsesB s n'
       | _, _, _ => false)
    | none => false
  | .recursive l seq st, n =>
    match bodyOf "R" n with
    | some kvs =>
      (match lookupNode "l" kvs, lookupNode ":>" kvs with
       | some ln, some sn => parsesLimitB l ln && parsesStopB st kvs && parsesB seq sn
       | _, _ => false)
    | none => false
  | .edge, n => (bodyOf "@" n).isSome
  | .union ms, n =>
    match clause n with
    | some (k, .list xs) => k == "|" && parsesListB ms xs
    | _ => false
  | .interpretAs adl s, n =>
    match bodyOf "~" n with
    | some kvs =>
      (match lookupNode "as" kvs, lookupNode ">" kvs with
       | some (.str a), some n' => a == adl && parsesB s n'
       | _, _ => false)
    | none => false
def parsesFieldsB : List (String × Sel) → List (String × Node) → Bool
  | [], [] => true
  | (k, s) :: fs, (k', n) :: ns => k == k' && parsesB s n && parsesFieldsB fs ns
  | _, _ => false
def parsesListB : List Sel → List Node → Bool
  | [], [] => true
  | s :: ms, n :: ns => parsesB s n && parsesListB ms ns
  | _, _ => false
end

/-- `Parses n s`: go-ipld-prime's ParseSelector reads the node `n` as the specification `s` -/
def Parses (n : Node) (s : Sel) : Prop := parsesB s n = true

/-! ## Compiled selectors: only the combinators the validator's own selector uses -/

inductive RSel where
  | matcher
  | all (next : RSel)
  | fields (fs : List (String × RSel))
  | edge
  | union (ms : List RSel)
  /-- `ExploreRecursive{sequence, current, limit, stopAt = nil}` -/
  | recursive (seq cur : RSel) (limit : Limit)
deriving Repr, Inhabited

mutual
/-- ParseSelector restricted to the supported combinators (no well-formedness check here). -/
def compile : Sel → Option RSel
  | .matcher none => some .matcher
  | .matcher (some _) => none
  | .all n => (compile n).map .all
  | .fields fs => (compileFields fs).map .fields
  | .index _ _ => none
  | .range _ _ _ => none
  | .recursive l seq none => (compile seq).map fun c => .recursive c c l
  | .recursive _ _ (some _) => none
  | .edge => some .edge
  | .union ms => (compileList ms).map .union
  | .interpretAs _ _ => none
def compileFields : List (String × Sel) → Option (List (String × RSel))
  | [] => some []
  | (k, s) :: rest =>
    match compile s, compileFields rest with
    | some c, some cs => some ((k, c) :: cs)
    | _, _ => none
def compileList : List Sel → Option (List RSel)
  | [] => some []
  | s :: rest =>
    match compile s, compileList rest with
    | some c, some cs => some (c :: cs)
    | _, _ => none
end

def lookupSel (k : String) : List (String × RSel) → Option RSel
  | [] => none
  | (k', v) :: rest => if k' = k then some v else lookupSel k rest

def RSel.isEdge : RSel → Bool
  | .edge => true
  | _ => false

mutual
/-- `Selector.Interests()`: `none` = nil = "all children", `some ks` = exactly these segments -/
def interests : RSel → Option (List String)
  | .matcher => some []
  | .all _ => none
  | .fields fs => some (fs.map (·.1))
  | .edge => some []
  | .union ms => interestsList ms
  | .recursive _ cur _ => interests cur
/-- ExploreUnion.Interests: nil if any member says nil, else the concatenation -/
def interestsList : List RSel → Option (List String)
  | [] => some []
  | m :: rest =>
    match interests m, interestsList rest with
    | some a, some b => some (a ++ b)
    | _, _ => none
end

mutual
/-- `ExploreRecursive.hasRecursiveEdge` -/
def hasEdge : RSel → Bool
  | .edge => true
  | .union ms => hasEdgeList ms
  | _ => false
def hasEdgeList : List RSel → Bool
  | [] => false
  | m :: rest => hasEdge m || hasEdgeList rest
end

mutual
/-- `ExploreRecursive.replaceRecursiveEdge`; `none` = nil selector -/
def replaceEdge (repl : Option RSel) : RSel → Option RSel
  | .edge => repl
  | .union ms =>
    match replaceEdgeList repl ms with
    | [] => none
    | [m] => some m
    | ms' => some (.union ms')
  | s => some s
def replaceEdgeList (repl : Option RSel) : List RSel → List RSel
  | [] => []
  | m :: rest =>
    match replaceEdge repl m with
    | some m' => m' :: replaceEdgeList repl rest
    | none => replaceEdgeList repl rest
end

mutual
/-- `Selector.Explore(node, segment)` — for these combinators it depends on the segment only.
    `none` = nil = do not descend.  (`ExploreRecursiveEdge.Explore` panics in Go; it is never
    reached from a compiled well-formed selector because ExploreRecursive replaces edges first;
    the model returns `none` there.) -/
def explore : RSel → String → Option RSel
  | .matcher, _ => none
  | .all n, _ => some n
  | .fields fs, p => lookupSel p fs
  | .edge, _ => none
  | .union ms, p =>
    match exploreList ms p with
    | [] => none
    | [m] => some m
    | ms' => some (.union ms')
  | .recursive seq cur lim, p =>
    if cur.isEdge then none else
    match explore cur p with
    | none => none
    | some nxt =>
      if !hasEdge nxt then some (.recursive seq nxt lim) else
      match lim with
      | .depth d =>
        if d < 2 then replaceEdge none nxt
        else (replaceEdge (some seq) nxt).map fun c => .recursive seq c (.depth (d - 1))
      | .none => (replaceEdge (some seq) nxt).map fun c => .recursive seq c .none
def exploreList : List RSel → String → List RSel
  | [], _ => []
  | m :: rest, p =>
    match explore m p with
    | some m' => m' :: exploreList rest p
    | none => exploreList rest p
end

mutual
/-- `Selector.Match(node) != nil` (without subsets the matched node is the node itself) -/
def isMatch : RSel → Bool
  | .matcher => true
  | .union ms => isMatchList ms
  | .recursive _ cur _ => isMatch cur
  | _ => false
def isMatchList : List RSel → Bool
  | [] => false
  | m :: rest => isMatch m || isMatchList rest
end

/-! ## The walk -/

/-- result of a walk: the nodes handed to the visit function with reason "match", in order, and
    whether the walk itself then stopped with an error (a link was reached: the zero
    configuration cannot load links). -/
structure Res where
  matched : List Node
  aborted : Bool
deriving Repr, Inhabited

def Res.empty : Res := ⟨[], false⟩
def Res.abort : Res := ⟨[], true⟩
/-- sequential composition: `b` only runs if `a` did not abort -/
def Res.seq (a b : Res) : Res := if a.aborted then a else ⟨a.matched ++ b.matched, b.aborted⟩
def Res.seqAll : List Res → Res
  | [] => .empty
  | r :: rest => Res.seq r (Res.seqAll rest)

/-- `PathSegment.Index()` for the string segments a selector can name (decimal digits only;
    the validator's selector names no such key) -/
def parseIndex (k : String) : Option Nat :=
  if k.isEmpty || !(k.toList.all Char.isDigit) then none
  else some (k.toList.foldl (fun acc c => acc * 10 + (c.toNat - '0'.toNat)) 0)

def visit (s : RSel) (n : Node) : Res := if isMatch s then ⟨[n], false⟩ else .empty

/-- `Progress.explore` for one child `v` reached by segment `seg`: ask the selector; a nil answer
    skips the child; a link child cannot be loaded (zero configuration) and aborts the walk;
    otherwise recurse (`rec` = the walk of `v`). -/
def childStep (s : RSel) (seg : String) (v : Node) (rec : RSel → Res) : Res :=
  match explore s seg with
  | none => .empty
  | some s' => if v.isLink then .abort else rec s'

mutual
/-- `Progress.walkAdv` -/
def walk (s : RSel) : Node → Res
  | .map kvs =>
    Res.seq (visit s (.map kvs))
      (match interests s with
       | none => walkEntries s kvs
       | some ks => Res.seqAll (ks.map fun k => walkLookup s k kvs))
  | .list xs =>
    Res.seq (visit s (.list xs))
      (match interests s with
       | none => walkElems s 0 xs
       | some ks => Res.seqAll (ks.map fun k =>
           match parseIndex k with
           | some i => walkIndex s k i xs
           | none => Res.empty))
  | .null => visit s .null
  | .bool b => visit s (.bool b)
  | .int i => visit s (.int i)
  | .str x => visit s (.str x)
  | .bytes x => visit s (.bytes x)
  | .link c => visit s (.link c)
/-- all entries of a map, in order (selector has no specific interests) -/
def walkEntries (s : RSel) : List (String × Node) → Res
  | [] => .empty
  | (k, v) :: rest => Res.seq (childStep s k v (fun s' => walk s' v)) (walkEntries s rest)
/-- one interest `k`: `LookupBySegment` then explore -/
def walkLookup (s : RSel) (k : String) : List (String × Node) → Res
  | [] => .empty
  | (k', v) :: rest => if k' = k then childStep s k v (fun s' => walk s' v) else walkLookup s k rest
/-- all elements of a list -/
def walkElems (s : RSel) (i : Nat) : List Node → Res
  | [] => .empty
  | v :: rest => Res.seq (childStep s (toString i) v (fun s' => walk s' v)) (walkElems s (i + 1) rest)
/-- one interest on a list: element `i` (segment text `k`) -/
def walkIndex (s : RSel) (k : String) (i : Nat) : List Node → Res
  | [] => .empty
  | v :: rest => if i = 0 then childStep s k v (fun s' => walk s' v) else walkIndex s k (i - 1) rest
end

/-! ## Decision table of a visit callback (filled in by the translator) -/

inductive Cmp where
  | gt | ge | lt | le | eq | ne
deriving Repr, DecidableEq, Inhabited

def Cmp.eval : Cmp → Int → Int → Bool
  | .gt, a, b => a > b
  | .ge, a, b => a ≥ b
  | .lt, a, b => a < b
  | .le, a, b => a ≤ b
  | .eq, a, b => a == b
  | .ne, a, b => a != b

/-- what a `case` of the callback's `switch` does with the value under the key -/
inductive Action where
  | reject                      -- return ErrInvalidLimit
  | accept                      -- return nil
  /-- `v.AsInt()` failing rejects; then `if value CMP maxAcceptedDepth { reject }; return nil` -/
  | intCheck (rejectIf : Cmp)
deriving Repr, DecidableEq, Inhabited

def lookupAction (k : String) : List (String × Action) → Option Action
  | [] => none
  | (k', a) :: rest => if k' = k then some a else lookupAction k rest

/-! ## Responder-side wiring vocabulary (filled in by the translator from preparequery.go) -/

/-- a condition on the result of the incoming-request hooks -/
inductive PQCond where
  | hookError | notValidated | validated | paused
deriving Repr, DecidableEq, Inhabited

inductive PQAct where
  | finishWithError (status : String)
  | pause
deriving Repr, DecidableEq, Inhabited

end GS.Sel
