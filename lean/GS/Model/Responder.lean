import GS.Model.LinkTracker
import GS.Generated.PrepareQuery
/-!
Operational model of ONE responder answering requests of one peer (property C03), core Lean only.

Mirrors, function by function:

  responsemanager/preparequery.go       prepareQuery, processDedupByKey, processDoNoSendCids,
                                        processDoNotSendFirstBlocks      -> `prepareQuery`, `runStage`
                                        (the order of the stages and every status code on an error
                                        path come from `GS/Generated/PrepareQuery.lean`, regenerated
                                        from the Go source by translate/preparequery on every run)
  responsemanager/queryexecutor         runTraversal, loadBlock, sendResponse, checkForUpdates,
                                        executeQuery                     -> `runTraversal`, `finishQuery`
  ipldutil/traverser.go                 the traverser as the executor sees it (CurrentRequest /
                                        Advance / Error(SkipMe) / IsComplete / NBlocksTraversed) -> `Trav`
  responseassembler/responseBuilder.go  SendResponse, FinishRequest, FinishWithError, PauseRequest,
                                        blockOperation.build, statusOperation.build -> `ROp`, `applyOp`
  responseassembler/peerlinktracker.go,
  linktracker/linktracker.go            -> `GS.LinkTrack.PeerTracker` (GS/Model/LinkTracker.lean)
  message/builder.go, messagequeue/builder.go   one Builder per wire message, fed by the operations
                                        of the transactions batched into it -> `Msg`, `buildMsg`, `batch`

The selector traversal itself (go-ipld-prime) is not modelled: a request is given by its *link
tree* `LT` (DESIGN §3): the unfolding of all link loads the traversal performs over a complete
store.  Over the responder's own store the traversal is the DFS that skips the subtree of a link
whose block is missing (`traversal.SkipMe`), aborts when the root is missing, and aborts when a
block's bytes do not decode / hash (`corrupt`).

`respondSpec` at the end is the declarative specification the theorems in `GSProofs/C03.lean`
relate the operational model to.
-/
namespace GS.Responder
open GS.LinkTrack

abbrev Cid := Nat

/-- link tree: one node per link load, children in traversal order. -/
inductive LT where
  | node (cid : Cid) (kids : List LT)
deriving Repr, Inhabited

mutual
  def LT.size : LT → Nat
    | .node _ kids => 1 + sizeAll kids
  def sizeAll : List LT → Nat
    | [] => 0
    | t :: ts => t.size + sizeAll ts
end

/-- the responder's block store, as far as a response depends on it. -/
structure Store where
  held    : List Cid := []   -- blocks the responder can load
  corrupt : List Cid := []   -- held blocks whose bytes do not match their CID (load succeeds, decode fails)
  empty   : List Cid := []   -- zero-length blocks (`BlockSize() == 0`: no block hook is run for them)
deriving Repr

def Store.has (s : Store) (c : Cid) : Bool := s.held.contains c
def Store.isCorrupt (s : Store) (c : Cid) : Bool := s.corrupt.contains c
/-- the bytes the store returns for `c` are zero-length (a corrupted block's bytes are not its
content: the harness corrupts by prepending bytes). -/
def Store.isEmpty (s : Store) (c : Cid) : Bool := s.empty.contains c && !s.corrupt.contains c

/-- graphsync.ResponseStatusCode (the ones a responder emits here; any other code as `other`). -/
inductive Status where
  | partialResponse | paused | completedFull | completedPartial
  | rejected | failedUnknown | contentNotFound | cancelled
  | other (code : Nat)
deriving Repr, DecidableEq, Inhabited

def Status.code : Status → Nat
  | .partialResponse => 14 | .paused => 15 | .completedFull => 20 | .completedPartial => 21
  | .rejected => 30 | .failedUnknown => 32 | .contentNotFound => 34 | .cancelled => 35
  | .other c => c

def Status.ofCode (c : Nat) : Status :=
  if c = 14 then .partialResponse else if c = 15 then .paused else if c = 20 then .completedFull
  else if c = 21 then .completedPartial else if c = 30 then .rejected else if c = 32 then .failedUnknown
  else if c = 34 then .contentNotFound else if c = 35 then .cancelled else .other c

/-- an extension of the request: absent, present but undecodable, or decoded. -/
inductive ExtVal (α : Type) where
  | absent | bad | ok (v : α)
deriving Repr

structure Ext where
  key    : ExtVal Key := .absent          -- graphsync/dedup-by-key
  ignore : ExtVal (List Cid) := .absent   -- graphsync/do-not-send-cids
  skip   : ExtVal Int := .absent          -- graphsync/do-not-send-first-blocks
deriving Repr

/-- result of the incoming-request hooks (`hooks.RequestResult`). -/
structure Hook where
  err       : Bool := false
  validated : Bool := true
  paused    : Bool := false
deriving Repr

/-- what interrupts the traversal (harness-controlled): a block hook pausing at its k-th call, a
`PauseResponse` / `CancelResponse` command arriving during the k-th block load. -/
inductive Stop where
  | never | hookPause (k : Nat) | sigPause (k : Nat) | cancel (k : Nat)
deriving Repr, DecidableEq

/-- responseOperation: what a transaction appends for the message builder. -/
inductive ROp where
  | block (cid : Cid) (present send : Bool) (index : Nat)   -- blockOperation
  | status (s : Status)                                     -- statusOperation
deriving Repr, DecidableEq

/-- the operations of one `ResponseStream.Transaction`. -/
abbrev Txn := List ROp

/-! ### prepareQuery -/

/-- the extension stages (generated). -/
abbrev Stage := GS.Generated.PrepareQuery.Stage

/-- order in which `prepareQuery` processes the extensions (generated from the Go source). -/
def stages : List Stage := GS.Generated.PrepareQuery.stages

/-- status sent when the extension of a stage does not decode (generated). -/
def stageErrStatus (s : Stage) : Status := Status.ofCode (GS.Generated.PrepareQuery.stageErrCode s)

/-- status of the first transaction when the hooks returned an error / did not validate (generated). -/
def hookErrStatus : Status := Status.ofCode GS.Generated.PrepareQuery.hookErrCode
def notValidatedStatus : Status := Status.ofCode GS.Generated.PrepareQuery.notValidatedCode

/-- `executeQuery`: status per error of `runTraversal` (generated). -/
def firstBlockStatus : Status := Status.ofCode GS.Generated.PrepareQuery.firstBlockLoadCode
def cancelledStatus : Status := Status.ofCode GS.Generated.PrepareQuery.cancelledByCommandCode
def otherErrorStatus : Status := Status.ofCode GS.Generated.PrepareQuery.otherErrorCode

/-- one `process*` function; `none` = the extension data does not decode. -/
def runStage (p : PeerTracker) (r : Req) (e : Ext) : Stage → Option PeerTracker
  | .dedupByKey =>
    match e.key with
    | .absent => some p
    | .bad => none
    | .ok k => some (p.setDedupKey r k)
  | .doNotSendCids =>
    match e.ignore with
    | .absent => some p
    | .bad => none
    | .ok ls => some (p.ignoreBlocks r ls)
  | .doNotSendFirstBlocks =>
    match e.skip with
    | .absent => some p
    | .bad => none
    | .ok n => some (p.skipFirstBlocks r n)

/-- `rb.FinishWithError(status)` in a transaction of its own. -/
def finishWithError (p : PeerTracker) (r : Req) (s : Status) : PeerTracker × Txn :=
  ((p.finishTracking r).1, [.status s])

/-- the extension stages in order; `false` = an extension failed (its error transaction is the
last one returned). -/
def runStages (p : PeerTracker) (r : Req) (e : Ext) : List Stage → PeerTracker × List Txn × Bool
  | [] => (p, [], true)
  | s :: ss =>
    match runStage p r e s with
    | none =>
      let (p', t) := finishWithError p r (stageErrStatus s)
      (p', [t], false)
    | some p' => runStages p' r e ss

inductive Prep where
  | failed | paused | queued
deriving Repr, DecidableEq

def prepareQuery (p : PeerTracker) (r : Req) (h : Hook) (e : Ext) : PeerTracker × List Txn × Prep :=
  if h.err then
    let (p', t) := finishWithError p r hookErrStatus
    (p', [t], .failed)
  else if !h.validated then
    let (p', t) := finishWithError p r notValidatedStatus
    (p', [t], .failed)
  else
    let t0 : Txn := if h.paused then [.status .paused] else []
    let (p', ts, ok) := runStages p r e stages
    (p', t0 :: ts, if !ok then .failed else if h.paused then .paused else .queued)

/-! ### the traverser and the query executor loop -/

inductive TravErr where
  | skipRoot   -- the root load was answered with SkipMe: the traversal ends with that error
  | other      -- decode / hash failure of a loaded block
deriving Repr, DecidableEq

/-- `ipldutil.Traverser` between two link loads. -/
structure Trav where
  todo    : List LT            -- link loads still to come, in order (the DFS stack)
  nBlocks : Nat := 0           -- NBlocksTraversed
  started : Bool := false      -- a load has been answered already (the next one is not the root)
  err     : Option TravErr := none
deriving Repr

/-- per-request state of the executor across pause / resume. -/
structure Run where
  trav     : Trav
  loads    : Nat := 0          -- block loads so far (harness stop counter)
  hooks    : Nat := 0          -- block hook calls so far
deriving Repr

/-- how `runTraversal` returned: nil / ErrFirstBlockLoad / another error / ErrPaused /
ErrCancelledByCommand. -/
inductive Exit where
  | complete | firstBlock | failed | paused | cancelled
deriving Repr, DecidableEq

/-- `Traverser.Advance` / `Traverser.Error(SkipMe)` for the link at the head of the stack. -/
def Trav.answer (t : Trav) (s : Store) (c : Cid) (kids rest : List LT) : Trav :=
  if s.has c then
    if s.isCorrupt c then { todo := rest, nBlocks := t.nBlocks + 1, started := true, err := some .other }
    else { todo := kids ++ rest, nBlocks := t.nBlocks + 1, started := true, err := none }
  else if t.started then { t with todo := rest }
  else { todo := rest, nBlocks := t.nBlocks, started := true, err := some .skipRoot }

/-- `runTraversal`: one iteration per link load; each iteration is one `sendResponse` transaction.
`fuel` bounds the iterations (`sizeAll todo + 1` suffices, `GS.C03.fuel_enough`). -/
def runTraversal (s : Store) (stop : Stop) (r : Req) :
    Nat → PeerTracker → Run → PeerTracker × Run × List Txn × Exit
  | 0, p, run => (p, run, [], .failed)
  | fuel + 1, p, run =>
    match run.trav.err with
    | some .skipRoot => (p, run, [], if run.trav.nBlocks == 0 then .firstBlock else .failed)
    | some .other => (p, run, [], .failed)
    | none =>
      match run.trav.todo with
      | [] => (p, run, [], .complete)
      | .node c kids :: rest =>
        -- loadBlock
        let loads := run.loads + 1
        let present := s.has c
        let trav' := run.trav.answer s c kids rest
        -- sendResponse: checkForUpdates first
        if stop == .cancel loads then
          (p, { run with trav := trav', loads := loads }, [[]], .cancelled)
        else
          let pauseSig := stop == .sigPause loads
          let (p', send, idx) := p.traverse r c present
          let hookCalled := present && !s.isEmpty c
          let hooks := if hookCalled then run.hooks + 1 else run.hooks
          let hookPause := hookCalled && stop == .hookPause hooks
          let txn : Txn := (if pauseSig then [.status .paused] else []) ++ [.block c present send idx]
                           ++ (if hookPause then [.status .paused] else [])
          let run' : Run := { trav := trav', loads := loads, hooks := hooks }
          if hookPause || pauseSig then (p', run', [txn], .paused)
          else
            let (p'', run'', txns, ex) := runTraversal s stop r fuel p' run'
            (p'', run'', txn :: txns, ex)

/-- the closing transaction of `executeQuery`. -/
def finishQuery (p : PeerTracker) (r : Req) : Exit → PeerTracker × List Txn
  | .paused => (p, [])
  | .complete =>
    let (p', all) := p.finishTracking r
    (p', [[.status (if all then .completedFull else .completedPartial)]])
  | .firstBlock => let (p', t) := finishWithError p r firstBlockStatus; (p', [t])
  | .cancelled => let (p', t) := finishWithError p r cancelledStatus; (p', [t])
  | .failed => let (p', t) := finishWithError p r otherErrorStatus; (p', [t])

/-- `executeQuery` from the state `run` (first start or resumption). -/
def executeQuery (s : Store) (stop : Stop) (r : Req) (p : PeerTracker) (run : Run) :
    PeerTracker × Run × List Txn × Exit :=
  let (p1, run1, txns, ex) := runTraversal s stop r (sizeAll run.trav.todo + 1) p run
  let (p2, fin) := finishQuery p1 r ex
  (p2, run1, txns ++ fin, ex)

/-- lifecycle of a request inside the response manager. -/
inductive Phase where
  | paused (run : Run) | done
deriving Repr

/-- `newRequest`: prepareQuery, then (unless paused or failed) the task runs to its end or pause. -/
def startRequest (s : Store) (lt : LT) (p : PeerTracker) (r : Req) (h : Hook) (e : Ext) (stop : Stop) :
    PeerTracker × List Txn × Phase :=
  let (p1, txns0, prep) := prepareQuery p r h e
  let run0 : Run := { trav := { todo := [lt] } }
  match prep with
  | .failed => (p1, txns0, .done)
  | .paused => (p1, txns0, .paused run0)
  | .queued =>
    let (p2, run1, txns1, ex) := executeQuery s stop r p1 run0
    (p2, txns0 ++ txns1, if ex == .paused then .paused run1 else .done)

/-- `UnpauseResponse` of a paused request. -/
def resumeRequest (s : Store) (p : PeerTracker) (r : Req) (stop : Stop) (run : Run) :
    PeerTracker × List Txn × Phase :=
  let (p2, run1, txns1, ex) := executeQuery s stop r p run
  (p2, txns1, if ex == .paused then .paused run1 else .done)

/-! ### message builder and batching of transactions into wire messages -/

/-- the content of one wire message for this request (`message.Builder` / `messagequeue.Builder`). -/
structure Msg where
  touched : Bool := false                 -- the request has an entry in `outgoingResponses`
  status  : Option Status := none         -- completedResponses (absent = PartialResponse on the wire)
  entries : List (Cid × Bool) := []       -- outgoingResponses: link metadata (cid, present)
  indices : List Nat := []                -- blockData: `BlockData.Index()` per entry
  blocks  : List Cid := []                -- outgoingBlocks: a set keyed by CID (first-insertion order)
deriving Repr

def applyOp (m : Msg) : ROp → Msg
  | .block c present send idx =>
    { m with touched := true
             entries := m.entries ++ [(c, present)]
             indices := m.indices ++ [idx]
             blocks := if send && !m.blocks.contains c then m.blocks ++ [c] else m.blocks }
  | .status st => { m with touched := true, status := some st }

/-- one builder receives the operations of the transactions batched into it, in order. -/
def buildMsg (txns : List Txn) : Msg := txns.flatten.foldl applyOp {}

def Msg.wireStatus (m : Msg) : Status := m.status.getD .partialResponse

/-- a response item as read off the wire: the link, its action, and whether the message that
carries the entry also carries the block (attributed to the first present entry of that cid in
the message). -/
structure Item where
  cid     : Cid
  present : Bool
  block   : Bool
deriving Repr, DecidableEq

def annotateFrom (blocks : List Cid) : List Cid → List (Cid × Bool) → List Item
  | _, [] => []
  | seen, (c, true) :: es =>
    ⟨c, true, blocks.contains c && !seen.contains c⟩ :: annotateFrom blocks (c :: seen) es
  | seen, (c, false) :: es => ⟨c, false, false⟩ :: annotateFrom blocks seen es

def Msg.annotate (m : Msg) : List Item := annotateFrom m.blocks [] m.entries

/-- blocks of a message that no present entry of the same message accounts for. -/
def Msg.stray (m : Msg) : List Cid :=
  m.blocks.filter (fun c => !(m.entries.contains (c, true)))

/-- scripted batching (the harness' fake peer handler): transactions without operations are
invisible; the k-th message takes `script[k mod len]` transactions (at least one). -/
def batchFrom (script : List Nat) : Nat → Nat → List Txn → List (List Txn)
  | 0, _, _ => []
  | fuel + 1, pos, ts =>
    match ts with
    | [] => []
    | _ :: _ =>
      let n := max 1 (script.getD (pos % (max 1 script.length)) 1)
      ts.take n :: batchFrom script fuel (pos + 1) (ts.drop n)

def batch (script : List Nat) (pos : Nat) (txns : List Txn) : List (List Txn) :=
  let ts := txns.filter (fun t => !t.isEmpty)
  batchFrom script ts.length pos ts

/-! ### declarative specification -/

mutual
  /-- the links a traversal visits over a store, in order, with their availability. -/
  def LT.visit (has : Cid → Bool) : LT → List (Cid × Bool)
    | .node c kids => if has c then (c, true) :: visitAll has kids else [(c, false)]
  def visitAll (has : Cid → Bool) : List LT → List (Cid × Bool)
    | [] => []
    | t :: ts => t.visit has ++ visitAll has ts
end

/-- the decoded extensions of an accepted request. -/
structure Want where
  key    : Option Key := none
  ignore : List Cid := []
  skip   : Int := 0
deriving Repr

/-- decoding of the request's extensions; `none` if one of them is malformed. -/
def Ext.want? (e : Ext) : Option Want :=
  match e.key, e.ignore, e.skip with
  | .bad, _, _ => none
  | _, .bad, _ => none
  | _, _, .bad => none
  | k, ig, sk =>
    some { key := match k with | .ok k => some k | _ => none
           ignore := match ig with | .ok ls => ls | _ => []
           skip := match sk with | .ok n => n | _ => 0 }

/-- block attachment along the visited links: the i-th link (counting from 1) carries its block iff
the block is present, `i > skip`, the cid is not excluded (do-not-send-cids, or in use by another
request in progress in the dedup scope), and the block has not been traversed earlier by this
request (sent, or among the first `skip` blocks the requestor declared to have). -/
def attach (skip : Int) (excluded : Cid → Bool) : Nat → List Cid → List (Cid × Bool) → List Item
  | _, _, [] => []
  | i, seen, (c, pres) :: es =>
    ⟨c, pres, pres && decide (skip < ((i + 1 : Nat) : Int)) && !excluded c && !seen.contains c⟩
      :: attach skip excluded (i + 1) (if pres then c :: seen else seen) es

/-- the other (per-link) reading of the property sentence — not the one adopted, see GSProofs/C03.lean:
"... and not already *sent*": a block is only
withheld as a duplicate if an earlier link of this request actually carried it. -/
def attachLiteral (skip : Int) (excluded : Cid → Bool) : Nat → List Cid → List (Cid × Bool) → List Item
  | _, _, [] => []
  | i, sent, (c, pres) :: es =>
    let b := pres && decide (skip < ((i + 1 : Nat) : Int)) && !excluded c && !sent.contains c
    ⟨c, pres, b⟩ :: attachLiteral skip excluded (i + 1) (if b then c :: sent else sent) es

def specStatus (es : List (Cid × Bool)) : Status :=
  match es with
  | (_, false) :: _ => .contentNotFound
  | _ => if es.all (fun e => e.2) then .completedFull else .completedPartial

/-- `respondSpec lt has want inUse`: the response items and the final status of an accepted,
uninterrupted request. `inUse c` = some other request in progress in the same dedup scope has
traversed `c` with its block. -/
def respondSpec (lt : LT) (has : Cid → Bool) (w : Want) (inUse : Cid → Bool) : List Item × Status :=
  let es := lt.visit has
  (attach w.skip (fun c => w.ignore.contains c || inUse c) 0 [] es, specStatus es)

def respondSpecLiteral (lt : LT) (has : Cid → Bool) (w : Want) (inUse : Cid → Bool) : List Item × Status :=
  let es := lt.visit has
  (attachLiteral w.skip (fun c => w.ignore.contains c || inUse c) 0 [] es, specStatus es)

end GS.Responder
