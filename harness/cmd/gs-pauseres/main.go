package main

import (
	_ "verifharness/pauseres"
	"verifharness/reg"
)

func main() { reg.Main("pauseres") }
