import GSProofs.Lemmas.TaskQueueCap
/-!
Helper lemmas for C21, part 12: a task leaves `pending` only by being popped by a worker (which then
executes it) or by Remove; bookkeeping for the bounded-overtaking liveness theorem.
-/
namespace GS.TQ

def hasU (u : Nat) (l : List Task) : Bool := l.any (·.uid == u)

theorem hasU_mem {u : Nat} {l : List Task} (h : hasU u l = true) : ∃ x ∈ l, x.uid = u := by
  obtain ⟨x, hx, hxu⟩ := List.any_eq_true.mp h
  exact ⟨x, hx, by simpa using hxu⟩

theorem hasU_of_mem {u : Nat} {l : List Task} {x : Task} (hx : x ∈ l) (hu : x.uid = u) : hasU u l = true :=
  List.any_eq_true.mpr ⟨x, hx, by simp [hu]⟩

/-- PopTasks splits the pending tasks into those still pending and those handed out -/
theorem popLoop_partition (cap target : Nat) : ∀ (f : Nat) (tr : Tracker) (out : List Task) (w : Nat) (u : Nat),
    hasU u tr.pending = true →
    hasU u (popLoop cap target f tr out w).1.pending = true ∨
    ∃ new, (popLoop cap target f tr out w).2 = out ++ new ∧ hasU u new = true := by
  intro f
  induction f with
  | zero => intro tr out w u h; left; exact h
  | succ f ih =>
    intro tr out w u h
    simp only [popLoop]
    split
    · exact Or.inl h
    · split
      · exact Or.inl h
      · split
        · exact Or.inl h
        · rename_i t ht
          by_cases htu : t.uid = u
          · right
            obtain ⟨new, hn, _⟩ := (popLoop_spec cap target f (startTask tr t) (out ++ [t]) (w + t.work)).ex
            exact ⟨t :: new, by rw [hn]; simp, hasU_of_mem (by simp) htu⟩
          · have hstill : hasU u (startTask tr t).pending = true := by
              obtain ⟨x, hx, hxu⟩ := hasU_mem h
              apply hasU_of_mem (x := x) _ hxu
              simp only [startTask]
              exact List.mem_filter.mpr ⟨hx, by simp [hxu]; exact fun e => htu e.symm⟩
            rcases ih (startTask tr t) (out ++ [t]) (w + t.work) u hstill with h1 | ⟨new, hn, hnu⟩
            · exact Or.inl h1
            · right
              refine ⟨t :: new, by rw [hn]; simp, ?_⟩
              obtain ⟨x, hx, hxu⟩ := hasU_mem hnu
              exact hasU_of_mem (List.mem_cons_of_mem _ hx) hxu

theorem mergePending_keeps (tr : Tracker) (t : Task) (u : Nat) (h : hasU u tr.pending = true) :
    hasU u (mergePending tr t).pending = true := by
  obtain ⟨x, hx, hxu⟩ := hasU_mem h
  unfold mergePending
  split
  · exact h
  · split
    · split
      · apply hasU_of_mem (x := if x.topic == t.topic then { x with prio := t.prio } else x)
        · exact List.mem_map.mpr ⟨x, hx, rfl⟩
        · split <;> exact hxu
      · exact h
    · exact hasU_of_mem (List.mem_append_left _ hx) hxu

/-- the task with uid `u` is in the hands of worker state `w` (being executed, or next in its batch) -/
def holdsU (u : Nat) : WSt → Bool
  | .exec _ cur false rest => cur.uid == u || hasU u rest
  | _ => false

theorem pendingUid_iff {u : Nat} {s : Sys} :
    pendingUid u s = true ↔ ∃ t ∈ s.q.peers, hasU u t.pending = true := by
  unfold pendingUid hasU
  constructor
  · intro h; obtain ⟨t, ht, h2⟩ := List.any_eq_true.mp h; exact ⟨t, ht, h2⟩
  · rintro ⟨t, ht, h2⟩; exact List.any_eq_true.mpr ⟨t, ht, h2⟩

/-- popping: a pending task either stays pending or is now held by the popping worker -/
theorem popFor_leaves {s : Sys} {i : Nat} {w0 : WSt} {u : Nat} (hid : ∀ a ∈ s.q.peers, ∀ b ∈ s.q.peers, a.id = b.id → a = b)
    (hw : s.workers[i]? = some w0) (hp : pendingUid u s = true)
    (hn : pendingUid u (s.popFor i s.q) = false) :
    ∃ w, (s.popFor i s.q).workers[i]? = some w ∧ holdsU u w = true := by
  have hlen : i < s.workers.length := by
    rcases Nat.lt_or_ge i s.workers.length with h | h
    · exact h
    · simp [List.getElem?_eq_none h] at hw
  have hget : (s.popFor i s.q).workers[i]? = some (startFrom (pop s.q 1).2) := by
    show (s.workers.set i _)[i]? = _
    simp [hlen]
  obtain ⟨t0, ht0, hu0⟩ := pendingUid_iff.mp hp
  have hn' : ∀ t ∈ (pop s.q 1).1.peers, hasU u t.pending = false := by
    intro t ht
    cases h : hasU u t.pending with
    | false => rfl
    | true =>
      have : pendingUid u (s.popFor i s.q) = true := pendingUid_iff.mpr ⟨t, ht, h⟩
      rw [hn] at this; cases this
  rcases pop_cases s.q 1 with ⟨_, hpop⟩ | ⟨tr, hpk, hpeer, htasks, _, _, hcase⟩
  · rw [hpop] at hn'
    have := hn' t0 ht0; rw [hu0] at this; cases this
  · obtain ⟨htr, _⟩ := peek_some hpk
    -- the tracker holding `u` must be the popped one
    have hsame : t0 = tr := by
      apply Classical.byContradiction
      intro hne
      have hidne : t0.id ≠ tr.id := fun e => hne (hid t0 ht0 tr htr e)
      have hidr := (popLoop_spec s.q.cap 1 (tr.pending.length + 1) tr [] 0).id
      have hmem : t0 ∈ (pop s.q 1).1.peers := by
        rcases hcase with ⟨hp', _⟩ | ⟨hp', _⟩
        · rw [hp']; exact List.mem_filter.mpr ⟨ht0, by simpa using hidne⟩
        · rw [hp']
          unfold setT
          refine List.mem_map.mpr ⟨t0, ht0, ?_⟩
          have : ¬ (t0.id == (popLoop s.q.cap 1 (tr.pending.length + 1) tr [] 0).1.id) = true := by
            simp [hidr]; exact hidne
          rw [if_neg this]
      have := hn' t0 hmem; rw [hu0] at this; cases this
    subst hsame
    rcases popLoop_partition s.q.cap 1 (t0.pending.length + 1) t0 [] 0 u hu0 with hstill | ⟨new, hnew, hnu⟩
    · exfalso
      rcases hcase with ⟨_, hpe, _, _⟩ | ⟨hp', _⟩
      · rw [hpe] at hstill; simp [hasU] at hstill
      · have hidr := (popLoop_spec s.q.cap 1 (t0.pending.length + 1) t0 [] 0).id
        have := hn' _ (by rw [hp']; exact mem_setT_self htr hidr)
        rw [hstill] at this; cases this
    · simp only [List.nil_append] at hnew
      refine ⟨_, hget, ?_⟩
      unfold startFrom
      rw [hpeer, htasks, hnew]
      cases new with
      | nil => simp [hasU] at hnu
      | cons t ts =>
        simp only [holdsU]
        simp only [hasU, List.any_cons] at hnu
        simpa [hasU] using hnu

/-- ThawRound keeps every pending task pending -/
theorem thaw_keeps_pending {q : PTQ} {u : Nat} (h : ∃ t ∈ q.peers, hasU u t.pending = true) :
    ∃ t ∈ (thaw q).peers, hasU u t.pending = true := by
  obtain ⟨t, ht, hu⟩ := h
  obtain ⟨t', ht', _, hp, _, _⟩ := thaw_asc q t ht
  exact ⟨t', ht', by rw [hp]; exact hu⟩

/-- **A task leaves `pending` only by being popped by a worker, which then holds it for execution,
    or by Remove.** -/
theorem leaves_pending {s s' : Sys} {a : Act} {u : Nat} (hI : Inv s) (h : step s a = some s')
    (hp : pendingUid u s = true) (hn : pendingUid u s' = false) :
    (∃ (i : Nat) (w : WSt), s'.workers[i]? = some w ∧ holdsU u w = true) ∨ ∃ p topic, a = .remove p topic := by
  have contra : pendingUid u s' = true → False := fun h => by rw [hn] at h; cases h
  obtain ⟨t0, ht0, hu0⟩ := pendingUid_iff.mp hp
  cases a with
  | remove p topic => exact Or.inr ⟨p, topic, rfl⟩
  | push p t =>
    exfalso
    simp only [GS.TQ.step] at h
    split at h
    · cases h
    · cases h
      apply contra
      obtain ⟨base, hb, hpe, _⟩ := push_peers s.q p t
      apply pendingUid_iff.mpr
      have hmem : t0 ∈ base := by
        rcases hb with rfl | rfl
        · exact ht0
        · exact List.mem_append_left _ ht0
      refine ⟨_, by show _ ∈ (GS.TQ.push s.q p t).peers; rw [hpe]; exact mem_modifyT_of_mem hmem, ?_⟩
      split
      · exact mergePending_keeps t0 t u hu0
      · exact hu0
  | pop i =>
    simp only [GS.TQ.step] at h
    split at h
    · rename_i hw
      cases h
      obtain ⟨w, h1, h2⟩ := popFor_leaves hI.idinj hw hp hn
      exact Or.inl ⟨i, w, h1, h2⟩
    · cases h
  | sig i =>
    simp only [GS.TQ.step] at h
    split at h
    · rename_i hw
      split at h
      · cases h
        obtain ⟨w, h1, h2⟩ := popFor_leaves (s := { s with signal := false }) hI.idinj hw hp hn
        exact Or.inl ⟨i, w, h1, h2⟩
      · cases h
    · cases h
  | tick i =>
    simp only [GS.TQ.step] at h
    split at h
    · rename_i hw
      cases h
      have hp' : pendingUid u ({ s with q := thaw s.q } : Sys) = true :=
        pendingUid_iff.mpr (thaw_keeps_pending ⟨t0, ht0, hu0⟩)
      rw [popFor_eq] at hn ⊢
      obtain ⟨w, h1, h2⟩ := popFor_leaves (s := { s with q := thaw s.q }) hI.thaw.idinj hw hp' hn
      exact Or.inl ⟨i, w, h1, h2⟩
    · cases h
  | done i =>
    exfalso
    simp only [GS.TQ.step] at h
    split at h
    · rename_i p cur rest hw
      cases h
      apply contra
      obtain ⟨hc, _⟩ := done_peers s.q p cur.uid
      apply pendingUid_iff.mpr
      rcases hc with ⟨_, hpe⟩ | hpe
      · exact ⟨t0, by show _ ∈ (GS.TQ.done s.q p cur.uid).peers; rw [hpe]; exact ht0, hu0⟩
      · refine ⟨_, by show _ ∈ (GS.TQ.done s.q p cur.uid).peers; rw [hpe]; exact mem_modifyT_of_mem ht0, ?_⟩
        split <;> exact hu0
    · cases h
  | ret i =>
    exfalso
    simp only [GS.TQ.step] at h
    split at h
    · cases h; exact contra hp
    · cases h; exact contra hp
    · cases h

end GS.TQ
