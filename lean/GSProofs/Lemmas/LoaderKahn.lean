import GS.Model.Loader
import GSProofs.Lemmas.LoaderFrame
/-!
Order independence of `IngestResponse` and load steps (C02.kahn).

`Sim s t`: the two loader states agree on everything except the retry bookkeeping of the remote
queue (`lastConsumed` and whether its `next` pointer is nil), which only `RetryLastLoad` reads.
-/
namespace GS.Loader

/-- overwrite the retry bookkeeping of the queue and the parked-load marker (neither is read by
    `waitRemote` or by the rest of a load; a load sets the marker itself) -/
def setL (s : State) (l : Option Item) (b : Bool) (pd : Option (Path × Cid)) : State :=
  { s with rq := { s.rq with last := l, lastLinked := b }, pending := pd }

def Sim (s t : State) : Prop := ∃ l b pd, t = setL s l b pd

theorem Sim.refl (s : State) : Sim s s := ⟨s.rq.last, s.rq.lastLinked, s.pending, rfl⟩

theorem Sim.symm {s t : State} (h : Sim s t) : Sim t s := by
  obtain ⟨l, b, pd, rfl⟩ := h
  exact ⟨s.rq.last, s.rq.lastLinked, s.pending, rfl⟩

theorem Sim.trans {s t u : State} (h1 : Sim s t) (h2 : Sim t u) : Sim s u := by
  obtain ⟨l, b, pd, rfl⟩ := h1
  obtain ⟨l', b', pd', rfl⟩ := h2
  exact ⟨l', b', pd', rfl⟩

theorem consume_tailOn (rq : RQ) : rq.consume.tailOn = rq.tailOn := by
  unfold RQ.consume; split <;> rfl

theorem recordRemoteAttempt_setL (s : State) (l : Option Item) (b : Bool) (pd : Option (Path × Cid)) (p : Path) (a : Action) :
    recordRemoteAttempt (setL s l b pd) p a = setL (recordRemoteAttempt s p a) l b pd := by
  unfold Loader.recordRemoteAttempt; split <;> rfl

/-- `waitRemote` does not read the retry bookkeeping -/
theorem waitRemote_sim (fuel : Nat) (s t : State) (h : Sim s t) :
    Sim (waitRemote fuel s).1 (waitRemote fuel t).1 ∧ (waitRemote fuel t).2 = (waitRemote fuel s).2 := by
  induction fuel generalizing s t with
  | zero => exact ⟨h, rfl⟩
  | succ n ih =>
    obtain ⟨l, b, pd, rfl⟩ := h
    obtain ⟨store, rec, mra, unf, op, ver, ⟨q, l0, b0, tO⟩, pend⟩ := s
    cases q with
    | nil =>
      cases op <;> simp only [waitRemote, setL] <;> exact ⟨⟨l, b, pd, rfl⟩, rfl⟩
    | cons head tl =>
      have hvd : (setL ⟨store, rec, mra, unf, op, ver, ⟨head :: tl, l0, b0, tO⟩, pend⟩ l b pd).verifierDone =
          (⟨store, rec, mra, unf, op, ver, ⟨head :: tl, l0, b0, tO⟩, pend⟩ : State).verifierDone := rfl
      cases hd : (⟨store, rec, mra, unf, op, ver, ⟨head :: tl, l0, b0, tO⟩, pend⟩ : State).verifierDone with
      | true =>
        rw [hd] at hvd
        simp only [waitRemote, setL] at hvd ⊢
        simp only [hd, hvd, if_true]
        exact ⟨⟨l, b, pd, rfl⟩, trivial⟩
      | false =>
        rw [hd] at hvd
        simp only [waitRemote, setL] at hvd ⊢
        simp only [hd, hvd, Bool.false_eq_true, if_false]
        cases hvn : verifyNext rec (ver.getD none) head.link head.action.didFollow with
        | error e => exact ⟨⟨_, _, _, rfl⟩, rfl⟩
        | ok v' =>
          simp only
          apply ih
          refine ⟨some { head with block := none }, !tl.isEmpty, pd, ?_⟩
          simp only [RQ.consume, Loader.recordRemoteAttempt, setL]
          split <;> rfl


theorem stillOnUnfollowed_setL (s : State) (l : Option Item) (b : Bool) (pd : Option (Path × Cid)) (p : Path) :
    stillOnUnfollowed (setL s l b pd) p = (setL (stillOnUnfollowed s p).1 l b pd, (stillOnUnfollowed s p).2) := by
  unfold stillOnUnfollowed
  have : (setL s l b pd).unfollowed = s.unfollowed := rfl
  rw [this]
  split
  · rfl
  · split <;> rfl

theorem loadLocal_setL (s : State) (l : Option Item) (b : Bool) (pd : Option (Path × Cid)) (p : Path) (c : Cid) :
    loadLocal (setL s l b pd) p c = loadLocal s p c := rfl

/-! ### fuel: `queue length + 1` iterations are enough -/

theorem recordRemoteAttempt_q (s : State) (p : Path) (a : Action) :
    (recordRemoteAttempt s p a).rq.q = s.rq.q := by rw [recordRemoteAttempt_rq]

theorem waitRemote_fuel2 (f g : Nat) (s : State) (hf : s.rq.q.length + 1 ≤ f) (hg : s.rq.q.length + 1 ≤ g) :
    waitRemote f s = waitRemote g s := by
  induction f generalizing g s with
  | zero => omega
  | succ n ih =>
    cases g with
    | zero => omega
    | succ m =>
      obtain ⟨store, rec, mra, unf, op, ver, ⟨q, l0, b0, tO⟩, pend⟩ := s
      cases q with
      | nil => simp [waitRemote]
      | cons head tl =>
        simp only [List.length_cons] at hf hg
        simp only [waitRemote]
        split
        · rfl
        · split
          · rfl
          · rename_i v' _
            have hq : (recordRemoteAttempt
                { store := store, record := rec, mra := mra, unfollowed := unf, isOpen := op, ver := some v',
                  rq := ({ q := head :: tl, last := l0, lastLinked := b0, tailOn := tO } : RQ).consume, pending := pend }
                (verPath rec (ver.getD none)) head.action).rq.q.length = tl.length := by
              rw [recordRemoteAttempt_q]; simp [RQ.consume]
            exact ih m _ (by rw [hq]; omega) (by rw [hq]; omega)

theorem waitRemote_fuel (f : Nat) (s : State) (h : s.rq.q.length + 1 ≤ f) :
    waitRemote f s = waitRemote (s.rq.q.length + 1) s :=
  waitRemote_fuel2 f _ s h (Nat.le_refl _)

/-! ### appending items behind the queue does not disturb a load that can already be answered -/

def addQ (s : State) (extra : List Item) : State :=
  { s with rq := { s.rq with q := s.rq.q ++ extra } }

/-- what `waitRemote` on the longer queue does, in terms of `waitRemote` on the shorter one: a definite
    outcome is unchanged; if the shorter queue ran dry, the wait goes on with the appended items -/
def contWait (extra : List Item) (r : State × Wait) : State × Wait :=
  match r.2 with
  | .blocked => waitRemote (extra.length + 1) (addQ r.1 extra)
  | w => (addQ r.1 extra, w)

theorem recordRemoteAttempt_addQ (s : State) (extra : List Item) (p : Path) (a : Action) :
    recordRemoteAttempt (addQ s extra) p a = addQ (recordRemoteAttempt s p a) extra := by
  unfold Loader.recordRemoteAttempt; split <;> rfl

theorem recordRemoteAttempt_isOpen (s : State) (p : Path) (a : Action) :
    (recordRemoteAttempt s p a).isOpen = s.isOpen := (recordRemoteAttempt_frame s p a).2.2

theorem waitRemote_addQ (f : Nat) (s : State) (extra : List Item) (hopen : s.isOpen = true)
    (hf : s.rq.q.length + 1 ≤ f) :
    Sim (contWait extra (waitRemote f s)).1 (waitRemote ((s.rq.q ++ extra).length + 1) (addQ s extra)).1 ∧
    (waitRemote ((s.rq.q ++ extra).length + 1) (addQ s extra)).2 = (contWait extra (waitRemote f s)).2 := by
  induction f generalizing s with
  | zero => omega
  | succ n ih =>
    obtain ⟨store, rec, mra, unf, op, ver, ⟨q, l0, b0, tO⟩, pend⟩ := s
    simp only at hopen
    subst hopen
    cases q with
    | nil =>
      simp only [waitRemote, contWait, addQ, List.nil_append, Bool.not_true, Bool.false_eq_true, if_false]
      exact ⟨Sim.refl _, rfl⟩
    | cons head tl =>
      simp only [List.length_cons] at hf
      have hvd : (addQ ⟨store, rec, mra, unf, true, ver, ⟨head :: tl, l0, b0, tO⟩, pend⟩ extra).verifierDone =
          (⟨store, rec, mra, unf, true, ver, ⟨head :: tl, l0, b0, tO⟩, pend⟩ : State).verifierDone := rfl
      cases hd : (⟨store, rec, mra, unf, true, ver, ⟨head :: tl, l0, b0, tO⟩, pend⟩ : State).verifierDone with
      | true =>
        rw [hd] at hvd
        simp only [waitRemote, addQ, List.cons_append, List.length_cons] at hvd ⊢
        simp only [hd, hvd, if_true, contWait, addQ]
        exact ⟨Sim.refl _, trivial⟩
      | false =>
        rw [hd] at hvd
        simp only [waitRemote, addQ, List.cons_append, List.length_cons] at hvd ⊢
        simp only [hd, hvd, Bool.false_eq_true, if_false]
        cases hvn : verifyNext rec (ver.getD none) head.link head.action.didFollow with
        | error e =>
          simp only [contWait, addQ, RQ.consume]
          exact ⟨⟨_, _, _, rfl⟩, trivial⟩
        | ok v' =>
          simp only
          -- the state the shorter run continues from
          let s2 : State := recordRemoteAttempt
            { store := store, record := rec, mra := mra, unfollowed := unf, isOpen := true, ver := some v',
              rq := ({ q := head :: tl, last := l0, lastLinked := b0, tailOn := tO } : RQ).consume, pending := pend }
            (verPath rec (ver.getD none)) head.action
          have hs2q : s2.rq.q = tl := by simp [s2, recordRemoteAttempt_q, RQ.consume]
          have hs2o : s2.isOpen = true := by simp [s2, recordRemoteAttempt_isOpen]
          have hih := ih s2 hs2o (by rw [hs2q]; omega)
          rw [hs2q] at hih
          -- the state the longer run continues from is `addQ s2 extra` up to the retry bookkeeping
          have hsim : Sim (addQ s2 extra) (recordRemoteAttempt
              { store := store, record := rec, mra := mra, unfollowed := unf, isOpen := true, ver := some v',
                rq := ({ q := head :: (tl ++ extra), last := l0, lastLinked := b0, tailOn := tO } : RQ).consume,
                pending := pend }
              (verPath rec (ver.getD none)) head.action) := by
            refine ⟨some { head with block := none }, !(tl ++ extra).isEmpty, pend, ?_⟩
            simp only [s2, RQ.consume, Loader.recordRemoteAttempt, setL, addQ]
            split <;> rfl
          have hws := waitRemote_sim ((tl ++ extra).length + 1) _ _ hsim
          exact ⟨Sim.trans hih.1 hws.1, hws.2.trans hih.2⟩


/-! ### the part of `run` after `waitRemote` -/

/-- `run` after `waitRemote` returned `r` -/
def post (p : Path) (c : Cid) (r : State × Wait) : State × Out :=
  let fin (s : State) (used : Bool) (r : Result) : State × Out :=
    ({ s with mra := some ⟨c, p, r.err.isNone, used⟩, pending := none }, .done r)
  match r with
  | (s1, .blocked) => ({ s1 with pending := some (p, c) }, .blocked)
  | (s1, .err e) => fin s1 false { data := none, err := some e, loc := false }
  | (s1, .offline) => fin s1 false (loadLocal s1 p c)
  | (s1, .remote) =>
    let (s2, still) := stillOnUnfollowed s1 p
    if still then fin s2 true (loadLocal s2 p c)
    else
      match s2.rq.q with
      | [] => fin s2 true (loadLocal s2 p c)
      | head :: _ =>
        let s3 := { s2 with rq := s2.rq.consume }
        if head.link != c then
          fin s3 true { data := none, err := some (.incorrect c head.link p), loc := false }
        else
          let s4 := recordRemoteAttempt s3 p head.action
          match head.block with
          | none => fin s4 true (loadLocal s4 p c)
          | some b =>
            fin { s4 with store := (c, b) :: s4.store } true
              { data := some b, err := none, loc := false, write := some (c, b) }

theorem run_eq_post (s : State) (p : Path) (c : Cid) :
    run s p c = post p c (waitRemote (s.rq.q.length + 1) s) := rfl

theorem stillOnUnfollowed_addQ (s : State) (extra : List Item) (p : Path) :
    stillOnUnfollowed (addQ s extra) p = (addQ (stillOnUnfollowed s p).1 extra, (stillOnUnfollowed s p).2) := by
  unfold stillOnUnfollowed
  have : (addQ s extra).unfollowed = s.unfollowed := rfl
  rw [this]
  split
  · rfl
  · split <;> rfl

/-- `post` does not read the retry bookkeeping -/
theorem post_sim (p : Path) (c : Cid) (s1 t1 : State) (w : Wait) (h : Sim s1 t1) :
    Sim (post p c (s1, w)).1 (post p c (t1, w)).1 ∧ (post p c (t1, w)).2 = (post p c (s1, w)).2 := by
  obtain ⟨l, b, _, rfl⟩ := h
  cases w with
  | blocked => exact ⟨⟨l, b, _, rfl⟩, rfl⟩
  | err e => exact ⟨⟨l, b, _, rfl⟩, rfl⟩
  | offline => exact ⟨⟨l, b, _, rfl⟩, rfl⟩
  | remote =>
    simp only [post]
    rw [stillOnUnfollowed_setL]
    generalize stillOnUnfollowed s1 p = su
    obtain ⟨s2, still⟩ := su
    dsimp only
    cases still with
    | true => exact ⟨⟨l, b, _, rfl⟩, rfl⟩
    | false =>
      simp only [Bool.false_eq_true, if_false]
      obtain ⟨store, rec, mra, unf, op, ver, ⟨q, l0, b0, tO⟩, pend⟩ := s2
      cases q with
      | nil => exact ⟨⟨l, b, _, rfl⟩, rfl⟩
      | cons head tl =>
        simp only [setL, RQ.consume]
        by_cases hl : (head.link != c) = true
        · simp only [hl, if_true]
          first | exact ⟨⟨_, _, _, rfl⟩, trivial⟩ | exact ⟨⟨_, _, _, rfl⟩, rfl⟩
        · simp only [hl]
          cases hbk : head.block <;> cases hdf : head.action.didFollow <;>
            simp only [Loader.recordRemoteAttempt, hdf, Bool.not_true, Bool.not_false, Bool.false_eq_true, if_true, if_false] <;>
            first | exact ⟨⟨_, _, _, rfl⟩, trivial⟩ | exact ⟨⟨_, _, _, rfl⟩, rfl⟩

/-- `run` does not read the retry bookkeeping -/
theorem run_sim (s t : State) (p : Path) (c : Cid) (h : Sim s t) :
    Sim (run s p c).1 (run t p c).1 ∧ (run t p c).2 = (run s p c).2 := by
  have hlen : t.rq.q.length = s.rq.q.length := by obtain ⟨l, b, pd, rfl⟩ := h; rfl
  have hw := waitRemote_sim (s.rq.q.length + 1) s t h
  rw [run_eq_post, run_eq_post, hlen]
  generalize waitRemote (s.rq.q.length + 1) s = ws at hw
  generalize waitRemote (s.rq.q.length + 1) t = wt at hw
  obtain ⟨s1, w⟩ := ws
  obtain ⟨t1, w'⟩ := wt
  obtain ⟨hs, hw'⟩ := hw
  simp only at hs hw'
  subst hw'
  exact post_sim p c s1 t1 _ hs

/-- a definite outcome of `waitRemote` is processed the same way with further items appended -/
theorem post_addQ (p : Path) (c : Cid) (s1 : State) (w : Wait) (extra : List Item)
    (hb : w ≠ .blocked) (hr : w = .remote → s1.rq.q ≠ []) :
    Sim (addQ (post p c (s1, w)).1 extra) (post p c (addQ s1 extra, w)).1 ∧
    (post p c (addQ s1 extra, w)).2 = (post p c (s1, w)).2 := by
  cases w with
  | blocked => exact absurd rfl hb
  | err e => exact ⟨Sim.refl _, rfl⟩
  | offline => exact ⟨Sim.refl _, rfl⟩
  | remote =>
    have hne := hr rfl
    simp only [post]
    rw [stillOnUnfollowed_addQ]
    have hq2 : (stillOnUnfollowed s1 p).1.rq.q = s1.rq.q := by rw [(stillOnUnfollowed_spec s1 p).2]
    generalize stillOnUnfollowed s1 p = su at hq2
    obtain ⟨s2, still⟩ := su
    simp only at hq2
    dsimp only
    cases still with
    | true => exact ⟨Sim.refl _, rfl⟩
    | false =>
      simp only [Bool.false_eq_true, if_false]
      obtain ⟨store, rec, mra, unf, op, ver, ⟨q, l0, b0, tO⟩, pend⟩ := s2
      simp only at hq2
      cases q with
      | nil => rw [← hq2] at hne; exact absurd rfl hne
      | cons head tl =>
        simp only [addQ, RQ.consume, List.cons_append]
        by_cases hl : (head.link != c) = true
        · simp only [hl, if_true]
          first | exact ⟨⟨_, _, _, rfl⟩, trivial⟩ | exact ⟨⟨_, _, _, rfl⟩, rfl⟩
        · simp only [hl]
          cases hbk : head.block <;> cases hdf : head.action.didFollow <;>
            simp only [Loader.recordRemoteAttempt, hdf, Bool.not_true, Bool.not_false, Bool.false_eq_true, if_true, if_false] <;>
            first | exact ⟨⟨_, _, _, rfl⟩, trivial⟩ | exact ⟨⟨_, _, _, rfl⟩, rfl⟩


/-! ### outcomes of `waitRemote` on an open loader -/

theorem waitRemote_outcome (f : Nat) (s : State) (hopen : s.isOpen = true) (hf : s.rq.q.length + 1 ≤ f) :
    (waitRemote f s).2 ≠ .offline ∧
    ((waitRemote f s).2 = .remote → (waitRemote f s).1.rq.q ≠ []) ∧
    ((waitRemote f s).2 = .blocked → (waitRemote f s).1.rq.q = []) := by
  induction f generalizing s with
  | zero => omega
  | succ n ih =>
    obtain ⟨store, rec, mra, unf, op, ver, ⟨q, l0, b0, tO⟩, pend⟩ := s
    simp only at hopen
    subst hopen
    cases q with
    | nil => simp [waitRemote]
    | cons head tl =>
      simp only [List.length_cons] at hf
      simp only [waitRemote]
      split
      · simp
      · split
        · simp
        · rename_i v' _
          apply ih
          · rw [recordRemoteAttempt_isOpen]
          · rw [recordRemoteAttempt_q]; simp [RQ.consume]; omega

/-- **Kahn core.**  On an open loader, appending further items `extra` behind the remote queue does
    not change how a load is answered:
    * a load that completes on the shorter queue completes with the same result on the longer one,
      and the resulting states agree (up to the retry bookkeeping) — i.e. it does not matter whether
      the items arrived before or after the load;
    * a load that has to wait on the shorter queue behaves, once the items are there, exactly like
      the same load started on the longer queue — i.e. it does not matter whether the load was
      issued before or after the items arrived. -/
theorem run_addQ (s : State) (hopen : s.isOpen = true) (extra : List Item) (p : Path) (c : Cid) :
    (∀ r, (run s p c).2 = .done r →
      Sim (addQ (run s p c).1 extra) (run (addQ s extra) p c).1 ∧ (run (addQ s extra) p c).2 = .done r) ∧
    ((run s p c).2 = .blocked →
      Sim (run (addQ (run s p c).1 extra) p c).1 (run (addQ s extra) p c).1 ∧
      (run (addQ s extra) p c).2 = (run (addQ (run s p c).1 extra) p c).2) := by
  have hadd := waitRemote_addQ (s.rq.q.length + 1) s extra hopen (Nat.le_refl _)
  have hout := waitRemote_outcome (s.rq.q.length + 1) s hopen (Nat.le_refl _)
  have hlenq : (addQ s extra).rq.q.length = (s.rq.q ++ extra).length := rfl
  rw [run_eq_post s, run_eq_post (addQ s extra), hlenq]
  generalize waitRemote (s.rq.q.length + 1) s = ws at hadd hout
  obtain ⟨s1, w⟩ := ws
  simp only at hout
  generalize waitRemote ((s.rq.q ++ extra).length + 1) (addQ s extra) = wl at hadd
  obtain ⟨t1, w'⟩ := wl
  cases w with
  | offline => exact absurd rfl hout.1
  | blocked =>
    have hq1 : s1.rq.q = [] := hout.2.2 rfl
    simp only [contWait] at hadd
    refine ⟨fun r hr => by simp [post] at hr, fun _ => ?_⟩
    -- the parked load, re-run after the items arrived
    have hpend : Sim (addQ s1 extra) (addQ (post p c (s1, .blocked)).1 extra) :=
      ⟨s1.rq.last, s1.rq.lastLinked, some (p, c), rfl⟩
    have hlen2 : (addQ (post p c (s1, .blocked)).1 extra).rq.q.length = extra.length := by
      simp [post, addQ, hq1]
    rw [run_eq_post (addQ (post p c (s1, .blocked)).1 extra), hlen2]
    have hw2 := waitRemote_sim (extra.length + 1) _ _ hpend
    generalize waitRemote (extra.length + 1) (addQ s1 extra) = wa at hadd hw2
    generalize waitRemote (extra.length + 1) (addQ (post p c (s1, .blocked)).1 extra) = wb at hw2
    obtain ⟨a1, wa'⟩ := wa
    obtain ⟨b1, wb'⟩ := wb
    simp only at hadd hw2
    obtain ⟨hsab, hwab⟩ := hw2
    obtain ⟨hsat, hwat⟩ := hadd
    subst hwab; subst hwat
    have h1 := post_sim p c b1 t1 w' (Sim.trans hsab.symm hsat)
    exact h1
  | err e =>
    simp only [contWait] at hadd
    obtain ⟨hs, hw⟩ := hadd
    subst hw
    refine ⟨fun r hr => ?_, fun hb => by simp [post] at hb⟩
    have h1 := post_sim p c _ _ (.err e) hs
    have h2 := post_addQ p c s1 (.err e) extra (by simp) (by simp)
    exact ⟨Sim.trans h2.1 h1.1, by rw [h1.2, h2.2]; exact hr⟩
  | remote =>
    simp only [contWait] at hadd
    obtain ⟨hs, hw⟩ := hadd
    subst hw
    have hpost : ∀ r, (post p c (s1, .remote)).2 = .done r →
        Sim (addQ (post p c (s1, .remote)).1 extra) (post p c (t1, .remote)).1 ∧
        (post p c (t1, .remote)).2 = .done r := by
      intro r hr
      have h1 := post_sim p c _ _ .remote hs
      have h2 := post_addQ p c s1 .remote extra (by simp) (fun _ => hout.2.1 rfl)
      exact ⟨Sim.trans h2.1 h1.1, by rw [h1.2, h2.2]; exact hr⟩
    refine ⟨hpost, fun hb => ?_⟩
    -- a `.remote` outcome never parks
    exfalso
    have : ∃ r, (post p c (s1, .remote)).2 = .done r := by
      simp only [post]
      generalize stillOnUnfollowed s1 p = su
      obtain ⟨s2, still⟩ := su
      dsimp only
      split
      · exact ⟨_, rfl⟩
      · split
        · exact ⟨_, rfl⟩
        · split
          · exact ⟨_, rfl⟩
          · split <;> exact ⟨_, rfl⟩
    obtain ⟨r, hr⟩ := this
    rw [hr] at hb
    cases hb

/-! ### `IngestResponse` on an open loader with an intact tail appends to the queue -/

theorem queue_tailOn (items : List Item) (rq : RQ) (h : rq.tailOn = true) :
    rq.queue items = { rq with q := rq.q ++ items } := by
  unfold RQ.queue
  induction items generalizing rq with
  | nil => simp
  | cons it rest ih =>
    simp only [List.foldl_cons]
    have hp : rq.push it = { rq with q := rq.q ++ [it] } := by
      unfold RQ.push
      cases hq : rq.q with
      | nil => simp only; rw [← h]; cases rq; simp_all
      | cons x xs => simp only [h, if_true]
    rw [hp, ih _ (by simpa using h)]
    simp [List.append_assoc]

theorem ingest_eq_addQ (s : State) (md : List (Cid × Action)) (bl : List (Cid × Blk))
    (hopen : s.isOpen = true) (ht : s.rq.tailOn = true) :
    ingest s md bl = addQ s (if md.isEmpty then [] else buildItems md bl) := by
  unfold ingest addQ
  split
  · simp
  · rename_i hne
    simp only [hopen, Bool.not_true, Bool.false_eq_true, if_false]
    rw [queue_tailOn _ _ ht]


/-! ### a load keeps the loader open / its tail intact -/

theorem waitRemote_tail (f : Nat) (s : State) :
    (waitRemote f s).1.rq.tailOn = s.rq.tailOn := by
  induction f generalizing s with
  | zero => rfl
  | succ n ih =>
    obtain ⟨store, rec, mra, unf, op, ver, ⟨q, l0, b0, tO⟩, pend⟩ := s
    cases q with
    | nil => simp only [waitRemote]; split <;> rfl
    | cons head tl =>
      simp only [waitRemote]
      split
      · rfl
      · split
        · rfl
        · rw [ih, recordRemoteAttempt_rq]; rfl

theorem post_tail_open (p : Path) (c : Cid) (s1 : State) (w : Wait) :
    (post p c (s1, w)).1.rq.tailOn = s1.rq.tailOn ∧ (post p c (s1, w)).1.isOpen = s1.isOpen := by
  cases w with
  | blocked => exact ⟨rfl, rfl⟩
  | err e => exact ⟨rfl, rfl⟩
  | offline => exact ⟨rfl, rfl⟩
  | remote =>
    simp only [post]
    have hsu := stillOnUnfollowed_spec s1 p
    have hsf := stillOnUnfollowed_frame s1 p
    generalize stillOnUnfollowed s1 p = su at hsu hsf
    obtain ⟨s2, still⟩ := su
    simp only at hsu hsf
    dsimp only
    have ht : s2.rq.tailOn = s1.rq.tailOn := by rw [hsu.2]
    split
    · exact ⟨ht, hsf.2⟩
    · split
      · exact ⟨ht, hsf.2⟩
      · split
        · exact ⟨by simp only [consume_tailOn]; exact ht, hsf.2⟩
        · split
          · refine ⟨?_, ?_⟩
            · simp only [recordRemoteAttempt_rq, consume_tailOn]; exact ht
            · simp only [recordRemoteAttempt_isOpen]; exact hsf.2
          · refine ⟨?_, ?_⟩
            · simp only [recordRemoteAttempt_rq, consume_tailOn]; exact ht
            · simp only [recordRemoteAttempt_isOpen]; exact hsf.2

theorem run_tail_open (s : State) (p : Path) (c : Cid) :
    (run s p c).1.rq.tailOn = s.rq.tailOn ∧ (run s p c).1.isOpen = s.isOpen := by
  rw [run_eq_post]
  have h1 := waitRemote_tail (s.rq.q.length + 1) s
  have h2 := (waitRemote_frame (s.rq.q.length + 1) s).2.2
  generalize waitRemote (s.rq.q.length + 1) s = ws at h1 h2
  obtain ⟨s1, w⟩ := ws
  have := post_tail_open p c s1 w
  exact ⟨this.1.trans h1, this.2.trans h2⟩

end GS.Loader
