import GSProofs.Lemmas.RespDispatchOwnMsg
/-!
`Inv` is preserved by the local API (pause / unpause / cancel / update response) and by the
message-sent / network-error notifications (GSProofs/C10Own.lean).
-/
namespace GS.C10
open GS.RespMgr GS.Generated



theorem pauseResp_inv {ex : Option (Peer × ReqId)} {s : State} (hi : Inv ex s) (id : ReqId) :
    Inv ex (pauseResp s id).1 := by
  unfold pauseResp
  split
  · exact hi
  · rename_i k o hl
    split
    · exact hi
    · split
      · exact hi
      · exact inv_setObj hi k o _ (lookup_some hl).2 rfl rfl rfl (Or.inl rfl)

theorem updateResp_inv {ex : Option (Peer × ReqId)} {s : State} (hi : Inv ex s) (id : ReqId) :
    Inv ex (updateResp s id).1 := by
  unfold updateResp
  split <;> exact hi

/-- `abortRequest` leaves the table alone or deletes the entry under `id` -/
theorem abortRequest_table (s : State) (id : ReqId) (err : ErrK) :
    (abortRequest s id err).1.table = s.table ∨ (abortRequest s id err).1.table.get id = none := by
  unfold abortRequest
  split
  · left; rfl
  · rename_i k o hl
    simp only
    split
    · left; rfl
    · split
      · have hl1 : ({ s with pending := eraseFirst s.pending (o.peer, id) } : State).lookup id = some (k, o) := hl
        cases err with
        | ctxCancel => right; simp only [terminate, hl1]; exact Table.get_del_self _ _
        | network => right; simp only [terminate, hl1]; exact Table.get_del_self _ _
        | byCommand => left; rfl
        | hook => left; rfl
      · left; rfl

theorem quiet_mono {s s' : State} {id : ReqId} (hq : Quiet s id) (hp : s'.pending.Sublist s.pending)
    (he : s'.execs = s.execs) : Quiet s' id :=
  ⟨fun t ht => hq.1 t (hp.subset ht), fun e h => hq.2 e (by rw [he] at h; exact h)⟩

theorem closeTerm_inv {s : State} (hi : Inv none s) (k : Serial) (id : ReqId) (term : Bool)
    (hq : term = true → s.table.get id = some k → Quiet s id) :
    Inv none (closeTerm .ownResponse s k id term).1 := by
  unfold closeTerm
  split
  · rename_i h
    have h1 : term = true := by cases term <;> simp_all
    have h2 : s.table.get id = some k := by
      have : closerApplies .ownResponse s k id = true := by cases term <;> simp_all
      simpa [closerApplies] using this
    exact inv_terminate hi id (hq h1 h2)
  · exact hi

theorem closeNetErr_inv {s : State} (hi : Inv none s) (k : Serial) (id : ReqId) :
    Inv none (closeNetErr .ownResponse s k id).1
    ∧ (closeNetErr .ownResponse s k id).1.execs = s.execs
    ∧ (closeNetErr .ownResponse s k id).1.pending.Sublist s.pending
    ∧ ((closeNetErr .ownResponse s k id).1.table = s.table ∨ (closeNetErr .ownResponse s k id).1.table.get id = none) := by
  unfold closeNetErr
  split
  · exact ⟨abortRequest_inv hi id .network, abortRequest_execs s id .network, abortRequest_pending s id .network,
      abortRequest_table s id .network⟩
  · exact ⟨hi, rfl, List.Sublist.refl _, Or.inl rfl⟩

/-- the two closer calls of an error notification, nothing in between -/
theorem notifyErr_inv (d : List DispatchCase) {s0 : State} (hi : Inv none s0) (k : Serial) (o : Obj) (term : Bool)
    (hq : term = true → s0.table.get o.id = some k → Quiet s0 o.id) :
    Inv none (notifyErr d .ownResponse s0 k o term none).1 := by
  obtain ⟨ia, ea, pa, ta⟩ := closeNetErr_inv hi k o.id
  have hqa : term = true → (closeNetErr .ownResponse s0 k o.id).1.table.get o.id = some k →
      Quiet (closeNetErr .ownResponse s0 k o.id).1 o.id := by
    intro h1 h2
    rcases ta with ta | ta
    · rw [ta] at h2
      exact quiet_mono (hq h1 h2) pa ea
    · rw [ta] at h2; cases h2
  have := closeTerm_inv ia k o.id term hqa
  unfold notifyErr
  simp only [injectMsg]
  split <;> exact this

theorem notifySent_inv {s0 : State} (hi : Inv none s0) (k : Serial) (o : Obj) (code : Option Nat) (term : Bool)
    (hq : term = true → s0.table.get o.id = some k → Quiet s0 o.id) :
    Inv none (notifySent .ownResponse s0 k o code term).1 := by
  unfold notifySent
  split
  · rename_i h
    exact closeTerm_inv hi k o.id true (fun _ => hq h)
  · exact hi

/-- an object in the table with an un-notified status is neither queued nor being executed -/
theorem quiet_of_fin {s : State} (hi : Inv none s) (k : Serial) (o : Obj) (hk : s.obj k = some o)
    (hf : o.finCode ≠ none) (ht : s.table.get o.id = some k) : Quiet s o.id := by
  have hl : s.lookup o.id = some (k, o) := by simp [State.lookup, ht, hk]
  refine ⟨?_, ?_⟩
  · apply no_pending_of_state hi hl
    intro hq
    rcases hi.fin _ _ _ hl hf with h | h <;> rw [hq] at h <;> cases h
  · intro e he heq
    obtain ⟨o', hl', _, _, hn⟩ := hi.exec e he
    rw [heq, hl] at hl'
    have hko : k = e.k ∧ o = o' := by simpa using hl'
    obtain ⟨_, ho⟩ := hko
    subst ho
    exact hf (hn (by simp))

theorem notify_inv (d : List DispatchCase) {s : State} (hi : Inv none s) (k : Serial) (isErr : Bool) :
    Inv none (notify d .ownResponse s k isErr none).1 := by
  unfold notify
  split
  · exact hi
  · rename_i o hk
    have h0 : Inv none (s.setObj k { o with finCode := none }) :=
      inv_setObj hi k o _ hk rfl rfl rfl (Or.inr rfl)
    have hq : (match o.finCode with | some c => StatusCodes.isTerminal c | none => false) = true →
        (s.setObj k { o with finCode := none }).table.get o.id = some k →
        Quiet (s.setObj k { o with finCode := none }) o.id := by
      intro h1 h2
      have hf : o.finCode ≠ none := by
        intro h; rw [h] at h1; cases h1
      exact quiet_of_fin hi k o hk hf h2
    simp only
    split
    · exact notifyErr_inv d h0 k o _ hq
    · exact notifySent_inv h0 k o _ _ hq

theorem notifyAt_inv (d : List DispatchCase) {s : State} (hi : Inv none s) (p : Peer) (j : Nat) (isErr : Bool) :
    Inv none (notifyAt d .ownResponse s p j isErr none).1 := by
  unfold notifyAt
  split
  · exact notify_inv d hi _ isErr
  · exact hi

/-! ### `TableOk` under the local API and the notifications -/

theorem pauseResp_tableOk {s : State} (ht : TableOk s) (id : ReqId) : TableOk (pauseResp s id).1 := by
  unfold pauseResp
  split
  · exact ht
  · split
    · exact ht
    · split
      · exact ht
      · exact tableOk_setObj ht _ _

theorem updateResp_tableOk {s : State} (ht : TableOk s) (id : ReqId) : TableOk (updateResp s id).1 := by
  unfold updateResp
  split <;> exact ht

theorem closeTerm_tableOk {s : State} (ht : TableOk s) (k : Serial) (id : ReqId) (term : Bool) :
    TableOk (closeTerm .ownResponse s k id term).1 := by
  unfold closeTerm
  split
  · exact tableOk_terminate ht id
  · exact ht

theorem closeNetErr_tableOk {s : State} (ht : TableOk s) (k : Serial) (id : ReqId) :
    TableOk (closeNetErr .ownResponse s k id).1 := by
  unfold closeNetErr
  split
  · exact tableOk_abort ht id .network
  · exact ht

theorem notifyErr_tableOk (d : List DispatchCase) {s0 : State} (ht : TableOk s0) (k : Serial) (o : Obj) (term : Bool) :
    TableOk (notifyErr d .ownResponse s0 k o term none).1 := by
  have := closeTerm_tableOk (closeNetErr_tableOk ht k o.id) k o.id term
  unfold notifyErr
  simp only [injectMsg]
  split <;> exact this

theorem notifySent_tableOk {s0 : State} (ht : TableOk s0) (k : Serial) (o : Obj) (code : Option Nat) (term : Bool) :
    TableOk (notifySent .ownResponse s0 k o code term).1 := by
  unfold notifySent
  split
  · exact closeTerm_tableOk ht k o.id true
  · exact ht

theorem notifyAt_tableOk (d : List DispatchCase) {s : State} (ht : TableOk s) (p : Peer) (j : Nat) (isErr : Bool) :
    TableOk (notifyAt d .ownResponse s p j isErr none).1 := by
  unfold notifyAt
  split
  · unfold notify
    split
    · exact ht
    · simp only
      split
      · exact notifyErr_tableOk d (tableOk_setObj ht _ _) _ _ _
      · exact notifySent_tableOk (tableOk_setObj ht _ _) _ _ _ _
  · exact ht

/-! ### a message injected between the two closer calls -/

/-- objects are only appended, and a table entry that points to an old object was there before -/
def TabMono (s s' : State) : Prop :=
  s.objs.length ≤ s'.objs.length ∧ ∀ id k, s'.table.get id = some k → k < s.objs.length → s.table.get id = some k

theorem TabMono.refl (s : State) : TabMono s s := ⟨Nat.le_refl _, fun _ _ h _ => h⟩
theorem TabMono.trans {s s' s'' : State} (h1 : TabMono s s') (h2 : TabMono s' s'') : TabMono s s'' :=
  ⟨Nat.le_trans h1.1 h2.1, fun id k h hk => h1.2 id k (h2.2 id k h (Nat.lt_of_lt_of_le hk h1.1)) hk⟩

theorem tabMono_setObj (s : State) (k : Serial) (o : Obj) : TabMono s (s.setObj k o) :=
  ⟨by simp [State.setObj], fun _ _ h _ => h⟩

theorem tabMono_of_eq {s s' : State} (h1 : s'.objs = s.objs) (h2 : s'.table = s.table) : TabMono s s' :=
  ⟨by rw [h1]; exact Nat.le_refl _, fun id k h _ => by rw [h2] at h; exact h⟩

theorem tabMono_delTable (s : State) (id : ReqId) : TabMono s { s with table := s.table.del id } := by
  refine ⟨Nat.le_refl _, ?_⟩
  intro id' k h _
  by_cases hne : id' = id
  · subst hne
    rw [show ({ s with table := s.table.del id' } : State).table.get id' = (s.table.del id').get id' from rfl,
      Table.get_del_self] at h
    cases h
  · rw [show ({ s with table := s.table.del id } : State).table.get id' = (s.table.del id).get id' from rfl,
      Table.get_del_ne s.table (Ne.symm hne)] at h
    exact h

theorem terminate_tabMono (s : State) (id : ReqId) : TabMono s (terminate s id).1 := by
  unfold terminate
  split
  · exact TabMono.refl s
  · rename_i k o hl
    exact TabMono.trans (tabMono_setObj s k _) (tabMono_delTable _ id)

theorem abortRequest_tabMono (s : State) (id : ReqId) (err : ErrK) : TabMono s (abortRequest s id err).1 := by
  unfold abortRequest
  split
  · exact TabMono.refl s
  · rename_i k o hl
    have h0 : TabMono s { s with pending := eraseFirst s.pending (o.peer, id) } := tabMono_of_eq rfl rfl
    simp only
    split
    · exact h0
    · split
      · cases err with
        | ctxCancel => exact TabMono.trans h0 (terminate_tabMono _ id)
        | network => exact TabMono.trans h0 (terminate_tabMono _ id)
        | byCommand => exact TabMono.trans h0 (tabMono_setObj _ k _)
        | hook => exact TabMono.trans h0 (tabMono_setObj _ k _)
      · exact TabMono.trans h0 (tabMono_setObj _ k _)

theorem unpauseRequest_tabMono (s : State) (id : ReqId) : TabMono s (unpauseRequest s id).1 := by
  unfold unpauseRequest
  split
  · exact TabMono.refl s
  · rename_i k o hl
    split
    · exact TabMono.refl s
    · exact TabMono.trans (tabMono_setObj s k _) (tabMono_of_eq rfl rfl)

theorem processUpdate_tabMono (s : State) (id : ReqId) (uh : UpdHook) : TabMono s (processUpdate s id uh).1 := by
  unfold processUpdate
  split
  · exact TabMono.refl s
  · rename_i k o hl
    split
    · exact TabMono.refl s
    · split
      · exact tabMono_setObj s k _
      · cases uh with
        | none => exact TabMono.refl s
        | ext => exact TabMono.refl s
        | err => exact tabMono_setObj s k _
        | unpause => exact unpauseRequest_tabMono s id

theorem newRequest_tabMono (s : State) (q : Peer) (x : Request) : TabMono s (newRequest s q x).1 := by
  unfold newRequest
  refine ⟨by simp, ?_⟩
  intro id k h hk
  simp only at h
  by_cases hne : x.id = id
  · subst hne
    have hs : (Table.set s.table x.id s.objs.length).get x.id = some s.objs.length := by
      simp [Table.set, Table.get_cons]
    rw [hs] at h; cases h
    exact absurd hk (Nat.lt_irrefl _)
  · rw [Table.get_set_ne s.table _ hne] at h
    exact h

theorem handleOne_tabMono (d : List DispatchCase) (q : Peer) (s : State) (x : Request) :
    TabMono s (handleOne d q s x).1 := by
  unfold handleOne
  split
  · exact TabMono.refl s
  · rename_i c hc
    have key : TabMono s (match c.handler with
        | .new => newRequest s q x
        | .abort => let r := abortRequest s x.id .ctxCancel; (r.1, r.2.1)
        | .update => processUpdate s x.id x.uh).1 := by
      cases c.handler with
      | new => exact newRequest_tabMono s q x
      | abort => exact abortRequest_tabMono s x.id .ctxCancel
      | update => exact processUpdate_tabMono s x.id x.uh
    cases hg : c.guard with
    | none => exact key
    | some g =>
      by_cases hb : guardSkips g s q x = true
      · simp only [hb, if_true]; exact TabMono.refl s
      · have hb' : guardSkips g s q x = false := by simpa using hb
        simp only [hb', Bool.false_eq_true, if_false]; exact key

theorem processRequests_tabMono (d : List DispatchCase) (q : Peer) (s : State) (reqs : List Request) :
    TabMono s (processRequests d q s reqs).1 := by
  induction reqs generalizing s with
  | nil => exact TabMono.refl s
  | cons x xs ih => exact TabMono.trans (handleOne_tabMono d q s x) (ih _)

theorem abortRequest_len (s : State) (id : ReqId) (err : ErrK) : (abortRequest s id err).1.objs.length = s.objs.length := by
  unfold abortRequest
  split
  · rfl
  · rename_i k o hl
    have hl1 : ({ s with pending := eraseFirst s.pending (o.peer, id) } : State).lookup id = some (k, o) := hl
    simp only
    split
    · rfl
    · split
      · cases err <;> simp [terminate, hl1, State.setObj]
      · simp [State.setObj]

/-- if the network-error close cleared the stream, the table entry is gone -/
theorem cleared_closeNetErr (s : State) (k : Serial) (id : ReqId)
    (hc : cleared (closeNetErr .ownResponse s k id).2.1 = true) :
    (closeNetErr .ownResponse s k id).1.table.get id = none := by
  unfold closeNetErr at hc ⊢
  split
  · rename_i ha
    simp only [ha, if_true] at hc
    unfold abortRequest at hc ⊢
    split
    · rename_i hl; simp only [hl] at hc; simp [cleared] at hc
    · rename_i k' o hl
      have hl1 : ({ s with pending := eraseFirst s.pending (o.peer, id) } : State).lookup id = some (k', o) := hl
      simp only [hl] at hc
      simp only
      split
      · rename_i h; simp at h
      · split
        · simp only [terminate, hl1]; exact Table.get_del_self _ _
        · rename_i h1 h2
          simp [h1, h2, cleared] at hc
  · rename_i ha
    simp [ha, cleared] at hc

theorem closeNetErr_len (s : State) (k : Serial) (id : ReqId) :
    (closeNetErr .ownResponse s k id).1.objs.length = s.objs.length := by
  unfold closeNetErr
  split
  · exact abortRequest_len s id .network
  · rfl

theorem notifyErr_inj_inv {s0 : State} (hi : Inv none s0) (ht0 : TableOk s0) (k : Serial) (o : Obj) (term : Bool)
    (hk : k < s0.objs.length)
    (hq : term = true → s0.table.get o.id = some k → Quiet s0 o.id) (q : Peer) (reqs : List Request)
    (hr : reqsReuseFree q
      (if cleared (closeNetErr .ownResponse s0 k o.id).2.1 then (closeNetErr .ownResponse s0 k o.id).1
       else (closeTerm .ownResponse (closeNetErr .ownResponse s0 k o.id).1 k o.id term).1) reqs = true) :
    Inv none (notifyErr RespDispatch.dispatch .ownResponse s0 k o term (some (q, reqs))).1
    ∧ TableOk (notifyErr RespDispatch.dispatch .ownResponse s0 k o term (some (q, reqs))).1 := by
  obtain ⟨ia, ea, pa, ta⟩ := closeNetErr_inv hi k o.id
  have hta := closeNetErr_tableOk ht0 k o.id
  unfold notifyErr
  simp only [injectMsg]
  split
  · rename_i hc
    simp only [hc, if_true] at hr
    have hi1 := processRequests_inv ia hta q reqs hr
    have ht1 := processRequests_tableOk ia hta q reqs hr
    have hm := processRequests_tabMono RespDispatch.dispatch q (closeNetErr .ownResponse s0 k o.id).1 reqs
    have hnone := cleared_closeNetErr s0 k o.id hc
    refine ⟨?_, closeTerm_tableOk ht1 k o.id term⟩
    apply closeTerm_inv hi1
    intro _ h2
    have := hm.2 o.id k h2 (by rw [closeNetErr_len]; exact hk)
    rw [hnone] at this; cases this
  · rename_i hc
    simp only [hc] at hr
    have hqa : term = true → (closeNetErr .ownResponse s0 k o.id).1.table.get o.id = some k →
        Quiet (closeNetErr .ownResponse s0 k o.id).1 o.id := by
      intro h1 h2
      rcases ta with ta | ta
      · rw [ta] at h2
        exact quiet_mono (hq h1 h2) pa ea
      · rw [ta] at h2; cases h2
    have it := closeTerm_inv ia k o.id term hqa
    have htt := closeTerm_tableOk hta k o.id term
    exact processRequests_inv' it htt q reqs (by simpa using hr)

theorem notifyAt_inj_inv {s : State} (hi : Inv none s) (ht : TableOk s) (p : Peer) (j : Nat) (q : Peer) (reqs : List Request)
    (hr : ReuseFree s (.neterrInj p j q reqs) = true) :
    Inv none (notifyAt RespDispatch.dispatch .ownResponse s p j true (some (q, reqs))).1
    ∧ TableOk (notifyAt RespDispatch.dispatch .ownResponse s p j true (some (q, reqs))).1 := by
  unfold notifyAt
  simp only [ReuseFree, injPoint] at hr
  split
  · rename_i k hk
    simp only [hk] at hr
    unfold notify
    split
    · exact ⟨hi, ht⟩
    · rename_i o ho
      simp only [ho] at hr
      have h0 : Inv none (s.setObj k { o with finCode := none }) :=
        inv_setObj hi k o _ ho rfl rfl rfl (Or.inr rfl)
      have hq : (match o.finCode with | some c => StatusCodes.isTerminal c | none => false) = true →
          (s.setObj k { o with finCode := none }).table.get o.id = some k →
          Quiet (s.setObj k { o with finCode := none }) o.id := by
        intro h1 h2
        have hf : o.finCode ≠ none := by
          intro h; rw [h] at h1; cases h1
        exact quiet_of_fin hi k o ho hf h2
      have hlt : k < (s.setObj k { o with finCode := none }).objs.length := by
        have : k < s.objs.length := (List.getElem?_eq_some_iff.mp (by simpa [State.obj] using ho)).1
        simpa [State.setObj] using this
      simp only [if_true]
      apply notifyErr_inj_inv h0 (tableOk_setObj ht k _) k o _ hlt hq q reqs
      have hck : RespDispatch.closerKey = .ownResponse := closer_own_response
      rw [hck] at hr
      by_cases hc : cleared (closeNetErr .ownResponse (s.setObj k { o with finCode := none }) k o.id).2.1 = true
      · simp only [hc, if_true] at hr ⊢
        exact hr
      · have hc' : cleared (closeNetErr .ownResponse (s.setObj k { o with finCode := none }) k o.id).2.1 = false := by
          simpa using hc
        simp only [hc', Bool.false_eq_true, if_false] at hr ⊢
        exact hr
  · exact ⟨hi, ht⟩

end GS.C10
