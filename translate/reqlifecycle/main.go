// Command reqlifecycle regenerates lean/GS/Generated/ReqLifecycleSpec.lean (property C04) from
// requestmanager/server.go:
//
//	releaseRequestTask   the guard of the "stay paused" branch: does it test the request context?
//	cancelOnError        first-error-wins assignment; terminate unless Running, else cancelFn + SetRemoteOnline(false)
//	terminateRequest     the order of its stages (terminal error send, delete, cancelFn, loader cleanup,
//	                     traverser shutdown, close of the two channels, onTerminated notifications)
//	processTerminations  IsTerminal / IsFailure nesting and the error passed to cancelOnError
//
// and from requestmanager/executor/executor.go:
//
//	traverse             the "go online" block (first local miss): does it re-check the request context
//	                     after SetRemoteOnline(true), before contacting the remote?
//	ExecuteTask          the tail: cancel message + SetRemoteOnline(false) + error send unless context-cancel
//
// usage: go run ./reqlifecycle <repo>      (prints the Lean file; exits non-zero on syntax it does not know)
package main

import (
	"fmt"
	"go/ast"
	"go/parser"
	"go/printer"
	"go/token"
	"os"
	"path/filepath"
	"regexp"
	"strings"
)

var fset = token.NewFileSet()

func die(pos token.Pos, format string, a ...interface{}) {
	where := ""
	if pos.IsValid() {
		where = fset.Position(pos).String() + ": "
	}
	fmt.Fprintf(os.Stderr, "reqlifecycle: %s%s\n", where, fmt.Sprintf(format, a...))
	os.Exit(1)
}

func src(n ast.Node) string {
	var sb strings.Builder
	_ = printer.Fprint(&sb, fset, n)
	return strings.Join(strings.Fields(sb.String()), " ")
}

// like: the statement text matches the pattern, where every § stands for an arbitrary identifier
// (receivers, parameters and local variables may be renamed without changing the translation).
func like(pattern, text string) bool {
	q := regexp.QuoteMeta(pattern)
	q = strings.ReplaceAll(q, "§", `[A-Za-z_]\w*`)
	return regexp.MustCompile("^" + q + "$").MatchString(text)
}

func likePrefix(pattern, text string) bool {
	q := regexp.QuoteMeta(pattern)
	q = strings.ReplaceAll(q, "§", `[A-Za-z_]\w*`)
	return regexp.MustCompile("^" + q).MatchString(text)
}

func likeAnywhere(pattern, text string) bool {
	q := regexp.QuoteMeta(pattern)
	q = strings.ReplaceAll(q, "§", `[A-Za-z_]\w*`)
	return regexp.MustCompile(q).MatchString(text)
}

func findMethod(f *ast.File, name string) *ast.FuncDecl {
	for _, d := range f.Decls {
		if fd, ok := d.(*ast.FuncDecl); ok && fd.Recv != nil && fd.Name.Name == name {
			return fd
		}
	}
	die(f.Pos(), "method %s not found", name)
	return nil
}

func main() {
	if len(os.Args) < 2 {
		die(token.NoPos, "usage: reqlifecycle <repo>")
	}
	path := filepath.Join(os.Args[1], "requestmanager", "server.go")
	f, err := parser.ParseFile(fset, path, nil, parser.SkipObjectResolution)
	if err != nil {
		die(token.NoPos, "parse %s: %v", path, err)
	}

	// ---- releaseRequestTask
	var pauseGuardChecksCtx bool
	{
		fd := findMethod(f, "releaseRequestTask")
		var stmts []string
		found := false
		for _, st := range fd.Body.List {
			s := src(st)
			stmts = append(stmts, s)
			ifs, ok := st.(*ast.IfStmt)
			if !ok || ifs.Init == nil || !strings.Contains(src(ifs.Init), ".(hooks.ErrPaused)") {
				continue
			}
			found = true
			body := src(ifs.Body)
			if !like("{ §.state = graphsync.Paused return }", body) {
				die(ifs.Pos(), "releaseRequestTask: paused branch body not understood: %s", body)
			}
			switch {
			case like("§", src(ifs.Cond)):
				pauseGuardChecksCtx = false
			case like("§ && §.ctx.Err() == nil", src(ifs.Cond)):
				pauseGuardChecksCtx = true
			default:
				die(ifs.Pos(), "releaseRequestTask: paused branch condition not understood: %s", src(ifs.Cond))
			}
		}
		if !found {
			die(fd.Pos(), "releaseRequestTask: no `if _, ok := err.(hooks.ErrPaused); ...` statement")
		}
		want := []string{"§ := §.Topic.(graphsync.RequestID)", "§.requestQueue.TaskDone(§, §)",
			"§, § := §.inProgressRequestStatuses[§]", "if !§ { return }"}
		for i, wnt := range want {
			if i >= len(stmts) || !like(wnt, stmts[i]) {
				die(fd.Pos(), "releaseRequestTask: statement %d is not `%s`", i, wnt)
			}
		}
		if !likePrefix("§.terminateRequest(§, §)", stmts[len(stmts)-1]) {
			die(fd.Pos(), "releaseRequestTask: does not end with terminateRequest")
		}
	}

	// ---- cancelOnError
	{
		fd := findMethod(f, "cancelOnError")
		if len(fd.Body.List) != 2 {
			die(fd.Pos(), "cancelOnError: expected two if statements")
		}
		a := src(fd.Body.List[0])
		b := src(fd.Body.List[1])
		if !like("if §.terminalError == nil { §.terminalError = § }", a) {
			die(fd.Pos(), "cancelOnError: first statement not understood: %s", a)
		}
		if !like("if §.state != graphsync.Running { §.terminateRequest(§, §) } else { §.cancelFn() §.reconciledLoader.SetRemoteOnline(false) }", b) {
			die(fd.Pos(), "cancelOnError: second statement not understood: %s", b)
		}
	}

	// ---- terminateRequest: stage order
	var stages []string
	{
		fd := findMethod(f, "terminateRequest")
		for _, st := range fd.Body.List {
			s := src(st)
			switch {
			case strings.Contains(s, "otel.Tracer") || like("defer §.End()", s) || like("defer §.span.End()", s):
				// tracing
			case likePrefix("if §.terminalError != nil {", s):
				if !like("if §.terminalError != nil { select { case §.inProgressErr <- §.terminalError: case <-§.ctx.Done(): } }", s) {
					die(st.Pos(), "terminateRequest: terminal error send not understood: %s", s)
				}
				stages = append(stages, "sendTerminalError")
			case like("§.connManager.Unprotect(§.p, §.Tag())", s):
				stages = append(stages, "unprotect")
			case like("delete(§.inProgressRequestStatuses, §)", s):
				stages = append(stages, "delete")
			case like("§.cancelFn()", s):
				stages = append(stages, "cancelFn")
			case likePrefix("if §.reconciledLoader != nil { §.reconciledLoader.Cleanup(", s):
				stages = append(stages, "loaderCleanup")
			case likePrefix("if §.traverser != nil { §.traverserCancel() §.traverser.Shutdown(", s):
				stages = append(stages, "traverserShutdown")
			case like("select { case <-§.ctx.Done(): return default: }", s):
				stages = append(stages, "shutdownCheck")
			case like("close(§.inProgressChan)", s):
				stages = append(stages, "closeProgress")
			case like("close(§.inProgressErr)", s):
				stages = append(stages, "closeErrors")
			case likePrefix("for _, § := range §.onTerminated {", s):
				if !likeAnywhere("case § <- nil:", s) {
					die(st.Pos(), "terminateRequest: onTerminated loop not understood")
				}
				stages = append(stages, "notifyTerminated")
			default:
				die(st.Pos(), "terminateRequest: statement not understood: %s", s)
			}
		}
	}

	// ---- processTerminations
	{
		fd := findMethod(f, "processTerminations")
		s := src(fd.Body)
		want := "{ for _, § := range § { if §.Status().IsTerminal() { if §.Status().IsFailure() { §.cancelOnError(§.RequestID(), §.inProgressRequestStatuses[§.RequestID()], §.Status().AsError()) } §, § := §.inProgressRequestStatuses[§.RequestID()] if § && §.reconciledLoader != nil { §.reconciledLoader.SetRemoteOnline(false) } } } }"
		if !like(want, s) {
			die(fd.Pos(), "processTerminations: body not understood: %s", s)
		}
	}

	// ---- processResponses: which responses reach the response hooks
	var hookScope string
	{
		fd := findMethod(f, "processResponses")
		var calls []string
		ast.Inspect(fd.Body, func(n ast.Node) bool {
			if c, ok := n.(*ast.CallExpr); ok {
				if sel, ok := c.Fun.(*ast.SelectorExpr); ok {
					switch sel.Sel.Name {
					case "dropResponsesForOtherPeers", "filterResponsesForPeer", "processExtensions", "updateLastResponses", "IngestResponse", "processTerminations":
						calls = append(calls, sel.Sel.Name)
					}
				}
			}
			return true
		})
		switch strings.Join(calls, ",") {
		case "processExtensions,filterResponsesForPeer,updateLastResponses,IngestResponse,processTerminations":
			hookScope = "all"
		case "filterResponsesForPeer,processExtensions,updateLastResponses,IngestResponse,processTerminations":
			hookScope = "tracked"
		case "dropResponsesForOtherPeers,processExtensions,filterResponsesForPeer,updateLastResponses,IngestResponse,processTerminations":
			hookScope = "notForeign"
			dd := findMethod(f, "dropResponsesForOtherPeers")
			want := "{ § := make([]gsmsg.GraphSyncResponse, 0, len(§)) for _, § := range § { §, § := §.inProgressRequestStatuses[§.RequestID()] if § && §.p != § { continue } § = append(§, §) } return § }"
			if !like(want, src(dd.Body)) {
				die(dd.Pos(), "dropResponsesForOtherPeers: body not understood: %s", src(dd.Body))
			}
		default:
			die(fd.Pos(), "processResponses: stage order not understood: %s", strings.Join(calls, ","))
		}
		// the full filter: unknown request or other peer dropped
		ff := findMethod(f, "filterResponsesForPeer")
		if !likeAnywhere("if !§ || §.p != § { continue }", src(ff.Body)) {
			die(ff.Pos(), "filterResponsesForPeer: filter condition not understood")
		}
	}

	// ---- cancelRequest: always sends the cancel message to the request's own peer, before cancelOnError
	{
		fd := findMethod(f, "cancelRequest")
		s := src(fd.Body)
		if !likeAnywhere("§.SendRequest(§.p, gsmsg.NewCancelRequest(§)) §.cancelOnError(§, §, §) }", s) || !strings.HasSuffix(s, ") }") {
			die(fd.Pos(), "cancelRequest: tail not understood: %s", s)
		}
	}

	// ---- executor.traverse: the go-online block
	var goOnlineChecksCtx bool
	{
		epath := filepath.Join(os.Args[1], "requestmanager", "executor", "executor.go")
		ef, err := parser.ParseFile(fset, epath, nil, parser.SkipObjectResolution)
		if err != nil {
			die(token.NoPos, "parse %s: %v", epath, err)
		}
		fd := findMethod(ef, "traverse")
		found := false
		ast.Inspect(fd.Body, func(n ast.Node) bool {
			ifs, ok := n.(*ast.IfStmt)
			if !ok || ifs.Init == nil || !strings.Contains(src(ifs.Init), "result.Err.(graphsync.RemoteMissingBlockErr)") {
				return true
			}
			found = true
			if !like("§ && !§", src(ifs.Cond)) {
				die(ifs.Pos(), "traverse: go-online condition not understood: %s", src(ifs.Cond))
			}
			var st []string
			for _, x := range ifs.Body.List {
				st = append(st, src(x))
			}
			base := []string{"§ = true", "§.ReconciledLoader.SetRemoteOnline(true)",
				"if § := §.startRemoteRequest(§); § != nil { return § }", "§ = §.ReconciledLoader.RetryLastLoad()"}
			check := "select { case <-§.Ctx.Done(): §.ReconciledLoader.SetRemoteOnline(false) return ipldutil.ContextCancelError{} default: }"
			switch {
			case len(st) == 4 && like(base[0], st[0]) && like(base[1], st[1]) && like(base[2], st[2]) && like(base[3], st[3]):
				goOnlineChecksCtx = false
			case len(st) == 5 && like(base[0], st[0]) && like(base[1], st[1]) && like(check, st[2]) && like(base[2], st[3]) && like(base[3], st[4]):
				goOnlineChecksCtx = true
			default:
				die(ifs.Pos(), "traverse: go-online block not understood: %s", strings.Join(st, " ; "))
			}
			return false
		})
		if !found {
			die(fd.Pos(), "traverse: no `if _, ok := result.Err.(graphsync.RemoteMissingBlockErr); ok && !requestSent` block")
		}
		// ExecuteTask tail
		et := findMethod(ef, "ExecuteTask")
		tail := src(et.Body)
		want := "§ := §.traverse§(§) if § != nil { §.RecordError(§) if !ipldutil.IsContextCancelErr(§) { §.manager.SendRequest(§.P, gsmsg.NewCancelRequest(§.Request.ID())) §.ReconciledLoader.SetRemoteOnline(false) if !isPausedErr(§) { §.SetStatus(codes.Error, §.Error()) select { case <-§.Ctx.Done(): case §.InProgressErr <- §: } } } } §.manager.ReleaseRequestTask(§, §, §)"
		if !(likeAnywhere(want, tail) || likeAnywhere(strings.Replace(want, "§.traverse§(§)", "§.traverse(§)", 1), tail)) {
			die(et.Pos(), "ExecuteTask: tail not understood")
		}
	}

	var b strings.Builder
	b.WriteString("/-\nGENERATED by translate/reqlifecycle from requestmanager/server.go -- do not edit.\n")
	b.WriteString("Guards and stage order of the request life cycle (server.go: releaseRequestTask, cancelOnError,\nterminateRequest, processTerminations, cancelRequest; executor.go: traverse, ExecuteTask).\n-/\n")
	b.WriteString("namespace GS.Generated.ReqLifecycleSpec\n\n")
	b.WriteString("/-- releaseRequestTask keeps a request Paused on ErrPaused only if its context is not cancelled\n    (`ok && ipr.ctx.Err() == nil`); `false` = the guard is just `ok`. -/\n")
	fmt.Fprintf(&b, "def releasePauseGuardChecksCtx : Bool := %v\n\n", pauseGuardChecksCtx)
	b.WriteString("/-- executor.traverse re-checks the request context after SetRemoteOnline(true) and before\n    contacting the remote (`select { case <-rt.Ctx.Done(): SetRemoteOnline(false); return ContextCancelError{} default: }`) -/\n")
	fmt.Fprintf(&b, "def goOnlineChecksCtx : Bool := %v\n\n", goOnlineChecksCtx)
	b.WriteString("/-- which responses of a message reach the response hooks (processExtensions) in processResponses:\n    `all` = hooks run first on everything; `notForeign` = after dropResponsesForOtherPeers (dropped: the request\n    is in progress with a DIFFERENT peer); `tracked` = after filterResponsesForPeer (request tracked, same peer).\n    In every variant filterResponsesForPeer runs before the responses are ingested. -/\n")
	b.WriteString("inductive HookScope where | all | notForeign | tracked\nderiving DecidableEq, Repr\n\n")
	fmt.Fprintf(&b, "def hookScope : HookScope := HookScope.%s\n\n", hookScope)
	b.WriteString("/-- the stages of terminateRequest in source order -/\n")
	b.WriteString("def terminateStages : List String :=\n  [")
	for i, s := range stages {
		if i > 0 {
			b.WriteString(", ")
		}
		fmt.Fprintf(&b, "%q", s)
	}
	b.WriteString("]\n\n")
	b.WriteString("/-- cancelOnError: `if terminalError == nil { terminalError = e }; if state != Running { terminate } else { cancelFn(); SetRemoteOnline(false) }` (shape checked by the translator) -/\n")
	b.WriteString("def cancelOnErrorShapeChecked : Bool := true\n")
	b.WriteString("/-- processTerminations: `IsTerminal { IsFailure { cancelOnError(.., AsError()) }; if still tracked && loader != nil { SetRemoteOnline(false) } }` (shape checked) -/\n")
	b.WriteString("def processTerminationsShapeChecked : Bool := true\n")
	b.WriteString("/-- cancelRequest: cancel message to the request's own peer, then cancelOnError (shape checked) -/\n")
	b.WriteString("def cancelRequestShapeChecked : Bool := true\n\n")
	b.WriteString("end GS.Generated.ReqLifecycleSpec\n")
	fmt.Print(b.String())
}
