import GSProofs.Lemmas.ReqLifeInvMgr
/-!
Task-queue layer of the request life-cycle invariant (property C23, requestor side).

The model (`GS/Model/ReqLifecycle.lean`) carries the request's task in the `WorkerTaskQueue` as two counters:
`tqPending` (PushTask: newRequest / unpause; PopTasks moves it to active) and `tqActive` (TaskDone:
requestTask on an untracked request, releaseRequestTask).  `QInv` ties the counters to the worker phase and to
the manager's request state; it is inductive on top of `Inv` (ReqLifeInv.lean).
-/
namespace GS.ReqLife
open GS.Generated

/-- the worker has popped the task and the manager has not yet answered GetRequestTask -/
def inHandoff : WPhase → Bool
  | .popped | .waitTask => true
  | _ => false

/-- ReleaseRequestTask is on its way (TaskDone not yet called by the manager) -/
def relHeld : WPhase → MPhase → Bool
  | .waitDone, m => !replyPending m
  | _, _ => false

structure QInv (s : State) : Prop where
  /-- the task is active exactly from PopTasks to the manager's TaskDone -/
  qa : s.tqActive = if (inHandoff s.w || execActive s.w || relHeld s.w s.mphase) = true then 1 else 0
  /-- at most one task of this request exists outside the executor -/
  qp : s.tqPending + (if inHandoff s.w = true then 1 else 0) ≤ 1
  /-- a Queued request has its task pending or just popped -/
  qq : s.reg = .live → s.rstate = .queued → s.tqPending + (if inHandoff s.w = true then 1 else 0) = 1
  /-- a Running or Paused request has no pending task -/
  qn : s.reg = .live → s.rstate ≠ .queued → s.tqPending = 0 ∧ inHandoff s.w = false
  /-- a Paused request is not with the worker -/
  qz : s.reg = .live → s.rstate = .paused → s.w = .idle
  /-- while ReleaseRequestTask is under way the request is still Running -/
  qw : s.reg = .live → s.w = .waitDone → s.rstate = .running

theorem qinv_init (p e t : Nat) : QInv (init p e t) := by
  constructor <;> simp [init, execActive, inHandoff, relHeld]

macro "qinv_close" : tactic =>
  `(tactic| (constructor <;> grind [execActive, needsLoad, replyPending, inHandoff, relHeld, isGet, isRel,
      finishTerminate]))

macro "qinv_destruct" h:ident q:ident : tactic =>
  `(tactic| (
    obtain ⟨qa, qp, qq, qn, qz, qw⟩ := $q
    have k3 := Inv.k3 $h
    have k4 := Inv.k4 $h
    have j := Inv.j $h
    have l := Inv.l $h
    have b := Inv.b $h))

/-- uniform script for the actions that are not manager steps or rendezvous -/
macro "qinv_step" : tactic =>
  `(tactic| (
    rename_i h q hs
    qinv_destruct h q
    simp only [step, env, pushMsg, sendRelease, pauseCheck, dataLoaded, loadFailed, afterVisit,
      Option.map_eq_some_iff] at hs
    (repeat' split at hs) <;> (first | (cases hs; done) | (obtain ⟨_, hs1, hs2⟩ := hs; simp at hs1; subst hs2; qinv_close) | (cases hs; qinv_close))))

theorem qinv_envNew {s s' : State} (h : Inv s) (q : QInv s) (hs : step s .envNew = some s') : QInv s' := by qinv_step
theorem qinv_envCtxCancel {s s' : State} (h : Inv s) (q : QInv s) (hs : step s .envCtxCancel = some s') : QInv s' := by qinv_step
theorem qinv_envCancelApi {s s' : State} (h : Inv s) (q : QInv s) (hs : step s .envCancelApi = some s') : QInv s' := by qinv_step
theorem qinv_envPause {s s' : State} (h : Inv s) (q : QInv s) (hs : step s .envPause = some s') : QInv s' := by qinv_step
theorem qinv_envUnpause {s s' : State} (h : Inv s) (q : QInv s) (hs : step s .envUnpause = some s') : QInv s' := by qinv_step
theorem qinv_envResp {s s' : State} {p st it : Nat} {hk : Bool} (h : Inv s) (q : QInv s) (hs : step s (.envResp p st it hk) = some s') : QInv s' := by qinv_step
theorem qinv_oblUnpause {s s' : State} (h : Inv s) (q : QInv s) (hs : step s .oblUnpause = some s') : QInv s' := by qinv_step
theorem qinv_oblAnswer {s s' : State} (h : Inv s) (q : QInv s) (hs : step s .oblAnswer = some s') : QInv s' := by qinv_step
theorem qinv_wPop {s s' : State} (h : Inv s) (q : QInv s) (hs : step s .wPop = some s') : QInv s' := by qinv_step
theorem qinv_wGet {s s' : State} (h : Inv s) (q : QInv s) (hs : step s .wGet = some s') : QInv s' := by qinv_step
theorem qinv_xTop {s s' : State} (h : Inv s) (q : QInv s) (hs : step s .xTop = some s') : QInv s' := by qinv_step
theorem qinv_xConsume {s s' : State} {c : Nat} (h : Inv s) (q : QInv s) (hs : step s (.xConsume c) = some s') : QInv s' := by qinv_step
theorem qinv_xWaitRemote {s s' : State} {d : Bool} {v : Nat} {m : Bool} (h : Inv s) (q : QInv s) (hs : step s (.xWaitRemote d v m) = some s') : QInv s' := by qinv_step
theorem qinv_xWaitLocal {s s' : State} (h : Inv s) (q : QInv s) (hs : step s .xWaitLocal = some s') : QInv s' := by qinv_step
theorem qinv_xRead {s s' : State} {hit : Bool} {v : Nat} {m : Bool} (h : Inv s) (q : QInv s) (hs : step s (.xRead hit v m) = some s') : QInv s' := by qinv_step
theorem qinv_xHook {s s' : State} {r : HookRes} (h : Inv s) (q : QInv s) (hs : step s (.xHook r) = some s') : QInv s' := by qinv_step
theorem qinv_xErrCtx {s s' : State} (h : Inv s) (q : QInv s) (hs : step s .xErrCtx = some s') : QInv s' := by qinv_step
theorem qinv_xAfterErr {s s' : State} {o : SkipOut} (h : Inv s) (q : QInv s) (hs : step s (.xAfterErr o) = some s') : QInv s' := by qinv_step
theorem qinv_xSendReq {s s' : State} (h : Inv s) (q : QInv s) (hs : step s .xSendReq = some s') : QInv s' := by qinv_step
theorem qinv_xFin1 {s s' : State} (h : Inv s) (q : QInv s) (hs : step s .xFin1 = some s') : QInv s' := by qinv_step
theorem qinv_xFinCtx {s s' : State} (h : Inv s) (q : QInv s) (hs : step s .xFinCtx = some s') : QInv s' := by qinv_step
theorem qinv_cpRecv {s s' : State} (h : Inv s) (q : QInv s) (hs : step s .cpRecv = some s') : QInv s' := by qinv_step
theorem qinv_cpDrainP {s s' : State} (h : Inv s) (q : QInv s) (hs : step s .cpDrainP = some s') : QInv s' := by qinv_step
theorem qinv_cpSeeClose {s s' : State} (h : Inv s) (q : QInv s) (hs : step s .cpSeeClose = some s') : QInv s' := by qinv_step
theorem qinv_cpDeliver {s s' : State} (h : Inv s) (q : QInv s) (hs : step s .cpDeliver = some s') : QInv s' := by qinv_step
theorem qinv_cpExit {s s' : State} (h : Inv s) (q : QInv s) (hs : step s .cpExit = some s') : QInv s' := by qinv_step
theorem qinv_cpSeeCtx {s s' : State} (h : Inv s) (q : QInv s) (hs : step s .cpSeeCtx = some s') : QInv s' := by qinv_step
theorem qinv_cpSendCancel {s s' : State} (h : Inv s) (q : QInv s) (hs : step s .cpSendCancel = some s') : QInv s' := by qinv_step
theorem qinv_cpSeeCloseP {s s' : State} (h : Inv s) (q : QInv s) (hs : step s .cpSeeCloseP = some s') : QInv s' := by qinv_step
theorem qinv_cpSeeCloseE {s s' : State} (h : Inv s) (q : QInv s) (hs : step s .cpSeeCloseE = some s') : QInv s' := by qinv_step
theorem qinv_cpCancelExit {s s' : State} (h : Inv s) (q : QInv s) (hs : step s .cpCancelExit = some s') : QInv s' := by qinv_step
theorem qinv_ceSeeClose {s s' : State} (h : Inv s) (q : QInv s) (hs : step s .ceSeeClose = some s') : QInv s' := by qinv_step
theorem qinv_ceDeliver {s s' : State} (h : Inv s) (q : QInv s) (hs : step s .ceDeliver = some s') : QInv s' := by qinv_step
theorem qinv_ceExit {s s' : State} (h : Inv s) (q : QInv s) (hs : step s .ceExit = some s') : QInv s' := by qinv_step
theorem qinv_ceSeeCtx {s s' : State} (h : Inv s) (q : QInv s) (hs : step s .ceSeeCtx = some s') : QInv s' := by qinv_step
theorem qinv_ceDeliverCC {s s' : State} (h : Inv s) (q : QInv s) (hs : step s .ceDeliverCC = some s') : QInv s' := by qinv_step

/-- the sender side of a rendezvous on `inProgressErr` keeps the queue invariant -/
theorem qinv_errSender {s s1 : State} {e : Err} (h : Inv s) (q : QInv s) (hs : errSender s = some (e, s1)) :
    QInv s1 := by
  qinv_destruct h q
  simp only [errSender] at hs
  split at hs
  next e' rw hm => cases hs; qinv_close
  next hm =>
    split at hs
    next fatal hw => cases hs; qinv_close
    next e' hw => cases hs; simp only [sendRelease, pushMsg]; qinv_close
    next => cases hs

/-- `QInv` does not mention the collectors or the panic flag -/
theorem qinv_frame {s : State} (q : QInv s) (cp : CPPhase) (ce : CEPhase) (p : Bool) :
    QInv { s with cp := cp, ce := ce, panicked := p } := by
  obtain ⟨qa, qp, qq, qn, qz, qw⟩ := q
  constructor <;> assumption

theorem qinv_ceRecv {s s' : State} (h : Inv s) (q : QInv s) (hs : step s .ceRecv = some s') : QInv s' := by
  simp only [step] at hs
  split at hs
  next buf e s1 hce hsnd =>
    cases hs
    have q1 := qinv_errSender h q hsnd
    exact qinv_frame q1 s1.cp _ _
  next => cases hs

theorem qinv_cpDrainE {s s' : State} (h : Inv s) (q : QInv s) (hs : step s .cpDrainE = some s') : QInv s' := by
  simp only [step] at hs
  split at hs
  next sent pO e s1 hcp hsnd =>
    cases hs
    have q1 := qinv_errSender h q hsnd
    exact qinv_frame q1 _ s1.ce _
  next => cases hs

/-! ### the manager step -/

/-- what a handler that is not a task message can do to the fields `QInv` talks about: nothing, or
    start / finish terminating a request that is not Running -/
def MgrFrame (s s' : State) : Prop :=
  s'.w = s.w ∧ s'.tqActive = s.tqActive ∧ s'.tqPending = s.tqPending ∧ s'.rstate = s.rstate ∧
  ((s'.reg = s.reg ∧ s'.mphase = s.mphase) ∨
   (s.reg = .live ∧ s.rstate ≠ .running ∧ s'.reg = .live ∧ ∃ e, s'.mphase = .termSend e false) ∨
   (s.reg = .live ∧ s.rstate ≠ .running ∧ s'.reg = .gone ∧ s'.mphase = .idle))

theorem qinv_of_frame {s s' : State} (q : QInv s) (hm : s.mphase = .idle) (f : MgrFrame s s') : QInv s' := by
  obtain ⟨qa, qp, qq, qn, qz, qw⟩ := q
  obtain ⟨f1, f2, f3, f4, f5⟩ := f
  constructor <;> grind [replyPending, relHeld, inHandoff, execActive]

theorem frame_cancelOnError {s : State} {e : Option Err} (hl : s.reg = .live) :
    MgrFrame s (cancelOnError s e) := by
  simp only [cancelOnError, terminate, finishTerminate, MgrFrame]
  have hrs := rstate_cases s
  (repeat' split) <;> grind

theorem frame_trans_eq {s s1 s2 : State} (h1 : s1.w = s.w ∧ s1.tqActive = s.tqActive ∧ s1.tqPending = s.tqPending ∧
    s1.rstate = s.rstate ∧ s1.reg = s.reg ∧ s1.mphase = s.mphase) (f : MgrFrame s1 s2) : MgrFrame s s2 := by
  obtain ⟨a, b, c, d, e, g⟩ := h1
  unfold MgrFrame at *
  grind

theorem frame_refl_eq {s s1 : State} (h1 : s1.w = s.w ∧ s1.tqActive = s.tqActive ∧ s1.tqPending = s.tqPending ∧
    s1.rstate = s.rstate ∧ s1.reg = s.reg ∧ s1.mphase = s.mphase) : MgrFrame s s1 := by
  obtain ⟨a, b, c, d, e, g⟩ := h1
  unfold MgrFrame
  grind

theorem frame_offline {s s' : State} (f : MgrFrame s s') : MgrFrame s { s' with online := false } := f

theorem frame_cancelLive {s : State} {api : Bool} (hl : s.reg = .live) : MgrFrame s (cancelLive s api) := by
  unfold cancelLive
  cases api
  · exact frame_trans_eq (by simp) (frame_cancelOnError (by simp [hl]))
  · exact frame_trans_eq (by simp) (frame_cancelOnError (by simp [hl]))

theorem frame_cancel {s : State} {api : Bool} : MgrFrame s (handle s (.cancel api)) := by
  by_cases hl : s.reg = .live
  · have hl2 : (s.reg != .live) = false := by simpa using hl
    simp only [handle, hl2, Bool.false_eq_true, if_false]
    exact frame_cancelLive hl
  · have hl2 : (s.reg != .live) = true := by simpa using hl
    simp only [handle, hl2, if_true]
    split <;> exact frame_refl_eq (by simp)

theorem frame_pause {s : State} : MgrFrame s (handle s .pause) := by
  simp only [handle]
  (repeat' split) <;> exact frame_refl_eq (by simp)

/-- (no `by` blocks nested in `exact` here: inside `first` their errors would be recovered, not backtracked) -/
macro "frame_tac" hl:ident : tactic =>
  `(tactic| first
    | (refine frame_refl_eq ?_; simp; done)
    | (refine frame_trans_eq ?_ (frame_cancelOnError ?_) <;> simp [$hl:ident]; done)
    | (refine frame_offline (s' := cancelOnError _ _) ?_
       refine frame_trans_eq ?_ (frame_cancelOnError ?_) <;> simp [$hl:ident]; done)
    | (refine frame_offline ?_; refine frame_refl_eq ?_; simp; done)
    | (exfalso; simp_all; done))

theorem frame_responses {s : State} {p st it : Nat} {hk : Bool} :
    MgrFrame s (handle s (.responses p st it hk)) := by
  simp only [handle, hookCancel, ingest, procTerminations]
  by_cases hl : s.reg = .live
  · have hl1 : (s.reg == .live) = true := by simpa using hl
    have hl2 : (s.reg != .live) = false := by simpa using hl
    simp only [hl1, hl2]
    (repeat' split) <;> frame_tac hl
  · have hl1 : (s.reg == .live) = false := by simpa using hl
    have hl2 : (s.reg != .live) = true := by simpa using hl
    simp only [hl1, hl2]
    (repeat' split) <;> frame_tac hl

theorem qinv_mgr_newReq {s : State} {rest : List Msg} (h : Inv s) (q : QInv s) :
    QInv (handle { s with mbox := rest } .newReq) := by
  qinv_destruct h q
  have hreg := reg_cases s
  simp only [handle]
  split <;> qinv_close

theorem qinv_mgr_unpause {s : State} {rest : List Msg} (h : Inv s) (q : QInv s) :
    QInv (handle { s with mbox := rest } .unpause) := by
  qinv_destruct h q
  have hrs := rstate_cases s
  simp only [handle]
  (repeat' split) <;> qinv_close

theorem qinv_mgr_getTask {s : State} {rest : List Msg} (h : Inv s) (q : QInv s)
    (hb : s.mbox = .getTask :: rest) : QInv (handle { s with mbox := rest } .getTask) := by
  have hw : s.w = .waitTask := by
    have k1 := h.k1
    rw [hb] at k1; simp only [List.countP_cons, isGet] at k1
    by_cases hw : s.w = .waitTask
    · exact hw
    · simp [hw] at k1
  qinv_destruct h q
  have hrs := rstate_cases s
  simp only [handle]
  (repeat' split) <;> qinv_close

theorem qinv_mgr_release {s : State} {rest : List Msg} {e : RelErr} (h : Inv s) (q : QInv s)
    (hm : s.mphase = .idle) (hb : s.mbox = .release e :: rest) :
    QInv (handle { s with mbox := rest } (.release e)) := by
  have hw : s.w = .waitDone := by
    have k2 := h.k2
    rw [hb] at k2; simp only [List.countP_cons, isRel] at k2
    by_cases hw : s.w = .waitDone
    · exact hw
    · simp [hw] at k2
  qinv_destruct h q
  have hrs := rstate_cases s
  simp only [handle, terminate]
  (repeat' split) <;> qinv_close

theorem qinv_mbox {s : State} (q : QInv s) (rest : List Msg) : QInv { s with mbox := rest } := by
  obtain ⟨qa, qp, qq, qn, qz, qw⟩ := q
  constructor <;> assumption

theorem qinv_mgr {s s' : State} (h : Inv s) (q : QInv s) (hs : step s .mgr = some s') : QInv s' := by
  simp only [step] at hs
  split at hs
  next m rest hm hb =>
    cases hs
    cases m with
    | newReq => exact qinv_mgr_newReq h q
    | cancel api => exact qinv_of_frame (qinv_mbox q rest) hm frame_cancel
    | responses p st it hk => exact qinv_of_frame (qinv_mbox q rest) hm frame_responses
    | pause => exact qinv_of_frame (qinv_mbox q rest) hm frame_pause
    | unpause => exact qinv_mgr_unpause h q
    | getTask => exact qinv_mgr_getTask h q hb
    | release e => exact qinv_mgr_release h q hm hb
  next => cases hs

/-- **the queue invariant is inductive** on top of `Inv`. -/
theorem qinv_step {s s' : State} {a : Action} (h : Inv s) (q : QInv s) (hs : step s a = some s') : QInv s' := by
  cases a with
  | envNew => exact qinv_envNew h q hs
  | envCtxCancel => exact qinv_envCtxCancel h q hs
  | envCancelApi => exact qinv_envCancelApi h q hs
  | envPause => exact qinv_envPause h q hs
  | envUnpause => exact qinv_envUnpause h q hs
  | envResp p st it hk => exact qinv_envResp h q hs
  | oblUnpause => exact qinv_oblUnpause h q hs
  | oblAnswer => exact qinv_oblAnswer h q hs
  | mgr => exact qinv_mgr h q hs
  | wPop => exact qinv_wPop h q hs
  | wGet => exact qinv_wGet h q hs
  | xTop => exact qinv_xTop h q hs
  | xConsume c => exact qinv_xConsume h q hs
  | xWaitRemote d v m => exact qinv_xWaitRemote h q hs
  | xWaitLocal => exact qinv_xWaitLocal h q hs
  | xRead hit v m => exact qinv_xRead h q hs
  | xHook r => exact qinv_xHook h q hs
  | xErrCtx => exact qinv_xErrCtx h q hs
  | xAfterErr o => exact qinv_xAfterErr h q hs
  | xSendReq => exact qinv_xSendReq h q hs
  | xFin1 => exact qinv_xFin1 h q hs
  | xFinCtx => exact qinv_xFinCtx h q hs
  | ceRecv => exact qinv_ceRecv h q hs
  | cpDrainE => exact qinv_cpDrainE h q hs
  | cpRecv => exact qinv_cpRecv h q hs
  | cpDrainP => exact qinv_cpDrainP h q hs
  | cpSeeClose => exact qinv_cpSeeClose h q hs
  | cpDeliver => exact qinv_cpDeliver h q hs
  | cpExit => exact qinv_cpExit h q hs
  | cpSeeCtx => exact qinv_cpSeeCtx h q hs
  | cpSendCancel => exact qinv_cpSendCancel h q hs
  | cpSeeCloseP => exact qinv_cpSeeCloseP h q hs
  | cpSeeCloseE => exact qinv_cpSeeCloseE h q hs
  | cpCancelExit => exact qinv_cpCancelExit h q hs
  | ceSeeClose => exact qinv_ceSeeClose h q hs
  | ceDeliver => exact qinv_ceDeliver h q hs
  | ceExit => exact qinv_ceExit h q hs
  | ceSeeCtx => exact qinv_ceSeeCtx h q hs
  | ceDeliverCC => exact qinv_ceDeliverCC h q hs

theorem qinv_reachable (hf1 : ReqLifecycleSpec.releasePauseGuardChecksCtx = true)
    (hf2 : ReqLifecycleSpec.goOnlineChecksCtx = true) {s : State} (h : Reachable s) : Inv s ∧ QInv s := by
  induction h with
  | init p e t => exact ⟨inv_init p e t, qinv_init p e t⟩
  | step _ hs ih => exact ⟨inv_step hf1 hf2 ih.1 hs, qinv_step ih.1 ih.2 hs⟩

/-! ### the observables of C23 (requestor side), as functions of the model state -/

/-- what `RequestManager.PeerState` reports for the request (`RequestStates[id]`): the state of its
    `inProgressRequestStatus` while the manager tracks it, nothing before `newRequest` was handled and
    nothing after `terminateRequest` deleted it.  This is the projection the correspondence driver prints
    (`GS.Driver.ReqLife.psStr`: `ps:queued|running|paused|none`) and the check compares with the real manager. -/
def reportedState (s : State) : Option RState := if s.reg = .live then some s.rstate else none

/-- the request's id is in `TaskQueueState.Pending` (the driver's `p=`) -/
def taskPending (s : State) : Prop := 0 < s.tqPending

/-- the request's id is in `TaskQueueState.Active` (the driver's `a=`) -/
def taskActive (s : State) : Prop := 0 < s.tqActive

/-- a pending task whose request is no longer tracked (the request ended while it was Queued) -/
def staleTask (s : State) : Prop := s.reg = .gone ∧ 0 < s.tqPending

/-- quiescent as far as the request's state and task are concerned: no manager message in flight (mailbox
    empty, the manager not blocked inside a handler), the worker not between `PopTasks` and the manager's
    answer to `GetRequestTask` (`popped`, `waitTask`), no `ReleaseRequestTask` in flight (`waitDone`).
    The worker may be idle or parked anywhere inside the executor. -/
def Quiescent (s : State) : Prop :=
  s.mbox = [] ∧ s.mphase = .idle ∧ s.w ≠ .popped ∧ s.w ≠ .waitTask ∧ s.w ≠ .waitDone

instance (s : State) : Decidable (Quiescent s) := by unfold Quiescent; infer_instance
instance (s : State) : Decidable (taskPending s) := by unfold taskPending; infer_instance
instance (s : State) : Decidable (taskActive s) := by unfold taskActive; infer_instance
instance (s : State) : Decidable (staleTask s) := by unfold staleTask; infer_instance

/-- agreement of the reported state with the task queue, from the two invariants; only the part of
    `Quiescent` that concerns hand-overs between worker and manager is needed (`mbox = []` is not). -/
theorem agree_of_inv {s : State} (h : Inv s) (q : QInv s) (hm : s.mphase = .idle) (h1 : s.w ≠ .popped)
    (h2 : s.w ≠ .waitTask) (h3 : s.w ≠ .waitDone) :
    (reportedState s = some .queued ↔ (taskPending s ∧ ¬ staleTask s)) ∧
    (reportedState s = some .running ↔ taskActive s) ∧
    (reportedState s = some .paused → ¬ taskPending s ∧ ¬ taskActive s) ∧
    (reportedState s = none → ¬ taskActive s ∧ (taskPending s → staleTask s)) := by
  obtain ⟨qa, qp, qq, qn, qz, qw⟩ := q
  have j := h.j
  have j2 := h.j2
  have l := h.l
  have hreg := reg_cases s
  have hrs := rstate_cases s
  simp only [reportedState, taskPending, taskActive, staleTask]
  refine ⟨?_, ?_, ?_, ?_⟩ <;> grind [execActive, replyPending, inHandoff, relHeld]

/-- in every state the request has at most one pending and at most one active task -/
theorem queue_bounds_of_inv {s : State} (q : QInv s) : s.tqPending ≤ 1 ∧ s.tqActive ≤ 1 := by
  obtain ⟨qa, qp, qq, qn, qz, qw⟩ := q
  constructor
  · grind
  · rw [qa]; split <;> omega

/-! ### after the request has ended -/

theorem gone_handle {s : State} {m : Msg} (hg : s.reg = .gone) :
    (handle s m).reg = .gone ∧ (handle s m).tqPending = s.tqPending ∧ (handle s m).mphase = s.mphase := by
  have hl1 : (s.reg == .live) = false := by simp [hg]
  have hl2 : (s.reg != .live) = true := by simp [hg]
  have hl3 : (s.reg != .none) = true := by simp [hg]
  cases m <;> simp only [handle, hl1, hl2, hl3, Bool.false_and, if_true]
  all_goals (repeat' split) <;> simp_all

theorem gone_errSender {s s1 : State} {e : Err} (h : Inv s) (hg : s.reg = .gone) (hs : errSender s = some (e, s1)) :
    s1.reg = .gone ∧ s1.tqPending = s.tqPending := by
  have b := h.b
  have j := h.j
  simp only [errSender] at hs
  (repeat' split at hs) <;> (cases hs) <;> grind [execActive, sendRelease, pushMsg, finishTerminate]

/-- once the manager has deleted the request nothing pushes a task for it again -/
theorem gone_step {s s' : State} {a : Action} (h : Inv s) (hg : s.reg = .gone) (hs : step s a = some s') :
    s'.reg = .gone ∧ s'.tqPending ≤ s.tqPending := by
  cases a
  case mgr =>
    simp only [step] at hs
    split at hs
    next m rest hm hb =>
      cases hs
      have := gone_handle (s := { s with mbox := rest }) (m := m) hg
      grind
    next => cases hs
  case ceRecv =>
    simp only [step] at hs
    split at hs
    next buf e s1 hce hsnd => cases hs; have := gone_errSender h hg hsnd; grind
    next => cases hs
  case cpDrainE =>
    simp only [step] at hs
    split at hs
    next sent pO e s1 hcp hsnd => cases hs; have := gone_errSender h hg hsnd; grind
    next => cases hs
  all_goals
    simp only [step, env, pushMsg, sendRelease, pauseCheck, dataLoaded, loadFailed, afterVisit,
      Option.map_eq_some_iff] at hs
    (repeat' split at hs) <;> (first | (cases hs; done) | (obtain ⟨_, hs1, hs2⟩ := hs; simp at hs1; subst hs2; grind) | (cases hs; grind))

theorem gone_run {s s' : State} {acts : List Action} (h : Reachable s) (hi : ∀ {x}, Reachable x → Inv x)
    (hg : s.reg = .gone) (hr : run s acts = some s') : s'.reg = .gone ∧ s'.tqPending ≤ s.tqPending := by
  induction acts generalizing s with
  | nil => simp [run] at hr; subst hr; exact ⟨hg, Nat.le_refl _⟩
  | cons a as ih =>
    simp only [run] at hr
    cases hs : step s a with
    | none => simp [hs] at hr
    | some s1 =>
      simp [hs] at hr
      obtain ⟨g1, p1⟩ := gone_step (hi h) hg hs
      obtain ⟨g2, p2⟩ := ih (Reachable.step h hs) g1 hr
      exact ⟨g2, Nat.le_trans p2 p1⟩

end GS.ReqLife
