import GSProofs.Lemmas.MsgQueueOverlap
import GSProofs.Lemmas.MsgQueueLog2
/-!
# Message queue: this queue's OWN steps keep the ledger modulo the other queue's bytes

The step lemmas of MsgQueueLedger*.lean (`LInv`, one queue per peer) re-done for `OInv`.  The proofs are
the same; what changes is the coupling invariant (`CoupledO`: this queue's part of the allocator's
waiting list) and the ledger equation, which carries the slack

    `fg s + o0`  =  grants to the other queue's tickets recorded in the log since position `n0`
                    + what the other queue held at that position.

`Params` fixes `B` (ticket bound), `n0` (log position) and `o0`; they are constant along this queue's own
steps (only an `Act.env` release of the other queue lowers the ghost, and that is MsgQueueOverlap.lean).
-/
namespace GS.MQ.Ov
open GS.Alloc GS.MQ

class Params where
  B : Nat
  n0 : Nat
  o0 : Nat

variable [P : Params]

/-- grants to the other queue's tickets since log position `n0` -/
def fg (s : State) : Nat := amounts (forT P.B (grantsOf s.peer ((memOf s.log).drop P.n0)))

theorem memOf_map_of {α : Type} (f : α → Event) (hf : ∀ x, isMem (f x) = false) (l : List α) :
    memOf (l.map f) = [] :=
  memOf_nomem _ (fun e he => by obtain ⟨x, _, rfl⟩ := List.mem_map.mp he; exact hf x)

structure Coupled (s : State) : Prop where
  ainv : Alloc.Inv s.alloc
  pend : ownT P.B (pendTA s.alloc s.peer) = unanswered s.waiters
  nodupW : (s.waiters.map (·.ticket)).Nodup
  fresh : ∀ w ∈ s.waiters, w.ticket < s.nextTicket
  wsize : ∀ w ∈ s.waiters, w.tx.who = .response ∧ w.size = itemsSize w.tx.items
  bound : s.nextTicket ≤ P.B
  logn : P.n0 ≤ (memOf s.log).length

theorem Coupled.co {s : State} (h : Coupled s) : CoupledO P.B s :=
  ⟨h.ainv, h.pend, h.nodupW, h.fresh, h.wsize, h.bound⟩

theorem Coupled.of {s : State} (h : CoupledO P.B s) (hl : P.n0 ≤ (memOf s.log).length) : Coupled s :=
  ⟨h.ainv, h.pend, h.nodupW, h.fresh, h.wsize, h.bound, hl⟩

/-- what the publisher-only operations leave alone -/
structure Frame (s s' : State) : Prop where
  alloc : s'.alloc = s.alloc
  waiters : s'.waiters = s.waiters
  peer : s'.peer = s.peer
  nextTicket : s'.nextTicket = s.nextTicket
  builders : s'.builders = s.builders
  pc : s'.pc = s.pc
  closedStreams : s'.closedStreams = s.closedStreams
  maxRetries : s'.maxRetries = s.maxRetries
  nextTopic : s'.nextTopic = s.nextTopic
  token : s'.token = s.token
  done : s'.done = s.done
  sender : s'.sender = s.sender
  mem : memOf s'.log = memOf s.log

theorem Frame.refl (s : State) : Frame s s := ⟨rfl, rfl, rfl, rfl, rfl, rfl, rfl, rfl, rfl, rfl, rfl, rfl, rfl⟩

theorem Frame.trans {a b c : State} (h1 : Frame a b) (h2 : Frame b c) : Frame a c :=
  ⟨h2.alloc.trans h1.alloc, h2.waiters.trans h1.waiters, h2.peer.trans h1.peer,
   h2.nextTicket.trans h1.nextTicket, h2.builders.trans h1.builders, h2.pc.trans h1.pc,
   h2.closedStreams.trans h1.closedStreams, h2.maxRetries.trans h1.maxRetries,
   h2.nextTopic.trans h1.nextTopic, h2.token.trans h1.token, h2.done.trans h1.done,
   h2.sender.trans h1.sender, h2.mem.trans h1.mem⟩

theorem emit_frame' (s : State) (evs : List Event) (h : memOf evs = []) : Frame s (s.emit evs) :=
  ⟨rfl, rfl, rfl, rfl, rfl, rfl, rfl, rfl, rfl, rfl, rfl, rfl, by
    show memOf (s.log ++ evs) = memOf s.log
    rw [memOf_append, h, List.append_nil]⟩

macro "mem_nil" : tactic =>
  `(tactic| first | rfl | exact memOf_map_of _ (fun _ => rfl) _)

theorem emit_frame (s : State) (evs : List Event) (h : memOf evs = [] := by mem_nil) : Frame s (s.emit evs) :=
  emit_frame' s evs h

theorem publish_frame (s : State) (t : Topic) (k : Kind) : Frame s (s.publish t k) := by
  unfold State.publish; split
  · exact Frame.refl s
  · exact emit_frame s _

theorem closeTopic_frame (s : State) (t : Topic) : Frame s (s.closeTopic t) := by
  unfold State.closeTopic; split
  · exact Frame.refl s
  · exact ⟨rfl, rfl, rfl, rfl, rfl, rfl, rfl, rfl, rfl, rfl, rfl, rfl, (emit_frame s _).mem⟩

theorem subscribe_frame (s : State) (t : Topic) (subs : List Sub) : Frame s (s.subscribe t subs) := by
  unfold State.subscribe; split
  · exact Frame.refl s
  · exact ⟨rfl, rfl, rfl, rfl, rfl, rfl, rfl, rfl, rfl, rfl, rfl, rfl, rfl⟩

theorem fg_frame {s s' : State} (f : Frame s s') : fg s' = fg s := by
  unfold fg; rw [f.mem, f.peer]

theorem Coupled.frame {s s' : State} (h : Coupled s) (f : Frame s s') : Coupled s' := by
  refine ⟨f.alloc ▸ h.ainv, ?_, f.waiters ▸ h.nodupW, ?_, f.waiters ▸ h.wsize, ?_, ?_⟩
  · rw [f.alloc, f.peer, f.waiters]; exact h.pend
  · rw [f.waiters, f.nextTicket]; exact h.fresh
  · rw [f.nextTicket]; exact h.bound
  · rw [f.mem]; exact h.logn

/-- `AllocatedForPeer p = X + (granted, not yet built) + (the other queue's bytes)` together with the coupling -/
def Led (s : State) (X : Nat) : Prop :=
  Coupled s ∧ tot s.alloc s.peer = X + grantedBytes s.waiters + (fg s + P.o0)

theorem Led.frame {s s' : State} {X : Nat} (h : Led s X) (f : Frame s s') : Led s' X :=
  ⟨h.1.frame f, by rw [f.alloc, f.peer, f.waiters, fg_frame f]; exact h.2⟩

/-- the log after an allocator call -/
theorem fg_allocStep (pick : Pick) {s : State} (hl : P.n0 ≤ (memOf s.log).length) (op : Alloc.Op) :
    fg (s.allocStep pick op).1 = fg s + amounts (forT P.B (grantsOf s.peer (Alloc.step pick s.alloc op).2)) ∧
    P.n0 ≤ (memOf (s.allocStep pick op).1.log).length := by
  have hlog : memOf (s.allocStep pick op).1.log = memOf s.log ++ (Alloc.step pick s.alloc op).2 := by
    show memOf (s.log ++ (Alloc.step pick s.alloc op).2.map Event.mem) = _
    rw [memOf_append, memOf_map_mem]
  constructor
  · unfold fg
    show amounts (forT P.B (grantsOf s.peer ((memOf (s.allocStep pick op).1.log).drop P.n0))) = _
    rw [hlog, List.drop_append_of_le_length hl, grantsOf_append]
    unfold forT
    rw [List.filter_append, amounts_append]
  · rw [hlog, List.length_append]; omega

/-- an allocator call by this queue that refuses none of its tickets -/
theorem allocStep_led {pick : Pick} (hp : Admissible pick) {s : State} (hc : Coupled s) (op : Alloc.Op)
    (hview : ownT P.B (grantsOf s.peer (Alloc.step pick s.alloc op).2) ++ ownT P.B (pendTA (Alloc.step pick s.alloc op).1 s.peer)
        = ownT P.B (pendTA s.alloc s.peer) ∧ failsOf s.peer (Alloc.step pick s.alloc op).2 = []) :
    Coupled (s.allocStep pick op).1 ∧
    tot (s.allocStep pick op).1.alloc s.peer + releasedSum s.peer (Alloc.step pick s.alloc op).2
        + grantedBytes s.waiters + fg s
      = tot s.alloc s.peer + grantedBytes (s.allocStep pick op).1.waiters + fg (s.allocStep pick op).1 := by
  obtain ⟨c1, c2⟩ := allocStep_coupledO hp hc.co op hview
  obtain ⟨g1, g2⟩ := fg_allocStep pick hc.logn op
  exact ⟨Coupled.of c1 g2, by rw [g1]; omega⟩

theorem Led.release {pick : Pick} (hp : Admissible pick) {s : State} {X : Nat} (h : Led s X) (n : Nat)
    (hn : n ≤ X) : Led (s.release pick n) (X - n) := by
  have hr := release_view hp h.1.ainv s.peer s.peer n
  obtain ⟨c1, c2⟩ := allocStep_led hp h.1 (.release s.peer n) ⟨by rw [← ownT_append, hr.1], hr.2.1⟩
  refine ⟨c1, ?_⟩
  have h3 := hr.2.2
  simp only [if_true] at h3
  have hle : n ≤ tot s.alloc s.peer := by have := h.2; omega
  rw [h3, Nat.min_eq_left hle] at c2
  show tot (s.allocStep pick (.release s.peer n)).1.alloc s.peer
    = X - n + grantedBytes (s.allocStep pick (.release s.peer n)).1.waiters + (fg (s.allocStep pick (.release s.peer n)).1 + P.o0)
  have := h.2
  omega

theorem Frame.q {s s' : State} (f : Frame s s') : QFrame s s' :=
  ⟨f.peer, f.builders, f.pc, f.closedStreams, f.maxRetries, f.nextTopic, f.nextTicket, f.token, f.done, f.sender⟩

/-! ## the queue goroutine's operations -/

section ops
variable {pick : Pick} (hp : Admissible pick)
include hp

/-- `publishError`: from "builders + this message are held" to "the remaining builders are held" -/
theorem publishError_led {s : State} {m : InFlight} (h : Led s (hb s.builders + m.size))
    (hbi : ∀ b ∈ s.builders, BInv b) :
    Led (s.publishError pick m) (hb (s.publishError pick m).builders) ∧
    (∀ b ∈ (s.publishError pick m).builders, BInv b) ∧
    (s.publishError pick m).pc = s.pc ∧ (s.publishError pick m).peer = s.peer ∧
    (s.publishError pick m).maxRetries = s.maxRetries ∧ (s.publishError pick m).done = s.done ∧
    (s.publishError pick m).sender = s.sender ∧ (s.publishError pick m).token = s.token ∧
    (s.publishError pick m).nextTopic = s.nextTopic ∧
    (s.publishError pick m).builders = (scrubAll m.streams s.builders).1 := by
  obtain ⟨sc1, sc2, _, _⟩ := scrubAll_spec m.streams s.builders hbi
  unfold State.publishError
  -- name the intermediate states
  generalize hs1 : ({ s with closedStreams := m.streams.foldl (fun acc r => if acc.contains r then acc else acc ++ [r]) s.closedStreams } : State) = s1
  have f1 : Frame s s1 ∨ True := Or.inr trivial
  have l1 : Led s1 (hb s.builders + m.size) := by
    subst hs1; exact ⟨⟨h.1.ainv, h.1.pend, h.1.nodupW, h.1.fresh, h.1.wsize, h.1.bound, h.1.logn⟩, h.2⟩
  have q1 : QFrame s s1 ∨ True := Or.inr trivial
  have e1 : s1.builders = s.builders ∧ s1.pc = s.pc ∧ s1.peer = s.peer ∧ s1.maxRetries = s.maxRetries ∧
      s1.done = s.done ∧ s1.sender = s.sender ∧ s1.token = s.token ∧ s1.nextTopic = s.nextTopic := by
    subst hs1; exact ⟨rfl, rfl, rfl, rfl, rfl, rfl, rfl, rfl⟩
  simp only
  generalize hs2 : s1.emit (m.streams.map Event.streamClosed) = s2
  have fr2 : Frame s1 s2 := by subst hs2; exact emit_frame _ _
  have l2 := l1.frame fr2
  rw [show s2.builders = s.builders from fr2.builders.trans e1.1]
  generalize hsc : scrubAll m.streams s.builders = sc at sc1 sc2
  obtain ⟨bs, freed⟩ := sc
  simp only at sc1 sc2 ⊢
  generalize hs3 : ({ s2 with builders := bs } : State) = s3
  have l3 : Led s3 (hb bs + freed + m.size) := by
    subst hs3
    refine ⟨⟨l2.1.ainv, l2.1.pend, l2.1.nodupW, l2.1.fresh, l2.1.wsize, l2.1.bound, l2.1.logn⟩, ?_⟩
    have := l2.2
    show tot s2.alloc s2.peer = _ + (fg _ + P.o0)
    rw [this, sc2]; rfl
  have e3 : s3.builders = bs ∧ s3.pc = s.pc ∧ s3.peer = s.peer ∧ s3.maxRetries = s.maxRetries ∧
      s3.done = s.done ∧ s3.sender = s.sender ∧ s3.token = s.token ∧ s3.nextTopic = s.nextTopic := by
    subst hs3
    exact ⟨rfl, fr2.pc.trans e1.2.1, fr2.peer.trans e1.2.2.1, fr2.maxRetries.trans e1.2.2.2.1,
      fr2.done.trans e1.2.2.2.2.1, fr2.sender.trans e1.2.2.2.2.2.1, fr2.token.trans e1.2.2.2.2.2.2.1,
      fr2.nextTopic.trans e1.2.2.2.2.2.2.2⟩
  generalize hs4 : (if freed > 0 then s3.release pick freed else s3) = s4
  have l4 : Led s4 (hb bs + m.size) ∧ QFrame s3 s4 := by
    subst hs4
    split
    · have := l3.release hp freed (by omega)
      exact ⟨by rw [show hb bs + freed + m.size - freed = hb bs + m.size by omega] at this; exact this,
        release_qframe _ _ _⟩
    · next hz =>
      have : freed = 0 := by omega
      subst this
      exact ⟨l3, QFrame.refl _⟩
  generalize hs5 : s4.publish m.topic Kind.error = s5
  have fr5 : Frame s4 s5 := by subst hs5; exact publish_frame _ _ _
  have l5 := l4.1.frame fr5
  have q5 : QFrame s3 s5 := l4.2.trans fr5.q
  have l6 := l5.release hp m.size (by omega)
  have q6 : QFrame s3 (s5.release pick m.size) := q5.trans (release_qframe _ _ _)
  rw [show hb bs + m.size - m.size = hb bs by omega] at l6
  refine ⟨by rw [q6.builders, e3.1]; exact l6, by rw [q6.builders, e3.1]; exact sc1,
    q6.pc.trans e3.2.1, q6.peer.trans e3.2.2.1, q6.maxRetries.trans e3.2.2.2.1,
    q6.done.trans e3.2.2.2.2.1, q6.sender.trans e3.2.2.2.2.2.1, q6.token.trans e3.2.2.2.2.2.2.1,
    q6.nextTopic.trans e3.2.2.2.2.2.2.2, q6.builders.trans e3.1⟩

end ops

/-- the ledger invariant (while the queue goroutine has not exited) -/
structure LInv (s : State) : Prop where
  led : Led s (hb s.builders + heldInFlight s)
  binv : ∀ b ∈ s.builders, BInv b

theorem LInv.ledger {s : State} (h : LInv s) : tot s.alloc s.peer = held s + (fg s + P.o0) := h.led.2

section ops
variable {pick : Pick} (hp : Admissible pick)
include hp

theorem publishSent_led {s : State} {m : InFlight} (h : Led s (hb s.builders + m.size)) :
    Led (s.publishSent pick m) (hb s.builders) ∧ QFrame s (s.publishSent pick m) := by
  unfold State.publishSent
  have f := publish_frame s m.topic Kind.sent
  have l1 := h.frame f
  have l2 := l1.release hp m.size (by omega)
  rw [show hb s.builders + m.size - m.size = hb s.builders by omega] at l2
  exact ⟨l2, f.q.trans (release_qframe _ _ _)⟩

omit hp in
theorem finish_spec (s : State) (m : InFlight) :
    (s.finish m).pc = .idle ∧ (s.finish m).builders = s.builders ∧
    (∀ X, Led s X → Led (s.finish m) X) := by
  have f := closeTopic_frame s m.topic
  refine ⟨rfl, f.builders, ?_⟩
  intro X h
  have := h.frame f
  exact ⟨⟨this.1.ainv, this.1.pend, this.1.nodupW, this.1.fresh, this.1.wsize, this.1.bound, this.1.logn⟩, this.2⟩

omit hp in
theorem heldInFlight_idle {s : State} (h : s.pc = .idle) : heldInFlight s = 0 := by
  unfold heldInFlight Pc.inflight; rw [h]

/-- after `publishError` + `finish` -/
theorem error_finish_linv {s : State} {m : InFlight} (h : Led s (hb s.builders + m.size))
    (hbi : ∀ b ∈ s.builders, BInv b) : LInv ((s.publishError pick m).finish m) := by
  obtain ⟨l, b, _⟩ := publishError_led hp h hbi
  obtain ⟨f1, f2, f3⟩ := finish_spec (s.publishError pick m) m
  refine ⟨?_, by rw [f2]; exact b⟩
  rw [f2, heldInFlight_idle f1, Nat.add_zero]
  exact f3 _ l

theorem attempt_linv {s : State} {m : InFlight} (i : Nat) (h : Led s (hb s.builders + m.size))
    (hbi : ∀ b ∈ s.builders, BInv b) : LInv (s.attempt pick m i) := by
  unfold State.attempt
  split
  · have f := emit_frame s [Event.wire m.topic i]
    have l := h.frame f
    refine ⟨?_, ?_⟩
    · show Led _ (hb (s.emit [Event.wire m.topic i]).builders + m.size)
      rw [f.builders]
      exact ⟨⟨l.1.ainv, l.1.pend, l.1.nodupW, l.1.fresh, l.1.wsize, l.1.bound, l.1.logn⟩, l.2⟩
    · show ∀ b ∈ (s.emit [Event.wire m.topic i]).builders, BInv b
      rw [f.builders]; exact hbi
  · exact error_finish_linv hp h hbi

omit hp in
/-- `extractOutgoingMessage` -/
theorem extract_spec {s : State} (hbi : ∀ b ∈ s.builders, BInv b) :
    (∀ s', s.extract = (s', none) →
      hb s.builders = 0 ∧ s'.builders = [] ∧ (∀ X, Led s X → Led s' X) ∧ s'.pc = s.pc ∧
      s'.maxRetries = s.maxRetries ∧ s'.sender = s.sender ∧ s'.done = s.done) ∧
    (∀ s' m, s.extract = (s', some m) →
      hb s.builders = hb s'.builders + m.size ∧ (∀ b ∈ s'.builders, BInv b) ∧
      (∀ X, Led s X → Led s' X) ∧ s'.pc = s.pc ∧ s'.maxRetries = s.maxRetries ∧ s'.sender = s.sender ∧
      s'.done = s.done) := by
  obtain ⟨d1, d2, _⟩ := dropEmpty_spec s.builders hbi
  unfold State.extract
  cases hd : dropEmpty s.builders with
  | nil =>
    simp only
    constructor
    · intro s' he
      cases he
      rw [hd] at d1
      refine ⟨d1.symm, rfl, ?_, rfl, rfl, rfl, rfl⟩
      intro X h
      exact ⟨⟨h.1.ainv, h.1.pend, h.1.nodupW, h.1.fresh, h.1.wsize, h.1.bound, h.1.logn⟩, h.2⟩
    · intro s' m he; cases he
  | cons b rest =>
    simp only
    constructor
    · intro s' he; cases he
    · intro s' m he
      simp only [Prod.mk.injEq, Option.some.injEq] at he
      obtain ⟨he1, he2⟩ := he
      subst he1 he2
      have f := subscribe_frame ({ s with builders := rest, token := s.token || !rest.isEmpty }) b.topic (dedupSubs b.subs)
      rw [hd] at d1 d2
      refine ⟨?_, ?_, ?_, f.pc, f.maxRetries, f.sender, f.done⟩
      · rw [f.builders]; show hb s.builders = hb rest + b.accounted
        rw [← d1, hb_cons]; omega
      · rw [f.builders]; intro x hx; exact hbi x (d2 x (List.mem_cons_of_mem _ hx))
      · intro X h
        have h0 : Led ({ s with builders := rest, token := s.token || !rest.isEmpty }) X :=
          ⟨⟨h.1.ainv, h.1.pend, h.1.nodupW, h.1.fresh, h.1.wsize, h.1.bound, h.1.logn⟩, h.2⟩
        exact h0.frame f

/-- the drain loop -/
theorem drain_led : ∀ (fuel : Nat) (s : State), Led s (hb s.builders) → (∀ b ∈ s.builders, BInv b) →
    Led (State.drain pick fuel s) (hb (State.drain pick fuel s).builders) ∧
    (∀ b ∈ (State.drain pick fuel s).builders, BInv b) ∧ (State.drain pick fuel s).pc = s.pc
  | 0, s, h, hbi => ⟨h, hbi, rfl⟩
  | fuel + 1, s, h, hbi => by
    obtain ⟨e1, e2⟩ := extract_spec hbi
    unfold State.drain
    cases he : s.extract with
    | mk s' om =>
      cases om with
      | none =>
        obtain ⟨a1, a2, a3, a4, _⟩ := e1 s' he
        simp only
        refine ⟨?_, ?_, a4⟩
        · rw [a2]; have := a3 _ h; rw [a1] at this; exact this
        · intro b hb'; rw [a2] at hb'; cases hb'
      | some m =>
        obtain ⟨a1, a2, a3, a4, _⟩ := e2 s' m he
        simp only
        have l1 : Led s' (hb s'.builders + m.size) := by have := a3 _ h; rw [a1] at this; exact this
        obtain ⟨p1, p2, p3, _⟩ := publishError_led hp l1 a2
        have f := closeTopic_frame (s'.publishError pick m) m.topic
        have l2 : Led ((s'.publishError pick m).closeTopic m.topic) (hb ((s'.publishError pick m).closeTopic m.topic).builders) := by
          rw [f.builders]; exact p1.frame f
        obtain ⟨i1, i2, i3⟩ := drain_led fuel _ l2 (by rw [f.builders]; exact p2)
        exact ⟨i1, i2, i3.trans (f.pc.trans (p3.trans a4))⟩

omit hp in
/-- leaving the loop: `sender.Close()`, then the deferred calls -/
theorem exiting_linv {s1 : State} (l1 : Led s1 (hb s1.builders)) (b1 : ∀ b ∈ s1.builders, BInv b) :
    LInv { (if s1.sender = true then s1.emit [Event.senderClosed] else s1) with pc := .exiting } := by
  have f2 : Frame s1 (if s1.sender = true then s1.emit [Event.senderClosed] else s1) := by
    split
    · exact emit_frame _ _
    · exact Frame.refl _
  have l2 := l1.frame f2
  refine ⟨?_, ?_⟩
  · show Led _ (hb (if s1.sender = true then s1.emit [Event.senderClosed] else s1).builders + 0)
    rw [Nat.add_zero, f2.builders]
    exact ⟨⟨l2.1.ainv, l2.1.pend, l2.1.nodupW, l2.1.fresh, l2.1.wsize, l2.1.bound, l2.1.logn⟩, l2.2⟩
  · show ∀ b ∈ (if s1.sender = true then s1.emit [Event.senderClosed] else s1).builders, BInv b
    rw [f2.builders]; exact b1

/-- one iteration of the select loop -/
theorem run_linv {s : State} (h : LInv s) (pw : Bool) : LInv (s.run pick pw) := by
  obtain ⟨peer, maxRetries, builders, nextTopic, token, done, sender, pc, closedStreams, waiters,
    nextTicket, topics, pubClosed, alloc, log⟩ := s
  cases pc with
  | idle =>
    have hl : Led (⟨peer, maxRetries, builders, nextTopic, token, done, sender, .idle, closedStreams, waiters,
        nextTicket, topics, pubClosed, alloc, log⟩ : State) (hb builders) := by
      have := h.led; simpa [heldInFlight, Pc.inflight] using this
    have hbi : ∀ b ∈ builders, BInv b := h.binv
    unfold State.run
    simp only
    split
    · -- work
      have hl0 : Led (⟨peer, maxRetries, builders, nextTopic, false, done, sender, .idle, closedStreams, waiters,
          nextTicket, topics, pubClosed, alloc, log⟩ : State) (hb builders) :=
        ⟨⟨hl.1.ainv, hl.1.pend, hl.1.nodupW, hl.1.fresh, hl.1.wsize, hl.1.bound, hl.1.logn⟩, hl.2⟩
      obtain ⟨e1, e2⟩ := extract_spec (s := ⟨peer, maxRetries, builders, nextTopic, false, done, sender, .idle,
        closedStreams, waiters, nextTicket, topics, pubClosed, alloc, log⟩) hbi
      cases he : (⟨peer, maxRetries, builders, nextTopic, false, done, sender, .idle, closedStreams, waiters,
          nextTicket, topics, pubClosed, alloc, log⟩ : State).extract with
      | mk s' om =>
        cases om with
        | none =>
          obtain ⟨a1, a2, a3, a4, _⟩ := e1 s' he
          have hpc' : s'.pc = .idle := a4
          refine ⟨?_, by intro b hb'; rw [a2] at hb'; cases hb'⟩
          show Led s' (hb s'.builders + heldInFlight s')
          rw [a2, heldInFlight_idle hpc']
          have := a3 _ hl0
          rw [show hb builders = 0 from a1] at this
          exact this
        | some m =>
          obtain ⟨a1, a2, a3, a4, _⟩ := e2 s' m he
          have l1 : Led s' (hb s'.builders + m.size) := by
            have := a3 _ hl0
            rw [← show hb builders = hb s'.builders + m.size from a1]; exact this
          have f := publish_frame s' m.topic Kind.queued
          have l2 : Led (s'.publish m.topic Kind.queued) (hb (s'.publish m.topic Kind.queued).builders + m.size) := by
            rw [f.builders]; exact l1.frame f
          have b2 : ∀ b ∈ (s'.publish m.topic Kind.queued).builders, BInv b := by rw [f.builders]; exact a2
          show LInv (if (s'.publish m.topic Kind.queued).sender = true then _ else _)
          split
          · exact attempt_linv hp 0 l2 b2
          · refine ⟨?_, b2⟩
            show Led _ (hb (s'.publish m.topic Kind.queued).builders + m.size)
            exact ⟨⟨l2.1.ainv, l2.1.pend, l2.1.nodupW, l2.1.fresh, l2.1.wsize, l2.1.bound, l2.1.logn⟩, l2.2⟩
    · split
      · -- done branch
        obtain ⟨d1, d2, _⟩ := drain_led hp builders.length _ hl hbi
        exact exiting_linv d1 d2
      · exact h
  | opening m r => exact h
  | sending m i => exact h
  | resetting m i => exact h
  | exiting => exact h
  | exited => exact h

end ops

end GS.MQ.Ov
