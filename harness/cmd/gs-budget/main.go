package main

import (
	_ "verifharness/budget"
	"verifharness/reg"
)

func main() { reg.Main("budget") }
