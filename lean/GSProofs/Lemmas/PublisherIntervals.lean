import GSProofs.Lemmas.PublisherTrace
namespace GS.Publisher
open SetMap Registry

/-! ### the interval automaton -/

theorem specFrom_nil (s t act) : specFrom s t act [] = [] := rfl

theorem specFrom_shutdown (s t act rest) :
    specFrom s t act (Cmd.shutdown :: rest) = if act then [Callback.onClose s t] else [] := rfl

theorem specFrom_append {s t} {a : List Cmd} (ha : Cmd.shutdown ∉ a) (act x) :
    specFrom s t act (a ++ x) = specFrom s t act a ++ specFrom s t (activeAfter s t act a) x := by
  induction a generalizing act with
  | nil => simp [specFrom, activeAfter]
  | cons c a ih =>
    have hc : c ≠ Cmd.shutdown := fun e => ha (by simp [e])
    have ha' : Cmd.shutdown ∉ a := fun e => ha (by simp [e])
    rw [List.cons_append, specFrom_cons_of_ne hc, specFrom_cons_of_ne hc, ih ha']
    simp [activeAfter, List.append_assoc]

/-- everything behind a shutdown is ignored -/
theorem specFrom_append_of_shutdown_mem {s t} {a : List Cmd} (ha : Cmd.shutdown ∈ a) (act x) :
    specFrom s t act (a ++ x) = specFrom s t act a := by
  induction a generalizing act with
  | nil => simp at ha
  | cons d a ih =>
    by_cases hd : d = Cmd.shutdown
    · subst hd; rfl
    · have ha' : Cmd.shutdown ∈ a := by
        rcases List.mem_cons.1 ha with e | e
        · exact absurd e.symm hd
        · exact e
      rw [List.cons_append, specFrom_cons_of_ne hd, specFrom_cons_of_ne hd, ih ha']

theorem activeAfter_append (s t act) (a b : List Cmd) :
    activeAfter s t act (a ++ b) = activeAfter s t (activeAfter s t act a) b := by
  induction a generalizing act with
  | nil => rfl
  | cons c a ih => simp [activeAfter, ih]

/-- what a single non-shutdown command does to the subscribed flag -/
theorem stepSpec_fst (s t act) (c : Cmd) (hc : c ≠ Cmd.shutdown) :
    (stepSpec s t act c).1 = ((act && !isEnd s t c) || decide (c = Cmd.subscribe t s)) := by
  cases c with
  | subscribe t' s' =>
    simp only [stepSpec, isEnd]; rw [Bool.eq_iff_iff]; simp
  | publish t' e => simp [stepSpec, isEnd]
  | closeTopic t' => cases act <;> cases h : (t' == t) <;> simp [stepSpec, isEnd, h]
  | unsubAll s' => cases act <;> cases h : (s' == s) <;> simp [stepSpec, isEnd, h]
  | shutdown => exact absurd rfl hc

/-- a subscription opened inside the stretch `l` and still open at its end -/
def OpenedIn (s : Sub) (t : Topic) (l : List Cmd) : Prop :=
  ∃ a b, l = a ++ Cmd.subscribe t s :: b ∧ ∀ c ∈ b, isEnd s t c = false

theorem openedIn_cons (s t c) (l : List Cmd) :
    OpenedIn s t (c :: l) ↔ (c = Cmd.subscribe t s ∧ ∀ d ∈ l, isEnd s t d = false) ∨ OpenedIn s t l := by
  constructor
  · rintro ⟨a, b, h1, h2⟩
    cases a with
    | nil =>
      simp only [List.nil_append, List.cons.injEq] at h1
      obtain ⟨e1, e2⟩ := h1; subst e1; subst e2; exact Or.inl ⟨rfl, h2⟩
    | cons x a =>
      simp only [List.cons_append, List.cons.injEq] at h1
      exact Or.inr ⟨a, b, h1.2, h2⟩
  · rintro (⟨e, h⟩ | ⟨a, b, h1, h2⟩)
    · subst e; exact ⟨[], l, rfl, h⟩
    · subst h1; exact ⟨c :: a, b, rfl, h2⟩

theorem activeAfter_iff {s t} {l : List Cmd} (hl : Cmd.shutdown ∉ l) (act : Bool) :
    activeAfter s t act l = true ↔ (act = true ∧ ∀ c ∈ l, isEnd s t c = false) ∨ OpenedIn s t l := by
  induction l generalizing act with
  | nil =>
    have : ¬ OpenedIn s t [] := by rintro ⟨a, b, h, _⟩; simp at h
    simp [activeAfter, this]
  | cons c l ih =>
    have hc : c ≠ Cmd.shutdown := fun e => hl (by simp [e])
    have hl' : Cmd.shutdown ∉ l := fun e => hl (by simp [e])
    rw [activeAfter, ih hl', openedIn_cons, stepSpec_fst s t act c hc]
    simp only [Bool.or_eq_true, Bool.and_eq_true, Bool.not_eq_true', decide_eq_true_eq, List.mem_cons,
      forall_eq_or_imp]
    constructor
    · rintro (⟨(⟨h1, h2⟩ | h1), h3⟩ | h)
      · exact Or.inl ⟨h1, h2, h3⟩
      · exact Or.inr (Or.inl ⟨h1, h3⟩)
      · exact Or.inr (Or.inr h)
    · rintro (⟨h1, h2, h3⟩ | ⟨h1, h3⟩ | h)
      · exact Or.inl ⟨Or.inl ⟨h1, h2⟩, h3⟩
      · exact Or.inl ⟨Or.inr h1, h3⟩
      · exact Or.inr h

theorem subscribed_iff_openedIn {s t} {pre : List Cmd} (hp : Cmd.shutdown ∉ pre) :
    Subscribed s t pre ↔ OpenedIn s t pre := by
  constructor
  · rintro ⟨a, b, h1, _, h3⟩; exact ⟨a, b, h1, h3⟩
  · rintro ⟨a, b, h1, h3⟩
    refine ⟨a, b, h1, ?_, h3⟩
    intro h; apply hp; rw [h1]; simp [h]

/-- the automaton's flag is the declarative `Subscribed` -/
theorem activeAfter_false_iff {s t} {pre : List Cmd} (hp : Cmd.shutdown ∉ pre) :
    activeAfter s t false pre = true ↔ Subscribed s t pre := by
  rw [activeAfter_iff hp, subscribed_iff_openedIn hp]; simp

/-- no subscription survives a shutdown -/
theorem not_subscribed_of_shutdown_mem {s t} {pre : List Cmd} (hp : Cmd.shutdown ∈ pre) :
    ¬ Subscribed s t pre := by
  rintro ⟨a, b, h1, h2, h3⟩
  rw [h1] at hp
  simp only [List.mem_append, List.mem_cons] at hp
  rcases hp with h | h | h
  · exact h2 h
  · cases h
  · have := h3 _ h; simp [isEnd] at this

/-- while subscribed and no end occurs, exactly the publishes on `t` are delivered -/
theorem specFrom_true_noend {s t} {b : List Cmd} (hb : ∀ c ∈ b, isEnd s t c = false) (x) :
    specFrom s t true (b ++ x) = (pubsOn t b).map (Callback.onNext s t) ++ specFrom s t true x := by
  induction b with
  | nil => simp [pubsOn]
  | cons c b ih =>
    have hc := hb c (by simp)
    have hb' : ∀ d ∈ b, isEnd s t d = false := fun d hd => hb d (by simp [hd])
    have hne : c ≠ Cmd.shutdown := by rintro rfl; simp [isEnd] at hc
    rw [List.cons_append, specFrom_cons_of_ne hne]
    cases c with
    | subscribe t' s' => simp [stepSpec, pubsOn, ih hb']
    | publish t' e =>
      by_cases et : t' = t
      · simp [stepSpec, pubsOn, et, ih hb']
      · simp [stepSpec, pubsOn, et, ih hb']
    | closeTopic t' =>
      have : (t' == t) = false := by simpa [isEnd] using hc
      simp [stepSpec, pubsOn, this, ih hb']
    | unsubAll s' =>
      have : (s' == s) = false := by simpa [isEnd] using hc
      simp [stepSpec, pubsOn, this, ih hb']
    | shutdown => exact absurd rfl hne

/-- an end while subscribed: exactly one OnClose, then unsubscribed -/
theorem specFrom_true_end {s t} {e : Cmd} (he : isEnd s t e = true) (rest) :
    specFrom s t true (e :: rest) =
      Callback.onClose s t :: specFrom s t false (if e = Cmd.shutdown then [] else rest) := by
  cases e with
  | subscribe t' s' => simp [isEnd] at he
  | publish t' e => simp [isEnd] at he
  | closeTopic t' =>
    have : (t' == t) = true := by simpa [isEnd] using he
    simp [specFrom, stepSpec, this]
  | unsubAll s' =>
    have : (s' == s) = true := by simpa [isEnd] using he
    simp [specFrom, stepSpec, this]
  | shutdown => simp [specFrom]

/-! ### the goroutine state machine and the client side -/

theorem feed_exited (sv : Server) (h : sv.exited = true) (cmds) : sv.feed cmds = (sv, []) := by
  induction cmds with
  | nil => rfl
  | cons c rest ih => simp [Server.feed, Server.step, h, ih]

theorem feed_eq_runFrom (r : Registry) (cmds) :
    (Server.feed { reg := r, exited := false } cmds).2 = runFrom r cmds := by
  induction cmds generalizing r with
  | nil => rfl
  | cons c rest ih =>
    cases c with
    | shutdown =>
      simp [Server.feed, Server.step, runFrom, feed_exited]
    | subscribe t s => simp [Server.feed, Server.step, runFrom, ih]
    | publish t e => simp [Server.feed, Server.step, runFrom, ih]
    | closeTopic t => simp [Server.feed, Server.step, runFrom, ih]
    | unsubAll s => simp [Server.feed, Server.step, runFrom, ih]

theorem feed_append (sv : Server) (a b : List Cmd) :
    sv.feed (a ++ b) = ((((sv.feed a).1).feed b).1, (sv.feed a).2 ++ (((sv.feed a).1).feed b).2) := by
  induction a generalizing sv with
  | nil => simp [Server.feed]
  | cons c a ih => simp [Server.feed, ih, List.append_assoc]

/-- the commands that still get queued, given the `closed` flag -/
def queuedC (closed : Bool) (apis : List Api) : List Cmd := if closed then [] else queued apis

theorem queued_cons_of_cmd {a : Api} {c} (h : a.cmd = some c) (hs : a ≠ Api.shutdown) (rest) :
    queued (a :: rest) = c :: queued rest := by
  cases a <;> simp_all [queued, Api.cmd]

theorem exec_started (sv : Server) (cl : Bool) (apis : List Api) :
    Sys.exec { started := true, closed := cl, pending := [], server := sv } apis =
      (sv.feed (queuedC cl apis)).2 := by
  induction apis generalizing sv cl with
  | nil => cases cl <;> simp [Sys.exec, queuedC, queued, Server.feed]
  | cons a rest ih =>
    cases cl with
    | true =>
      have := ih sv true
      cases a <;> simp_all [Sys.exec, Sys.call, queuedC, Server.feed]
    | false =>
      cases a with
      | startup =>
        have := ih sv false
        simp_all [Sys.exec, Sys.call, queuedC, queued, Api.cmd]
      | shutdown =>
        have := ih (sv.step Cmd.shutdown).1 true
        simp_all [Sys.exec, Sys.call, queuedC, queued, Api.cmd, Server.feed]
      | subscribe t s =>
        have := ih (sv.step (Cmd.subscribe t s)).1 false
        simp_all [Sys.exec, Sys.call, queuedC, queued, Api.cmd, Server.feed]
      | unsubscribe s =>
        have := ih (sv.step (Cmd.unsubAll s)).1 false
        simp_all [Sys.exec, Sys.call, queuedC, queued, Api.cmd, Server.feed]
      | publish t e =>
        have := ih (sv.step (Cmd.publish t e)).1 false
        simp_all [Sys.exec, Sys.call, queuedC, queued, Api.cmd, Server.feed]
      | close t =>
        have := ih (sv.step (Cmd.closeTopic t)).1 false
        simp_all [Sys.exec, Sys.call, queuedC, queued, Api.cmd, Server.feed]

theorem exec_not_started (p : List Cmd) (cl : Bool) (apis : List Api) :
    Sys.exec { started := false, closed := cl, pending := p, server := {} } apis =
      if Api.startup ∈ apis then (Server.feed {} (p ++ queuedC cl apis)).2 else [] := by
  induction apis generalizing p cl with
  | nil => simp [Sys.exec]
  | cons a rest ih =>
    cases a with
    | startup =>
      simp only [Sys.exec, Sys.call, List.mem_cons, true_or, if_true, Bool.false_eq_true, if_false]
      rw [exec_started, feed_append]
      cases cl <;> simp [queuedC, queued, Api.cmd]
    | shutdown =>
      cases cl with
      | true =>
        have := ih p true
        simp_all [Sys.exec, Sys.call, queuedC]
      | false =>
        have := ih (p ++ [Cmd.shutdown]) true
        simp_all [Sys.exec, Sys.call, queuedC, queued, Api.cmd]
    | subscribe t s =>
      cases cl with
      | true => have := ih p true; simp_all [Sys.exec, Sys.call, queuedC]
      | false =>
        have := ih (p ++ [Cmd.subscribe t s]) false
        simp_all [Sys.exec, Sys.call, queuedC, queued, Api.cmd]
    | unsubscribe s =>
      cases cl with
      | true => have := ih p true; simp_all [Sys.exec, Sys.call, queuedC]
      | false =>
        have := ih (p ++ [Cmd.unsubAll s]) false
        simp_all [Sys.exec, Sys.call, queuedC, queued, Api.cmd]
    | publish t e =>
      cases cl with
      | true => have := ih p true; simp_all [Sys.exec, Sys.call, queuedC]
      | false =>
        have := ih (p ++ [Cmd.publish t e]) false
        simp_all [Sys.exec, Sys.call, queuedC, queued, Api.cmd]
    | close t =>
      cases cl with
      | true => have := ih p true; simp_all [Sys.exec, Sys.call, queuedC]
      | false =>
        have := ih (p ++ [Cmd.closeTopic t]) false
        simp_all [Sys.exec, Sys.call, queuedC, queued, Api.cmd]

end GS.Publisher
