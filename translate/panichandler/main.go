// Command panichandler regenerates lean/GS/Generated/PanicHandler.lean (property C22) from the
// body of panics.MakeHandler in panics/panics.go: the function every recover frame of go-graphsync
// passes the result of recover() to.
//
// usage: go run ./panichandler <repo>   (prints the Lean file; exits non-zero on anything unexpected)
//
// MakeHandler must have the form
//
//	func MakeHandler(cb CallBackFn) PanicHandler { return func(obj any) error { STMT… } }
//
// and every STMT must be one of a small vocabulary, translated one to one into a `Step`:
//
//	if obj == nil { return nil }                                         returnNilIfNil
//	stack := string(debug.Stack())                                       captureStack
//	if cb != nil { cb(obj, stack) }                                      callbackIfSet
//	cb(obj, stack)                                                       callback
//	return nil                                                           returnNil
//	return RecoveredPanicErr{PanicObj: obj, DebugStackTrace: stack}      returnRecovered
//
// (identifier names are taken from the parameter lists, so renaming them is harmless).  Anything
// else - another branch, a type switch or type assertion on the panic value, a changed condition,
// different callback arguments, different fields of the returned error - is syntax this translator
// does not understand and makes it fail: the vocabulary has no way to look INTO the panic value,
// which is what makes the Lean theorem `GS.C22.handler_total` hold for every value.
package main

import (
	"fmt"
	"go/ast"
	"go/parser"
	"go/token"
	"os"
	"path/filepath"
	"strings"
)

var fset = token.NewFileSet()

func die(pos token.Pos, format string, a ...interface{}) {
	where := ""
	if pos.IsValid() {
		where = fset.Position(pos).String() + ": "
	}
	fmt.Fprintf(os.Stderr, "panichandler: %s%s\n", where, fmt.Sprintf(format, a...))
	os.Exit(1)
}

func isIdent(e ast.Expr, name string) bool {
	id, ok := e.(*ast.Ident)
	return ok && id.Name == name
}

func oneParam(fl *ast.FieldList, what string, pos token.Pos) string {
	if fl == nil || len(fl.List) != 1 || len(fl.List[0].Names) != 1 {
		die(pos, "%s must have exactly one named parameter", what)
	}
	return fl.List[0].Names[0].Name
}

func main() {
	if len(os.Args) != 2 {
		die(token.NoPos, "usage: panichandler <repo>")
	}
	path := filepath.Join(os.Args[1], "panics", "panics.go")
	f, err := parser.ParseFile(fset, path, nil, parser.SkipObjectResolution)
	if err != nil {
		die(token.NoPos, "parse %s: %v", path, err)
	}
	var mh *ast.FuncDecl
	for _, d := range f.Decls {
		if fd, ok := d.(*ast.FuncDecl); ok && fd.Recv == nil && fd.Name.Name == "MakeHandler" {
			mh = fd
		}
	}
	if mh == nil || mh.Body == nil {
		die(token.NoPos, "func MakeHandler not found in %s", path)
	}
	cb := oneParam(mh.Type.Params, "MakeHandler", mh.Pos())
	if len(mh.Body.List) != 1 {
		die(mh.Body.Pos(), "MakeHandler must consist of a single return statement")
	}
	ret, ok := mh.Body.List[0].(*ast.ReturnStmt)
	if !ok || len(ret.Results) != 1 {
		die(mh.Body.Pos(), "MakeHandler must consist of a single return statement")
	}
	lit, ok := ret.Results[0].(*ast.FuncLit)
	if !ok {
		die(ret.Pos(), "MakeHandler must return a function literal")
	}
	obj := oneParam(lit.Type.Params, "the handler", lit.Pos())
	if lit.Type.Results == nil || len(lit.Type.Results.List) != 1 || !isIdent(lit.Type.Results.List[0].Type, "error") || len(lit.Type.Results.List[0].Names) != 0 {
		die(lit.Pos(), "the handler must return a single unnamed error")
	}
	stack := "" // name of the variable holding the captured stack, once seen

	isCbCall := func(e ast.Expr) bool {
		c, ok := e.(*ast.CallExpr)
		return ok && isIdent(c.Fun, cb) && len(c.Args) == 2 && isIdent(c.Args[0], obj) && stack != "" && isIdent(c.Args[1], stack) && !c.Ellipsis.IsValid()
	}
	nilTest := func(e ast.Expr, name string, op token.Token) bool {
		b, ok := e.(*ast.BinaryExpr)
		return ok && b.Op == op && isIdent(b.X, name) && isIdent(b.Y, "nil")
	}
	var steps []string
	for _, st := range lit.Body.List {
		switch s := st.(type) {
		case *ast.IfStmt:
			if s.Init != nil || s.Else != nil || len(s.Body.List) != 1 {
				die(s.Pos(), "unknown if statement (initialiser, else branch or more than one statement)")
			}
			inner := s.Body.List[0]
			switch {
			case nilTest(s.Cond, obj, token.EQL):
				r, ok := inner.(*ast.ReturnStmt)
				if !ok || len(r.Results) != 1 || !isIdent(r.Results[0], "nil") {
					die(inner.Pos(), "`if %s == nil` must just `return nil`", obj)
				}
				steps = append(steps, "returnNilIfNil")
			case nilTest(s.Cond, cb, token.NEQ):
				e, ok := inner.(*ast.ExprStmt)
				if !ok || !isCbCall(e.X) {
					die(inner.Pos(), "`if %s != nil` must just call %s(%s, <stack>)", cb, cb, obj)
				}
				steps = append(steps, "callbackIfSet")
			default:
				die(s.Pos(), "unknown condition in the panic handler (only `%s == nil` and `%s != nil` are understood)", obj, cb)
			}
		case *ast.AssignStmt:
			// stack := string(debug.Stack())
			okShape := s.Tok == token.DEFINE && len(s.Lhs) == 1 && len(s.Rhs) == 1
			if okShape {
				conv, ok := s.Rhs[0].(*ast.CallExpr)
				okShape = ok && isIdent(conv.Fun, "string") && len(conv.Args) == 1
				if okShape {
					inner, ok := conv.Args[0].(*ast.CallExpr)
					okShape = ok && len(inner.Args) == 0
					if okShape {
						sel, ok := inner.Fun.(*ast.SelectorExpr)
						okShape = ok && isIdent(sel.X, "debug") && sel.Sel.Name == "Stack"
					}
				}
			}
			id, isId := s.Lhs[0].(*ast.Ident)
			if !okShape || !isId || stack != "" {
				die(s.Pos(), "unknown assignment in the panic handler (only `<stack> := string(debug.Stack())`, once)")
			}
			stack = id.Name
			steps = append(steps, "captureStack")
		case *ast.ExprStmt:
			if !isCbCall(s.X) {
				die(s.Pos(), "unknown expression statement in the panic handler")
			}
			steps = append(steps, "callback")
		case *ast.ReturnStmt:
			if len(s.Results) != 1 {
				die(s.Pos(), "unknown return statement")
			}
			if isIdent(s.Results[0], "nil") {
				steps = append(steps, "returnNil")
				break
			}
			cl, ok := s.Results[0].(*ast.CompositeLit)
			if !ok || !isIdent(cl.Type, "RecoveredPanicErr") || len(cl.Elts) != 2 {
				die(s.Pos(), "the handler may only return nil or RecoveredPanicErr{PanicObj: %s, DebugStackTrace: <stack>}", obj)
			}
			seen := map[string]bool{}
			for _, el := range cl.Elts {
				kv, ok := el.(*ast.KeyValueExpr)
				if !ok {
					die(el.Pos(), "RecoveredPanicErr must be built with field names")
				}
				k, _ := kv.Key.(*ast.Ident)
				switch {
				case k != nil && k.Name == "PanicObj" && isIdent(kv.Value, obj):
				case k != nil && k.Name == "DebugStackTrace" && stack != "" && isIdent(kv.Value, stack):
				default:
					die(el.Pos(), "unexpected field in the returned RecoveredPanicErr")
				}
				seen[k.Name] = true
			}
			if len(seen) != 2 {
				die(s.Pos(), "RecoveredPanicErr must set PanicObj and DebugStackTrace")
			}
			steps = append(steps, "returnRecovered")
		default:
			die(st.Pos(), "statement kind %T is not part of the panic-handler vocabulary", st)
		}
	}
	if len(steps) == 0 {
		die(lit.Body.Pos(), "empty panic handler")
	}
	var sb strings.Builder
	sb.WriteString("/-\nGenerated by translate/panichandler from panics/panics.go (func MakeHandler) - do not edit.\n\n")
	sb.WriteString("The statements of the function MakeHandler returns, in order, over the vocabulary the translator\n")
	sb.WriteString("understands (it fails on anything else).  `GS.Panics.runHandler` interprets the list.\n-/\n")
	sb.WriteString("namespace GS.Generated.PanicHandler\n\n")
	sb.WriteString("inductive Step\n")
	sb.WriteString("  | returnNilIfNil    -- if obj == nil { return nil }\n")
	sb.WriteString("  | captureStack      -- stack := string(debug.Stack())\n")
	sb.WriteString("  | callbackIfSet     -- if cb != nil { cb(obj, stack) }\n")
	sb.WriteString("  | callback          -- cb(obj, stack)\n")
	sb.WriteString("  | returnNil         -- return nil\n")
	sb.WriteString("  | returnRecovered   -- return RecoveredPanicErr{PanicObj: obj, DebugStackTrace: stack}\n")
	sb.WriteString("  deriving DecidableEq, Repr\n\n")
	sb.WriteString("def steps : List Step := [." + strings.Join(steps, ", .") + "]\n\n")
	sb.WriteString("end GS.Generated.PanicHandler\n")
	fmt.Print(sb.String())
}
