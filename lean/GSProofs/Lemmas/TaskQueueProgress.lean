import GSProofs.Lemmas.TaskQueueMeasure
/-!
Helper lemmas for C21, part 7: the comparator is a strict order (so `Peek` always finds a tracker),
and the effect of every step on the measure `M`.
-/
namespace GS.TQ

/-! ### DefaultPeerComparator is irreflexive and transitive -/

theorem peerLess_irrefl (a : Tracker) : peerLess a a = false := by
  simp [peerLess]

theorem peerLess_trans {a b c : Tracker} (h1 : peerLess a b = true) (h2 : peerLess b c = true) :
    peerLess a c = true := by
  unfold peerLess at *
  generalize a.pending.length = pa at *
  generalize b.pending.length = pb at *
  generalize c.pending.length = pc at *
  generalize a.freeze = fa at *
  generalize b.freeze = fb at *
  generalize c.freeze = fc at *
  generalize a.activeWork = wa at *
  generalize b.activeWork = wb at *
  generalize c.activeWork = wc at *
  by_cases ha : pa = 0
  · simp [ha] at h1
  · by_cases hb : pb = 0
    · simp [hb] at h2
    · by_cases hc : pc = 0
      · simp [ha, hc]
      · simp only [beq_iff_eq, ha, hb, hc, if_false, gt_iff_lt] at *
        by_cases e1 : fb < fa
        · simp [e1] at h1
        · by_cases e2 : fc < fb
          · simp [e2] at h2
          · simp only [e1, e2, if_false] at h1 h2
            have e3 : ¬ fc < fa := by omega
            simp only [e3, if_false]
            by_cases e4 : fa < fb
            · have : fa < fc := by omega
              simp [this]
            · by_cases e5 : fb < fc
              · have : fa < fc := by omega
                simp [this]
              · have e6 : ¬ fa < fc := by omega
                simp only [e4, e5, e6, if_false] at *
                split at h1 <;> split at h2 <;> split <;> simp at * <;> omega

/-- a non-empty tracker list has a comparator-minimal element -/
theorem exists_min : ∀ (ps : List Tracker), ps ≠ [] → ∃ m ∈ ps, isMin ps m = true := by
  intro ps
  induction ps with
  | nil => intro h; exact absurd rfl h
  | cons x xs ih =>
    intro _
    by_cases hxs : xs = []
    · subst hxs
      exact ⟨x, by simp, by simp [isMin, peerLess_irrefl]⟩
    · obtain ⟨m, hm, hmin⟩ := ih hxs
      by_cases hlt : peerLess x m = true
      · refine ⟨x, by simp, ?_⟩
        simp only [isMin, List.all_cons, peerLess_irrefl, Bool.not_false, Bool.true_and]
        apply List.all_eq_true.mpr
        intro u hu
        cases huv : peerLess u x with
        | false => rfl
        | true =>
          have := peerLess_trans huv hlt
          have h2 := isMin_spec hmin hu
          rw [h2] at this; cases this
      · refine ⟨m, List.mem_cons_of_mem _ hm, ?_⟩
        simp only [isMin, List.all_cons]
        have : peerLess x m = false := by simpa using hlt
        simp only [this, Bool.not_false, Bool.true_and]
        exact hmin

theorem peek_isSome (q : PTQ) (h : q.peers ≠ []) : ∃ m, peek q = some m := by
  obtain ⟨m, hm, hmin⟩ := exists_min q.peers h
  exact peek_isSome_of_min hm hmin

theorem exists_pos_of_sumBy_pos {α : Type} (f : α → Nat) (xs : List α) (h : 0 < sumBy f xs) :
    ∃ x ∈ xs, 0 < f x := by
  induction xs with
  | nil => simp [sumBy] at h
  | cons x xs ih =>
    simp only [sumBy] at h
    by_cases hx : 0 < f x
    · exact ⟨x, by simp, hx⟩
    · obtain ⟨y, hy, hpos⟩ := ih (by omega)
      exact ⟨y, by simp [hy], hpos⟩

theorem sumBy_pos_of_mem {α : Type} (f : α → Nat) (xs : List α) (x : α) (hx : x ∈ xs) (h : 0 < f x) :
    0 < sumBy f xs := by
  induction xs with
  | nil => cases hx
  | cons y ys ih =>
    simp only [sumBy]
    rcases List.mem_cons.mp hx with rfl | h'
    · omega
    · have := ih h'; omega

/-- if some tracker has pending tasks, so does the peeked one -/
theorem peek_pending {q : PTQ} {m : Tracker} (hm : peek q = some m)
    (hp : ∃ t ∈ q.peers, t.pending ≠ []) : m.pending ≠ [] := by
  obtain ⟨hmem, hmin⟩ := peek_some hm
  obtain ⟨t, ht, htp⟩ := hp
  have := isMin_spec hmin ht
  intro hnil
  unfold peerLess at this
  have h1 : ¬ (t.pending.length == 0) = true := by
    simp; exact htp
  rw [if_neg h1] at this
  simp [hnil] at this

/-! ### forward correspondence for ThawRound -/

def Asc (ps ps' : List Tracker) : Prop :=
  ∀ t ∈ ps, ∃ t' ∈ ps', t'.id = t.id ∧ t'.pending = t.pending ∧ t'.active = t.active ∧ t'.freeze ≤ t.freeze

theorem thawOne_asc (q : PTQ) (p : Nat) : Asc q.peers (thawOne q p).peers := by
  intro t ht
  unfold thawOne
  split
  · exact ⟨t, ht, rfl, rfl, rfl, Nat.le_refl _⟩
  · refine ⟨_, mem_modifyT_of_mem (p := p) (f := thawT) ht, ?_⟩
    split
    · exact ⟨rfl, rfl, rfl, thawT_le t⟩
    · exact ⟨rfl, rfl, rfl, Nat.le_refl _⟩

theorem thaw_asc (q : PTQ) : Asc q.peers (thaw q).peers := by
  unfold thaw
  generalize q.frozen = l
  induction l generalizing q with
  | nil => intro t ht; exact ⟨t, ht, rfl, rfl, rfl, Nat.le_refl _⟩
  | cons p ps ih =>
    intro t ht
    simp only [List.foldl]
    obtain ⟨t1, ht1, a1, a2, a3, a4⟩ := thawOne_asc q p t ht
    obtain ⟨t2, ht2, b1, b2, b3, b4⟩ := ih (thawOne q p) t1 ht1
    exact ⟨t2, ht2, b1.trans a1, b2.trans a2, b3.trans a3, Nat.le_trans b4 a4⟩

/-! ### measure of a pop by worker `i` -/

theorem phase_startFrom (r : PopResult) :
    phase (startFrom r) ≤ (if r.tasks.length = 0 then 0 else 2 * r.tasks.length + 1) := by
  unfold startFrom
  cases r.peer with
  | none => simp [phase]
  | some p =>
    cases r.tasks with
    | nil => simp [phase]
    | cons t ts => simp [phase]; omega

theorem startFrom_idle_of_nil (r : PopResult) (h : r.tasks = []) : startFrom r = .idle := by
  unfold startFrom
  cases r.peer <;> simp [h]

theorem startFrom_exec_of_ne (r : PopResult) (p : Nat) (hp : r.peer = some p) (h : r.tasks ≠ []) :
    ∃ t ts, startFrom r = .exec p t false ts := by
  unfold startFrom
  rw [hp]
  cases hr : r.tasks with
  | nil => exact absurd hr h
  | cons t ts => exact ⟨t, ts, rfl⟩

/-- accounting of `popFor`: `k` popped tasks cost the worker `2k+1` phase units and take `4k` off
    the pending term -/
theorem popFor_measure (s : Sys) (i : Nat) (q0 : PTQ) (w0 : WSt) (hw : s.workers[i]? = some w0)
    (hid : ∀ a ∈ q0.peers, ∀ b ∈ q0.peers, a.id = b.id → a = b) :
    let k := (pop q0 1).2.tasks.length
    4 * nPending (s.popFor i q0).q.peers + sumFreeze (s.popFor i q0).q.peers +
        sumBy phase (s.popFor i q0).workers + phase w0 + (if k = 0 then 0 else 2 * k - 1) ≤
      4 * nPending q0.peers + sumFreeze q0.peers + sumBy phase s.workers ∧
    (s.popFor i q0).signal = s.signal := by
  intro k
  obtain ⟨h1, h2⟩ := pop_measure q0 hid
  have h3 := sumBy_set phase s.workers i w0 (startFrom (pop q0 1).2) hw
  have h4 := phase_startFrom (pop q0 1).2
  show 4 * nPending (pop q0 1).1.peers + sumFreeze (pop q0 1).1.peers +
      sumBy phase (s.workers.set i (startFrom (pop q0 1).2)) + phase w0 + (if k = 0 then 0 else 2 * k - 1) ≤ _ ∧ _
  refine ⟨?_, rfl⟩
  by_cases hk : k = 0
  · have : (pop q0 1).2.tasks.length = 0 := hk
    simp only [hk, if_true] at *
    rw [this] at h4; simp at h4
    omega
  · have : ¬ (pop q0 1).2.tasks.length = 0 := hk
    simp only [this, if_false] at h4
    simp only [hk, if_false]
    have : k = (pop q0 1).2.tasks.length := rfl
    omega

end GS.TQ
