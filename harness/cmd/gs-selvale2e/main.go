package main

import (
	"verifharness/reg"
	_ "verifharness/selvale2e"
)

func main() { reg.Main("selvale2e") }
