/-
Model of /repo/requestmanager/reconciledloader (core Lean only), function by function:

  traversalrecord.TraversalRecord / RecordNextStep      -> TRec / TRec.record
  traversalrecord.Verifier (NewVerifier, appendUntilLink,
      nextLink, CurrentPath, Done, VerifyNext)          -> Ver / newVerifier / appendUntilLink / nextLink / …
  remotequeue.go (queue, first, consume, retryLast, clear) -> RQ.*
  pathtracker.go                                        -> stillOnUnfollowed / recordRemoteAttempt
  injest.go  IngestResponse                             -> ingest
  load.go    BlockReadOpener / blockReadOpener /
             waitRemote / loadRemote / loadLocal        -> load / run / waitRemote / loadRemote / loadLocal
  reconciledloader.go SetRemoteOnline / RetryLastLoad /
             Cleanup                                    -> setOnline / retry / cleanup

Representation choices (each is a bijective re-encoding of the Go data structure):

* A CID is a `Nat`.  Block *content* is a `Nat` as well: content `b` is the content whose true
  hash is CID `b` (content addressing).  A block map entry `(k, b)` is *well keyed* iff `b = k`;
  the wire decoder guarantees that (property C12), the loader itself does not check it.
* `TRec` (the path trie) is the list of trie nodes in creation order, each with its absolute path.
  The children of the node at path `p`, in Go's `children` slice order, are the nodes whose path is
  `p ++ [s]`, in list order (a node is appended to its parent's slice when it is created).
* The verifier's `stack` is identified with the path of its tip (`none` = empty stack).
* The remote queue is a linked list in Go.  `RQ.q` is the chain reachable from `head`;
  `last`/`lastLinked` are `lastConsumed` and whether its `next` pointer is non-nil; `tailOn` says
  whether the `tail` pointer is the final node of the chain `head` (or, if the chain is empty,
  `lastConsumed`) lives on.  When it is not, `queue` appends to an unreachable chain: the items are
  lost (this happens in Go after `retryLast` re-queues an item whose `next` is nil while newer
  items were queued; mirrored here, exercised by the correspondence stream).
* The blocking `signal.Wait()` in `waitRemote` is the outcome `blocked`; the load stays `pending`
  and is re-run from the top of `waitRemote` (that is what the Go loop does after a wake-up)
  whenever another operation changed the state.
-/
namespace GS.Loader

abbrev Cid  := Nat
abbrev Blk  := Nat
abbrev Seg  := Nat
abbrev Path := List Seg

/-- graphsync.LinkAction -/
inductive Action where
  | present | dupNotSent | missing | dagSkipped
deriving Repr, DecidableEq, Inhabited

/-- LinkAction.DidFollowLink -/
def Action.didFollow : Action → Bool
  | .present | .dupNotSent => true
  | _ => false

/-! ## TraversalRecord -/

structure TNode where
  path : Path
  link : Option (Cid × Bool)      -- (link, successful); `none` = Go `link == nil`
deriving Repr, DecidableEq

abbrev TRec := List TNode

def TRec.empty : TRec := [⟨[], none⟩]

def TRec.has (r : TRec) (p : Path) : Bool := r.any (·.path == p)

def TRec.get (r : TRec) (p : Path) : Option TNode := r.find? (·.path == p)

/-- segments of the children of the node at `p`, in the order of Go's `children` slice -/
def TRec.kids (r : TRec) (p : Path) : List Seg :=
  r.filterMap fun n =>
    if n.path.length == p.length + 1 && p.isPrefixOf n.path then n.path.getLast? else none

/-- create the nodes for all prefixes of `pre ++ rest` longer than `pre` that do not exist yet
    (the recursive descent of RecordNextStep, creating children on the way) -/
def TRec.ensure (r : TRec) (pre : Path) : Path → TRec
  | [] => r
  | s :: rest =>
    let p := pre ++ [s]
    let r' := if r.has p then r else r ++ [⟨p, none⟩]
    TRec.ensure r' p rest

/-- RecordNextStep(p, link, successful) -/
def TRec.record (r : TRec) (p : Path) (link : Cid) (ok : Bool) : TRec :=
  (TRec.ensure r [] p).map fun n => if n.path == p then { n with link := some (link, ok) } else n

/-! ## Verifier -/

/-- `none` = empty stack; `some p` = stack whose tip is the node at path `p` -/
abbrev Ver := Option Path

def linkAt (r : TRec) (p : Path) : Option (Cid × Bool) :=
  match r.get p with
  | some n => n.link
  | none => none

/-- appendUntilLink: descend to first children while the tip has no link but has children -/
def appendUntilLink (r : TRec) : Nat → Path → Path
  | 0, p => p
  | fuel + 1, p =>
    match linkAt r p, r.kids p with
    | none, s :: _ => appendUntilLink r fuel (p ++ [s])
    | _, _ => p

def newVerifier (r : TRec) : Ver := some (appendUntilLink r r.length [])

/-- element following `s` in `l` -/
def nextAfter (s : Seg) : List Seg → Option Seg
  | [] => none
  | x :: rest => if x == s then rest.head? else nextAfter s rest

/-- the pop / next-sibling part of nextLink; `rp` is the tip's path reversed -/
def popNext (r : TRec) : List Seg → Ver
  | [] => none                                   -- popped the root: stack empty
  | s :: rq =>
    let q := rq.reverse
    match nextAfter s (r.kids q) with
    | some s' => some (appendUntilLink r r.length (q ++ [s']))
    | none => popNext r rq                        -- last child: parent's next sibling

/-- nextLink(exploreChildren) for a tip at path `p` -/
def nextLink (r : TRec) (p : Path) (explore : Bool) : Ver :=
  match explore, r.kids p with
  | true, s :: _ => some (appendUntilLink r r.length (p ++ [s]))
  | _, _ => popNext r p.reverse

/-- Verifier.Done -/
def verDone (r : TRec) : Ver → Bool
  | none => true
  | some [] => (linkAt r []).isNone
  | some _ => false

/-- Verifier.CurrentPath -/
def verPath (r : TRec) (v : Ver) : Path :=
  if verDone r v then [] else v.getD []

inductive LoadErr where
  | missing (link : Cid) (path : Path)                   -- graphsync.RemoteMissingBlockErr
  | incorrect (localLink remoteLink : Cid) (path : Path)  -- graphsync.RemoteIncorrectResponseError
  | extraData          -- "verifying against tree with additional data not possible"
  | nothingLeft        -- "nothing left to verify"
  | retryNone          -- "cannot retry offline load when none is present"
deriving Repr, DecidableEq

/-- Verifier.VerifyNext -/
def verifyNext (r : TRec) (v : Ver) (link : Cid) (ok : Bool) : Except LoadErr Ver :=
  if verDone r v then .error .nothingLeft else
  let p := v.getD []
  match linkAt r p with
  | none => .error .nothingLeft        -- Go would dereference a nil link; unreachable (tip always has a link)
  | some (l, succ) =>
    if l != link then .error (.incorrect l link (verPath r v))
    else if !succ && ok then .error .extraData
    else .ok (nextLink r p ok)

/-! ## remote queue -/

structure Item where
  link   : Cid
  action : Action
  block  : Option Blk
deriving Repr, DecidableEq

structure RQ where
  q          : List Item := []
  last       : Option Item := none
  lastLinked : Bool := false
  tailOn     : Bool := true
deriving Repr, DecidableEq

/-- remoteQueue.queue for one item -/
def RQ.push (rq : RQ) (it : Item) : RQ :=
  match rq.q with
  | [] => { rq with q := [it], tailOn := true }
  | _ :: _ => if rq.tailOn then { rq with q := rq.q ++ [it] } else rq

def RQ.queue (rq : RQ) (items : List Item) : RQ := items.foldl RQ.push rq

/-- remoteQueue.consume (callers guarantee a non-empty queue) -/
def RQ.consume (rq : RQ) : RQ :=
  match rq.q with
  | [] => rq
  | x :: rest => { rq with q := rest, last := some { x with block := none }, lastLinked := !rest.isEmpty }

/-- remoteQueue.retryLast -/
def RQ.retryLast (rq : RQ) : RQ :=
  match rq.last with
  | none => rq
  | some x =>
    if rq.lastLinked then { rq with q := x :: rq.q, last := none }
    else match rq.q with
      | [] => { rq with q := [x], last := none }
      | _ :: _ => { rq with q := [x], last := none, tailOn := false }

/-- remoteQueue.clear -/
def RQ.clear (_ : RQ) : RQ := {}

/-! ## loader state -/

structure Attempt where
  link : Cid
  path : Path
  successful : Bool
  usedRemote : Bool
deriving Repr, DecidableEq

structure State where
  store   : List (Cid × Blk) := []       -- local block store: link ↦ content (later writes shadow)
  record  : TRec := TRec.empty
  mra     : Option Attempt := none        -- mostRecentLoadAttempt
  unfollowed : Path := []                 -- pathTracker.lastUnfollowedRemotePath ([] = none)
  isOpen  : Bool := false
  ver     : Option Ver := none            -- `none` = Go `rl.verifier == nil`
  rq      : RQ := {}
  pending : Option (Path × Cid) := none   -- a BlockReadOpener call parked in signal.Wait()
deriving Repr

/-- types.AsyncLoadResult (+ the store write performed by this load, if any) -/
structure Result where
  data  : Option Blk
  err   : Option LoadErr
  loc   : Bool                       -- AsyncLoadResult.Local
  write : Option (Cid × Blk) := none -- (link committed, content written)
deriving Repr, DecidableEq

inductive Out where
  | done (r : Result)
  | blocked
deriving Repr, DecidableEq

def storeGet (st : List (Cid × Blk)) (c : Cid) : Option Blk :=
  match st.find? (·.1 == c) with
  | some (_, b) => some b
  | none => none

/-- pathTracker.stillOnUnfollowedRemotePath -/
def stillOnUnfollowed (s : State) (p : Path) : State × Bool :=
  if s.unfollowed.length == 0 then (s, false)
  else if p.length ≤ s.unfollowed.length || !(s.unfollowed.isPrefixOf p) then ({ s with unfollowed := [] }, false)
  else (s, true)

/-- pathTracker.recordRemoteLoadAttempt -/
def recordRemoteAttempt (s : State) (p : Path) (a : Action) : State :=
  if !a.didFollow then { s with unfollowed := p } else s

inductive Wait where
  | remote | offline | blocked
  | err (e : LoadErr)
deriving Repr, DecidableEq

/-- `rl.verifier == nil || rl.verifier.Done()` -/
def State.verifierDone (s : State) : Bool :=
  match s.ver with
  | none => true
  | some v => verDone s.record v

/-- waitRemote; one iteration per unit of fuel (the loop consumes one queue item per iteration) -/
def waitRemote : Nat → State → State × Wait
  | 0, s => (s, .blocked)      -- not reached: fuel = queue length + 1
  | fuel + 1, s =>
    match s.rq.q with
    | head :: _ =>
      if s.verifierDone then ({ s with ver := none }, .remote)
      else
        let v := (s.ver.getD none)
        let path := verPath s.record v
        let s1 := { s with rq := s.rq.consume }
        match verifyNext s.record v head.link head.action.didFollow with
        | .error e => (s1, .err e)
        | .ok v' => waitRemote fuel (recordRemoteAttempt { s1 with ver := some v' } path head.action)
    | [] => if !s.isOpen then (s, .offline) else (s, .blocked)

/-- loadLocal -/
def loadLocal (s : State) (p : Path) (c : Cid) : Result :=
  match storeGet s.store c with
  | some b => { data := some b, err := none, loc := true }
  | none => { data := none, err := some (.missing c p), loc := true }

/-- the private blockReadOpener + the bookkeeping tail of BlockReadOpener -/
def run (s : State) (p : Path) (c : Cid) : State × Out :=
  let fin (s : State) (used : Bool) (r : Result) : State × Out :=
    ({ s with mra := some ⟨c, p, r.err.isNone, used⟩, pending := none }, .done r)
  match waitRemote (s.rq.q.length + 1) s with
  | (s1, .blocked) => ({ s1 with pending := some (p, c) }, .blocked)
  | (s1, .err e) => fin s1 false { data := none, err := some e, loc := false }
  | (s1, .offline) => fin s1 false (loadLocal s1 p c)
  | (s1, .remote) =>
    let (s2, still) := stillOnUnfollowed s1 p
    if still then fin s2 true (loadLocal s2 p c)
    else
      -- loadRemote
      match s2.rq.q with
      | [] => fin s2 true (loadLocal s2 p c)       -- not reached: `.remote` means the queue is non-empty
      | head :: _ =>
        let s3 := { s2 with rq := s2.rq.consume }
        if head.link != c then
          fin s3 true { data := none, err := some (.incorrect c head.link p), loc := false }
        else
          let s4 := recordRemoteAttempt s3 p head.action
          match head.block with
          | none => fin s4 true (loadLocal s4 p c)
          | some b =>
            fin { s4 with store := (c, b) :: s4.store } true
              { data := some b, err := none, loc := false, write := some (c, b) }

/-- BlockReadOpener -/
def load (s : State) (p : Path) (c : Cid) : State × Out :=
  let s1 := match s.mra with
    | some a => { s with record := s.record.record a.path a.link a.successful, mra := none }
    | none => s
  run s1 p c

/-- RetryLastLoad -/
def retry (s : State) : State × Out :=
  match s.mra with
  | none => (s, .done { data := none, err := some .retryNone, loc := false })
  | some a =>
    let s1 := { s with mra := none }
    let s2 := if a.usedRemote then { s1 with rq := s1.rq.retryLast } else s1
    load s2 a.path a.link

/-- re-run a parked load after the state changed (wake-up of `signal.Wait()`) -/
def wake (s : State) : State × Option Result :=
  match s.pending with
  | none => (s, none)
  | some (p, c) =>
    match run s p c with
    | (s', .done r) => (s', some r)
    | (s', .blocked) => (s', none)

/-- SetRemoteOnline -/
def setOnline (s : State) (online : Bool) : State :=
  let was := s.isOpen
  let s1 := { s with isOpen := online }
  -- going online: the queue is emptied (left-overs of a previous response) and what has been
  -- loaded so far will be re-verified against the new response
  if online && !was then { s1 with rq := s1.rq.clear, ver := some (newVerifier s1.record) } else s1

/-- the per-message item construction of IngestResponse -/
def buildItems (md : List (Cid × Action)) (blocks : List (Cid × Blk)) : List Item :=
  let rec go (md : List (Cid × Action)) (dups : List Cid) : List Item :=
    match md with
    | [] => []
    | (l, a) :: rest =>
      if a == .present && !dups.contains l then
        ⟨l, a, storeGet blocks l⟩ :: go rest (l :: dups)
      else ⟨l, a, none⟩ :: go rest dups
  go md []

/-- IngestResponse -/
def ingest (s : State) (md : List (Cid × Action)) (blocks : List (Cid × Blk)) : State :=
  if md.isEmpty then s
  else if !s.isOpen then s
  else { s with rq := s.rq.queue (buildItems md blocks) }

/-- Cleanup -/
def cleanup (s : State) : State := { s with rq := s.rq.clear }

/-! ## operations of the line protocol / of the theorems -/

inductive Op where
  | put (c : Cid)                                   -- test set-up: block `c` is in the local store
  | online (b : Bool)
  | ingest (md : List (Cid × Action)) (blocks : List (Cid × Blk))
  | load (c : Cid) (p : Path)
  | retry
  | cleanup
deriving Repr

inductive OpOut where
  | ok (woken : Option Result)       -- non-load op; a parked load may have completed
  | res (o : Out)                    -- load / retry
  | bad                              -- load / retry while another load is parked (single traversal thread)
deriving Repr

def step (s : State) : Op → State × OpOut
  | .put c => ({ s with store := (c, c) :: s.store }, .ok none)
  | .online b => let (s', w) := wake (setOnline s b); (s', .ok w)
  | .ingest md bl => let (s', w) := wake (ingest s md bl); (s', .ok w)
  | .cleanup => let (s', w) := wake (cleanup s); (s', .ok w)
  | .load c p => if s.pending.isSome then (s, .bad) else let (s', o) := load s p c; (s', .res o)
  | .retry => if s.pending.isSome then (s, .bad) else let (s', o) := retry s; (s', .res o)

def runOps (s : State) : List Op → State × List OpOut
  | [] => (s, [])
  | o :: rest =>
    let (s1, r) := step s o
    let (s2, rs) := runOps s1 rest
    (s2, r :: rs)

end GS.Loader
