import GS.Model.Allocator
/-!
# Allocator: basic list / arithmetic lemmas (helper lemmas for C13, C14)
-/
namespace GS.Alloc

/-! ## arithmetic -/

theorem fits_iff (c a m : Nat) : fits c a m = true ↔ c + a ≤ m := by
  unfold fits; simp; omega

theorem fits_false_iff (c a m : Nat) : fits c a m = false ↔ m < c + a := by
  rw [← Bool.not_eq_true, fits_iff]; omega

theorem add64_eq_add {a b : Nat} (h : a + b < W) : add64 a b = a + b := by
  unfold add64; exact Nat.mod_eq_of_lt h

/-! ## findPeer / setPeer / erasePeer -/

abbrev ids (ps : List PeerSt) : List Nat := ps.map (·.id)

@[simp] theorem findPeer_nil (p : Nat) : findPeer [] p = none := rfl
@[simp] theorem setPeer_nil (st : PeerSt) : setPeer [] st = [] := rfl
@[simp] theorem erasePeer_nil (p : Nat) : erasePeer [] p = [] := rfl

theorem findPeer_cons (a : PeerSt) (rest : List PeerSt) (p : Nat) :
    findPeer (a :: rest) p = if a.id = p then some a else findPeer rest p := by
  unfold findPeer; rw [List.find?_cons]
  by_cases h : a.id = p
  · simp [h]
  · have : (a.id == p) = false := by simpa using h
    simp [h, this]

theorem setPeer_cons (a : PeerSt) (rest : List PeerSt) (st : PeerSt) :
    setPeer (a :: rest) st = (if a.id = st.id then st else a) :: setPeer rest st := by
  unfold setPeer; rw [List.map_cons]
  by_cases h : a.id = st.id <;> simp [h]

theorem erasePeer_cons (a : PeerSt) (rest : List PeerSt) (p : Nat) :
    erasePeer (a :: rest) p = if a.id = p then erasePeer rest p else a :: erasePeer rest p := by
  unfold erasePeer; rw [List.filter_cons]
  by_cases h : a.id = p <;> simp [h]

theorem findPeer_some {ps : List PeerSt} {p : Nat} {st : PeerSt} (h : findPeer ps p = some st) :
    st ∈ ps ∧ st.id = p := by
  induction ps with
  | nil => simp at h
  | cons a rest ih =>
    rw [findPeer_cons] at h
    split at h
    · cases h; simp [*]
    · have := ih h; simp [this]

theorem findPeer_none {ps : List PeerSt} {p : Nat} (h : findPeer ps p = none) :
    ∀ q ∈ ps, q.id ≠ p := by
  induction ps with
  | nil => simp
  | cons a rest ih =>
    rw [findPeer_cons] at h
    split at h
    · cases h
    · intro q hq
      rcases List.mem_cons.mp hq with rfl | hq
      · assumption
      · exact ih h q hq

theorem findPeer_none_of {ps : List PeerSt} {p : Nat} (h : ∀ q ∈ ps, q.id ≠ p) : findPeer ps p = none := by
  cases hf : findPeer ps p with
  | none => rfl
  | some st => have := findPeer_some hf; exact absurd this.2 (h st this.1)

theorem findPeer_of_mem {ps : List PeerSt} {st : PeerSt} (hn : (ids ps).Nodup) (h : st ∈ ps) :
    findPeer ps st.id = some st := by
  induction ps with
  | nil => cases h
  | cons a rest ih =>
    simp only [ids, List.map_cons, List.nodup_cons] at hn
    rw [findPeer_cons]
    rcases List.mem_cons.mp h with rfl | h
    · simp
    · have : a.id ≠ st.id := by
        intro e; apply hn.1; rw [e]; exact List.mem_map_of_mem h
      simp only [this, if_false]
      exact ih hn.2 h

theorem eq_of_mem_of_id_eq {ps : List PeerSt} {a b : PeerSt} (hn : (ids ps).Nodup)
    (ha : a ∈ ps) (hb : b ∈ ps) (h : a.id = b.id) : a = b := by
  have h1 := findPeer_of_mem hn ha
  have h2 := findPeer_of_mem hn hb
  rw [h] at h1; rw [h1] at h2; exact Option.some.inj h2

theorem mem_setPeer {ps : List PeerSt} {st q : PeerSt} (h : q ∈ setPeer ps st) :
    q = st ∨ (q ∈ ps ∧ q.id ≠ st.id) := by
  induction ps with
  | nil => simp at h
  | cons a rest ih =>
    rw [setPeer_cons] at h
    rcases List.mem_cons.mp h with h | h
    · split at h
      · exact Or.inl h
      · subst h; right; simp [*]
    · rcases ih h with h | h
      · exact Or.inl h
      · right; simp [h]

theorem mem_setPeer_self {ps : List PeerSt} {st st0 : PeerSt} (h0 : st0 ∈ ps) (hid : st0.id = st.id) :
    st ∈ setPeer ps st := by
  induction ps with
  | nil => cases h0
  | cons a rest ih =>
    rw [setPeer_cons]
    rcases List.mem_cons.mp h0 with rfl | h0
    · simp [hid]
    · exact List.mem_cons_of_mem _ (ih h0)

theorem mem_setPeer_of_ne {ps : List PeerSt} {st q : PeerSt} (hq : q ∈ ps) (hid : q.id ≠ st.id) :
    q ∈ setPeer ps st := by
  induction ps with
  | nil => cases hq
  | cons a rest ih =>
    rw [setPeer_cons]
    rcases List.mem_cons.mp hq with rfl | hq
    · simp [hid]
    · exact List.mem_cons_of_mem _ (ih hq)

theorem ids_setPeer (ps : List PeerSt) (st : PeerSt) : ids (setPeer ps st) = ids ps := by
  induction ps with
  | nil => rfl
  | cons a rest ih =>
    rw [setPeer_cons]
    simp only [ids, List.map_cons] at ih ⊢
    rw [ih]
    split <;> simp [*]

theorem length_setPeer (ps : List PeerSt) (st : PeerSt) : (setPeer ps st).length = ps.length := by
  unfold setPeer; simp

theorem mem_erasePeer {ps : List PeerSt} {p : Nat} {q : PeerSt} :
    q ∈ erasePeer ps p ↔ q ∈ ps ∧ q.id ≠ p := by
  unfold erasePeer; simp

theorem ids_erasePeer_sublist (ps : List PeerSt) (p : Nat) :
    (ids (erasePeer ps p)).Sublist (ids ps) := by
  unfold ids erasePeer
  exact List.Sublist.map _ List.filter_sublist

theorem nodup_erasePeer {ps : List PeerSt} (p : Nat) (hn : (ids ps).Nodup) :
    (ids (erasePeer ps p)).Nodup := hn.sublist (ids_erasePeer_sublist ps p)

theorem setPeer_eq_self_of_not_mem {ps : List PeerSt} {st : PeerSt} (h : st.id ∉ ids ps) :
    setPeer ps st = ps := by
  induction ps with
  | nil => rfl
  | cons a rest ih =>
    simp only [ids, List.map_cons, List.mem_cons, not_or] at h
    rw [setPeer_cons, ih h.2]
    have : a.id ≠ st.id := fun e => h.1 e.symm
    simp [this]

theorem erasePeer_eq_self_of_not_mem {ps : List PeerSt} {p : Nat} (h : p ∉ ids ps) :
    erasePeer ps p = ps := by
  induction ps with
  | nil => rfl
  | cons a rest ih =>
    simp only [ids, List.map_cons, List.mem_cons, not_or] at h
    rw [erasePeer_cons, ih h.2]
    have : a.id ≠ p := fun e => h.1 e.symm
    simp [this]

/-- replacing the (unique) entry `st0` by `st` changes any per-peer sum accordingly. -/
theorem sum_setPeer (f : PeerSt → Nat) {ps : List PeerSt} {st st0 : PeerSt}
    (hn : (ids ps).Nodup) (h0 : st0 ∈ ps) (hid : st0.id = st.id) :
    ((setPeer ps st).map f).sum + f st0 = (ps.map f).sum + f st := by
  induction ps with
  | nil => cases h0
  | cons a rest ih =>
    simp only [ids, List.map_cons, List.nodup_cons] at hn
    rw [setPeer_cons]
    rcases List.mem_cons.mp h0 with rfl | h0
    · have : st.id ∉ ids rest := by rw [← hid]; exact hn.1
      rw [setPeer_eq_self_of_not_mem this]
      simp only [hid, if_true, List.map_cons, List.sum_cons]; omega
    · have : a.id ≠ st.id := by
        intro e; apply hn.1; rw [e, ← hid]; exact List.mem_map_of_mem h0
      simp only [this, if_false, List.map_cons, List.sum_cons]
      have := ih hn.2 h0
      omega

theorem sum_erasePeer (f : PeerSt → Nat) {ps : List PeerSt} {st0 : PeerSt}
    (hn : (ids ps).Nodup) (h0 : st0 ∈ ps) :
    ((erasePeer ps st0.id).map f).sum + f st0 = (ps.map f).sum := by
  induction ps with
  | nil => cases h0
  | cons a rest ih =>
    simp only [ids, List.map_cons, List.nodup_cons] at hn
    rw [erasePeer_cons]
    rcases List.mem_cons.mp h0 with rfl | h0
    · rw [erasePeer_eq_self_of_not_mem hn.1]
      simp only [if_true, List.map_cons, List.sum_cons]; omega
    · have : a.id ≠ st0.id := by
        intro e; apply hn.1; rw [e]; exact List.mem_map_of_mem h0
      simp only [this, if_false, List.map_cons, List.sum_cons]
      have := ih hn.2 h0
      omega

theorem length_erasePeer {ps : List PeerSt} {st0 : PeerSt}
    (hn : (ids ps).Nodup) (h0 : st0 ∈ ps) :
    (erasePeer ps st0.id).length + 1 = ps.length := by
  have h := sum_erasePeer (fun _ => 1) hn h0
  have e : ∀ l : List PeerSt, (l.map (fun _ => 1)).sum = l.length := by
    intro l; induction l with
    | nil => rfl
    | cons a r ih => simp only [List.map_cons, List.sum_cons, List.length_cons, ih]; omega
  rw [e, e] at h; exact h

/-! pointwise views -/

theorem findPeer_setPeer_same {ps : List PeerSt} {st st0 : PeerSt} (h0 : findPeer ps st.id = some st0) :
    findPeer (setPeer ps st) st.id = some st := by
  induction ps with
  | nil => simp at h0
  | cons a rest ih =>
    rw [findPeer_cons] at h0
    rw [setPeer_cons, findPeer_cons]
    by_cases ha : a.id = st.id
    · simp [ha]
    · simp only [ha, if_false] at h0 ⊢
      exact ih h0

theorem findPeer_setPeer_ne {ps : List PeerSt} {st : PeerSt} {p : Nat} (hp : p ≠ st.id) :
    findPeer (setPeer ps st) p = findPeer ps p := by
  induction ps with
  | nil => rfl
  | cons a rest ih =>
    rw [setPeer_cons, findPeer_cons, findPeer_cons, ih]
    by_cases ha : a.id = st.id
    · have h1 : st.id ≠ p := Ne.symm hp
      have h2 : a.id ≠ p := by rw [ha]; exact h1
      simp [ha, h1]
    · simp [ha]

theorem findPeer_erasePeer_same (ps : List PeerSt) (p : Nat) : findPeer (erasePeer ps p) p = none := by
  apply findPeer_none_of
  intro q hq
  exact (mem_erasePeer.mp hq).2

theorem findPeer_erasePeer_ne {ps : List PeerSt} {p q : Nat} (h : q ≠ p) :
    findPeer (erasePeer ps p) q = findPeer ps q := by
  induction ps with
  | nil => rfl
  | cons a rest ih =>
    rw [erasePeer_cons, findPeer_cons]
    by_cases ha : a.id = p
    · have : a.id ≠ q := by rw [ha]; exact Ne.symm h
      simp only [ha, if_true, ih]
      rw [ha] at this; simp [this]
    · simp only [ha, if_false, findPeer_cons, ih]

theorem findPeer_append_new (ps : List PeerSt) (q : Nat) (st : PeerSt) :
    findPeer (ps ++ [st]) q = (findPeer ps q).or (if st.id = q then some st else none) := by
  induction ps with
  | nil => simp [findPeer_cons]
  | cons a rest ih =>
    rw [List.cons_append, findPeer_cons, findPeer_cons, ih]
    split <;> simp

end GS.Alloc
