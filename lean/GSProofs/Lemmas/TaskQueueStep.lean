import GSProofs.Lemmas.TaskQueueInv
/-!
Helper lemmas for C21, part 4: every step of the worker pool preserves `Inv`.
-/
namespace GS.TQ

/-- queue-only steps (push / remove / thaw): every new tracker either descends from an old one with
    the same id and the same active list, or is fresh and empty; no id is lost. -/
theorem Inv.of_queue {s : Sys} {q' : PTQ} (hI : Inv s)
    (hid : (ids q'.peers).Nodup)
    (hfz : ∀ tr ∈ q'.peers, 0 < tr.freeze → tr.id ∈ q'.frozen)
    (hdesc : ∀ tr' ∈ q'.peers, (∃ tr ∈ s.q.peers, tr'.id = tr.id ∧ tr'.active = tr.active) ∨
        (tr'.active = [] ∧ ∀ tr ∈ s.q.peers, tr.id ≠ tr'.id))
    (hkeep : ∀ tr ∈ s.q.peers, ∃ tr' ∈ q'.peers, tr'.id = tr.id) :
    Inv { s with q := q' } := by
  refine ⟨hid, hfz, ?_, ?_, ?_⟩
  · intro tr' htr' u
    rcases hdesc tr' htr' with ⟨tr, htr, hi, ha⟩ | ⟨ha, _⟩
    · rw [hi, ha]; exact hI.acnt tr htr u
    · rw [ha]; simp [cntUid]
  · intro tr' htr'
    rcases hdesc tr' htr' with ⟨tr, htr, hi, ha⟩ | ⟨ha, hno⟩
    · rw [hi, ha]; exact hI.elen tr htr
    · have := hI.enone tr'.id hno
      show sumBy (heldLen tr'.id) s.workers ≤ _
      omega
  · intro p hp
    apply hI.enone p
    intro tr htr he
    obtain ⟨tr', htr', hi⟩ := hkeep tr htr
    exact hp tr' htr' (hi.trans he)

theorem mem_modifyT_of_mem {ps : List Tracker} {p : Nat} {f : Tracker → Tracker} {t : Tracker}
    (h : t ∈ ps) : (if t.id == p then f t else t) ∈ modifyT ps p f :=
  List.mem_map.mpr ⟨t, h, rfl⟩

/-- modifyT by a function that keeps id and active -/
theorem Inv.modify {s : Sys} {q' : PTQ} {p : Nat} {f : Tracker → Tracker} (hI : Inv s)
    (hp : q'.peers = modifyT s.q.peers p f)
    (hfid : ∀ t, (f t).id = t.id) (hfa : ∀ t, (f t).active = t.active)
    (hfz : ∀ tr ∈ q'.peers, 0 < tr.freeze → tr.id ∈ q'.frozen) :
    Inv { s with q := q' } := by
  apply hI.of_queue
  · rw [hp, ids_modifyT hfid]; exact hI.nodup
  · exact hfz
  · intro tr' htr'
    rw [hp] at htr'
    obtain ⟨t, ht, hc⟩ := mem_modifyT htr'
    left
    rcases hc with ⟨_, rfl⟩ | ⟨_, rfl⟩
    · exact ⟨_, ht, rfl, rfl⟩
    · exact ⟨t, ht, hfid t, hfa t⟩
  · intro tr htr
    refine ⟨_, by rw [hp]; exact mem_modifyT_of_mem htr, ?_⟩
    split
    · exact hfid tr
    · rfl

theorem Inv.push {s : Sys} (hI : Inv s) (p : Nat) (t : Task) :
    Inv { s with q := push s.q p t, signal := true } := by
  obtain ⟨base, hb, hp, hfr, _, _⟩ := push_peers s.q p t
  have key : Inv { s with q := GS.TQ.push s.q p t } := by
    rcases hb with rfl | rfl
    · apply hI.modify hp (fun t' => mergePending_id t' t) (fun t' => mergePending_active t' t)
      intro tr htr hf
      rw [hp] at htr
      obtain ⟨t0, ht0, hc⟩ := mem_modifyT htr
      rw [hfr]
      rcases hc with ⟨_, rfl⟩ | ⟨_, rfl⟩
      · exact hI.frozen _ ht0 hf
      · rw [mergePending_freeze] at hf; rw [mergePending_id]; exact hI.frozen _ ht0 hf
    · -- a fresh tracker was appended; it only exists if no tracker had id `p`
      have hnone : ∀ tr ∈ s.q.peers, tr.id ≠ p := by
        intro tr htr he
        have : findT s.q.peers p ≠ none := by
          obtain ⟨u, hu⟩ := findT_isSome_of_mem htr
          rw [he] at hu; simp [hu]
        apply this
        -- push took the `none` branch
        unfold GS.TQ.push at hp
        cases hf : findT s.q.peers p with
        | none => rfl
        | some u =>
          exfalso
          simp only [hf, refix_peers] at hp
          have hl := congrArg List.length hp
          simp [modifyT] at hl
      apply hI.of_queue
      · rw [hp, ids_modifyT (fun t' => mergePending_id t' t)]
        simp only [ids, List.map_append, List.map_cons, List.map_nil]
        refine List.nodup_append.mpr ⟨hI.nodup, by simp, ?_⟩
        intro a ha b hb
        simp only [List.mem_map] at ha
        obtain ⟨tr, htr, rfl⟩ := ha
        simp at hb; subst hb
        exact hnone tr htr
      · intro tr htr hf
        rw [hp] at htr
        obtain ⟨t0, ht0, hc⟩ := mem_modifyT htr
        rw [hfr]
        have hfr0 : 0 < t0.freeze := by
          rcases hc with ⟨_, rfl⟩ | ⟨_, rfl⟩
          · exact hf
          · rw [mergePending_freeze] at hf; exact hf
        have hid0 : tr.id = t0.id := by
          rcases hc with ⟨_, rfl⟩ | ⟨_, rfl⟩
          · rfl
          · exact mergePending_id _ _
        rcases List.mem_append.mp ht0 with h | h
        · rw [hid0]; exact hI.frozen _ h hfr0
        · simp at h; subst h; simp at hfr0
      · intro tr' htr'
        rw [hp] at htr'
        obtain ⟨t0, ht0, hc⟩ := mem_modifyT htr'
        have hid0 : tr'.id = t0.id ∧ tr'.active = t0.active := by
          rcases hc with ⟨_, rfl⟩ | ⟨_, rfl⟩
          · exact ⟨rfl, rfl⟩
          · exact ⟨mergePending_id _ _, mergePending_active _ _⟩
        rcases List.mem_append.mp ht0 with h | h
        · exact Or.inl ⟨t0, h, hid0.1, hid0.2⟩
        · simp at h; subst h
          right
          refine ⟨by rw [hid0.2], ?_⟩
          intro tr htr; rw [hid0.1]; exact hnone tr htr
      · intro tr htr
        refine ⟨_, by rw [hp]; exact mem_modifyT_of_mem (List.mem_append_left _ htr), ?_⟩
        split
        · exact mergePending_id _ _
        · rfl
  exact ⟨key.nodup, key.frozen, key.acnt, key.elen, key.enone⟩

theorem Inv.remove {s : Sys} (hI : Inv s) (p topic : Nat) :
    Inv { s with q := remove s.q p topic } := by
  obtain ⟨hc, _, _⟩ := remove_peers s.q p topic
  rcases hc with ⟨hp, hf⟩ | ⟨hp, hf⟩ | ⟨hp, hin, hsub⟩
  · exact ⟨by rw [hp]; exact hI.nodup, by rw [hp, hf]; exact hI.frozen,
      by rw [hp]; exact hI.acnt, by rw [hp]; exact hI.elen, by rw [hp]; exact hI.enone⟩
  · apply hI.modify hp (fun _ => rfl) (fun _ => rfl)
    intro tr htr hfz
    rw [hp] at htr
    obtain ⟨t0, ht0, hc⟩ := mem_modifyT htr
    rw [hf]
    rcases hc with ⟨_, rfl⟩ | ⟨_, rfl⟩
    · exact hI.frozen _ ht0 hfz
    · simp [removeT] at hfz ⊢; exact hI.frozen _ ht0 hfz
  · apply hI.modify hp (fun _ => rfl) (fun _ => rfl)
    intro tr htr hfz
    rw [hp] at htr
    obtain ⟨t0, ht0, hc⟩ := mem_modifyT htr
    rcases hc with ⟨_, rfl⟩ | ⟨he, rfl⟩
    · exact hsub _ (hI.frozen _ ht0 hfz)
    · simp only [removeT]; rw [he]; exact hin

theorem Inv.thawOne {s : Sys} (hI : Inv s) (p : Nat) : Inv { s with q := thawOne s.q p } := by
  unfold GS.TQ.thawOne
  split
  · exact hI
  · rename_i tr hfind
    obtain ⟨htr, hid⟩ := findT_some hfind
    apply hI.modify (p := p) (f := thawT) rfl (fun _ => rfl) (fun _ => rfl)
    intro t' ht' hfz
    simp only [refix_peers, refix_frozen] at ht' ⊢
    obtain ⟨t0, ht0, hc⟩ := mem_modifyT ht'
    rcases hc with ⟨hne, rfl⟩ | ⟨he, rfl⟩
    · have := hI.frozen _ ht0 hfz
      split
      · exact List.mem_filter.mpr ⟨this, by simpa using hne⟩
      · exact this
    · have e : t0 = tr := hI.idinj _ ht0 _ htr (he.trans hid.symm)
      subst e
      have hpos : 0 < t0.freeze := Nat.lt_of_lt_of_le hfz (thawT_le t0)
      have hne : ¬ ((thawT t0).freeze == 0) = true := by simp; omega
      rw [if_neg hne]
      exact hI.frozen t0 ht0 hpos

theorem Inv.thaw {s : Sys} (hI : Inv s) : Inv { s with q := thaw s.q } := by
  unfold GS.TQ.thaw
  generalize s.q.frozen = l
  induction l generalizing s with
  | nil => exact hI
  | cons p ps ih =>
    simp only [List.foldl]
    have := ih (s := { s with q := GS.TQ.thawOne s.q p }) (hI.thawOne p)
    exact this

end GS.TQ
