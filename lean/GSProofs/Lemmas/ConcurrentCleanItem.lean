import GSProofs.Lemmas.ConcurrentCleanRoot
import GSProofs.Lemmas.LoaderComplete
import GSProofs.Lemmas.LoaderReplay
/-!
Property C20, completeness clause of `CleanAt` — requestor side, one response item per message.

The executor is parked in `waitRemote` on the node `n` at its cursor, nothing queued, the verifier's
replay over.  One item for `n` arrives (`wake_item`): the parked load consumes it and is answered with
data (block attached, or block already in the local store) or with a missing-block error; the executor
handles the answer and parks on the next node (`drive_park`) or ends the request.
-/
namespace GS.C20
open GS.Loader GS.Requestor GS.LinkTrack GS.Concurrent

/-- a load on an open loader with an empty queue parks -/
theorem park_load (L : Loader.State) (p : Path) (c : Cid) (hq : L.rq.q = []) (ho : L.isOpen = true) :
    (Loader.load L p c).2 = .blocked ∧ obs (Loader.load L p c).1 = { obs L with pending := some (p, c) } := by
  obtain ⟨store, record, mra, unfollowed, isOpen, ver, rq, pending⟩ := L
  obtain ⟨q, last, lastLinked, tailOn⟩ := rq
  simp only at hq ho
  subst hq ho
  cases mra <;> simp [Loader.load, Loader.run, waitRemote, obs]

theorem stillOn_reset (s : Loader.State) (p : Path) (h : s.unfollowed = [] ∨ below s.unfollowed p = false) :
    stillOnUnfollowed s p = ({ s with unfollowed := [] }, false) := by
  obtain ⟨store, record, mra, unfollowed, isOpen, ver, rq, pending⟩ := s
  simp only at h
  unfold stillOnUnfollowed
  by_cases hu : unfollowed = []
  · subst hu; rfl
  · rcases h with h | h
    · exact absurd h hu
    · have hlen : (unfollowed.length == 0) = false := by
        cases unfollowed with
        | nil => exact absurd rfl hu
        | cons a t => rfl
      have hb : (p.length ≤ unfollowed.length || !(unfollowed.isPrefixOf p)) = true := by
        unfold below at h
        cases hp : unfollowed.isPrefixOf p with
        | false => simp
        | true =>
          rw [hp] at h
          simp at h
          simp; omega
      simp only [hlen, hb, Bool.false_eq_true, if_false, if_true]

/-- the parked load is woken by the item for its link -/
theorem wake_item (L : Loader.State) (p : Path) (c : Cid) (it : Item) (md : List (Cid × Action)) (bl : List (Cid × Blk))
    (hbi : buildItems md bl = [it]) (hpend : L.pending = some (p, c)) (hq : L.rq.q = []) (ho : L.isOpen = true)
    (hv : L.verifierDone = true) (hstale : L.unfollowed = [] ∨ below L.unfollowed p = false) (hl : it.link = c) :
    ∃ L' res, Loader.wake (Loader.ingest L md bl) = (L', some res) ∧
      obs L' = ⟨(match it.block with | some b => (c, b) :: L.store | none => L.store),
                 (if it.action.didFollow then [] else p), [], true, none, none⟩ ∧
      (match it.block with
       | some b => res.err = none ∧ res.write = some (c, b)
       | none => res = loadLocal L p c) := by
  have hmd : md.isEmpty = false := by
    cases md with
    | nil => simp [buildItems, buildItems.go] at hbi
    | cons a t => rfl
  obtain ⟨store, record, mra, unfollowed, isOpen, ver, rq, pending⟩ := L
  obtain ⟨q, last, lastLinked, tailOn⟩ := rq
  obtain ⟨link, action, block⟩ := it
  simp only at hpend hq ho hv hstale hl
  subst hpend hq ho hl
  have hvd : ∀ (a : List (Cid × Blk)) (b : Option Attempt) (d : Path) (e : Bool) (f : RQ) (g : Option (Path × Cid)),
      State.verifierDone ⟨a, record, b, d, e, ver, f, g⟩ = true := fun _ _ _ _ _ _ => hv
  cases block with
  | none =>
    cases hdf : action.didFollow <;>
    simp [Loader.ingest, hmd, hbi, RQ.queue, RQ.push, Loader.wake, Loader.run, waitRemote, hvd, stillOn_reset, hstale,
        RQ.consume, recordRemoteAttempt, loadLocal, obs, hdf]
  | some b =>
    cases hdf : action.didFollow <;>
    simp [Loader.ingest, hmd, hbi, RQ.queue, RQ.push, Loader.wake, Loader.run, waitRemote, hvd, stillOn_reset, hstale,
        RQ.consume, recordRemoteAttempt, loadLocal, obs, hdf] <;>
    exact ⟨_, _, ⟨rfl, rfl⟩, ⟨rfl, rfl, rfl, rfl, rfl, rfl⟩, rfl, rfl⟩

/-- the executor after a load was answered: nothing queued, loader open — it ends the request if the
    cursor is empty and parks on the next node otherwise -/
theorem drive_park (f : Nat) (s : Requestor.State) (hrun : s.phase = .running) (hsent : s.requestSent = true)
    (hq : s.L.rq.q = []) (ho : s.L.isOpen = true) :
    (s.todo = [] → drive (f + 1) s = finish s) ∧
    (∀ m rest, s.todo = m :: rest → drive (f + 1) s = ({ s with L := (Loader.load s.L m.path m.cid).1 }, [])) := by
  rw [drive_succ]
  have hp : ¬ ((s.phase != Phase.running) = true) := by simp [hrun]
  rw [if_neg hp]
  constructor
  · intro ht; rw [ht]
  · intro m rest ht
    rw [ht]
    simp only
    rw [loadNode_sent s m hsent]
    have := (park_load s.L m.path m.cid hq ho).1
    generalize Loader.load s.L m.path m.cid = ld at this ⊢
    obtain ⟨l1, out⟩ := ld
    simp only at this
    subst this
    simp only [ht]

/-- the executor is parked in `waitRemote` on `n`, the node at its cursor; nothing is queued and the
    verifier's replay is over -/
structure PK (r : Requestor.State) (n : LNode) (post : LT) : Prop where
  ph : r.phase = .running
  ctx : r.ctxCancelled = false
  sent : r.requestSent = true
  todo : r.todo = n :: post
  pend : r.L.pending = some (n.path, n.cid)
  opn : r.L.isOpen = true
  q : r.L.rq.q = []
  ver : r.L.verifierDone = true

theorem missingOf_append (a b : List Ev) : missingOf (a ++ b) = missingOf a ++ missingOf b := by
  unfold missingOf; rw [List.filterMap_append]

theorem missingOf_writeEvs (r : Result) : missingOf (writeEvs r) = [] := by
  unfold writeEvs missingOf
  cases r.write with
  | none => rfl
  | some x => rfl

theorem missingOf_finish (s : Requestor.State) : missingOf (finish s).2 = [] := by
  unfold finish missingOf
  cases s.terminalErr <;> rfl

/-- what the executor does after the state `s2` it is in once a load was answered and handled -/
theorem after_handle (s2 : Requestor.State) (hrun : s2.phase = .running) (hsent : s2.requestSent = true)
    (hctx : s2.ctxCancelled = false) (hq : s2.L.rq.q = []) (ho : s2.L.isOpen = true) (hv : s2.L.ver = none) :
    missingOf (drive (fuelFor s2) s2).2 = [] ∧ (drive (fuelFor s2) s2).1.ctxCancelled = false ∧
    (drive (fuelFor s2) s2).1.L.store = s2.L.store ∧
    (s2.todo = [] → (drive (fuelFor s2) s2).1.phase = .finished) ∧
    (∀ m post', s2.todo = m :: post' → PK (drive (fuelFor s2) s2).1 m post' ∧
      (drive (fuelFor s2) s2).1.L.unfollowed = s2.L.unfollowed) := by
  have hf : fuelFor s2 = (s2.todo.length + 1) + 1 := rfl
  rw [hf]
  obtain ⟨d1, d2⟩ := drive_park (s2.todo.length + 1) s2 hrun hsent hq ho
  cases ht : s2.todo with
  | nil =>
    rw [ht] at d1 d2
    rw [d1 rfl]
    exact ⟨missingOf_finish s2, hctx, finish_store s2, fun _ => rfl, fun m post' h => (by cases h)⟩
  | cons m post' =>
    rw [ht] at d1 d2
    rw [d2 m post' rfl]
    obtain ⟨_, hobs⟩ := park_load s2.L m.path m.cid hq ho
    simp only [obs, Obs.mk.injEq] at hobs
    obtain ⟨o1, o2, o3, o4, o5, o6⟩ := hobs
    refine ⟨rfl, hctx, o1, fun h => (by cases h), fun m' post'' h => ?_⟩
    cases h
    refine ⟨⟨hrun, hctx, hsent, rfl, o6, o4.trans ho, o3.trans hq, ?_⟩, o2⟩
    show State.verifierDone (Loader.load s2.L m.path m.cid).1 = true
    unfold State.verifierDone
    rw [o5, hv]

/-- the message of an item wire (status 14) is: ingest, then wake the parked load -/
theorem message_eq_resume (L : Loader.State) (todo : LT) (nb us : Nat) (te : Option Nat) (S : List (Cid × Blk))
    (md : List (Cid × Action)) (bl : List (Cid × Blk)) :
    message (rws ⟨L, todo, .running, true, nb, us, false, te⟩ S) true true 14 md bl =
      resume ⟨Loader.ingest (withStore L S) md bl, todo, .running, true, nb, us, false, te⟩ := by
  unfold message
  simp [rws, applyStatus, isTerminal, isSuccess, isFailure]

theorem message_item (r : Requestor.State) (n : LNode) (post : LT) (S : List (Cid × Blk)) (it : Item)
    (md : List (Cid × Action)) (bl : List (Cid × Blk)) (hbi : buildItems md bl = [it]) (hp : PK r n post)
    (hstale : r.L.unfollowed = [] ∨ below r.L.unfollowed n.path = false) (hl : it.link = n.cid)
    (o : Requestor.State × List Ev) (ho : o = message (rws r S) true true 14 md bl) :
    (∀ b, (it.block = some b ∨ (it.block = none ∧ storeGet S n.cid = some b)) →
       missingOf o.2 = [] ∧ o.1.ctxCancelled = false ∧
       o.1.L.store = (match it.block with | some b' => (n.cid, b') :: S | none => S) ∧
       (post = [] → o.1.phase = .finished) ∧
       (∀ m post', post = m :: post' → PK o.1 m post' ∧
          o.1.L.unfollowed = if it.action.didFollow then [] else n.path)) ∧
    (it.block = none → storeGet S n.cid = none → n.depth ≠ 0 →
       missingOf o.2 = [(n.cid, n.path)] ∧ o.1.ctxCancelled = false ∧ o.1.L.store = S ∧
       (skipSub n post = [] → o.1.phase = .finished) ∧
       (∀ m post', skipSub n post = m :: post' → PK o.1 m post' ∧
          o.1.L.unfollowed = if it.action.didFollow then [] else n.path)) := by
  obtain ⟨L, todo, ph, sent, nb, us, cc, te⟩ := r
  obtain ⟨h1, h2, h3, h4, h5, h6, h7, h8⟩ := hp
  simp only at h1 h2 h3 h4 h5 h6 h7 h8 hstale
  subst h1 h2 h3 h4
  obtain ⟨L', res, hw, hobs, hres⟩ := wake_item (withStore L S) n.path n.cid it md bl hbi h5 h7 h6 h8 hstale hl
  simp only [obs, Obs.mk.injEq] at hobs
  obtain ⟨o1, o2, o3, o4, o5, o6⟩ := hobs
  rw [message_eq_resume] at ho
  unfold resume at ho
  simp only [hw] at ho
  constructor
  · intro b hb
    have herr : res.err = none := by
      rcases hb with hb | ⟨hb1, hb2⟩
      · rw [hb] at hres; exact hres.1
      · rw [hb1] at hres
        simp only at hres
        rw [hres]
        simp [loadLocal, withStore, hb2]
    have hh : handle ⟨L', n :: post, .running, true, nb, us, false, te⟩ n post res =
        (⟨L', post, .running, true, nb + 1, us, false, te⟩,
          writeEvs res ++ [Ev.block n.cid n.path res.loc (nb + 1), Ev.prog n.vData], true) := by
      unfold handle; rw [herr]
    rw [hh] at ho
    simp only at ho
    obtain ⟨a1, a2, a3, a4, a5⟩ := after_handle ⟨L', post, .running, true, nb + 1, us, false, te⟩ rfl rfl rfl o3 o4 o5
    generalize drive (fuelFor ⟨L', post, .running, true, nb + 1, us, false, te⟩)
      ⟨L', post, .running, true, nb + 1, us, false, te⟩ = d at ho a1 a2 a3 a4 a5
    subst ho
    refine ⟨?_, a2, a3.trans o1, a4, fun m post' h => ?_⟩
    · simp only [missingOf_append, missingOf_writeEvs, a1, List.append_nil, List.nil_append]
      rfl
    · obtain ⟨k1, k2⟩ := a5 m post' h
      exact ⟨k1, k2.trans o2⟩
  · intro hb hs hd
    rw [hb] at hres o1
    simp only at hres o1
    have hres' : res = { data := none, err := some (.missing n.cid n.path), loc := true } := by
      rw [hres]; simp [loadLocal, withStore, hs]
    have hd' : (n.depth == 0) = false := by simpa using hd
    have hh : handle ⟨L', n :: post, .running, true, nb, us, false, te⟩ n post res =
        (⟨L', skipSub n post, .running, true, nb, us, false, te⟩,
          writeEvs res ++ [Ev.err (.load (.missing n.cid n.path)), Ev.prog n.vSkip], true) := by
      unfold handle; rw [hres']; simp [hd', skipSub]
    rw [hh] at ho
    simp only at ho
    obtain ⟨a1, a2, a3, a4, a5⟩ := after_handle ⟨L', skipSub n post, .running, true, nb, us, false, te⟩ rfl rfl rfl o3 o4 o5
    generalize drive (fuelFor ⟨L', skipSub n post, .running, true, nb, us, false, te⟩)
      ⟨L', skipSub n post, .running, true, nb, us, false, te⟩ = d at ho a1 a2 a3 a4 a5
    subst ho
    refine ⟨?_, a2, a3.trans o1, a4, fun m post' h => ?_⟩
    · simp only [missingOf_append, missingOf_writeEvs, a1, List.append_nil, List.nil_append]
      rfl
    · obtain ⟨k1, k2⟩ := a5 m post' h
      exact ⟨k1, k2.trans o2⟩

/-! ## the replay: an item of the skip window is consumed by the verifier -/

/-- `PK` without the verifier clause -/
structure PK0 (r : Requestor.State) (n : LNode) (post : LT) : Prop where
  ph : r.phase = .running
  ctx : r.ctxCancelled = false
  sent : r.requestSent = true
  todo : r.todo = n :: post
  pend : r.L.pending = some (n.path, n.cid)
  opn : r.L.isOpen = true
  q : r.L.rq.q = []

theorem PK.of0 {r : Requestor.State} {n : LNode} {post : LT} (h : PK0 r n post) (hv : r.L.verifierDone = true) :
    PK r n post := ⟨h.ph, h.ctx, h.sent, h.todo, h.pend, h.opn, h.q, hv⟩

theorem PK.to0 {r : Requestor.State} {n : LNode} {post : LT} (h : PK r n post) : PK0 r n post :=
  ⟨h.ph, h.ctx, h.sent, h.todo, h.pend, h.opn, h.q⟩

/-- the verifier's position in the traversal record `R`: the links of `remPre` (a suffix of the locally
    loaded prefix) are still to be replayed; `[]` = the replay is over -/
def VS (R : TRec) (L : Loader.State) : LT → Prop
  | [] => L.verifierDone = true
  | m :: pre' => TOrd R ∧ PClosed R ∧ (∃ A n, R = A ++ [n] ∧ n.link ≠ none) ∧
      ∃ A B, L.record = R ∧ R = A ++ B ∧ linkedOf B = loadsOf (m :: pre') ∧ L.ver = some (tipOf R B)

theorem waitRemote_empty_open (s : Loader.State) (f : Nat) (hq : s.rq.q = []) (ho : s.isOpen = true) :
    waitRemote (f + 1) s = (s, .blocked) := by
  rw [waitRemote]
  simp [hq, ho]

theorem ingest_one (L : Loader.State) (S : List (Cid × Blk)) (it : Item) (md : List (Cid × Action)) (bl : List (Cid × Blk))
    (hbi : buildItems md bl = [it]) (hq : L.rq.q = []) (ho : L.isOpen = true) :
    (Loader.ingest (withStore L S) md bl).rq.q = [it] ∧ (Loader.ingest (withStore L S) md bl).pending = L.pending ∧
    (Loader.ingest (withStore L S) md bl).isOpen = true ∧ (Loader.ingest (withStore L S) md bl).record = L.record ∧
    (Loader.ingest (withStore L S) md bl).ver = L.ver ∧ (Loader.ingest (withStore L S) md bl).store = S ∧
    (Loader.ingest (withStore L S) md bl).unfollowed = L.unfollowed := by
  have hmd : md.isEmpty = false := by
    cases md with
    | nil => simp [buildItems, buildItems.go] at hbi
    | cons a t => rfl
  obtain ⟨store, record, mra, unfollowed, isOpen, ver, rq, pending⟩ := L
  obtain ⟨q, last, lastLinked, tailOn⟩ := rq
  simp only at hq ho
  subst hq ho
  simp [Loader.ingest, hmd, hbi, RQ.queue, RQ.push, withStore]

theorem message_replay (R : TRec)
    (r : Requestor.State) (n : LNode) (post : LT) (S : List (Cid × Blk)) (m : LNode) (pre' : LT) (it : Item)
    (md : List (Cid × Action)) (bl : List (Cid × Blk)) (hbi : buildItems md bl = [it]) (hp : PK0 r n post)
    (hvs : VS R r.L (m :: pre')) (hl : it.link = m.cid) (ha : it.action = .present)
    (o : Requestor.State × List Ev) (ho : o = message (rws r S) true true 14 md bl) :
    o.2 = [] ∧ PK0 o.1 n post ∧ o.1.L.unfollowed = r.L.unfollowed ∧ o.1.L.store = S ∧ VS R o.1.L pre' := by
  obtain ⟨L, todo, ph, sent, nb, us, cc, te⟩ := r
  obtain ⟨h1, h2, h3, h4, h5, h6, h7⟩ := hp
  simp only at h1 h2 h3 h4 h5 h6 h7 hvs
  subst h1 h2 h3 h4
  obtain ⟨hO, hC, hlast, A, B, hrec, hR, hlk, hver⟩ := hvs
  obtain ⟨i1, i2, i3, i4, i5, i6, i7⟩ := ingest_one L S it md bl hbi h7 h6
  have hlk' : linkedOf B = (m.path, (m.cid, true)) :: loadsOf pre' := hlk
  obtain ⟨U, nm, B2, hB, hnmp, hnml, hB2⟩ := linkedOf_cons_split B _ _ _ hlk'
  have hR2 : R = (A ++ U) ++ nm :: B2 := by rw [hR, hB]; simp
  have hR3 : R = (A ++ U ++ [nm]) ++ B2 := by rw [hR2]; simp
  have htip : tipOf R B = some m.path := tipOf_spec hO hC hR hlk'
  generalize hL1 : Loader.ingest (withStore L S) md bl = L1 at i1 i2 i3 i4 i5 i6 i7
  have hla : linkAt L1.record m.path = some (m.cid, true) := by
    rw [i4, hrec, ← hnmp, linkAt_at hO hR2, hnml]
  have hvs1 : L1.ver = some (some m.path) := by rw [i5, hver, htip]
  have hstep := waitRemote_step L1 1 it [] m.path m.cid i1 hvs1 hla hl
  obtain ⟨g1, g2, g3, g4, g5, g6, g7, g8⟩ := replayNext_fields L1 m.path it [] i1
  generalize replayNext L1 m.path it = s1 at hstep g1 g2 g3 g4 g5 g6 g7 g8
  have hblk := waitRemote_empty_open s1 0 g6 (g4.trans i3)
  have hrun : Loader.run L1 n.path n.cid = ({ s1 with pending := some (n.path, n.cid) }, .blocked) := by
    rw [run_eq_post, i1]
    show GS.Loader.post n.path n.cid (waitRemote (1 + 1) L1) = _
    rw [hstep, hblk]
    rfl
  have hwake : Loader.wake L1 = ({ s1 with pending := some (n.path, n.cid) }, none) := by
    unfold Loader.wake
    rw [i2, h5]
    simp only [hrun]
  rw [message_eq_resume, hL1] at ho
  unfold resume at ho
  simp only [hwake] at ho
  subst ho
  have hnl : nextLink R m.path true = tipOf R B2 := by rw [← hnmp]; exact nextLink_true' hO hC hR2
  refine ⟨rfl, ⟨rfl, rfl, rfl, rfl, rfl, g4.trans i3, g6⟩, ?_, g1.trans i6, ?_⟩
  · show s1.unfollowed = L.unfollowed
    rw [g8, ha]
    simp only [Action.didFollow, if_true]
    exact i7
  · have hv1 : s1.ver = some (tipOf R B2) := by
      rw [g7, ha, i4, hrec]
      simp only [Action.didFollow]
      rw [hnl]
    cases pre' with
    | nil =>
      have hB2nil : B2 = [] := linkedOf_nil_suffix hR3 hlast (by rw [hB2]; rfl)
      rw [hB2nil] at hv1
      show State.verifierDone _ = true
      unfold State.verifierDone
      simp only [hv1]
      rfl
    | cons m2 pre'' =>
      exact ⟨hO, hC, hlast, A ++ U ++ [nm], B2, (g2.trans i4).trans hrec, hR3, hB2, hv1⟩

end GS.C20
