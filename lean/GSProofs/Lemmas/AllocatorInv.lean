import GSProofs.Lemmas.AllocatorBasic
/-!
# Allocator: the structural invariant `WF`, admissible `Peek` functions, the wake-up loop

* `WF s` — well-formedness of an allocator state (holds in every reachable state *and* in every
  intermediate state of the wake-up loop).
* `Admissible pick` — all that is assumed about the priority queue.
* `loopStep_grant` / `loopStep_erase` / `loopStep_none` — what one loop iteration does.
* `processPending_rec` — induction principle for the wake-up loop; it contains the proof that the
  fuel `fuelFor` is sufficient (the loop always stops because `loopStep` returned `none`).
-/
namespace GS.Alloc

structure WF (s : State) : Prop where
  cfgT : s.maxTotal < W
  cfgP : s.maxPeer < W
  nodup : (ids s.peers).Nodup
  sum : s.total = (s.peers.map (·.total)).sum
  limT : s.total ≤ s.maxTotal
  limP : ∀ st ∈ s.peers, st.total ≤ s.maxPeer
  sorted : ∀ st ∈ s.peers, (st.pending.map (·.idx)).Pairwise (· < ·)
  bound : ∀ st ∈ s.peers, ∀ pa ∈ st.pending, pa.idx < s.nextIdx
  inj : ∀ st1 ∈ s.peers, ∀ st2 ∈ s.peers, ∀ a ∈ st1.pending, ∀ b ∈ st2.pending,
          a.idx = b.idx → st1.id = st2.id

theorem WF.init {mt mp : Nat} (ht : mt < W) (hp : mp < W) : WF (init mt mp) := by
  constructor <;> simp [GS.Alloc.init, ht, hp]

/-- replace the entry `st0` by `st` (same id). -/
theorem WF.update {s : State} (h : WF s) {st0 st : PeerSt} {T n : Nat}
    (h0 : st0 ∈ s.peers) (hid : st0.id = st.id)
    (hT : T + st0.total = s.total + st.total) (hTl : T ≤ s.maxTotal) (hPl : st.total ≤ s.maxPeer)
    (hn : s.nextIdx ≤ n)
    (hsorted : (st.pending.map (·.idx)).Pairwise (· < ·))
    (hbound : ∀ pa ∈ st.pending, pa.idx < n)
    (hfresh : ∀ pa ∈ st.pending, pa ∈ st0.pending ∨ s.nextIdx ≤ pa.idx) :
    WF { s with total := T, nextIdx := n, peers := setPeer s.peers st } := by
  have hsum : ((setPeer s.peers st).map (fun q => q.total)).sum + st0.total
      = (s.peers.map (fun q => q.total)).sum + st.total := sum_setPeer (·.total) h.nodup h0 hid
  have hs := h.sum
  refine ⟨h.cfgT, h.cfgP, ?_, ?_, hTl, ?_, ?_, ?_, ?_⟩
  · show (ids (setPeer s.peers st)).Nodup
    rw [ids_setPeer]; exact h.nodup
  · show T = ((setPeer s.peers st).map (·.total)).sum
    omega
  · intro q hq
    rcases mem_setPeer hq with rfl | ⟨hq, _⟩
    · exact hPl
    · exact h.limP q hq
  · intro q hq
    rcases mem_setPeer hq with rfl | ⟨hq, _⟩
    · exact hsorted
    · exact h.sorted q hq
  · intro q hq pa hpa
    rcases mem_setPeer hq with rfl | ⟨hq, _⟩
    · exact hbound pa hpa
    · exact Nat.lt_of_lt_of_le (h.bound q hq pa hpa) hn
  · intro q1 hq1 q2 hq2 a ha b hb hab
    rcases mem_setPeer hq1 with e1 | ⟨hq1', hne1⟩ <;> rcases mem_setPeer hq2 with e2 | ⟨hq2', hne2⟩
    · rw [e1, e2]
    · rw [e1] at ha ⊢
      rcases hfresh a ha with ha0 | hfr
      · rw [← hid]; exact h.inj st0 h0 q2 hq2' a ha0 b hb hab
      · have := h.bound q2 hq2' b hb; omega
    · rw [e2] at hb ⊢
      rcases hfresh b hb with hb0 | hfr
      · rw [← hid]; exact h.inj q1 hq1' st0 h0 a ha b hb0 hab
      · have := h.bound q1 hq1' a ha; omega
    · exact h.inj q1 hq1' q2 hq2' a ha b hb hab

/-- remove the entry `st0` and give back its memory. -/
theorem WF.erase {s : State} (h : WF s) {st0 : PeerSt} (h0 : st0 ∈ s.peers) :
    WF { s with total := s.total - st0.total, peers := erasePeer s.peers st0.id } := by
  have hsum : ((erasePeer s.peers st0.id).map (fun q => q.total)).sum + st0.total
      = (s.peers.map (fun q => q.total)).sum := sum_erasePeer (·.total) h.nodup h0
  have hs := h.sum
  have hl := h.limT
  refine ⟨h.cfgT, h.cfgP, nodup_erasePeer _ h.nodup, ?_, ?_, ?_, ?_, ?_, ?_⟩
  · show s.total - st0.total = ((erasePeer s.peers st0.id).map (·.total)).sum
    omega
  · show s.total - st0.total ≤ s.maxTotal
    omega
  · intro q hq; exact h.limP q (mem_erasePeer.mp hq).1
  · intro q hq; exact h.sorted q (mem_erasePeer.mp hq).1
  · intro q hq; exact h.bound q (mem_erasePeer.mp hq).1
  · intro q1 hq1 q2 hq2
    exact h.inj q1 (mem_erasePeer.mp hq1).1 q2 (mem_erasePeer.mp hq2).1

/-- add a fresh, empty entry. -/
theorem WF.addPeer {s : State} (h : WF s) {p : Nat} (hp : findPeer s.peers p = none) :
    WF { s with peers := s.peers ++ [{ id := p, total := 0, pending := [] }] } := by
  have hnone := findPeer_none hp
  refine ⟨h.cfgT, h.cfgP, ?_, ?_, h.limT, ?_, ?_, ?_, ?_⟩
  · show (ids (s.peers ++ [_])).Nodup
    simp only [ids, List.map_append, List.map_cons, List.map_nil]
    refine List.nodup_append.mpr ⟨h.nodup, by simp, ?_⟩
    intro a ha b hb
    simp only [List.mem_cons, List.not_mem_nil, or_false] at hb
    obtain ⟨q, hq, rfl⟩ := List.mem_map.mp ha
    rw [hb]; exact hnone q hq
  · show s.total = ((s.peers ++ [_]).map (fun q : PeerSt => q.total)).sum
    simp [h.sum]
  · intro q hq
    rcases List.mem_append.mp hq with hq | hq
    · exact h.limP q hq
    · simp only [List.mem_cons, List.not_mem_nil, or_false] at hq; subst hq; exact Nat.zero_le _
  · intro q hq
    rcases List.mem_append.mp hq with hq | hq
    · exact h.sorted q hq
    · simp only [List.mem_cons, List.not_mem_nil, or_false] at hq; subst hq; simp
  · intro q hq
    rcases List.mem_append.mp hq with hq | hq
    · exact h.bound q hq
    · simp only [List.mem_cons, List.not_mem_nil, or_false] at hq; subst hq; simp
  · intro q1 hq1 q2 hq2 a ha b hb
    rcases List.mem_append.mp hq1 with hq1 | hq1
    · rcases List.mem_append.mp hq2 with hq2 | hq2
      · exact h.inj q1 hq1 q2 hq2 a ha b hb
      · simp only [List.mem_cons, List.not_mem_nil, or_false] at hq2; subst hq2; simp at hb
    · simp only [List.mem_cons, List.not_mem_nil, or_false] at hq1; subst hq1; simp at ha

/-! ## the priority queue -/

/-- Everything the proofs assume about `Peek` of the priority queue: it fails only on the empty
    queue and otherwise returns an element that no element sorts strictly before
    (w.r.t. `makePeerStatusCompare` = `PeerSt.lt`).  Ties may be broken arbitrarily. -/
structure Admissible (pick : Pick) : Prop where
  nonempty : ∀ mp ps, pick mp ps = none → ps = []
  mem : ∀ mp ps np, pick mp ps = some np → np ∈ ps
  min : ∀ mp ps np, pick mp ps = some np → ∀ b ∈ ps, PeerSt.lt mp b np = false

/-- `¬ lt c b → ¬ lt b a → ¬ lt c a` (the comparator is a strict weak order). -/
theorem lt_negtrans {mp : Nat} {a b c : PeerSt}
    (h1 : PeerSt.lt mp c b = false) (h2 : PeerSt.lt mp b a = false) : PeerSt.lt mp c a = false := by
  unfold PeerSt.lt at *
  rcases ha : a.pending with _ | ⟨ha', _⟩ <;> rcases hb : b.pending with _ | ⟨hb', _⟩ <;>
    rcases hc : c.pending with _ | ⟨hc', _⟩ <;> simp only [ha, hb, hc] at h1 h2 ⊢ <;>
    try (first | rfl | contradiction)
  · simp only [decide_eq_false_iff_not] at *; omega
  · rcases hfa : fits a.total ha'.amount mp <;> rcases hfb : fits b.total hb'.amount mp <;>
      rcases hfc : fits c.total hc'.amount mp <;> simp [hfa, hfb, hfc] at h1 h2 ⊢ <;> omega

theorem lt_asymm {mp : Nat} {a b : PeerSt} (h : PeerSt.lt mp b a = true) : PeerSt.lt mp a b = false := by
  unfold PeerSt.lt at *
  rcases ha : a.pending with _ | ⟨ha', _⟩ <;> rcases hb : b.pending with _ | ⟨hb', _⟩ <;>
    simp only [ha, hb] at h ⊢ <;> try (first | rfl | contradiction)
  · simp only [decide_eq_true_eq, decide_eq_false_iff_not] at *; omega
  · rcases hfa : fits a.total ha'.amount mp <;> rcases hfb : fits b.total hb'.amount mp <;>
      simp [hfa, hfb] at h ⊢ <;> omega

theorem lt_irrefl (mp : Nat) (a : PeerSt) : PeerSt.lt mp a a = false := by
  cases h : PeerSt.lt mp a a with
  | false => rfl
  | true => have := lt_asymm h; rw [h] at this; cases this

theorem pickMin_admissible : Admissible pickMin := by
  refine ⟨?_, ?_, ?_⟩
  · intro mp ps h
    cases ps with
    | nil => rfl
    | cons a rest =>
      unfold pickMin at h
      split at h
      · cases h
      · split at h <;> cases h
  · intro mp ps
    induction ps with
    | nil => intro np h; simp [pickMin] at h
    | cons a rest ih =>
      intro np h
      unfold pickMin at h
      split at h
      · cases h; simp
      · rename_i b hb
        split at h
        · cases h; exact List.mem_cons_of_mem _ (ih _ hb)
        · cases h; simp
  · intro mp ps
    induction ps with
    | nil => intro np h; simp [pickMin] at h
    | cons a rest ih =>
      intro np h c hc
      unfold pickMin at h
      split at h
      · rename_i hnone
        cases h
        have : rest = [] := by
          cases rest with
          | nil => rfl
          | cons x r =>
            unfold pickMin at hnone
            split at hnone
            · cases hnone
            · split at hnone <;> cases hnone
        subst this
        simp only [List.mem_cons, List.not_mem_nil, or_false] at hc
        subst hc; exact lt_irrefl _ _
      · rename_i b hb
        have hmin := ih b hb
        split at h
        · rename_i hlt
          cases h
          rcases List.mem_cons.mp hc with rfl | hc
          · exact lt_asymm hlt
          · exact hmin c hc
        · rename_i hlt
          cases h
          have hlt' : PeerSt.lt mp b a = false := by simpa using hlt
          rcases List.mem_cons.mp hc with rfl | hc
          · exact lt_irrefl _ _
          · exact lt_negtrans (hmin c hc) hlt'

/-! ## one iteration of the wake-up loop -/

/-- `st`'s head allocation `h` fits `st`'s own per-peer limit. -/
def HeadFits (mp : Nat) (st : PeerSt) (h : Pending) : Prop :=
  (∃ rest, st.pending = h :: rest) ∧ st.total + h.amount ≤ mp

/-- consequences of comparator-minimality of `np` -/
theorem min_of_headFits {mp : Nat} {ps : List PeerSt} {np : PeerSt} {h : Pending} {rest : List Pending}
    (hmin : ∀ b ∈ ps, PeerSt.lt mp b np = false) (hp : np.pending = h :: rest)
    (hf : np.total + h.amount ≤ mp) :
    ∀ c ∈ ps, ∀ h', HeadFits mp c h' → h.idx ≤ h'.idx := by
  intro c hc h' ⟨⟨r', hp'⟩, hf'⟩
  have := hmin c hc
  unfold PeerSt.lt at this
  simp only [hp, hp'] at this
  have e1 : fits np.total h.amount mp = true := (fits_iff _ _ _).mpr hf
  have e2 : fits c.total h'.amount mp = true := (fits_iff _ _ _).mpr hf'
  simp [e1, e2] at this
  exact this

theorem no_headFits_of_min_nofit {mp : Nat} {ps : List PeerSt} {np : PeerSt} {h : Pending} {rest : List Pending}
    (hmin : ∀ b ∈ ps, PeerSt.lt mp b np = false) (hp : np.pending = h :: rest)
    (hf : mp < np.total + h.amount) :
    ∀ c ∈ ps, ∀ h', ¬ HeadFits mp c h' := by
  intro c hc h' ⟨⟨r', hp'⟩, hf'⟩
  have := hmin c hc
  unfold PeerSt.lt at this
  simp only [hp, hp'] at this
  have e1 : fits np.total h.amount mp = false := (fits_false_iff _ _ _).mpr hf
  have e2 : fits c.total h'.amount mp = true := (fits_iff _ _ _).mpr hf'
  simp [e1, e2] at this

theorem no_pending_of_min_empty {mp : Nat} {ps : List PeerSt} {np : PeerSt}
    (hmin : ∀ b ∈ ps, PeerSt.lt mp b np = false) (hp : np.pending = []) :
    ∀ c ∈ ps, c.pending = [] := by
  intro c hc
  have := hmin c hc
  unfold PeerSt.lt at this
  rcases hc' : c.pending with _ | ⟨x, r⟩
  · rfl
  · simp [hp, hc'] at this

/-- result of a granting iteration -/
def grantState (s : State) (np : PeerSt) (h : Pending) (rest : List Pending) : State :=
  { s with total := s.total + h.amount,
           peers := setPeer s.peers { np with total := np.total + h.amount, pending := rest } }

inductive LoopCase (pick : Pick) (s : State) : Option (State × List Event) → Prop
  | stopEmpty : s.peers = [] → LoopCase pick s none
  | stopTotal (np h rest) : np ∈ s.peers → (∀ b ∈ s.peers, PeerSt.lt s.maxPeer b np = false) →
      np.pending = h :: rest → s.maxTotal < s.total + h.amount → LoopCase pick s none
  | stopPeer (np h rest) : np ∈ s.peers → (∀ b ∈ s.peers, PeerSt.lt s.maxPeer b np = false) →
      np.pending = h :: rest → s.maxPeer < np.total + h.amount → LoopCase pick s none
  | stopIdle (np) : np ∈ s.peers → (∀ b ∈ s.peers, PeerSt.lt s.maxPeer b np = false) →
      np.pending = [] → 0 < np.total → LoopCase pick s none
  | grant (np h rest) : np ∈ s.peers → (∀ b ∈ s.peers, PeerSt.lt s.maxPeer b np = false) →
      np.pending = h :: rest → s.total + h.amount ≤ s.maxTotal → np.total + h.amount ≤ s.maxPeer →
      LoopCase pick s (some (grantState s np h rest, [Event.granted np.id h.ticket h.amount]))
  | erase (np) : np ∈ s.peers → (∀ b ∈ s.peers, PeerSt.lt s.maxPeer b np = false) →
      np.pending = [] → np.total = 0 →
      LoopCase pick s (some ({ s with peers := erasePeer s.peers np.id }, []))

/-- complete case analysis of one loop iteration (in a well-formed state `add64` is exact). -/
theorem loopStep_cases {pick : Pick} (hp : Admissible pick) {s : State} (hw : WF s) :
    LoopCase pick s (loopStep pick s) := by
  unfold loopStep
  cases hpk : pick s.maxPeer s.peers with
  | none => exact .stopEmpty (hp.nonempty _ _ hpk)
  | some np =>
    have hmem := hp.mem _ _ _ hpk
    have hmin := hp.min _ _ _ hpk
    simp only
    rcases hpend : np.pending with _ | ⟨h, rest⟩
    · simp only
      split
      · rename_i hpos; exact .stopIdle np hmem hmin hpend hpos
      · rename_i hpos; exact .erase np hmem hmin hpend (by omega)
    · simp only
      cases hf1 : fits s.total h.amount s.maxTotal with
      | false => exact .stopTotal np h rest hmem hmin hpend ((fits_false_iff _ _ _).mp hf1)
      | true =>
        cases hf2 : fits np.total h.amount s.maxPeer with
        | false => exact .stopPeer np h rest hmem hmin hpend ((fits_false_iff _ _ _).mp hf2)
        | true =>
          have h1 := (fits_iff _ _ _).mp hf1
          have h2 := (fits_iff _ _ _).mp hf2
          have e1 : add64 s.total h.amount = s.total + h.amount :=
            add64_eq_add (Nat.lt_of_le_of_lt h1 hw.cfgT)
          have e2 : add64 np.total h.amount = np.total + h.amount :=
            add64_eq_add (Nat.lt_of_le_of_lt h2 hw.cfgP)
          simp only [Bool.not_true, Bool.false_eq_true, if_false, e1, e2]
          exact .grant np h rest hmem hmin hpend h1 h2

theorem WF.grant {s : State} (hw : WF s) {np : PeerSt} {h : Pending} {rest : List Pending}
    (hmem : np ∈ s.peers) (hpend : np.pending = h :: rest)
    (h1 : s.total + h.amount ≤ s.maxTotal) (h2 : np.total + h.amount ≤ s.maxPeer) :
    WF (grantState s np h rest) := by
  have hs := hw.sorted np hmem
  rw [hpend] at hs
  simp only [List.map_cons, List.pairwise_cons] at hs
  refine hw.update (st := { np with total := np.total + h.amount, pending := rest }) (n := s.nextIdx)
    hmem rfl ?_ h1 h2 (Nat.le_refl _) hs.2 ?_ ?_
  · simp only; omega
  · intro pa hpa; exact hw.bound np hmem pa (by rw [hpend]; exact List.mem_cons_of_mem _ hpa)
  · intro pa hpa; left; rw [hpend]; exact List.mem_cons_of_mem _ hpa

theorem WF.eraseIdle {s : State} (hw : WF s) {np : PeerSt} (hmem : np ∈ s.peers) (ht : np.total = 0) :
    WF { s with peers := erasePeer s.peers np.id } := by
  have := hw.erase hmem
  simpa [ht] using this

def measure (s : State) : Nat := pendingCount s.peers + s.peers.length

theorem loopStep_WF {pick : Pick} (hp : Admissible pick) {s s' : State} {e : List Event} (hw : WF s)
    (h : loopStep pick s = some (s', e)) : WF s' := by
  have hc := loopStep_cases hp hw
  rw [h] at hc
  cases hc with
  | grant np hd rest hmem hmin hpend h1 h2 => exact hw.grant hmem hpend h1 h2
  | erase np hmem hmin hpend ht => exact hw.eraseIdle hmem ht

theorem loopStep_measure {pick : Pick} (hp : Admissible pick) {s s' : State} {e : List Event} (hw : WF s)
    (h : loopStep pick s = some (s', e)) : measure s' < measure s := by
  have hc := loopStep_cases hp hw
  rw [h] at hc
  cases hc with
  | grant np hd rest hmem hmin hpend h1 h2 =>
    have := sum_setPeer (·.pending.length) hw.nodup hmem
      (st := { np with total := np.total + hd.amount, pending := rest }) rfl
    simp only [hpend, List.length_cons] at this
    unfold measure grantState pendingCount
    simp only [length_setPeer]
    omega
  | erase np hmem hmin hpend ht =>
    have h1 := sum_erasePeer (·.pending.length) hw.nodup hmem
    have h2 := length_erasePeer hw.nodup hmem
    simp only [hpend, List.length_nil] at h1
    unfold measure pendingCount
    simp only
    omega

theorem loopStep_cfg {pick : Pick} {s s' : State} {e : List Event}
    (h : loopStep pick s = some (s', e)) :
    s'.maxTotal = s.maxTotal ∧ s'.maxPeer = s.maxPeer ∧ s'.nextIdx = s.nextIdx := by
  unfold loopStep at h
  split at h
  · cases h
  · split at h
    · split at h
      · cases h
      · split at h
        · cases h
        · cases h; simp
    · split at h
      · cases h
      · cases h; simp

/-- Induction principle for the wake-up loop started in a well-formed state.  `stop`: the loop ends
    exactly when `loopStep` returns `none` (never because the fuel ran out — that is the fuel
    sufficiency proof); `iter`: one iteration followed by the rest of the loop. -/
theorem processPending_rec {pick : Pick} (hp : Admissible pick)
    {motive : State → State × List Event → Prop}
    (stop : ∀ s, WF s → loopStep pick s = none → motive s (s, []))
    (iter : ∀ s s1 e r, WF s → WF s1 → loopStep pick s = some (s1, e) → motive s1 r →
              motive s (r.1, e ++ r.2))
    (s : State) (hw : WF s) : motive s (processPending pick s) := by
  have key : ∀ fuel s, WF s → measure s < fuel → motive s (processPendingFuel pick fuel s) := by
    intro fuel
    induction fuel with
    | zero => intro s _ h; omega
    | succ fuel ih =>
      intro s hw hm
      unfold processPendingFuel
      cases hl : loopStep pick s with
      | none => exact stop s hw hl
      | some r =>
        obtain ⟨s1, e⟩ := r
        have hw1 := loopStep_WF hp hw hl
        have hm1 := loopStep_measure hp hw hl
        exact iter s s1 e _ hw hw1 hl (ih s1 hw1 (by omega))
  exact key _ s hw (by unfold fuelFor measure; omega)

end GS.Alloc
