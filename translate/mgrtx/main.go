// Command mgrtx regenerates lean/GS/Generated/MgrTx.lean (property C25) from
//
//	responsemanager/server.go, responsemanager/preparequery.go
//	        every `responseStream.Transaction(func(rb) ...)` executed on the response-manager
//	        goroutine, with whether its closure can queue data of non-zero size
//	        (SendExtensionData / SendUpdates / SendResponse) or only status codes
//	requestmanager/client.go SendRequest
//	        the size argument of its AllocateAndBuildMessage call
//	messagequeue/messagequeue.go AllocateAndBuildMessage
//	        that the reservation is only made under `if size > 0`
//
// usage: go run ./mgrtx <repo>      (prints the Lean file; exits non-zero on syntax it does not know)
package main

import (
	"fmt"
	"go/ast"
	"go/parser"
	"go/token"
	"os"
	"path/filepath"
	"strings"
)

var fset = token.NewFileSet()

func die(pos token.Pos, format string, a ...interface{}) {
	where := ""
	if pos.IsValid() {
		where = fset.Position(pos).String() + ": "
	}
	fmt.Fprintf(os.Stderr, "mgrtx: %s%s\n", where, fmt.Sprintf(format, a...))
	os.Exit(1)
}

func parse(path string) *ast.File {
	f, err := parser.ParseFile(fset, path, nil, 0)
	if err != nil {
		die(token.NoPos, "%v", err)
	}
	return f
}

type site struct {
	fn   string
	data bool
}

var dataCalls = map[string]bool{"SendExtensionData": true, "SendUpdates": true, "SendResponse": true}
var statusCalls = map[string]bool{"FinishWithError": true, "FinishRequest": true, "PauseRequest": true, "Context": true}

func sitesOf(f *ast.File) []site {
	var out []site
	for _, d := range f.Decls {
		fd, ok := d.(*ast.FuncDecl)
		if !ok || fd.Body == nil {
			continue
		}
		ast.Inspect(fd.Body, func(n ast.Node) bool {
			ce, ok := n.(*ast.CallExpr)
			if !ok {
				return true
			}
			sel, ok := ce.Fun.(*ast.SelectorExpr)
			if !ok || sel.Sel.Name != "Transaction" {
				return true
			}
			if len(ce.Args) != 1 {
				die(ce.Pos(), "Transaction call with %d arguments", len(ce.Args))
			}
			fl, ok := ce.Args[0].(*ast.FuncLit)
			if !ok {
				die(ce.Pos(), "Transaction argument is not a function literal")
			}
			if len(fl.Type.Params.List) != 1 || len(fl.Type.Params.List[0].Names) != 1 {
				die(fl.Pos(), "transaction closure: unexpected parameters")
			}
			rb := fl.Type.Params.List[0].Names[0].Name
			data := false
			ast.Inspect(fl.Body, func(m ast.Node) bool {
				c, ok := m.(*ast.CallExpr)
				if !ok {
					return true
				}
				s, ok := c.Fun.(*ast.SelectorExpr)
				if !ok {
					return true
				}
				if id, ok := s.X.(*ast.Ident); ok && id.Name == rb {
					switch {
					case dataCalls[s.Sel.Name]:
						data = true
					case statusCalls[s.Sel.Name]:
					default:
						die(c.Pos(), "unknown ResponseBuilder method %s", s.Sel.Name)
					}
				}
				return true
			})
			out = append(out, site{fd.Name.Name, data})
			return false
		})
	}
	return out
}

func findFunc(f *ast.File, name string) *ast.FuncDecl {
	for _, d := range f.Decls {
		if fd, ok := d.(*ast.FuncDecl); ok && fd.Name.Name == name {
			return fd
		}
	}
	die(f.Pos(), "function %s not found", name)
	return nil
}

func main() {
	if len(os.Args) < 2 {
		die(token.NoPos, "usage: mgrtx <repo>")
	}
	repo := os.Args[1]
	var sites []site
	for _, fn := range []string{"responsemanager/server.go", "responsemanager/preparequery.go"} {
		sites = append(sites, sitesOf(parse(filepath.Join(repo, fn)))...)
	}
	if len(sites) == 0 {
		die(token.NoPos, "no manager-side transactions found")
	}
	// requestmanager SendRequest: AllocateAndBuildMessage(p, <size>, ...)
	sr := findFunc(parse(filepath.Join(repo, "requestmanager/client.go")), "SendRequest")
	sendSize := ""
	ast.Inspect(sr.Body, func(n ast.Node) bool {
		ce, ok := n.(*ast.CallExpr)
		if !ok {
			return true
		}
		if s, ok := ce.Fun.(*ast.SelectorExpr); ok && s.Sel.Name == "AllocateAndBuildMessage" {
			if len(ce.Args) != 3 {
				die(ce.Pos(), "AllocateAndBuildMessage with %d arguments", len(ce.Args))
			}
			bl, ok := ce.Args[1].(*ast.BasicLit)
			if !ok || bl.Kind != token.INT {
				die(ce.Args[1].Pos(), "SendRequest: size argument is not an integer literal")
			}
			sendSize = bl.Value
		}
		return true
	})
	if sendSize == "" {
		die(sr.Pos(), "SendRequest: no AllocateAndBuildMessage call")
	}
	// messagequeue.AllocateAndBuildMessage: first statement `if size > 0 { ... AllocateBlockMemory ... }`
	ab := findFunc(parse(filepath.Join(repo, "messagequeue/messagequeue.go")), "AllocateAndBuildMessage")
	guarded := false
	if len(ab.Body.List) > 0 {
		if is, ok := ab.Body.List[0].(*ast.IfStmt); ok {
			if be, ok := is.Cond.(*ast.BinaryExpr); ok && be.Op == token.GTR {
				if x, ok := be.X.(*ast.Ident); ok && x.Name == "size" {
					if y, ok := be.Y.(*ast.BasicLit); ok && y.Value == "0" {
						ast.Inspect(is.Body, func(n ast.Node) bool {
							if s, ok := n.(*ast.SelectorExpr); ok && s.Sel.Name == "AllocateBlockMemory" {
								guarded = true
							}
							return true
						})
					}
				}
			}
		}
	}
	allocOutside := false
	for i, st := range ab.Body.List {
		if i == 0 {
			continue
		}
		ast.Inspect(st, func(n ast.Node) bool {
			if s, ok := n.(*ast.SelectorExpr); ok && s.Sel.Name == "AllocateBlockMemory" {
				allocOutside = true
			}
			return true
		})
	}
	if !guarded || allocOutside {
		die(ab.Pos(), "AllocateAndBuildMessage: the reservation is not (only) made under `if size > 0`")
	}
	var sb strings.Builder
	sb.WriteString("/-\nGENERATED by translate/mgrtx from responsemanager/server.go, responsemanager/preparequery.go,\nrequestmanager/client.go, messagequeue/messagequeue.go -- do not edit.\n-/\nnamespace GS.Generated.MgrTx\n\n")
	sb.WriteString("/-- every `Transaction` executed on the response-manager goroutine: (enclosing function, can it\n    queue data of non-zero size: SendExtensionData / SendUpdates / SendResponse) -/\ndef managerTransactions : List (String × Bool) :=\n  [")
	for i, s := range sites {
		if i > 0 {
			sb.WriteString(",\n   ")
		}
		fmt.Fprintf(&sb, "(%q, %v)", s.fn, s.data)
	}
	sb.WriteString("]\n\n")
	fmt.Fprintf(&sb, "/-- size argument of the AllocateAndBuildMessage call in RequestManager.SendRequest -/\ndef sendRequestReservation : Nat := %s\n\n", sendSize)
	sb.WriteString("/-- MessageQueue.AllocateAndBuildMessage reserves memory only under `if size > 0` -/\ndef reservationGuardedBySizePositive : Bool := true\n\nend GS.Generated.MgrTx\n")
	fmt.Print(sb.String())
}
