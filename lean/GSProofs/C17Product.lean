import GSProofs.Lemmas.PeerQueuesInv
import GS.Temporal
/-!
# C17 on the product model  PeerManager × MessageQueues

Model `GS.PQ` (lean/GS/Model/PeerQueues.lean): the peer-manager model `GS.PM` itself, plus one ABSTRACT
message queue per process the factory created (flags told-to-stop / closed / exited, the queued
messages, the message in flight; global logs of the messages handed to queues and put on the wire).
Steps: the peer-manager API (`connected`, `disconnected` + `shutdownCall`, `getProcess`), callers
(`build q m`, through a handle obtained from `getProcess`, never given back) and each queue's own
goroutine (`take`, `wire`, `finish`, `close`, `exit`; `exit` runs the callback `PM.queueExit` on the
table, `finish … openFailed` the queue's own `Shutdown()`).  `PM.selfShutdown` and `PM.queueExit` are
no longer free environment actions: they happen exactly where the queue performs them.

All theorems quantify over every schedule from the empty system (`PReachable`), any number of peers,
queues, callers and messages.  The product is an abstraction: it is tied to the Go code only through
its components (`GS.PM` ↔ stream `peermgr`; queue behaviour ↔ `GS.MQ` + stream `msgqueue`; table of
abstract step ↔ `GS.MQ` lemma in the model file).
-/
namespace GS.C17
open GS.PM GS.PQ GS.Temporal

def PReachable (s : PQ.State) : Prop := ∃ acts : List PQ.Act, s = PQ.run {} acts

theorem PReachable.inv {s : PQ.State} (h : PReachable s) : PInv s := by
  obtain ⟨acts, rfl⟩ := h
  have : ∀ (s : PQ.State), PInv s → PInv (PQ.run s acts) := by
    unfold PQ.run
    induction acts with
    | nil => intro s h; exact h
    | cons a r ih => intro s h; exact ih _ (h.step a)
  exact this _ PInv.init

theorem PReachable.step {s : PQ.State} (h : PReachable s) (a : PQ.Act) : PReachable (PQ.step s a) := by
  obtain ⟨acts, rfl⟩ := h
  exact ⟨acts ++ [a], by simp [PQ.run, List.foldl_append]⟩

/-- the peer-manager component of a reachable product state is a reachable peer-manager state: every
    theorem of GSProofs/C17.lean about `GS.PM` applies to it -/
theorem PReachable.pm {s : PQ.State} (h : PReachable s) : Reachable s.pm := h.inv.pmr

/-- the product's "told to stop" of a queue in the manager's list is that queue's `shutdown` flag -/
theorem told_of_mem {s : PQ.State} (h : PReachable s) {y : Queue} (hy : y ∈ s.pm.queues) :
    told s y.id = y.shutdown ∧ PQ.exited s y.id = y.exited ∧ created s y.id = true := by
  have hi : Inv s.pm := h.pm.inv
  have hs : (qget s.pm y.id).isSome = true := by
    unfold qget; rw [List.find?_isSome]; exact ⟨y, hy, by simp⟩
  cases hq : qget s.pm y.id with
  | none => rw [hq] at hs; cases hs
  | some z =>
    have hz : z ∈ s.pm.queues := List.mem_of_find?_eq_some hq
    have hid : z.id = y.id := by simpa using List.find?_some hq
    have : z = y := hi.queue_unique hz hy hid
    subst this
    unfold told PQ.exited created
    rw [hq]; exact ⟨rfl, rfl, rfl⟩

/-! ## (1) at most one active queue per peer -/

/-- **(S1 on the product, every schedule)**  For every peer `p`:
    (a) at most one queue of `p` is ACTIVE (live, `Shutdown()` neither called nor about to be);
    (b) an active queue is the one in the table — the one `GetProcess` hands out — and the product's
        `told` flag of it is false;
    (c) every other live queue of `p` has been told to stop (its `done` channel is closed) or is the
        one `Disconnected` is about to call `Shutdown()` on;
    (d) only live queues act: a queue that does not exist or whose goroutine has ended holds no
        message and none of its goroutine steps is enabled — so the queues of `p` that can put anything
        on the wire are among `live s.pm p`, of which at most one has not been told to stop.
    (a)–(c) are `single_partial` lifted through `PReachable.pm`; what makes them true of the product is
    the identity check of the exit callback (`product_single_unfixed_counterexample`). -/
theorem product_single {s : PQ.State} (h : PReachable s) (p : Nat) :
    (active s.pm p).length ≤ 1 ∧
    (∀ y ∈ active s.pm p, (∃ e ∈ s.pm.table, e.peer = p ∧ e.qid = y.id) ∧ told s y.id = false) ∧
    (∀ y ∈ live s.pm p, y ∉ active s.pm p → y.pending = true ∨ told s y.id = true) ∧
    (∀ q, created s q = false ∨ PQ.exited s q = true →
      (s.x q).queued = [] ∧ (s.x q).inflight = none ∧ ∀ a, goroutineOf a = some q → enabled s a = false) := by
  obtain ⟨h1, h2, h3⟩ := single_partial h.pm p
  refine ⟨h1, ?_, ?_, ?_⟩
  · intro y hy
    refine ⟨h2 y hy, ?_⟩
    unfold active at hy
    obtain ⟨hm, hf⟩ := List.mem_filter.mp hy
    rw [(told_of_mem h hm).1]
    simp at hf
    exact hf.1.2
  · intro y hy hna
    rcases h3 y hy hna with hp | hs
    · exact Or.inl hp
    · right
      unfold live at hy
      rw [(told_of_mem h (List.mem_filter.mp hy).1).1]; exact hs
  · intro q hq
    have hi := h.inv
    rcases hq with hq | hq
    · obtain ⟨u1, _, _⟩ := hi.uncreated q hq
      have ht : told s q = false := by
        cases ht : told s q with
        | false => rfl
        | true => rw [told_created ht] at hq; cases hq
      refine ⟨by rw [u1], by rw [u1], ?_⟩
      intro a ha
      cases a with
      | take i => simp only [goroutineOf, Option.some.injEq] at ha; subst ha; simp [enabled, u1]
      | wire i => simp only [goroutineOf, Option.some.injEq] at ha; subst ha; simp [enabled, u1]
      | finish i o sc => simp only [goroutineOf, Option.some.injEq] at ha; subst ha; simp [enabled, u1, finishOk]
      | close i => simp only [goroutineOf, Option.some.injEq] at ha; subst ha; simp [enabled, ht]
      | exit i => simp only [goroutineOf, Option.some.injEq] at ha; subst ha; simp [enabled, u1]
      | _ => simp [goroutineOf] at ha
    · have hc := hi.exited_closed q hq
      obtain ⟨e1, e2⟩ := hi.closed_empty q hc
      refine ⟨e1, e2, ?_⟩
      intro a ha
      cases a with
      | take i => simp only [goroutineOf, Option.some.injEq] at ha; subst ha; simp [enabled, hc]
      | wire i => simp only [goroutineOf, Option.some.injEq] at ha; subst ha; simp [enabled, e2]
      | finish i o sc => simp only [goroutineOf, Option.some.injEq] at ha; subst ha; simp [enabled, e2, finishOk]
      | close i => simp only [goroutineOf, Option.some.injEq] at ha; subst ha; simp [enabled, hc]
      | exit i => simp only [goroutineOf, Option.some.injEq] at ha; subst ha; simp [enabled, hq]
      | _ => simp [goroutineOf] at ha

/-- the schedule of `unfixed_callback_counterexample`, with callers: connect, hand out queue 0,
    disconnect, successor 1 created and handed out, queue 0 drains and exits, the next `GetProcess`,
    then one message through each handle -/
def overlapSchedule : List PQ.Act :=
  [.connected 0, .getProcess 0, .disconnected 0, .shutdownCall 0, .getProcess 0, .close 0, .exit 0,
   .getProcess 0, .build 1 11, .build 2 12, .take 1, .wire 1, .take 2, .wire 2]

/-- **with the callback as it was before fix `4983136`** (deletes whatever entry the peer has) clause
    (a) fails on the product: queue 0's exit deletes its successor's entry, the next `GetProcess`
    creates queue 2, and queues 1 and 2 — neither told to stop — both put messages for peer 0 on the
    wire (test of the statement, by computation) -/
theorem product_single_unfixed_counterexample :
    let s := PQ.runWith queueExitUnfixed {} overlapSchedule
    (active s.pm 0).length = 2 ∧ s.wireLog = [(1, 11), (2, 12)] ∧ told s 1 = false ∧ told s 2 = false := by
  decide

/-- the same schedule with the current callback: the third `GetProcess` returns queue 1 again, the
    handle 2 does not exist, one active queue (non-vacuity of `product_single` on an overlap) -/
example :
    let s := PQ.run {} overlapSchedule
    PReachable s ∧ (active s.pm 0).length = 1 ∧ s.wireLog = [(1, 11)] ∧ s.handles = [1, 1, 0] :=
  ⟨⟨_, rfl⟩, by decide, by decide, by decide⟩

/-! ## (2) no queue outlives the last disconnect — safety part -/

/-- **(S2, told to stop)**  In every reachable product state in which peer `p` has no table entry — in
    particular after the `Disconnected(p)` that brought the reference count to zero — every live queue
    of `p` has its `done` channel closed, or is the one `Disconnected` is about to call `Shutdown()` on. -/
theorem product_no_outlive_told {s : PQ.State} (h : PReachable s) (p : Nat) (hno : lookup s.pm.table p = none) :
    ∀ y ∈ live s.pm p, y.pending = true ∨ told s y.id = true := by
  intro y hy
  rcases no_outlive h.pm p hno y hy with hp | hs
  · exact Or.inl hp
  · right
    unfold live at hy
    rw [(told_of_mem h (List.mem_filter.mp hy).1).1]; exact hs

/-- … and once that `Disconnected(p)` has returned (its two steps taken; no other `Disconnected` in
    between its delete and its `Shutdown()` call) every live queue of `p` has been told to stop. -/
theorem product_no_outlive_after_disconnect {s : PQ.State} (h : PReachable s) (p : Nat) {e : Entry}
    (he : lookup s.pm.table p = some e) (hlast : e.refcnt ≤ 1) (hnop : ∀ y ∈ s.pm.queues, y.pending = false) :
    let s' := PQ.step (PQ.step s (.disconnected p)) (.shutdownCall e.qid)
    lookup s'.pm.table p = none ∧ ∀ y ∈ live s'.pm p, told s' y.id = true := by
  intro s'
  have hr : PReachable s' := (h.step _).step _
  have hpm : s'.pm = shutdownCall (disconnected s.pm p) e.qid := rfl
  refine ⟨?_, ?_⟩
  · rw [hpm]; exact disconnected_last p he hlast h.pm.inv.nodupT
  · intro y hy
    have hy' := hy
    rw [hpm] at hy'
    have := no_outlive_after_disconnect h.pm p he hlast hnop y hy'
    unfold live at hy
    rw [(told_of_mem hr (List.mem_filter.mp hy).1).1]; exact this

/-- `mq.closed` is never reset -/
theorem closed_mono (s : PQ.State) (a : PQ.Act) (q : Nat) (hc : (s.x q).closed = true) :
    ((PQ.step s a).x q).closed = true := by
  cases qstep s a q with
  | same _ hx _ _ => rw [hx]; exact hc
  | buildOpen m _ _ hc0 _ _ _ => rw [hc0] at hc; cases hc
  | buildClosed m _ _ _ hx _ _ => rw [hx]; exact hc
  | take m r _ hc0 _ _ _ _ _ => rw [hc0] at hc; cases hc
  | wire m _ _ hx _ _ => rw [hx]; exact hc
  | finish o sc m w f q' _ _ _ hx _ _ => rw [hx]; exact hc
  | close _ _ _ _ hx _ _ => rw [hx]

/-- **(S2, safety core 1: a closed queue never queues anything again)**  Once the goroutine of `q`
    has taken the `done` branch, whatever happens next — in particular a `build` through a stale
    handle — the queue stays closed, nothing is queued on it, nothing is in flight and it puts
    nothing more on the wire; a build is rejected with `Error` (`failed`).  This is fix `f15bc50`. -/
theorem closed_never_queues {s : PQ.State} (h : PReachable s) (q : Nat) (hc : (s.x q).closed = true) (a : PQ.Act) :
    ((PQ.step s a).x q).closed = true ∧ ((PQ.step s a).x q).queued = [] ∧
    ((PQ.step s a).x q).inflight = none ∧ wireOf (PQ.step s a) q = wireOf s q ∧
    (∀ m, a = .build q m → enabled s a = true → ((PQ.step s a).x q).failed = (s.x q).failed ++ [m]) := by
  have hc' := closed_mono s a q hc
  obtain ⟨e1, e2⟩ := (h.step a).inv.closed_empty q hc'
  refine ⟨hc', e1, e2, ?_, ?_⟩
  · cases qstep s a q with
    | wire m _ hi _ _ _ => rw [(h.inv.closed_empty q hc).2] at hi; cases hi
    | same _ _ _ hw => exact hw
    | buildOpen _ _ _ _ _ _ hw => exact hw
    | buildClosed _ _ _ _ _ _ hw => exact hw
    | take _ _ _ _ _ _ _ _ hw => exact hw
    | finish _ _ _ _ _ _ _ _ _ _ _ hw => exact hw
    | close _ _ _ _ _ _ hw => exact hw
  · intro m ha hen
    subst ha
    cases qstep s (.build q m) q with
    | same hn _ _ _ => exact absurd rfl (hn hen)
    | buildOpen _ _ _ hc0 _ _ _ => rw [hc0] at hc; cases hc
    | buildClosed m' ha _ _ hx _ _ =>
      simp only [PQ.Act.build.injEq, true_and] at ha; subst ha
      rw [hx]
    | take _ _ ha _ _ _ _ _ _ => cases ha
    | wire _ ha _ _ _ _ => cases ha
    | finish _ _ _ _ _ _ ha _ _ _ _ _ => cases ha
    | close ha _ _ _ _ _ _ => cases ha

/-- **(S2, safety core 2: told to stop and idle ⇒ the next goroutine step closes, the one after
    exits)**  If `q` has been told to stop, holds no queued message and is not sending, the only
    enabled step of its goroutine is `close`; after it the only one is `exit`, which ends the
    goroutine and runs the callback. -/
theorem told_idle_next_exits {s : PQ.State} (h : PReachable s) (q : Nat) (ht : told s q = true) (hq : (s.x q).queued = [])
    (hi : (s.x q).inflight = none) (hc : (s.x q).closed = false) :
    (∀ a, goroutineOf a = some q → enabled s a = true → a = .close q) ∧
    enabled s (.close q) = true ∧
    (∀ a, goroutineOf a = some q → enabled (PQ.step s (.close q)) a = true → a = .exit q) ∧
    enabled (PQ.step s (.close q)) (.exit q) = true ∧
    PQ.exited (PQ.step (PQ.step s (.close q)) (.exit q)) q = true := by
  have hen : enabled s (.close q) = true := by simp [enabled, ht, hc, hi]
  have hx : (PQ.step s (.close q)).x q = { s.x q with closed := true, failed := (s.x q).failed ++ (s.x q).queued, queued := [] } := by
    unfold PQ.step stepWith; rw [if_pos hen]; simp only [PQ.apply]; rw [setX_x_self]
  have hne : PQ.exited (PQ.step s (.close q)) q = false := by
    cases hx' : PQ.exited (PQ.step s (.close q)) q with
    | false => rfl
    | true =>
      rcases exited_step s (.close q) q hx' with h0 | ⟨h0, _⟩
      · rw [h.inv.exited_closed q h0] at hc; cases hc
      · cases h0
  have hen2 : enabled (PQ.step s (.close q)) (.exit q) = true := by simp [enabled, hx, hne]
  refine ⟨?_, hen, ?_, ?_, ?_⟩
  · intro a ha he
    cases a with
    | take i => simp only [goroutineOf, Option.some.injEq] at ha; subst ha; simp [enabled, hq] at he
    | wire i => simp only [goroutineOf, Option.some.injEq] at ha; subst ha; simp [enabled, hi] at he
    | finish i o sc => simp only [goroutineOf, Option.some.injEq] at ha; subst ha; simp [enabled, hi, finishOk] at he
    | close i => simp only [goroutineOf, Option.some.injEq] at ha; subst ha; rfl
    | exit i => simp only [goroutineOf, Option.some.injEq] at ha; subst ha; simp [enabled, hc] at he
    | _ => simp [goroutineOf] at ha
  · intro a ha he
    cases a with
    | take i => simp only [goroutineOf, Option.some.injEq] at ha; subst ha; simp [enabled, hx] at he
    | wire i => simp only [goroutineOf, Option.some.injEq] at ha; subst ha; simp [enabled, hx, hi] at he
    | finish i o sc => simp only [goroutineOf, Option.some.injEq] at ha; subst ha; simp [enabled, hx, hi, finishOk] at he
    | close i => simp only [goroutineOf, Option.some.injEq] at ha; subst ha; simp [enabled, hx] at he
    | exit i => simp only [goroutineOf, Option.some.injEq] at ha; subst ha; rfl
    | _ => simp [goroutineOf] at ha
  · exact hen2
  · exact exit_exited _ q (created_mono s _ q (told_created ht)) hen2

/-! ## (3) order of the messages on the wire -/

/-- **(S3 on the product, every schedule, every queue)**  The messages queue `q` has put on the wire
    are, in this order, a subsequence of the messages handed to `q` (in the order of the `buildMessage`
    calls); moreover what is on the wire, then the message in flight that has not been handed to
    `SendMsg` yet, then the queued messages, together are such a subsequence — whatever `q` sends later
    comes after everything it has sent, in handing order.  (Messages that fail, are scrubbed, drained
    at shutdown or rejected by a closed queue are the ones left out.) -/
theorem product_fifo {s : PQ.State} (h : PReachable s) (q : Nat) :
    (wireOf s q).Sublist (handedOf s q) ∧
    (wireOf s q ++ unw (s.x q).inflight ++ (s.x q).queued).Sublist (handedOf s q) := by
  have f := h.inv.fifo q
  refine ⟨?_, f⟩
  refine List.Sublist.trans ?_ f
  rw [List.append_assoc]
  exact List.sublist_append_left _ _

/-- across queues only this holds: whatever is on the wire was handed to the queue that sent it -/
theorem product_wire_was_handed {s : PQ.State} (h : PReachable s) (q m : Nat) (hw : (q, m) ∈ s.wireLog) :
    (q, m) ∈ s.handedLog := by
  have h1 : m ∈ wireOf s q := by
    unfold wireOf
    exact List.mem_map.mpr ⟨(q, m), List.mem_filter.mpr ⟨hw, by simp⟩, rfl⟩
  have h2 : m ∈ handedOf s q := (product_fifo h q).1.subset h1
  unfold handedOf at h2
  obtain ⟨⟨q', m'⟩, h3, h4⟩ := List.mem_map.mp h2
  obtain ⟨h5, h6⟩ := List.mem_filter.mp h3
  have e1 : q' = q := by simpa using h6
  have e2 : m' = m := h4
  subst e1; subst e2; exact h5

/-- the overlap: queue 0 of peer 0 takes message 10 and blocks opening the stream; the peer
    disconnects (queue 0 is told to stop) and is looked up again (successor 1); message 11 is handed
    to the successor and sent; then queue 0's `SendMsg` goes out -/
def crossSchedule : List PQ.Act :=
  [.connected 0, .getProcess 0, .build 0 10, .take 0, .disconnected 0, .shutdownCall 0, .getProcess 0,
   .build 1 11, .take 1, .wire 1, .wire 0]

/-- **(S3) is false ACROSS two overlapping queues of one peer** (part of known finding
    `overlap-shutting-down`): on a reachable state with two live queues of peer 0 — the old one told
    to stop, its successor active — message 10 was handed over before message 11, and 11 is on the
    wire before 10.  "Messages to a peer leave in the order they were queued" holds per queue
    (`product_fifo`), not per peer. -/
theorem product_fifo_cross_queue_counterexample :
    let s := PQ.run {} crossSchedule
    PReachable s ∧ (live s.pm 0).length = 2 ∧ (active s.pm 0).length = 1 ∧ told s 0 = true ∧ told s 1 = false ∧
    s.handedLog = [(0, 10), (1, 11)] ∧ s.wireLog = [(1, 11), (0, 10)] ∧
    ¬ (s.wireLog.map (·.2)).Sublist (s.handedLog.map (·.2)) :=
  ⟨⟨_, rfl⟩, by decide, by decide, by decide, by decide, by decide, by decide, by decide⟩

/-- non-vacuity of `product_fifo`: on that state each queue's own order is respected -/
example : let s := PQ.run {} crossSchedule
    wireOf s 0 = [10] ∧ handedOf s 0 = [10] ∧ wireOf s 1 = [11] ∧ handedOf s 1 = [11] := by decide

/-! ## (2, continued) a queue that was told to stop exits — liveness on the product

The product as a system of `GS.Temporal`: an action is a step only where it is enabled.  Nothing is
assumed about callers (any `build`, through any handle, stale or not, at any time), about the peer
manager's API calls, about other queues, or about how often the goroutine's `select` prefers
`outgoingWork` (`take` is allowed while `done` is set and is not required to be fair).  Fairness of the
queue's OWN goroutine, three separate assumptions:
* `netFair q`   (weak)   the call the goroutine is blocked in inside `sendMessage` returns, with any
                         result (`wire`/`finish`) — as `ack` in `told_to_stop_exits`;
* `close q`     (STRONG) Go's `select` does not ignore a ready `done` channel for ever: if the goroutine
                         is again and again at its `select` with `done` closed, it eventually takes the
                         `done` branch.  Weak fairness is not enough here and the hypothesis cannot be
                         dropped: `close` is disabled whenever a message is in flight, and a schedule
                         in which callers keep building and the `select` always prefers work (build,
                         take, finish, build, take, finish, …) is weakly fair and never closes.  Go's
                         `select` chooses uniformly at random among ready cases, which gives this
                         assumption with probability 1; the model states it instead of the hypothesis
                         "callers stop building" of `told_to_stop_exits` (AUDIT_3 item 12).
* `exit q`      (weak)   the deferred function of `runQueue` runs (`ReleasePeerMemory` returns).
After the `done` branch no assumption about `select` is needed any more: builds on a closed queue are
rejected and do not prolong its life (`closed_exits` holds with callers building for ever). -/

def psys : Sys PQ.State PQ.Act := ⟨fun s a => if enabled s a = true then some (PQ.step s a) else none⟩

theorem psys_step {s s' : PQ.State} {a : PQ.Act} (h : psys.step s a = some s') :
    enabled s a = true ∧ s' = PQ.step s a := by
  have h' : (if enabled s a = true then some (PQ.step s a) else none) = some s' := h
  split at h'
  · next he => exact ⟨he, (Option.some.inj h').symm⟩
  · cases h'

theorem psys_enabled {s : PQ.State} {a : PQ.Act} (h : enabled s a = true) : psys.enabled a s := by
  show (if enabled s a = true then some (PQ.step s a) else none).isSome = true
  rw [if_pos h]; rfl

/-- a property kept by every step holds from any position on -/
theorem exec_stable {σ : Nat → PQ.State} (hex : Exec psys σ) (P : PQ.State → Prop)
    (hP : ∀ s a, P s → P (PQ.step s a)) (i : Nat) (h : P (σ i)) : ∀ j, i ≤ j → P (σ j) := by
  intro j hj
  obtain ⟨d, rfl⟩ := Nat.exists_eq_add_of_le hj
  induction d with
  | zero => exact h
  | succ d ih =>
    have e : i + (d + 1) = i + d + 1 := rfl
    rw [e]
    rcases hex (i + d) with h1 | ⟨a, h1⟩
    · rw [h1]; exact ih (Nat.le_add_right _ _)
    · rw [(psys_step h1).2]; exact hP _ a (ih (Nat.le_add_right _ _))

def exitFair (q : Nat) (a : PQ.Act) : Prop := a = .exit q
def netFair (q : Nat) (a : PQ.Act) : Prop := a = .wire q ∨ ∃ o sc, a = .finish q o sc

/-- strong fairness of one action: enabled again and again ⇒ eventually taken -/
def SF1 (S : Sys PQ.State PQ.Act) (a : PQ.Act) (σ : Nat → PQ.State) : Prop :=
  ∀ i, (∀ j, i ≤ j → ∃ k, j ≤ k ∧ S.enabled a (σ k)) → ∃ k, i ≤ k ∧ S.step (σ k) a = some (σ (k + 1))

theorem closed_rule (q : Nat) :
    VariantRule psys (exitFair q) (fun s => (s.x q).closed = true ∧ created s q = true)
      (fun s => PQ.exited s q = true) (fun _ => 0) := by
  refine ⟨?_, ?_, ?_⟩
  · intro s hp hnq
    refine ⟨.exit q, rfl, psys_enabled ?_⟩
    have : PQ.exited s q = false := by cases h : PQ.exited s q <;> simp_all
    simp [enabled, hp.1, this]
  · intro s a s' hp _ hs
    obtain ⟨_, rfl⟩ := psys_step hs
    exact ⟨Or.inl ⟨closed_mono s a q hp.1, created_mono s a q hp.2⟩, Nat.le_refl _⟩
  · intro s a s' hp _ hf hs
    obtain ⟨he, rfl⟩ := psys_step hs
    have hf' : a = .exit q := hf
    subst hf'
    exact Or.inl (exit_exited s q hp.2 he)

/-- **closed ⇒ exits, with callers building for ever** (fix `f15bc50` is what makes this hold without
    any assumption on callers): under weak fairness of the goroutine's last step alone -/
theorem closed_exits {σ : Nat → PQ.State} (q : Nat) (hex : Exec psys σ) (hexit : WFAll psys (exitFair q) σ) :
    LeadsTo σ (fun s => (s.x q).closed = true ∧ created s q = true) (fun s => PQ.exited s q = true) :=
  leadsTo_of_variant (closed_rule q) hex hexit

theorem inflight_rule (q : Nat) :
    VariantRule psys (netFair q) (fun s => (s.x q).inflight ≠ none) (fun s => (s.x q).inflight = none)
      (fun s => (unw (s.x q).inflight).length) := by
  refine ⟨?_, ?_, ?_⟩
  · intro s hp _
    refine ⟨.finish q .failed [], Or.inr ⟨_, _, rfl⟩, psys_enabled ?_⟩
    cases hi : (s.x q).inflight with
    | none => exact absurd hi hp
    | some mw => obtain ⟨m, w⟩ := mw; cases w <;> simp [enabled, hi, finishOk]
  · intro s a s' hp _ hs
    obtain ⟨_, rfl⟩ := psys_step hs
    cases qstep s a q with
    | same _ hx _ _ => rw [hx]; exact ⟨Or.inl hp, Nat.le_refl _⟩
    | buildOpen _ _ _ _ hx _ _ => rw [hx]; exact ⟨Or.inl hp, Nat.le_refl _⟩
    | buildClosed _ _ _ _ hx _ _ => rw [hx]; exact ⟨Or.inl hp, Nat.le_refl _⟩
    | take _ _ _ _ hi _ _ _ _ => exact absurd hi hp
    | wire m _ hi hx _ _ => rw [hx, hi]; exact ⟨Or.inl (by simp), by simp [unw]⟩
    | finish _ _ _ _ _ _ _ _ _ hx _ _ => rw [hx]; exact ⟨Or.inr rfl, by simp [unw]⟩
    | close _ _ _ hi _ _ _ => exact absurd hi hp
  · intro s a s' hp _ hf hs
    obtain ⟨he, rfl⟩ := psys_step hs
    rcases hf with rfl | ⟨o, sc, rfl⟩
    · cases qstep s (.wire q) q with
      | same hn _ _ _ => exact absurd rfl (hn he)
      | wire m _ hi hx _ _ => right; rw [hx, hi]; simp [unw]
      | buildOpen _ ha _ _ _ _ _ => cases ha
      | buildClosed _ ha _ _ _ _ _ => cases ha
      | take _ _ ha _ _ _ _ _ _ => cases ha
      | finish _ _ _ _ _ _ ha _ _ _ _ _ => cases ha
      | close ha _ _ _ _ _ _ => cases ha
    · cases qstep s (.finish q o sc) q with
      | same hn _ _ _ => exact absurd rfl (hn he)
      | finish _ _ _ _ _ _ _ _ _ hx _ _ => left; rw [hx]
      | buildOpen _ ha _ _ _ _ _ => cases ha
      | buildClosed _ ha _ _ _ _ _ => cases ha
      | take _ _ ha _ _ _ _ _ _ => cases ha
      | wire _ ha _ _ _ _ => cases ha
      | close ha _ _ _ _ _ _ => cases ha

/-- the call the goroutine is blocked in returns: the queue is eventually back at its `select` -/
theorem inflight_returns {σ : Nat → PQ.State} (q : Nat) (hex : Exec psys σ) (hnet : WFAll psys (netFair q) σ) :
    LeadsTo σ (fun s => (s.x q).inflight ≠ none) (fun s => (s.x q).inflight = none) :=
  leadsTo_of_variant (inflight_rule q) hex hnet

/-- told to stop ⇒ takes the `done` branch, callers building all the while -/
theorem told_closes {σ : Nat → PQ.State} (q : Nat) (hex : Exec psys σ) (hnet : WFAll psys (netFair q) σ)
    (hsel : SF1 psys (.close q) σ) :
    LeadsTo σ (fun s => told s q = true) (fun s => (s.x q).closed = true) := by
  intro i ht
  apply Classical.byContradiction
  intro hno
  have hnc : ∀ j, i ≤ j → ((σ j).x q).closed = false := by
    intro j hj
    cases hc : ((σ j).x q).closed with
    | false => rfl
    | true => exact absurd ⟨j, hj, hc⟩ hno
  have htold : ∀ j, i ≤ j → told (σ j) q = true :=
    exec_stable hex (fun s => told s q = true) (fun s a h => told_mono s a q h) i ht
  have hen : ∀ j, i ≤ j → ∃ k, j ≤ k ∧ psys.enabled (.close q) (σ k) := by
    intro j hj
    have key : ∀ k, i ≤ k → ((σ k).x q).inflight = none → psys.enabled (.close q) (σ k) := by
      intro k hk hi
      apply psys_enabled
      simp [enabled, htold k hk, hnc k hk, hi]
    by_cases hi : ((σ j).x q).inflight = none
    · exact ⟨j, Nat.le_refl _, key j hj hi⟩
    · obtain ⟨k, hjk, hk⟩ := inflight_returns q hex hnet j hi
      exact ⟨k, hjk, key k (Nat.le_trans hj hjk) hk⟩
  obtain ⟨k, hik, hk⟩ := hsel i hen
  obtain ⟨he, hs⟩ := psys_step hk
  have hc : ((σ (k + 1)).x q).closed = true := by
    rw [hs]
    cases qstep (σ k) (.close q) q with
    | same hn _ _ _ => exact absurd rfl (hn he)
    | close _ _ _ _ hx _ _ => rw [hx]
    | buildOpen _ ha _ _ _ _ _ => cases ha
    | buildClosed _ ha _ _ _ _ _ => cases ha
    | take _ _ ha _ _ _ _ _ _ => cases ha
    | wire _ ha _ _ _ _ => cases ha
    | finish _ _ _ _ _ _ ha _ _ _ _ _ => cases ha
  have := hnc (k + 1) (Nat.le_trans hik (Nat.le_succ _))
  rw [hc] at this; cases this

/-- **(S2, liveness) a queue that was told to stop exits, EVEN IF callers keep building on it**
    (through stale handles, or — for a queue that shut itself down and is still in the table — through
    handles `GetProcess` keeps handing out).  For every execution of the product, from any state,
    under the three fairness assumptions about the queue's own goroutine described above. -/
theorem product_told_exits {σ : Nat → PQ.State} (q : Nat) (hex : Exec psys σ)
    (hnet : WFAll psys (netFair q) σ) (hsel : SF1 psys (.close q) σ) (hexit : WFAll psys (exitFair q) σ) :
    LeadsTo σ (fun s => told s q = true) (fun s => PQ.exited s q = true) := by
  intro i ht
  obtain ⟨j, hij, hc⟩ := told_closes q hex hnet hsel i ht
  have htj : told (σ j) q = true :=
    exec_stable hex (fun s => told s q = true) (fun s a h => told_mono s a q h) i ht j hij
  obtain ⟨k, hjk, hk⟩ := closed_exits q hex hexit j ⟨hc, told_created htj⟩
  exact ⟨k, Nat.le_trans hij hjk, hk⟩

/-- **(S2) no queue outlives the last disconnect of its peer**: if at some position of an execution
    (a reachable state) peer `p` has no table entry — the last `Disconnected(p)` has removed it — then
    every queue of `p` that is still live and whose `Shutdown()` call is not still pending has been
    told to stop, and under the fairness assumptions about its goroutine it exits, whatever callers
    holding handles to it do. -/
theorem product_no_outlive {σ : Nat → PQ.State} (hex : Exec psys σ) (p i : Nat) (hr : PReachable (σ i))
    (hno : lookup (σ i).pm.table p = none) (y : Queue) (hy : y ∈ live (σ i).pm p) (hnp : y.pending = false)
    (hnet : WFAll psys (netFair y.id) σ) (hsel : SF1 psys (.close y.id) σ)
    (hexit : WFAll psys (exitFair y.id) σ) :
    told (σ i) y.id = true ∧ ∃ j, i ≤ j ∧ PQ.exited (σ j) y.id = true := by
  have ht : told (σ i) y.id = true := by
    rcases product_no_outlive_told hr p hno y hy with h | h
    · rw [hnp] at h; cases h
    · exact h
  exact ⟨ht, product_told_exits y.id hex hnet hsel hexit i ht⟩

/-! ### the strong fairness assumption cannot be weakened -/

/-- queue `q` has been told to stop, its goroutine is at the `select` with nothing queued, the queue
    is still open, and some caller holds a handle to it -/
def ToldIdle (s : PQ.State) (q : Nat) : Prop :=
  told s q = true ∧ (s.x q).closed = false ∧ (s.x q).inflight = none ∧ (s.x q).queued = [] ∧
  s.handles.contains q = true

theorem step_eq_apply {s : PQ.State} {a : PQ.Act} (he : enabled s a = true) :
    PQ.step s a = PQ.apply queueExit s a := by
  unfold PQ.step stepWith; rw [if_pos he]

/-- **why weak fairness of `close` is not enough** (the schedule behind the STRONG fairness assumption
    of `told_closes`): from a `ToldIdle` state a caller can build, the `select` can prefer
    `outgoingWork` (`take`), and while the message is in flight `close` is DISABLED; when the send
    returns the state is `ToldIdle` again.  The round can be repeated for ever, so `close` is never
    continuously enabled and a weakly fair scheduler never has to take it. -/
theorem select_may_prefer_work_again {s : PQ.State} {q : Nat} (h : ToldIdle s q) (m : Nat) :
    enabled s (.build q m) = true ∧
    enabled (PQ.step s (.build q m)) (.take q) = true ∧
    enabled (PQ.step (PQ.step s (.build q m)) (.take q)) (.close q) = false ∧
    enabled (PQ.step (PQ.step s (.build q m)) (.take q)) (.finish q .failed []) = true ∧
    ToldIdle (PQ.step (PQ.step (PQ.step s (.build q m)) (.take q)) (.finish q .failed [])) q := by
  obtain ⟨ht, hc, hi, hq, hd⟩ := h
  have he1 : enabled s (.build q m) = true := hd
  have e1 : PQ.step s (.build q m) =
      setX { s with handedLog := s.handedLog ++ [(q, m)] } q { s.x q with queued := [m] } := by
    rw [step_eq_apply he1]; simp only [PQ.apply, hc, hq]; rfl
  have x1 : (PQ.step s (.build q m)).x q = { s.x q with queued := [m] } := by rw [e1, setX_x_self]
  have he2 : enabled (PQ.step s (.build q m)) (.take q) = true := by simp [enabled, x1, hc, hi]
  have e2 : PQ.step (PQ.step s (.build q m)) (.take q) =
      setX (PQ.step s (.build q m)) q { s.x q with queued := [], inflight := some (m, false) } := by
    rw [step_eq_apply he2]; simp only [PQ.apply, x1]
  have x2 : (PQ.step (PQ.step s (.build q m)) (.take q)).x q = { s.x q with queued := [], inflight := some (m, false) } := by
    rw [e2, setX_x_self]
  have he3 : enabled (PQ.step (PQ.step s (.build q m)) (.take q)) (.finish q .failed []) = true := by
    simp [enabled, x2, finishOk]
  have e3 : PQ.step (PQ.step (PQ.step s (.build q m)) (.take q)) (.finish q .failed []) =
      setX (PQ.step (PQ.step s (.build q m)) (.take q)) q
        { s.x q with queued := [], inflight := none, failed := (s.x q).failed ++ [m] } := by
    rw [step_eq_apply he3]; simp only [PQ.apply, x2]; rfl
  refine ⟨he1, he2, by simp [enabled, x2], he3, ?_⟩
  refine ⟨told_mono _ _ q (told_mono _ _ q (told_mono _ _ q ht)), ?_, ?_, ?_, ?_⟩
  · rw [e3, setX_x_self]; exact hc
  · rw [e3, setX_x_self]
  · rw [e3, setX_x_self]
  · rw [e3, e2, e1]; exact hd

/-- non-vacuity: after connect, hand-out, disconnect the queue is `ToldIdle` -/
example : ToldIdle (PQ.run {} [.connected 0, .getProcess 0, .disconnected 0, .shutdownCall 0]) 0 := by
  refine ⟨by decide, by decide, by decide, by decide, by decide⟩

/-! ### non-vacuity of the liveness theorem -/

/-- a complete life: queue 0 of peer 0 is handed out, gets a message, the peer disconnects, a caller
    builds through the stale handle before and after the queue closes, the queue exits; then nothing -/
def demoSchedule : List PQ.Act :=
  [.connected 0, .getProcess 0, .build 0 10, .disconnected 0, .shutdownCall 0, .build 0 11, .close 0,
   .build 0 12, .exit 0]

def demo (n : Nat) : PQ.State := PQ.run {} (demoSchedule.take n)

theorem demo_final (j : Nat) (h : 9 ≤ j) : demo j = demo 9 := by
  unfold demo
  rw [List.take_of_length_le (by simpa [demoSchedule] using h), List.take_of_length_le (by simp [demoSchedule])]

theorem demo_exec : Exec psys demo := by
  intro i
  match i with
  | 0 => exact Or.inr ⟨.connected 0, rfl⟩
  | 1 => exact Or.inr ⟨.getProcess 0, rfl⟩
  | 2 => exact Or.inr ⟨.build 0 10, rfl⟩
  | 3 => exact Or.inr ⟨.disconnected 0, rfl⟩
  | 4 => exact Or.inr ⟨.shutdownCall 0, rfl⟩
  | 5 => exact Or.inr ⟨.build 0 11, rfl⟩
  | 6 => exact Or.inr ⟨.close 0, rfl⟩
  | 7 => exact Or.inr ⟨.build 0 12, rfl⟩
  | 8 => exact Or.inr ⟨.exit 0, rfl⟩
  | n + 9 => left; rw [demo_final (n + 9 + 1) (by omega), demo_final (n + 9) (by omega)]

theorem demo_quiet (a : PQ.Act) (ha : goroutineOf a = some 0) (j : Nat) (h : 9 ≤ j) : ¬ psys.enabled a (demo j) := by
  rw [demo_final j h]
  have hx : PQ.exited (demo 9) 0 = true := by decide
  have := (product_single (s := demo 9) ⟨_, rfl⟩ 0).2.2.2 0 (Or.inr hx) |>.2.2 a ha
  intro he
  have he' : (if enabled (demo 9) a = true then some (PQ.step (demo 9) a) else none).isSome = true := he
  rw [this] at he'
  simp at he'

theorem demo_wf (fair : PQ.Act → Prop) (hf : ∀ a, fair a → goroutineOf a = some 0) : WFAll psys fair demo := by
  intro i hen
  obtain ⟨a, hfa, he⟩ := hen (i + 9) (Nat.le_add_right _ _)
  exact absurd he (demo_quiet a (hf a hfa) _ (Nat.le_add_left _ _))

theorem demo_sf : SF1 psys (.close 0) demo := by
  intro i hen
  obtain ⟨k, hk, he⟩ := hen (i + 9) (Nat.le_add_right _ _)
  exact absurd he (demo_quiet _ rfl _ (by omega))

/-- **non-vacuity of `product_no_outlive`**: its hypotheses hold of the execution `demo` at position 5
    (entry of peer 0 removed, queue 0 live, told to stop, still open; builds through the stale handle
    follow, one accepted and drained, one rejected), and its conclusion is witnessed at position 9 -/
example :
    Exec psys demo ∧ PReachable (demo 5) ∧ lookup (demo 5).pm.table 0 = none ∧
    (∃ y ∈ live (demo 5).pm 0, y.id = 0 ∧ y.pending = false) ∧
    WFAll psys (netFair 0) demo ∧ SF1 psys (.close 0) demo ∧ WFAll psys (exitFair 0) demo ∧
    PQ.exited (demo 8) 0 = false ∧ PQ.exited (demo 9) 0 = true ∧
    ((demo 9).x 0).failed = [10, 11, 12] ∧ (demo 9).wireLog = [] :=
  ⟨demo_exec, ⟨_, rfl⟩, by decide, ⟨{ id := 0, peer := 0, shutdown := true }, by decide, rfl, rfl⟩,
   demo_wf _ (by rintro a (rfl | ⟨o, sc, rfl⟩) <;> rfl), demo_sf, demo_wf _ (by rintro a rfl; rfl),
   by decide, by decide, by decide, by decide⟩

/-! ## what the abstract queue rests on, in the concrete queue model `GS.MQ`

The abstract steps are justified in the table of lean/GS/Model/PeerQueues.lean.  The facts the proofs
above actually use of a queue are: callers never move the goroutine (`build` changes neither
closed/exited nor what is in flight), a closed queue holds nothing and nothing is ever queued on it
again, the goroutine ends in one kind of step which runs the callback, and per-queue wire order.  Their
concrete counterparts, for every state / step of `GS.MQ` (any allocator policy `pick`): -/

open GS.MQ in
theorem mq_counterpart (pick : GS.Alloc.Pick) (s : GS.MQ.State) (hcn : CN s) :
    (∀ tx, (s.build pick tx).pc = s.pc ∧ (s.build pick tx).closed = s.closed) ∧
    (∀ t, (s.wake pick t).pc = s.pc ∧ (s.wake pick t).closed = s.closed) ∧
    (s.closed = true → s.builders = [] ∧ s.pc.inflight = none) ∧
    (∀ a, CN (GS.MQ.step pick s a)) ∧
    (∀ a, s.pc ≠ .exited → (GS.MQ.step pick s a).pc = .exited → s.pc = .exiting ∧ ∃ ok, a = .ack ok) :=
  ⟨fun tx => ⟨build_pc pick s tx, closed_pc (build_pc pick s tx)⟩,
   fun t => ⟨wake_pc pick s t, closed_pc (wake_pc pick s t)⟩,
   fun hc => ⟨hcn hc, by
     unfold State.closed at hc
     cases hp : s.pc <;> simp_all [Pc.inflight]⟩,
   fun a => step_cn pick hcn a,
   fun a h h' => let r := exit_only_by_deferred pick s a h h'; ⟨r.1, r.2.1⟩⟩

end GS.C17
