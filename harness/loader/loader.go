// Package loader drives the real reconciledloader.ReconciledLoader (component "loader",
// properties C01 / C02 at the unit level).
//
// Line protocol (one output line per op line):
//
//	lt <n> block:parent:path …     link tree of the case (oracle input only)            -> "-"
//	remote <cid>,…|-               blocks the (honest) responder holds (oracle input)    -> "-"
//	put <cid> …                    blocks in the requestor's local store                 -> "ok"
//	online 0|1                     SetRemoteOnline                                       -> "ok[ | <result>]"
//	ingest <items|-> <blocks|->    IngestResponse; items = <cid><p|d|m|s>,… blocks = <cid>[=<content>],…
//	load <cid> <path|->            BlockReadOpener                                       -> <result> | "blocked"
//	retry                          RetryLastLoad                                         -> <result> | "blocked"
//	cleanup                        Cleanup
//	new                            start over with a fresh loader (another request in the same process)
//
// <result> = data <content> L<local> [W<link>=<content>] | missing <cid> <path> L1 |
// incorrect <local> <remote> <path> L0 | extra L0 | retrynone L0.  A load that parks in
// waitRemote's cond.Wait prints "blocked"; the op that lets it finish prints "ok | <result>".
package loader

import (
	"bufio"
	"bytes"
	"context"
	"fmt"
	"io"
	"math/rand"
	"os"
	"runtime"
	"sort"
	"strconv"
	"strings"
	"sync"
	"time"

	"github.com/ipfs/go-cid"
	"github.com/ipld/go-ipld-prime/datamodel"
	"github.com/ipld/go-ipld-prime/linking"
	cidlink "github.com/ipld/go-ipld-prime/linking/cid"
	mh "github.com/multiformats/go-multihash"
	"go.opentelemetry.io/otel/trace"

	"github.com/ipfs/go-graphsync"
	"github.com/ipfs/go-graphsync/message"
	"github.com/ipfs/go-graphsync/requestmanager/reconciledloader"
	"github.com/ipfs/go-graphsync/requestmanager/types"

	"verifharness/dag"
	"verifharness/reg"
)

func init() {
	reg.Register(&reg.Component{Name: "loader", Gen: Gen, Run: Run})
}

// ---------------------------------------------------------------- blocks

type blk struct {
	c    cid.Cid
	data []byte
}

var (
	blkCache = map[int]blk{}
	cidIndex = map[cid.Cid]int{}
)

// BlockOf: block number i is the raw block with bytes "block-<i>".
func BlockOf(i int) blk {
	if b, ok := blkCache[i]; ok {
		return b
	}
	data := []byte(fmt.Sprintf("block-%d", i))
	c, err := cid.Prefix{Version: 1, Codec: 0x55, MhType: mh.SHA2_256, MhLength: 32}.Sum(data)
	if err != nil {
		panic(err)
	}
	b := blk{c, data}
	blkCache[i] = b
	cidIndex[c] = i
	return b
}

func contentIndex(data []byte) string {
	s := string(data)
	if strings.HasPrefix(s, "block-") {
		if _, err := strconv.Atoi(s[6:]); err == nil {
			return s[6:]
		}
	}
	return "?"
}

func cidName(c cid.Cid) string {
	if i, ok := cidIndex[c]; ok {
		return strconv.Itoa(i)
	}
	return "?"
}

func linkName(l datamodel.Link) string {
	if cl, ok := l.(cidlink.Link); ok {
		return cidName(cl.Cid)
	}
	return "?"
}

func pathName(p datamodel.Path) string {
	if p.Len() == 0 {
		return "-"
	}
	ss := make([]string, 0, p.Len())
	for _, s := range p.Segments() {
		ss = append(ss, s.String())
	}
	return strings.Join(ss, "/")
}

func parsePath(s string) datamodel.Path {
	if s == "-" {
		return datamodel.NewPath(nil)
	}
	var segs []datamodel.PathSegment
	for _, x := range strings.Split(s, "/") {
		segs = append(segs, datamodel.PathSegmentOfString(x))
	}
	return datamodel.NewPath(segs)
}

// ---------------------------------------------------------------- driver around the real loader

type write struct {
	link    string
	content string
	okHash  bool // sha256(content bytes) == link
}

// Drv wraps one real ReconciledLoader with an in-memory link system and runs BlockReadOpener /
// RetryLastLoad on a separate goroutine so that a call parked in cond.Wait is observable.
type Drv struct {
	RL     *reconciledloader.ReconciledLoader
	store  map[cid.Cid][]byte
	writes []write
	pend   chan types.AsyncLoadResult
	PendOp []string // the load op that is parked
}

func NewDrv() *Drv {
	d := &Drv{store: map[cid.Cid][]byte{}}
	ls := cidlink.DefaultLinkSystem()
	ls.TrustedStorage = true
	ls.StorageReadOpener = func(lc linking.LinkContext, l datamodel.Link) (io.Reader, error) {
		b, ok := d.store[l.(cidlink.Link).Cid]
		if !ok {
			return nil, fmt.Errorf("not found")
		}
		return bytes.NewReader(b), nil
	}
	ls.StorageWriteOpener = func(lc linking.LinkContext) (io.Writer, linking.BlockWriteCommitter, error) {
		var buf bytes.Buffer
		return &buf, func(l datamodel.Link) error {
			c := l.(cidlink.Link).Cid
			data := append([]byte{}, buf.Bytes()...)
			d.store[c] = data
			h, _ := c.Prefix().Sum(data)
			d.writes = append(d.writes, write{cidName(c), contentIndex(data), h.Equals(c)})
			return nil
		}, nil
	}
	d.RL = reconciledloader.NewReconciledLoader(graphsync.NewRequestID(), &ls)
	return d
}

func (d *Drv) Put(i int) { b := BlockOf(i); d.store[b.c] = b.data }

//go:noinline
func loaderCallMarker(f func() types.AsyncLoadResult, ch chan types.AsyncLoadResult) { ch <- f() }

// parked reports whether the goroutine running loaderCallMarker is blocked (cond wait / channel /
// select / semaphore), by looking at its state in a full goroutine dump.
func parked() bool {
	buf := make([]byte, 1<<16)
	for {
		n := runtime.Stack(buf, true)
		if n < len(buf) {
			buf = buf[:n]
			break
		}
		buf = make([]byte, 2*len(buf))
	}
	for _, g := range strings.Split(string(buf), "\n\n") {
		if !strings.Contains(g, "loader.loaderCallMarker") {
			continue
		}
		hdr := g
		if i := strings.IndexByte(g, '\n'); i >= 0 {
			hdr = g[:i]
		}
		a, b := strings.IndexByte(hdr, '['), strings.IndexByte(hdr, ']')
		if a < 0 || b < a {
			return false
		}
		st := hdr[a+1 : b]
		for _, w := range []string{"sync.Cond.Wait", "chan receive", "select", "semacquire", "sync.WaitGroup.Wait"} {
			if strings.HasPrefix(st, w) {
				return true
			}
		}
		return false
	}
	return false
}

// await waits (without any timer) until the pending call has either delivered its result or parked.
func (d *Drv) await() (types.AsyncLoadResult, bool) {
	for spin := 0; ; spin++ {
		select {
		case r := <-d.pend:
			d.pend = nil
			d.PendOp = nil
			return r, true
		default:
		}
		runtime.Gosched()
		if spin >= 20 && spin%20 == 0 && parked() {
			// make sure the result did not arrive in between
			select {
			case r := <-d.pend:
				d.pend = nil
				d.PendOp = nil
				return r, true
			default:
			}
			return types.AsyncLoadResult{}, false
		}
	}
}

func (d *Drv) call(op []string, f func() types.AsyncLoadResult) (types.AsyncLoadResult, bool) {
	d.pend = make(chan types.AsyncLoadResult, 1)
	d.PendOp = op
	go loaderCallMarker(f, d.pend)
	return d.await()
}

func (d *Drv) Load(op []string, c int, path string) (types.AsyncLoadResult, bool) {
	lctx := linking.LinkContext{Ctx: context.Background(), LinkPath: parsePath(path)}
	l := cidlink.Link{Cid: BlockOf(c).c}
	return d.call(op, func() types.AsyncLoadResult { return d.RL.BlockReadOpener(lctx, l) })
}

func (d *Drv) Retry(op []string) (types.AsyncLoadResult, bool) {
	return d.call(op, func() types.AsyncLoadResult { return d.RL.RetryLastLoad() })
}

// Wake: after a non-load op, see whether a parked load finished.
func (d *Drv) Wake() (types.AsyncLoadResult, bool) {
	if d.pend == nil {
		return types.AsyncLoadResult{}, false
	}
	return d.await()
}

type item struct {
	c      int
	action byte // p d m s
}

func actionOf(a byte) graphsync.LinkAction {
	switch a {
	case 'p':
		return graphsync.LinkActionPresent
	case 'd':
		return graphsync.LinkActionDuplicateNotSent
	case 'm':
		return graphsync.LinkActionMissing
	default:
		return graphsync.LinkActionDuplicateDAGSkipped
	}
}

func (d *Drv) Ingest(items []item, blocks [][2]int) {
	md := make([]message.GraphSyncLinkMetadatum, 0, len(items))
	for _, it := range items {
		md = append(md, message.GraphSyncLinkMetadatum{Link: BlockOf(it.c).c, Action: actionOf(it.action)})
	}
	bm := map[cid.Cid][]byte{}
	for _, kb := range blocks {
		if _, dup := bm[BlockOf(kb[0]).c]; dup {
			continue // the model's lookup takes the first entry
		}
		bm[BlockOf(kb[0]).c] = BlockOf(kb[1]).data
	}
	d.RL.IngestResponse(message.NewLinkMetadata(md), trace.Link{}, bm)
}

// Close releases a still parked goroutine at the end of a case.
func (d *Drv) Close() {
	if d.pend != nil {
		d.RL.SetRemoteOnline(true)
		d.RL.SetRemoteOnline(false)
		d.await()
	}
}

type kind int

const (
	kData kind = iota
	kMissing
	kIncorrect
	kExtra
	kRetryNone
	kOther
)

func classify(r types.AsyncLoadResult) kind {
	switch e := r.Err.(type) {
	case nil:
		return kData
	case graphsync.RemoteMissingBlockErr:
		return kMissing
	case graphsync.RemoteIncorrectResponseError:
		return kIncorrect
	default:
		s := e.Error()
		switch {
		case strings.Contains(s, "additional data"):
			return kExtra
		case strings.Contains(s, "cannot retry"):
			return kRetryNone
		}
		return kOther
	}
}

func b2i(b bool) int {
	if b {
		return 1
	}
	return 0
}

func render(r types.AsyncLoadResult, ws []write) string {
	var sb strings.Builder
	switch e := r.Err.(type) {
	case nil:
		if r.Data == nil {
			sb.WriteString("nodata")
		} else {
			fmt.Fprintf(&sb, "data %s", contentIndex(r.Data))
		}
	case graphsync.RemoteMissingBlockErr:
		fmt.Fprintf(&sb, "missing %s %s", linkName(e.Link), pathName(e.Path))
	case graphsync.RemoteIncorrectResponseError:
		fmt.Fprintf(&sb, "incorrect %s %s %s", linkName(e.LocalLink), linkName(e.RemoteLink), pathName(e.Path))
	default:
		switch classify(r) {
		case kExtra:
			sb.WriteString("extra")
		case kRetryNone:
			sb.WriteString("retrynone")
		default:
			if strings.Contains(e.Error(), "nothing left") {
				sb.WriteString("nothing")
			} else {
				sb.WriteString("other-error")
			}
		}
	}
	fmt.Fprintf(&sb, " L%d", b2i(r.Local))
	for _, w := range ws {
		fmt.Fprintf(&sb, " W%s=%s", w.link, w.content)
	}
	return sb.String()
}

// ---------------------------------------------------------------- op parsing

func parseItems(s string) ([]item, bool) {
	if s == "-" {
		return nil, true
	}
	var out []item
	for _, t := range strings.Split(s, ",") {
		if len(t) < 2 {
			return nil, false
		}
		a := t[len(t)-1]
		if !strings.ContainsRune("pdms", rune(a)) {
			return nil, false
		}
		c, err := strconv.Atoi(t[:len(t)-1])
		if err != nil || c < 0 {
			return nil, false
		}
		out = append(out, item{c, a})
	}
	return out, true
}

func parseBlocks(s string) ([][2]int, bool) {
	if s == "-" {
		return nil, true
	}
	var out [][2]int
	for _, t := range strings.Split(s, ",") {
		kv := strings.Split(t, "=")
		if len(kv) > 2 {
			return nil, false
		}
		k, err := strconv.Atoi(kv[0])
		if err != nil || k < 0 {
			return nil, false
		}
		v := k
		if len(kv) == 2 {
			v, err = strconv.Atoi(kv[1])
			if err != nil || v < 0 {
				return nil, false
			}
		}
		out = append(out, [2]int{k, v})
	}
	return out, true
}

func validPath(s string) bool {
	if s == "-" {
		return true
	}
	for _, x := range strings.Split(s, "/") {
		if n, err := strconv.Atoi(x); err != nil || n < 0 {
			return false
		}
	}
	return true
}

// ---------------------------------------------------------------- run

// watchdog: the code under test is called synchronously; if one case does not return within the
// limit (an endless loop in a mutated / broken loader — e.g. Cleanup on a cyclic queue) onStuck runs
// and the process ends.  Safety net only: no verdict depends on timing.
func watchdog(limit time.Duration, onStuck func()) (kick func(), stop func()) {
	var mu sync.Mutex
	last := time.Now()
	done := make(chan struct{})
	go func() {
		t := time.NewTicker(limit / 4)
		defer t.Stop()
		for {
			select {
			case <-done:
				return
			case <-t.C:
				mu.Lock()
				stuck := time.Since(last) > limit
				mu.Unlock()
				if stuck {
					onStuck()
					return
				}
			}
		}
	}()
	return func() { mu.Lock(); last = time.Now(); mu.Unlock() }, func() { close(done) }
}

func Run(cases []reg.Case, out *reg.Out) {
	runtime.GOMAXPROCS(1) // one P: the traversal goroutine and the driver interleave only at the hand-shakes
	cur := ""
	kick, stop := watchdog(20*time.Second, func() {
		out.Fail("hang", "the loader did not return from an operation of case %s (endless loop)", cur)
		out.Finish()
		os.Exit(3)
	})
	defer stop()
	for _, c := range cases {
		cur = c.ID
		kick()
		out.BeginCase(c)
		runCase(c, out)
	}
}

func runCase(c reg.Case, out *reg.Out) {
	d := NewDrv()
	defer func() { d.Close() }()
	or := newOracle(out)
	for _, op := range c.Ops {
		out.Cov("op." + op[0])
		d.writes = nil
		switch op[0] {
		case "lt", "remote", "note":
			or.meta(op)
			out.Line("-")
			continue
		case "new": // a fresh loader (another request of the same process)
			if len(op) != 1 {
				out.Line("bad-op")
				continue
			}
			or.finish()
			d.Close()
			d = NewDrv()
			or = newOracle(out)
			out.Line("ok")
			continue
		case "put":
			ok := len(op) > 1
			var cs []int
			for _, t := range op[1:] {
				n, err := strconv.Atoi(t)
				if err != nil || n < 0 {
					ok = false
				}
				cs = append(cs, n)
			}
			if !ok {
				out.Line("bad-op")
				continue
			}
			for _, n := range cs {
				d.Put(n)
				or.put(n)
			}
			out.Line("ok")
			continue
		case "online":
			if len(op) != 2 || (op[1] != "0" && op[1] != "1") {
				out.Line("bad-op")
				continue
			}
			d.RL.SetRemoteOnline(op[1] == "1")
			or.online(op[1] == "1")
		case "ingest":
			if len(op) != 3 {
				out.Line("bad-op")
				continue
			}
			items, ok1 := parseItems(op[1])
			blocks, ok2 := parseBlocks(op[2])
			if !ok1 || !ok2 {
				out.Line("bad-op")
				continue
			}
			d.Ingest(items, blocks)
			or.ingest(items, blocks)
		case "cleanup":
			if len(op) != 1 {
				out.Line("bad-op")
				continue
			}
			d.RL.Cleanup(context.Background())
			or.cleanup()
		case "load", "retry":
			var r types.AsyncLoadResult
			var done bool
			if op[0] == "load" {
				if len(op) != 3 || !validPath(op[2]) {
					out.Line("bad-op")
					continue
				}
				n, err := strconv.Atoi(op[1])
				if err != nil || n < 0 {
					out.Line("bad-op")
					continue
				}
				if d.pend != nil {
					out.Cov("load.while-parked")
					out.Line("bad-op")
					continue
				}
				or.startLoad(n, op[2])
				r, done = d.Load(op, n, op[2])
			} else {
				if len(op) != 1 {
					out.Line("bad-op")
					continue
				}
				if d.pend != nil {
					out.Cov("load.while-parked")
					out.Line("bad-op")
					continue
				}
				or.startRetry()
				r, done = d.Retry(op)
			}
			if !done {
				out.Cov("res.blocked")
				or.writes(d.writes)
				out.Line("blocked")
				continue
			}
			or.writes(d.writes)
			or.result(r, d)
			out.Cov("res." + strings.Fields(render(r, nil))[0])
			out.Line("%s", render(r, d.writes))
			continue
		default:
			out.Line("bad-op")
			continue
		}
		// non-load op: did a parked load finish?
		if r, done := d.Wake(); done {
			or.writes(d.writes)
			or.result(r, d)
			out.Cov("res.woken." + strings.Fields(render(r, nil))[0])
			out.Line("ok | %s", render(r, d.writes))
		} else {
			or.writes(d.writes)
			out.Line("ok")
		}
	}
	or.finish()
}

// ---------------------------------------------------------------- oracle (written from the property text)

type ltNode struct {
	block  int
	parent int
	path   string
}

// oracle watches one case.
//
// C01 (always): every store write happens during a load, for the link that load requests, with
// content hashing to that link; every delivered block hashes to the requested link; a
// RemoteIncorrectResponseError load writes nothing.  (Claims about hashes are only made when every
// block map of the case was keyed by the true hash — the wire decoder's guarantee, C12.)
//
// C02 (cases that carry `lt` + `remote` and whose ops are exactly what a requestor traversal and an
// honest responder produce): each load is answered with data iff the requestor holds the block or
// the responder holds it and followed every ancestor link; otherwise RemoteMissingBlockErr; never a
// verification error; blocks delivered from the remote are in the store afterwards.
type oracle struct {
	out       *reg.Out
	wellKeyed bool
	cur       int    // link of the load in progress / parked (-1 none)
	curPath   string // path of that load
	last      int    // link of the most recent load attempt (for retry)
	lastPath  string
	// honest-case tracking
	lt        []ltNode
	byPath    map[string]int
	hasLT     bool
	rem       map[int]bool
	hasRem    bool
	loc       map[int]bool
	honest    bool // still consistent with the honest protocol
	why       string
	next      int  // next LT node the traversal must request
	loaded    int  // successful loads so far
	isOn      bool
	everOn    bool
	expected  []expItem // the responder's stream (set when going online)
	got       int       // number of stream items ingested so far
	closed    bool
	prefix    []int // LT nodes loaded before going online
	lacksPref bool  // a needed block lies inside the skipped window (see wnodes)
	wnodes    map[int]bool
	failed    bool
	needRetry bool
	retryNode int
	nLoads    int
}

type expItem struct {
	c       int
	present bool
	block   bool
	node    int
}

func newOracle(out *reg.Out) *oracle {
	return &oracle{out: out, wellKeyed: true, cur: -1, last: -1, rem: map[int]bool{}, loc: map[int]bool{}, honest: true, byPath: map[string]int{}}
}

func (o *oracle) dishonest(why string) {
	if o.honest {
		o.honest = false
		o.why = why
	}
}

func (o *oracle) meta(op []string) {
	switch op[0] {
	case "lt":
		if len(op) < 2 {
			return
		}
		for _, t := range op[2:] {
			f := strings.Split(t, ":")
			if len(f) != 3 {
				o.dishonest("bad lt")
				return
			}
			b, e1 := strconv.Atoi(f[0])
			p, e2 := strconv.Atoi(f[1])
			if e1 != nil || e2 != nil || p >= len(o.lt) || p < -1 {
				o.dishonest("bad lt")
				return
			}
			o.byPath[f[2]] = len(o.lt)
			o.lt = append(o.lt, ltNode{b, p, f[2]})
		}
		o.hasLT = len(o.lt) > 0
		// the link trees of this stream come from the reference traversal too (generator): check the
		// hypotheses the Lean theorems make about them
		if o.honest && o.hasLT {
			paths := make([][]string, len(o.lt))
			depth := make([]int, len(o.lt))
			for i2, nd := range o.lt {
				if nd.path != "-" {
					paths[i2] = strings.Split(nd.path, "/")
				}
				if nd.parent >= 0 {
					depth[i2] = depth[nd.parent] + 1
				}
			}
			for _, e := range dag.ShapeErrors(paths, depth) {
				o.out.Fail("harness-lt-shape", "link tree violates a hypothesis of the Lean theorems: %s", e)
			}
		}
	case "remote":
		o.hasRem = true
		if len(op) > 1 && op[1] != "-" {
			for _, t := range strings.Split(op[1], ",") {
				n, err := strconv.Atoi(t)
				if err == nil {
					o.rem[n] = true
				}
			}
		}
	}
}

func (o *oracle) put(n int) {
	if o.nLoads > 0 {
		o.dishonest("put after loads")
	}
	o.loc[n] = true
}

func (o *oracle) isDesc(j, i int) bool {
	for j > i {
		j = o.lt[j].parent
	}
	return j == i
}

func (o *oracle) skipSubtree(i int) int {
	j := i + 1
	for j < len(o.lt) && o.isDesc(j, i) {
		j++
	}
	return j
}

// the honest responder's stream: DFS of the link tree over its own store; a block is attached iff
// present, its index exceeds skip, and no earlier entry of this request was present for the same link
func (o *oracle) responderStream(skip int) []expItem {
	var out []expItem
	seen := map[int]bool{}
	for i := 0; i < len(o.lt); {
		b := o.lt[i].block
		if o.rem[b] {
			out = append(out, expItem{b, true, len(out)+1 > skip && !seen[b], i})
			seen[b] = true
			i++
		} else {
			out = append(out, expItem{b, false, false, i})
			i = o.skipSubtree(i)
		}
	}
	return out
}

// available: requestor holds it, or responder holds it and every ancestor link
func (o *oracle) available(i int) bool {
	b := o.lt[i].block
	if o.loc[b] {
		return true
	}
	for j := i; j >= 0; j = o.lt[j].parent {
		if !o.rem[o.lt[j].block] {
			return false
		}
	}
	return true
}

func (o *oracle) online(on bool) {
	if on {
		if o.everOn || !o.needRetry {
			o.dishonest("online 1 at an unexpected point")
		}
		o.everOn = true
		o.isOn = true
		if o.honest && o.hasLT {
			o.expected = o.responderStream(o.loaded)
			// known finding skip-prefix-mismatch (computed from the case alone): the link-tree nodes
			// among the first `skip` links of the responder's own traversal that lie beyond the locally
			// loaded prefix, that the responder holds and the requestor does not
			o.wnodes = map[int]bool{}
			for k, e := range o.expected {
				if k >= o.loaded {
					break
				}
				if e.node >= len(o.prefix) && e.present && !o.loc[e.c] {
					o.lacksPref = true
					// that occurrence and every later occurrence of the block (never sent: the responder
					// counts it as traversed)
					for k2 := len(o.prefix); k2 < len(o.lt); k2++ {
						if o.lt[k2].block == e.c {
							o.wnodes[k2] = true
						}
					}
				}
			}
		}
	} else {
		if !o.isOn || o.got < len(o.expected) {
			o.dishonest("close before the end of the stream")
		}
		o.isOn = false
		o.closed = true
	}
}

func (o *oracle) ingest(items []item, blocks [][2]int) {
	for _, kb := range blocks {
		if kb[0] != kb[1] {
			o.wellKeyed = false
			o.out.Cov("ingest.ill-keyed")
		}
	}
	if !o.isOn {
		o.dishonest("ingest while offline")
		return
	}
	have := map[int]bool{}
	for _, kb := range blocks {
		have[kb[0]] = true
	}
	want := map[int]bool{}
	for _, it := range items {
		if o.got >= len(o.expected) {
			o.dishonest("more items than the responder's traversal")
			return
		}
		e := o.expected[o.got]
		o.got++
		if e.c != it.c || e.present != (it.action == 'p') || (it.action != 'p' && it.action != 'm') {
			o.dishonest("item differs from the responder's traversal")
			return
		}
		if e.block {
			want[e.c] = true
		}
	}
	for k := range want {
		if !have[k] {
			o.dishonest("block not attached")
		}
	}
	for k := range have {
		if !want[k] {
			o.dishonest("extra block")
		}
	}
}

func (o *oracle) cleanup() { o.dishonest("cleanup") }

func (o *oracle) startLoad(c int, path string) {
	o.nLoads++
	o.cur, o.curPath = c, path
	o.last, o.lastPath = c, path
	if !o.hasLT {
		o.dishonest("no lt")
		return
	}
	if o.needRetry {
		o.dishonest("load instead of retry")
	}
	if o.next >= len(o.lt) || o.lt[o.next].block != c || o.lt[o.next].path != path {
		o.dishonest("load is not the traversal's next request")
	}
}

func (o *oracle) startRetry() {
	o.cur, o.curPath = o.last, o.lastPath
	if !o.needRetry || !o.isOn {
		o.dishonest("retry at an unexpected point")
	}
	o.needRetry = false
}

func (o *oracle) writes(ws []write) {
	for _, w := range ws {
		if o.cur < 0 {
			o.out.Fail("store-outside-load", "block %s=%s written while no load is in progress", w.link, w.content)
			continue
		}
		if w.link != strconv.Itoa(o.cur) {
			o.out.Fail("store-not-requested", "block written under link %s while the traversal requests %d at %s", w.link, o.cur, o.curPath)
		}
		if o.wellKeyed && !w.okHash {
			o.out.Fail("store-unverified", "content %s written under link %s: hash mismatch", w.content, w.link)
		}
	}
}

func (o *oracle) result(r types.AsyncLoadResult, d *Drv) {
	k := classify(r)
	cur := o.cur
	o.cur = -1
	if cur < 0 {
		return
	}
	want := BlockOf(cur)
	if k == kData && o.wellKeyed && !bytes.Equal(r.Data, want.data) {
		o.out.Fail("deliver-unverified", "load of %d at %s delivered content %s", cur, o.curPath, contentIndex(r.Data))
	}
	if k == kIncorrect && len(d.writes) > 0 {
		o.out.Fail("mismatch-write", "RemoteIncorrectResponseError for %d at %s but a block was written", cur, o.curPath)
	}
	if k == kData && !r.Local && o.wellKeyed {
		if got, ok := d.store[want.c]; !ok || !bytes.Equal(got, want.data) {
			o.out.Fail("remote-not-stored", "block %d delivered from the remote is not in the local store", cur)
		}
	}
	// ---- honest-protocol bookkeeping and C02 verdict
	if !o.hasLT || !o.hasRem || !o.honest || o.failed {
		return
	}
	i := o.next
	if i >= len(o.lt) {
		return
	}
	if !o.everOn {
		// offline phase: the answer is the local store's; a miss triggers the remote request
		if k == kMissing {
			o.needRetry = true
			o.retryNode = i
			return
		}
		if k == kData {
			o.prefix = append(o.prefix, i)
		}
	}
	avail := o.available(i)
	cls := ""
	switch {
	case k == kData && avail:
	case k == kMissing && !avail:
	case k == kMissing && avail:
		cls = "honest-missing"
	case k == kData && !avail:
		cls = "honest-unexpected-data"
	default:
		cls = "honest-rejected"
	}
	if cls != "" {
		o.failed = true
		// the known finding is attributed only to its failure mode: a link of the skipped window
		// whose block the requestor needs is reported missing; every other failure keeps its class
		if cls == "honest-missing" && o.wnodes[i] {
			cls = "skip-prefix-mismatch"
		}
		o.out.Fail(cls, "honest exchange: load of %d at %s answered %q; available=%v (local=%v)", cur, o.curPath, render(r, nil), avail, o.loc[o.lt[i].block])
		return
	}
	if k == kData {
		o.loaded++
		o.next = i + 1
		if !r.Local {
			o.loc[o.lt[i].block] = true // obtained from the responder: part of the requestor's store from now on
		}
	} else {
		o.next = o.skipSubtree(i)
	}
}

func (o *oracle) finish() {
	if o.hasLT && o.hasRem {
		if o.honest {
			o.out.Cov("honest.valid")
			if o.lacksPref {
				o.out.Cov("honest.lacks-prefix")
			}
		} else {
			o.out.Cov("honest.no:" + strings.ReplaceAll(o.why, " ", "-"))
		}
	}
}

// ---------------------------------------------------------------- generator

type genCtx struct {
	r *rand.Rand
	w *bufio.Writer
	d *Drv
}

func (g *genCtx) emit(op ...string) { fmt.Fprintln(g.w, strings.Join(op, " ")) }

func fmtItems(items []item) string {
	if len(items) == 0 {
		return "-"
	}
	ss := make([]string, len(items))
	for i, it := range items {
		ss[i] = fmt.Sprintf("%d%c", it.c, it.action)
	}
	return strings.Join(ss, ",")
}

func fmtBlocks(bs [][2]int) string {
	if len(bs) == 0 {
		return "-"
	}
	ss := make([]string, len(bs))
	for i, b := range bs {
		if b[0] == b[1] {
			ss[i] = strconv.Itoa(b[0])
		} else {
			ss[i] = fmt.Sprintf("%d=%d", b[0], b[1])
		}
	}
	return strings.Join(ss, ",")
}

type sitem struct {
	item
	block int // content attached (-1 none)
}

type batch struct {
	items  []item
	blocks [][2]int
}

// LTCase is a DAG+selector unfolded into a link tree, with the two stores.
type LTCase struct {
	LT       []ltNode
	Loc, Rem map[int]bool
	NBlocks  int
	Line     string
}

func GenLTCase(r *rand.Rand, maxBlocks int) *LTCase {
	for {
		o := dag.DefaultOpts()
		o.MaxBlocks = maxBlocks
		d := dag.Gen(r, o)
		_, sel := dag.GenSelector(r)
		lt, _, err := dag.Reference(d, sel, nil)
		if err != nil || len(lt.Loads) == 0 || len(lt.Loads) > 40 {
			continue
		}
		si := dag.NewSegInterner()
		c := &LTCase{Loc: map[int]bool{}, Rem: map[int]bool{}, NBlocks: len(d.Cids)}
		c.Line = "lt " + lt.Format(si.Name)
		for _, l := range lt.Loads {
			ss := make([]string, len(l.Path))
			for i, s := range l.Path {
				ss[i] = si.Name(s)
			}
			p := strings.Join(ss, "/")
			if p == "" {
				p = "-"
			}
			c.LT = append(c.LT, ltNode{l.Block, l.Parent, p})
		}
		ps := []float64{0, 0.3, 0.6, 0.85, 1}
		pl, pr := ps[r.Intn(len(ps))], ps[r.Intn(len(ps))]
		for i := 0; i < len(d.Cids); i++ {
			if r.Float64() < pl {
				c.Loc[i] = true
			}
			if r.Float64() < pr {
				c.Rem[i] = true
			}
		}
		return c
	}
}

func setList(m map[int]bool) []int {
	var l []int
	for k := range m {
		l = append(l, k)
	}
	sort.Ints(l)
	return l
}

func joinInts(l []int, sep string) string {
	if len(l) == 0 {
		return "-"
	}
	ss := make([]string, len(l))
	for i, x := range l {
		ss[i] = strconv.Itoa(x)
	}
	return strings.Join(ss, sep)
}

// honest responder stream (same rule as the oracle's; the generator needs it to build cases)
func honestStream(lt []ltNode, rem map[int]bool, skip int) []sitem {
	o := &oracle{lt: lt, rem: rem}
	var out []sitem
	for _, e := range o.responderStream(skip) {
		a := byte('m')
		if e.present {
			a = 'p'
		}
		b := -1
		if e.block {
			b = e.c
		}
		out = append(out, sitem{item{e.c, a}, b})
	}
	return out
}

func mutate(r *rand.Rand, s []sitem, lt []ltNode, nBlocks int) ([]sitem, []string) {
	var notes []string
	n := 1 + r.Intn(3)
	for k := 0; k < n; k++ {
		if len(s) == 0 {
			s = append(s, sitem{item{r.Intn(nBlocks + 1), 'p'}, -1})
			notes = append(notes, "invent")
			continue
		}
		i := r.Intn(len(s))
		switch r.Intn(12) {
		case 0: // reorder
			j := r.Intn(len(s))
			s[i], s[j] = s[j], s[i]
			notes = append(notes, "swap")
		case 1: // drop
			s = append(s[:i:i], s[i+1:]...)
			notes = append(notes, "drop")
		case 2: // duplicate
			s = append(s[:i+1:i+1], s[i:]...)
			notes = append(notes, "dup")
		case 3: // wrong action
			s[i].action = "pdms"[r.Intn(4)]
			notes = append(notes, "action")
		case 4: // foreign link
			s[i].c = 100 + r.Intn(3)
			if s[i].block >= 0 {
				s[i].block = s[i].c
			}
			notes = append(notes, "foreign")
		case 5: // link of another block of the DAG
			s[i].c = r.Intn(nBlocks)
			if s[i].block >= 0 {
				s[i].block = s[i].c
			}
			notes = append(notes, "otherlink")
		case 6: // metadata for another path of the tree
			j := r.Intn(len(lt))
			s = append(s[:i:i], append([]sitem{{item{lt[j].block, 'p'}, lt[j].block}}, s[i:]...)...)
			notes = append(notes, "otherpath")
		case 7: // present without block
			s[i].block = -1
			notes = append(notes, "noblock")
		case 8: // block for everything (incl. skipped / missing items)
			for j := range s {
				s[j].block = s[j].c
			}
			notes = append(notes, "allblocks")
		case 9: // truncate (premature end)
			s = s[:i]
			notes = append(notes, "truncate")
		case 10: // claims present for a missing one, with a block of another cid under the right key? (ill keyed)
			if r.Intn(4) == 0 {
				s[i].block = 100 + r.Intn(3)
				notes = append(notes, "illkeyed")
			} else {
				s[i].action = 'p'
				s[i].block = s[i].c
				notes = append(notes, "forcepresent")
			}
		default: // append garbage at the end
			s = append(s, sitem{item{r.Intn(nBlocks + 2), "pm"[r.Intn(2)]}, -1})
			notes = append(notes, "append")
		}
	}
	return s, notes
}

func toBatches(r *rand.Rand, s []sitem, extra bool) []batch {
	var out []batch
	for len(s) > 0 {
		n := 1 + r.Intn(4)
		if r.Intn(4) == 0 {
			n = len(s)
		}
		if n > len(s) {
			n = len(s)
		}
		var b batch
		for _, it := range s[:n] {
			b.items = append(b.items, it.item)
			if it.block >= 0 {
				b.blocks = append(b.blocks, [2]int{it.c, it.block})
			}
		}
		if extra && r.Intn(3) == 0 {
			x := 100 + r.Intn(4)
			b.blocks = append(b.blocks, [2]int{x, x})
		}
		out = append(out, b)
		s = s[n:]
	}
	return out
}

// genTraversal emulates executor.traverse over the link tree against the REAL loader (so that the
// next request always is what a traversal would ask next) while a scripted responder stream —
// honest or mutated — is delivered in random batches at random moments.
func genTraversal(r *rand.Rand, w *bufio.Writer, id string, adversarial bool, maxBlocks int) {
	c := GenLTCase(r, maxBlocks)
	g := &genCtx{r: r, w: w, d: NewDrv()}
	defer g.d.Close()
	mode := "honest"
	if adversarial {
		mode = "adv"
	}
	fmt.Fprintf(w, "case %s mode=%s\n", id, mode)
	g.emit(c.Line)
	g.emit("remote", joinInts(setList(c.Rem), ","))
	if len(c.Loc) > 0 {
		g.emit("put", joinInts(setList(c.Loc), " "))
		for k := range c.Loc {
			g.d.Put(k)
		}
	}
	lt := c.LT
	isDesc := func(j, i int) bool {
		for j > i {
			j = lt[j].parent
		}
		return j == i
	}
	var batches []batch
	streamSet := false
	online := false
	requestSent := false
	loaded := 0
	pauses := 0
	deliver := func() bool { // deliver the next batch or the close; false if nothing left to do
		if len(batches) > 0 {
			b := batches[0]
			batches = batches[1:]
			g.emit("ingest", fmtItems(b.items), fmtBlocks(b.blocks))
			g.d.Ingest(b.items, b.blocks)
			return true
		}
		if online {
			g.emit("online", "0")
			g.d.RL.SetRemoteOnline(false)
			online = false
			return true
		}
		return false
	}
	settle := func(res types.AsyncLoadResult, done bool) (types.AsyncLoadResult, bool) {
		for !done {
			if !deliver() {
				return res, false
			}
			res, done = g.d.Wake()
		}
		return res, true
	}
	i := 0
	for i < len(lt) {
		// deliver some of the stream ahead of the loads
		for online && r.Intn(3) == 0 {
			if len(batches) == 0 && r.Intn(2) == 0 {
				break
			}
			deliver()
		}
		op := []string{"load", strconv.Itoa(lt[i].block), lt[i].path}
		g.emit(op...)
		res, done := settle(g.d.Load(op, lt[i].block, lt[i].path))
		if !done {
			return
		}
		if classify(res) == kMissing && !requestSent {
			requestSent = true
			g.emit("online", "1")
			g.d.RL.SetRemoteOnline(true)
			online = true
			if !streamSet || adversarial {
				s := honestStream(lt, c.Rem, loaded)
				if adversarial && r.Intn(8) != 0 {
					var notes []string
					s, notes = mutate(r, s, lt, c.NBlocks)
					g.emit("note", strings.Join(notes, ","))
				}
				batches = toBatches(r, s, adversarial)
				streamSet = true
			}
			for r.Intn(2) == 0 && len(batches) > 0 {
				deliver()
			}
			g.emit("retry")
			res, done = settle(g.d.Retry([]string{"retry"}))
			if !done {
				return
			}
		}
		switch classify(res) {
		case kData:
			loaded++
			i++
		case kMissing:
			j := i + 1
			for j < len(lt) && isDesc(j, i) {
				j++
			}
			i = j
		default:
			// the traversal fails: executor cancels and goes offline
			if online {
				g.emit("online", "0")
				g.d.RL.SetRemoteOnline(false)
			}
			return
		}
		// requestor-side pause / resume (adversarial stream only; C06 territory but the loader sees it)
		if adversarial && online && pauses < 2 && r.Intn(12) == 0 {
			pauses++
			g.emit("online", "0")
			g.d.RL.SetRemoteOnline(false)
			online = false
			requestSent = false
			if len(batches) > 0 && r.Intn(2) == 0 {
				deliver() // a message that was still in flight: refused
			}
			batches = nil
		}
	}
	for online && (len(batches) > 0 || r.Intn(2) == 0) {
		deliver()
	}
}

var soupPaths = []string{"-", "0", "1", "0/0", "0/1", "0/1/2", "1/0", "1/0/3", "2", "0/0/0"}

// genSoup: arbitrary op sequences over a tiny universe (model validation of the corners:
// retry anywhere, online toggles with left-over items, cleanup, loads at unrelated paths).
func genSoup(r *rand.Rand, w *bufio.Writer, id string) {
	g := &genCtx{r: r, w: w, d: NewDrv()}
	defer g.d.Close()
	fmt.Fprintf(w, "case %s mode=soup\n", id)
	nc := 2 + r.Intn(4)
	if r.Intn(2) == 0 {
		var ps []string
		for k := 0; k < nc; k++ {
			if r.Intn(2) == 0 {
				ps = append(ps, strconv.Itoa(k))
				g.d.Put(k)
			}
		}
		if len(ps) > 0 {
			g.emit(append([]string{"put"}, ps...)...)
		}
	}
	n := 3 + r.Intn(25)
	for k := 0; k < n; k++ {
		x := r.Intn(100)
		parkedNow := g.d.pend != nil
		switch {
		case x < 35 && (!parkedNow || r.Intn(10) == 0):
			op := []string{"load", strconv.Itoa(r.Intn(nc)), soupPaths[r.Intn(len(soupPaths))]}
			g.emit(op...)
			if !parkedNow {
				cc, _ := strconv.Atoi(op[1])
				g.d.Load(op, cc, op[2])
			}
		case x < 45 && (!parkedNow || r.Intn(10) == 0):
			g.emit("retry")
			if !parkedNow {
				g.d.Retry([]string{"retry"})
			}
		case x < 75:
			var items []item
			var blocks [][2]int
			m := r.Intn(4)
			for j := 0; j < m; j++ {
				it := item{r.Intn(nc), "ppppmmds"[r.Intn(8)]}
				items = append(items, it)
				if r.Intn(3) != 0 {
					blocks = append(blocks, [2]int{it.c, it.c})
				}
			}
			if r.Intn(30) == 0 && len(blocks) > 0 {
				blocks[0][1] = r.Intn(nc)
			}
			g.emit("ingest", fmtItems(items), fmtBlocks(blocks))
			g.d.Ingest(items, blocks)
			g.d.Wake()
		case x < 92:
			on := r.Intn(3) != 0
			g.emit("online", strconv.Itoa(b2i(on)))
			g.d.RL.SetRemoteOnline(on)
			g.d.Wake()
		case x < 95:
			g.emit("cleanup")
			g.d.RL.Cleanup(context.Background())
			g.d.Wake()
		default:
			c := r.Intn(nc)
			g.emit("put", strconv.Itoa(c))
			g.d.Put(c)
		}
	}
}

// genRetryCorner: RetryLastLoad of a load that consumed the last queued item, with items arriving
// before / after the retry (the linked-list corner of remoteQueue.retryLast: the re-queued item's
// next pointer is nil, newer items live on another chain).
func genRetryCorner(r *rand.Rand, w *bufio.Writer, id string) {
	g := &genCtx{r: r, w: w, d: NewDrv()}
	defer g.d.Close()
	fmt.Fprintf(w, "case %s mode=corner\n", id)
	next := 0 // next cid to ingest
	path := func(k int) string {
		if k == 0 {
			return "-"
		}
		return strings.TrimSuffix(strings.Repeat("0/", k), "/")
	}
	ing := func(m int) {
		if m == 0 {
			return
		}
		var items []item
		var blocks [][2]int
		for j := 0; j < m; j++ {
			items = append(items, item{next, 'p'})
			if r.Intn(4) != 0 {
				blocks = append(blocks, [2]int{next, next})
			}
			next++
		}
		g.emit("ingest", fmtItems(items), fmtBlocks(blocks))
		g.d.Ingest(items, blocks)
		g.d.Wake()
	}
	if r.Intn(3) == 0 {
		g.emit("put", "0", "1")
		g.d.Put(0)
		g.d.Put(1)
	}
	g.emit("online", "1")
	g.d.RL.SetRemoteOnline(true)
	ld := 0
	load := func() bool {
		if g.d.pend != nil {
			return false
		}
		op := []string{"load", strconv.Itoa(ld), path(ld)}
		g.emit(op...)
		g.d.Load(op, ld, op[2])
		ld++
		return true
	}
	rounds := 1 + r.Intn(3)
	for k := 0; k < rounds; k++ {
		n := 1 + r.Intn(3)
		ing(n)
		for j := 0; j < n-r.Intn(2); j++ {
			load()
		}
		ing(r.Intn(3))
		if g.d.pend == nil {
			if r.Intn(5) == 0 {
				g.emit("online", "0")
				g.d.RL.SetRemoteOnline(false)
				g.emit("online", "1")
				g.d.RL.SetRemoteOnline(true)
			}
			g.emit("retry")
			g.d.Retry([]string{"retry"})
		}
		ing(r.Intn(3))
		for j := r.Intn(3); j > 0; j-- {
			load()
		}
	}
	g.emit("online", "0")
	g.d.RL.SetRemoteOnline(false)
	g.d.Wake()
	for j := r.Intn(3); j > 0; j-- {
		load()
	}
}

// genRetryCorner2: a retried load that sits below an unfollowed remote path (it does not consume a
// queue item, yet RetryLastLoad re-queues the last consumed one).
func genRetryCorner2(r *rand.Rand, w *bufio.Writer, id string) {
	fmt.Fprintf(w, "case %s mode=corner\n", id)
	e := func(s string) { fmt.Fprintln(w, s) }
	if r.Intn(4) != 0 {
		e("put 5")
	}
	e("online 1")
	e("ingest 9p,1m 9")
	e("load 9 -")
	e("load 1 0")
	if r.Intn(2) == 0 {
		e("ingest 7p 7")
	}
	if r.Intn(4) == 0 {
		e("online 0")
	}
	e("load 5 0/0")
	e("retry")
	if r.Intn(3) != 0 {
		e("ingest 8p,6p 8")
	}
	e("load 1 1")
	e([]string{"load 8 2", "load 7 2", "load 6 2"}[r.Intn(3)])
	e("online 0")
	if r.Intn(2) == 0 {
		e("retry")
	}
}

func Gen(seed int64, n int, tier string, w *bufio.Writer) {
	runtime.GOMAXPROCS(1)
	r := rand.New(rand.NewSource(seed))
	// the generator drives the real loader to know what a traversal asks next; if that code hangs,
	// keep the cases generated so far (corpus + these still run) instead of blocking the check
	kick, stop := watchdog(20*time.Second, func() {
		fmt.Fprintln(os.Stderr, "loader generator: the code under test does not return; stopping generation")
		os.Exit(0)
	})
	defer stop()
	for i := 0; i < n; i++ {
		kick()
		w.Flush()
		switch i % 10 {
		case 0, 1, 2:
			genTraversal(r, w, fmt.Sprintf("h%d", i), false, 7)
		case 3, 4, 5, 6:
			genTraversal(r, w, fmt.Sprintf("a%d", i), true, 7)
		case 7:
			if i%20 == 7 {
				genRetryCorner2(r, w, fmt.Sprintf("d%d", i))
			} else {
				genRetryCorner(r, w, fmt.Sprintf("c%d", i))
			}
		default:
			genSoup(r, w, fmt.Sprintf("s%d", i))
		}
	}
}
