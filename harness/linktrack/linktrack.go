// Package linktrack drives the real linktracker.LinkTracker (directly) and the real, unexported
// responseassembler.peerLinkTracker (through responseassembler.New / NewStream / Transaction and a
// fake PeerMessageHandler that builds every message at once).  Component "linktrack", property C19.
package linktrack

import (
	"bufio"
	"context"
	"fmt"
	"math/rand"
	"strconv"
	"strings"

	blocks "github.com/ipfs/go-block-format"
	"github.com/ipfs/go-cid"
	"github.com/ipld/go-ipld-prime"
	cidlink "github.com/ipld/go-ipld-prime/linking/cid"
	"github.com/libp2p/go-libp2p/core/peer"

	"github.com/ipfs/go-graphsync"
	"github.com/ipfs/go-graphsync/linktracker"
	gsmsg "github.com/ipfs/go-graphsync/message"
	"github.com/ipfs/go-graphsync/messagequeue"
	"github.com/ipfs/go-graphsync/notifications"
	"github.com/ipfs/go-graphsync/responsemanager/responseassembler"

	"verifharness/reg"
)

func init() {
	reg.Register(&reg.Component{Name: "linktrack", Gen: Gen, Run: Run})
}

// ---------------------------------------------------------------- generator

const (
	nLinks = 6
	nKeys  = 3
)

func presence(r *rand.Rand, pMissing int) string {
	if r.Intn(100) < pMissing {
		return "missing"
	}
	return "present"
}

func linkList(r *rand.Rand) string {
	n := r.Intn(4)
	if n == 0 {
		return "-"
	}
	ss := make([]string, n)
	for i := range ss {
		ss[i] = strconv.Itoa(r.Intn(nLinks))
	}
	return strings.Join(ss, ",")
}

var skipChoices = []int{0, 1, 1, 2, 2, 3, 5, -1}

// genStructured: every request goes through set-up (dedup key first, then ignore list / skip, as
// responsemanager.prepareQuery does), traversals, and an end (finish / finish-with-error / clear);
// the requests are interleaved at random and request ids are reused after they ended.
func genStructured(r *rand.Rand, w *bufio.Writer, id string) {
	fmt.Fprintf(w, "case %s\n", id)
	nreq := 3 + r.Intn(3)
	nkeys := 1 + r.Intn(nKeys)
	pMissing := []int{0, 10, 30}[r.Intn(3)]
	pDedup := []int{0, 40, 80}[r.Intn(3)]
	started := make([]bool, nreq)
	end := func(q int) {
		switch x := r.Intn(10); {
		case x < 6:
			fmt.Fprintf(w, "finish %d\n", q)
		case x < 8:
			fmt.Fprintf(w, "finisherr %d\n", q)
		default:
			fmt.Fprintf(w, "clear %d\n", q)
		}
		started[q] = false
	}
	nops := 1 + r.Intn(36)
	for i := 0; i < nops; i++ {
		q := r.Intn(nreq)
		if !started[q] {
			started[q] = true
			n := 0
			if r.Intn(100) < pDedup {
				fmt.Fprintf(w, "dedup %d %d\n", q, 1+r.Intn(nkeys))
				n++
			}
			if r.Intn(100) < 25 {
				fmt.Fprintf(w, "ignore %d %s\n", q, linkList(r))
				n++
			}
			if r.Intn(100) < 25 {
				fmt.Fprintf(w, "skip %d %d\n", q, skipChoices[r.Intn(len(skipChoices))])
				n++
			}
			if n > 0 {
				continue
			}
		}
		switch x := r.Intn(100); {
		case x < 72:
			fmt.Fprintf(w, "trav %d %d %s\n", q, r.Intn(nLinks), presence(r, pMissing))
		case x < 90:
			end(q)
		case x < 94:
			fmt.Fprintf(w, "ignore %d %s\n", q, linkList(r))
		case x < 97:
			fmt.Fprintf(w, "skip %d %d\n", q, skipChoices[r.Intn(len(skipChoices))])
		default:
			fmt.Fprintf(w, "trav %d %d missing\n", q, r.Intn(nLinks))
		}
	}
	// tail: end everything, then a later request walks over the links again (re-send check)
	if r.Intn(100) < 60 {
		for q := range started {
			if started[q] {
				end(q)
			}
		}
		q := r.Intn(nreq + 1)
		if r.Intn(2) == 0 {
			fmt.Fprintf(w, "dedup %d %d\n", q, 1+r.Intn(nkeys))
		}
		for l := 0; l < nLinks; l++ {
			if r.Intn(4) > 0 {
				fmt.Fprintf(w, "trav %d %d present\n", q, l)
			}
		}
		fmt.Fprintf(w, "finish %d\n", q)
	}
}

// genWild: arbitrary op sequences, including dedup-key assignment in the middle of a request.
func genWild(r *rand.Rand, w *bufio.Writer, id string) {
	fmt.Fprintf(w, "case %s\n", id)
	nreq := 2 + r.Intn(3)
	nops := 1 + r.Intn(30)
	for i := 0; i < nops; i++ {
		q := r.Intn(nreq)
		switch x := r.Intn(100); {
		case x < 50:
			fmt.Fprintf(w, "trav %d %d %s\n", q, r.Intn(4), presence(r, 15))
		case x < 65:
			fmt.Fprintf(w, "dedup %d %d\n", q, 1+r.Intn(2))
		case x < 72:
			fmt.Fprintf(w, "ignore %d %s\n", q, linkList(r))
		case x < 78:
			fmt.Fprintf(w, "skip %d %d\n", q, skipChoices[r.Intn(len(skipChoices))])
		case x < 90:
			fmt.Fprintf(w, "finish %d\n", q)
		case x < 95:
			fmt.Fprintf(w, "finisherr %d\n", q)
		default:
			fmt.Fprintf(w, "clear %d\n", q)
		}
	}
}

// genBare: the public API of linktracker.LinkTracker used directly.
func genBare(r *rand.Rand, w *bufio.Writer, id string) {
	fmt.Fprintf(w, "case %s\n", id)
	nreq := 2 + r.Intn(3)
	nops := 1 + r.Intn(30)
	for i := 0; i < nops; i++ {
		q := r.Intn(nreq)
		if r.Intn(100) < 75 {
			fmt.Fprintf(w, "lrec %d %d %s\n", q, r.Intn(4), presence(r, 25))
		} else {
			fmt.Fprintf(w, "lfin %d\n", q)
		}
	}
}

// Gen: random cases (70 % structured, 15 % wild, 15 % bare tracker); the thorough tier adds every
// op sequence of length <= 5 over a 14-letter alphabet and every bare-tracker sequence of length <= 6
// over a 7-letter alphabet (exhaustive for those scopes).
func Gen(seed int64, n int, tier string, w *bufio.Writer) {
	r := rand.New(rand.NewSource(seed))
	for i := 0; i < n; i++ {
		switch x := r.Intn(100); {
		case x < 70:
			genStructured(r, w, fmt.Sprintf("s%d", i))
		case x < 85:
			genWild(r, w, fmt.Sprintf("w%d", i))
		default:
			genBare(r, w, fmt.Sprintf("b%d", i))
		}
	}
	if tier == "thorough" {
		enumerate(w, "x", []string{
			"dedup 1 1", "dedup 2 1", "dedup 2 2",
			"trav 1 0 present", "trav 2 0 present", "trav 3 0 present", "trav 1 1 present", "trav 2 0 missing",
			"ignore 2 0,1", "skip 1 1",
			"finish 1", "finish 2", "finish 3", "clear 1",
		}, 5)
		enumerate(w, "y", []string{
			"lrec 1 0 present", "lrec 2 0 present", "lrec 1 1 present", "lrec 1 0 missing", "lrec 2 1 missing",
			"lfin 1", "lfin 2",
		}, 6)
	}
}

func enumerate(w *bufio.Writer, prefix string, alphabet []string, depth int) {
	k := 0
	var rec func(seq []string, d int)
	rec = func(seq []string, d int) {
		if len(seq) > 0 {
			fmt.Fprintf(w, "case %s%d\n%s\n", prefix, k, strings.Join(seq, "\n"))
			k++
		}
		if d == 0 {
			return
		}
		for _, a := range alphabet {
			rec(append(append([]string{}, seq...), a), d-1)
		}
	}
	rec(nil, depth)
}

// ---------------------------------------------------------------- fakes

// fakePeerHandler builds every message immediately on a real messagequeue.Builder and keeps the
// built message, so that "send decision" = "block present in the built message".
type fakePeerHandler struct {
	lastBlocks    []blocks.Block
	lastResponses []gsmsg.GraphSyncResponse
	lastBlockData map[graphsync.RequestID][]graphsync.BlockData
	buildErr      error
	built         int
}

func (f *fakePeerHandler) AllocateAndBuildMessage(p peer.ID, blkSize uint64, buildFn func(*messagequeue.Builder)) {
	b := messagequeue.NewBuilder(context.Background(), messagequeue.Topic(0))
	buildFn(b)
	f.built++
	f.lastBlockData = b.BlockData()
	if b.Empty() {
		f.lastBlocks, f.lastResponses = nil, nil
		return
	}
	msg, err := b.Build()
	f.buildErr = err
	f.lastBlocks, f.lastResponses = msg.Blocks(), msg.Responses()
}

type nullSubscriber struct{}

func (nullSubscriber) OnNext(notifications.Topic, notifications.Event) {}
func (nullSubscriber) OnClose(notifications.Topic)                     {}

// ---------------------------------------------------------------- run

type world struct {
	blks  []blocks.Block
	links []ipld.Link
}

// block i of the line protocol.  Blocks are identified by their full CID: link numbers 6k+5 are the SAME
// BYTES and the same sha2-256 multihash as link 6k+4, under another CID (CIDv1/raw instead of the
// CIDv0 of blocks.NewBlock).  For the tracker (and the model, which sees two different numbers) they are
// two different blocks; a tracker that identified blocks by multihash would withhold one of them
// (seeded change C20-r6a).
func mkBlock(i int) blocks.Block {
	if i%6 == 5 {
		prev := blocks.NewBlock([]byte(fmt.Sprintf("verif linktrack block %d", i-1)))
		b, err := blocks.NewBlockWithCid(prev.RawData(), cid.NewCidV1(cid.Raw, prev.Cid().Hash()))
		if err != nil {
			panic(err)
		}
		return b
	}
	return blocks.NewBlock([]byte(fmt.Sprintf("verif linktrack block %d", i)))
}

func newWorld(n int) *world {
	w := &world{}
	for i := 0; i < n; i++ {
		b := mkBlock(i)
		w.blks = append(w.blks, b)
		w.links = append(w.links, cidlink.Link{Cid: b.Cid()})
	}
	return w
}

func (w *world) link(i int) (ipld.Link, blocks.Block) {
	for i >= len(w.links) {
		b := mkBlock(len(w.links))
		w.blks = append(w.blks, b)
		w.links = append(w.links, cidlink.Link{Cid: b.Cid()})
	}
	return w.links[i], w.blks[i]
}

var theWorld = newWorld(8)

func Run(cases []reg.Case, out *reg.Out) {
	for _, c := range cases {
		out.BeginCase(c)
		runCase(c, out)
	}
}

func b01(b bool) string {
	if b {
		return "1"
	}
	return "0"
}

func atoi(s string) (int, bool) {
	v, err := strconv.Atoi(s)
	if err != nil || v < 0 || v > 1<<20 {
		return 0, false
	}
	return v, true
}

func parseLinks(s string) ([]int, bool) {
	if s == "-" {
		return nil, true
	}
	var ls []int
	for _, t := range strings.Split(s, ",") {
		v, ok := atoi(t)
		if !ok {
			return nil, false
		}
		ls = append(ls, v)
	}
	return ls, true
}

func hasCid(blks []blocks.Block, c cid.Cid) bool {
	for _, b := range blks {
		if b.Cid().Equals(c) {
			return true
		}
	}
	return false
}

type caseState struct {
	ctx     context.Context
	fph     *fakePeerHandler
	ra      *responseassembler.ResponseAssembler
	peer    peer.ID
	reqIDs  map[int]graphsync.RequestID
	streams map[int]responseassembler.ResponseStream
	// bare tracker
	lt     *linktracker.LinkTracker
	seenL  []int
	seenRL [][2]int
}

func (cs *caseState) reqID(r int) graphsync.RequestID {
	id, ok := cs.reqIDs[r]
	if !ok {
		id = graphsync.NewRequestID()
		cs.reqIDs[r] = id
	}
	return id
}

func (cs *caseState) stream(r int) responseassembler.ResponseStream {
	s, ok := cs.streams[r]
	if !ok {
		s = cs.ra.NewStream(cs.ctx, cs.peer, cs.reqID(r), nullSubscriber{})
		cs.streams[r] = s
	}
	return s
}

func (cs *caseState) ltState() string {
	var refs, miss []string
	for _, l := range cs.seenL {
		lk, _ := theWorld.link(l)
		refs = append(refs, fmt.Sprintf("%d=%d", l, cs.lt.BlockRefCount(lk)))
	}
	for _, rl := range cs.seenRL {
		lk, _ := theWorld.link(rl[1])
		miss = append(miss, fmt.Sprintf("%d/%d=%s", rl[0], rl[1], b01(cs.lt.IsKnownMissingLink(cs.reqID(rl[0]), lk))))
	}
	return fmt.Sprintf("ref:%s miss:%s empty:%s", strings.Join(refs, ","), strings.Join(miss, ","), b01(cs.lt.Empty()))
}

func runCase(c reg.Case, out *reg.Out) {
	ctx := context.Background()
	fph := &fakePeerHandler{}
	cs := &caseState{
		ctx: ctx, fph: fph, ra: responseassembler.New(ctx, fph), peer: peer.ID("verif-peer"),
		reqIDs: map[int]graphsync.RequestID{}, streams: map[int]responseassembler.ResponseStream{},
		lt: linktracker.New(),
	}
	or := newOracle(out)
	bo := newBareOracle(out)
	for _, op := range c.Ops {
		line, ok := runOp(cs, or, bo, op, out)
		if !ok {
			out.Cov("op.bad")
			out.Line("bad-op")
			continue
		}
		out.Cov("op." + op[0])
		out.Line("%s", line)
	}
}

func runOp(cs *caseState, or *oracle, bo *bareOracle, op []string, out *reg.Out) (string, bool) {
	if len(op) < 2 {
		return "", false
	}
	r, ok := atoi(op[1])
	if !ok {
		return "", false
	}
	switch op[0] {
	case "lrec":
		if len(op) != 4 || (op[3] != "present" && op[3] != "missing") {
			return "", false
		}
		l, ok := atoi(op[2])
		if !ok {
			return "", false
		}
		lk, _ := theWorld.link(l)
		has := op[3] == "present"
		cs.lt.RecordLinkTraversal(cs.reqID(r), lk, has)
		cs.seenL = addNew(cs.seenL, l)
		found := false
		for _, rl := range cs.seenRL {
			if rl == [2]int{r, l} {
				found = true
			}
		}
		if !found {
			cs.seenRL = append(cs.seenRL, [2]int{r, l})
		}
		bo.record(r, l, has)
		bo.check(cs)
		return cs.ltState(), true
	case "lfin":
		if len(op) != 2 {
			return "", false
		}
		all := cs.lt.FinishRequest(cs.reqID(r))
		bo.finish(r, all)
		bo.check(cs)
		return fmt.Sprintf("all:%s %s", b01(all), cs.ltState()), true
	case "dedup":
		if len(op) != 3 {
			return "", false
		}
		k, ok := atoi(op[2])
		if !ok {
			return "", false
		}
		cs.stream(r).DedupKey(fmt.Sprintf("key-%d", k))
		or.dedup(r, k)
		return "ok", true
	case "ignore":
		if len(op) != 3 {
			return "", false
		}
		ls, ok := parseLinks(op[2])
		if !ok {
			return "", false
		}
		links := make([]ipld.Link, 0, len(ls))
		for _, l := range ls {
			lk, _ := theWorld.link(l)
			links = append(links, lk)
		}
		cs.stream(r).IgnoreBlocks(links)
		or.ignore(r, ls)
		return "ok", true
	case "skip":
		if len(op) != 3 {
			return "", false
		}
		n, err := strconv.ParseInt(op[2], 10, 64)
		if err != nil {
			return "", false
		}
		cs.stream(r).SkipFirstBlocks(n)
		or.skip(r, n)
		return "ok", true
	case "trav":
		if len(op) != 4 || (op[3] != "present" && op[3] != "missing") {
			return "", false
		}
		l, ok := atoi(op[2])
		if !ok {
			return "", false
		}
		lk, blk := theWorld.link(l)
		present := op[3] == "present"
		var data []byte
		if present {
			data = blk.RawData()
		}
		var bd graphsync.BlockData
		before := cs.fph.built
		_ = cs.stream(r).Transaction(func(rb responseassembler.ResponseBuilder) error {
			bd = rb.SendResponse(lk, data)
			return nil
		})
		if cs.fph.built != before+1 || cs.fph.buildErr != nil {
			return fmt.Sprintf("no-message err:%v", cs.fph.buildErr), true
		}
		sent := hasCid(cs.fph.lastBlocks, blk.Cid())
		idx := bd.Index()
		line := fmt.Sprintf("sent:%s idx:%d", b01(sent), idx)
		// the same decision must be visible in the block metadata handed to listeners and in the
		// link metadata of the response
		if (bd.BlockSizeOnWire() > 0) != sent {
			line += " blockdata-disagrees"
		}
		bds := cs.fph.lastBlockData[cs.reqID(r)]
		if len(bds) != 1 || bds[0].Index() != idx || (bds[0].BlockSizeOnWire() > 0) != sent {
			line += " builder-blockdata-disagrees"
		}
		action := graphsync.LinkAction("")
		for _, resp := range cs.fph.lastResponses {
			if resp.RequestID() == cs.reqID(r) {
				resp.Metadata().Iterate(func(c cid.Cid, a graphsync.LinkAction) {
					if c.Equals(blk.Cid()) {
						action = a
					}
				})
			}
		}
		want := graphsync.LinkActionPresent
		if !present {
			want = graphsync.LinkActionMissing
		}
		if action != want {
			line += " metadata-action:" + string(action)
		}
		or.trav(r, l, present, sent)
		if sent {
			out.Cov("trav.sent")
		} else if !present {
			out.Cov("trav.missing")
		} else {
			out.Cov("trav.suppressed")
		}
		return line, true
	case "finish":
		if len(op) != 2 {
			return "", false
		}
		var ret graphsync.ResponseStatusCode
		_ = cs.stream(r).Transaction(func(rb responseassembler.ResponseBuilder) error {
			ret = rb.FinishRequest()
			return nil
		})
		status := graphsync.ResponseStatusCode(0)
		for _, resp := range cs.fph.lastResponses {
			if resp.RequestID() == cs.reqID(r) {
				status = resp.Status()
			}
		}
		var line string
		switch status {
		case graphsync.RequestCompletedFull:
			line = "status:full"
		case graphsync.RequestCompletedPartial:
			line = "status:partial"
		default:
			line = fmt.Sprintf("status:%d", status)
		}
		if ret != status {
			line += fmt.Sprintf(" returned:%d", ret)
		}
		or.finish(r, true, status == graphsync.RequestCompletedFull)
		out.Cov("finish." + line[7:])
		return line, true
	case "finisherr":
		if len(op) != 2 {
			return "", false
		}
		_ = cs.stream(r).Transaction(func(rb responseassembler.ResponseBuilder) error {
			rb.FinishWithError(graphsync.RequestFailedUnknown)
			return nil
		})
		or.finish(r, false, false)
		return "ok", true
	case "clear":
		if len(op) != 2 {
			return "", false
		}
		cs.stream(r).ClearRequest()
		or.finish(r, false, false)
		return "ok", true
	}
	return "", false
}

func addNew(xs []int, x int) []int {
	for _, y := range xs {
		if y == x {
			return xs
		}
	}
	return append(xs, x)
}

// ---------------------------------------------------------------- oracle (from the property text)
//
// Naive bookkeeping with sets, independent of the Lean model and of the implementation's reference
// counts.  For one peer:
//
//   * a request is "in progress" from its first operation until its next finish / finish-with-error
//     / clear; it belongs to one dedup scope at a time: the key last assigned to it since it began
//     (0 = the default scope).  Assigning a key moves the request, with everything it traversed so
//     far, into that scope;
//   * it "traversed a block" when it reported the link with data present or listed it in its ignore
//     list since it began;
//   * dup-send:      a block is transmitted in a scope although it was already transmitted in that
//                    scope and, ever since, some request of the scope that traversed it was in progress;
//   * no-resend:     a present block is NOT transmitted although no in-progress request of the scope
//                    has traversed it (the request's own do-not-send-first-blocks window is exempt);
//   * complete-iff:  FinishRequest reports RequestCompletedFull although the request met a missing
//                    block since it began, or Partial although it met none.
//
// History: before /repo fix "DedupKey moves the request's records" the real code failed these
// checks after a dedup-key assignment in mid-request (corpus/C19/fixed.cases).
type reqSpec struct {
	open       bool
	scope      int
	wb         map[int]bool // links traversed with block since the request began
	sawMissing bool
	travs      int64
	skip       int64
	dirty      bool // recorded a traversal / ignore list / dedup key since it began
}

type oracle struct {
	out  *reg.Out
	reqs map[int]*reqSpec
	tx   map[[2]int]int // (scope, link) -> transmissions in the current busy period
}

func newOracle(out *reg.Out) *oracle {
	return &oracle{out: out, reqs: map[int]*reqSpec{}, tx: map[[2]int]int{}}
}

func (o *oracle) req(r int) *reqSpec {
	q := o.reqs[r]
	if q == nil {
		q = &reqSpec{wb: map[int]bool{}}
		o.reqs[r] = q
	}
	q.open = true
	return q
}

func (o *oracle) fail(class, format string, a ...interface{}) {
	o.out.Fail(class, format, a...)
}

// busy: some in-progress request of the scope has traversed the link with a block
func (o *oracle) busy(sl [2]int) bool {
	for _, q := range o.reqs {
		if q.open && q.scope == sl[0] && q.wb[sl[1]] {
			return true
		}
	}
	return false
}

// scopeUsers: in-progress requests whose scope is k
func (o *oracle) scopeUsers(k int) int {
	n := 0
	for _, q := range o.reqs {
		if q.open && q.scope == k {
			n++
		}
	}
	return n
}

func (o *oracle) dedup(r, k int) {
	if o.scopeUsers(k) > 0 {
		o.out.Cov("dedup.scope-in-use")
	} else {
		o.out.Cov("dedup.scope-new")
	}
	q := o.req(r)
	if q.dirty {
		o.out.Cov("dedup.mid-request")
	}
	oldScope := q.scope
	q.scope = k
	q.dirty = true
	if oldScope != k {
		// the request left its old scope: blocks only it held there are no longer in use there
		for l := range q.wb {
			if !o.busy([2]int{oldScope, l}) {
				o.tx[[2]int{oldScope, l}] = 0
			}
		}
	}
}

func (o *oracle) ignore(r int, ls []int) {
	q := o.req(r)
	for _, l := range ls {
		sl := [2]int{q.scope, l}
		if !o.busy(sl) {
			o.tx[sl] = 0
		}
		q.wb[l] = true
	}
	q.dirty = true
}

func (o *oracle) skip(r int, n int64) {
	o.req(r).skip = n
	if n < 0 {
		o.out.Cov("skip.negative")
	}
}

func (o *oracle) trav(r, l int, present, sent bool) {
	q := o.req(r)
	q.travs++
	q.dirty = true
	sl := [2]int{q.scope, l}
	busy := o.busy(sl)
	if !busy {
		o.tx[sl] = 0
	}
	if sent && !present {
		o.fail("dup-send", "request %d: block %d transmitted although it was reported missing", r, l)
	}
	if sent && busy && o.tx[sl] >= 1 {
		o.fail("dup-send", "request %d scope %d: block %d transmitted again while a request that traversed it is still in progress", r, q.scope, l)
	}
	if !sent && present && !busy && q.travs > q.skip {
		o.fail("no-resend", "request %d scope %d: block %d not transmitted although no request in progress has traversed it", r, q.scope, l)
	}
	if present && !busy {
		o.out.Cov("oracle.fresh-block")
	}
	if present && busy {
		o.out.Cov("oracle.block-in-use")
	}
	if present && q.travs <= q.skip {
		o.out.Cov("oracle.in-skip-window")
	}
	if sent {
		o.tx[sl]++
	}
	if present {
		if q.wb[l] {
			o.out.Cov("trav.same-request-again")
		}
		q.wb[l] = true
	} else {
		if q.sawMissing {
			o.out.Cov("trav.missing-again")
		}
		q.sawMissing = true
	}
}

func (o *oracle) finish(r int, observed, full bool) {
	q := o.req(r)
	if observed {
		want := !q.sawMissing
		if full != want {
			o.fail("complete-iff", "request %d reported complete-full=%v but met a missing block since it began=%v", r, full, q.sawMissing)
		}
	}
	switch {
	case !q.open || (q.scope == 0 && len(q.wb) == 0 && !q.sawMissing && q.travs == 0):
		o.out.Cov("end.nothing-recorded")
	case q.scope == 0:
		o.out.Cov("end.default-scope")
	case o.scopeUsers(q.scope) > 1:
		o.out.Cov("end.scope-shared")
	default:
		o.out.Cov("end.scope-last-user")
	}
	old, oldScope := q.wb, q.scope
	*q = reqSpec{wb: map[int]bool{}}
	for l := range old {
		sl := [2]int{oldScope, l}
		if !o.busy(sl) {
			o.tx[sl] = 0
			o.out.Cov("oracle.block-released")
		}
	}
}

// bareOracle: linktracker.LinkTracker used directly.  BlockRefCount = number of with-block
// traversals of the link by requests not yet finished; FinishRequest = no missing link recorded;
// Empty = nothing recorded by unfinished requests.
type bareOracle struct {
	out     *reg.Out
	wb      map[int][]int
	missing map[int]map[int]bool
}

func newBareOracle(out *reg.Out) *bareOracle {
	return &bareOracle{out: out, wb: map[int][]int{}, missing: map[int]map[int]bool{}}
}

func (b *bareOracle) record(r, l int, has bool) {
	if has {
		b.wb[r] = append(b.wb[r], l)
		return
	}
	if b.missing[r] == nil {
		b.missing[r] = map[int]bool{}
	}
	b.missing[r][l] = true
}

func (b *bareOracle) finish(r int, all bool) {
	if all != (len(b.missing[r]) == 0) {
		b.out.Fail("lt-complete-iff", "FinishRequest(%d) = %v but missing links recorded: %d", r, all, len(b.missing[r]))
	}
	delete(b.wb, r)
	delete(b.missing, r)
}

func (b *bareOracle) check(cs *caseState) {
	total := 0
	for _, l := range cs.seenL {
		n := 0
		for _, ls := range b.wb {
			for _, x := range ls {
				if x == l {
					n++
				}
			}
		}
		total += n
		lk, _ := theWorld.link(l)
		if got := cs.lt.BlockRefCount(lk); got != n {
			b.out.Fail("lt-refcount", "BlockRefCount(link %d) = %d, in-progress with-block traversals = %d", l, got, n)
		}
	}
	for _, rl := range cs.seenRL {
		lk, _ := theWorld.link(rl[1])
		want := b.missing[rl[0]][rl[1]]
		if got := cs.lt.IsKnownMissingLink(cs.reqID(rl[0]), lk); got != want {
			b.out.Fail("lt-missing", "IsKnownMissingLink(%d, %d) = %v, want %v", rl[0], rl[1], got, want)
		}
	}
	wantEmpty := total == 0 && len(b.missing) == 0
	if cs.lt.Empty() != wantEmpty {
		b.out.Fail("lt-empty", "Empty() = %v, want %v", cs.lt.Empty(), wantEmpty)
	}
	if wantEmpty {
		b.out.Cov("bare.empty")
	}
}
