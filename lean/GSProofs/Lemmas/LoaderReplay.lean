import GSProofs.Lemmas.LoaderComplete
import GSProofs.Lemmas.LoaderReplayTrie
/-!
Completeness of the reconciled loader against the honest responder stream for a requestor with a
NON-EMPTY locally loaded prefix (`N ≥ 1` links loaded from the local store before the first miss,
request sent with do-not-send-first-blocks = `N`).

* `respItemsW`: the honest response under a skip window (`Responder.respondSpec` with `skip = w`
  transcribed to the pre-order link tree; `respItemsW … 0 = respItems`).
* `SyncW`, `walk_refTravW`: the simulation of `LoaderComplete.lean` generalised to a skip window.
* `replay`: the `Verifier` replays the traversal record of the local prefix against the head of the
  honest stream (inside `waitRemote` of the retried load) and leaves the loader in a `SyncW` state
  positioned at the first link after the prefix.
* `complete_prefix`: load results = reference traversal, fetched blocks stored.
-/
namespace GS.Loader
open GS.Requestor (LNode LT)

/-! ### the honest response under a skip window -/

/-- the honest responder's stream for the cursor `lt` when the first `w` links of it fall into the
    skip window (do-not-send-first-blocks): a block is attached to a present link iff the window is
    over and the cid has not been traversed before (`seen`: present links so far, in the window or not) -/
def respItemsW (rem : Cid → Bool) : LT → List Cid → Nat → List Item
  | [], _, _ => []
  | n :: rest, seen, w =>
    if rem n.cid then
      ⟨n.cid, .present, if decide (0 < w) || seen.contains n.cid then none else some n.cid⟩ ::
        respItemsW rem rest (n.cid :: seen) (w - 1)
    else
      ⟨n.cid, .missing, none⟩ :: respItemsW rem (skipSub n rest) seen (w - 1)
termination_by lt => lt.length
decreasing_by
  · simp
  · have := skipSub_length n rest; simp; omega

theorem respItemsW_zero (rem : Cid → Bool) : ∀ (k : Nat) (lt : LT), lt.length ≤ k → ∀ (seen : List Cid),
    respItemsW rem lt seen 0 = respItems rem lt seen := by
  intro k
  induction k with
  | zero =>
    intro lt hl seen
    cases lt with
    | nil => rw [respItemsW, respItems]
    | cons n rest => simp at hl
  | succ k ih =>
    intro lt hl seen
    cases lt with
    | nil => rw [respItemsW, respItems]
    | cons n rest =>
      simp only [List.length_cons] at hl
      rw [respItemsW, respItems]
      split
      · rw [ih rest (by omega)]; simp
      · rw [ih (skipSub n rest) (by have := skipSub_length n rest; omega)]

theorem respItemsW_block (rem : Cid → Bool) : ∀ (k : Nat) (lt : LT), lt.length ≤ k → ∀ (seen : List Cid) (w : Nat),
    ∀ it ∈ respItemsW rem lt seen w, ∀ b, it.block = some b →
      b = it.link ∧ it.action = .present ∧ seen.contains it.link = false := by
  intro k
  induction k with
  | zero =>
    intro lt hl seen w it hit
    cases lt with
    | nil => rw [respItemsW] at hit; simp at hit
    | cons n rest => simp at hl
  | succ k ih =>
    intro lt hl seen w it hit b hb
    cases lt with
    | nil => rw [respItemsW] at hit; simp at hit
    | cons n rest =>
      simp only [List.length_cons] at hl
      rw [respItemsW] at hit
      split at hit
      · simp only [List.mem_cons] at hit
        rcases hit with rfl | hit
        · simp only at hb ⊢
          split at hb
          · cases hb
          · rename_i hc
            simp only [Option.some.injEq] at hb
            simp only [Bool.or_eq_true, decide_eq_true_eq, not_or, Bool.not_eq_true] at hc
            exact ⟨hb.symm, trivial, hc.2⟩
        · have := ih rest (by omega) (n.cid :: seen) (w - 1) it hit b hb
          refine ⟨this.1, this.2.1, ?_⟩
          have h3 := this.2.2
          simp only [List.contains_cons, Bool.or_eq_false_iff] at h3
          exact h3.2
      · simp only [List.mem_cons] at hit
        rcases hit with rfl | hit
        · cases hb
        · exact ih (skipSub n rest) (by have := skipSub_length n rest; omega) seen (w - 1) it hit b hb

/-- a present link is remembered as traversed -/
theorem respItemsW_present_seen (rem : Cid → Bool) : ∀ (k : Nat) (lt : LT), lt.length ≤ k → ∀ (seen : List Cid) (w : Nat),
    ∀ it ∈ respItemsW rem lt seen w, it.block.isSome = true → seen.contains it.link = false :=
  fun k lt hl seen w it hit hb => by
    cases hbb : it.block with
    | none => rw [hbb] at hb; cases hb
    | some b => exact (respItemsW_block rem k lt hl seen w it hit b hbb).2.2

theorem mem_blocksOfItems {items : List Item} {c : Cid} {b : Blk} (h : (c, b) ∈ blocksOfItems items) :
    ∃ it ∈ items, it.link = c ∧ it.block = some b := by
  unfold blocksOfItems at h
  rw [List.mem_filterMap] at h
  obtain ⟨it, hit, hm⟩ := h
  cases hb : it.block with
  | none => rw [hb] at hm; cases hm
  | some b' =>
    rw [hb] at hm
    simp only [Option.map_some, Option.some.injEq, Prod.mk.injEq] at hm
    exact ⟨it, hit, hm.1, by rw [← hm.2]; exact hb⟩

/-- `IngestResponse` reconstructs the honest entries from metadata + block set (window version):
    `bl` holds no block for a cid outside `seen` unless a remaining entry carries it -/
theorem buildItems_go_respW (rem : Cid → Bool) (bl : List (Cid × Blk)) : ∀ (k : Nat) (lt : LT), lt.length ≤ k →
    ∀ (seen dups : List Cid) (w : Nat), (∀ c, dups.contains c = seen.contains c) →
    (∀ it ∈ respItemsW rem lt seen w, ∀ b, it.block = some b → storeGet bl it.link = some b) →
    (∀ c b, storeGet bl c = some b → seen.contains c = true ∨
        ∃ it ∈ respItemsW rem lt seen w, it.link = c ∧ it.block.isSome = true) →
    buildItems.go bl (mdOf (respItemsW rem lt seen w)) dups = respItemsW rem lt seen w := by
  intro k
  induction k with
  | zero =>
    intro lt hl seen dups w _ _ _
    cases lt with
    | nil => rw [respItemsW]; simp [mdOf, buildItems.go]
    | cons n rest => simp at hl
  | succ k ih =>
    intro lt hl seen dups w hd hbl honly
    cases lt with
    | nil => rw [respItemsW]; simp [mdOf, buildItems.go]
    | cons n rest =>
      simp only [List.length_cons] at hl
      rw [respItemsW] at hbl honly ⊢
      split
      · rename_i hrem
        simp only [hrem, if_true] at hbl honly
        simp only [mdOf, List.map_cons, buildItems.go]
        -- what the rest of the stream may carry
        have honly' : ∀ c b, storeGet bl c = some b → (n.cid :: seen).contains c = true ∨
            ∃ it ∈ respItemsW rem rest (n.cid :: seen) (w - 1), it.link = c ∧ it.block.isSome = true := by
          intro c b hc
          rcases honly c b hc with h | ⟨it, hit, hl', hb'⟩
          · left; simp only [List.contains_cons, h, Bool.or_true]
          · simp only [List.mem_cons] at hit
            rcases hit with rfl | hit
            · left; simp only at hl'; simp [hl']
            · exact Or.inr ⟨it, hit, hl', hb'⟩
        have hbl' : ∀ it ∈ respItemsW rem rest (n.cid :: seen) (w - 1), ∀ b, it.block = some b →
            storeGet bl it.link = some b := fun it hit b hb => hbl it (List.mem_cons_of_mem _ hit) b hb
        by_cases hs : seen.contains n.cid = true
        · have hdc : dups.contains n.cid = true := by rw [hd]; exact hs
          simp only [hdc, hs, Bool.or_true, if_true, Bool.not_true, Bool.and_false, Bool.false_eq_true, if_false]
          have hrec' := ih rest (by omega) (n.cid :: seen) dups (w - 1)
            (by intro c; simp only [List.contains_cons, hd c]
                by_cases hcn : (c == n.cid) = true
                · have : c = n.cid := by simpa using hcn
                  subst this
                  simp only [beq_self_eq_true, Bool.true_or]
                  rw [← hd]; exact hdc
                · simp [hcn])
            hbl' honly'
          simp only [mdOf] at hrec'
          rw [hrec']
        · have hdc : dups.contains n.cid = false := by rw [hd]; simpa using hs
          have hs' : seen.contains n.cid = false := by simpa using hs
          have hrec := ih rest (by omega) (n.cid :: seen) (n.cid :: dups) (w - 1)
            (by intro c; simp only [List.contains_cons, hd c]) hbl' honly'
          simp only [mdOf] at hrec
          by_cases hw : 0 < w
          · -- inside the window: present, block not sent; nothing in the block set for this cid
            have hnone : storeGet bl n.cid = none := by
              cases hg : storeGet bl n.cid with
              | none => rfl
              | some b =>
                exfalso
                rcases honly n.cid b hg with h | ⟨it, hit, hl', hb'⟩
                · rw [hs'] at h; cases h
                · simp only [List.mem_cons] at hit
                  rcases hit with rfl | hit
                  · simp [hw] at hb'
                  · have := respItemsW_present_seen rem k rest (by omega) (n.cid :: seen) (w - 1) it hit hb'
                    rw [hl'] at this
                    simp at this
            simp only [hdc, hs', hw, decide_true, Bool.true_or, if_true, Bool.not_false, Bool.and_true,
              beq_self_eq_true, hnone]
            rw [hrec]
          · have hb := hbl ⟨n.cid, .present, some n.cid⟩
              (by simp only [hw, decide_false, hs', Bool.or_false, Bool.false_eq_true, if_false]; exact List.mem_cons_self ..)
              n.cid rfl
            simp only at hb
            simp only [hdc, hs', hw, decide_false, Bool.or_false, Bool.not_false, Bool.and_true, beq_self_eq_true,
              if_true, Bool.false_eq_true, if_false, hb]
            rw [hrec]
      · rename_i hrem
        simp only [hrem, Bool.false_eq_true, if_false] at hbl honly
        simp only [mdOf, List.map_cons, buildItems.go]
        have hrec := ih (skipSub n rest) (by have := skipSub_length n rest; omega) seen dups (w - 1) hd
          (fun it hit b hb => hbl it (List.mem_cons_of_mem _ hit) b hb)
          (by
            intro c b hc
            rcases honly c b hc with h | ⟨it, hit, hl', hb'⟩
            · exact Or.inl h
            · simp only [List.mem_cons] at hit
              rcases hit with rfl | hit
              · simp at hb'
              · exact Or.inr ⟨it, hit, hl', hb'⟩)
        simp only [mdOf] at hrec
        simp [hrec]

theorem honest_items_rebuiltW (rem : Cid → Bool) (lt : LT) (w : Nat) :
    buildItems (mdOf (respItemsW rem lt [] w)) (blocksOfItems (respItemsW rem lt [] w)) = respItemsW rem lt [] w := by
  unfold buildItems
  apply buildItems_go_respW rem _ lt.length lt (Nat.le_refl _) [] [] w (fun _ => rfl)
  · intro it hit b hb
    apply storeGet_blocksOfItems _ _ it hit b hb
    intro it' hit' b' hb'
    exact (respItemsW_block rem lt.length lt (Nat.le_refl _) [] w it' hit' b' hb').1
  · intro c b hc
    right
    obtain ⟨it, hit, hl, hb⟩ := mem_blocksOfItems (storeGet_mem hc)
    exact ⟨it, hit, hl, by rw [hb]; rfl⟩

/-! ### the synchronisation invariant under a skip window -/

/-- `Sync` of `LoaderComplete.lean` with a window counter `w`: the first `w` queued entries belong
    to the skip window; a present entry among them is held locally (`win` — the negation of the
    known-finding class `skip-prefix-mismatch`).  The verifier is gone, or the queue is exhausted
    (then it is never consulted again). -/
structure SyncW (rem : Cid → Bool) (o : Obs) (todo : LT) (dead : Option Nat) (seen : List Cid) (w : Nat) : Prop where
  closed : o.isOpen = false
  nopend : o.pending = none
  ver : o.ver = none ∨ o.q = []
  seenOK : ∀ c ∈ seen, holds o.store c = true
  win : ∀ it ∈ o.q.take w, it.action = .present → holds o.store it.link = true
  mode : match dead with
    | none => o.q = respItemsW rem todo seen w ∧
        (o.unfollowed = [] ∨ ∀ m ∈ todo, below o.unfollowed m.path = false)
    | some d => o.q = respItemsW rem (todo.dropWhile (fun m => m.depth > d)) seen w ∧
        (∀ m ∈ todo.takeWhile (fun m => m.depth > d), below o.unfollowed m.path = true) ∧
        (∀ m ∈ todo.dropWhile (fun m => m.depth > d), below o.unfollowed m.path = false) ∧
        (o.unfollowed ≠ [] ∨ o.q = [])

abbrev IHW (rem : Cid → Bool) (k : Nat) : Prop :=
  ∀ (todo : LT), todo.length ≤ k → ∀ (s : State) (dead : Option Nat) (seen : List Cid) (w : Nat),
    SyncW rem (obs s) todo dead seen w → WF todo → (∀ m ∈ todo, m.path ≠ []) →
    (walk s todo).1 = (refTrav rem todo s.store dead).1 ∧
    ∀ c, holds (walk s todo).2.store c = holds (refTrav rem todo s.store dead).2 c

theorem mem_take_tail {α : Type} {x it : α} {q : List α} {w : Nat} (h : it ∈ q.take (w - 1)) : it ∈ (x :: q).take w := by
  cases w with
  | zero => simp at h
  | succ w => simp only [List.take_succ_cons, List.mem_cons]; exact Or.inr (by simpa using h)

theorem step_closeW (rem : Cid → Bool) (k : Nat) (ih : IHW rem k)
    (s : State) (n : LNode) (rest : LT) (dead : Option Nat) (hlen : rest.length ≤ k)
    (hwf : WF (n :: rest)) (hne : ∀ m ∈ rest, m.path ≠ [])
    (a : Ans) (o' : Obs) (hload : LoadsTo s n.path n.cid a o')
    (todo' : LT) (htodo : todo' = match a with | .data => rest | .miss => skipSub n rest)
    (dead' : Option Nat) (seen' : List Cid) (w' : Nat) (hsync : SyncW rem o' todo' dead' seen' w')
    (st' : List (Cid × Blk)) (hst : ∀ c, holds o'.store c = holds st' c)
    (href : refTrav rem (n :: rest) s.store dead =
      ((n, decide (a = .data)) :: (refTrav rem todo' st' dead').1, (refTrav rem todo' st' dead').2)) :
    (walk s (n :: rest)).1 = (refTrav rem (n :: rest) s.store dead).1 ∧
    ∀ c, holds (walk s (n :: rest)).2.store c = holds (refTrav rem (n :: rest) s.store dead).2 c := by
  obtain ⟨s', r, hl, hobs, hans⟩ := hload
  have hst' : s'.store = o'.store := by rw [← hobs]; rfl
  have hlen' : todo'.length ≤ k := by
    cases a with
    | data => simp only at htodo; rw [htodo]; exact hlen
    | miss => simp only at htodo; rw [htodo]; exact Nat.le_trans (skipSub_length n rest) hlen
  have hwf' : WF todo' := by
    cases a with
    | data => simp only at htodo; rw [htodo]; exact hwf.2.2
    | miss => simp only at htodo; rw [htodo]; exact WF.dropWhile _ rest hwf.2.2
  have hne' : ∀ m ∈ todo', m.path ≠ [] := by
    intro m hm
    cases a with
    | data => simp only at htodo; rw [htodo] at hm; exact hne m hm
    | miss =>
      simp only at htodo; rw [htodo] at hm
      exact hne m (mem_dropWhile _ _ _ hm)
  have hrec := ih todo' hlen' s' dead' seen' w' (by rw [hobs]; exact hsync) hwf' hne'
  have hcg := refTrav_congr rem todo'.length todo' (Nat.le_refl _) st' s'.store dead'
    (by intro c; rw [hst']; exact hst c)
  rw [href]
  cases a with
  | data =>
    simp only at htodo
    rw [htodo] at hrec hcg ⊢
    rw [walk_data s s' n rest r hl hans]
    simp only [decide_true]
    exact ⟨by rw [hrec.1, hcg.1], fun c => by rw [hrec.2 c, hcg.2 c]⟩
  | miss =>
    simp only at htodo
    rw [htodo] at hrec hcg ⊢
    rw [walk_miss s s' n rest r hl hans]
    simp only [show decide (Ans.miss = Ans.data) = false from by decide]
    exact ⟨by rw [hrec.1, hcg.1], fun c => by rw [hrec.2 c, hcg.2 c]⟩

/-- the requestor is in step with the responder at `n` -/
theorem sync_caseW (rem : Cid → Bool) (k : Nat) (ih : IHW rem k)
    (s : State) (n : LNode) (rest : LT) (dead : Option Nat) (seen : List Cid) (w : Nat) (hlen : rest.length ≤ k)
    (hwf : WF (n :: rest)) (hne : ∀ m ∈ rest, m.path ≠ [])
    (hnp0 : n.path ≠ [] ∨ holds s.store n.cid = false)
    (hd1 : dead1 dead n = none)
    (hclosed : s.isOpen = false) (hnopend : s.pending = none) (hver : s.ver = none ∨ s.rq.q = [])
    (hseen : ∀ c ∈ seen, holds s.store c = true)
    (hwin : ∀ it ∈ s.rq.q.take w, it.action = .present → holds s.store it.link = true)
    (hq : s.rq.q = respItemsW rem (n :: rest) seen w)
    (hstale : s.unfollowed = [] ∨ ∀ m ∈ n :: rest, below s.unfollowed m.path = false) :
    (walk s (n :: rest)).1 = (refTrav rem (n :: rest) s.store dead).1 ∧
    ∀ c, holds (walk s (n :: rest)).2.store c = holds (refTrav rem (n :: rest) s.store dead).2 c := by
  have hst1 : s.unfollowed = [] ∨ below s.unfollowed n.path = false := by
    rcases hstale with h | h
    · exact Or.inl h
    · exact Or.inr (h n (List.mem_cons_self ..))
  rw [respItemsW] at hq
  have hver' : s.ver = none := by
    rcases hver with h | h
    · exact h
    · rw [h] at hq; split at hq <;> cases hq
  cases hrem : rem n.cid with
  | true =>
    simp only [hrem, if_true] at hq
    have hla := load_head_ans s n.path n.cid hver' _ _ hq rfl hst1 hnopend
    have hwin' : ∀ it ∈ (respItemsW rem rest (n.cid :: seen) (w - 1)).take (w - 1), it.action = .present →
        holds s.store it.link = true := by
      intro it hit; apply hwin; rw [hq]; exact mem_take_tail hit
    by_cases hsn : (decide (0 < w) || seen.contains n.cid) = true
    · -- inside the window, or the block was sent earlier in this response: present, not sent;
      -- the store has it
      simp only [hsn, if_true] at hla
      have hh : holds s.store n.cid = true := by
        by_cases hs : seen.contains n.cid = true
        · exact hseen n.cid (by simpa using hs)
        · have hw : 0 < w := by
            have hs' : seen.contains n.cid = false := by simpa using hs
            rw [hs', Bool.or_false] at hsn
            simpa using hsn
          have := hwin ⟨n.cid, .present, none⟩ (by
            rw [hq]; simp only [hsn, if_true]
            obtain ⟨w', rfl⟩ : ∃ w', w = w' + 1 := ⟨w - 1, by omega⟩
            simp) rfl
          exact this
      have hans : localAns s.store n.cid = .data := by simp [localAns, hh]
      rw [hans] at hla
      refine step_closeW rem k ih s n rest dead hlen hwf hne .data _ hla rest rfl none (n.cid :: seen) (w - 1)
        ⟨hclosed, hnopend, Or.inl hver', ?_, hwin', ?_⟩ s.store (fun c => rfl) ?_
      · intro c hc
        simp only [List.mem_cons] at hc
        rcases hc with rfl | hc
        · exact hh
        · exact hseen c hc
      · exact ⟨rfl, Or.inl (by simp [Action.didFollow])⟩
      · rw [refTrav_holds rem n rest s.store dead hh]; simp [hd1, hrem]
    · -- first occurrence after the window: the block travels with the entry, is written and delivered
      simp only [hsn, Bool.false_eq_true, if_false] at hla
      have hw0 : w - 1 = 0 := by
        have : ¬ 0 < w := by intro h; simp [h] at hsn
        omega
      have hsync : SyncW rem { obs s with store := (n.cid, n.cid) :: s.store, q := respItemsW rem rest (n.cid :: seen) (w - 1), unfollowed := if Action.present.didFollow then [] else n.path } rest none (n.cid :: seen) (w - 1) := by
        refine ⟨hclosed, hnopend, Or.inl hver', ?_, ?_, ?_⟩
        · intro c hc
          simp only [List.mem_cons] at hc
          rcases hc with rfl | hc
          · exact holds_self _ _ _
          · exact holds_cons _ _ _ _ (hseen c hc)
        · rw [hw0]; intro it hit; simp at hit
        · exact ⟨rfl, Or.inl (by simp [Action.didFollow])⟩
      cases hh : holds s.store n.cid with
      | true =>
        exact step_closeW rem k ih s n rest dead hlen hwf hne .data _ hla rest rfl none (n.cid :: seen) (w - 1)
          hsync s.store (holds_cons_held s.store n.cid hh)
          (by rw [refTrav_holds rem n rest s.store dead hh]; simp [hd1, hrem])
      | false =>
        exact step_closeW rem k ih s n rest dead hlen hwf hne .data _ hla rest rfl none (n.cid :: seen) (w - 1)
          hsync ((n.cid, n.cid) :: s.store) (fun c => rfl)
          (by rw [refTrav_remote rem n rest s.store dead hh (by simp [hd1, hrem])]; simp [hd1])
  | false =>
    simp only [hrem, Bool.false_eq_true, if_false] at hq
    have hla := load_head_ans s n.path n.cid hver' _ _ hq rfl hst1 hnopend
    have hwin' : ∀ it ∈ (respItemsW rem (skipSub n rest) seen (w - 1)).take (w - 1), it.action = .present →
        holds s.store it.link = true := by
      intro it hit; apply hwin; rw [hq]; exact mem_take_tail hit
    simp only at hla
    cases hh : holds s.store n.cid with
    | true =>
      -- the requestor holds what the responder lacks: it descends alone
      have hnp : n.path ≠ [] := by
        rcases hnp0 with h | h
        · exact h
        · rw [hh] at h; cases h
      have hans : localAns s.store n.cid = .data := by simp [localAns, hh]
      rw [hans] at hla
      refine step_closeW rem k ih s n rest dead hlen hwf hne .data _ hla rest rfl (some n.depth) seen (w - 1)
        ⟨hclosed, hnopend, Or.inl hver', hseen, hwin', ?_⟩ s.store (fun c => rfl) ?_
      · refine ⟨rfl, ?_, ?_, Or.inl (by simpa [Action.didFollow] using hnp)⟩
        · intro m hm; simpa [Action.didFollow] using hwf.1 m hm
        · intro m hm; simpa [Action.didFollow] using hwf.2.1 m hm
      · rw [refTrav_holds rem n rest s.store dead hh]; simp [hd1, hrem]
    | false =>
      have hans : localAns s.store n.cid = .miss := by simp [localAns, hh]
      rw [hans] at hla
      refine step_closeW rem k ih s n rest dead hlen hwf hne .miss _ hla (skipSub n rest) rfl none seen (w - 1)
        ⟨hclosed, hnopend, Or.inl hver', hseen, hwin', ?_⟩ s.store (fun c => rfl) ?_
      · refine ⟨rfl, Or.inr ?_⟩
        intro m hm; simpa [Action.didFollow] using hwf.2.1 m hm
      · rw [refTrav_missing rem n rest s.store dead hh (by simp [hrem])]; simp [hd1]

/-- the requestor is inside a subtree the responder did not follow -/
theorem gap_caseW (rem : Cid → Bool) (k : Nat) (ih : IHW rem k)
    (s : State) (n : LNode) (rest : LT) (d : Nat) (seen : List Cid) (w : Nat) (hlen : rest.length ≤ k)
    (hwf : WF (n :: rest)) (hne : ∀ m ∈ rest, m.path ≠ []) (hd : n.depth > d)
    (hsync : SyncW rem (obs s) (n :: rest) (some d) seen w) :
    (walk s (n :: rest)).1 = (refTrav rem (n :: rest) s.store (some d)).1 ∧
    ∀ c, holds (walk s (n :: rest)).2.store c = holds (refTrav rem (n :: rest) s.store (some d)).2 c := by
  obtain ⟨hclosed, hnopend, hver, hseen, hwin, hmode⟩ := hsync
  simp only [obs] at hclosed hnopend hver hseen hwin hmode
  obtain ⟨hq, htake, hdrop, hu⟩ := hmode
  have hpn : (decide (n.depth > d)) = true := by simpa using hd
  have hdw : (n :: rest).dropWhile (fun m => decide (m.depth > d)) = rest.dropWhile (fun m => decide (m.depth > d)) := by
    simp [hd]
  have htw : (n :: rest).takeWhile (fun m => decide (m.depth > d)) = n :: rest.takeWhile (fun m => decide (m.depth > d)) := by
    simp [hd]
  rw [hdw] at hq hdrop
  rw [htw] at htake
  have hbelow : below s.unfollowed n.path = true := htake n (List.mem_cons_self ..)
  have hd1 : dead1 (some d) n = some d := by simp [dead1]; omega
  -- the load is answered from the local store
  have hla : LoadsTo s n.path n.cid (localAns s.store n.cid) (obs s) := by
    cases hqq : s.rq.q with
    | nil => exact load_offline_ans s n.path n.cid hqq hclosed hnopend
    | cons it q' =>
      have hune : s.unfollowed ≠ [] := by
        rcases hu with h | h
        · exact h
        · rw [hqq] at h; cases h
      have hver' : s.ver = none := by
        rcases hver with h | h
        · exact h
        · rw [hqq] at h; cases h
      exact load_gap_ans s n.path n.cid hver' it q' hqq hune hbelow hnopend
  cases hh : holds s.store n.cid with
  | true =>
    have hans : localAns s.store n.cid = .data := by simp [localAns, hh]
    rw [hans] at hla
    refine step_closeW rem k ih s n rest (some d) hlen hwf hne .data _ hla rest rfl (some d) seen w
      ⟨hclosed, hnopend, hver, hseen, hwin, hq, ?_, hdrop, hu⟩ s.store (fun c => rfl) ?_
    · intro m hm; exact htake m (List.mem_cons_of_mem _ hm)
    · rw [refTrav_holds rem n rest s.store (some d) hh]; simp [hd1]
  | false =>
    have hans : localAns s.store n.cid = .miss := by simp [localAns, hh]
    rw [hans] at hla
    have himp : ∀ x : LNode, decide (x.depth > n.depth) = true → decide (x.depth > d) = true := by
      intro x hx; simp at hx ⊢; omega
    refine step_closeW rem k ih s n rest (some d) hlen hwf hne .miss _ hla (skipSub n rest) rfl (some d) seen w
      ⟨hclosed, hnopend, hver, hseen, hwin, ?_, ?_, ?_, hu⟩ s.store (fun c => rfl) ?_
    · simp only [obs]; rw [hq]; unfold skipSub
      rw [dropWhile_dropWhile_imp _ _ himp]
    · intro m hm
      unfold skipSub at hm
      exact htake m (List.mem_cons_of_mem _ (mem_takeWhile_dropWhile_imp _ _ himp rest m hm))
    · intro m hm
      unfold skipSub at hm
      rw [dropWhile_dropWhile_imp _ _ himp] at hm
      exact hdrop m hm
    · rw [refTrav_missing rem n rest s.store (some d) hh (by simp [hd1])]; simp [hd1]

/-- **the loader against an honest responder stream with a skip window computes the reference
    traversal**, provided no needed block lies in the window (`SyncW.win`) -/
theorem walk_refTravW (rem : Cid → Bool) : ∀ k, IHW rem k := by
  intro k
  induction k with
  | zero =>
    intro todo hl s dead seen w _ _ _
    cases todo with
    | nil => rw [walk, refTrav.eq_def]; exact ⟨rfl, fun _ => rfl⟩
    | cons n rest => simp at hl
  | succ k ih =>
    intro todo hl s dead seen w hsync hwf hne
    cases todo with
    | nil => rw [walk, refTrav.eq_def]; exact ⟨rfl, fun _ => rfl⟩
    | cons n rest =>
      simp only [List.length_cons] at hl
      have hlen : rest.length ≤ k := by omega
      have hne' : ∀ m ∈ rest, m.path ≠ [] := fun m hm => hne m (List.mem_cons_of_mem _ hm)
      have hnp0 : n.path ≠ [] ∨ holds s.store n.cid = false := Or.inl (hne n (List.mem_cons_self ..))
      cases dead with
      | none =>
        obtain ⟨hclosed, hnopend, hver, hseen, hwin, hq, hstale⟩ := hsync
        exact sync_caseW rem k ih s n rest none seen w hlen hwf hne' hnp0 rfl hclosed hnopend hver hseen hwin hq hstale
      | some d =>
        by_cases hd : n.depth > d
        · exact gap_caseW rem k ih s n rest d seen w hlen hwf hne' hd hsync
        · -- the traversal has left the subtree the responder did not follow
          obtain ⟨hclosed, hnopend, hver, hseen, hwin, hq, _, hdrop, _⟩ := hsync
          have hdw : (n :: rest).dropWhile (fun m => decide (m.depth > d)) = n :: rest := by
            simp [hd]
          rw [hdw] at hq hdrop
          exact sync_caseW rem k ih s n rest (some d) seen w hlen hwf hne' hnp0 (by simp [dead1]; omega)
            hclosed hnopend hver hseen hwin hq (Or.inr hdrop)

/-! ### list facts -/

theorem dropWhile_eq_of_split {α : Type} (f g : α → Bool) : ∀ (l : List α),
    (∀ x ∈ l.takeWhile f, g x = true) → (∀ x ∈ l.dropWhile f, g x = false) → l.dropWhile g = l.dropWhile f
  | [], _, _ => rfl
  | a :: l, h1, h2 => by
    by_cases ha : f a = true
    · have hg : g a = true := h1 a (by simp [ha])
      simp only [List.dropWhile_cons, ha, hg, if_true]
      apply dropWhile_eq_of_split f g l
      · intro x hx; exact h1 x (by simp [ha, hx])
      · intro x hx; exact h2 x (by simpa [ha] using hx)
    · have hg : g a = false := h2 a (by simp [ha])
      simp [ha, hg]

theorem all_of_dropWhile_nil {α : Type} (f : α → Bool) : ∀ (l : List α), l.dropWhile f = [] → ∀ x ∈ l, f x = true
  | [], _ => by intro x hx; simp at hx
  | a :: l, h => by
    by_cases ha : f a = true
    · simp only [List.dropWhile_cons, ha, if_true] at h
      intro x hx
      simp only [List.mem_cons] at hx
      rcases hx with rfl | hx
      · exact ha
      · exact all_of_dropWhile_nil f l h x hx
    · simp [ha] at h

theorem takeWhile_all {α : Type} (f : α → Bool) : ∀ (l : List α), (∀ x ∈ l, f x = true) → l.takeWhile f = l
  | [], _ => rfl
  | a :: l, h => by
    simp only [List.takeWhile_cons, h a (by simp), if_true]
    rw [takeWhile_all f l (fun x hx => h x (by simp [hx]))]

theorem dropWhile_append_cons {α : Type} (f : α → Bool) (l1 l2 : List α) (x : α) (r : List α)
    (h : l1.dropWhile f = x :: r) : (l1 ++ l2).dropWhile f = x :: r ++ l2 := by
  rw [List.dropWhile_append, h]; simp

theorem takeWhile_append_cons {α : Type} (f : α → Bool) : ∀ (l1 l2 : List α) (x : α) (r : List α),
    l1.dropWhile f = x :: r → (l1 ++ l2).takeWhile f = l1.takeWhile f
  | [], _, _, _, h => by simp at h
  | a :: l1, l2, x, r, h => by
    by_cases ha : f a = true
    · simp only [List.dropWhile_cons, ha, if_true] at h
      simp only [List.cons_append, List.takeWhile_cons, ha, if_true]
      rw [takeWhile_append_cons f l1 l2 x r h]
    · simp [ha]

/-! ### linked nodes of a suffix of the record -/

/-- the loads of a locally loaded prefix, as recorded -/
def loadsOf (pre : LT) : List (Path × (Cid × Bool)) := pre.map (fun m => (m.path, (m.cid, true)))

theorem linkedOf_cons_split : ∀ (B : TRec) (p : Path) (l : Cid × Bool) (rest : List (Path × (Cid × Bool))),
    linkedOf B = (p, l) :: rest →
    ∃ U nm B2, B = U ++ nm :: B2 ∧ nm.path = p ∧ nm.link = some l ∧ linkedOf B2 = rest
  | [], _, _, _, h => by simp [linkedOf] at h
  | b :: B, p, l, rest, h => by
    cases hl : b.link with
    | some l0 =>
      simp only [linkedOf, List.filterMap_cons, hl, Option.map_some, List.cons.injEq, Prod.mk.injEq] at h
      exact ⟨[], b, B, rfl, h.1.1, by rw [hl, h.1.2], h.2⟩
    | none =>
      have h' : linkedOf B = (p, l) :: rest := by simpa [linkedOf, List.filterMap_cons, hl] using h
      obtain ⟨U, nm, B2, hB, h1, h2, h3⟩ := linkedOf_cons_split B p l rest h'
      exact ⟨b :: U, nm, B2, by rw [hB]; rfl, h1, h2, h3⟩

theorem mem_linkedOf {B : TRec} {p : Path} {l : Cid × Bool} (h : (p, l) ∈ linkedOf B) :
    ∃ n ∈ B, n.path = p ∧ n.link = some l := by
  unfold linkedOf at h
  rw [List.mem_filterMap] at h
  obtain ⟨n, hn, hm⟩ := h
  cases hl : n.link with
  | none => rw [hl] at hm; cases hm
  | some l0 =>
    rw [hl] at hm
    simp only [Option.map_some, Option.some.injEq, Prod.mk.injEq] at hm
    exact ⟨n, hn, hm.1, by rw [← hm.2]; exact hl⟩

theorem linkedOf_nil_suffix {R A B : TRec} (hR : R = A ++ B) (hlast : ∃ A' n, R = A' ++ [n] ∧ n.link ≠ none)
    (h : linkedOf B = []) : B = [] := by
  rcases List.eq_nil_or_concat B with rfl | ⟨B0, b, rfl⟩
  · rfl
  · exfalso
    obtain ⟨A', n, hR', hn⟩ := hlast
    simp only [List.concat_eq_append] at hR h
    have h' : A' ++ [n] = (A ++ B0) ++ [b] := by rw [← hR', hR]; simp
    have := List.append_inj' h' rfl
    simp only [List.cons.injEq, and_true] at this
    rw [linkedOf_append] at h
    cases hb : b.link with
    | none => rw [this.2, hb] at hn; exact hn rfl
    | some l => simp [linkedOf, hb] at h

/-- skipping the nodes below a path commutes with taking the linked nodes (contiguity) -/
theorem linkedOf_dropWhile (q : Path) : ∀ (B : TRec),
    (∀ x ∈ B.dropWhile (fun m => q.isPrefixOf m.path), ¬ q <+: x.path) →
    linkedOf (B.dropWhile (fun m => q.isPrefixOf m.path)) = (linkedOf B).dropWhile (fun l => q.isPrefixOf l.1)
  | [], _ => by simp [linkedOf]
  | b :: B, h => by
    by_cases hb : q.isPrefixOf b.path = true
    · simp only [List.dropWhile_cons, hb, if_true] at h ⊢
      rw [linkedOf_dropWhile q B h]
      cases hl : b.link with
      | none => simp [linkedOf, hl]
      | some l => simp [linkedOf, hl, hb]
    · have hself : (b :: B).dropWhile (fun m => q.isPrefixOf m.path) = b :: B := by
        simp [hb]
      rw [hself] at h ⊢
      symm
      cases hlk : linkedOf (b :: B) with
      | nil => rfl
      | cons x xs =>
        have hx : x ∈ linkedOf (b :: B) := by rw [hlk]; simp
        obtain ⟨n, hn, hp, _⟩ := mem_linkedOf (p := x.1) (l := x.2) hx
        have := h n hn
        have hx' : q.isPrefixOf x.1 = false := by rw [← hp]; exact isPre_false this
        simp [hx']

/-! ### the reference traversal inside a subtree the responder did not follow, all held locally -/

theorem refTrav_gap_held (rem : Cid → Bool) (st : List (Cid × Blk)) (d : Nat) : ∀ (sub rest : LT),
    (∀ x ∈ sub, x.depth > d ∧ holds st x.cid = true) →
    refTrav rem (sub ++ rest) st (some d) =
      (sub.map (fun m => (m, true)) ++ (refTrav rem rest st (some d)).1, (refTrav rem rest st (some d)).2)
  | [], rest, _ => by simp
  | x :: sub, rest, h => by
    have hx := h x (by simp)
    have hd1 : dead1 (some d) x = some d := by simp [dead1]; omega
    rw [List.cons_append, refTrav_holds rem x (sub ++ rest) st (some d) hx.2]
    simp only [hd1, Option.isNone_some, Bool.false_and, Bool.false_eq_true, if_false]
    rw [refTrav_gap_held rem st d sub rest (fun y hy => h y (by simp [hy]))]
    simp

/-! ### one iteration of `waitRemote` during the replay -/

theorem verDone_linked (R : TRec) (p : Path) (l : Cid × Bool) (h : linkAt R p = some l) :
    verDone R (some p) = false := by
  cases p with
  | nil => simp [verDone, h]
  | cons a p => rfl

/-- the state after one replayed entry -/
def replayNext (s : State) (p : Path) (head : Item) : State :=
  recordRemoteAttempt
    { s with rq := s.rq.consume, ver := some (nextLink s.record p head.action.didFollow) } p head.action

theorem waitRemote_step (s : State) (fuel : Nat) (head : Item) (q' : List Item) (p : Path) (c : Cid)
    (hq : s.rq.q = head :: q') (hv : s.ver = some (some p)) (hl : linkAt s.record p = some (c, true))
    (hhead : head.link = c) :
    waitRemote (fuel + 1) s = waitRemote fuel (replayNext s p head) := by
  have hvd := verDone_linked s.record p _ hl
  rw [waitRemote]
  simp [hq, State.verifierDone, hv, hvd, verifyNext, hl, hhead, verPath, replayNext]

theorem replayNext_fields (s : State) (p : Path) (head : Item) (q' : List Item) (hq : s.rq.q = head :: q') :
    (replayNext s p head).store = s.store ∧ (replayNext s p head).record = s.record ∧
    (replayNext s p head).mra = s.mra ∧ (replayNext s p head).isOpen = s.isOpen ∧
    (replayNext s p head).pending = s.pending ∧ (replayNext s p head).rq.q = q' ∧
    (replayNext s p head).ver = some (nextLink s.record p head.action.didFollow) ∧
    (replayNext s p head).unfollowed = if head.action.didFollow then s.unfollowed else p := by
  unfold replayNext recordRemoteAttempt
  cases head.action.didFollow <;> simp [RQ.consume, hq]

/-- the verifier is done: `waitRemote` hands over to the remote queue, or to the local store if the
    queue is exhausted; running it again changes nothing -/
theorem waitRemote_done (s : State) (fuel : Nat) (hv : s.ver = some none) (hc : s.isOpen = false) :
    ∃ sB wt, waitRemote (fuel + 1) s = (sB, wt) ∧ (wt = .remote ∨ wt = .offline) ∧
      waitRemote (sB.rq.q.length + 1) sB = (sB, wt) ∧
      sB.store = s.store ∧ sB.record = s.record ∧ sB.mra = s.mra ∧ sB.isOpen = s.isOpen ∧
      sB.pending = s.pending ∧ sB.rq.q = s.rq.q ∧ sB.unfollowed = s.unfollowed ∧
      (sB.ver = none ∨ sB.rq.q = []) := by
  cases hq : s.rq.q with
  | nil =>
    refine ⟨s, .offline, by simp [waitRemote, hq, hc], Or.inr rfl, by simp [waitRemote, hq, hc], rfl, rfl, rfl, rfl,
      rfl, hq, rfl, Or.inr hq⟩
  | cons head q' =>
    refine ⟨{ s with ver := none }, .remote, by simp [waitRemote, hq, State.verifierDone, hv, verDone], Or.inl rfl,
      by simp [waitRemote, hq, State.verifierDone], rfl, rfl, rfl, rfl, rfl, hq, rfl, Or.inl rfl⟩

/-! ### the replay -/

/-- outcome of the replay inside `waitRemote`: the loop ends handing over to the remote queue (or to
    the local store if the queue is exhausted), running it again changes nothing, the loader is
    in a `SyncW` state for the rest `tl` of the traversal, and the reference traversal has delivered
    the replayed prefix -/
def ReplayDone (rem : Cid → Bool) (s : State) (fuel : Nat) (todoPre tl : LT) (dead : Option Nat) : Prop :=
  ∃ sB wt dead' seen' w', waitRemote fuel s = (sB, wt) ∧ (wt = .remote ∨ wt = .offline) ∧
    waitRemote (sB.rq.q.length + 1) sB = (sB, wt) ∧
    sB.store = s.store ∧ sB.mra = s.mra ∧ sB.record = s.record ∧
    SyncW rem (obs sB) tl dead' seen' w' ∧
    refTrav rem (todoPre ++ tl) s.store dead =
      (todoPre.map (fun m => (m, true)) ++ (refTrav rem tl s.store dead').1, (refTrav rem tl s.store dead').2)

theorem replay_finish (rem : Cid → Bool) (s s1 : State) (f : Nat) (hw : waitRemote (f + 1) s = waitRemote f s1)
    (hf : 1 ≤ f) (hv : s1.ver = some none) (hc : s1.isOpen = false)
    (hst : s1.store = s.store) (hmra : s1.mra = s.mra) (hrec : s1.record = s.record)
    (tl todoPre : LT) (dead dead' : Option Nat) (seen' : List Cid) (w' : Nat)
    (hsync : ∀ sB : State, sB.store = s1.store → sB.isOpen = s1.isOpen → sB.pending = s1.pending →
      sB.rq.q = s1.rq.q → sB.unfollowed = s1.unfollowed → (sB.ver = none ∨ sB.rq.q = []) →
      SyncW rem (obs sB) tl dead' seen' w')
    (href : refTrav rem (todoPre ++ tl) s.store dead =
      (todoPre.map (fun m => (m, true)) ++ (refTrav rem tl s.store dead').1, (refTrav rem tl s.store dead').2)) :
    ReplayDone rem s (f + 1) todoPre tl dead := by
  obtain ⟨f', rfl⟩ : ∃ f', f = f' + 1 := ⟨f - 1, by omega⟩
  obtain ⟨sB, wt, h1, h2, h3, h4, h5, h6, h7, h8, h9, h10, h11⟩ := waitRemote_done s1 f' hv hc
  exact ⟨sB, wt, dead', seen', w', by rw [hw, h1], h2, h3, h4.trans hst, h6.trans hmra, h5.trans hrec,
    hsync sB h4 h7 h8 h9 h10 h11, href⟩

theorem replay_wait (rem : Cid → Bool) (R : TRec) (hO : TOrd R) (hC : PClosed R)
    (hlast : ∃ A n, R = A ++ [n] ∧ n.link ≠ none) (tl : LT) :
    ∀ (k : Nat) (m : LNode) (pre' : LT), pre'.length < k →
    ∀ (s : State) (A B : TRec) (dead : Option Nat) (seen : List Cid) (w fuel : Nat),
      s.record = R → R = A ++ B → linkedOf B = loadsOf (m :: pre') →
      s.ver = some (tipOf R B) → s.isOpen = false → s.pending = none →
      s.rq.q = respItemsW rem (m :: pre' ++ tl) seen w →
      s.rq.q.length + 1 ≤ fuel →
      (s.unfollowed = [] ∨ ∀ x ∈ tl, below s.unfollowed x.path = false) →
      (∀ x ∈ m :: pre', holds s.store x.cid = true) →
      (∀ x ∈ m :: pre', rem x.cid = false → x.path ≠ []) →
      (∀ c ∈ seen, holds s.store c = true) →
      (∀ it ∈ s.rq.q.take w, it.action = .present → holds s.store it.link = true) →
      WF (m :: pre' ++ tl) → dead1 dead m = none →
      ReplayDone rem s fuel (m :: pre') tl dead := by
  intro k
  induction k with
  | zero => intro m pre' hk; omega
  | succ k ih =>
    intro m pre' hk s A B dead seen w fuel hrec hR hlk hver hclosed hnopend hq hfuel hstale hheld hnepath hseen hwin hwf hd1
    have hlk' : linkedOf B = (m.path, (m.cid, true)) :: loadsOf pre' := hlk
    obtain ⟨U, nm, B2, hB, hnmp, hnml, hB2⟩ := linkedOf_cons_split B _ _ _ hlk'
    have hR2 : R = (A ++ U) ++ nm :: B2 := by rw [hR, hB]; simp
    have hR3 : R = (A ++ U ++ [nm]) ++ B2 := by rw [hR2]; simp
    have htip : tipOf R B = some m.path := tipOf_spec hO hC hR hlk'
    have hla : linkAt s.record m.path = some (m.cid, true) := by
      rw [hrec, ← hnmp, linkAt_at hO hR2, hnml]
    have hvs : s.ver = some (some m.path) := by rw [hver, htip]
    have hmheld : holds s.store m.cid = true := hheld m (by simp)
    have hwfS : ∀ x ∈ subOf m (pre' ++ tl), below m.path x.path = true := hwf.1
    have hwfK : ∀ x ∈ skipSub m (pre' ++ tl), below m.path x.path = false := hwf.2.1
    have hwfR : WF (pre' ++ tl) := hwf.2.2
    obtain ⟨f, rfl⟩ : ∃ f, fuel = f + 1 := ⟨fuel - 1, by omega⟩
    rw [List.cons_append, respItemsW] at hq
    cases hrem : rem m.cid with
    | true =>
      simp only [hrem, if_true] at hq
      obtain ⟨head, q', hq, hhl, hha, hq'⟩ : ∃ head q', s.rq.q = head :: q' ∧ head.link = m.cid ∧
          head.action = .present ∧ q' = respItemsW rem (pre' ++ tl) (m.cid :: seen) (w - 1) := ⟨_, _, hq, rfl, rfl, rfl⟩
      have hstep := waitRemote_step s f head q' m.path m.cid hq hvs hla hhl
      have hflds := replayNext_fields s m.path head q' hq
      generalize replayNext s m.path head = s1 at hstep hflds
      obtain ⟨h1st, h1rec, h1mra, h1open, h1pend, h1q, h1ver, h1unf⟩ := hflds
      rw [hq'] at h1q
      have hnl : nextLink R m.path true = tipOf R B2 := by rw [← hnmp]; exact nextLink_true' hO hC hR2
      simp only [hha, Action.didFollow, if_true] at h1ver h1unf
      rw [hrec, hnl] at h1ver
      have hwin1 : ∀ it ∈ (respItemsW rem (pre' ++ tl) (m.cid :: seen) (w - 1)).take (w - 1), it.action = .present →
          holds s.store it.link = true := by
        intro it hit; apply hwin; rw [hq, hq']; exact mem_take_tail hit
      have hseen1 : ∀ c ∈ m.cid :: seen, holds s.store c = true := by
        intro c hc
        simp only [List.mem_cons] at hc
        rcases hc with rfl | hc
        · exact hmheld
        · exact hseen c hc
      have href0 : refTrav rem (m :: (pre' ++ tl)) s.store dead =
          ((m, true) :: (refTrav rem (pre' ++ tl) s.store none).1, (refTrav rem (pre' ++ tl) s.store none).2) := by
        rw [refTrav_holds rem m (pre' ++ tl) s.store dead hmheld]; simp [hd1, hrem]
      cases pre' with
      | nil =>
        have hB2nil : B2 = [] := linkedOf_nil_suffix hR3 hlast (by rw [hB2]; rfl)
        rw [hB2nil] at h1ver
        apply replay_finish rem s s1 f hstep (by rw [hq] at hfuel; simp at hfuel; omega) h1ver (h1open.trans hclosed)
          h1st h1mra h1rec tl [m] dead none (m.cid :: seen) (w - 1)
        · intro sB e1 e2 e3 e4 e5 e6
          refine ⟨by simp only [obs]; rw [e2, h1open]; exact hclosed, by simp only [obs]; rw [e3, h1pend]; exact hnopend,
            by simpa only [obs] using e6, ?_, ?_, ?_⟩
          · simp only [obs]; rw [e1, h1st]; exact hseen1
          · simp only [obs]; rw [e1, h1st, e4, h1q]; simpa using hwin1
          · simp only [obs]
            refine ⟨by rw [e4, h1q]; rfl, ?_⟩
            rw [e5, h1unf]
            exact hstale
        · simpa using href0
      | cons m2 pre'' =>
        simp only [List.length_cons] at hk
        have hdone := ih m2 pre'' (by omega) s1 (A ++ U ++ [nm]) B2 none (m.cid :: seen) (w - 1) f
          (h1rec.trans hrec) hR3 hB2 h1ver (h1open.trans hclosed) (h1pend.trans hnopend)
          (by rw [h1q])
          (by rw [h1q]; rw [hq] at hfuel; simp at hfuel ⊢; omega)
          (by rw [h1unf]; exact hstale)
          (by rw [h1st]; intro x hx; exact hheld x (List.mem_cons_of_mem _ hx))
          (fun x hx => hnepath x (List.mem_cons_of_mem _ hx))
          (by rw [h1st]; exact hseen1)
          (by rw [h1st, h1q]; exact hwin1)
          hwfR rfl
        obtain ⟨sB, wt, dead', seen', w', g1, g2, g3, g4, g5, g6, g7, g8⟩ := hdone
        refine ⟨sB, wt, dead', seen', w', by rw [hstep]; exact g1, g2, g3, g4.trans h1st, g5.trans h1mra, g6.trans h1rec, g7, ?_⟩
        rw [h1st] at g8
        rw [List.cons_append, href0, g8]
        simp
    | false =>
      simp only [hrem, Bool.false_eq_true, if_false] at hq
      obtain ⟨head, q', hq, hhl, hha, hq'⟩ : ∃ head q', s.rq.q = head :: q' ∧ head.link = m.cid ∧
          head.action = .missing ∧ q' = respItemsW rem (skipSub m (pre' ++ tl)) seen (w - 1) := ⟨_, _, hq, rfl, rfl, rfl⟩
      have hstep := waitRemote_step s f head q' m.path m.cid hq hvs hla hhl
      have hflds := replayNext_fields s m.path head q' hq
      generalize replayNext s m.path head = s1 at hstep hflds
      obtain ⟨h1st, h1rec, h1mra, h1open, h1pend, h1q, h1ver, h1unf⟩ := hflds
      rw [hq'] at h1q
      have hnl : nextLink R m.path false = tipOf R (B2.dropWhile (fun x => nm.path.isPrefixOf x.path)) := by
        rw [← hnmp]; exact nextLink_false hO hC hR2
      simp only [hha, Action.didFollow, Bool.false_eq_true, if_false] at h1ver h1unf
      rw [hrec, hnl] at h1ver
      have hmpne : m.path ≠ [] := hnepath m (by simp) hrem
      have hwin1 : ∀ it ∈ (respItemsW rem (skipSub m (pre' ++ tl)) seen (w - 1)).take (w - 1), it.action = .present →
          holds s.store it.link = true := by
        intro it hit; apply hwin; rw [hq, hq']; exact mem_take_tail hit
      have href0 : refTrav rem (m :: (pre' ++ tl)) s.store dead =
          ((m, true) :: (refTrav rem (pre' ++ tl) s.store (some m.depth)).1,
           (refTrav rem (pre' ++ tl) s.store (some m.depth)).2) := by
        rw [refTrav_holds rem m (pre' ++ tl) s.store dead hmheld]; simp [hd1, hrem]
      -- the recorded nodes after `m`: those below `m` are exactly `m`'s subtree in the prefix
      have hcontig : ∀ x ∈ B2.dropWhile (fun x => nm.path.isPrefixOf x.path), ¬ nm.path <+: x.path :=
        TOrd.contig (A := A ++ U) (by rw [← hR2]; exact hO)
      have hnotext : ∀ x ∈ pre', below m.path x.path = false → ¬ m.path <+: x.path := by
        intro x hx hbl hpre
        have hlen : x.path.length ≤ m.path.length := by
          unfold below at hbl
          rw [List.isPrefixOf_iff_prefix.mpr hpre] at hbl
          simpa using hbl
        have heq := pre_eq_of_len hpre hlen
        have hxl : (x.path, (x.cid, true)) ∈ linkedOf B2 := by
          rw [hB2]; exact List.mem_map.mpr ⟨x, hx, rfl⟩
        obtain ⟨nx, hnx, hnxp, _⟩ := mem_linkedOf hxl
        exact (TOrd.later (A := A ++ U) (by rw [← hR2]; exact hO)) nx hnx (by rw [hnxp, hnmp, heq]; exact List.prefix_refl _)
      have hext_of_below : ∀ x : LNode, below m.path x.path = true → m.path.isPrefixOf x.path = true := by
        intro x hx; unfold below at hx; simp only [Bool.and_eq_true] at hx; exact hx.1
      have hlinked3 : ∀ (hsplit1 : ∀ x ∈ pre'.takeWhile (fun x => decide (x.depth > m.depth)), below m.path x.path = true)
          (hsplit2 : ∀ x ∈ pre'.dropWhile (fun x => decide (x.depth > m.depth)), below m.path x.path = false),
          linkedOf (B2.dropWhile (fun x => nm.path.isPrefixOf x.path)) = loadsOf (skipSub m pre') := by
        intro hs1 hs2
        rw [linkedOf_dropWhile nm.path B2 hcontig, hB2, hnmp]
        unfold loadsOf
        rw [List.dropWhile_map]
        congr 1
        unfold skipSub
        apply dropWhile_eq_of_split
        · intro x hx; exact hext_of_below x (hs1 x hx)
        · intro x hx
          exact isPre_false (hnotext x (mem_dropWhile _ _ _ hx) (hs2 x hx))
      cases hskip : skipSub m pre' with
      | nil =>
        have hall : ∀ x ∈ pre', (fun x : LNode => decide (x.depth > m.depth)) x = true :=
          all_of_dropWhile_nil _ pre' hskip
        have hskipAll : skipSub m (pre' ++ tl) = skipSub m tl := by
          unfold skipSub; exact List.dropWhile_append_of_pos hall
        have hsubAll : subOf m (pre' ++ tl) = pre' ++ subOf m tl := by
          unfold subOf; exact List.takeWhile_append_of_pos hall
        have hl3 := hlinked3
          (by intro x hx; exact hwfS x (by rw [hsubAll]; exact List.mem_append_left _ (mem_takeWhile _ _ _ hx)))
          (by intro x hx; unfold skipSub at hskip; rw [hskip] at hx; simp at hx)
        rw [hskip] at hl3
        have hB3nil := linkedOf_nil_suffix (A := A ++ U ++ [nm] ++ B2.takeWhile (fun x => nm.path.isPrefixOf x.path))
          (B := B2.dropWhile (fun x => nm.path.isPrefixOf x.path))
          (by rw [hR3]; simp) hlast (by rw [hl3]; rfl)
        rw [hB3nil] at h1ver
        apply replay_finish rem s s1 f hstep (by rw [hq] at hfuel; simp at hfuel; omega) h1ver (h1open.trans hclosed)
          h1st h1mra h1rec tl (m :: pre') dead (some m.depth) seen (w - 1)
        · intro sB e1 e2 e3 e4 e5 e6
          refine ⟨by simp only [obs]; rw [e2, h1open]; exact hclosed, by simp only [obs]; rw [e3, h1pend]; exact hnopend,
            by simpa only [obs] using e6, ?_, ?_, ?_⟩
          · simp only [obs]; rw [e1, h1st]; exact hseen
          · simp only [obs]; rw [e1, h1st, e4, h1q]; exact hwin1
          · simp only [obs]
            rw [e4, h1q, e5, h1unf, hskipAll]
            refine ⟨rfl, ?_, ?_, Or.inl hmpne⟩
            · intro x hx
              exact hwfS x (by rw [hsubAll]; exact List.mem_append_right _ hx)
            · intro x hx
              exact hwfK x (by rw [hskipAll]; exact hx)
        · rw [List.cons_append, href0, refTrav_gap_held rem s.store m.depth pre' tl
            (fun x hx => ⟨by simpa using hall x hx, hheld x (List.mem_cons_of_mem _ hx)⟩)]
          simp
      | cons m2 r2 =>
        have hskipC : skipSub m (pre' ++ tl) = m2 :: r2 ++ tl := by
          unfold skipSub at hskip ⊢; exact dropWhile_append_cons _ pre' tl m2 r2 hskip
        have hsubC : subOf m (pre' ++ tl) = subOf m pre' := by
          unfold skipSub at hskip; unfold subOf; exact takeWhile_append_cons _ pre' tl m2 r2 hskip
        have hl3 := hlinked3
          (by intro x hx; exact hwfS x (by rw [hsubC]; exact hx))
          (by intro x hx; exact hwfK x (by
                rw [hskipC]; unfold skipSub at hskip; rw [hskip] at hx; exact List.mem_append_left _ hx))
        rw [hskip] at hl3
        have hr2len : r2.length < k := by
          have := skipSub_length m pre'
          rw [hskip] at this
          simp only [List.length_cons] at this
          omega
        have hm2d : ¬ m2.depth > m.depth := by
          unfold skipSub at hskip
          have := dropWhile_head_neg _ _ _ _ hskip
          simpa using this
        have hsubmem : ∀ x ∈ m2 :: r2, x ∈ pre' := by
          intro x hx; rw [← hskip] at hx; exact mem_dropWhile _ _ _ hx
        have hdone := ih m2 r2 hr2len s1
          (A ++ U ++ [nm] ++ B2.takeWhile (fun x => nm.path.isPrefixOf x.path))
          (B2.dropWhile (fun x => nm.path.isPrefixOf x.path)) (some m.depth) seen (w - 1) f
          (h1rec.trans hrec) (by rw [hR3]; simp) hl3 h1ver (h1open.trans hclosed) (h1pend.trans hnopend)
          (by rw [h1q, hskipC])
          (by rw [h1q, ← hq']; rw [hq] at hfuel; simp at hfuel ⊢; omega)
          (by
            rw [h1unf]
            refine Or.inr (fun x hx => hwfK x (by rw [hskipC]; exact List.mem_append_right _ hx)))
          (by rw [h1st]; intro x hx; exact hheld x (List.mem_cons_of_mem _ (hsubmem x hx)))
          (fun x hx => hnepath x (List.mem_cons_of_mem _ (hsubmem x hx)))
          (by rw [h1st]; exact hseen)
          (by rw [h1st, h1q]; exact hwin1)
          (by
            have := WF.dropWhile (fun x => decide (x.depth > m.depth)) (pre' ++ tl) hwfR
            have e : (pre' ++ tl).dropWhile (fun x => decide (x.depth > m.depth)) = m2 :: r2 ++ tl := hskipC
            rw [e] at this; exact this)
          (by simp [dead1]; omega)
        obtain ⟨sB, wt, dead', seen', w', g1, g2, g3, g4, g5, g6, g7, g8⟩ := hdone
        refine ⟨sB, wt, dead', seen', w', by rw [hstep]; exact g1, g2, g3, g4.trans h1st, g5.trans h1mra, g6.trans h1rec, g7, ?_⟩
        rw [h1st] at g8
        have hpre'split : pre' = subOf m pre' ++ (m2 :: r2) := by rw [← hskip]; exact (sub_skip m pre').symm
        have hgap := refTrav_gap_held rem s.store m.depth (subOf m pre') (m2 :: r2 ++ tl)
          (fun x hx => ⟨by unfold subOf at hx; simpa using mem_takeWhile_pos _ _ _ hx,
            hheld x (List.mem_cons_of_mem _ (mem_takeWhile _ _ _ hx))⟩)
        have e2 : pre' ++ tl = subOf m pre' ++ (m2 :: r2 ++ tl) := by
          conv => lhs; rw [hpre'split]
          simp
        rw [List.cons_append, href0, e2, hgap, g8]
        conv => rhs; rw [hpre'split]
        simp

/-! ### the local phase and the executor's script around the first miss -/

/-- a loader that has only worked locally -/
def localState (loc : List (Cid × Blk)) (R : TRec) (mra : Option Attempt) : State :=
  { store := loc, record := R, mra := mra }

/-- the record once the pending attempt has been written (`BlockReadOpener`'s prologue) -/
def recP (R : TRec) : Option Attempt → TRec
  | some a => R.record a.path a.link a.successful
  | none => R

theorem load_local_hit (loc : List (Cid × Blk)) (R : TRec) (mra : Option Attempt) (p : Path) (c : Cid)
    (h : holds loc c = true) :
    ∃ r, load (localState loc R mra) p c = (localState loc (recP R mra) (some ⟨c, p, true, false⟩), .done r) ∧
      r.err = none := by
  unfold holds at h
  cases hg : storeGet loc c with
  | none => rw [hg] at h; cases h
  | some b =>
    cases mra <;> exact ⟨{ data := some b, err := none, loc := true },
      by simp [load, run, waitRemote, loadLocal, hg, localState, recP], rfl⟩

theorem load_local_miss (loc : List (Cid × Blk)) (R : TRec) (mra : Option Attempt) (p : Path) (c : Cid)
    (h : holds loc c = false) :
    load (localState loc R mra) p c =
      (localState loc (recP R mra) (some ⟨c, p, false, false⟩),
       .done { data := none, err := some (.missing c p), loc := true }) := by
  unfold holds at h
  cases hg : storeGet loc c with
  | some b => rw [hg] at h; cases h
  | none => cases mra <;> simp [load, run, waitRemote, loadLocal, hg, localState, recP]

theorem local_walk (loc : List (Cid × Blk)) : ∀ (pre : LT) (R : TRec) (mra : Option Attempt),
    (∀ m ∈ pre, holds loc m.cid = true) →
    (walk (localState loc R mra) pre).1 = pre.map (fun m => (m, true)) ∧
    ∃ Rf mraf, (walk (localState loc R mra) pre).2 = localState loc Rf mraf ∧
      recP Rf mraf = pre.foldl (fun r m => r.record m.path m.cid true) (recP R mra)
  | [], R, mra, _ => by
    rw [walk]; exact ⟨rfl, R, mra, rfl, rfl⟩
  | m :: rest, R, mra, h => by
    obtain ⟨r, hl, he⟩ := load_local_hit loc R mra m.path m.cid (h m (by simp))
    rw [walk_data _ _ m rest r hl he]
    obtain ⟨h1, Rf, mraf, h2, h3⟩ := local_walk loc rest (recP R mra) (some ⟨m.cid, m.path, true, false⟩)
      (fun x hx => h x (by simp [hx]))
    exact ⟨by simp [h1], Rf, mraf, h2, by rw [h3]; rfl⟩

/-- state after: the local loads of `pre`, the local miss at `n`, `SetRemoteOnline(true)`, the whole
    response ingested as one message, `SetRemoteOnline(false)` (terminal status) -/
def afterResponseP (loc : List (Cid × Blk)) (pre : LT) (n : LNode) (md : List (Cid × Action)) (bl : List (Cid × Blk)) : State :=
  setOnline (ingest (setOnline (load (walk ({ store := loc } : State) pre).2 n.path n.cid).1 true) md bl) false

/-- the traversal record of a locally loaded prefix -/
def recOfLT (pre : LT) : TRec := pre.foldl (fun r m => r.record m.path m.cid true) TRec.empty

theorem recOfLT_eq (pre : LT) : recOfLT pre = recOf (loadsOf pre) := by
  unfold recOfLT recOf loadsOf
  rw [List.foldl_map]

theorem afterResponseP_eq (loc : List (Cid × Blk)) (pre : LT) (n : LNode) (md : List (Cid × Action)) (bl : List (Cid × Blk))
    (hheld : ∀ m ∈ pre, holds loc m.cid = true) (hmiss : holds loc n.cid = false) (hmd : md.isEmpty = false) :
    (load (walk ({ store := loc } : State) pre).2 n.path n.cid).2 =
        .done { data := none, err := some (.missing n.cid n.path), loc := true } ∧
    afterResponseP loc pre n md bl =
      { store := loc, record := recOfLT pre, mra := some ⟨n.cid, n.path, false, false⟩,
        unfollowed := [], isOpen := false, ver := some (newVerifier (recOfLT pre)),
        rq := { q := buildItems md bl }, pending := none } := by
  obtain ⟨_, Rf, mraf, h2, h3⟩ := local_walk loc pre TRec.empty none hheld
  have hs0 : ({ store := loc } : State) = localState loc TRec.empty none := rfl
  unfold afterResponseP
  rw [hs0, h2, load_local_miss loc Rf mraf n.path n.cid hmiss, h3]
  refine ⟨rfl, ?_⟩
  have hq : RQ.queue ({} : RQ) (buildItems md bl) = { q := buildItems md bl } := by
    rw [queue_tailOn _ _ rfl]; rfl
  simp [setOnline, ingest, hmd, RQ.clear, hq, localState, recP, recOfLT]

theorem WF.suffix : ∀ (A : LT) {B : LT}, WF (A ++ B) → WF B
  | [], _, h => h
  | _ :: A, _, h => WF.suffix A h.2.2

/-- after the replay the retried load (and hence the whole rest of the traversal) behaves as from
    the state the replay leaves behind -/
theorem run_of_waitRemote_idem (s sB : State) (wt : Wait) (h1 : waitRemote (s.rq.q.length + 1) s = (sB, wt))
    (h2 : waitRemote (sB.rq.q.length + 1) sB = (sB, wt)) (p : Path) (c : Cid) : run s p c = run sB p c := by
  rw [run_eq_post, run_eq_post, h1, h2]

theorem prologue_none (s : State) (h : s.mra = none) : prologue s = s := by
  unfold prologue; rw [h]

/-- **going online over a recorded, fully delivered prefix** — the loader-level core of
    `complete_prefix`, for any store and any loader state that has just gone (back) online: the
    traversal record is that of the loads `root :: pre'` (all delivered, their blocks in the store),
    no attempt is pending, the verifier is fresh, and the queue holds the honest response for a skip
    window of `w` entries none of which is needed (`hwin`).  Then the next load — at `n`, after the
    replay of the record — starts a continuation whose results, appended to the recorded prefix, are
    the reference traversal over the current store.  (Also the shape of a resumed request whose
    loads so far were all successful: C06 `reopen`.) -/
theorem replay_walk (rem : Cid → Bool) (s : State) (root : LNode) (pre' : LT) (n : LNode) (post : LT) (w : Nat)
    (hwf : WF (root :: pre' ++ n :: post))
    (hroot0 : root.path = []) (hne : ∀ m ∈ pre' ++ n :: post, m.path ≠ [])
    (hdfs : PathsDFS ((root :: pre').map (·.path)))
    (hrec : s.record = recOfLT (root :: pre')) (hmra : s.mra = none)
    (hver : s.ver = some (newVerifier s.record)) (hclosed : s.isOpen = false) (hnopend : s.pending = none)
    (hq : s.rq.q = respItemsW rem (root :: pre' ++ n :: post) [] w)
    (hstale : s.unfollowed = [] ∨ ∀ x ∈ n :: post, below s.unfollowed x.path = false)
    (hheld : ∀ m ∈ root :: pre', holds s.store m.cid = true)
    (hremroot : rem root.cid = true)
    (hwin : ∀ it ∈ s.rq.q.take w, it.action = .present → holds s.store it.link = true) :
    (root :: pre').map (fun m => (m, true)) ++ (walk s (n :: post)).1 =
      (refTrav rem (root :: pre' ++ n :: post) s.store none).1 ∧
    ∀ c, holds (walk s (n :: post)).2.store c = holds (refTrav rem (root :: pre' ++ n :: post) s.store none).2 c := by
  -- the record of the prefix
  have hloads : loadsOf (root :: pre') = ([], (root.cid, true)) :: loadsOf pre' := by
    simp [loadsOf, hroot0]
  have hpaths : (loadsOf (root :: pre')).map (·.1) = (root :: pre').map (·.path) := by
    unfold loadsOf; rw [List.map_map]; rfl
  obtain ⟨pl, hinv⟩ := recOf_inv (root.cid, true) (loadsOf pre') (by
    rw [← hloads, hpaths]; exact hdfs)
  rw [← hloads, ← recOfLT_eq] at hinv
  obtain ⟨hO, hC, ⟨Al, nl, hRl, _, hnll⟩, hlk, _⟩ := hinv
  have hlast : ∃ A n, recOfLT (root :: pre') = A ++ [n] ∧ n.link ≠ none := ⟨Al, nl, hRl, hnll⟩
  -- the verifier starts at the root
  have htip0 : tipOf (recOfLT (root :: pre')) (recOfLT (root :: pre')) = some [] :=
    tipOf_spec hO hC (A := []) (B := recOfLT (root :: pre')) rfl (hlk.trans hloads)
  have hnv : newVerifier (recOfLT (root :: pre')) = some [] := by
    obtain ⟨U, nm, B2, hB, hnmp, hnml, _⟩ := linkedOf_cons_split _ _ _ _ (hlk.trans hloads)
    have := linkAt_at hO (A := U) hB
    rw [hnmp, hnml] at this
    unfold newVerifier
    rw [appendUntilLink_linked [] _ this]
  have hne' : ∀ m ∈ n :: post, m.path ≠ [] := fun m hm => hne m (List.mem_append_right _ hm)
  have hdone := replay_wait rem (recOfLT (root :: pre')) hO hC hlast (n :: post) (pre'.length + 1) root pre' (by omega)
    s [] (recOfLT (root :: pre')) none [] w (s.rq.q.length + 1)
    hrec rfl hlk (by rw [hver, hrec, hnv, htip0]) hclosed hnopend hq (Nat.le_refl _) hstale hheld
    (by
      intro x hx hr
      simp only [List.mem_cons] at hx
      rcases hx with rfl | hx
      · rw [hremroot] at hr; cases hr
      · exact hne x (List.mem_append_left _ hx))
    (by intro c hc; simp at hc) hwin hwf rfl
  obtain ⟨sB, wt, dead', seen', w', g1, _, g3, g4, g5, _, g7, g8⟩ := hdone
  have hrun : ∀ p c, run s p c = run sB p c := run_of_waitRemote_idem s sB wt g1 g3
  have hload : load s n.path n.cid = load sB n.path n.cid := by
    rw [load_eq, load_eq, prologue_none s hmra, prologue_none sB (g5.trans hmra)]
    exact hrun _ _
  have hwalk : walk s (n :: post) = walk sB (n :: post) := by
    rw [walk, walk, hload]
  rw [hwalk]
  have hwftl : WF (n :: post) := WF.suffix (root :: pre') hwf
  have hsim := walk_refTravW rem (n :: post).length (n :: post) (Nat.le_refl _) sB dead' seen' w' g7 hwftl hne'
  rw [g4] at hsim
  have g8' : refTrav rem (root :: pre' ++ n :: post) s.store none =
      ((root :: pre').map (fun m => (m, true)) ++ (refTrav rem (n :: post) s.store dead').1,
       (refTrav rem (n :: post) s.store dead').2) := g8
  rw [g8']
  exact ⟨by rw [hsim.1], hsim.2⟩

/-- **C02.complete for a requestor with a locally loaded prefix (loader level).**
    The requestor holds the blocks of the first `N = |pre| ≥ 1` links `pre = root :: pre'` of the
    traversal and misses the next one, `n`.  It has loaded `pre` from its own store (recording them in
    the traversal record), goes online and asks the responder to skip `N` blocks.  The responder's
    honest response (`respItemsW … N` = `Responder.respondSpec` with `skip = N`: metadata for every
    link of its own traversal from the root, blocks only beyond the window and only once) arrives
    and ends.  Hypotheses: well-formed link tree (`WF`; the paths of the prefix are in depth-first
    order, `PathsDFS`), and the two known-finding classes are excluded — the responder holds the root
    (`root-not-found-abort`), and no link inside the skip window is held by the responder but not by
    the requestor (`skip-prefix-mismatch`; automatically true if the responder holds every block of
    the prefix).  Then `RetryLastLoad` — which first replays the traversal record against the head
    of the response — is the first load of a continuation whose results, appended to the `N` local
    loads, are exactly the reference traversal `refTrav` of the whole link tree over the two stores,
    and the final store holds exactly what `refTrav` says. -/
theorem complete_prefix (rem : Cid → Bool) (loc : List (Cid × Blk)) (root : LNode) (pre' : LT) (n : LNode) (post : LT)
    (hwf : WF (root :: pre' ++ n :: post))
    (hroot0 : root.path = []) (hne : ∀ m ∈ pre' ++ n :: post, m.path ≠ [])
    (hdfs : PathsDFS ((root :: pre').map (·.path)))
    (hheld : ∀ m ∈ root :: pre', holds loc m.cid = true) (hmiss : holds loc n.cid = false)
    (hremroot : rem root.cid = true)
    (hwin : ∀ it ∈ (respItemsW rem (root :: pre' ++ n :: post) [] (pre'.length + 1)).take (pre'.length + 1),
        it.action = .present → holds loc it.link = true) :
    let lt := root :: pre' ++ n :: post
    let items := respItemsW rem lt [] (pre'.length + 1)
    let s4 := afterResponseP loc (root :: pre') n (mdOf items) (blocksOfItems items)
    (walk ({ store := loc } : State) (root :: pre')).1 = (root :: pre').map (fun m => (m, true)) ∧
    (load (walk ({ store := loc } : State) (root :: pre')).2 n.path n.cid).2 =
        .done { data := none, err := some (.missing n.cid n.path), loc := true } ∧
    retry s4 = load { s4 with mra := none } n.path n.cid ∧
    (root :: pre').map (fun m => (m, true)) ++ (walk { s4 with mra := none } (n :: post)).1 = (refTrav rem lt loc none).1 ∧
    ∀ c, holds (walk { s4 with mra := none } (n :: post)).2.store c = holds (refTrav rem lt loc none).2 c := by
  intro lt items s4
  have hitems : ∃ it q', items = it :: q' := by
    simp only [items, lt]; rw [List.cons_append, respItemsW]; split <;> exact ⟨_, _, rfl⟩
  have hmd : (mdOf items).isEmpty = false := by
    obtain ⟨it, q', h⟩ := hitems; rw [h]; simp [mdOf]
  obtain ⟨hmissload, hs4⟩ := afterResponseP_eq loc (root :: pre') n (mdOf items) (blocksOfItems items) hheld hmiss hmd
  have hs4' : s4 = _ := hs4
  rw [honest_items_rebuiltW rem lt (pre'.length + 1)] at hs4'
  have hlocal := (local_walk loc (root :: pre') TRec.empty none hheld).1
  refine ⟨hlocal, hmissload, by rw [hs4']; rfl, ?_⟩
  let sA : State := { store := loc, record := recOfLT (root :: pre'), mra := none, unfollowed := [], isOpen := false,
                      ver := some (newVerifier (recOfLT (root :: pre'))), rq := { q := items }, pending := none }
  have hsA : ({ s4 with mra := none } : State) = sA := by rw [hs4']
  rw [hsA]
  exact replay_walk rem sA root pre' n post (pre'.length + 1) hwf hroot0 hne hdfs rfl rfl rfl rfl rfl rfl
    (Or.inl rfl) hheld hremroot hwin

/-- if the responder holds every block of the locally loaded prefix, its skip window is exactly
    that prefix: every entry in the window is held by the requestor -/
theorem win_of_prefix_held (rem : Cid → Bool) (loc : List (Cid × Blk)) : ∀ (pre tl : LT) (seen : List Cid),
    (∀ m ∈ pre, rem m.cid = true) → (∀ m ∈ pre, holds loc m.cid = true) →
    ∀ it ∈ (respItemsW rem (pre ++ tl) seen pre.length).take pre.length, holds loc it.link = true
  | [], _, _, _, _ => by intro it hit; simp at hit
  | m :: pre, tl, seen, hr, hh => by
    intro it hit
    rw [List.cons_append, respItemsW] at hit
    simp only [hr m (by simp), if_true, List.length_cons, List.take_succ_cons, List.mem_cons] at hit
    rcases hit with rfl | hit
    · exact hh m (by simp)
    · exact win_of_prefix_held rem loc pre tl (m.cid :: seen) (fun x hx => hr x (by simp [hx]))
        (fun x hx => hh x (by simp [hx])) it (by simpa using hit)

/-- `complete_prefix` when the responder holds every block of the requestor's local prefix (its
    first `N` traversed links are then exactly the requestor's `N` local loads) -/
theorem complete_prefix_held (rem : Cid → Bool) (loc : List (Cid × Blk)) (root : LNode) (pre' : LT) (n : LNode) (post : LT)
    (hwf : WF (root :: pre' ++ n :: post))
    (hroot0 : root.path = []) (hne : ∀ m ∈ pre' ++ n :: post, m.path ≠ [])
    (hdfs : PathsDFS ((root :: pre').map (·.path)))
    (hheld : ∀ m ∈ root :: pre', holds loc m.cid = true) (hmiss : holds loc n.cid = false)
    (hrem : ∀ m ∈ root :: pre', rem m.cid = true) :
    let lt := root :: pre' ++ n :: post
    let items := respItemsW rem lt [] (pre'.length + 1)
    let s4 := afterResponseP loc (root :: pre') n (mdOf items) (blocksOfItems items)
    (walk ({ store := loc } : State) (root :: pre')).1 = (root :: pre').map (fun m => (m, true)) ∧
    (load (walk ({ store := loc } : State) (root :: pre')).2 n.path n.cid).2 =
        .done { data := none, err := some (.missing n.cid n.path), loc := true } ∧
    retry s4 = load { s4 with mra := none } n.path n.cid ∧
    (root :: pre').map (fun m => (m, true)) ++ (walk { s4 with mra := none } (n :: post)).1 = (refTrav rem lt loc none).1 ∧
    ∀ c, holds (walk { s4 with mra := none } (n :: post)).2.store c = holds (refTrav rem lt loc none).2 c :=
  complete_prefix rem loc root pre' n post hwf hroot0 hne hdfs hheld hmiss (hrem root (by simp))
    (fun it hit _ => win_of_prefix_held rem loc (root :: pre') (n :: post) [] hrem hheld it hit)

end GS.Loader