import GS.Model.Cbor
import GSProofs.Lemmas.CborRoundtrip
/-!
Fuel of the CBOR decoder for ARBITRARY input: a successful `decVal` run strictly consumes input, and
any fuel of at least twice the number of consumed bytes gives the same result. Hence `decodeVal`
(fuel `2 * length + 2`) never fails for lack of fuel: whatever `decVal` can decode with some fuel,
`decodeVal` decodes, and more fuel changes nothing.
-/
namespace GS.Cbor

theorem takeN_len {k : Nat} {bs h r : Bytes} (e : takeN k bs = some (h, r)) :
    bs.length = k + r.length ∧ h.length = k := by
  unfold takeN at e
  split at e
  · simp only [Option.some.injEq, Prod.mk.injEq] at e
    obtain ⟨rfl, rfl⟩ := e
    simp only [List.length_drop, List.length_take]
    omega
  · cases e

theorem decodeArg_len {ai : Nat} {bs : Bytes} {n : Nat} {r : Bytes} (e : decodeArg ai bs = some (n, r)) :
    r.length ≤ bs.length := by
  unfold decodeArg at e
  split at e
  · simp only [Option.some.injEq, Prod.mk.injEq] at e; rw [← e.2]; exact Nat.le_refl _
  · split at e
    · split at e
      · rename_i h r' ht
        split at e
        · cases e
        · simp only [Option.some.injEq, Prod.mk.injEq] at e; rw [← e.2]; have := takeN_len ht; omega
      · cases e
    · split at e
      · split at e
        · rename_i h r' ht
          split at e
          · cases e
          · simp only [Option.some.injEq, Prod.mk.injEq] at e; rw [← e.2]; have := takeN_len ht; omega
        · cases e
      · split at e
        · split at e
          · rename_i h r' ht
            split at e
            · cases e
            · simp only [Option.some.injEq, Prod.mk.injEq] at e; rw [← e.2]; have := takeN_len ht; omega
          · cases e
        · split at e
          · split at e
            · rename_i h r' ht
              split at e
              · cases e
              · simp only [Option.some.injEq, Prod.mk.injEq] at e; rw [← e.2]; have := takeN_len ht; omega
            · cases e
          · cases e

/-- a head + payload: the rest is no longer than what followed the first byte -/
theorem strHead_len {ai : Nat} {rest : Bytes} {n : Nat} {r s r' : Bytes}
    (h1 : decodeArg ai rest = some (n, r)) (h2 : takeN n r = some (s, r')) : r'.length ≤ rest.length := by
  have := decodeArg_len h1
  have := takeN_len h2
  omega

theorem decUInt_len {ai : Nat} {rest : Bytes} {v : Val} {r : Bytes} (e : decUInt ai rest = some (v, r)) :
    r.length ≤ rest.length := by
  unfold decUInt at e
  split at e
  · rename_i n r0 h1
    simp only [Option.some.injEq, Prod.mk.injEq] at e; rw [← e.2]; exact decodeArg_len h1
  · cases e

theorem decNInt_len {ai : Nat} {rest : Bytes} {v : Val} {r : Bytes} (e : decNInt ai rest = some (v, r)) :
    r.length ≤ rest.length := by
  unfold decNInt at e
  split at e
  · rename_i n r0 h1
    split at e
    · simp only [Option.some.injEq, Prod.mk.injEq] at e; rw [← e.2]; exact decodeArg_len h1
    · split at e
      · cases e
      · simp only [Option.some.injEq, Prod.mk.injEq] at e; rw [← e.2]; exact decodeArg_len h1
  · cases e

theorem taggedBytes_rest {t : Nat} {s r' : Bytes} {v : Val} {r : Bytes} (e : taggedBytes t s r' = some (v, r)) :
    r = r' := by
  unfold taggedBytes at e
  split at e
  · split at e
    · split at e
      · simp only [Option.some.injEq, Prod.mk.injEq] at e; exact e.2.symm
      · cases e
    · cases e
  · cases e

theorem decBytes_len {tag : Option Nat} {ai : Nat} {rest : Bytes} {v : Val} {r : Bytes}
    (e : decBytes tag ai rest = some (v, r)) : r.length ≤ rest.length := by
  unfold decBytes at e
  split at e
  · rename_i n r0 h1
    split at e
    · cases e
    · split at e
      · rename_i s r' h2
        have hl := strHead_len h1 h2
        split at e
        · simp only [Option.some.injEq, Prod.mk.injEq] at e; rw [← e.2]; exact hl
        · rw [taggedBytes_rest e]; exact hl
      · cases e
  · cases e

theorem decText_len {ai : Nat} {rest : Bytes} {v : Val} {r : Bytes} (e : decText ai rest = some (v, r)) :
    r.length ≤ rest.length := by
  unfold decText at e
  split at e
  · rename_i n r0 h1
    split at e
    · cases e
    · split at e
      · rename_i s r' h2
        simp only [Option.some.injEq, Prod.mk.injEq] at e; rw [← e.2]; exact strHead_len h1 h2
      · cases e
  · cases e

theorem decFloat_len {k : Nat} {w : Nat → Nat} {rest : Bytes} {v : Val} {r : Bytes}
    (e : decFloat k w rest = some (v, r)) : r.length ≤ rest.length := by
  unfold decFloat at e
  split at e
  · rename_i h r0 ht
    split at e
    · simp only [Option.some.injEq, Prod.mk.injEq] at e; rw [← e.2]; have := takeN_len ht; omega
    · cases e
  · cases e

theorem decSimple_len {ai : Nat} {rest : Bytes} {v : Val} {r : Bytes} (e : decSimple ai rest = some (v, r)) :
    r.length ≤ rest.length := by
  unfold decSimple at e
  split at e
  · simp only [Option.some.injEq, Prod.mk.injEq] at e; rw [← e.2]; exact Nat.le_refl _
  · split at e
    · simp only [Option.some.injEq, Prod.mk.injEq] at e; rw [← e.2]; exact Nat.le_refl _
    · split at e
      · simp only [Option.some.injEq, Prod.mk.injEq] at e; rw [← e.2]; exact Nat.le_refl _
      · split at e
        · simp only [Option.some.injEq, Prod.mk.injEq] at e; rw [← e.2]; exact Nat.le_refl _
        · split at e
          · exact decFloat_len e
          · split at e
            · exact decFloat_len e
            · split at e
              · exact decFloat_len e
              · cases e

theorem decScalar_len {tag : Option Nat} {b : UInt8} {rest : Bytes} {v : Val} {r : Bytes}
    (e : decScalar tag b rest = some (v, r)) : r.length ≤ rest.length := by
  unfold decScalar at e
  split at e
  · exact decUInt_len e
  · split at e
    · exact decNInt_len e
    · split at e
      · exact decBytes_len e
      · split at e
        · exact decText_len e
        · exact decSimple_len e

theorem decKey_len {bs k r : Bytes} (e : decKey bs = some (k, r)) : r.length < bs.length := by
  unfold decKey at e
  simp only at e
  cases bs with
  | nil => simp at e
  | cons b rest =>
    simp only at e
    have key : ∀ (b' : UInt8) (rest' : Bytes),
        (if b'.toNat / 32 = 3 then
          match decodeArg (b'.toNat % 32) rest' with
          | some (n, r) => if n > maxStrLen then none else takeN n r
          | none => none
        else none) = some (k, r) → r.length ≤ rest'.length := by
      intro b' rest' h
      split at h
      · split at h
        · rename_i n r0 h1
          split at h
          · cases h
          · exact strHead_len h1 h
        · cases h
      · cases h
    split at e
    · split at e
      · rename_i t b' rest' h1
        split at e
        · cases e
        · have := key b' rest' e
          have := decodeArg_len h1
          simp only [List.length_cons] at *
          omega
      · cases e
    · have := key b rest e
      simp only [List.length_cons]
      omega

/-! ### the main statement -/

mutual
theorem decVal_fuel : ∀ (f d : Nat) (t : Option Nat) (bs : Bytes) (v : Val) (r : Bytes),
    decVal f d t bs = some (v, r) →
    r.length < bs.length ∧ ∀ f', 2 * (bs.length - r.length) ≤ f' + 1 → decVal f' d t bs = some (v, r)
  | 0, _, _, _, _, _, h => by simp [decVal] at h
  | _ + 1, _, _, [], _, _, h => by simp [decVal] at h
  | f + 1, d, t, b :: rest, v, r, h => by
    by_cases h4 : b.toNat / 32 = 4
    · -- list
      have hu : ∀ g, decVal (g + 1) d t (b :: rest) =
          (decodeArg (b.toNat % 32) rest).bind fun nr =>
            if d ≥ maxDepth then none else arrayK (decList g (d + 1) nr.1 nr.2) := by
        intro g; cases t <;> simp only [decVal, h4, if_true]
      rw [hu] at h
      cases h1 : decodeArg (b.toNat % 32) rest with
      | none => rw [h1] at h; simp at h
      | some nr =>
        obtain ⟨n, r0⟩ := nr
        rw [h1] at h
        simp only [Option.bind_some] at h
        split at h
        · cases h
        · rename_i hd
          cases hl : decList f (d + 1) n r0 with
          | none => rw [hl] at h; simp [arrayK] at h
          | some xr =>
            obtain ⟨xs, r'⟩ := xr
            rw [hl] at h
            simp only [arrayK, Option.some.injEq, Prod.mk.injEq] at h
            obtain ⟨rfl, rfl⟩ := h
            obtain ⟨ih1, ih2⟩ := decList_fuel f (d + 1) n r0 xs r' hl
            have := decodeArg_len h1
            refine ⟨by simp only [List.length_cons]; omega, ?_⟩
            intro f' hf'
            simp only [List.length_cons] at hf'
            obtain ⟨g, rfl⟩ : ∃ g, f' = g + 1 := ⟨f' - 1, by omega⟩
            rw [hu, h1]
            simp only [Option.bind_some, hd, if_false, ih2 g (by omega), arrayK]
    · by_cases h5 : b.toNat / 32 = 5
      · have hu : ∀ g, decVal (g + 1) d t (b :: rest) =
            (decodeArg (b.toNat % 32) rest).bind fun nr =>
              if d ≥ maxDepth then none else mapK (decKVs g (d + 1) nr.1 nr.2) := by
          intro g; cases t <;> simp only [decVal, h5, show ¬ (5 = 4) from by omega, if_true, if_false]
        rw [hu] at h
        cases h1 : decodeArg (b.toNat % 32) rest with
        | none => rw [h1] at h; simp at h
        | some nr =>
          obtain ⟨n, r0⟩ := nr
          rw [h1] at h
          simp only [Option.bind_some] at h
          split at h
          · cases h
          · rename_i hd
            cases hl : decKVs f (d + 1) n r0 with
            | none => rw [hl] at h; simp [mapK] at h
            | some xr =>
              obtain ⟨kvs, r'⟩ := xr
              rw [hl] at h
              simp only [mapK] at h
              split at h
              · cases h
              · rename_i hdup
                simp only [Option.some.injEq, Prod.mk.injEq] at h
                obtain ⟨rfl, rfl⟩ := h
                obtain ⟨ih1, ih2⟩ := decKVs_fuel f (d + 1) n r0 kvs r' hl
                have := decodeArg_len h1
                refine ⟨by simp only [List.length_cons]; omega, ?_⟩
                intro f' hf'
                simp only [List.length_cons] at hf'
                obtain ⟨g, rfl⟩ : ∃ g, f' = g + 1 := ⟨f' - 1, by omega⟩
                rw [hu, h1]
                simp only [Option.bind_some, hd, if_false, ih2 g (by omega), mapK, hdup]
                simp
      · by_cases h6 : b.toNat / 32 = 6
        · cases t with
          | some _ => simp [decVal, h4, h5, h6] at h
          | none =>
            have hu : ∀ g, decVal (g + 1) d none (b :: rest) =
                (decodeArg (b.toNat % 32) rest).bind fun tr =>
                  if tr.1 ≥ 9223372036854775808 then none else decVal g d (some tr.1) tr.2 := by
              intro g; simp only [decVal, h6, show ¬ (6 = 4) from by omega, show ¬ (6 = 5) from by omega, if_true, if_false]
            rw [hu] at h
            cases h1 : decodeArg (b.toNat % 32) rest with
            | none => rw [h1] at h; simp at h
            | some tr =>
              obtain ⟨tg, r0⟩ := tr
              rw [h1] at h
              simp only [Option.bind_some] at h
              split at h
              · cases h
              · rename_i hbig
                obtain ⟨ih1, ih2⟩ := decVal_fuel f d (some tg) r0 v r h
                have := decodeArg_len h1
                refine ⟨by simp only [List.length_cons]; omega, ?_⟩
                intro f' hf'
                simp only [List.length_cons] at hf'
                obtain ⟨g, rfl⟩ : ∃ g, f' = g + 1 := ⟨f' - 1, by omega⟩
                rw [hu, h1]
                simp only [Option.bind_some, hbig, if_false]
                exact ih2 g (by omega)
        · rw [decVal_scalar f d t b rest h4 h5 h6] at h
          have := decScalar_len h
          refine ⟨by simp only [List.length_cons]; omega, ?_⟩
          intro f' hf'
          simp only [List.length_cons] at hf'
          obtain ⟨g, rfl⟩ : ∃ g, f' = g + 1 := ⟨f' - 1, by omega⟩
          rw [decVal_scalar g d t b rest h4 h5 h6]
          exact h
theorem decList_fuel : ∀ (f d n : Nat) (bs : Bytes) (vs : List Val) (r : Bytes),
    decList f d n bs = some (vs, r) →
    r.length ≤ bs.length ∧ ∀ f', 2 * (bs.length - r.length) ≤ f' → decList f' d n bs = some (vs, r)
  | f, d, 0, bs, vs, r, h => by
    have h0 : ∀ g, decList g d 0 bs = some ([], bs) := by intro g; cases g <;> simp [decList]
    rw [h0] at h
    simp only [Option.some.injEq, Prod.mk.injEq] at h
    obtain ⟨rfl, rfl⟩ := h
    exact ⟨Nat.le_refl _, fun f' _ => h0 f'⟩
  | 0, _, _ + 1, _, _, _, h => by simp [decList] at h
  | f + 1, d, n + 1, bs, vs, r, h => by
    simp only [decList] at h
    split at h
    · rename_i v r1 hv
      split at h
      · rename_i vs' r2 hl
        simp only [Option.some.injEq, Prod.mk.injEq] at h
        obtain ⟨rfl, rfl⟩ := h
        obtain ⟨a1, a2⟩ := decVal_fuel f d none bs v r1 hv
        obtain ⟨b1, b2⟩ := decList_fuel f d n r1 vs' r2 hl
        refine ⟨by omega, ?_⟩
        intro f' hf'
        obtain ⟨g, rfl⟩ : ∃ g, f' = g + 1 := ⟨f' - 1, by omega⟩
        simp only [decList, a2 g (by omega), b2 g (by omega)]
      · cases h
    · cases h
theorem decKVs_fuel : ∀ (f d n : Nat) (bs : Bytes) (kvs : List (Bytes × Val)) (r : Bytes),
    decKVs f d n bs = some (kvs, r) →
    r.length ≤ bs.length ∧ ∀ f', 2 * (bs.length - r.length) ≤ f' → decKVs f' d n bs = some (kvs, r)
  | f, d, 0, bs, kvs, r, h => by
    have h0 : ∀ g, decKVs g d 0 bs = some ([], bs) := by intro g; cases g <;> simp [decKVs]
    rw [h0] at h
    simp only [Option.some.injEq, Prod.mk.injEq] at h
    obtain ⟨rfl, rfl⟩ := h
    exact ⟨Nat.le_refl _, fun f' _ => h0 f'⟩
  | 0, _, _ + 1, _, _, _, h => by simp [decKVs] at h
  | f + 1, d, n + 1, bs, kvs, r, h => by
    simp only [decKVs] at h
    split at h
    · rename_i k r0 hk
      split at h
      · rename_i v r1 hv
        split at h
        · rename_i kvs' r2 hl
          simp only [Option.some.injEq, Prod.mk.injEq] at h
          obtain ⟨rfl, rfl⟩ := h
          have c0 := decKey_len hk
          obtain ⟨a1, a2⟩ := decVal_fuel f d none r0 v r1 hv
          obtain ⟨b1, b2⟩ := decKVs_fuel f d n r1 kvs' r2 hl
          refine ⟨by omega, ?_⟩
          intro f' hf'
          obtain ⟨g, rfl⟩ : ∃ g, f' = g + 1 := ⟨f' - 1, by omega⟩
          simp only [decKVs, hk, a2 g (by omega), b2 g (by omega)]
        · cases h
      · cases h
    · cases h
end

/-- **fuel independence of `decodeVal`** for arbitrary input: any larger fuel gives the same result
(success or failure), so a failure of `decodeVal` is never a lack of fuel. -/
theorem decodeVal_fuel_indep (bs : Bytes) (F : Nat) (hF : 2 * bs.length + 2 ≤ F) :
    decVal F 0 none bs = decodeVal bs := by
  unfold decodeVal
  cases h1 : decVal (2 * bs.length + 2) 0 none bs with
  | some vr =>
    obtain ⟨v, r⟩ := vr
    obtain ⟨_, h⟩ := decVal_fuel _ 0 none bs v r h1
    exact h F (by omega)
  | none =>
    cases h2 : decVal F 0 none bs with
    | none => rfl
    | some vr =>
      obtain ⟨v, r⟩ := vr
      obtain ⟨_, h⟩ := decVal_fuel _ 0 none bs v r h2
      have := h (2 * bs.length + 2) (by omega)
      rw [h1] at this; cases this

/-- a successful `decodeVal` consumes at least one byte -/
theorem decodeVal_consumes {bs : Bytes} {v : Val} {r : Bytes} (h : decodeVal bs = some (v, r)) :
    r.length < bs.length :=
  (decVal_fuel _ 0 none bs v r h).1

end GS.Cbor
