import GS.Model.Requestor
import GSProofs.Lemmas.RequestorLocal
import GSProofs.C24
import GSProofs.Lemmas.LoaderKahn
/-!
# C02 — A single request retrieves every block that either peer can supply

> For a request to a cooperative responder, the requestor delivers, in order, exactly the nodes a
> local selector traversal visits when each link is resolved from the requestor's own store or from
> the responder's store along paths the responder can itself traverse.  A missing-block error is
> reported for exactly the links neither side can supply, and every block obtained from the
> responder is stored locally.

Status of this file (see `STATUS.md`):

* proved: `local_complete` (the requestor's own store suffices), `stored` (every block obtained from
  the responder is stored — for every message list), `still_on_iff` (the repaired path tracker:
  prefix, not length), the regression `pathtracker_sibling`, and two **counterexamples** showing that
  the full-strength statement is false of the code as it is (known findings `skip-prefix-mismatch`
  and `root-not-found-abort`), each an evaluation of the model that the correspondence check ties
  to the real code (`corpus/C02/requestor/known.cases`).
* order independence: the two local diamonds `kahn_done`, `kahn_parked` are proved (one ingest
  against one load), plus `kahn_counterexample_retry`; the statement over whole interleavings is not
  mechanised.
* NOT proved: `complete_partial` (statement at the end of the file).
-/
namespace GS.C02
open GS.Loader GS.Requestor

/-! ## the requestor's own store suffices -/

/-- **C02.local_complete.**  If the requestor holds every block of the traversal, it delivers every
    node of the link tree, in order, from its own store, reports no error and terminates — whatever
    the network does. -/
theorem local_complete (st : List (Cid × Blk)) (lt : LT) (u : Nat) (msgs : List Msg)
    (h : GS.C24.Covers st lt) :
    (exchange st lt u msgs).2 = localEvs lt 0 ∧ (exchange st lt u msgs).1.phase = .finished :=
  ⟨(GS.C24.silent st lt u msgs h).2.2.2, (GS.C24.silent st lt u msgs h).2.2.1⟩

/-! ## every block obtained from the responder is stored -/

/-- **C02.stored (loader level).**  A load answered with data that did not come from the local store
    (`Local = false`) has written exactly that block under the requested link; it is in the store
    afterwards.  Holds for every operation sequence (no honesty assumption). -/
theorem stored (s : Loader.State) (p : Path) (c : Cid) (h : Inv s) (r : Result) (b : Blk)
    (hr : (run s p c).2 = .done r) (hd : r.data = some b) (hl : r.loc = false) :
    storeGet (run s p c).1.store c = some b := by
  have := (run_spec s p c h).2
  rw [hr] at this
  cases this with
  | noWrite _ _ hdd => rw [(hdd b hd).1] at hl; cases hl
  | remote b' _ _ hs hd' _ _ =>
    rw [hd'] at hd; cases hd
    rw [hs]
    simp [storeGet]

/-! ## the path tracker (defect fixed in /repo 12093fb) -/

/-- **C02.still_on_iff.**  After the remote did not follow the link at path `q ≠ []`, a later load at
    path `p` is treated as "below the unfollowed link" (answered from the local store without
    consuming a remote item) iff `q` is a proper prefix of `p`.  (Before the repair the test compared
    lengths only: `q.length < p.length`.) -/
theorem still_on_iff (s : Loader.State) (p : Path) (hq : s.unfollowed ≠ []) :
    (stillOnUnfollowed s p).2 = true ↔ (s.unfollowed.isPrefixOf p = true ∧ s.unfollowed.length < p.length) := by
  unfold stillOnUnfollowed
  have hlen : (s.unfollowed.length == 0) = false := by
    cases hu : s.unfollowed with
    | nil => exact absurd hu hq
    | cons a rest => simp
  rw [if_neg (by simp [hlen])]
  by_cases h1 : p.length ≤ s.unfollowed.length
  · simp [h1]
  · by_cases h2 : s.unfollowed.isPrefixOf p = true
    · simp [h1, h2]; omega
    · simp [h1, h2]

/-- regression for the repaired defect (`corpus/C02/loader/pathtracker.cases`, first case): the
    remote reports the link at `0/1` missing and sends the block of the sibling link at `0/2/3`
    (longer path, not below `0/1`): that block is loaded from the remote and stored. -/
theorem pathtracker_sibling :
    (runOps {} [.load 9 [], .online true, .ingest [(9, .present), (1, .missing), (2, .present)] [(9, 9), (2, 2)],
                .retry, .load 1 [0, 1], .load 2 [0, 2, 3]]).2.map GS.C01.result =
      [some { data := none, err := some (.missing 9 []), loc := true }, none, none,
       some { data := some 9, err := none, loc := false, write := some (9, 9) },
       some { data := none, err := some (.missing 1 [0, 1]), loc := true },
       some { data := some 2, err := none, loc := false, write := some (2, 2) }] := by decide

/-! ## the full-strength statement is false of the code as it is: two counterexamples

Honest responder stream for a responder store `rem` and skip value `k` (what
`queryexecutor` + `peerLinkTracker` produce, property C03): one item per link the responder
traverses, `present` iff it holds the block, block attached iff present ∧ index > k ∧ first
occurrence.  The two examples below use streams of that form. -/

/-- **C02.counterexample (skip-prefix-mismatch).**  Link tree: root 6 with children 1 (at `0/1`, with
    two children 0) and 4 (at `4`).  The requestor holds 6, 1, 0; the responder holds 6, 4 and more
    but not 1.  The requestor loads 6, 1, 0, 0 locally and asks to skip 4 blocks; the responder's
    traversal is 6, 1 (missing), 4 — three links, all within the skipped window — so block 4 is
    "present, not sent".  The requestor reports
    link 4 missing although the responder holds it on a path it traverses
    (`corpus/C02/requestor/known.cases`, second case). -/
theorem counterexample_skip_prefix :
    let lt : LT := [⟨6, [], 0, 2, 0⟩, ⟨1, [0, 1], 1, 1, 1⟩, ⟨0, [0, 1, 2], 2, 1, 0⟩, ⟨0, [0, 1, 3], 2, 3, 2⟩, ⟨4, [4], 1, 1, 0⟩]
    let msgs : List Msg := [⟨true, true, 21, [(6, .present), (1, .missing), (4, .present)], []⟩]
    Ev.err (.load (.missing 4 [4])) ∈ (exchange [(0, 0), (1, 1), (6, 6)] lt 0 msgs).2 ∧
    sentNews (exchange [(0, 0), (1, 1), (6, 6)] lt 0 msgs).2 = [4] := by decide

/-- **C02.counterexample (root-not-found-abort).**  The requestor holds the root 5 but not its child
    2; the responder holds nothing and answers `RequestFailedContentNotFound` (34).  The request ends
    with that status error; the missing link at path `0` is never reported as a missing block
    (`corpus/C02/requestor/known.cases`, first case). -/
theorem counterexample_root_not_found :
    let lt : LT := [⟨5, [], 0, 1, 0⟩, ⟨2, [0], 1, 2, 1⟩]
    let msgs : List Msg := [⟨true, true, 14, [(5, .missing)], []⟩, ⟨true, true, 34, [], []⟩]
    (exchange [(5, 5)] lt 0 msgs).2 =
      [.block 5 [] true 1, .prog 1, .sentNew 1, .err (.status 34)] := by decide


/-! ## order independence of `IngestResponse` and loads (C02.kahn)

`Sim s t` (Lemmas/LoaderKahn.lean): `s` and `t` agree on everything except `lastConsumed` / its
`next` pointer (read only by `RetryLastLoad`) and the parked-load marker.

Full statement (NOT proved as a whole): for a traversal that never calls `RetryLastLoad` on a load
that used the remote queue (the executor outside pause/resume), the list of load results depends
only on the sequence of `IngestResponse` calls (and the moment of the closing `SetRemoteOnline(false)`
relative to them), not on how they interleave with the loads.  Proved below: the two local diamonds
from which it follows by induction over the interleaving — one ingest against one load that can be
answered, and one ingest against one load that has to wait.  `kahn_counterexample_retry` shows
that the restriction on `RetryLastLoad` is necessary (the code's linked list loses items there). -/

/-- **C02.kahn, load that can be answered.**  On an open loader whose queue tail is intact, if a load
    completes with result `r`, then ingesting a message first and loading afterwards gives the same
    result, and the two final states agree. -/
theorem kahn_done (s : Loader.State) (hopen : s.isOpen = true) (htail : s.rq.tailOn = true)
    (md : List (Cid × Action)) (bl : List (Cid × Blk)) (p : Path) (c : Cid) (r : Result)
    (hr : (run s p c).2 = .done r) :
    Sim (Loader.ingest (run s p c).1 md bl) (run (Loader.ingest s md bl) p c).1 ∧
    (run (Loader.ingest s md bl) p c).2 = .done r := by
  have hto := run_tail_open s p c
  rw [ingest_eq_addQ s md bl hopen htail,
      ingest_eq_addQ (run s p c).1 md bl (by rw [hto.2]; exact hopen) (by rw [hto.1]; exact htail)]
  exact (run_addQ s hopen _ p c).1 r hr

/-- **C02.kahn, load that has to wait.**  If the load parks (queue exhausted, response still open),
    then — whatever message arrives — waking the parked load after the ingest gives the same outcome
    and state as ingesting first and issuing the load afterwards. -/
theorem kahn_parked (s : Loader.State) (hopen : s.isOpen = true) (htail : s.rq.tailOn = true)
    (md : List (Cid × Action)) (bl : List (Cid × Blk)) (p : Path) (c : Cid)
    (hb : (run s p c).2 = .blocked) :
    Sim (run (Loader.ingest (run s p c).1 md bl) p c).1 (run (Loader.ingest s md bl) p c).1 ∧
    (run (Loader.ingest s md bl) p c).2 = (run (Loader.ingest (run s p c).1 md bl) p c).2 := by
  have hto := run_tail_open s p c
  rw [ingest_eq_addQ s md bl hopen htail,
      ingest_eq_addQ (run s p c).1 md bl (by rw [hto.2]; exact hopen) (by rw [hto.1]; exact htail)]
  exact (run_addQ s hopen _ p c).2 hb

/-- `RetryLastLoad` of a load that consumed the last queued item breaks order independence: the item
    that arrives between the load and its retry is lost, the one that arrived before the load is not
    (`remoteQueue.queue` links through `tail` only while `head != nil`).  Only reachable when a load
    that used the remote queue is retried (pause / resume). -/
theorem kahn_counterexample_retry :
    (runOps {} [.online true, .ingest [(0, .present)] [(0, 0)], .load 0 [], .ingest [(1, .present)] [(1, 1)],
                .retry, .load 1 [0]]).2.map GS.C01.result ≠
    (runOps {} [.online true, .ingest [(0, .present)] [(0, 0)], .ingest [(1, .present)] [(1, 1)], .load 0 [],
                .retry, .load 1 [0]]).2.map GS.C01.result := by decide

/-
## NOT proved: the general completeness theorem

  theorem complete_partial (lt : LT) (loc rem : store) (batching of the honest stream into messages)
      (hWF  : lt is the pre-order of a tree: depths/paths consistent)
      (hpre : the responder holds every block of the requestor's local DFS prefix, or more precisely
              the first N links of the responder's own traversal are that prefix (no window overrun),
              and holds the root if the requestor does)
      (hmsgs : msgs = the honest stream for (lt, rem, skip = |local prefix|) in any batching,
               last message terminal) :
    the events of `exchange loc lt 0 msgs` are exactly `refTrav lt loc rem`:
      loads answered with data = the nodes available from `loc` (growing by what was fetched) or from
      `rem` below nodes the responder followed, in order; `missing` errors exactly for the others;
      every block attached by the responder and needed is written.

The excluded regions are inhabited: `counterexample_skip_prefix`, `counterexample_root_not_found`.
What stands in for the proof today is the reference-traversal oracle over the real code
(streams `loader`, `requestor`, `exchange`; every 2-colouring of small DAGs in the thorough tier).
-/

end GS.C02
