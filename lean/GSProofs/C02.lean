import GS.Model.Requestor
import GSProofs.Lemmas.RequestorLocal
import GSProofs.C24
import GSProofs.Lemmas.LoaderKahn
import GSProofs.Lemmas.LoaderSched
import GSProofs.Lemmas.LoaderComplete
import GS.Model.Responder
/-!
# C02 — A single request retrieves every block that either peer can supply

> For a request to a cooperative responder, the requestor delivers, in order, exactly the nodes a
> local selector traversal visits when each link is resolved from the requestor's own store or from
> the responder's store along paths the responder can itself traverse.  A missing-block error is
> reported for exactly the links neither side can supply, and every block obtained from the
> responder is stored locally.

Status of this file (see `STATUS.md`):

* proved, full strength in their region: `local_complete` (the requestor's own store covers the
  traversal) and `complete_remote_start` (the requestor does not hold the root, so there is no
  locally loaded prefix: against the honest response the loader's answers are exactly the reference
  traversal `refTrav`, every fetched block stored) — for all well-formed link trees and stores;
  `stored`; `still_on_iff` / `pathtracker_sibling` (repaired path tracker);
  order independence `kahn_schedule` (whole interleavings) from `kahn_done` / `kahn_parked`.
* proved counterexamples to the full-strength statement, with the responder's messages computed by
  `Responder.respondSpec` (honest by construction): `counterexample_skip_prefix`,
  `counterexample_root_not_found` (known findings).
* NOT proved: the remaining region of `complete_partial` — requestor holds the root (non-empty local
  prefix), not covered, responder holds the root, no needed block inside the skipped window: needs
  the verifier replay over the traversal record (statement at the end of the file).
-/
namespace GS.C02
open GS.Loader GS.Requestor

/-! ## the requestor's own store suffices -/

/-- **C02.local_complete.**  If the requestor holds every block of the traversal, it delivers every
    node of the link tree, in order, from its own store, reports no error and terminates — whatever
    the network does. -/
theorem local_complete (st : List (Cid × Blk)) (lt : LT) (u : Nat) (msgs : List Msg)
    (h : GS.C24.Covers st lt) :
    (exchange st lt u msgs).2 = localEvs lt 0 ∧ (exchange st lt u msgs).1.phase = .finished :=
  ⟨(GS.C24.silent st lt u msgs h).2.2.2, (GS.C24.silent st lt u msgs h).2.2.1⟩

/-! ## every block obtained from the responder is stored -/

/-- **C02.stored (loader level).**  A load answered with data that did not come from the local store
    (`Local = false`) has written exactly that block under the requested link; it is in the store
    afterwards.  Holds for every operation sequence (no honesty assumption). -/
theorem stored (s : Loader.State) (p : Path) (c : Cid) (h : Inv s) (r : Result) (b : Blk)
    (hr : (run s p c).2 = .done r) (hd : r.data = some b) (hl : r.loc = false) :
    storeGet (run s p c).1.store c = some b := by
  have := (run_spec s p c h).2
  rw [hr] at this
  cases this with
  | noWrite _ _ hdd => rw [(hdd b hd).1] at hl; cases hl
  | remote b' _ _ hs hd' _ _ =>
    rw [hd'] at hd; cases hd
    rw [hs]
    simp [storeGet]

/-! ## the path tracker (defect fixed in /repo 12093fb) -/

/-- **C02.still_on_iff.**  After the remote did not follow the link at path `q ≠ []`, a later load at
    path `p` is treated as "below the unfollowed link" (answered from the local store without
    consuming a remote item) iff `q` is a proper prefix of `p`.  (Before the repair the test compared
    lengths only: `q.length < p.length`.) -/
theorem still_on_iff (s : Loader.State) (p : Path) (hq : s.unfollowed ≠ []) :
    (stillOnUnfollowed s p).2 = true ↔ (s.unfollowed.isPrefixOf p = true ∧ s.unfollowed.length < p.length) := by
  unfold stillOnUnfollowed
  have hlen : (s.unfollowed.length == 0) = false := by
    cases hu : s.unfollowed with
    | nil => exact absurd hu hq
    | cons a rest => simp
  rw [if_neg (by simp [hlen])]
  by_cases h1 : p.length ≤ s.unfollowed.length
  · simp [h1]
  · by_cases h2 : s.unfollowed.isPrefixOf p = true
    · simp [h1, h2]; omega
    · simp [h1, h2]

/-- regression for the repaired defect (`corpus/C02/loader/pathtracker.cases`, first case): the
    remote reports the link at `0/1` missing and sends the block of the sibling link at `0/2/3`
    (longer path, not below `0/1`): that block is loaded from the remote and stored. -/
theorem pathtracker_sibling :
    (runOps {} [.load 9 [], .online true, .ingest [(9, .present), (1, .missing), (2, .present)] [(9, 9), (2, 2)],
                .retry, .load 1 [0, 1], .load 2 [0, 2, 3]]).2.map GS.C01.result =
      [some { data := none, err := some (.missing 9 []), loc := true }, none, none,
       some { data := some 9, err := none, loc := false, write := some (9, 9) },
       some { data := none, err := some (.missing 1 [0, 1]), loc := true },
       some { data := some 2, err := none, loc := false, write := some (2, 2) }] := by decide

/-! ## the full-strength statement is false of the code as it is: two counterexamples

The responder's messages below are not hand-written: they are `ofSpec (respondSpec …)`, the output
of the responder specification to which the operational responder model is proved equal for every
batching (`C03.refines`), for the given link tree, responder store and requested skip value. -/

/-- the wire message carrying a whole response of the responder specification -/
def ofSpec (r : List GS.Responder.Item × GS.Responder.Status) : Msg :=
  ⟨true, true, r.2.code,
   r.1.map (fun it => (it.cid, if it.present then Action.present else Action.missing)),
   r.1.filterMap (fun it => if it.block then some (it.cid, it.cid) else none)⟩

/-- **C02.counterexample (skip-prefix-mismatch).**  Link tree: root 6 with children 1 (at `0/1`, with
    two children 0) and 4 (at `4`).  The requestor holds 6, 1, 0; the responder holds 2..6 but not 1.
    The requestor loads 6, 1, 0, 0 locally and asks to skip 4 blocks; the responder's traversal is
    6, 1 (missing), 4 — all within the skipped window — so block 4 is "present, not sent".  The
    requestor reports link 4 missing although the responder holds it on a path it traverses
    (`corpus/C02/requestor/known.cases`, second case). -/
theorem counterexample_skip_prefix :
    let lt : LT := [⟨6, [], 0, 2, 0⟩, ⟨1, [0, 1], 1, 1, 1⟩, ⟨0, [0, 1, 2], 2, 1, 0⟩, ⟨0, [0, 1, 3], 2, 3, 2⟩, ⟨4, [4], 1, 1, 0⟩]
    let tree : GS.Responder.LT := .node 6 [.node 1 [.node 0 [], .node 0 []], .node 4 []]
    let resp := GS.Responder.respondSpec tree (fun c => [2, 3, 4, 5, 6].contains c) { skip := 4 } (fun _ => false)
    let evs := (exchange [(0, 0), (1, 1), (6, 6)] lt 0 [ofSpec resp]).2
    sentNews evs = [4] ∧ Ev.err (.load (.missing 4 [4])) ∈ evs := by decide

/-- **C02.counterexample (root-not-found-abort).**  The requestor holds the root 5 but not its child
    2; the responder holds nothing: its response is one `missing` entry for the root with status
    `RequestFailedContentNotFound`.  The request ends with that status error; the link at path `0`
    is never reported as a missing block (`corpus/C02/requestor/known.cases`, first case). -/
theorem counterexample_root_not_found :
    let lt : LT := [⟨5, [], 0, 1, 0⟩, ⟨2, [0], 1, 2, 1⟩]
    let resp := GS.Responder.respondSpec (.node 5 [.node 2 []]) (fun _ => false) { skip := 1 } (fun _ => false)
    (exchange [(5, 5)] lt 0 [ofSpec resp]).2 =
      [.block 5 [] true 1, .prog 1, .sentNew 1, .err (.status 34)] := by decide

/-! ## order independence of `IngestResponse` and loads (C02.kahn)

`Sim s t` (Lemmas/LoaderKahn.lean): `s` and `t` agree on everything except `lastConsumed` / its
`next` pointer (read only by `RetryLastLoad`) and the parked-load marker.

Proved: the two local diamonds (`kahn_done`, `kahn_parked`) and, from them, `kahn_schedule` over
whole interleavings of message deliveries and client steps, for any deterministic traversal client
that never calls `RetryLastLoad` on a load that used the remote queue (the executor outside
pause/resume).  Not covered: the position of the closing `SetRemoteOnline(false)` relative to the
loads (it is not an event of these schedules).  `kahn_counterexample_retry` shows that the
restriction on `RetryLastLoad` is necessary (the code's linked list loses items there). -/

/-- **C02.kahn, load that can be answered.**  On an open loader whose queue tail is intact, if a load
    completes with result `r`, then ingesting a message first and loading afterwards gives the same
    result, and the two final states agree. -/
theorem kahn_done (s : Loader.State) (hopen : s.isOpen = true) (htail : s.rq.tailOn = true)
    (md : List (Cid × Action)) (bl : List (Cid × Blk)) (p : Path) (c : Cid) (r : Result)
    (hr : (run s p c).2 = .done r) :
    Sim (Loader.ingest (run s p c).1 md bl) (run (Loader.ingest s md bl) p c).1 ∧
    (run (Loader.ingest s md bl) p c).2 = .done r := by
  have hto := run_tail_open s p c
  rw [ingest_eq_addQ s md bl hopen htail,
      ingest_eq_addQ (run s p c).1 md bl (by rw [hto.2]; exact hopen) (by rw [hto.1]; exact htail)]
  exact (run_addQ s hopen _ p c).1 r hr

/-- **C02.kahn, load that has to wait.**  If the load parks (queue exhausted, response still open),
    then — whatever message arrives — waking the parked load after the ingest gives the same outcome
    and state as ingesting first and issuing the load afterwards. -/
theorem kahn_parked (s : Loader.State) (hopen : s.isOpen = true) (htail : s.rq.tailOn = true)
    (md : List (Cid × Action)) (bl : List (Cid × Blk)) (p : Path) (c : Cid)
    (hb : (run s p c).2 = .blocked) :
    Sim (run (Loader.ingest (run s p c).1 md bl) p c).1 (run (Loader.ingest s md bl) p c).1 ∧
    (run (Loader.ingest s md bl) p c).2 = (run (Loader.ingest (run s p c).1 md bl) p c).2 := by
  have hto := run_tail_open s p c
  rw [ingest_eq_addQ s md bl hopen htail,
      ingest_eq_addQ (run s p c).1 md bl (by rw [hto.2]; exact hopen) (by rw [hto.1]; exact htail)]
  exact (run_addQ s hopen _ p c).2 hb

/-- `RetryLastLoad` of a load that consumed the last queued item breaks order independence: the item
    that arrives between the load and its retry is lost, the one that arrived before the load is not
    (`remoteQueue.queue` links through `tail` only while `head != nil`).  Only reachable when a load
    that used the remote queue is retried (pause / resume). -/
theorem kahn_counterexample_retry :
    (runOps {} [.online true, .ingest [(0, .present)] [(0, 0)], .load 0 [], .ingest [(1, .present)] [(1, 1)],
                .retry, .load 1 [0]]).2.map GS.C01.result ≠
    (runOps {} [.online true, .ingest [(0, .present)] [(0, 0)], .ingest [(1, .present)] [(1, 1)], .load 0 [],
                .retry, .load 1 [0]]).2.map GS.C01.result := by decide

/-- **C02.kahn (whole interleavings).**  A traversal client — any function from the load results
    so far to the next load — runs against a loader whose queue tail is intact while response
    messages arrive.  Every valid schedule (the client steps only while no load of its is parked)
    ends, up to the retry bookkeeping of the queue, in the same loader state and with the same list
    of load results as the schedule that delivers the same messages in the same order first and lets
    the client take the same number of steps afterwards: the result depends only on the sequence of
    remote messages, not on the interleaving. -/
theorem kahn_schedule (next : Client) (evs : List Evt) (c : Cfg) (hg : Good c) (hv : Valid next c evs) :
    Eqv (runE next c evs) (runE next c (msgsOf evs ++ List.replicate (ticksOf evs) .tick)) :=
  GS.Loader.kahn_schedule next evs c hg hv

/-- two valid schedules with the same messages (in order) and the same number of client steps agree -/
theorem kahn_same_messages (next : Client) (e1 e2 : List Evt) (c : Cfg) (hg : Good c)
    (h1 : Valid next c e1) (h2 : Valid next c e2) (hm : msgsOf e1 = msgsOf e2) (ht : ticksOf e1 = ticksOf e2) :
    Eqv (runE next c e1) (runE next c e2) := by
  have a := GS.Loader.kahn_schedule next e1 c hg h1
  have b := GS.Loader.kahn_schedule next e2 c hg h2
  rw [hm, ht] at a
  exact Eqv.trans a b.symm

/-! ## completeness against the honest responder -/

/-- **C02.complete, no locally loaded prefix** (`Lemmas/LoaderComplete.lean`): see
    `GS.Loader.complete_remote_start`.  `respItems rem lt []` is the honest response for skip 0
    (the definition of `Responder.respondSpec` transcribed to the pre-order link tree: one entry per
    link the responder's own traversal visits, block attached to the first present occurrence);
    `refTrav rem lt loc none` is the reference traversal: a link is available iff the requestor's
    store (growing by what it fetched) holds it, or the responder holds it and followed every
    ancestor. -/
theorem complete_remote_start (rem : Cid → Bool) (loc : List (Cid × Blk)) (root : LNode) (rest : LT)
    (hwf : WF (root :: rest)) (hne : ∀ m ∈ rest, m.path ≠ []) (hroot : holds loc root.cid = false) :
    let items := respItems rem (root :: rest) []
    let s4 := afterResponse loc root (mdOf items) (blocksOfItems items)
    Loader.retry s4 = Loader.load { s4 with mra := none } root.path root.cid ∧
    (walk { s4 with mra := none } (root :: rest)).1 = (refTrav rem (root :: rest) loc none).1 ∧
    ∀ c, holds (walk { s4 with mra := none } (root :: rest)).2.store c =
         holds (refTrav rem (root :: rest) loc none).2 c :=
  GS.Loader.complete_remote_start rem loc root rest hwf hne hroot

/-- non-vacuity of `complete_remote_start`: a well-formed tree with an inline sibling, a gap at the
    responder and a block only the requestor holds; and `respItems` agrees with `respondSpec` on it -/
example :
    let lt : LT := [⟨9, [], 0, 0, 0⟩, ⟨1, [0, 1], 1, 0, 0⟩, ⟨3, [0, 1, 0], 2, 0, 0⟩, ⟨2, [0, 2, 3], 1, 0, 0⟩]
    WF lt ∧ (∀ m ∈ lt.tail, m.path ≠ []) ∧ holds [(3, 3)] 9 = false ∧
    (refTrav (fun c => [9, 2].contains c) lt [(3, 3)] none).1.map (fun x => (x.1.cid, x.2)) =
      [(9, true), (1, false), (2, true)] ∧
    (respItems (fun c => [9, 2].contains c) lt []).map (fun it => (it.link, it.action == .present, it.block.isSome)) =
      (GS.Responder.respondSpec (.node 9 [.node 1 [.node 3 []], .node 2 []]) (fun c => [9, 2].contains c) {} (fun _ => false)).1.map
        (fun it => (it.cid, it.present, it.block)) := by
  refine ⟨?_, by decide, by decide, ?_, ?_⟩
  · simp only [WF, subOf, skipSub]
    decide
  · simp [refTrav.eq_def, holds, storeGet, dead1, skipSub]
  · simp [respItems, skipSub]
    decide

/-
## NOT proved: the remaining region of the completeness theorem

  theorem complete_partial (lt : LT) (loc rem : store) (hWF : WF lt)
      (hcls1 : ¬ (requestor holds the root ∧ responder lacks the root ∧ loc does not cover lt))   -- class root-not-found-abort
      (hcls2 : no link among the first N = |local prefix| links of the responder's own traversal lies
               beyond the requestor's local prefix, is held by the responder and not by the requestor)
                                                                                      -- class skip-prefix-mismatch
      (hmsgs : msgs = the honest response `respondSpec` for (lt, rem, skip = N), in any batching) :
    the loads of the exchange are exactly `refTrav lt loc rem`, missing-block errors exactly for its
    undelivered links, every block obtained from the responder stored.

Proved instances: `local_complete` (loc covers lt) and `complete_remote_start` (N = 0: the requestor
lacks the root; includes the case that the responder lacks it too).  Open: N > 0 — after the local
prefix the loader re-verifies the traversal record against the response (`traversalrecord.Verifier`);
the proof needs the correspondence between the path trie built by `RecordNextStep` and the
pre-order link tree.  The excluded classes are inhabited: `counterexample_skip_prefix`,
`counterexample_root_not_found`.  What stands in for the proof in the open region is the
reference-traversal oracle over the real code (streams `loader`, `requestor`, `exchange`; every
2-colouring of small DAGs in the thorough tier).
-/

end GS.C02
