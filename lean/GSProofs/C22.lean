import GS.Model.Panics
import GSProofs.Lemmas.PanicsRun
import GSProofs.Lemmas.PanicsResCalm
import GSProofs.Lemmas.PanicsResSlots
import GSProofs.Lemmas.PanicsResLeak
import GSProofs.Lemmas.PanicsResClean
import GSProofs.Lemmas.PanicsResAbs
/-!
# C22 - A panic in per-request code fails only that request

Property sentence: *"A panic raised while executing one request, in a codec, node reifier, prototype
chooser, selector, or a storage read or write function, is turned into an error for that request and
passed to the configured panic callback; the process keeps running and other requests are
unaffected."*  Quantifier: *panics injected at any block of a request, in any of the listed
user-supplied functions, on the requestor or the responder.*

How the sentence is split:

* `sites` - about the **current source**: every call site of a listed kind of user function, on
  either side, lies under a recover frame.  The statement ranges over the generated table
  `GS.Generated.PanicSites.table` (translator `translate/panicsites`, regenerated from the Go source
  on every check run); `decide` over the whole finite table is a proof.
* `isolation_resources`, `later_unaffected`, `slots_returned`, `later_can_start`, `leak_counterexample` -
  second layer (`GS.Model.PanicsRes`): worker slots, per-peer work in progress, table and tracker
  entries, the traverser's mutex, with the clean-up path regenerated from the two `ExecuteTask`s
  (`GS.Generated.PanicCleanup`); see the section at the end of this file.
* `isolation` - first layer, "no crash + independent outcomes" only: about the **model** (`GS.Model.Panics`), for all request lists, scripts, schedules,
  injection points: given recover frames at all listed sites, turning any call of any request into a
  panic never kills the process, leaves what is observable of every other request exactly as in the
  fault-free run, and gives the faulted request the RecoveredPanicErr of that call plus exactly one
  panic-callback invocation (as soon as the schedule lets it reach the call).
* `isolation_table` - both together: `isolation` instantiated with the frames read off the
  generated table; no hypothesis about frames is left.
* `handler_total` - about the **current source** of `panics.MakeHandler` (statement list regenerated
  into `GS.Generated.PanicHandler.steps`, interpreted by `GS.Panics.runHandler`; the model's
  recovered-panic step `GS.Panics.handled` is defined through it): for EVERY non-nil panic value - of
  any type: string, error, runtime error, struct … - the handler calls the callback (when one is set)
  exactly once with that very value and returns a RecoveredPanicErr carrying that very value; for
  recover() = nil it returns nil and calls nothing.
* `unrecovered_counterexample` - the hypothesis of `isolation` is needed: in the model one site
  without a frame takes every request down.  (This was the state of go-graphsync before the fix
  recorded in known_findings.json: storage read/write functions ran on the task-worker goroutines
  without any recover frame.)

That the Go runtime behaves as the model says (recover semantics, process death) and that the table
is complete is the tie: translator + fault-injection correspondence (`harness/panics`), see
checks/C22.json.
-/
namespace GS.C22
open GS.Panics GS.Generated.PanicSites

/-- Bool form of `sites`, evaluated over the whole generated table. -/
def sitesOK (t : List Site) : Bool :=
  t.all (fun s => !(listedKinds.contains s.kind) || s.recovered)

/-- **Every call site of a listed user function is under a recover frame** - "a panic raised … in a
codec, node reifier, prototype chooser, selector, or a storage read or write function" can only be
raised at one of these sites, on the requestor or the responder.  The quantifier is the complete,
finite, generated table, so `decide` is a proof (not a sample). -/
theorem sites : ∀ s ∈ table, s.kind ∈ listedKinds → s.recovered = true := by
  have h : sitesOK table = true := by decide
  intro s hs hk
  have := (List.all_eq_true.mp h) s hs
  simp only [Bool.or_eq_true, Bool.not_eq_true'] at this
  rcases this with h1 | h1
  · have : listedKinds.contains s.kind = true := List.contains_iff_mem.mpr hk
    rw [this] at h1; cases h1
  · exact h1

/-- The table is not trivially empty: every listed kind has a site on the requestor, and every kind
that exists on the responder (no storage writes there) has one on the responder. -/
theorem sites_nonvacuous :
    (∀ k ∈ listedKinds, hasSite table .requestor k = true) ∧
    (∀ k ∈ [Kind.codec, .reifier, .chooser, .selector, .storageRead, .storageReadStream],
        hasSite table .responder k = true) := by decide

/-- **The panic handler treats every panic value alike** - "is turned into an error for that request
and passed to the configured panic callback", whatever was passed to `panic`.  Stated about the
statement list generated from `panics.MakeHandler`; `α` is the type of panic values, universally
quantified (the handler cannot look into the value), `cbSet` says whether a callback is configured.
Second part: no panic (recover() returned nil) is not turned into an error.  Third part: this is what
the request model uses for a recovered panic (`GS.Panics.handled`). -/
theorem handler_total :
    (∀ (α : Type) (cbSet : Bool) (v : α),
        runHandler cbSet (some v) = { ret := .recovered (some v), cbs := if cbSet then [some v] else [] }) ∧
    (∀ (α : Type) (cbSet : Bool), runHandler cbSet (none : Option α) = { ret := .nil, cbs := [] }) ∧
    (∀ sd k, handled sd k = (.panicErr sd k, .cb sd k)) :=
  ⟨fun _ cbSet v => runHandler_total cbSet v, fun _ cbSet => runHandler_nil cbSet, handled_eq⟩

/-- frames read off a table in which all listed sites are recovered cover all listed kinds -/
theorem framesOf_listed (t : List Site) (h : ∀ s ∈ t, s.kind ∈ listedKinds → s.recovered = true)
    (sd : Side) (k : Kind) (hk : k ∈ listedKinds) : framesOf t sd k = true := by
  unfold framesOf
  rw [List.all_eq_true]
  intro s hs
  by_cases hm : (sideEq s.side sd && kindEq s.kind k) = true
  · have hkk : s.kind = k := by
      simp only [Bool.and_eq_true, kindEq, decide_eq_true_eq] at hm; exact hm.2
    have := h s hs (by rw [hkk]; exact hk)
    simp [this]
  · simp [hm]

/-- **No crash + independent outcomes** (first layer; the requests of this model share nothing but the
`crashed` flag, so item 2 below says no more than "not crashed" - what a recovered panic may keep
HOLDING to the detriment of other requests is the subject of `isolation_resources`,
`later_unaffected`, `slots_returned` further down).  Let the frames cover every listed kind.  Take any
list of requests whose calls are of listed kinds, any schedule, any request `i` and any position
`pos` in its script, and turn that call into a panic.  Then, compared with the unfaulted run under the
same schedule:

1. "the process keeps running": the system is not crashed;
2. "other requests are unaffected": what is observable of every other request `j` (its state and the
   panic callbacks concerning it) is identical;
3. "turned into an error for that request and passed to the configured panic callback": if the calls
   before `pos` return normally and the schedule gives request `i` more than `pos` steps, request `i`
   has terminated with the RecoveredPanicErr of exactly that call and the callback log holds exactly
   one entry for it. -/
theorem isolation (fr : Frames) (hfr : ∀ sd k, k ∈ listedKinds → fr sd k = true)
    (reqs : List Req) (hk : ∀ r ∈ reqs, ∀ c ∈ r.script, c.kind ∈ listedKinds)
    (sched : List Nat) (i pos : Nat) (r : Req) (hi : reqs[i]? = some r) :
    let faulty := reqs.set i (injectReq r pos)
    (run fr (init faulty) sched).crashed = false ∧
    (run fr (init reqs) sched).crashed = false ∧
    (∀ j, j ≠ i → view (run fr (init faulty) sched) j = view (run fr (init reqs) sched) j) ∧
    (∀ c, r.out = .running → r.script[pos]? = some c → (∀ c' ∈ r.script.take pos, c'.res = .ok) →
        pos < sched.count i →
        view (run fr (init faulty) sched) i =
          some (some { script := [], out := .panicErr c.side c.kind }, [(i, c.side, c.kind)])) := by
  intro faulty
  have hlt : i < reqs.length := by
    rcases List.getElem?_eq_some_iff.mp hi with ⟨h, _⟩; exact h
  -- every script (faulted or not) is safe: all its calls are of listed kinds, which have frames
  have hsafe : ∀ (j : Nat) (q : Req), reqs[j]? = some q → safeScript fr q.script := by
    intro j q hq c hc _
    exact hfr _ _ (hk q (List.mem_iff_getElem?.mpr ⟨j, hq⟩) c hc)
  have hsafe' : ∀ (j : Nat) (q : Req), faulty[j]? = some q → safeScript fr q.script := by
    intro j q hq
    by_cases hij : i = j
    · subst hij
      have : q = injectReq r pos := by
        have h := hq
        simp only [faulty, List.getElem?_set_self hlt] at h
        exact (Option.some.inj h).symm
      subst this
      intro c hc _
      obtain ⟨c0, hc0, _, hkind⟩ := mem_injectScript hc
      have := hk r (List.mem_iff_getElem?.mpr ⟨i, hi⟩) c0 hc0
      exact hfr _ _ (by rw [hkind]; exact this)
    · have : faulty[j]? = reqs[j]? := by simp [faulty, List.getElem?_set_ne hij]
      exact hsafe j q (this ▸ hq)
  refine ⟨(run_decompose fr sched (init faulty) rfl hsafe').1,
          (run_decompose fr sched (init reqs) rfl hsafe).1, ?_, ?_⟩
  · intro j hji
    rw [view_run fr faulty sched hsafe' j, view_run fr reqs sched hsafe j]
    have : faulty[j]? = reqs[j]? := by simp [faulty, List.getElem?_set_ne (Ne.symm hji)]
    rw [this]
  · intro c hrun hc hok hn
    rw [view_run fr faulty sched hsafe' i]
    have hfi : faulty[i]? = some (injectReq r pos) := by simp [faulty, List.getElem?_set_self hlt]
    have hck : c.kind ∈ listedKinds :=
      hk r (List.mem_iff_getElem?.mpr ⟨i, hi⟩) c (List.mem_iff_getElem?.mpr ⟨pos, hc⟩)
    have hinj : injectReq r pos = { script := injectScript r.script pos, out := .running } := by
      simp [injectReq, hrun]
    rw [hfi, hinj]
    simp only [Option.map_some]
    rw [runReq_inject fr r.script pos (sched.count i) c hc hok hn (hfr _ _ hck)]
    simp [tag]

/-- **C22 for the current source**: `isolation` with the recover frames read off the generated site
table - no assumption about frames remains, `sites` discharges it.  So for the table the translator
extracts from the present go-graphsync tree: a panic at any call of any listed user function, at
any block, in any request, on either side, under any interleaving, fails exactly that request (error +
one callback), the system survives and all other requests are observably unaffected. -/
theorem isolation_table
    (reqs : List Req) (hk : ∀ r ∈ reqs, ∀ c ∈ r.script, c.kind ∈ listedKinds)
    (sched : List Nat) (i pos : Nat) (r : Req) (hi : reqs[i]? = some r) :
    let fr := framesOf table
    let faulty := reqs.set i (injectReq r pos)
    (run fr (init faulty) sched).crashed = false ∧
    (run fr (init reqs) sched).crashed = false ∧
    (∀ j, j ≠ i → view (run fr (init faulty) sched) j = view (run fr (init reqs) sched) j) ∧
    (∀ c, r.out = .running → r.script[pos]? = some c → (∀ c' ∈ r.script.take pos, c'.res = .ok) →
        pos < sched.count i →
        view (run fr (init faulty) sched) i =
          some (some { script := [], out := .panicErr c.side c.kind }, [(i, c.side, c.kind)])) :=
  isolation (framesOf table) (fun sd k hk' => framesOf_listed table sites sd k hk') reqs hk sched i pos r hi

/-! ### Non-vacuity and the need for the hypothesis (concrete instances: these are tests of the
statements, labelled as such, not part of the proof obligations) -/

/-- a two-block target request and a sibling, in the shape the driver builds them -/
def exTarget : Req :=
  { script := [⟨.requestor, .chooser, .ok⟩, ⟨.requestor, .storageRead, .ok⟩, ⟨.responder, .storageRead, .ok⟩,
               ⟨.requestor, .storageWriteCommitter, .ok⟩, ⟨.requestor, .codec, .ok⟩], out := .running }
def exSibling : Req :=
  { script := [⟨.requestor, .chooser, .ok⟩, ⟨.responder, .storageRead, .ok⟩, ⟨.requestor, .codec, .ok⟩],
    out := .running }
def exSched : List Nat := [1, 0, 0, 1, 0, 0, 1, 0, 1, 0, 0, 1]

/-- Non-vacuity of `isolation_table`: its hypotheses hold for a concrete non-trivial system (all
calls of listed kinds, the faulted call reached), and the conclusion is the interesting one: target
failed with the panic error of the responder's storage read, one callback, sibling completed. -/
example :
    (∀ r ∈ [exTarget, exSibling], ∀ c ∈ r.script, c.kind ∈ listedKinds) ∧
    [exTarget, exSibling][0]? = some exTarget ∧ exTarget.script[2]? = some ⟨.responder, .storageRead, .ok⟩ ∧
    2 < exSched.count 0 ∧
    view (run (framesOf table) (init ([exTarget, exSibling].set 0 (injectReq exTarget 2))) exSched) 0 =
      some (some { script := [], out := .panicErr .responder .storageRead }, [(0, .responder, .storageRead)]) ∧
    view (run (framesOf table) (init ([exTarget, exSibling].set 0 (injectReq exTarget 2))) exSched) 1 =
      some (some { script := [], out := .completed }, []) := by
  refine ⟨?_, by decide, by decide, by decide, by decide, by decide⟩
  intro r hr c hc
  simp only [List.mem_cons, List.mem_nil_iff, or_false] at hr
  rcases hr with rfl | rfl <;> revert c <;> decide

/-- frames as they were before the fix: only the traverser goroutine had a recover frame -/
def framesBeforeFix : Frames := fun _ k =>
  match k with
  | .codec | .reifier | .chooser | .selector => true
  | _ => false

/-- **The hypothesis of `isolation` is needed**: with a listed site outside any recover frame (here
the frames of go-graphsync before the fix) the same injection kills the process, and with it the
sibling request, which no longer has any observable outcome. -/
theorem unrecovered_counterexample :
    let s := run framesBeforeFix (init ([exTarget, exSibling].set 0 (injectReq exTarget 2))) exSched
    s.crashed = true ∧ view s 0 = none ∧ view s 1 = none ∧
    view (run framesBeforeFix (init [exTarget, exSibling]) exSched) 1 =
      some (some { script := [], out := .completed }, []) := by decide

/-- What the table says about the selector *spec* node handed to `Request` (not one of the listed
kinds - a node, not a function; see STATUS.md): its second parse runs on the request manager's
goroutine without a recover frame.  Recorded so that it stays visible. -/
example : ∃ s ∈ table, s.kind = .selectorSpec ∧ s.recovered = false := by decide

/-! ## Second layer: the resources a failed request shares with the others

Model `GS.Panics.Res`: one node (requestor or responder) with `workers` task workers, a per-peer cap on
work in progress, the request/response table, tracker records and the traverser's state mutex.  The
clean-up a failing request runs is the statement list following the recovered traversal call in
`ExecuteTask`, regenerated from the source (`GS.Generated.PanicCleanup`), and the traverser's recover
frame likewise. -/

open GS.Panics.Res GS.Generated.PanicCleanup

/-- **What the current source's clean-up path does** (facts about the generated lists, by `decide`):
for both nodes a recovered panic runs exactly the statements an ordinary error runs, the traverser's
recover frame hands the panic to `writeDone` (which unlocks the state mutex), and for EVERY class of
error - none, ordinary, recovered panic, paused, cancelled, network - the path calls TaskDone exactly
once. -/
theorem cleanup_path_ok (sd : Side) (w c : Nat) : PathOK (cfgOf sd w c) ∧ SlotsOK (cfgOf sd w c) := by
  have same : cleanupActs (levelsOf sd) .panicked = cleanupActs (levelsOf sd) .ordinary := by
    cases sd <;> decide
  have unlock : travFrame.contains .writeDoneOnPanic = true := by decide
  have one : ∀ cl : ErrClass, (cleanupActs (levelsOf sd) cl).countP isSlotRelease = 1 := by
    intro cl; cases sd <;> cases cl <;> decide
  exact ⟨⟨same, unlock⟩, one⟩

theorem safe_of_listed (sd : Side) (w c : Nat) (reqs : List RReq)
    (hk : ∀ r ∈ reqs, ∀ cl ∈ r.script, cl.kind ∈ listedKinds) : Safe (cfgOf sd w c) (Res.init reqs) := by
  intro j r hr cl hcl _
  have hr' : reqs[j]? = some r := by simpa [Res.init] using hr
  exact framesOf_listed table sites _ _ (hk r (List.mem_iff_getElem?.mpr ⟨j, hr'⟩) cl hcl)

theorem calm_init (reqs : List RReq) : calm (Res.init reqs) = Res.init (reqs.map calmReq) := by
  simp [calm, Res.init]

theorem resources_calm (s : RSys) : resources (calm s) = resources s := by
  simp [resources, calm, calmReq, Function.comp_def]

/-- (RELATIVE statement - it compares two runs and would also hold for a clean-up path that leaks in both;
the absolute counterparts are `released_after_panic`, `all_done_empty`, `slots_returned`.)
**After a recovered panic every resource is where an ordinary error would have left it** - "the
process keeps running and other requests are unaffected", for what requests really share.  For the
node of either side as the source has it now, any number of workers `w ≥ 0` and per-peer cap `c`, any
list of requests (calls of listed kinds, any of them panicking, any number of panics) and any
schedule: the run does not crash, and - compared with the run in which every panicking call returns
an ordinary error instead - busy workers, per-peer work in progress, table entries, tracker entries,
every request's phase (incl. its remaining clean-up statements) and every mutex are IDENTICAL; the two
runs differ only in the faulted requests' outcome (RecoveredPanicErr instead of the plain error) and
the callback log (`calm`). -/
theorem isolation_resources (sd : Side) (w c : Nat) (reqs : List RReq)
    (hk : ∀ r ∈ reqs, ∀ cl ∈ r.script, cl.kind ∈ listedKinds) (sched : List Nat) :
    let cfg := cfgOf sd w c
    (Res.run cfg (Res.init reqs) sched).crashed = false ∧
    resources (Res.run cfg (Res.init reqs) sched) = resources (Res.run cfg (Res.init (reqs.map calmReq)) sched) ∧
    calm (Res.run cfg (Res.init reqs) sched) = Res.run cfg (Res.init (reqs.map calmReq)) sched := by
  intro cfg
  have hs := safe_of_listed sd w c reqs hk
  have hcalm := calm_run (cleanup_path_ok sd w c).1 sched hs
  rw [calm_init] at hcalm
  exact ⟨run_crashed sched hs rfl, by rw [← hcalm, resources_calm], hcalm⟩

/-- (RELATIVE statement, like `isolation_resources`.)  **Other requests are unaffected**: a request `j` none of whose own calls panics - e.g. one
submitted later by the same peer, waiting for the single worker under a per-peer cap of 1 - is, after
any schedule, in exactly the state (phase, remaining script, outcome, delivered flag, mutex) it is in
when the other requests' panics are ordinary errors. -/
theorem later_unaffected (sd : Side) (w c : Nat) (reqs : List RReq)
    (hk : ∀ r ∈ reqs, ∀ cl ∈ r.script, cl.kind ∈ listedKinds) (sched : List Nat)
    (j : Nat) (r : RReq) (hj : reqs[j]? = some r) (hclean : Clean r) :
    (Res.run (cfgOf sd w c) (Res.init reqs) sched).reqs[j]? =
      (Res.run (cfgOf sd w c) (Res.init (reqs.map calmReq)) sched).reqs[j]? := by
  obtain ⟨_, _, h3⟩ := isolation_resources sd w c reqs hk sched
  rw [← h3]
  have hq : ∀ q, (Res.run (cfgOf sd w c) (Res.init reqs) sched).reqs[j]? = some q → Clean q :=
    run_clean_at sched j (s := Res.init reqs) (fun q hq => by
      have : q = r := by
        have h' : reqs[j]? = some q := by simpa [Res.init] using hq
        rw [hj] at h'; exact (Option.some.inj h').symm
      rw [this]; exact hclean)
  cases hget : (Res.run (cfgOf sd w c) (Res.init reqs) sched).reqs[j]? with
  | none => simp [calm, hget]
  | some q => simp [calm, hget, calmReq_clean (hq q hget)]

/-- **Slots come back**: for the generated clean-up path, after ANY schedule (panics or not), the
number of busy workers and every peer's work in progress equal the number of tasks that are really
being executed; so whenever no request is being executed any more, no worker is busy and no peer has
work in progress. -/
theorem slots_returned (sd : Side) (w c : Nat) (reqs : List RReq)
    (hq : ∀ r ∈ reqs, r.phase = .queued) (sched : List Nat) :
    let s := Res.run (cfgOf sd w c) (Res.init reqs) sched
    Inv s ∧ ((∀ r ∈ s.reqs, r.phase = .queued ∨ r.phase = .done) → s.busy = 0 ∧ ∀ p, s.active.count p = 0) := by
  intro s
  have hinv : Inv s := run_inv (cleanup_path_ok sd w c).2 sched (init_inv reqs hq)
  exact ⟨hinv, idle_free hinv⟩

/-- **A later request can still start**: in any state reached that way in which nothing is being
executed, a queued request is popped as soon as it is scheduled - even with a single worker and a
per-peer cap of 1. -/
theorem later_can_start (sd : Side) (w c : Nat) (hw : 1 ≤ w) (reqs : List RReq)
    (hq : ∀ r ∈ reqs, r.phase = .queued) (sched : List Nat) (j : Nat) (r : RReq) :
    let cfg := cfgOf sd w c
    let s := Res.run cfg (Res.init reqs) sched
    s.crashed = false → (∀ q ∈ s.reqs, q.phase = .queued ∨ q.phase = .done) →
    s.reqs[j]? = some r → r.phase = .queued →
    ∃ r', (Res.step cfg s j).reqs[j]? = some r' ∧ r'.phase = .running := by
  intro cfg s hc hidle hj hph
  obtain ⟨_, hfree⟩ := slots_returned sd w c reqs hq sched
  obtain ⟨hb, ha⟩ := hfree hidle
  have hlt : j < s.reqs.length := (List.getElem?_eq_some_iff.mp hj).1
  have hpop : canPop cfg s r = true := by
    have hb' : s.busy = 0 := hb
    have ha' : s.active.count r.peer = 0 := ha r.peer
    have hw' : cfg.workers = w := rfl
    have hcap : cfg.cap = c := rfl
    simp only [canPop, hb', ha', hw', hcap, Bool.and_eq_true, Bool.or_eq_true, decide_eq_true_eq]
    exact ⟨by omega, by omega⟩
  refine ⟨{ r with phase := .running }, ?_, rfl⟩
  show (Res.step cfg s j).reqs[j]? = _
  unfold Res.step
  simp [hc, hj, hph, hpop, List.getElem?_set_self hlt]

/-! ### The resource theorems are not true by construction: a clean-up path that forgets TaskDone -/

/-- the requestor's path with `ReleaseRequestTask` removed (e.g. `ExecuteTask` returning right after
the recovered panic) -/
def leakyCfg : Cfg :=
  { cfgOf .requestor 1 1 with levels := (levelsOf .requestor).map (fun l => l.filter (fun it => it.act ≠ .releaseTask)) }

def exA : RReq :=
  { peer := 0, script := [⟨.requestor, .chooser, .ok⟩, ⟨.requestor, .storageRead, .panic⟩, ⟨.requestor, .codec, .ok⟩],
    phase := .queued, out := .running, cls := .none, delivered := false, lock := false, released := 0 }
def exB : RReq :=
  { peer := 0, script := [⟨.requestor, .chooser, .ok⟩, ⟨.requestor, .codec, .ok⟩],
    phase := .queued, out := .running, cls := .none, delivered := false, lock := false, released := 0 }
/-- request 0 is driven to its end, then request 1 -/
def exResSched : List Nat := [0, 0, 0, 0, 0, 0, 0, 0, 1, 1, 1, 1, 1, 1, 1, 1]

/-- **Counterexample**: with one worker, a per-peer cap of 1 and the leaky path, once request 0 has
been popped no schedule whatsoever ever lets request 1 of the same peer start - although request 0
itself fails "properly" (RecoveredPanicErr, callback) and reaches `done` still holding its slot, its
table entry and its tracker records; the decidable path check `releasesAll`, which the absolute theorems
`released_after_panic` / `all_done_empty` rest on, is false for the leaky list and true for both
generated ones.  With the generated path the same two requests
under a plain schedule both finish and everything is released. -/
theorem leak_counterexample :
    releasesAll leakyCfg.levels leakyCfg.trav = false ∧
    (∀ sd, releasesAll (levelsOf sd) travFrame = true) ∧
    (∀ sched : List Nat, ∃ q, (Res.run leakyCfg (Res.init [exA, exB]) (0 :: sched)).reqs[1]? = some q ∧ q.phase = .queued) ∧
    (let s := Res.run leakyCfg (Res.init [exA, exB]) exResSched
     (s.reqs.map (·.phase) = [.done, .queued]) ∧ s.busy = 1 ∧ s.active = [0] ∧ s.table = [0, 1] ∧ s.tracker = [0] ∧ (s.reqs.map (·.out) = [.panicErr .requestor .storageRead, .running])) ∧
    (let s := Res.run (cfgOf .requestor 1 1) (Res.init [exA, exB]) exResSched
     (s.reqs.map (·.phase) = [.done, .done]) ∧ s.busy = 0 ∧ s.active = [] ∧ s.table = [] ∧ s.tracker = [] ∧
     (s.reqs.map (·.out) = [.panicErr .requestor .storageRead, .completed])) := by
  refine ⟨by decide, fun sd => by cases sd <;> decide, ?_, by decide, by decide⟩
  intro sched
  have nr : NoRelease leakyCfg := fun cl => by cases cl <;> decide
  have hstuck : Stuck leakyCfg (Res.step leakyCfg (Res.init [exA, exB]) 0) := by
    refine ⟨?_, by decide⟩
    intro j r hr
    have hj : j = 0 ∨ j = 1 ∨ 2 ≤ j := by omega
    rcases hj with rfl | rfl | h2
    · have h' : (Res.step leakyCfg (Res.init [exA, exB]) 0).reqs[0]? = some { exA with phase := .running } := by decide
      rw [h'] at hr
      rw [← Option.some.inj hr]; simp [todoFree]
    · have h' : (Res.step leakyCfg (Res.init [exA, exB]) 0).reqs[1]? = some exB := by decide
      rw [h'] at hr
      rw [← Option.some.inj hr]; simp [todoFree, exB]
    · have hlen : (Res.step leakyCfg (Res.init [exA, exB]) 0).reqs.length = 2 := by decide
      have hnone : (Res.step leakyCfg (Res.init [exA, exB]) 0).reqs[j]? = none := List.getElem?_eq_none (by omega)
      rw [hnone] at hr; exact absurd hr (by simp)
  have hfin := leak_starves nr sched hstuck 1 exB (by decide) rfl
  simpa [Res.run] using hfin

/-- Non-vacuity of `isolation_resources` / `later_unaffected`: a concrete system meeting the
hypotheses (listed kinds, request 1 clean, one worker, cap 1) in which the panic really happens, the
runs really differ in the outcome of request 0, and the resources really coincide. -/
example :
    (∀ r ∈ [exA, exB], ∀ cl ∈ r.script, cl.kind ∈ listedKinds) ∧ Clean exB ∧
    (Res.run (cfgOf .requestor 1 1) (Res.init [exA, exB]) exResSched).reqs.map (·.out)
      ≠ (Res.run (cfgOf .requestor 1 1) (Res.init ([exA, exB].map calmReq)) exResSched).reqs.map (·.out) ∧
    (Res.run (cfgOf .requestor 1 1) (Res.init [exA, exB]) exResSched).cbLog = [(0, .requestor, .storageRead)] := by
  refine ⟨?_, ⟨by decide, rfl, rfl⟩, by decide, by decide⟩
  intro r hr cl hcl
  simp only [List.mem_cons, List.mem_nil_iff, or_false] at hr
  rcases hr with rfl | rfl <;> revert cl <;> decide

/-! ### Absolute release (not relative to the ordinary-error run)

`isolation_resources` and `later_unaffected` above are RELATIVE statements (panic run = ordinary-error
run); they would also hold for a path that leaks in both.  The following are ABSOLUTE and rest on the
decidable check `releasesAll` of the GENERATED lists (false for the leaky list, see
`leak_counterexample`).  Allocator bytes (response memory) are NOT a resource of this model: they are
reserved inside a response transaction and released when the message is sent; the translator checks
that the block load (`Loader`, `loadBlock`) is not lexically inside a `Transaction` closure, so none is
held at the panic sites; that the memory really returns to zero is checked on the real code only (leak
oracle `response-memory-*`). -/

theorem generated_releasesAll (sd : Side) (w c : Nat) : RelOK (cfgOf sd w c) := by
  apply relOK_of_check
  show releasesAll (levelsOf sd) travFrame = true
  cases sd <;> decide

/-- **A request that has been through its clean-up holds nothing** - in particular one that ended by a
recovered panic.  For the node of either side as the source has it now, any number of workers, any cap,
any list of freshly submitted requests, any schedule: as soon as request `i` has reached phase `done`
(its clean-up statements are exhausted) it occupies no worker slot and counts for no peer's work in
progress (`holds r = false`), has no table entry, no tracker records, its traverser's mutex is free,
and TaskDone has been called for it exactly once. -/
theorem released_after_panic (sd : Side) (w c : Nat) (reqs : List RReq) (hf : ∀ r ∈ reqs, Fresh r)
    (sched : List Nat) (i : Nat) (r : RReq) :
    let s := Res.run (cfgOf sd w c) (Res.init reqs) sched
    s.reqs[i]? = some r → r.phase = .done →
    holds r = false ∧ i ∉ s.table ∧ i ∉ s.tracker ∧ r.lock = false ∧ r.released = 1 := by
  intro s hr hd
  have habs : Abs s := run_abs (generated_releasesAll sd w c) sched (init_abs reqs hf)
  obtain ⟨h1, h2, h3, h4, h5⟩ := done_holds_nothing habs hr hd
  exact ⟨h5, h1, h2, h3, h4⟩

/-- **Absolute emptiness**: when every request is done - whether it completed, failed with an
ordinary error or ended by a recovered panic - no worker is busy, no peer has work in progress, the
request / response table is empty and no tracker records are left. -/
theorem all_done_empty (sd : Side) (w c : Nat) (reqs : List RReq) (hf : ∀ r ∈ reqs, Fresh r)
    (sched : List Nat) :
    let s := Res.run (cfgOf sd w c) (Res.init reqs) sched
    (∀ r ∈ s.reqs, r.phase = .done) →
    s.busy = 0 ∧ (∀ p, s.active.count p = 0) ∧ s.table = [] ∧ s.tracker = [] := by
  intro s hall
  have habs : Abs s := run_abs (generated_releasesAll sd w c) sched (init_abs reqs hf)
  obtain ⟨_, hfree⟩ := slots_returned sd w c reqs (fun r hr => (hf r hr).phase) sched
  obtain ⟨hb, ha⟩ := hfree (fun r hr => Or.inr (hall r hr))
  obtain ⟨ht, hk⟩ := all_done_tables_empty habs hall
  exact ⟨hb, ha, ht, hk⟩

/-- Non-vacuity of `released_after_panic` / `all_done_empty`: a concrete run in which request 0 ends by
a recovered panic, both requests reach `done`, and the hypotheses hold. -/
example :
    (∀ r ∈ [exA, exB], Fresh r) ∧
    (let s := Res.run (cfgOf .requestor 1 1) (Res.init [exA, exB]) exResSched
     (∀ r ∈ s.reqs, r.phase = .done) ∧ (s.reqs.map (·.cls) = [.panicked, .none]) ∧
     (s.reqs.map (·.released) = [1, 1])) := by
  refine ⟨?_, by decide⟩
  intro r hr
  simp only [List.mem_cons, List.mem_nil_iff, or_false] at hr
  rcases hr with rfl | rfl <;> exact ⟨rfl, rfl, rfl, rfl⟩

/-- Non-vacuity of `later_can_start`: after request 0 (recovered panic) has run to `done` with request 1
of the same peer still queued - one worker, cap 1 - the hypotheses hold and request 1 is popped. -/
example :
    (let s := Res.run (cfgOf .requestor 1 1) (Res.init [exA, exB]) [0, 0, 0, 0, 0, 0, 0, 0]
     s.crashed = false ∧ (∀ q ∈ s.reqs, q.phase = .queued ∨ q.phase = .done) ∧
     (s.reqs.map (·.phase) = [.done, .queued]) ∧
     ((Res.step (cfgOf .requestor 1 1) s 1).reqs.map (·.phase) = [.done, .running])) := by decide

set_option maxRecDepth 20000 in
/-- **The driver's `late= leak= res=` prediction is computed from the clean-up list**, not a constant:
with the generated responder path the late request completes and nothing is left; with `FinishTask`
removed from that path (one worker, one task per peer) the late request never starts and task-queue and
table entries remain (`gsm-panics` then prints `late=0 leak=1 res=tasks:3,table:3` for such an injection). -/
example :
    let good := predictResWith (levelsOf .responder) travFrame .responder .storageRead 0 1 0 true
    let bad := predictResWith ((levelsOf .responder).map (fun l => l.filter (fun it => it.act ≠ .finishTask)))
                 travFrame .responder .storageRead 0 1 0 true
    (good.late, good.leak, good.tasks, good.table, good.tracker) = (true, false, 0, 0, 0) ∧
    (bad.late, bad.leak) = (false, true) ∧ bad.tasks ≠ 0 ∧ bad.table ≠ 0 := by decide

end GS.C22
