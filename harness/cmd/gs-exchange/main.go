package main

import (
	"verifharness/reg"
	_ "verifharness/requestor"
)

func main() { reg.Main("exchange") }
