import GS.Model.Wire
import GSProofs.Lemmas.Varint
/-! Framing: `readFrame` inverts `frame`. -/
namespace GS.Wire
open GS.Cbor

theorem readFrame_frame (p rest : Bytes) (h0 : 0 < p.length) (h1 : p.length ≤ maxMsgSize) :
    readFrame (frame p ++ rest) = .ok p rest := by
  have hms : maxMsgSize = 4194304 := rfl
  have hv : uvarint (putUvarint p.length ++ (p ++ rest)) = some (p.length, p ++ rest) :=
    uvarint_put p.length (p ++ rest) (by omega)
  unfold readFrame frame
  have hne : putUvarint p.length ++ p ++ rest ≠ [] := by
    have := putUvarint_ne_nil p.length
    cases h : putUvarint p.length with
    | nil => exact absurd h this
    | cons a b => simp
  cases hbs : putUvarint p.length ++ p ++ rest with
  | nil => exact absurd hbs hne
  | cons a b =>
    simp only
    rw [← hbs, List.append_assoc, hv]
    have h2 : ¬ (p.length = 0) := by omega
    have h3 : ¬ (p.length > maxMsgSize) := by omega
    have h4 : ¬ ((p ++ rest).length < p.length) := by simp
    simp only [h2, h3, h4, if_false]
    simp

theorem frame_length_pos (p : Bytes) : 0 < (frame p).length := by
  unfold frame
  have := putUvarint_ne_nil p.length
  cases h : putUvarint p.length with
  | nil => exact absurd h this
  | cons a b => simp

end GS.Wire
