import GS.Model.RespMgr
import GSProofs.Lemmas.RespMgr
/-!
# C10 — Messages from one peer cannot alter a response served to another

Property sentence: *a cancel, update or new request sent by one peer never cancels, pauses, updates,
replaces or otherwise changes a response the responder is serving to a different peer, even if it
carries the same request ID, and never changes the outcome notifications for that response.*

Model: `GS.RespMgr` (GS/Model/RespMgr.lean).  `processRequests` dispatches according to
`GS.Generated.RespDispatch.dispatch`, which translate/respdispatch regenerates from
responsemanager/server.go on every check: per request type the handler and whether a peer guard
(`entry.peer != sender` ⇒ skip) protects it.  The theorems are proved for every dispatch table that
satisfies `AllGuarded` and instantiated with the generated one (`dispatch_guarded`, by `decide`);
removing or weakening the guard in the Go source makes that `decide` fail.

The guard itself is not hand-written: `handleOne` evaluates the comparison term extracted from the
source (`PeerGuard`: lookup key, left and right operand), and `guardSkips_good` shows that a guard
comparing the entry's peer with the sender skips exactly the `foreign` requests.

`table_key_is_request_id` records another generated fact the statements rest on: the table is keyed
by request ID only, which is why the guard is needed at all and why the model's table is
`ReqId ↦ object`.  `closer_own_response`: the message subscriber's TerminateRequest /
CloseWithNetworkError only act on the response the subscriber was created for (since fe9afe8).
-/
namespace GS.C10
open GS.RespMgr GS.Generated

/-- every request type is dispatched behind a guard that compares the peer field of the table entry
    found under the request's ID with the sender of the message -/
def AllGuarded (d : List DispatchCase) : Bool :=
  d.all fun c => match c.guard with
    | some g => GoodGuard g
    | none => false

/-- today's dispatch is guarded for cancel, update and new (depends on the Go source) -/
theorem dispatch_guarded : AllGuarded RespDispatch.dispatch = true := by decide

/-- the response table is keyed by request ID only -/
theorem table_key_is_request_id : RespDispatch.keyKind = .requestId := by decide

/-- the message subscriber closes only the response it was created for (depends on the Go source) -/
theorem closer_own_response : RespDispatch.closerKey = .ownResponse := by decide

theorem guard_of_case {d : List DispatchCase} (hg : AllGuarded d = true) {t : ReqType} {c : DispatchCase}
    (hc : dispatchCase d t = some c) : ∃ g, c.guard = some g ∧ GoodGuard g = true := by
  unfold dispatchCase at hc
  have hmem : c ∈ d := List.mem_of_find?_eq_some hc
  unfold AllGuarded at hg
  have := List.all_eq_true.mp hg c hmem
  cases hcg : c.guard with
  | none => simp [hcg] at this
  | some g => exact ⟨g, rfl, by simpa [hcg] using this⟩

/-! ## single step -/

/-- a request whose ID is in the table for another peer is a no-op -/
theorem handleOne_foreign (d : List DispatchCase) (hg : AllGuarded d = true) (q : Peer) (s : State) (x : Request)
    (hf : foreign s q x = true) : handleOne d q s x = (s, []) := by
  unfold handleOne
  split
  · rfl
  · rename_i c hc
    obtain ⟨g, hcg, hgood⟩ := guard_of_case hg hc
    simp [hcg, guardSkips_good g hgood, hf]

/-- whatever else a request from `q` does, it stays within `q`'s own responses -/
theorem handleOne_frame (d : List DispatchCase) (hg : AllGuarded d = true) (q : Peer) (s : State) (x : Request) :
    Frame q s (handleOne d q s x).1 ∧ AllPeer q (handleOne d q s x).2 := by
  unfold handleOne
  split
  · exact ⟨Frame.refl q s, allPeer_nil q⟩
  · rename_i c hc
    obtain ⟨g, hcg, hgood⟩ := guard_of_case hg hc
    by_cases hf : foreign s q x = true
    · simp only [hcg, guardSkips_good g hgood, hf, if_true]
      exact ⟨Frame.refl q s, allPeer_nil q⟩
    · have hf' : foreign s q x = false := by simpa using hf
      have hown : ∀ k o, s.lookup x.id = some (k, o) → o.peer = q := fun k o hl => foreign_false hf' hl
      simp only [hcg, guardSkips_good g hgood, hf', Bool.false_eq_true, if_false]
      cases c.handler with
      | new => exact new_frame q s x hown
      | abort => exact abort_frame q s x.id .ctxCancel hown
      | update => exact update_frame q s x.id x.uh hown

theorem processRequests_frame (d : List DispatchCase) (hg : AllGuarded d = true) (q : Peer) (s : State)
    (reqs : List Request) :
    Frame q s (processRequests d q s reqs).1 ∧ AllPeer q (processRequests d q s reqs).2 := by
  induction reqs generalizing s with
  | nil => exact ⟨Frame.refl q s, allPeer_nil q⟩
  | cons x xs ih =>
    obtain ⟨f1, e1⟩ := handleOne_frame d hg q s x
    obtain ⟨f2, e2⟩ := ih (handleOne d q s x).1
    exact ⟨Frame.trans f1 f2, allPeer_append e1 e2⟩

/-- **C10, one step.**  For every state `s`, every response object `o` (table entry `id ↦ k`) that is
    being served to peer `p`, every peer `q ≠ p` and ANY list of requests from `q` (new / cancel /
    update with any IDs, including `id`): after `processRequests q reqs`
    * the table still maps `id` to the same object and the object is unchanged — its state, its
      pause / update / error signals, queued updates, traversal position, network-error flag,
      un-notified terminal status;
    * the task queue entries of every other peer (in particular a queued task `(p, id)`), the active
      tasks and the running executors are unchanged;
    * every output event of the step concerns `q`: nothing is written to a stream of `p`, no
      completed / cancelled / network-error / processing listener fires for `p`, no hook runs in
      `p`'s name, `p`'s connection is neither protected nor unprotected.
    No reachability hypothesis is needed. -/
theorem noninterference (s : State) (id : ReqId) (k : Serial) (o : Obj) (p q : Peer) (reqs : List Request)
    (ht : s.table.get id = some k) (hk : s.obj k = some o) (hp : o.peer = p) (hq : q ≠ p) :
    let s' := (step s (.msg q reqs)).1
    s'.table.get id = some k ∧ s'.obj k = some o
    ∧ s'.pending.filter (fun t => t.1 != q) = s.pending.filter (fun t => t.1 != q)
    ∧ s'.active = s.active ∧ s'.execs = s.execs
    ∧ ∀ ev ∈ (step s (.msg q reqs)).2.1, ev.peer ≠ p := by
  obtain ⟨f, e⟩ := processRequests_frame RespDispatch.dispatch dispatch_guarded q s reqs
  have hpq : o.peer ≠ q := by rw [hp]; exact fun h => hq h.symm
  refine ⟨f.table id k o ht hk hpq, f.objs k o hk hpq, f.pending, f.active, f.execs, ?_⟩
  intro ev hev
  have := e ev hev
  rw [this]; exact hq

/-! ## whole histories -/

theorem step_erase_foreign (s : State) (q : Peer) (pre post : List Request) (x : Request)
    (hf : foreign (processRequests RespDispatch.dispatch q s pre).1 q x = true) :
    step s (.msg q (pre ++ x :: post)) = step s (.msg q (pre ++ post)) := by
  simp only [step, stepD]
  rw [processRequests_append, processRequests_append]
  simp only [processRequests, handleOne_foreign RespDispatch.dispatch dispatch_guarded q _ x hf, List.nil_append]

/-- `ErasedFrom s h h'`: `h'` is the history `h` (run from `s`) with some foreign requests deleted —
    a request from `q` is foreign when, at the moment the dispatch loop reaches it, its ID is in the
    table for a peer other than `q`.  Any number of deletions, at any point of the victims'
    lifecycles, interleaved with arbitrary other operations. -/
inductive ErasedFrom : State → List Op → List Op → Prop
  | nil (s : State) : ErasedFrom s [] []
  | keep (s : State) (op : Op) (ops ops' : List Op) :
      ErasedFrom (step s op).1 ops ops' → ErasedFrom s (op :: ops) (op :: ops')
  | erase (s : State) (q : Peer) (pre post : List Request) (x : Request) (ops ops' : List Op) :
      foreign (processRequests RespDispatch.dispatch q s pre).1 q x = true →
      ErasedFrom s (Op.msg q (pre ++ post) :: ops) ops' →
      ErasedFrom s (Op.msg q (pre ++ x :: post) :: ops) ops'

/-- **C10 over histories.**  A history and the same history with the foreign requests deleted give
    the same final state and the same outputs at every step (stream transactions, listener
    notifications, hook calls, connection manager calls, task-queue operations, results): requests
    from another peer carrying a live ID are no-ops, so in particular everything the first peer
    observes later — its wire output, its completed / cancelled / network-error notifications — is
    what it would have been without the second peer.  By induction on the history. -/
theorem noninterference_run (s : State) (h h' : List Op) (he : ErasedFrom s h h') :
    runD RespDispatch.dispatch RespDispatch.closerKey s h = runD RespDispatch.dispatch RespDispatch.closerKey s h' := by
  induction he with
  | nil s => rfl
  | keep s op ops ops' _ ih =>
    simp only [runD]
    have : (stepD RespDispatch.dispatch RespDispatch.closerKey s op) = step s op := rfl
    rw [this, ih]
  | erase s q pre post x ops ops' hx _ ih =>
    rw [← ih]
    have := step_erase_foreign s q pre post x hx
    simp only [step] at this
    simp only [runD, this]

/-! ## notifications of one peer's messages do not touch another peer's responses -/

theorem streamsOf_peer (s : State) (p : Peer) (j : Nat) (k : Serial) (h : (streamsOf s p)[j]? = some k) :
    ∃ o, s.obj k = some o ∧ o.peer = p := by
  have hmem : k ∈ streamsOf s p := List.mem_of_getElem? h
  unfold streamsOf at hmem
  have := (List.mem_filter.mp hmem).2
  split at this
  · rename_i o ho
    exact ⟨o, ho, by simpa using this⟩
  · cases this

/-- **C10, message notifications.**  The "message sent" / "network error" notification of a message
    that carried (part of) a response served to `p` — including the TerminateRequest and
    CloseWithNetworkError calls the subscriber makes by request ID — leaves every response object
    served to another peer, every table entry pointing to one, every other peer's queued tasks, the
    active tasks and the executors unchanged, and all its events (stream clearing, unprotect,
    completed / network-error listeners, queue removal) concern `p`.  In particular a response of
    another peer that re-uses the request ID of an older response of `p` is not closed by `p`'s late
    notifications.  Depends on `closer_own_response`. -/
theorem notification_noninterference (s : State) (p : Peer) (j : Nat) (isErr : Bool) :
    Frame p s (stepD RespDispatch.dispatch RespDispatch.closerKey s (if isErr then .neterr p j else .sent p j)).1
    ∧ AllPeer p (stepD RespDispatch.dispatch RespDispatch.closerKey s (if isErr then .neterr p j else .sent p j)).2.1 := by
  rw [closer_own_response]
  have key : ∀ b, Frame p s (notifyAt RespDispatch.dispatch .ownResponse s p j b none).1
      ∧ AllPeer p (notifyAt RespDispatch.dispatch .ownResponse s p j b none).2.1 := by
    intro b
    unfold notifyAt
    split
    · rename_i k hk
      obtain ⟨o, ho, hp⟩ := streamsOf_peer s p j k hk
      have := notify_frame RespDispatch.dispatch s k o b ho
      rw [hp] at this
      exact this
    · exact ⟨Frame.refl p s, allPeer_nil p⟩
  cases isErr
  · exact key false
  · exact key true

/-! ## the executor's by-ID calls (GetUpdates, FinishTask) -/

/-- **C10, executor steps.**  An executor that works for `p` on a response served to `p`, while the
    table entry under its request ID (if any) is served to `p` too, touches only `p`'s responses
    when it is released for a block — including its GetUpdates and FinishTask calls, which address
    the response by request ID: objects, table entries and queued tasks of every other peer are
    unchanged, every event (stream output, update / block hooks, listeners, unprotect, queue
    operations) concerns `p`.  The hypothesis holds as long as a peer does not re-use one of its own
    live request IDs; `executor_by_id_counterexample` shows what happens otherwise. -/
theorem executor_noninterference (s : State) (p : Peer) (id : ReqId)
    (hown : ∀ e, findExec s.execs (p, id) = some e → OwnExec s e p) :
    FrameW p s (step s (.step p id)).1 ∧ AllPeer p (step s (.step p id)).2.1 :=
  stepExec_frame p s (p, id) hown

/-- A state that needs peer 0 to re-use its own live ID: its executor for request 1 is between two
    blocks with an update pending; peer 0 then sends a second `new 1` (replaces its own table entry)
    and cancels it; now the ID is free, peer 1 uses it and sends an update of its own. -/
def sDetached : State :=
  (runD RespDispatch.dispatch RespDispatch.closerKey {}
    [.msg 0 [{ typ := .new, id := 1, total := 3 }], .start 0 1, .step 0 1,
     .msg 0 [{ typ := .update, id := 1, uh := .ext }],
     .msg 0 [{ typ := .new, id := 1, total := 2 }], .msg 0 [{ typ := .cancel, id := 1 }],
     .msg 1 [{ typ := .new, id := 1, total := 2 }, { typ := .update, id := 1, uh := .none }]]).1

/-- … peer 0's old executor then fetches *peer 1's* queued update through GetUpdates(1) and runs the
    update hook on it in peer 0's name.  Out of scope of the theorems above (their hypothesis fails:
    the entry under the executor's ID is served to peer 1) and of the harness (a peer re-using its
    own live ID); only an attacker harming a victim that happens to pick the attacker's old ID. -/
theorem executor_by_id_counterexample :
    ((sDetached.obj 2).map (·.updates) = some [.none])
    ∧ (((step sDetached (.step 0 1)).1.obj 2).map (·.updates) = some [])
    ∧ Ev.hookUpd 0 1 ∈ (step sDetached (.step 0 1)).2.1 := by
  decide

/-! ## every guard is necessary: the dispatch before commit 7d665e5 is refuted -/

/-- the dispatch of `processRequests` before the fix: no peer guard anywhere -/
def dispatchBeforeFix : List DispatchCase :=
  [{ typ := .cancel, handler := .abort, guard := none },
   { typ := .update, handler := .update, guard := none },
   { typ := .new, handler := .new, guard := none }]

/-- peer 0 is served response 1 (3 blocks, queued) -/
def sQueued : State := (stepD dispatchBeforeFix .requestId {} (.msg 0 [{ typ := .new, id := 1, total := 3 }])).1
/-- peer 0 is served response 1, paused by the request hook -/
def sPaused : State := (stepD dispatchBeforeFix .requestId {} (.msg 0 [{ typ := .new, id := 1, total := 3, rh := .paused }])).1

example : sQueued.table.get 1 = some 0 ∧ (sQueued.obj 0).map (·.peer) = some 0 := by decide

/-- **cancel**: peer 1 cancels peer 0's queued response — table entry gone, peer 0's queued task
    removed, its stream cleared, its connection unprotected, the cancelled listener fires for peer 0 -/
theorem counterexample_cancel :
    (stepD dispatchBeforeFix .requestId sQueued (.msg 1 [{ typ := .cancel, id := 1 }])).1.table.get 1 = none
    ∧ (stepD dispatchBeforeFix .requestId sQueued (.msg 1 [{ typ := .cancel, id := 1 }])).2.1
        = [Ev.remove 0 1, Ev.tx 0 0 1 .clear, Ev.unprotect 0 1, Ev.lCancelled 0 1] := by
  decide

/-- **update**: peer 1's update reaches the update hook in peer 0's name and un-pauses peer 0's response -/
theorem counterexample_update :
    ((stepD dispatchBeforeFix .requestId sPaused (.msg 1 [{ typ := .update, id := 1, uh := .unpause }])).1.obj 0).map (·.state)
        = some .queued
    ∧ (stepD dispatchBeforeFix .requestId sPaused (.msg 1 [{ typ := .update, id := 1, uh := .unpause }])).2.1
        = [Ev.hookUpd 0 1, Ev.push 0 1] := by
  decide

/-- **new**: peer 1's new request with the same ID replaces peer 0's table entry (peer 0 has no
    response 1 any more according to PeerState), and peer 0's own cancel then kills peer 1's response -/
theorem counterexample_new :
    let s1 := (stepD dispatchBeforeFix .requestId sQueued (.msg 1 [{ typ := .new, id := 1, total := 2 }])).1
    peerState s1 0 = [] ∧ peerState s1 1 = [(1, .queued)]
    ∧ (stepD dispatchBeforeFix .requestId s1 (.msg 0 [{ typ := .cancel, id := 1 }])).2.1
        = [Ev.remove 1 1, Ev.tx 1 1 1 .clear, Ev.unprotect 1 1, Ev.lCancelled 1 1] := by
  decide

/-- peer 0's one-block response 1 has been fully processed: it waits for its last message to be sent -/
def sCompleting : State :=
  (runD dispatchBeforeFix .requestId {} [.msg 0 [{ typ := .new, id := 1, total := 1 }], .start 0 1, .step 0 1]).1

/-- **late close** (closer by request ID, before commit fe9afe8): the last message of peer 0's
    response fails to be sent; between the subscriber's CloseWithNetworkError and TerminateRequest
    peer 1's new request with the same ID is accepted (the ID is free again) — and the second call
    deletes it: peer 1's connection is unprotected, its response is gone, its task will find nothing. -/
theorem counterexample_late_close :
    let r := stepD RespDispatch.dispatch .requestId sCompleting (.neterrInj 0 0 1 [{ typ := .new, id := 1, total := 2 }])
    peerState r.1 1 = [] ∧ Ev.protect 1 1 ∈ r.2.1 ∧ Ev.unprotect 1 1 ∈ r.2.1 := by
  decide

/-- today (closer restricted to the subscriber's own response): peer 1's response survives -/
example :
    let r := step sCompleting (.neterrInj 0 0 1 [{ typ := .new, id := 1, total := 2 }])
    peerState r.1 1 = [(1, .queued)] ∧ Ev.unprotect 1 1 ∉ r.2.1 := by
  decide

/-- the same three attacks on today's dispatch: nothing happens
    (and the hypotheses of `noninterference` are met by `sQueued` / `sPaused`: non-vacuity) -/
example : (step sQueued (.msg 1 [{ typ := .cancel, id := 1 }])).2.1 = []
    ∧ (step sPaused (.msg 1 [{ typ := .update, id := 1, uh := .unpause }])).2.1 = []
    ∧ (step sQueued (.msg 1 [{ typ := .new, id := 1, total := 2 }])).2.1 = []
    ∧ peerState (step sQueued (.msg 1 [{ typ := .new, id := 1, total := 2 }])).1 0 = [(1, .queued)] := by
  decide

/-- non-vacuity of `noninterference_run`: peer 1 replays peer 0's ID with a cancel while peer 0's
    executor is between two blocks, inside a message that also carries a request of its own -/
example : ErasedFrom {}
    [.msg 0 [{ typ := .new, id := 1, total := 2 }], .start 0 1, .step 0 1,
     .msg 1 ([{ typ := .new, id := 2, total := 1 }] ++ { typ := .cancel, id := 1 } :: []), .step 0 1, .sent 0 0]
    [.msg 0 [{ typ := .new, id := 1, total := 2 }], .start 0 1, .step 0 1,
     .msg 1 ([{ typ := .new, id := 2, total := 1 }] ++ []), .step 0 1, .sent 0 0] := by
  apply ErasedFrom.keep; apply ErasedFrom.keep; apply ErasedFrom.keep
  apply ErasedFrom.erase
  · decide
  · apply ErasedFrom.keep; apply ErasedFrom.keep; apply ErasedFrom.keep; exact ErasedFrom.nil _

end GS.C10
