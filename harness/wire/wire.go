// Package wire drives the real go-graphsync v2 message codec (components "wire", "wiremut",
// "netstream"; properties C11 and C12).
//
// Line protocol (tokens; hex strings are written x<hex>):
//
//	hash <code> <hint|-1> <data> <digest|none>   hash-function hint for the model (implementation: no-op)
//	enc  <msg>      ToNet of the described message: length, bytes (if <=1 element per list), element encodings
//	rt   <msg>      FromNet(ToNet(m)) normal form; `rt` = generator claims m well-formed (round-trip oracle on)
//	rtx  <msg>      the same without the oracle (message deliberately not well-formed)
//	streamrt <msg> ; <msg> ; ...   all messages written to one buffer, read back with one reader
//	dec  <bytes>    FromNet normal form or err
//	decbad <bytes>  the same for bytes that are malformed by construction (oracle: must be err)
//	stream <bytes>  repeated FromMsgReader on one reader
//	net  <bytes>    (netstream) bytes written on a libp2p stream into handleNewStream
//	cbor <bytes> / cborenc <value>   the dag-cbor codec alone (basicnode)
//	cidset/cidsetdec, dedup/dedupdec, fb/fbdec       extension codecs
//
// value/msg token syntax: see lean/GS/Driver/WireCore.lean.
package wire

import (
	"bytes"
	"crypto/sha256"
	"encoding/binary"
	"encoding/hex"
	"fmt"
	"io"
	"math"
	"sort"
	"strconv"
	"strings"
	"time"

	blocks "github.com/ipfs/go-block-format"
	"github.com/ipfs/go-cid"
	"github.com/ipld/go-ipld-prime/codec/dagcbor"
	"github.com/ipld/go-ipld-prime/datamodel"
	cidlink "github.com/ipld/go-ipld-prime/linking/cid"
	"github.com/ipld/go-ipld-prime/node/basicnode"
	"github.com/libp2p/go-libp2p/core/network"
	"github.com/libp2p/go-libp2p/core/peer"
	"github.com/libp2p/go-msgio"
	mh "github.com/multiformats/go-multihash"

	"github.com/ipfs/go-graphsync"
	"github.com/ipfs/go-graphsync/cidset"
	"github.com/ipfs/go-graphsync/dedupkey"
	"github.com/ipfs/go-graphsync/donotsendfirstblocks"
	"github.com/ipfs/go-graphsync/message"
	v2 "github.com/ipfs/go-graphsync/message/v2"

	"verifharness/reg"
)

func init() {
	reg.Register(&reg.Component{Name: "wire", Gen: GenWire, Run: Run})
	reg.Register(&reg.Component{Name: "wiremut", Gen: GenMut, Run: Run})
	reg.Register(&reg.Component{Name: "netstream", Gen: GenNet, Run: RunNet})
}

// ---------------------------------------------------------------- hex / tokens

func hx(b []byte) string { return "x" + hex.EncodeToString(b) }

func unhx(s string) ([]byte, error) {
	if !strings.HasPrefix(s, "x") {
		return nil, fmt.Errorf("bad hex token %q", s)
	}
	return hex.DecodeString(s[1:])
}

// nodeToks renders an IPLD node in the value token syntax.
func nodeToks(n datamodel.Node) []string {
	switch n.Kind() {
	case datamodel.Kind_Null:
		return []string{"z"}
	case datamodel.Kind_Bool:
		b, _ := n.AsBool()
		if b {
			return []string{"T"}
		}
		return []string{"F"}
	case datamodel.Kind_Int:
		if un, ok := n.(datamodel.UintNode); ok {
			u, _ := un.AsUint()
			return []string{"u", strconv.FormatUint(u, 10)}
		}
		i, _ := n.AsInt()
		if i >= 0 {
			return []string{"u", strconv.FormatInt(i, 10)}
		}
		return []string{"i", strconv.FormatUint(uint64(-1-i), 10)}
	case datamodel.Kind_Float:
		f, _ := n.AsFloat()
		var b [8]byte
		binary.BigEndian.PutUint64(b[:], math.Float64bits(f))
		return []string{"f", hx(b[:])}
	case datamodel.Kind_String:
		s, _ := n.AsString()
		return []string{"t", hx([]byte(s))}
	case datamodel.Kind_Bytes:
		b, _ := n.AsBytes()
		return []string{"b", hx(b)}
	case datamodel.Kind_Link:
		l, _ := n.AsLink()
		cl, ok := l.(cidlink.Link)
		if !ok {
			return []string{"l", "?"}
		}
		return []string{"l", hx(cl.Cid.Bytes())}
	case datamodel.Kind_List:
		out := []string{"a", strconv.FormatInt(n.Length(), 10)}
		for it := n.ListIterator(); !it.Done(); {
			_, v, err := it.Next()
			if err != nil {
				return append(out, "?")
			}
			out = append(out, nodeToks(v)...)
		}
		return out
	case datamodel.Kind_Map:
		out := []string{"m", strconv.FormatInt(n.Length(), 10)}
		for it := n.MapIterator(); !it.Done(); {
			k, v, err := it.Next()
			if err != nil {
				return append(out, "?")
			}
			ks, _ := k.AsString()
			out = append(out, hx([]byte(ks)))
			out = append(out, nodeToks(v)...)
		}
		return out
	}
	return []string{"?"}
}

type toks struct {
	t []string
	i int
}

func (p *toks) more() bool { return p.i < len(p.t) }
func (p *toks) peek() string {
	if p.i < len(p.t) {
		return p.t[p.i]
	}
	return ""
}
func (p *toks) next() (string, error) {
	if p.i >= len(p.t) {
		return "", fmt.Errorf("unexpected end of tokens")
	}
	p.i++
	return p.t[p.i-1], nil
}
func (p *toks) hex() ([]byte, error) {
	s, err := p.next()
	if err != nil {
		return nil, err
	}
	return unhx(s)
}
func (p *toks) nat() (uint64, error) {
	s, err := p.next()
	if err != nil {
		return 0, err
	}
	return strconv.ParseUint(s, 10, 64)
}

func (p *toks) node() (datamodel.Node, error) {
	t, err := p.next()
	if err != nil {
		return nil, err
	}
	switch t {
	case "u":
		n, err := p.nat()
		if err != nil {
			return nil, err
		}
		if n > math.MaxInt64 {
			return basicnode.NewUint(n), nil
		}
		return basicnode.NewInt(int64(n)), nil
	case "i":
		n, err := p.nat()
		if err != nil || n > math.MaxInt64 {
			return nil, fmt.Errorf("bad negative int")
		}
		return basicnode.NewInt(-1 - int64(n)), nil
	case "b":
		b, err := p.hex()
		if err != nil {
			return nil, err
		}
		return basicnode.NewBytes(b), nil
	case "t":
		b, err := p.hex()
		if err != nil {
			return nil, err
		}
		return basicnode.NewString(string(b)), nil
	case "l":
		b, err := p.hex()
		if err != nil {
			return nil, err
		}
		c, err := cid.Cast(b)
		if err != nil {
			return nil, err
		}
		return basicnode.NewLink(cidlink.Link{Cid: c}), nil
	case "f":
		b, err := p.hex()
		if err != nil || len(b) != 8 {
			return nil, fmt.Errorf("bad float")
		}
		return basicnode.NewFloat(math.Float64frombits(binary.BigEndian.Uint64(b))), nil
	case "T":
		return basicnode.NewBool(true), nil
	case "F":
		return basicnode.NewBool(false), nil
	case "z":
		return datamodel.Null, nil
	case "a":
		n, err := p.nat()
		if err != nil {
			return nil, err
		}
		nb := basicnode.Prototype.List.NewBuilder()
		la, _ := nb.BeginList(int64(n))
		for i := uint64(0); i < n; i++ {
			v, err := p.node()
			if err != nil {
				return nil, err
			}
			if err := la.AssembleValue().AssignNode(v); err != nil {
				return nil, err
			}
		}
		if err := la.Finish(); err != nil {
			return nil, err
		}
		return nb.Build(), nil
	case "m":
		n, err := p.nat()
		if err != nil {
			return nil, err
		}
		nb := basicnode.Prototype.Map.NewBuilder()
		ma, _ := nb.BeginMap(int64(n))
		for i := uint64(0); i < n; i++ {
			k, err := p.hex()
			if err != nil {
				return nil, err
			}
			v, err := p.node()
			if err != nil {
				return nil, err
			}
			va, err := ma.AssembleEntry(string(k))
			if err != nil {
				return nil, err
			}
			if err := va.AssignNode(v); err != nil {
				return nil, err
			}
		}
		if err := ma.Finish(); err != nil {
			return nil, err
		}
		return nb.Build(), nil
	}
	return nil, fmt.Errorf("bad value token %q", t)
}

func (p *toks) optNode() (datamodel.Node, error) {
	t, err := p.next()
	if err != nil {
		return nil, err
	}
	switch t {
	case "N":
		return nil, nil
	case "S":
		return p.node()
	}
	return nil, fmt.Errorf("expected N or S, got %q", t)
}

func (p *toks) exts() ([]graphsync.ExtensionData, error) {
	k, err := p.nat()
	if err != nil {
		return nil, err
	}
	var es []graphsync.ExtensionData
	for i := uint64(0); i < k; i++ {
		name, err := p.hex()
		if err != nil {
			return nil, err
		}
		d, err := p.optNode()
		if err != nil {
			return nil, err
		}
		es = append(es, graphsync.ExtensionData{Name: graphsync.ExtensionName(name), Data: d})
	}
	return es, nil
}

// buildMsg constructs the described message with the real public constructors. useBuilder selects
// message.Builder (AddRequest/AddLink/AddResponseCode/AddExtensionData/AddBlock) instead of
// message.NewMessage.
func buildMsg(p *toks, useBuilder bool) (message.GraphSyncMessage, error) {
	reqs := map[graphsync.RequestID]message.GraphSyncRequest{}
	rsps := map[graphsync.RequestID]message.GraphSyncResponse{}
	blks := map[cid.Cid]blocks.Block{}
	bld := message.NewBuilder()
	for p.more() && p.peek() != ";" {
		kind, _ := p.next()
		switch kind {
		case "req":
			idb, err := p.hex()
			if err != nil {
				return message.GraphSyncMessage{}, err
			}
			id, err := graphsync.ParseRequestID(idb)
			if err != nil {
				return message.GraphSyncMessage{}, err
			}
			ty, _ := p.next()
			pris, _ := p.next()
			pri, err := strconv.ParseInt(pris, 10, 32)
			if err != nil {
				return message.GraphSyncMessage{}, err
			}
			roots, _ := p.next()
			root := cid.Undef
			if roots != "-" {
				rb, err := unhx(roots)
				if err != nil {
					return message.GraphSyncMessage{}, err
				}
				root, err = cid.Cast(rb)
				if err != nil {
					return message.GraphSyncMessage{}, err
				}
			}
			sel, err := p.optNode()
			if err != nil {
				return message.GraphSyncMessage{}, err
			}
			es, err := p.exts()
			if err != nil {
				return message.GraphSyncMessage{}, err
			}
			var r message.GraphSyncRequest
			switch ty {
			case "n":
				r = message.NewRequest(id, root, sel, graphsync.Priority(pri), es...)
			case "c":
				r = message.NewCancelRequest(id)
				if len(es) > 0 {
					r = r.ReplaceExtensions(es)
				}
			case "u":
				r = message.NewUpdateRequest(id, es...)
			default:
				return message.GraphSyncMessage{}, fmt.Errorf("bad request type %q", ty)
			}
			reqs[id] = r
			bld.AddRequest(r)
		case "rsp":
			idb, err := p.hex()
			if err != nil {
				return message.GraphSyncMessage{}, err
			}
			id, err := graphsync.ParseRequestID(idb)
			if err != nil {
				return message.GraphSyncMessage{}, err
			}
			sts, _ := p.next()
			st, err := strconv.ParseInt(sts, 10, 32)
			if err != nil {
				return message.GraphSyncMessage{}, err
			}
			k, err := p.nat()
			if err != nil {
				return message.GraphSyncMessage{}, err
			}
			var mds []message.GraphSyncLinkMetadatum
			bld.AddResponseCode(id, graphsync.ResponseStatusCode(st))
			for i := uint64(0); i < k; i++ {
				cb, err := p.hex()
				if err != nil {
					return message.GraphSyncMessage{}, err
				}
				c, err := cid.Cast(cb)
				if err != nil {
					return message.GraphSyncMessage{}, err
				}
				ab, err := p.hex()
				if err != nil {
					return message.GraphSyncMessage{}, err
				}
				mds = append(mds, message.GraphSyncLinkMetadatum{Link: c, Action: graphsync.LinkAction(ab)})
				bld.AddLink(id, cidlink.Link{Cid: c}, graphsync.LinkAction(ab))
			}
			es, err := p.exts()
			if err != nil {
				return message.GraphSyncMessage{}, err
			}
			for _, e := range es {
				bld.AddExtensionData(id, e)
			}
			rsps[id] = message.NewResponse(id, graphsync.ResponseStatusCode(st), mds, es...)
		case "blk":
			cb, err := p.hex()
			if err != nil {
				return message.GraphSyncMessage{}, err
			}
			c, err := cid.Cast(cb)
			if err != nil {
				return message.GraphSyncMessage{}, err
			}
			d, err := p.hex()
			if err != nil {
				return message.GraphSyncMessage{}, err
			}
			b, err := blocks.NewBlockWithCid(d, c)
			if err != nil {
				return message.GraphSyncMessage{}, err
			}
			blks[c] = b
			bld.AddBlock(b)
		default:
			return message.GraphSyncMessage{}, fmt.Errorf("bad item %q", kind)
		}
	}
	if useBuilder {
		return bld.Build()
	}
	return message.NewMessage(reqs, rsps, blks), nil
}

// ---------------------------------------------------------------- normal form

func optNodeStr(n datamodel.Node) string {
	if n == nil {
		return "N"
	}
	return "S," + strings.Join(nodeToks(n), ",")
}

type extPart interface {
	ExtensionNames() []graphsync.ExtensionName
	Extension(name graphsync.ExtensionName) (datamodel.Node, bool)
}

func extsStr(p extPart) string {
	var es []string
	for _, n := range p.ExtensionNames() {
		d, _ := p.Extension(n)
		es = append(es, hx([]byte(n))+"="+optNodeStr(d))
	}
	sort.Strings(es)
	return "{" + strings.Join(es, ";") + "}"
}

func typeLetter(t graphsync.RequestType) string {
	switch t {
	case graphsync.RequestTypeNew:
		return "n"
	case graphsync.RequestTypeCancel:
		return "c"
	case graphsync.RequestTypeUpdate:
		return "u"
	}
	return "?" + string(t)
}

// nf: the message as the public API exposes it (maps sorted by key).
func nf(m message.GraphSyncMessage) string {
	var rq, rs, bl []string
	for _, r := range m.Requests() {
		root := "-"
		if r.Root() != cid.Undef {
			root = hx(r.Root().Bytes())
		}
		rq = append(rq, strings.Join([]string{hx(r.ID().Bytes()), typeLetter(r.Type()), strconv.Itoa(int(r.Priority())), root, optNodeStr(r.Selector()), extsStr(r)}, ":"))
	}
	for _, r := range m.Responses() {
		var mds []string
		r.Metadata().Iterate(func(c cid.Cid, a graphsync.LinkAction) {
			mds = append(mds, hx(c.Bytes())+"/"+hx([]byte(a)))
		})
		rs = append(rs, strings.Join([]string{hx(r.RequestID().Bytes()), strconv.Itoa(int(r.Status())), "[" + strings.Join(mds, ";") + "]", extsStr(r)}, ":"))
	}
	for _, b := range m.Blocks() {
		bl = append(bl, hx(b.Cid().Bytes())+":"+hx(b.RawData()))
	}
	sort.Strings(rq)
	sort.Strings(rs)
	sort.Strings(bl)
	return "req[" + strings.Join(rq, " ") + "] rsp[" + strings.Join(rs, " ") + "] blk[" + strings.Join(bl, " ") + "]"
}

// ---------------------------------------------------------------- guarded calls into the real code

var handler = v2.NewMessageHandler()

type decRes struct {
	m        message.GraphSyncMessage
	err      error
	panicked interface{}
}

// guarded runs f under recover and a watchdog.
func guarded(out *reg.Out, what string, f func() (message.GraphSyncMessage, error)) (res decRes, hung bool) {
	ch := make(chan decRes, 1)
	go func() {
		var r decRes
		defer func() {
			if p := recover(); p != nil {
				r.panicked = p
			}
			ch <- r
		}()
		r.m, r.err = f()
	}()
	select {
	case res = <-ch:
	case <-time.After(60 * time.Second):
		out.Fail("hang", "%s did not return within 60s", what)
		return decRes{err: fmt.Errorf("hang")}, true
	}
	if res.panicked != nil {
		out.Fail("panic", "%s panicked: %v", what, res.panicked)
		res.err = fmt.Errorf("panic")
	}
	return res, false
}

func fromNet(out *reg.Out, b []byte) (message.GraphSyncMessage, error) {
	r, _ := guarded(out, "FromNet", func() (message.GraphSyncMessage, error) {
		return handler.FromNet(peer.ID("p"), bytes.NewReader(b))
	})
	if r.err == nil {
		checkDelivered(out, r.m)
	}
	return r.m, r.err
}

func toNet(out *reg.Out, m message.GraphSyncMessage) ([]byte, error) {
	var buf bytes.Buffer
	r, _ := guarded(out, "ToNet", func() (message.GraphSyncMessage, error) {
		return message.GraphSyncMessage{}, handler.ToNet(peer.ID("p"), m, &buf)
	})
	return buf.Bytes(), r.err
}

// ---------------------------------------------------------------- oracles (from the property text)

// checkDelivered: C12 -- every block of a message that decoded is keyed by the CID computed from
// the block's own bytes; every request/response ID is a 16-byte identifier.
func checkDelivered(out *reg.Out, m message.GraphSyncMessage) {
	for _, r := range m.Requests() {
		if len(r.ID().Bytes()) != 16 {
			out.Fail("id-length", "request id %x has %d bytes", r.ID().Bytes(), len(r.ID().Bytes()))
		}
	}
	for _, r := range m.Responses() {
		if len(r.RequestID().Bytes()) != 16 {
			out.Fail("id-length", "response id %x has %d bytes", r.RequestID().Bytes(), len(r.RequestID().Bytes()))
		}
	}
	for _, b := range m.Blocks() {
		if why := rehash(b.Cid(), b.RawData()); why != "" {
			out.Fail("block-key", "block delivered under %s: %s", b.Cid(), why)
		}
	}
}

// rehash recomputes the digest of data with the hash function named in c, independently of
// cid.Prefix.Sum (crypto/sha256 directly for sha2-256, byte comparison for identity, go-multihash
// for the rest).
func rehash(c cid.Cid, data []byte) string {
	dec, err := mh.Decode(c.Hash())
	if err != nil {
		return "key is not a valid multihash: " + err.Error()
	}
	var full []byte
	switch dec.Code {
	case mh.IDENTITY:
		full = data
		if len(dec.Digest) != len(data) {
			return "identity digest length differs from the data length"
		}
	case mh.SHA2_256:
		s := sha256.Sum256(data)
		full = s[:]
	default:
		sum, err := mh.Sum(data, dec.Code, dec.Length)
		if err != nil {
			return "cannot recompute: " + err.Error()
		}
		d2, _ := mh.Decode(sum)
		full = d2.Digest
	}
	if len(dec.Digest) > len(full) || !bytes.Equal(dec.Digest, full[:len(dec.Digest)]) {
		return fmt.Sprintf("digest %x is not the hash of the data (%x)", dec.Digest, full)
	}
	return ""
}

func asBig(n datamodel.Node) (neg bool, mag uint64) {
	if un, ok := n.(datamodel.UintNode); ok {
		u, _ := un.AsUint()
		return false, u
	}
	i, _ := n.AsInt()
	if i < 0 {
		return true, uint64(-1 - i)
	}
	return false, uint64(i)
}

// nodeEquiv: data-model equality, maps compared as unordered; nil and the null node are the same
// "no data".
func nodeEquiv(a, b datamodel.Node) bool {
	if a == nil {
		a = datamodel.Null
	}
	if b == nil {
		b = datamodel.Null
	}
	if a.Kind() != b.Kind() {
		return false
	}
	switch a.Kind() {
	case datamodel.Kind_Null:
		return true
	case datamodel.Kind_Bool:
		x, _ := a.AsBool()
		y, _ := b.AsBool()
		return x == y
	case datamodel.Kind_Int:
		n1, m1 := asBig(a)
		n2, m2 := asBig(b)
		return n1 == n2 && m1 == m2
	case datamodel.Kind_Float:
		x, _ := a.AsFloat()
		y, _ := b.AsFloat()
		return math.Float64bits(x) == math.Float64bits(y)
	case datamodel.Kind_String:
		x, _ := a.AsString()
		y, _ := b.AsString()
		return x == y
	case datamodel.Kind_Bytes:
		x, _ := a.AsBytes()
		y, _ := b.AsBytes()
		return bytes.Equal(x, y)
	case datamodel.Kind_Link:
		x, _ := a.AsLink()
		y, _ := b.AsLink()
		return x.String() == y.String() && x.Binary() == y.Binary()
	case datamodel.Kind_List:
		if a.Length() != b.Length() {
			return false
		}
		for i := int64(0); i < a.Length(); i++ {
			x, _ := a.LookupByIndex(i)
			y, _ := b.LookupByIndex(i)
			if !nodeEquiv(x, y) {
				return false
			}
		}
		return true
	case datamodel.Kind_Map:
		if a.Length() != b.Length() {
			return false
		}
		for it := a.MapIterator(); !it.Done(); {
			k, x, _ := it.Next()
			ks, _ := k.AsString()
			y, err := b.LookupByString(ks)
			if err != nil || !nodeEquiv(x, y) {
				return false
			}
		}
		return true
	}
	return false
}

func extsEquiv(a, b extPart) string {
	na, nb := a.ExtensionNames(), b.ExtensionNames()
	if len(na) != len(nb) {
		return fmt.Sprintf("extension count %d vs %d", len(na), len(nb))
	}
	for _, n := range na {
		x, _ := a.Extension(n)
		y, ok := b.Extension(n)
		if !ok {
			return fmt.Sprintf("extension %q lost", n)
		}
		if !nodeEquiv(x, y) {
			return fmt.Sprintf("extension %q changed", n)
		}
	}
	return ""
}

// equivMsg: C11's "equivalent message" written from the property text: same requests by ID (a
// cancel carries only its ID, an update only its extensions), same responses (status, link
// metadata in order, extensions), same blocks by CID.
func equivMsg(a, b message.GraphSyncMessage) string {
	ra, rb := a.Requests(), b.Requests()
	if len(ra) != len(rb) {
		return fmt.Sprintf("%d requests became %d", len(ra), len(rb))
	}
	bmap := map[graphsync.RequestID]message.GraphSyncRequest{}
	for _, r := range rb {
		bmap[r.ID()] = r
	}
	for _, x := range ra {
		y, ok := bmap[x.ID()]
		if !ok {
			return "request " + x.ID().String() + " lost"
		}
		if x.Type() != y.Type() {
			return "request type changed"
		}
		if x.Type() == graphsync.RequestTypeCancel {
			continue
		}
		if why := extsEquiv(x, y); why != "" {
			return "request " + why
		}
		if x.Type() == graphsync.RequestTypeUpdate {
			continue
		}
		if x.Priority() != y.Priority() {
			return fmt.Sprintf("priority %d became %d", x.Priority(), y.Priority())
		}
		if !x.Root().Equals(y.Root()) {
			return "root changed"
		}
		if (x.Selector() == nil) != (y.Selector() == nil) || (x.Selector() != nil && !nodeEquiv(x.Selector(), y.Selector())) {
			return "selector changed"
		}
	}
	sa, sb := a.Responses(), b.Responses()
	if len(sa) != len(sb) {
		return fmt.Sprintf("%d responses became %d", len(sa), len(sb))
	}
	smap := map[graphsync.RequestID]message.GraphSyncResponse{}
	for _, r := range sb {
		smap[r.RequestID()] = r
	}
	for _, x := range sa {
		y, ok := smap[x.RequestID()]
		if !ok {
			return "response lost"
		}
		if x.Status() != y.Status() {
			return fmt.Sprintf("status %d became %d", x.Status(), y.Status())
		}
		type md struct {
			c cid.Cid
			a graphsync.LinkAction
		}
		var mx, my []md
		x.Metadata().Iterate(func(c cid.Cid, a graphsync.LinkAction) { mx = append(mx, md{c, a}) })
		y.Metadata().Iterate(func(c cid.Cid, a graphsync.LinkAction) { my = append(my, md{c, a}) })
		if len(mx) != len(my) {
			return fmt.Sprintf("%d metadata entries became %d", len(mx), len(my))
		}
		for i := range mx {
			if !mx[i].c.Equals(my[i].c) || mx[i].a != my[i].a {
				return fmt.Sprintf("metadata entry %d changed", i)
			}
		}
		if why := extsEquiv(x, y); why != "" {
			return "response " + why
		}
	}
	ba, bb := a.Blocks(), b.Blocks()
	if len(ba) != len(bb) {
		return fmt.Sprintf("%d blocks became %d", len(ba), len(bb))
	}
	kmap := map[cid.Cid][]byte{}
	for _, x := range bb {
		kmap[x.Cid()] = x.RawData()
	}
	for _, x := range ba {
		d, ok := kmap[x.Cid()]
		if !ok {
			return "block " + x.Cid().String() + " lost"
		}
		if !bytes.Equal(d, x.RawData()) {
			return "block data changed"
		}
	}
	return ""
}

// ---------------------------------------------------------------- ops

func stripFrame(b []byte) []byte {
	_, n := binary.Uvarint(b)
	if n <= 0 {
		return nil
	}
	return b[n:]
}

func partsOf(list *V) (string, int) {
	if list == nil || list.K != 'a' {
		return "[]", 0
	}
	var hs []string
	for _, v := range list.A {
		hs = append(hs, hx(v.enc(nil)))
	}
	sort.Strings(hs)
	return "[" + strings.Join(hs, ",") + "]", len(hs)
}

// encLine describes ToNet's output up to the order of the elements of the three top-level lists
// (which is the iteration order of Go maps): total length, the bytes themselves when no list has
// more than one element, and the sorted encodings of the elements. The payload is split with the
// harness's own plain CBOR reader and must re-assemble to the same bytes.
func encLine(frame []byte) string {
	payload := stripFrame(frame)
	t, rest := parseTree(payload)
	if t == nil || len(rest) != 0 {
		return "unparsable"
	}
	if !bytes.Equal(t.enc(nil), payload) {
		return "noncanonical"
	}
	inner := t.get("gs2")
	if inner == nil {
		return "bad-shape"
	}
	rq, n1 := partsOf(inner.get("req"))
	rs, n2 := partsOf(inner.get("rsp"))
	bl, n3 := partsOf(inner.get("blk"))
	full := "-"
	if n1 <= 1 && n2 <= 1 && n3 <= 1 {
		full = hx(frame)
	}
	return fmt.Sprintf("n=%d full=%s req=%s rsp=%s blk=%s", len(frame), full, rq, rs, bl)
}

func cidList(cs []cid.Cid) string {
	var hs []string
	for _, c := range cs {
		hs = append(hs, hx(c.Bytes()))
	}
	sort.Strings(hs)
	return "[" + strings.Join(hs, ",") + "]"
}

func setList(s *cid.Set) string { return cidList(s.Keys()) }

func encodeNode(n datamodel.Node, w io.Writer) error { return dagcbor.Encode(n, w) }

func decodeGeneric(b []byte) (n datamodel.Node, err error) {
	defer func() {
		if p := recover(); p != nil {
			err = fmt.Errorf("panic: %v", p)
		}
	}()
	nb := basicnode.Prototype.Any.NewBuilder()
	if err := dagcbor.Decode(nb, bytes.NewReader(b)); err != nil {
		return nil, err
	}
	return nb.Build(), nil
}

// chunkReader hands out its data in small pieces (n bytes per Read), like a network stream does.
type chunkReader struct {
	b []byte
	n int
}

func (c *chunkReader) Read(p []byte) (int, error) {
	if len(c.b) == 0 {
		return 0, io.EOF
	}
	k := c.n
	if k > len(p) {
		k = len(p)
	}
	if k > len(c.b) {
		k = len(c.b)
	}
	copy(p, c.b[:k])
	c.b = c.b[k:]
	return k, nil
}

// readStream decodes a byte stream message by message through one public entry point until it
// fails: `next` is called repeatedly on the same underlying reader.
func readStream(out *reg.Out, what string, next func() (message.GraphSyncMessage, error)) (string, []message.GraphSyncMessage) {
	var nfs []string
	var msgs []message.GraphSyncMessage
	end := "err"
	for {
		r, hung := guarded(out, what, next)
		if hung {
			break
		}
		if r.err != nil {
			if r.err == io.EOF {
				end = "eof"
			}
			break
		}
		checkDelivered(out, r.m)
		msgs = append(msgs, r.m)
		nfs = append(nfs, nf(r.m))
	}
	return strings.Join(append([]string{fmt.Sprintf("%d %s", len(nfs), end)}, nfs...), " | "), msgs
}

type streamPath struct {
	name string
	line string
	msgs []message.GraphSyncMessage
}

// streamPaths reads the same bytes through every public way of reading a stream of messages:
// FromMsgReader on one msgio reader (what handleNewStream does), and successive FromNet calls on one
// plain io.Reader -- a bytes.Reader, a reader that returns one byte per Read, and one that returns
// 7-byte chunks.
func streamPaths(out *reg.Out, b []byte) []streamPath {
	var ps []streamPath
	mr := msgio.NewVarintReaderSize(bytes.NewReader(b), network.MessageSizeMax)
	l, m := readStream(out, "FromMsgReader", func() (message.GraphSyncMessage, error) {
		return handler.FromMsgReader(peer.ID("p"), mr)
	})
	ps = append(ps, streamPath{"FromMsgReader(one msgio reader)", l, m})
	readers := []struct {
		name string
		r    io.Reader
	}{
		{"FromNet x n (bytes.Reader)", bytes.NewReader(b)},
		{"FromNet x n (1 byte per Read)", &chunkReader{b: b, n: 1}},
		{"FromNet x n (7 bytes per Read)", &chunkReader{b: b, n: 7}},
	}
	for _, rd := range readers {
		if len(b) > 1<<20 && rd.name != "FromNet x n (bytes.Reader)" {
			continue // keep the 4 MiB cases cheap
		}
		r := rd.r
		l, m := readStream(out, rd.name, func() (message.GraphSyncMessage, error) {
			return handler.FromNet(peer.ID("p"), r)
		})
		ps = append(ps, streamPath{rd.name, l, m})
	}
	return ps
}

// streamLine: the common result of all entry points (a disagreement between them is printed, and
// therefore diverges from the model, which has one notion of reading a stream).
func streamLine(out *reg.Out, b []byte) (string, []streamPath) {
	ps := streamPaths(out, b)
	for _, p := range ps[1:] {
		if p.line != ps[0].line {
			out.Cov("stream:entry-points-differ")
			return fmt.Sprintf("entry-points-differ [%s] %s <> [%s] %s", ps[0].name, ps[0].line, p.name, p.line), ps
		}
	}
	return ps[0].line, ps
}

func runOp(out *reg.Out, builder bool, op []string) string {
	defer func() {
		if p := recover(); p != nil {
			out.Fail("panic", "op %s panicked in the harness or the code under test: %v", op[0], p)
		}
	}()
	out.Cov("op:" + op[0])
	switch op[0] {
	case "hash":
		return "ok"
	case "enc":
		m, err := buildMsg(&toks{t: op[1:]}, builder)
		if err != nil {
			return "bad-op"
		}
		b, err := toNet(out, m)
		if err != nil {
			out.Cov("enc:err")
			return "err"
		}
		return encLine(b)
	case "rt", "rtx":
		m, err := buildMsg(&toks{t: op[1:]}, builder)
		if err != nil {
			return "bad-op"
		}
		b, err := toNet(out, m)
		if err != nil {
			if op[0] == "rt" {
				out.Fail("roundtrip-error", "ToNet failed on a well-formed message: %v", err)
			}
			out.Cov("rt:enc-err")
			return "err"
		}
		m2, err := fromNet(out, b)
		if err != nil {
			if op[0] == "rt" {
				out.Fail("roundtrip-error", "FromNet(ToNet(m)) failed on a well-formed message: %v", err)
			}
			out.Cov("rt:dec-err")
			return "err"
		}
		if op[0] == "rt" {
			if why := equivMsg(m, m2); why != "" {
				out.Fail("roundtrip-mismatch", "FromNet(ToNet(m)) is not equivalent to m: %s", why)
			}
		}
		out.Cov("rt:ok")
		return "ok " + nf(m2)
	case "streamrt":
		p := &toks{t: op[1:]}
		var ms []message.GraphSyncMessage
		var buf bytes.Buffer
		for {
			m, err := buildMsg(p, builder)
			if err != nil {
				return "bad-op"
			}
			b, err := toNet(out, m)
			if err != nil {
				out.Fail("roundtrip-error", "ToNet failed on a well-formed message: %v", err)
				return "err"
			}
			buf.Write(b)
			ms = append(ms, m)
			if !p.more() {
				break
			}
			p.next() // ";"
		}
		line, paths := streamLine(out, buf.Bytes())
		// C11: through every entry point, all messages in order, then EOF
		for _, p := range paths {
			got := p.msgs
			if len(got) != len(ms) {
				out.Fail("stream-order", "%s: %d messages written, %d read back", p.name, len(ms), len(got))
				continue
			}
			for i := range ms {
				if why := equivMsg(ms[i], got[i]); why != "" {
					out.Fail("stream-order", "%s: message %d of the stream: %s", p.name, i, why)
				}
			}
			if !strings.HasPrefix(p.line, fmt.Sprintf("%d eof", len(ms))) {
				out.Fail("stream-order", "%s: stream of well-formed messages did not end with EOF", p.name)
			}
		}
		out.CovN("streamrt:msgs", len(ms))
		return line
	case "dec":
		b, err := unhx(op[1])
		if err != nil {
			return "bad-op"
		}
		m, err := fromNet(out, b)
		if err != nil {
			out.Cov("dec:err")
			return "err"
		}
		out.Cov("dec:ok")
		out.CovN("dec:ok-blocks", len(m.Blocks()))
		return "ok " + nf(m)
	case "decbad":
		// bytes the generator built to be malformed: FromNet must report an error
		b, err := unhx(op[1])
		if err != nil {
			return "bad-op"
		}
		m, err := fromNet(out, b)
		if err != nil {
			out.Cov("decbad:err")
			return "err"
		}
		out.Fail("malformed-accepted", "a frame holding a complete message FOLLOWED BY EXTRA BYTES was decoded and delivered instead of being rejected")
		return "ok " + nf(m)
	case "stream":
		b, err := unhx(op[1])
		if err != nil {
			return "bad-op"
		}
		line, paths := streamLine(out, b)
		out.CovN("stream:msgs", len(paths[0].msgs))
		return line
	case "cbor":
		b, err := unhx(op[1])
		if err != nil {
			return "bad-op"
		}
		n, err := decodeGeneric(b)
		if err != nil {
			out.Cov("cbor:err")
			return "err"
		}
		out.Cov("cbor:ok")
		return "ok " + strings.Join(nodeToks(n), ",")
	case "cborenc":
		n, err := (&toks{t: op[1:]}).node()
		if err != nil {
			return "bad-op"
		}
		var buf bytes.Buffer
		if err := dagcbor.Encode(n, &buf); err != nil {
			return "err"
		}
		// the codec alone must round-trip too
		n2, err := decodeGeneric(buf.Bytes())
		if err != nil || !nodeEquiv(n, n2) {
			out.Fail("ext-codec", "dag-cbor decode(encode v) differs from v (%v)", err)
		}
		return hx(buf.Bytes())
	case "cidset":
		p := &toks{t: op[1:]}
		k, err := p.nat()
		if err != nil {
			return "bad-op"
		}
		set := cid.NewSet()
		for i := uint64(0); i < k; i++ {
			b, err := p.hex()
			if err != nil {
				return "bad-op"
			}
			c, err := cid.Cast(b)
			if err != nil {
				return "bad-op"
			}
			set.Add(c)
		}
		node := cidset.EncodeCidSet(set)
		var enc []cid.Cid
		for it := node.ListIterator(); !it.Done(); {
			_, v, _ := it.Next()
			l, err := v.AsLink()
			if err != nil {
				return "enc=? dec=?"
			}
			enc = append(enc, l.(cidlink.Link).Cid)
		}
		// through the wire codec as well
		var buf bytes.Buffer
		_ = dagcbor.Encode(node, &buf)
		node2, err := decodeGeneric(buf.Bytes())
		dec := "err"
		if err == nil {
			if s2, err := cidset.DecodeCidSet(node2); err == nil {
				dec = setList(s2)
				if s2.Len() != set.Len() {
					out.Fail("ext-codec", "cid set of %d elements decoded to %d", set.Len(), s2.Len())
				}
				_ = set.ForEach(func(c cid.Cid) error {
					if !s2.Has(c) {
						out.Fail("ext-codec", "cid %s lost from the do-not-send-cids payload", c)
					}
					return nil
				})
			}
		}
		if dec == "err" {
			out.Fail("ext-codec", "do-not-send-cids payload did not decode")
		}
		return fmt.Sprintf("enc=%s dec=%s", cidList(enc), dec)
	case "cidsetdec":
		n, err := (&toks{t: op[1:]}).node()
		if err != nil {
			return "bad-op"
		}
		s, err := cidset.DecodeCidSet(n)
		if err != nil {
			return "err"
		}
		return "ok " + setList(s)
	case "dedup":
		b, err := unhx(op[1])
		if err != nil {
			return "bad-op"
		}
		n, err := dedupkey.EncodeDedupKey(string(b))
		if err != nil {
			out.Fail("ext-codec", "EncodeDedupKey failed: %v", err)
			return "err"
		}
		var buf bytes.Buffer
		_ = dagcbor.Encode(n, &buf)
		n2, err := decodeGeneric(buf.Bytes())
		dec := "err"
		if err == nil {
			if s, err := dedupkey.DecodeDedupKey(n2); err == nil {
				dec = hx([]byte(s))
				if s != string(b) {
					out.Fail("ext-codec", "dedup key %q decoded to %q", b, s)
				}
			}
		}
		if dec == "err" {
			out.Fail("ext-codec", "dedup-by-key payload did not decode")
		}
		return fmt.Sprintf("enc=%s dec=%s", strings.Join(nodeToks(n), ","), dec)
	case "dedupdec":
		n, err := (&toks{t: op[1:]}).node()
		if err != nil {
			return "bad-op"
		}
		s, err := dedupkey.DecodeDedupKey(n)
		if err != nil {
			return "err"
		}
		return "ok " + hx([]byte(s))
	case "fb":
		v, err := strconv.ParseInt(op[1], 10, 64)
		if err != nil {
			return "bad-op"
		}
		n := donotsendfirstblocks.EncodeDoNotSendFirstBlocks(v)
		var buf bytes.Buffer
		_ = dagcbor.Encode(n, &buf)
		n2, err := decodeGeneric(buf.Bytes())
		dec := "err"
		if err == nil {
			if d, err := donotsendfirstblocks.DecodeDoNotSendFirstBlocks(n2); err == nil {
				dec = strconv.FormatInt(d, 10)
				if d != v {
					out.Fail("ext-codec", "do-not-send-first-blocks %d decoded to %d", v, d)
				}
			}
		}
		if dec == "err" {
			out.Fail("ext-codec", "do-not-send-first-blocks payload did not decode")
		}
		return fmt.Sprintf("enc=%s dec=%s", strings.Join(nodeToks(n), ","), dec)
	case "fbdec":
		n, err := (&toks{t: op[1:]}).node()
		if err != nil {
			return "bad-op"
		}
		d, err := donotsendfirstblocks.DecodeDoNotSendFirstBlocks(n)
		if err != nil {
			return "err"
		}
		return "ok " + strconv.FormatInt(d, 10)
	}
	return "bad-op"
}

// Run executes the cases against the real codec.
func Run(cases []reg.Case, out *reg.Out) {
	for _, c := range cases {
		out.BeginCase(c)
		for _, op := range c.Ops {
			out.Line("%s", runOp(out, isBuilderCase(c.Header), op))
		}
	}
}
