import GSProofs.Lemmas.RespLifeOutcomeQMgr
/-!
Outcome accounting, part 3: the publisher-queue automata for completed notifications.

`kOK`: every `emitDone r` is guarded by a `callTerminate r` in front of it (or by the start flag: a pending
`terminate r` call of that publisher, or the response not being live).  `wf3`: no `emitDone r` behind a
`callClose r` (or while the start flag — a pending `closeNetErr r` — is set).
-/
namespace GS.RespLife

def termFrom (r : Id) (p : Peer) : Msg → Bool
  | .terminate id _ pub => id == r && pub == p
  | _ => false

def pendT (r : Id) (p : Peer) (mb : List Msg) : Bool := mb.any (termFrom r p)

def isClose (r : Id) : PStep → Bool
  | .callClose id _ => id == r
  | _ => false

def hasClose (r : Id) (q : List PStep) : Bool := q.any (isClose r)

def kOK (r : Id) : Bool → List PStep → Bool
  | _, [] => true
  | t, .callTerminate id _ :: q => kOK r (t || id == r) q
  | t, .emitDone id _ :: q => if id == r then (t && kOK r false q) else kOK r t q
  | t, .emitBs _ _ :: q => kOK r t q
  | t, .callClose _ _ :: q => kOK r t q
  | t, .emitNerr _ :: q => kOK r t q

def wf3 (r : Id) : Bool → List PStep → Bool
  | _, [] => true
  | t, .callClose id _ :: q => wf3 r (t || id == r) q
  | t, .emitDone id _ :: q => !(t && id == r) && wf3 r t q
  | t, .emitBs _ _ :: q => wf3 r t q
  | t, .callTerminate _ _ :: q => wf3 r t q
  | t, .emitNerr _ :: q => wf3 r t q

/-- the response is in the table, or its newRequest is parked -/
def live (r : Id) (s : State) : Bool := (lookup s r).isSome || PN r s.park == 1

-- ------------------------------------------------------------------ kOK
theorem kOK_mono (r : Id) : ∀ (q : List PStep) (t : Bool), kOK r t q = true → kOK r true q = true := by
  intro q
  induction q with
  | nil => intro _ _; rfl
  | cons x q ih =>
    intro t h
    cases x with
    | callTerminate id inc =>
      simp only [kOK, Bool.true_or] at h ⊢
      exact ih _ h
    | emitDone id c =>
      simp only [kOK] at h ⊢
      split at h
      · rename_i hid
        simp only [hid, if_true, Bool.and_eq_true] at h ⊢
        simpa using h.2
      · rename_i hid
        simp only [hid]
        exact ih _ h
    | emitBs _ _ => exact ih t h
    | callClose _ _ => exact ih t h
    | emitNerr _ => exact ih t h

theorem kOK_le (r : Id) (q : List PStep) {t t' : Bool} (hle : t = true → t' = true) (h : kOK r t q = true) :
    kOK r t' q = true := by
  cases t' with
  | true => exact kOK_mono r q t h
  | false =>
    cases t with
    | false => exact h
    | true => exact absurd (hle rfl) (by simp)

def isDone (r : Id) : PStep → Bool
  | .emitDone id _ => id == r
  | _ => false

theorem kOK_noDone (r : Id) : ∀ (q : List PStep) (t : Bool), (∀ st ∈ q, isDone r st = false) → kOK r t q = true := by
  intro q
  induction q with
  | nil => intro _ _; rfl
  | cons x q ih =>
    intro t h
    have hq : ∀ st ∈ q, isDone r st = false := fun st hst => h st (List.mem_cons_of_mem _ hst)
    cases x with
    | callTerminate id inc => exact ih _ hq
    | emitDone id c =>
      have : (id == r) = false := h (.emitDone id c) List.mem_cons_self
      simp only [kOK, this, Bool.false_eq_true, if_false]
      exact ih _ hq
    | emitBs _ _ => exact ih t hq
    | callClose _ _ => exact ih t hq
    | emitNerr _ => exact ih t hq

/-- appending steps that are guarded by themselves -/
theorem kOK_append (r : Id) (b : List PStep) (hb : ∀ t, kOK r t b = true) :
    ∀ (a : List PStep) (t : Bool), kOK r t a = true → kOK r t (a ++ b) = true := by
  intro a
  induction a with
  | nil => intro t _; exact hb t
  | cons x a ih =>
    intro t h
    cases x with
    | callTerminate id inc => exact ih _ h
    | emitDone id c =>
      simp only [List.cons_append, kOK] at h ⊢
      split
      · rename_i hid
        simp only [hid, if_true, Bool.and_eq_true] at h ⊢
        exact ⟨h.1, ih _ h.2⟩
      · rename_i hid
        simp only [hid] at h
        exact ih _ h
    | emitBs _ _ => exact ih t h
    | callClose _ _ => exact ih t h
    | emitNerr _ => exact ih t h

theorem kOK_sentSteps (r : Id) (e : Entry) (rest : List PStep) (hr : ∀ t, kOK r t rest = true) :
    ∀ t, kOK r t (sentSteps e ++ rest) = true := by
  intro t
  unfold sentSteps
  simp only
  by_cases hb : e.bdata > 0
  · by_cases ht : isTerminal (if e.inResp then e.code.getD stPartial else 0) = true
    · simp only [hb, ht, if_true, List.cons_append, List.nil_append, List.append_assoc, kOK]
      split
      · rename_i hid
        simp [hr, hid]
      · exact hr _
    · simp only [hb, ht, if_true, List.cons_append, List.nil_append, kOK]
      simpa using hr t
  · by_cases ht : isTerminal (if e.inResp then e.code.getD stPartial else 0) = true
    · simp only [hb, ht, if_true, if_false, List.cons_append, List.nil_append, kOK]
      split
      · rename_i hid
        simp [hr, hid]
      · exact hr _
    · simp only [hb, ht, if_false, List.nil_append]
      simpa using hr t

theorem kOK_flat_sent (r : Id) (l : List Entry) : ∀ t, kOK r t (l.map sentSteps).flatten = true := by
  induction l with
  | nil => intro _; rfl
  | cons e l ih =>
    simp only [List.map_cons, List.flatten_cons]
    exact kOK_sentSteps r e _ ih

theorem isDone_errSteps (r : Id) (e : Entry) : ∀ st ∈ errSteps e, isDone r st = false := by
  intro st hst
  unfold errSteps at hst
  simp only [List.mem_append, List.mem_singleton] at hst
  rcases hst with (h | h) | h
  · subst h; rfl
  · by_cases ht : isTerminal (if e.inResp then e.code.getD stPartial else 0) = true
    · rw [if_pos ht] at h; simp only [List.mem_singleton] at h; subst h; rfl
    · rw [if_neg ht] at h; cases h
  · subst h; rfl

theorem isDone_flat_err (r : Id) (l : List Entry) : ∀ st ∈ (l.map errSteps).flatten, isDone r st = false := by
  intro st hst
  simp only [List.mem_flatten, List.mem_map] at hst
  obtain ⟨ys, ⟨e, _, rfl⟩, hst⟩ := hst
  exact isDone_errSteps r e st hst

theorem kOK_erase_nerr (r : Id) (id : Id) : ∀ (q : List PStep) (t : Bool),
    kOK r t (q.erase (.emitNerr id)) = kOK r t q := by
  intro q
  induction q with
  | nil => intro _; rfl
  | cons x q ih =>
    intro t
    rw [List.erase_cons]
    split
    · rename_i h
      have hx : x = .emitNerr id := by simpa using h
      subst hx; rfl
    · cases x with
      | callTerminate i inc => exact ih _
      | emitDone i c =>
        simp only [kOK]
        split
        · rw [ih]
        · exact ih t
      | emitBs _ _ => exact ih t
      | callClose _ _ => exact ih t
      | emitNerr _ => exact ih t

-- ------------------------------------------------------------------ wf3
theorem wf3_anti (r : Id) : ∀ (q : List PStep) (t : Bool), wf3 r true q = true → wf3 r t q = true := by
  intro q
  induction q with
  | nil => intro _ _; rfl
  | cons x q ih =>
    intro t h
    cases x with
    | callClose id inc =>
      simp only [wf3, Bool.true_or] at h ⊢
      cases t with
      | true => simpa using h
      | false =>
        by_cases hid : (id == r) = true
        · simpa [hid] using h
        · have : (id == r) = false := by simpa using hid
          simp only [this, Bool.or_false]
          exact ih false h
    | emitDone id c =>
      simp only [wf3, Bool.true_and, Bool.and_eq_true, Bool.not_eq_true'] at h ⊢
      refine ⟨?_, ih t h.2⟩
      cases t <;> simp [h.1]
    | emitBs _ _ => exact ih t h
    | callTerminate _ _ => exact ih t h
    | emitNerr _ => exact ih t h

theorem wf3_append (r : Id) (b : List PStep) : ∀ (a : List PStep) (t : Bool),
    wf3 r t (a ++ b) = (wf3 r t a && wf3 r (t || hasClose r a) b) := by
  intro a
  induction a with
  | nil => intro t; simp [wf3, hasClose]
  | cons x a ih =>
    intro t
    cases x with
    | callClose id inc =>
      simp only [List.cons_append, wf3, hasClose, List.any_cons, isClose]
      rw [ih]
      simp [hasClose, Bool.or_assoc]
    | emitDone id c =>
      simp only [List.cons_append, wf3, hasClose, List.any_cons, isClose, Bool.false_or]
      rw [ih]
      simp [hasClose, Bool.and_assoc]
    | emitBs _ _ =>
      simp only [List.cons_append, wf3, hasClose, List.any_cons, isClose, Bool.false_or]
      rw [ih]; rfl
    | callTerminate _ _ =>
      simp only [List.cons_append, wf3, hasClose, List.any_cons, isClose, Bool.false_or]
      rw [ih]; rfl
    | emitNerr _ =>
      simp only [List.cons_append, wf3, hasClose, List.any_cons, isClose, Bool.false_or]
      rw [ih]; rfl

theorem wf3_noDone (r : Id) : ∀ (q : List PStep) (t : Bool), (∀ st ∈ q, isDone r st = false) → wf3 r t q = true := by
  intro q
  induction q with
  | nil => intro _ _; rfl
  | cons x q ih =>
    intro t h
    have hq : ∀ st ∈ q, isDone r st = false := fun st hst => h st (List.mem_cons_of_mem _ hst)
    cases x with
    | callClose id inc => exact ih _ hq
    | emitDone id c =>
      have : (id == r) = false := h (.emitDone id c) List.mem_cons_self
      simp only [wf3, this, Bool.and_false, Bool.not_false, Bool.true_and]
      exact ih _ hq
    | emitBs _ _ => exact ih t hq
    | callTerminate _ _ => exact ih t hq
    | emitNerr _ => exact ih t hq

theorem wf3_noClose (r : Id) : ∀ (q : List PStep), hasClose r q = false → wf3 r false q = true := by
  intro q
  induction q with
  | nil => intro _; rfl
  | cons x q ih =>
    intro h
    simp only [hasClose, List.any_cons, Bool.or_eq_false_iff] at h
    cases x with
    | callClose id inc =>
      have : (id == r) = false := h.1
      simp only [wf3, this, Bool.or_false]
      exact ih h.2
    | emitDone id c =>
      simp only [wf3, Bool.false_and, Bool.not_false, Bool.true_and]
      exact ih h.2
    | emitBs _ _ => exact ih h.2
    | callTerminate _ _ => exact ih h.2
    | emitNerr _ => exact ih h.2

theorem tokQ_of_wf3 (r : Id) : ∀ (q : List PStep), wf3 r true q = true → tokQ r q = 0 := by
  intro q
  induction q with
  | nil => intro _; rfl
  | cons x q ih =>
    intro h
    cases x with
    | callClose id inc =>
      simp only [wf3, Bool.true_or] at h
      simp only [tokQ, List.countP_cons, doneStep] at ih ⊢
      simpa using ih h
    | emitDone id c =>
      simp only [wf3, Bool.true_and, Bool.and_eq_true, Bool.not_eq_true'] at h
      simp only [tokQ, List.countP_cons, doneStep, h.1] at ih ⊢
      simpa using ih h.2
    | emitBs _ _ =>
      simp only [tokQ, List.countP_cons, doneStep] at ih ⊢
      simpa using ih h
    | callTerminate _ _ =>
      simp only [tokQ, List.countP_cons, doneStep] at ih ⊢
      simpa using ih h
    | emitNerr _ =>
      simp only [tokQ, List.countP_cons, doneStep] at ih ⊢
      simpa using ih h

theorem wf3_erase_nerr (r : Id) (id : Id) : ∀ (q : List PStep) (t : Bool),
    wf3 r t (q.erase (.emitNerr id)) = wf3 r t q := by
  intro q
  induction q with
  | nil => intro _; rfl
  | cons x q ih =>
    intro t
    rw [List.erase_cons]
    split
    · rename_i h
      have hx : x = .emitNerr id := by simpa using h
      subst hx; rfl
    · cases x with
      | callClose i inc => exact ih _
      | emitDone i c => simp only [wf3]; rw [ih]
      | emitBs _ _ => exact ih t
      | callTerminate _ _ => exact ih t
      | emitNerr _ => exact ih t

theorem hasClose_erase_nerr (r : Id) (id : Id) : ∀ (q : List PStep),
    hasClose r (q.erase (.emitNerr id)) = hasClose r q := by
  intro q
  induction q with
  | nil => rfl
  | cons x q ih =>
    rw [List.erase_cons]
    split
    · rename_i h
      have hx : x = .emitNerr id := by simpa using h
      subst hx
      simp [hasClose, isClose]
    · simp only [hasClose, List.any_cons] at ih ⊢
      rw [ih]

theorem hasClose_append (r : Id) (a b : List PStep) : hasClose r (a ++ b) = (hasClose r a || hasClose r b) := by
  simp [hasClose, List.any_append]

theorem tokQ_erase_any (r : Id) (q : List PStep) (id : Id) : tokQ r (q.erase (.emitNerr id)) = tokQ r q :=
  tokQ_erase_nerr r q id

end GS.RespLife
