import GSProofs.C06
import GSProofs.C02
import GSProofs.Lemmas.PauseReach
/-!
# C06 — a requestor-side pause after the request went online, resumed by a RE-OPENING executor

`GSProofs/C06.lean` ends with the open case (c): the resumed executor misses locally, goes online
again (`SetRemoteOnline(true)`: queue emptied, fresh verifier over the traversal record of everything
loaded so far), re-sends the request with do-not-send-first-blocks and verifies the new response
against that record.  `requestor_reopen_partial` there is STATE-conditional: it assumes facts about the
loader at the moment the second response arrives.  This file removes those assumptions: the facts are
invariants of the executor (`GSProofs/Lemmas/PauseReach.lean`: record = the loads made so far, their
blocks in the store, the parked load is the load under the cursor), so the theorems below are about
`PauseResume.exchange` from the initial state.
-/
namespace GS.C06
open GS.Loader GS.Requestor GS.PauseResume

theorem pexchange_snoc (st : List (Cid × Blk)) (lt : LT) (u : Nat) (hs : List Nat) (ops : List PauseResume.Op)
    (o : PauseResume.Op) :
    PauseResume.exchange st lt u hs (ops ++ [o]) =
      ((PauseResume.step (PauseResume.exchange st lt u hs ops).1 o).1,
        (PauseResume.exchange st lt u hs ops).2 ++ (PauseResume.step (PauseResume.exchange st lt u hs ops).1 o).2) := by
  unfold PauseResume.exchange
  simp only
  rw [prun_append]
  simp [PauseResume.run]

/-- the loader of the parked, re-opened request after the whole honest response has been ingested and
    its final status has taken the loader offline -/
theorem parked_after_response (rem : Cid → Bool) (l : Loader.State) (lt : LT) (w : Nat) (hlt : lt ≠ [])
    (hopen : l.isOpen = true) (hrq : l.rq = {}) :
    Loader.setOnline (Loader.ingest l (mdOf (respItemsW rem lt [] w)) (blocksOfItems (respItemsW rem lt [] w))) false =
      { l with rq := { q := respItemsW rem lt [] w }, isOpen := false } := by
  have hmd : (mdOf (respItemsW rem lt [] w)).isEmpty = false := by
    cases lt with
    | nil => exact absurd rfl hlt
    | cons n rest => rw [respItemsW]; split <;> simp [mdOf]
  have hq : RQ.queue ({} : RQ) (respItemsW rem lt [] w) = { q := respItemsW rem lt [] w } := by
    rw [queue_tailOn _ _ rfl]; rfl
  unfold Loader.ingest Loader.setOnline
  simp [hmd, hopen, hrq, honest_items_rebuiltW, hq]

/-- **C06.requestor_reopen_online** (case (c) end to end, from the initial state).
    Link tree `root :: tl` (well formed, paths in depth-first order), any local store, any user skip
    value `u`, hook pause at block `k`.  Any messages `m1` during which block `k` is not loaded, then
    a message `M` (any content, no failure status) during which the block hook pauses the request at
    block `k` (`hpaused`); every load up to the pause was answered with data (`hnm`: no
    missing-block report; `hcur`: the cursor has passed exactly `k` links).  The request is resumed
    (`Unpause`) and the resumed executor — after consuming what the cancelled response left in the
    queue and what the local store holds — misses locally and goes ONLINE AGAIN, re-sending the request
    with do-not-send-first-blocks `w` (`hre`: that is the one request message sent after the pause;
    the first response's unconsumed items are discarded at that moment, /repo b4f998f).  Nothing of the
    cancelled response arrives any more (the negation of the known finding
    `stale-response-after-resume`); the honest response to the RESUMED request (`respItemsW rem lt [] w`
    = `Responder.respondSpec` with skip `w`) arrives as one message with its final status 20 / 21.
    Under the negation of C02's two finding classes on resume (`hremroot`: not `root-not-found-abort`;
    `hwin`: not `resume-skip-prefix-mismatch`) and with no stale path-tracker value (`hunf`), the answers
    reported by the whole exchange — before the pause, after the resume, after the re-opening — are
    exactly the reference traversal `refTrav` of the link tree over the responder's store and the
    requestor's store at the re-opening, and the final store holds exactly what `refTrav` says.
    Restriction (stated in `hnm` / `hcur` and implied for the loads after `Unpause`): every load
    before the re-opening was delivered; records with failed loads are not covered. -/
theorem requestor_reopen_online (rem : Cid → Bool) (loc : List (Cid × Blk)) (hloc : HonestStore loc)
    (root : LNode) (tl : LT) (u k : Nat) (m1 : List Requestor.Msg) (M : Requestor.Msg) (w st : Nat)
    (hst : st = 20 ∨ st = 21)
    (hwf : Loader.WF (root :: tl)) (hroot0 : root.path = []) (hne : ∀ m ∈ tl, m.path ≠ [])
    (hdep : ∀ m ∈ tl, m.depth ≠ 0) (hdfs : PathsDFS ((root :: tl).map (·.path)))
    (hwk : ∀ m, PauseResume.Op.msg m ∈ m1.map toOp ++ [toOp M] → WellKeyed m.blocks)
    (hpre : (Requestor.exchange loc (root :: tl) u m1).1.nBlocks < k)
    (hctx : (Requestor.exchange loc (root :: tl) u m1).1.ctxCancelled = false)
    (hfail : isFailure M.status = false) :
    let lt := root :: tl
    let pausedX := PauseResume.exchange loc lt u [k] (m1.map toOp ++ [toOp M])
    let parkedX := PauseResume.exchange loc lt u [k] (m1.map toOp ++ [toOp M, PauseResume.Op.unpause])
    let items := respItemsW rem lt [] w
    let res := PauseResume.exchange loc lt u [k]
      (m1.map toOp ++ [toOp M, PauseResume.Op.unpause, toOp ⟨true, true, st, mdOf items, blocksOfItems items⟩])
    pausedX.1.paused = true →
    missingOf pausedX.2 = [] → pausedX.1.R.todo.length + k = lt.length →
    sentNews parkedX.2 = sentNews pausedX.2 ++ [w] →
    parkedX.1.R.L.unfollowed = [] →
    rem root.cid = true →
    (∀ it ∈ items.take w, it.action = .present → holds parkedX.1.R.L.store it.link = true) →
    resultsOf res.2 = (refTrav rem lt parkedX.1.R.L.store none).1.map keyOf ∧
    (∀ c, holds res.1.R.L.store c = holds (refTrav rem lt parkedX.1.R.L.store none).2 c) ∧
    res.1.paused = false ∧
    ∃ K, k ≤ K ∧ w = max u K ∧ parkedX.1.R.nBlocks = K ∧
      ∀ m ∈ lt.take K, holds parkedX.1.R.L.store m.cid = true := by
  intro lt pausedX parkedX items res hpaused hnm hcur hre hunf hremroot hwin
  obtain ⟨r', e0, hX, hk, hP⟩ := pause_point loc lt u k m1 M hpre hctx hfail hpaused
  have hX' : pausedX = ((stopForPause (hooked [k] r')).1, e0 ++ [Ev.sentCancel]) := hX
  -- the delivered prefix at the pause
  have hsteps : Steps lt pausedX.2 pausedX.1.R.todo := pause_resume_walk loc hloc lt u [k] _ hwk
  obtain ⟨ld, hld1, hld2⟩ := steps_results hsteps hnm
  have htodo' : pausedX.1.R.todo = r'.todo := by rw [hX']; rfl
  obtain ⟨loaded, hq⟩ := hP.1.1
  have hll : loaded = ld := hq.unique (by rw [← htodo']; exact hld1)
  subst hll
  have hlen : loaded.length = k := by
    have := congrArg List.length hld1
    simp only [List.length_append] at this
    omega
  -- the Unpause
  have hops1 : m1.map toOp ++ [toOp M, PauseResume.Op.unpause] = (m1.map toOp ++ [toOp M]) ++ [PauseResume.Op.unpause] := by simp
  have hpk : parkedX = ((PauseResume.unpause pausedX.1).1, pausedX.2 ++ (PauseResume.unpause pausedX.1).2) := by
    show PauseResume.exchange loc lt u [k] (m1.map toOp ++ [toOp M, PauseResume.Op.unpause]) = _
    rw [hops1, pexchange_snoc]
    rfl
  have hU := unpause_reopen lt u k r' loaded hP hq hk hlen
  have hX1 : pausedX.1 = (stopForPause (hooked [k] r')).1 := by rw [hX']
  rw [← hX1] at hU
  rcases hU with hno | ⟨extra, n, rest, evs, rP, h1, h2, h3, h4, h5⟩
  · exfalso
    rw [hpk] at hre
    simp only [sentNews_append, hno, List.append_nil] at hre
    have := congrArg List.length hre
    simp at this
  · rw [h1] at hpk
    simp only at hpk
    -- the skip value of the re-sent request
    have hw : w = max u (loaded ++ extra).length := by
      rw [hpk] at hre
      simp only [sentNews_append, h2, List.nil_append] at hre
      have := List.append_cancel_left hre
      simp only [sentNews, List.cons.injEq, and_true] at this
      exact this.symm
    -- the split of the link tree at the re-opening
    have hk0 : 0 < k := by omega
    cases hle : loaded ++ extra with
    | nil =>
      exfalso
      have := congrArg List.length hle
      simp only [List.length_append, List.length_nil] at this
      omega
    | cons root' pre' =>
      rw [hle] at h4 h5 hw
      have h4' : root :: tl = root' :: (pre' ++ n :: rest) := by
        have : lt = root :: tl := rfl
        rw [← this, h4]; simp
      simp only [List.cons.injEq] at h4'
      obtain ⟨hroot, htl⟩ := h4'
      subst hroot
      have hlt' : lt = root :: pre' ++ n :: rest := by
        show root :: tl = _
        rw [htl]; simp
      -- the second response
      have hops2 : m1.map toOp ++ [toOp M, PauseResume.Op.unpause, toOp ⟨true, true, st, mdOf items, blocksOfItems items⟩] =
          (m1.map toOp ++ [toOp M, PauseResume.Op.unpause]) ++ [toOp ⟨true, true, st, mdOf items, blocksOfItems items⟩] := by simp
      have hres : res = ((PauseResume.deliver parkedX.1 true true st (mdOf items) (blocksOfItems items)).1,
          parkedX.2 ++ (PauseResume.deliver parkedX.1 true true st (mdOf items) (blocksOfItems items)).2) := by
        show PauseResume.exchange loc lt u [k] _ = _
        rw [hops2, pexchange_snoc]
        rfl
      have hd : DeadAt [k] rP := by
        intro j hj
        simp only [List.mem_singleton] at hj
        rw [h5.nb]
        have := congrArg List.length hle
        simp only [List.length_append] at this
        omega
      have hL2 := parked_after_response rem rP.L lt w (by simp [lt]) h5.isOpen h5.rq
      have hitems : items = respItemsW rem (root :: pre' ++ n :: rest) [] w := by
        show respItemsW rem lt [] w = _
        rw [hlt']
      have hrp := requestor_reopen_partial rem rP [k] hd root pre' n rest w st hst h5.run h5.sent h5.ctx h5.todo
        (fun m hm => hdep m (by rw [htl]; exact List.mem_append_right _ hm))
        (by rw [← hlt']; exact hwf) hroot0 (by rw [← htl]; exact hne)
        (by
          have : (lt.map (·.path)) = (root :: pre').map (·.path) ++ (n :: rest).map (·.path) := by
            rw [hlt']; simp
          exact PathsDFS.prefix _ (this ▸ hdfs))
        { rP.L with rq := { q := respItemsW rem lt [] w }, isOpen := false }
        (by rw [← hlt']; exact hL2.symm)
        h5.pend h5.mra h5.recd h5.ver rfl (by rw [← hlt']) (Or.inl (by
          have : parkedX.1.R.L.unfollowed = rP.L.unfollowed := by rw [hpk]; rfl
          rw [← this]; exact hunf))
        h5.held hremroot
        (by
          intro it hit hp
          have : parkedX.1.R.L.store = rP.L.store := by rw [hpk]; rfl
          rw [← this]
          exact hwin it hit hp)
      simp only at hrp
      rw [← hitems, ← hlt'] at hrp
      obtain ⟨c1, c2, c3⟩ := hrp
      have hpk1 : parkedX.1 = hooked [k] rP := by rw [hpk]
      have hpk2 : parkedX.2 = pausedX.2 ++ (evs ++ [Ev.sentNew (max u (loaded ++ extra).length)]) := by rw [hpk]
      have hstore : parkedX.1.R.L.store = rP.L.store := by rw [hpk1]; rfl
      rw [hres]
      simp only
      rw [hpk1, hpk2]
      have hhk : (hooked [k] rP).R = rP := rfl
      rw [hhk]
      refine ⟨?_, c2, c3, (loaded ++ extra).length, ?_, ?_, ?_, ?_⟩
      · simp only [resultsOf_append, hld2, h3]
        have hs0 : resultsOf [Ev.sentNew (max u (loaded ++ extra).length)] = [] := rfl
        rw [hs0, List.append_nil, ← c1, ← hle]
        simp
      · simp only [List.length_append]; omega
      · rw [hw, hle]
      · rw [hle]; exact h5.nb
      · intro m hm
        have htk : lt.take (loaded ++ extra).length = root :: pre' := by
          rw [hlt', hle]
          simp
        rw [htk] at hm
        exact h5.held m hm

end GS.C06
