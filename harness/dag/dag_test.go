package dag

import (
	"fmt"
	"math/rand"
	"testing"
)

func TestGen(t *testing.T) {
	r := rand.New(rand.NewSource(3))
	tot := 0
	for i := 0; i < 300; i++ {
		d := Gen(r, DefaultOpts())
		name, sel := GenSelector(r)
		lt, missing, err := Reference(d, sel, nil)
		if err != nil {
			t.Fatalf("case %d %s: %v", i, name, err)
		}
		tot += len(lt.Loads)
		if i < 5 {
			fmt.Println(name, len(d.Cids), d.Desc, lt.Format(NewSegInterner().Name), missing)
		}
		have, _ := d.RandomSubset(r, 0.7)
		if _, _, err := Reference(d, sel, have); err != nil {
			t.Fatalf("partial %d: %v", i, err)
		}
	}
	fmt.Println("avg loads", float64(tot)/300)
}
