package main

import (
	"verifharness/reg"
	_ "verifharness/respmgr"
)

func main() { reg.Main("respmgr") }
