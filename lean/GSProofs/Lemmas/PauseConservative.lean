import GS.Model.PauseResume
import GSProofs.Lemmas.RequestorLocal
/-!
Without pauses the model `GS.PauseResume` IS the requestor model `GS.Requestor`: `driveP` = `drive`,
`deliver` = `message`, `run` over messages = `feed`.  Hence every theorem about `Requestor.exchange`
(C01, C02, C24) holds for the unpaused runs that C06 compares paused runs with.
-/
namespace GS.C06
open GS.Loader GS.Requestor GS.PauseResume

/-- the pause/resume state around the requestor state `r` with hook pauses configured at the block
    indices `hs`, no pause requested, not paused and no traversal end pending -/
def hooked (hs : List Nat) (r : Requestor.State) : PState := { R := r, hookAt := hs }

/-- no hook pause configured at all -/
def plainOf (r : Requestor.State) : PState := hooked [] r

/-- every configured hook pause lies behind: its block index has been passed -/
def DeadAt (hs : List Nat) (r : Requestor.State) : Prop := ∀ j ∈ hs, j ≤ r.nBlocks

theorem DeadAt.nil (r : Requestor.State) : DeadAt [] r := by intro j hj; cases hj

theorem pauseCheck_dead (hs : List Nat) (r : Requestor.State) (b : Bool) (h : b = true → r.nBlocks ∉ hs) :
    pauseCheck (hooked hs r) b = (false, hooked hs r) := by
  cases b with
  | false => simp [pauseCheck, hooked]
  | true =>
    have := h rfl
    simp [pauseCheck, hooked, this]

theorem afterLoad_dead (hs : List Nat) (r : Requestor.State) (b : Bool) (h : b = true → r.nBlocks ∉ hs)
    (cont : PState → PState × List Ev) :
    afterLoad (hooked hs r) b cont = cont (hooked hs r) := by
  unfold afterLoad
  rw [pauseCheck_dead hs r b h]

theorem handle_ends (r : Requestor.State) (n : LNode) (rest : LT) (res : Result) (e' : RErr) (e : LoadErr)
    (hc : r.ctxCancelled = false) (herr : res.err = some e) (he : endsTraversal n res = some e') :
    handle r n rest res = ((failWith r e').1, writeEvs res ++ [Ev.err (.load e)] ++ (failWith r e').2, false) := by
  unfold endsTraversal at he
  rw [herr] at he
  unfold handle
  rw [herr]
  simp only [hc, Bool.false_eq_true, if_false]
  cases e with
  | missing c p =>
    simp only at he ⊢
    by_cases hd : (n.depth == 0) = true
    · rw [if_pos hd] at he ⊢
      cases he
      rfl
    · rw [if_neg hd] at he
      cases he
  | incorrect a b p => simp only at he ⊢; cases he; rfl
  | extraData => simp only at he ⊢; cases he; rfl
  | nothingLeft => simp only at he ⊢; cases he; rfl
  | retryNone => simp only at he ⊢; cases he; rfl

theorem finish_nBlocks (r : Requestor.State) : (finish r).1.nBlocks = r.nBlocks := by
  unfold finish; rfl

theorem failWith_nBlocks (r : Requestor.State) (e : RErr) : (failWith r e).1.nBlocks = r.nBlocks := by
  unfold failWith; simp only; rw [finish_nBlocks]

/-- `handle` never decreases the block count, and increases it after a load answered with data -/
theorem handle_nBlocks (r : Requestor.State) (n : LNode) (rest : LT) (res : Result) :
    r.nBlocks ≤ (handle r n rest res).1.nBlocks ∧
    (res.err = none → (handle r n rest res).1.nBlocks = r.nBlocks + 1) := by
  unfold handle
  cases herr : res.err with
  | none => simp
  | some e =>
    simp only
    split
    · rw [finish_nBlocks]; exact ⟨Nat.le_refl _, fun h => by cases h⟩
    · cases e with
      | missing c p =>
        simp only
        split
        · rw [failWith_nBlocks]; exact ⟨Nat.le_refl _, fun h => by cases h⟩
        · exact ⟨Nat.le_refl _, fun h => by cases h⟩
      | incorrect a b p => simp only; rw [failWith_nBlocks]; exact ⟨Nat.le_refl _, fun h => by cases h⟩
      | extraData => simp only; rw [failWith_nBlocks]; exact ⟨Nat.le_refl _, fun h => by cases h⟩
      | nothingLeft => simp only; rw [failWith_nBlocks]; exact ⟨Nat.le_refl _, fun h => by cases h⟩
      | retryNone => simp only; rw [failWith_nBlocks]; exact ⟨Nat.le_refl _, fun h => by cases h⟩

theorem loadNode_nBlocks (r : Requestor.State) (n : LNode) : (loadNode r n).1.nBlocks = r.nBlocks := by
  unfold loadNode
  split
  · rfl
  · split
    · split <;> rfl
    · rfl

theorem DeadAt.mono {hs : List Nat} {r r' : Requestor.State} (h : DeadAt hs r) (hle : r.nBlocks ≤ r'.nBlocks) :
    DeadAt hs r' := fun j hj => Nat.le_trans (h j hj) hle

/-- with every hook pause behind and no pause requested, `afterResult` is `handle` followed by the
    continuation -/
theorem afterResult_dead (hs : List Nat) (r : Requestor.State) (hd : DeadAt hs r) (n : LNode) (rest : LT)
    (res : Result) (ev1 : List Ev) (cont : PState → PState × List Ev) :
    afterResult (hooked hs r) n rest res ev1 cont =
      match handle r n rest res with
      | (r2, evs, true) => ((cont (hooked hs r2)).1, ev1 ++ evs ++ (cont (hooked hs r2)).2)
      | (r2, evs, false) => (hooked hs r2, ev1 ++ evs) := by
  unfold afterResult
  cases hew : endsWith (hooked hs r) n res with
  | some ee =>
    obtain ⟨e', e⟩ := ee
    simp only
    rw [pauseCheck_dead hs r false (fun h => by cases h)]
    simp only
    unfold endsWith at hew
    by_cases hc : r.ctxCancelled = true
    · simp [hooked, hc] at hew
    · have hc' : r.ctxCancelled = false := by simpa using hc
      simp only [hooked, hc', Bool.false_eq_true, if_false] at hew
      cases herr : res.err with
      | none => simp [herr] at hew
      | some e0 =>
        simp only [herr] at hew
        cases het : endsTraversal n res with
        | none => simp [het] at hew
        | some e1 =>
          simp only [het, Option.some.injEq, Prod.mk.injEq] at hew
          obtain ⟨h1, h2⟩ := hew
          subst h1; subst h2
          rw [handle_ends r n rest res e1 e0 hc' herr het]
          simp only [List.append_assoc, hooked]
  | none =>
    simp only
    show (match handle r n rest res with
      | (r2, evs, true) => ((afterLoad (hooked hs r2) res.err.isNone cont).1, ev1 ++ evs ++ (afterLoad (hooked hs r2) res.err.isNone cont).2)
      | (r2, evs, false) => (hooked hs r2, ev1 ++ evs)) = _
    have hnb := handle_nBlocks r n rest res
    cases hh : handle r n rest res with
    | mk r2 rest2 =>
      obtain ⟨evs, go⟩ := rest2
      rw [hh] at hnb
      cases go with
      | true =>
        simp only
        rw [afterLoad_dead]
        intro hb
        have herr : res.err = none := by
          cases hr : res.err with
          | none => rfl
          | some _ => simp [hr] at hb
        have := hnb.2 herr
        simp only at this
        intro hmem
        have := hd _ hmem
        omega
      | false => rfl

theorem driveP_dead (hs : List Nat) : ∀ (fuel : Nat) (r : Requestor.State), DeadAt hs r →
    driveP fuel (hooked hs r) = (hooked hs (drive fuel r).1, (drive fuel r).2) := by
  intro fuel
  induction fuel with
  | zero => intro r _; rfl
  | succ fuel ih =>
    intro r hd
    rw [driveP, drive_succ]
    by_cases hg : (r.phase != Phase.running) = true
    · have : ((hooked hs r).R.phase != Phase.running || (hooked hs r).paused) = true := by simp [hooked, hg]
      rw [if_pos this, if_pos hg]
    · have : ((hooked hs r).R.phase != Phase.running || (hooked hs r).paused) = false := by
        simp only [hooked, Bool.or_false]; simpa using hg
      rw [if_neg (by simp [this]), if_neg hg]
      show (match r.todo with
        | [] => (hooked hs (finish r).1, (finish r).2)
        | n :: rest =>
          match loadNode r n with
          | (r1, ev1, none) => (hooked hs r1, ev1)
          | (r1, ev1, some res) => afterResult (hooked hs r1) n rest res ev1 (driveP fuel)) = _
      cases htodo : r.todo with
      | nil => rfl
      | cons n rest =>
        simp only
        have hl := loadNode_nBlocks r n
        cases hln : loadNode r n with
        | mk r1 rest1 =>
          obtain ⟨ev1, ores⟩ := rest1
          rw [hln] at hl
          simp only at hl
          have hd1 : DeadAt hs r1 := hd.mono (by rw [hl]; exact Nat.le_refl _)
          cases ores with
          | none => rfl
          | some res =>
            simp only
            rw [afterResult_dead hs r1 hd1]
            have hnb := handle_nBlocks r1 n rest res
            cases hh : handle r1 n rest res with
            | mk r2 rest2 =>
              obtain ⟨evs, go⟩ := rest2
              rw [hh] at hnb
              cases go with
              | true =>
                simp only
                rw [ih r2 (hd1.mono hnb.1)]
              | false => rfl

theorem driveP_plain (fuel : Nat) (r : Requestor.State) :
    driveP fuel (plainOf r) = (plainOf (drive fuel r).1, (drive fuel r).2) :=
  driveP_dead [] fuel r (DeadAt.nil r)

theorem resumeP_dead (hs : List Nat) (r : Requestor.State) (hd : DeadAt hs r) :
    resumeP (hooked hs r) = (hooked hs (Requestor.resume r).1, (Requestor.resume r).2) := by
  obtain ⟨L, todo, phase, rs, nb, us, cc, te⟩ := r
  unfold resumeP Requestor.resume
  simp only [hooked]
  cases hw : Loader.wake L with
  | mk l1 ores =>
    cases ores with
    | none => rfl
    | some res =>
      simp only
      cases todo with
      | nil => rfl
      | cons n rest =>
        simp only
        have hd1 : DeadAt hs ⟨l1, n :: rest, phase, rs, nb, us, cc, te⟩ := hd
        show afterResult (hooked hs ⟨l1, n :: rest, phase, rs, nb, us, cc, te⟩) n rest res []
          (fun s' => driveP (fuelFor s'.R) s') = _
        rw [afterResult_dead hs _ hd1]
        have hnb := handle_nBlocks ⟨l1, n :: rest, phase, rs, nb, us, cc, te⟩ n rest res
        generalize handle _ n rest res = hdl at hnb
        obtain ⟨r2, evs, go⟩ := hdl
        cases go with
        | true =>
          simp only
          rw [driveP_dead hs _ r2 (hd1.mono hnb.1)]
          simp only [List.nil_append, hooked]
        | false => simp only [List.nil_append, hooked]

theorem deliver_dead (hs : List Nat) (r : Requestor.State) (hd : DeadAt hs r) (f k : Bool) (st : Nat)
    (md : List (Cid × Action)) (bl : List (Cid × Blk)) :
    deliver (hooked hs r) f k st md bl = (hooked hs (message r f k st md bl).1, (message r f k st md bl).2) := by
  unfold deliver message
  by_cases hg : (r.phase != Phase.running || !f || !k) = true
  · have : ((hooked hs r).R.phase != Phase.running || !f || !k) = true := hg
    rw [if_pos this, if_pos hg]
  · have : ¬ ((hooked hs r).R.phase != Phase.running || !f || !k) = true := hg
    rw [if_neg this, if_neg hg]
    have hd1 : DeadAt hs (applyStatus { r with L := Loader.ingest r.L md bl } st) := by
      intro j hj
      have := hd j hj
      unfold applyStatus
      split
      · split <;> exact this
      · exact this
    exact resumeP_dead hs (applyStatus { r with L := Loader.ingest r.L md bl } st) hd1

def toOp (m : Requestor.Msg) : PauseResume.Op :=
  .msg { fromPeer0 := m.fromPeer0, known := m.known, status := m.status, md := m.md, blocks := m.blocks }

/-- `resume` / `message` never decrease the block count -/
theorem drive_nBlocks : ∀ (fuel : Nat) (r : Requestor.State), r.nBlocks ≤ (drive fuel r).1.nBlocks := by
  intro fuel
  induction fuel with
  | zero => intro r; exact Nat.le_refl _
  | succ fuel ih =>
    intro r
    rw [drive_succ]
    split
    · exact Nat.le_refl _
    · split
      · rw [finish_nBlocks]; exact Nat.le_refl _
      · rename_i n rest _
        have hl := loadNode_nBlocks r n
        cases hln : loadNode r n with
        | mk r1 rest1 =>
          obtain ⟨ev1, ores⟩ := rest1
          rw [hln] at hl
          simp only at hl
          cases ores with
          | none => simp only; rw [hl]; exact Nat.le_refl _
          | some res =>
            simp only
            have hnb := handle_nBlocks r1 n rest res
            cases hh : handle r1 n rest res with
            | mk r2 rest2 =>
              obtain ⟨evs, go⟩ := rest2
              rw [hh] at hnb
              cases go with
              | true =>
                simp only
                have := ih r2
                have h1 := hnb.1
                simp only at h1
                omega
              | false =>
                simp only
                have h1 := hnb.1
                simp only at h1
                omega

theorem message_nBlocks (r : Requestor.State) (f k : Bool) (st : Nat) (md : List (Cid × Action))
    (bl : List (Cid × Blk)) : r.nBlocks ≤ (message r f k st md bl).1.nBlocks := by
  unfold message
  split
  · exact Nat.le_refl _
  · have h0 : (applyStatus { r with L := Loader.ingest r.L md bl } st).nBlocks = r.nBlocks := by
      unfold applyStatus
      split
      · split <;> rfl
      · rfl
    generalize applyStatus { r with L := Loader.ingest r.L md bl } st = r0 at h0
    obtain ⟨L0, todo0, phase0, rs0, nb0, us0, cc0, te0⟩ := r0
    simp only at h0
    subst h0
    unfold Requestor.resume
    simp only
    cases hw : Loader.wake L0 with
    | mk l1 ores =>
      cases ores with
      | none => exact Nat.le_refl _
      | some res =>
        simp only
        cases todo0 with
        | nil => exact Nat.le_refl _
        | cons n rest =>
          simp only
          have hnb := handle_nBlocks ⟨l1, n :: rest, phase0, rs0, r.nBlocks, us0, cc0, te0⟩ n rest res
          generalize handle _ n rest res = hdl at hnb
          obtain ⟨r2, evs, go⟩ := hdl
          have h1 := hnb.1
          simp only at h1
          cases go with
          | true =>
            have := drive_nBlocks (fuelFor r2) r2
            show r.nBlocks ≤ (drive (fuelFor r2) r2).1.nBlocks
            omega
          | false =>
            show r.nBlocks ≤ r2.nBlocks
            omega

theorem run_dead (hs : List Nat) : ∀ (msgs : List Requestor.Msg) (r : Requestor.State), DeadAt hs r →
    PauseResume.run (hooked hs r) (msgs.map toOp) = (hooked hs (feed r msgs).1, (feed r msgs).2) := by
  intro msgs
  induction msgs with
  | nil => intro r _; rfl
  | cons m rest ih =>
    intro r hd
    simp only [List.map_cons, PauseResume.run, toOp, PauseResume.step, feed]
    rw [deliver_dead hs r hd]
    simp only
    have := ih (message r m.fromPeer0 m.known m.status m.md m.blocks).1 (hd.mono (message_nBlocks _ _ _ _ _ _))
    rw [this]

theorem run_plain (msgs : List Requestor.Msg) (r : Requestor.State) :
    PauseResume.run (plainOf r) (msgs.map toOp) = (plainOf (feed r msgs).1, (feed r msgs).2) :=
  run_dead [] msgs r (DeadAt.nil r)

/-- **conservative extension.**  Without hook pauses and Pause calls, the pause/resume model is the
    requestor model: same reports, same final requestor state. -/
theorem exchange_plain (st : List (Cid × Blk)) (lt : LT) (u : Nat) (msgs : List Requestor.Msg) :
    PauseResume.exchange st lt u [] (msgs.map toOp) =
      (plainOf (Requestor.exchange st lt u msgs).1, (Requestor.exchange st lt u msgs).2) := by
  have h1 : PauseResume.request { R := { L := { store := st } }, hookAt := [] } lt u =
      (plainOf (Requestor.request { L := { store := st } } lt u).1, (Requestor.request { L := { store := st } } lt u).2) := by
    unfold PauseResume.request Requestor.request
    exact driveP_plain _ _
  unfold PauseResume.exchange Requestor.exchange
  rw [h1]
  simp only
  rw [run_plain]

end GS.C06
