import GSProofs.Lemmas.RespLifeReach
/-!
# C23 — Reported request state agrees with the work queue when quiescent   (responder side)

Model: `GS.RespLife`.  `PeerState(p)` of the response manager reports the table entries of `p`
(`State.table`) next to the peer's task-queue topics (`PeerQ.pending`, `PeerQ.active`).

-- FULL STATEMENT (C23.agree) — STATED, NOT PROVED in Lean.  It is checked on every run by the
-- correspondence stream `peerstate` (model and real code agree on PeerState at every barrier) and by the
-- independent oracle (Diagnostics() empty, state/queue agreement, final Stats):
--   theorem agree : ReachableFresh c s → quiescent s = true → agrees s = true
-- FULL STATEMENT (C23.final), likewise:
--   theorem final : ReachableFresh c s → quiescent s = true → s.table = [] →
--     (∀ q ∈ s.queues, q.pending = [] ∧ q.active = []) ∧ (∀ m ∈ s.mqs, idle m → m.allocated = 0)
-- The invariant needed couples request states, task-queue sets, worker phases, mailbox contents and
-- the terminal statuses queued in message builders; only its registry part (`PInv`) is proved so far.

What IS proved here:
* `reported_states_well_defined`: with fresh ids the table has one entry per id, so the reported
  RequestStates map is well defined and every reported request is protected (registry invariant);
* `agree_counterexample_dup`: without fresh ids agreement fails in a quiescent state — a new request
  re-using the id of a running one is reported Queued while its topic is active and not pending
  (known finding `dup-live-id-queue`, replayed by corpus/C23);
* `agree_on_lifecycle` / `final_on_lifecycle`: the executable predicates evaluated on concrete
  lifecycles (these are tests of the definitions, labelled as such, not proofs of the property).
-/
namespace GS.C23
open GS.RespLife

/-- mailboxes empty, manager not parked, no worker between PopTasks and StartTask or waiting for a
    manager reply, publishers idle -/
def quiescent (s : State) : Bool :=
  s.mailbox.isEmpty && s.park.isNone &&
  s.workers.all (fun w => match w.phase with
    | .atLoader | .inHook _ _ | .blockedTx _ _ _ | .done => true
    | _ => false) &&
  s.mqs.all (fun m => m.pubQ.isEmpty && !m.pubWait)

/-- Queued ↔ pending, Running ↔ active, Paused / CompletingSend in neither; every queue topic has a
    table entry of that peer -/
def agrees (s : State) : Bool :=
  s.table.all (fun r =>
    let q := getQ s r.peer
    let pend := q.pending.any (·.1 == r.id)
    let act := q.active.contains r.id
    match r.state with
    | .queued => pend && !act
    | .running => act && !pend
    | _ => !pend && !act) &&
  s.queues.all (fun q =>
    q.pending.all (fun t => s.table.any (fun r => r.id == t.1 && r.peer == q.peer)) &&
    q.active.all (fun i => s.table.any (fun r => r.id == i && r.peer == q.peer)))

/-- with fresh ids the table holds at most one entry per request id (so `RequestStates`, a map keyed
    by id, reports every entry), and every reported request holds its connection protection -/
theorem reported_states_well_defined {c : Cfg} {s : State} (h : ReachableFresh c s) :
    (s.table.map (·.id)).Nodup ∧ ∀ r ∈ s.table, (r.peer, r.id) ∈ s.prot := by
  have hinv := pinv_reachable h
  refine ⟨by simpa [pi, keys, List.map_map, Function.comp_def] using hinv.nodupIds, ?_⟩
  intro r hr
  exact (hinv.protIff (r.peer, r.id)).2 (Or.inl (List.mem_map.2 ⟨r, hr, rfl⟩))

def cfgA (n : Nat) : ReqCfg := { pri := 1, hook := ⟨.accept, false⟩, n, miss := none, bh := [] }

/-- a new request re-uses the id of a running response of the same peer -/
def dupRunningScript : List Action :=
  [.recv 0 (.new 0 (cfgA 2)), .mgr, .pop 0 0, .mgr, .wstep 0 0,    -- request 0 running, worker at its first block
   .recv 0 (.new 0 (cfgA 2)), .mgr]                                 -- same id again: entry replaced, task push skipped

/-- **C23.agree_counterexample** (ids not fresh): a reachable quiescent state in which the reported
    state (Queued) disagrees with the task queue (topic active, not pending). -/
theorem agree_counterexample_dup :
    ∃ s, Reachable {} s ∧ quiescent s = true ∧ agrees s = false :=
  ⟨run (init {}) dupRunningScript, reachable_run Reachable.init _, by decide, by decide⟩

/-- a full lifecycle with pause, unpause, cancel of a second request, acknowledgements -/
def lifecycle : List Action :=
  [.primer 0, .extract 0,
   .recv 0 (.new 0 { (cfgA 2) with bh := [.pause, .ok] }), .mgr,
   .recv 0 (.new 1 (cfgA 1)), .mgr,
   .pop 0 0, .mgr, .wstep 0 0, .wstep 0 0, .mgr,        -- block 0 sent, paused by the block hook
   .api (.unpause 0 false), .mgr,
   .recv 0 (.cancel 1), .mgr,
   .thaw,                                                -- cancelling a queued task froze the peer
   .pop 0 0, .mgr, .wstep 1 0, .wstep 1 0, .mgr,        -- resumed: block 1, finished
   .net 0 true, .extract 0, .net 0 true, .pub 0, .pub 0, .mgr, .pub 0]

/-- TEST of the definitions (not a proof of the property): agreement holds at every prefix of the
    lifecycle that is quiescent -/
theorem agree_on_lifecycle :
    (List.range (lifecycle.length + 1)).all (fun n =>
      let s := run (init {}) (lifecycle.take n)
      !quiescent s || agrees s) = true := by decide

/-- TEST: at the end everything is retired, nothing is pending, active or allocated -/
theorem final_on_lifecycle :
    let s := run (init {}) lifecycle
    quiescent s = true ∧ s.table = [] ∧ s.queues.all (fun q => q.pending.isEmpty && q.active.isEmpty) = true ∧
      s.mqs.all (fun m => m.allocated == 0) = true := by decide

end GS.C23
