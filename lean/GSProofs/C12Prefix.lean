import GSProofs.C12
import GSProofs.Lemmas.Varint
/-!
# C12 — the key's own prefix (audit item "prefix parsed from the wire vs prefix of the CID")

`GS.C12.keys` ties the key of a delivered block to the prefix PARSED FROM THE WIRE BLOCK
(`cid.PrefixFromBytes(b.Prefix)` in message/v2 `fromIPLD`). A consumer, however, only sees the key
`c` and compares it with the link it wants; what it can observe of the prefix is `c.Prefix()`
(model: `GS.Wire.prefixOfCid`, built on `parseCid` = `cid.Cast`, the same parser that validates
tag-42 links). This file closes the gap:

* `prefix_of_cidBytes`, `prefix_of_sumCid`  `Cid.Prefix()` of the key produced by `Prefix.Sum` is the
  wire prefix NORMALISED (`normPrefix`): version and multihash code are preserved, the codec is
  preserved for CIDv1 and REPLACED by dag-pb (0x70) for CIDv0 (`NewCidV0` drops the codec field),
  and the length field becomes the number of digest bytes actually in the key (= `p.mhLen` for
  every real hash; = length of the hash output for the identity code 0, whose `mhLen` is ignored).
* `cidBytes_inj`, `sumCid_injective_on_digest`  two blocks keyed to the same CID under the same
  prefix have equal truncated digests — unconditional; the only cryptographic assumption that is
  left is collision resistance of the (uninterpreted) `hash`.
* `keys_prefix`  the delivered-message corollary, for all byte strings and hash functions.

The one side condition is `HashBounded`: hash outputs are at most 2^31-1 bytes long
(go-multihash `readMultihashFromBuf` rejects longer digests, so a key with such a digest is not a
CID that `cid.Cast` accepts at all; `prefix_of_cidBytes_toolong` shows the condition is necessary).
-/
namespace GS.C12
open GS.Cbor GS.Wire

/-! ## parsing back what `Prefix.Sum` wrote -/

theorem readMultihash_mhBytes (code : Nat) (d : Bytes) (hc : code < 2 ^ 63)
    (hd : d.length ≤ 2147483647) : readMultihash (mhBytes code d) = some (code, d, []) := by
  have hl : ¬ (mhBytes code d).length < 2 := by
    have h1 := putUvarint_ne_nil code
    have h2 := putUvarint_ne_nil d.length
    unfold mhBytes
    simp only [List.length_append]
    have : 0 < (putUvarint code).length := List.length_pos_iff.mpr h1
    have : 0 < (putUvarint d.length).length := List.length_pos_iff.mpr h2
    omega
  unfold readMultihash
  rw [if_neg hl]
  unfold mhBytes
  rw [uvarint_put _ _ hc]
  simp only
  rw [uvarint_put _ _ (by omega)]
  simp only
  rw [if_neg (by omega), if_neg (by omega)]
  simp

/-- `cid.Cast` of a CIDv1 written by `Cid.Bytes()` -/
theorem parseCid_v1 (codec t : Nat) (d : Bytes) (hc : codec < 2 ^ 63) (ht : t < 2 ^ 63)
    (hd : d.length ≤ 2147483647) :
    parseCid (1 :: (putUvarint codec ++ mhBytes t d)) = some ⟨1, codec, t, d⟩ := by
  have h1 : uvarint (1 :: (putUvarint codec ++ mhBytes t d)) =
      some (1, putUvarint codec ++ mhBytes t d) := uvarint_put 1 _ (by omega)
  unfold parseCid
  split
  · rename_i heq
    have := (List.cons.inj heq).1
    exact absurd this (by decide)
  · simp only [h1]
    rw [if_neg (by simp), uvarint_put _ _ hc]
    simp only
    rw [readMultihash_mhBytes t d ht hd]
    simp

/-- `cid.Cast` of a CIDv0 (a bare sha2-256/32 multihash) -/
theorem parseCid_v0 (d : Bytes) (hd : d.length = 32) :
    parseCid (mhBytes 0x12 d) = some ⟨0, 0x70, 0x12, d⟩ := by
  have : mhBytes 0x12 d = 0x12 :: 0x20 :: d := by
    unfold mhBytes; rw [hd]; rfl
  rw [this]
  match d, hd with
  | a :: r, hd =>
    unfold parseCid
    simp at hd ⊢
    exact hd

/-- a multihash whose digest is longer than 2^31-1 bytes is rejected -/
theorem readMultihash_toolong (code : Nat) (d : Bytes) (hc : code < 2 ^ 63)
    (hd : 2147483647 < d.length) (hd' : d.length < 2 ^ 63) :
    readMultihash (mhBytes code d) = none := by
  unfold readMultihash
  split
  · rfl
  · unfold mhBytes
    rw [uvarint_put _ _ hc]
    simp only
    rw [uvarint_put _ _ hd']
    simp only
    rw [if_pos hd]

/-! ## the normalised prefix -/

/-- What `Cid.Prefix()` of a key built by `Prefix.Sum` from prefix `p` with `n` digest bytes is:
version and multihash code are `p`'s; the codec is `p`'s for CIDv1 and dag-pb (0x70) for CIDv0,
whatever codec the wire prefix carried (`NewCidV0` has no codec field); the length is the number
of digest bytes in the key. -/
def normPrefix (p : Prefix) (n : Nat) : Prefix :=
  ⟨p.version, if p.version = 0 then 0x70 else p.codec, p.mhType, n⟩

/-- `Cid.Prefix()` of `Cid(p, multihash(p.mhType, d))` -/
theorem prefix_of_cidBytes (p : Prefix) (d : Bytes)
    (hv : p.version = 0 ∨ p.version = 1)
    (h0 : p.version = 0 → p.mhType = 0x12 ∧ d.length = 32)
    (hc : p.version = 1 → p.codec < 2 ^ 63) (ht : p.mhType < 2 ^ 63)
    (hd : d.length ≤ 2147483647) :
    prefixOfCid (cidBytes p d) = some (normPrefix p d.length) := by
  unfold prefixOfCid cidBytes normPrefix
  rcases hv with hv | hv
  · obtain ⟨e1, e2⟩ := h0 hv
    rw [if_pos hv, if_pos hv, e1, parseCid_v0 d e2]
    simp [hv]
  · have hv0 : ¬ p.version = 0 := by omega
    rw [if_neg hv0, if_neg hv0, parseCid_v1 p.codec p.mhType d (hc hv) ht hd]
    simp [hv]

/-- the bound on the digest length is necessary: a CIDv1 key with a longer digest is not a CID -/
theorem prefix_of_cidBytes_toolong (p : Prefix) (d : Bytes) (hv : p.version = 1)
    (hc : p.codec < 2 ^ 63) (ht : p.mhType < 2 ^ 63)
    (hd : 2147483647 < d.length) (hd' : d.length < 2 ^ 63) :
    prefixOfCid (cidBytes p d) = none := by
  have hv0 : ¬ p.version = 0 := by omega
  have h1 : uvarint (1 :: (putUvarint p.codec ++ mhBytes p.mhType d)) =
      some (1, putUvarint p.codec ++ mhBytes p.mhType d) := uvarint_put 1 _ (by omega)
  unfold prefixOfCid cidBytes
  rw [if_neg hv0]
  have : parseCid (1 :: (putUvarint p.codec ++ mhBytes p.mhType d)) = none := by
    unfold parseCid
    split
    · rename_i heq
      have := (List.cons.inj heq).1
      exact absurd this (by decide)
    · simp only [h1]
      rw [if_neg (by simp), uvarint_put _ _ hc]
      simp only
      rw [readMultihash_toolong _ d ht hd hd']
  rw [this]

/-- `Prefix.Sum` on a version-0 prefix insists on sha2-256 / 32 -/
theorem sumCid_v0 {hash : Hash} {p : Prefix} {data c : Bytes} (h : sumCid hash p data = some c)
    (hv : p.version = 0) : p.mhType = 0x12 ∧ p.mhLen = 32 := by
  unfold sumCid at h
  simp only at h
  split at h
  · cases h
  · rename_i hn
    constructor <;> (apply Classical.byContradiction; intro hne; exact hn ⟨hv, by simp [hne]⟩)

/-- hash outputs fit a multihash that `cid.Cast` accepts (true of every registered hasher, and of the
identity "hash" on any block that fits a message) -/
def HashBounded (hash : Hash) : Prop :=
  ∀ t s data full, hash t s data = some full → full.length ≤ 2147483647

/-- **C12.prefix_of_sumCid** — `c.Prefix()` of the key `c = p.Sum(data)` is `p` normalised, for
every hash function and all data: same version, same multihash code, digest length = the number of
digest bytes in the key (`digestLen`: `p.mhLen`, except for the identity code), same codec for
CIDv1; for CIDv0 the codec of `p` is IGNORED and reads back as dag-pb. -/
theorem prefix_of_sumCid {hash : Hash} {p : Prefix} {data c : Bytes}
    (h : sumCid hash p data = some c)
    (hc : p.version = 1 → p.codec < 2 ^ 63) (ht : p.mhType < 2 ^ 63) :
    ∃ full, hash p.mhType (sizeHint p) data = some full ∧ digestLen p full ≤ full.length ∧
      (full.length ≤ 2147483647 →
        prefixOfCid c = some (normPrefix p (digestLen p full))) := by
  obtain ⟨full, h1, h2, h3, h4⟩ := sumCid_spec h
  refine ⟨full, h1, h2, fun hb => ?_⟩
  have hlen : (full.take (digestLen p full)).length = digestLen p full := by
    simp only [List.length_take]; omega
  have := prefix_of_cidBytes p (full.take (digestLen p full)) h3
    (fun hv => by
      obtain ⟨e1, e2⟩ := sumCid_v0 h hv
      refine ⟨e1, ?_⟩
      rw [hlen]
      simp [digestLen, e1, e2])
    hc ht (by rw [hlen]; omega)
  rw [hlen] at this
  rw [h4, this]

/-- for every real hash (`mhType ≠ 0`) the normalised prefix keeps `p.mhLen` itself -/
theorem normPrefix_real (p : Prefix) (full : Bytes) (ht : p.mhType ≠ 0) :
    normPrefix p (digestLen p full) = ⟨p.version, if p.version = 0 then 0x70 else p.codec, p.mhType, p.mhLen⟩ := by
  simp [normPrefix, digestLen, ht]

/-- ... and for CIDv1 with a real hash nothing is changed at all -/
theorem normPrefix_v1 (p : Prefix) (full : Bytes) (hv : p.version = 1) (ht : p.mhType ≠ 0) :
    normPrefix p (digestLen p full) = p := by
  cases p
  simp only at hv ht
  simp [normPrefix, digestLen, ht, hv]

/-! ## key equality ⇒ digest equality -/

theorem uvarintEnc_len_mono : ∀ (f a b : Nat), a ≤ b →
    (uvarintEnc f a).length ≤ (uvarintEnc f b).length
  | 0, _, _, _ => by simp [uvarintEnc]
  | f + 1, a, b, h => by
    unfold uvarintEnc
    by_cases ha : a < 128
    · rw [if_pos ha]; split <;> simp
    · have hb : ¬ b < 128 := by omega
      rw [if_neg ha, if_neg hb]
      simp only [List.length_cons]
      have := uvarintEnc_len_mono f (a / 128) (b / 128) (Nat.div_le_div_right h)
      omega

theorem mhBytes_inj {t : Nat} {d d' : Bytes} (h : mhBytes t d = mhBytes t d') : d = d' := by
  unfold mhBytes at h
  have h := List.append_cancel_left h
  have hl := congrArg List.length h
  simp only [List.length_append] at hl
  have hab : d.length = d'.length := by
    rcases Nat.lt_trichotomy d.length d'.length with hlt | heq | hgt
    · have := uvarintEnc_len_mono 10 _ _ (Nat.le_of_lt hlt)
      unfold putUvarint at hl; omega
    · exact heq
    · have := uvarintEnc_len_mono 10 _ _ (Nat.le_of_lt hgt)
      unfold putUvarint at hl; omega
  rw [hab] at h
  exact List.append_cancel_left h

/-- a binary CID determines its digest (no side condition on lengths) -/
theorem cidBytes_inj {p : Prefix} {d d' : Bytes} (h : cidBytes p d = cidBytes p d') : d = d' := by
  unfold cidBytes at h
  split at h
  · exact mhBytes_inj h
  · exact mhBytes_inj (List.append_cancel_left (List.cons.inj h).2)

/-- **C12.sumCid_injective_on_digest** — two blocks keyed to the same CID under the same prefix have
the same truncated digest. Hence two different blocks can share a key only through a collision of
(the first `digestLen` bytes of) `hash` — collision resistance of `hash` is the only assumption that
remains a parameter. (Compare `zero_length_digest_key_ignores_data` for what truncation to 0 does.) -/
theorem sumCid_injective_on_digest {hash : Hash} {p : Prefix} {d1 d2 c : Bytes}
    (h1 : sumCid hash p d1 = some c) (h2 : sumCid hash p d2 = some c) :
    ∃ f1 f2, hash p.mhType (sizeHint p) d1 = some f1 ∧ hash p.mhType (sizeHint p) d2 = some f2 ∧
      f1.take (digestLen p f1) = f2.take (digestLen p f2) := by
  obtain ⟨f1, a1, _, _, e1⟩ := sumCid_spec h1
  obtain ⟨f2, a2, _, _, e2⟩ := sumCid_spec h2
  exact ⟨f1, f2, a1, a2, cidBytes_inj (e1.symm.trans e2)⟩

/-- contrapositive form: different truncated digests give different keys -/
theorem sumCid_ne_of_digest_ne {hash : Hash} {p : Prefix} {d1 d2 c1 c2 f1 f2 : Bytes}
    (h1 : sumCid hash p d1 = some c1) (h2 : sumCid hash p d2 = some c2)
    (a1 : hash p.mhType (sizeHint p) d1 = some f1) (a2 : hash p.mhType (sizeHint p) d2 = some f2)
    (hne : f1.take (digestLen p f1) ≠ f2.take (digestLen p f2)) : c1 ≠ c2 := by
  intro hc
  subst hc
  obtain ⟨g1, g2, b1, b2, e⟩ := sumCid_injective_on_digest h1 h2
  rw [a1] at b1; rw [a2] at b2
  cases b1; cases b2
  exact hne e

/-! ## delivered messages -/

/-- block `blk` comes from wire block `wb`, and its key reads back (`Cid.Prefix()`) as the wire
prefix normalised -/
def BlockKeyedPrefix (hash : Hash) (wb : BBlk) (blk : Block) : Prop :=
  BlockKeyed hash wb blk ∧ ∃ p full, parsePrefix wb.pfx = some p ∧
    sumCid hash p blk.data = some blk.cid ∧
    hash p.mhType (sizeHint p) blk.data = some full ∧
    (p.version = 0 ∨ p.version = 1) ∧
    prefixOfCid blk.cid = some (normPrefix p (digestLen p full))

theorem parsePrefix_bounds {bs : Bytes} {p : Prefix} (h : parsePrefix bs = some p) :
    p.version < 2 ^ 63 ∧ p.codec < 2 ^ 63 ∧ p.mhType < 2 ^ 63 ∧ p.mhLen < 2 ^ 63 := by
  unfold parsePrefix at h
  split at h
  · cases h
  · rename_i h1
    split at h
    · cases h
    · rename_i h2
      split at h
      · cases h
      · rename_i h3
        split at h
        · cases h
        · rename_i h4
          cases h
          exact ⟨uvarint_bound h1, uvarint_bound h2, uvarint_bound h3, uvarint_bound h4⟩

theorem blkFromB_keyed_prefix {hash : Hash} (hb : HashBounded hash) {b : BBlk} {blk : Block}
    (h : blkFromB hash b = some blk) : BlockKeyedPrefix hash b blk := by
  refine ⟨blkFromB_keyed h, ?_⟩
  unfold blkFromB at h
  split at h
  · cases h
  · rename_i p hp
    split at h
    · cases h
    · rename_i c hc
      cases h
      obtain ⟨_, b2, b3, _⟩ := parsePrefix_bounds hp
      obtain ⟨full, h1, _, h3⟩ := prefix_of_sumCid hc (fun _ => b2) b3
      obtain ⟨_, _, _, hv, _⟩ := sumCid_spec hc
      exact ⟨p, full, hp, hc, h1, hv, h3 (hb _ _ _ _ h1)⟩

theorem fromIPLD_blocks {hash : Hash} {b : BMsg} {m : Msg} (h : fromIPLD hash b = some m) :
    ∀ blk ∈ m.blocks, ∃ wb ∈ b.blk.getD [], blkFromB hash wb = some blk := by
  unfold fromIPLD at h
  split at h
  · rename_i rq rs bl hrq hrs hbl
    cases h
    intro blk hb
    exact mem_of_allSome hbl (mem_dedupLast _ hb)
  · cases h

theorem decodeOne_blocks {hash : Hash} {bs : Bytes} {m : Msg} {rest : Bytes}
    (h : decodeOne hash bs = .ok m rest) :
    ∃ payload b, readFrame bs = .ok payload rest ∧ (decodeBlock payload).bind valToBMsg = some b ∧
      Verified hash b m ∧ ∀ blk ∈ m.blocks, ∃ wb ∈ b.blk.getD [], blkFromB hash wb = some blk := by
  unfold decodeOne at h
  split at h
  · cases h
  · cases h
  · rename_i p rest' hf
    split at h
    · rename_i m' hp
      simp only [DecodeResult.ok.injEq] at h
      obtain ⟨rfl, rfl⟩ := h
      unfold decodePayload at hp
      cases hv : decodeBlock p with
      | none => rw [hv] at hp; cases hp
      | some v =>
        rw [hv] at hp
        simp only at hp
        cases hb : valToBMsg v with
        | none => rw [hb] at hp; cases hp
        | some b =>
          rw [hb] at hp
          exact ⟨p, b, hf, by simp [hv, hb], fromIPLD_verified hp, fromIPLD_blocks hp⟩
    · cases h

/-- **C12.keys_prefix** — `keys`, with the prefix re-derived from the resulting CID: for every byte
string and every (bounded-output) hash function, every block of an accepted message has the data of
a wire block `wb` of that message, the key `p.Sum(data)` for `p` = the prefix parsed from `wb`, and
`key.Prefix()` = `p` normalised (version, multihash code, digest length as in `p`; codec as in `p`
for CIDv1, dag-pb for CIDv0). So a consumer comparing the key with a wanted link compares exactly
(normalised wire prefix, truncated digest of the block's own bytes). -/
theorem keys_prefix (hash : Hash) (hb : HashBounded hash) (bs : Bytes) (m : Msg)
    (h : decodeMsg hash bs = some m) :
    ∃ payload rest b, readFrame bs = .ok payload rest ∧
      (decodeBlock payload).bind valToBMsg = some b ∧ Verified hash b m ∧
      ∀ blk ∈ m.blocks, ∃ wb ∈ b.blk.getD [], BlockKeyedPrefix hash wb blk := by
  unfold decodeMsg at h
  cases hd : decodeOne hash bs with
  | eof => rw [hd] at h; cases h
  | err => rw [hd] at h; cases h
  | ok m' rest =>
    rw [hd] at h
    simp only [Option.some.injEq] at h
    subst h
    obtain ⟨p, b, h1, h2, h3, h4⟩ := decodeOne_blocks hd
    refine ⟨p, rest, b, h1, h2, h3, fun blk hblk => ?_⟩
    obtain ⟨wb, hwb, hk⟩ := h4 blk hblk
    exact ⟨wb, hwb, blkFromB_keyed_prefix hb hk⟩

/-- the same for every message of a whole stream -/
theorem keys_prefix_stream (hash : Hash) (hb : HashBounded hash) : ∀ (fuel : Nat) (bs : Bytes) (m : Msg),
    m ∈ (decodeStreamFuel hash fuel bs).1 → ∃ b, Verified hash b m ∧
      ∀ blk ∈ m.blocks, ∃ wb ∈ b.blk.getD [], BlockKeyedPrefix hash wb blk
  | 0, _, _, h => by simp [decodeStreamFuel] at h
  | fuel + 1, bs, m, h => by
    rw [decodeStreamFuel_succ] at h
    cases hd : decodeOne hash bs with
    | eof => rw [hd] at h; simp at h
    | err => rw [hd] at h; simp at h
    | ok m' rest =>
      rw [hd] at h
      simp only [List.mem_cons] at h
      rcases h with h | h
      · subst h
        obtain ⟨_, b, _, _, hv, h4⟩ := decodeOne_blocks hd
        refine ⟨b, hv, fun blk hblk => ?_⟩
        obtain ⟨wb, hwb, hk⟩ := h4 blk hblk
        exact ⟨wb, hwb, blkFromB_keyed_prefix hb hk⟩
      · exact keys_prefix_stream hash hb fuel rest m h

/-- two delivered blocks with the same key and the same parsed wire prefix have the same truncated
digest (what `dedupLast (·.cid)` in `fromIPLD` identifies) -/
theorem same_key_same_digest {hash : Hash} {wb1 wb2 : BBlk} {b1 b2 : Block} {p : Prefix}
    (k1 : blkFromB hash wb1 = some b1) (k2 : blkFromB hash wb2 = some b2)
    (p1 : parsePrefix wb1.pfx = some p) (p2 : parsePrefix wb2.pfx = some p)
    (hc : b1.cid = b2.cid) :
    ∃ f1 f2, hash p.mhType (sizeHint p) b1.data = some f1 ∧
      hash p.mhType (sizeHint p) b2.data = some f2 ∧
      f1.take (digestLen p f1) = f2.take (digestLen p f2) := by
  have s1 : sumCid hash p b1.data = some b1.cid := by
    unfold blkFromB at k1
    rw [p1] at k1
    simp only at k1
    split at k1
    · cases k1
    · rename_i c hc'
      cases k1
      exact hc'
  have s2 : sumCid hash p b2.data = some b2.cid := by
    unfold blkFromB at k2
    rw [p2] at k2
    simp only at k2
    split at k2
    · cases k2
    · rename_i c hc'
      cases k2
      exact hc'
  rw [← hc] at s2
  exact sumCid_injective_on_digest s1 s2

/-! ## non-vacuity (tests on concrete bytes, not proofs of anything general) -/

/-- a toy "hash" with 32-byte output: data padded / cut to 32 bytes -/
def toyHash : Hash := fun _ _ d => some ((d ++ List.replicate 32 0).take 32)

theorem toyHash_bounded : HashBounded toyHash := by
  intro t s d full h
  simp only [toyHash, Option.some.injEq] at h
  subst h
  simp only [List.length_take, List.length_append, List.length_replicate]
  omega

/-- CIDv1 / raw (0x55) / sha2-256 (0x12) / 32: the prefix reads back unchanged -/
example : (sumCid toyHash ⟨1, 0x55, 0x12, 32⟩ [1, 2, 3]).bind prefixOfCid = some ⟨1, 0x55, 0x12, 32⟩ := by
  decide

/-- CIDv0 / (codec on the wire: raw 0x55!) / sha2-256 / 32: the codec reads back as dag-pb 0x70 -/
example : (sumCid toyHash ⟨0, 0x55, 0x12, 32⟩ [1, 2, 3]).bind prefixOfCid = some ⟨0, 0x70, 0x12, 32⟩ := by
  decide

example : normPrefix ⟨0, 0x55, 0x12, 32⟩ 32 = ⟨0, 0x70, 0x12, 32⟩ := by decide

/-- CIDv1 with a truncated digest (20 of 32 bytes): the length field is the truncated length -/
example : (sumCid toyHash ⟨1, 0x71, 0x12, 20⟩ [9]).bind prefixOfCid = some ⟨1, 0x71, 0x12, 20⟩ := by
  decide

/-- identity "hash" (code 0): `mhLen` of the wire prefix (here 7) is ignored, the length that
reads back is the length of the hash output -/
example : (sumCid toyHash ⟨1, 0x55, 0, 7⟩ [9]).bind prefixOfCid = some ⟨1, 0x55, 0, 32⟩ := by
  decide

/-- the hypotheses of `prefix_of_sumCid` are met by a concrete state -/
example : ∃ c, sumCid toyHash ⟨1, 0x55, 0x12, 32⟩ [1, 2, 3] = some c ∧
    prefixOfCid c = some (normPrefix ⟨1, 0x55, 0x12, 32⟩ 32) := by
  decide

/-- `keys_prefix` is not vacuous: a wire block under the CIDv0-with-raw-codec prefix is accepted by
`blkFromB` and its key reads back normalised -/
example : ∃ blk, blkFromB toyHash ⟨prefixBytes ⟨0, 0x55, 0x12, 32⟩, [1, 2, 3]⟩ = some blk ∧
    prefixOfCid blk.cid = some ⟨0, 0x70, 0x12, 32⟩ := by
  decide

end GS.C12
