import GSProofs.Lemmas.RespLifeOutcomeRNet
/-!
Outcome accounting, part 3: `Core3` over a publisher micro-step (`pub`).
-/
namespace GS.RespLife

def isTerm (r : Id) : PStep → Bool
  | .callTerminate id _ => id == r
  | _ => false

theorem wf3_head (r : Id) (st : PStep) (rest : List PStep) (h : wf3 r false (st :: rest) = true) :
    wf3 r (isClose r st) rest = true := by
  cases st with
  | callClose id inc => simpa [wf3, isClose] using h
  | emitDone id c => simpa [wf3, isClose] using h
  | emitBs _ _ => exact h
  | callTerminate _ _ => exact h
  | emitNerr _ => exact h

theorem kOK_head (r : Id) (t : Bool) (st : PStep) (rest : List PStep) (h : kOK r t (st :: rest) = true) :
    kOK r (t || isTerm r st) rest = true ∧ (isDone r st = true → t = true) := by
  cases st with
  | callTerminate id inc => exact ⟨by simpa [kOK, isTerm] using h, by simp [isDone]⟩
  | emitDone id c =>
    simp only [kOK] at h
    split at h
    · rename_i hid
      simp only [Bool.and_eq_true] at h
      refine ⟨?_, fun _ => h.1⟩
      simp only [isTerm, Bool.or_false]
      rw [h.1]
      exact kOK_mono r rest false h.2
    · rename_i hid
      exact ⟨by simpa [isTerm] using h, by simp [isDone, hid]⟩
  | emitBs _ _ => exact ⟨by simpa [isTerm, kOK] using h, by simp [isDone]⟩
  | callClose _ _ => exact ⟨by simpa [isTerm, kOK] using h, by simp [isDone]⟩
  | emitNerr _ => exact ⟨by simpa [isTerm, kOK] using h, by simp [isDone]⟩

theorem tokQ_cons (r : Id) (st : PStep) (rest : List PStep) :
    tokQ r (st :: rest) = tokQ r rest + (if isDone r st then 1 else 0) := by
  cases st <;> simp [tokQ, List.countP_cons, doneStep, isDone]

theorem hasClose_cons (r : Id) (st : PStep) (rest : List PStep) :
    hasClose r (st :: rest) = (isClose r st || hasClose r rest) := by simp [hasClose]

/-- the common part of all publisher micro-steps -/
theorem core3_pub_core {r : Id} {s s' : State} {p : Peer} {st : PStep} {rest : List PStep} (hi : Core3 r s)
    (h2 : Inv2 r s) (hq : (getMQ s p).pubQ = st :: rest) (hw : (getMQ s p).pubWait = false)
    (pw : Bool) (ms : List Msg)
    (hmq : ∀ p', getMQ s' p' = if p' = p then { (getMQ s p) with pubQ := rest, pubWait := pw } else getMQ s p')
    (hmail : s'.mailbox = s.mailbox ++ ms) (hms : ∀ m ∈ ms, ∀ p', p' ≠ p → anyFrom p' m = false)
    (hpm : pend r p ms = isClose r st) (hpt : pendT r p ms = isTerm r st)
    (hcl : isClosed s' r = isClosed s r) (hlive : live r s' = live r s)
    (hdone : doneC r s' = doneC r s + (if isDone r st then 1 else 0)) (hnf : NF r s' → NF r s) : Core3 r s' := by
  have hf0 : fromN p s.mailbox = 0 := by
    have := (h2.sinv p).2
    rw [hw] at this
    simpa using this
  have hpd : pend r p s.mailbox = false := pend_false_of_fromN hf0
  have hptd : pendT r p s.mailbox = false := pendT_false_of_fromN hf0
  have hother : ∀ p', p' ≠ p → pend r p' s'.mailbox = pend r p' s.mailbox ∧
      pendT r p' s'.mailbox = pendT r p' s.mailbox := by
    intro p' hne
    have h0 : fromN p' ms = 0 := fromN_zero_of_all fun m hm => hms m hm p' hne
    rw [hmail, pend_append_list, pendT_append, pend_false_of_fromN h0, pendT_false_of_fromN h0]
    simp
  have hself : getMQ s' p = { (getMQ s p) with pubQ := rest, pubWait := pw } := by rw [hmq]; simp
  have hpubq : ∀ p', p' ≠ p → (getMQ s' p').pubQ = (getMQ s p').pubQ := by
    intro p' hne; rw [hmq, if_neg hne]
  have hpend' : pend r p s'.mailbox = isClose r st := by rw [hmail, pend_append_list, hpd, hpm]; rfl
  have hpendT' : pendT r p s'.mailbox = isTerm r st := by rw [hmail, pendT_append, hptd, hpt]; rfl
  have hj3 := hi.j3 p
  rw [hpd, hq] at hj3
  have hk := hi.k p
  rw [hptd, hq, Bool.false_or] at hk
  obtain ⟨hk1, hk2⟩ := kOK_head r _ st rest hk
  refine ⟨?_, ?_, ?_, ?_, ?_, ?_⟩
  · intro p' hp'
    rw [hcl]
    by_cases hpp : p' = p
    · subst hpp
      rw [hpend', hself] at hp'
      apply hi.h1 p' (Or.inr _)
      rw [hq, hasClose_cons, Bool.or_eq_true]
      exact hp'
    · rw [(hother p' hpp).1, hpubq p' hpp] at hp'
      exact hi.h1 p' hp'
  · intro hc
    rw [hcl] at hc
    intro p' e he
    rw [hmq] at he
    split at he
    · rename_i hpp; subst hpp; exact hi.j2 hc p' e he
    · exact hi.j2 hc p' e he
  · intro p'
    by_cases hpp : p' = p
    · subst hpp
      rw [hpend', hself]
      exact wf3_head r st rest hj3
    · rw [(hother p' hpp).1, hpubq p' hpp]; exact hi.j3 p'
  · intro p'
    by_cases hpp : p' = p
    · subst hpp
      rw [hpendT', hself, hlive, Bool.or_comm]
      exact hk1
    · rw [(hother p' hpp).2, hpubq p' hpp, hlive]; exact hi.k p'
  · intro hd
    rw [hlive]
    rw [hdone] at hd
    by_cases hds : isDone r st = true
    · have := hk2 hds
      simpa using this
    · have hds' : isDone r st = false := by simpa using hds
      rw [hds'] at hd
      exact hi.d1 (by simpa using hd)
  · intro hn
    obtain ⟨a, c, d⟩ := hi.d2 (hnf hn)
    have hdp := d p
    rw [hq, tokQ_cons] at hdp
    have hds : isDone r st = false := by
      cases hx : isDone r st with
      | false => rfl
      | true => rw [hx] at hdp; simp at hdp
    refine ⟨by rw [hdone, a, hds]; rfl, by rw [hcl]; exact c, ?_⟩
    intro p'
    by_cases hpp : p' = p
    · subst hpp
      rw [hself]
      show tokQ r rest = 0
      omega
    · rw [hpubq p' hpp]; exact d p'

theorem doneC_emit (r : Id) (s : State) (e : Event) :
    doneC r (emit s e) = doneC r s + (if doneEv r e then 1 else 0) := countP_emit _ s e

theorem core3_pubStep {r : Id} {s s' : State} {p : Peer} (hi : Core3 r s) (h2 : Inv2 r s)
    (h : pubStep s p = some s') : Core3 r s' := by
  have hnf : NF r s' → NF r s := (NF_of_pstep (pstepR_pubStep h2 h)).1
  unfold pubStep at h
  simp only at h
  split at h
  · cases h
  · rename_i hw
    have hw' : (getMQ s p).pubWait = false := by simpa using hw
    split at h
    · cases h
    · rename_i st rest hq
      have hmq : ∀ (pw : Bool) (p' : Peer), getMQ (setMQ s { (getMQ s p) with pubQ := rest, pubWait := pw }) p' =
          if p' = p then { (getMQ s p) with pubQ := rest, pubWait := pw } else getMQ s p' := by
        intro pw p'
        rw [getMQ_setMQ]
        show (if p' = (getMQ s p).peer then _ else _) = _
        rw [getMQ_peer]
      cases st with
      | emitBs id n =>
        simp only at h; cases h
        refine core3_pub_core hi h2 hq hw' (getMQ s p).pubWait [] (hmq _) (by rw [List.append_nil]; rfl) (by simp)
          rfl rfl rfl rfl ?_ hnf
        show List.countP (doneEv r) (s.events ++ List.replicate n (Event.bs id)) = _
        rw [List.countP_append, countP_replicate_false _ _ rfl]; rfl
      | emitDone id code =>
        simp only at h; cases h
        refine core3_pub_core hi h2 hq hw' (getMQ s p).pubWait [] (hmq _) (by rw [List.append_nil]; rfl) (by simp)
          rfl rfl rfl rfl ?_ hnf
        show doneC r (emit _ _) = _
        rw [doneC_emit]; rfl
      | emitNerr id =>
        simp only at h; cases h
        refine core3_pub_core hi h2 hq hw' (getMQ s p).pubWait [] (hmq _) (by rw [List.append_nil]; rfl) (by simp)
          rfl rfl rfl rfl ?_ hnf
        show doneC r (emit _ _) = _
        rw [doneC_emit]; rfl
      | callClose id inc =>
        simp only at h; cases h
        refine core3_pub_core hi h2 hq hw' true [.closeNetErr id inc p] (hmq true) rfl ?_ ?_ ?_ rfl rfl rfl hnf
        · intro m hm p' hne
          simp only [List.mem_singleton] at hm; subst hm
          simpa [anyFrom] using fun e => hne e.symm
        · simp [pend, closeFrom, isClose]
        · simp [pendT, termFrom, isTerm]
      | callTerminate id inc =>
        simp only at h; cases h
        refine core3_pub_core hi h2 hq hw' true [.terminate id inc p] (hmq true) rfl ?_ ?_ ?_ rfl rfl rfl hnf
        · intro m hm p' hne
          simp only [List.mem_singleton] at hm; subst hm
          simpa [anyFrom] using fun e => hne e.symm
        · simp [pend, closeFrom, isClose]
        · simp [pendT, termFrom, isTerm]

end GS.RespLife
