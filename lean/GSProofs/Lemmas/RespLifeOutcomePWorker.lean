import GSProofs.Lemmas.RespLifeOutcomePFrame
/-!
Outcome accounting, part 3: `Places` under worker segments, the message queue, the publisher, task pops and
the environment.
-/
namespace GS.RespLife

variable {r : Id} {okP : Peer → Prop} {okI : Nat → Prop}

/-- worker `w` changes phase / flags; its identity is known to be fine -/
theorem Places.setW {s : State} (h : Places r okP okI s) (w : Nat) (f : Worker → Worker)
    (hf : ∀ x, (f x).id = x.id ∧ (f x).peer = x.peer ∧ (f x).inc = x.inc) {a : Id} {p : Peer} {i : Nat}
    (hw : wsg s w = some (a, p, i)) (hok : a = r → okI i) : Places r okP okI (setWorker s w f) := by
  apply h.onSetWorker w f (fun x => ⟨(hf x).1, (hf x).2.1⟩)
  intro x hx hid _ _
  unfold wsg at hw
  rw [hx] at hw
  simp only [Option.map_some, Option.some.injEq, Prod.mk.injEq] at hw
  rw [(hf x).2.2, hw.2.2]
  exact hok (by rw [← hw.1]; exact hid)

theorem Places.setPhaseW {s : State} (h : Places r okP okI s) (w : Nat) (ph : WPhase) {a : Id} {p : Peer} {i : Nat}
    (hw : wsg s w = some (a, p, i)) (hok : a = r → okI i) : Places r okP okI (setPhase s w ph) :=
  h.setW w (fun x => { x with phase := ph }) (fun _ => ⟨rfl, rfl, rfl⟩) hw hok

theorem okP_of_wsg {s : State} (h : Places r okP okI s) {w : Nat} {a : Id} {p : Peer} {i : Nat}
    (hw : wsg s w = some (a, p, i)) (ha : a = r) : okP p := by
  unfold wsg at hw
  cases hx : s.workers[w]? with
  | none => rw [hx] at hw; cases hw
  | some x =>
    rw [hx] at hw
    simp only [Option.map_some, Option.some.injEq, Prod.mk.injEq] at hw
    rw [← hw.2.1]
    exact (h.wk w x hx (by rw [hw.1]; exact ha)).1

section worker
variable {s : State} {w : Nat} {wk : Worker} {i : Nat}

theorem pl_sendFinishNow (h : Places r okP okI s) (hw : wsg s w = some (wk.id, wk.peer, i)) (hok : wk.id = r → okI i)
    (err : Option WErr) : Places r okP okI (sendFinishNow s w err) := by
  unfold sendFinishNow
  exact (h.onSendMsg _ (msgPlace_other r okP okI _ rfl)).setPhaseW w _ hw hok

theorem pl_sendFinish (h : Places r okP okI s) (hw : wsg s w = some (wk.id, wk.peer, i)) (hok : wk.id = r → okI i)
    (err : Option WErr) : Places r okP okI (sendFinish s w err) := by
  unfold sendFinish
  split
  · exact h.setW w (fun x => { x with phase := .preFinish err, parkF := false }) (fun _ => ⟨rfl, rfl, rfl⟩) hw hok
  · exact pl_sendFinishNow h hw hok err

theorem pl_execW (h : Places r okP okI s) (hw : wsg s w = some (wk.id, wk.peer, i)) (hok : wk.id = r → okI i)
    (ops : List TxOp) : Places r okP okI (execTx s (.worker w) wk.peer wk.id ops).1 :=
  h.execTx _ _ _ _ (fun hid => ⟨okP_of_wsg h hw hid, by rw [incOf_worker s w wk.id hw]; exact hok hid⟩)

theorem pl_executeQuery (h : Places r okP okI s) (hw : wsg s w = some (wk.id, wk.peer, i)) (hok : wk.id = r → okI i)
    (err : Option WErr) : Places r okP okI (executeQuery s w wk err) := by
  unfold executeQuery
  split
  · exact pl_sendFinish h hw hok _
  · exact pl_sendFinish h hw hok _
  · exact pl_sendFinish h hw hok _
  · simp only
    have hx := pl_execW h hw hok [TxOp.status (finalStatus (lookup s wk.id) err)]
    have hsx := wsg_execTx s (.worker w) wk.peer wk.id [TxOp.status (finalStatus (lookup s wk.id) err)] w
    generalize execTx s (.worker w) wk.peer wk.id [TxOp.status (finalStatus (lookup s wk.id) err)] = pr at hx hsx
    obtain ⟨s1, ok⟩ := pr
    simp only at hx hsx ⊢
    rw [hw] at hsx
    split
    · exact pl_sendFinish hx hsx hok err
    · exact hx.setPhaseW w _ hsx hok

theorem pl_loopTop (h : Places r okP okI s) (hw : wsg s w = some (wk.id, wk.peer, i)) (hok : wk.id = r → okI i) :
    Places r okP okI (loopTop s w wk) := by
  unfold loopTop
  split
  · exact pl_sendFinish h hw hok _
  · split
    · exact pl_executeQuery h hw hok _
    · exact h.setPhaseW w _ hw hok

theorem pl_afterBlock (h : Places r okP okI s) (hw : wsg s w = some (wk.id, wk.peer, i)) (hok : wk.id = r → okI i)
    (err : Option WErr) : Places r okP okI (afterBlock s w wk err) := by
  unfold afterBlock
  split
  · exact pl_executeQuery h hw hok _
  · exact pl_loopTop h hw hok

theorem pl_runTx (h : Places r okP okI s) (hw : wsg s w = some (wk.id, wk.peer, i)) (hok : wk.id = r → okI i)
    (ops : List TxOp) (k : AfterTx) : Places r okP okI (runTx s w wk ops k) := by
  unfold runTx
  have hx := pl_execW h hw hok ops
  have hsx := wsg_execTx s (.worker w) wk.peer wk.id ops w
  generalize execTx s (.worker w) wk.peer wk.id ops = pr at hx hsx
  obtain ⟨s1, ok⟩ := pr
  simp only at hx hsx ⊢
  rw [hw] at hsx
  split
  · cases k with
    | afterBlock err pr => exact pl_afterBlock hx hsx hok err
    | afterFinal err => exact pl_sendFinish hx hsx hok err
  · exact hx.setPhaseW w _ hsx hok

theorem pl_blockPart (h : Places r okP okI s) (hw : wsg s w = some (wk.id, wk.peer, i)) (hok : wk.id = r → okI i)
    (ops : List TxOp) (cfu : Option WErr) (present : Bool) : Places r okP okI (blockPart s w wk ops cfu present) := by
  unfold blockPart
  split
  · exact pl_sendFinish h hw hok _
  · rename_i x hl
    simp only
    split
    · exact pl_runTx (h.onModAux x.id _) hw hok _ _
    · split
      · exact pl_runTx (h.onModAux x.id _) hw hok _ _
      · exact pl_runTx (h.onModAux x.id _) hw hok _ _
      · exact pl_runTx (h.onModAux x.id _) hw hok _ _
      · exact pl_runTx (h.onModAux x.id _) hw hok _ _
      · exact (h.onModAux x.id _).setPhaseW w _ hw hok

theorem pl_checkForUpdates (h : Places r okP okI s) (hw : wsg s w = some (wk.id, wk.peer, i))
    (hok : wk.id = r → okI i) (ops : List TxOp) (present : Bool) (pick : Nat) :
    Places r okP okI (checkForUpdates s w wk ops present pick) := by
  unfold checkForUpdates
  split
  · exact pl_sendFinish h hw hok _
  · rename_i x hl
    simp only
    split
    · exact pl_blockPart h hw hok ops none present
    · exact pl_blockPart (h.onModAux x.id _) hw hok _ _ present
    · exact pl_runTx (h.onModAux x.id _) hw hok ops _
    · exact ((h.onModAux x.id _).onSendMsg (.getUpdates w) (msgPlace_other r okP okI _ rfl)).setPhaseW w _ hw hok

theorem pl_applyUpdates (h : Places r okP okI s) (hw : wsg s w = some (wk.id, wk.peer, i)) (hok : wk.id = r → okI i)
    (ups : List UP) (ops : List TxOp) (present : Bool) (pick : Nat) :
    Places r okP okI (applyUpdates s w wk ups ops present pick) := by
  induction ups generalizing ops with
  | nil => exact pl_checkForUpdates h hw hok ops present pick
  | cons u us ih =>
    unfold applyUpdates
    simp only
    split
    · exact pl_runTx h hw hok _ _
    · exact ih _

end worker

theorem pl_wstep {s s' : State} {w pick : Nat} (h : Places r okP okI s) (hs : wstep s w pick = some s') :
    Places r okP okI s' := by
  unfold wstep at hs
  split at hs
  · cases hs
  · rename_i wk hwk
    have hw : wsg s w = some (wk.id, wk.peer, wk.inc) := by
      unfold workerOf at hwk
      simp [wsg, hwk]
    have hok : ∀ (hact : wk.phase ≠ .waitStart ∧ wk.phase ≠ .done), wk.id = r → okI wk.inc := by
      intro hact hid
      unfold workerOf at hwk
      exact (h.wk w wk hwk hid).2 hact.1 hact.2
    split at hs
    · rename_i hph
      cases hs; exact pl_loopTop h hw (hok (by rw [hph]; exact ⟨by simp, by simp⟩))
    · rename_i hph
      have hok' := hok (by rw [hph]; exact ⟨by simp, by simp⟩)
      split at hs
      · cases hs; exact pl_sendFinish h hw hok' _
      · rename_i x hl
        cases hs
        exact pl_checkForUpdates (h.onModAux x.id _) hw hok' [] _ pick
    · rename_i ups ops present hph
      cases hs; exact pl_applyUpdates h hw (hok (by rw [hph]; exact ⟨by simp, by simp⟩)) _ _ _ pick
    · rename_i ops cfu hph
      cases hs; exact pl_runTx h hw (hok (by rw [hph]; exact ⟨by simp, by simp⟩)) _ _
    · rename_i err hph
      cases hs; exact pl_sendFinishNow h hw (hok (by rw [hph]; exact ⟨by simp, by simp⟩)) _
    · rename_i ops k hph
      have hok' := hok (by rw [hph]; exact ⟨by simp, by simp⟩)
      have hb := h.buildNow (.worker w) wk.peer wk.id ops
        (fun hid => ⟨okP_of_wsg h hw hid, by rw [incOf_worker s w wk.id hw]; exact hok' hid⟩)
      have hsb : wsg (buildNow s (.worker w) wk.peer wk.id ops) w = some (wk.id, wk.peer, wk.inc) := by
        rw [wsg_buildNow]; exact hw
      cases k with
      | afterBlock err pr =>
        simp only at hs; cases hs
        exact pl_afterBlock hb hsb hok' err
      | afterFinal err =>
        simp only at hs; cases hs
        exact pl_sendFinish hb hsb hok' err
    · cases hs

-- ------------------------------------------------------------------ message queue
theorem step_of_sentSteps {e : Entry} {st : PStep} (h : st ∈ sentSteps e) :
    stepId st = e.id ∧ ∀ i, stepInc st = some i → i = e.inc := by
  unfold sentSteps at h
  simp only [List.mem_append] at h
  rcases h with h | h
  · by_cases hb : e.bdata > 0
    · rw [if_pos hb] at h
      simp only [List.mem_singleton] at h; subst h; exact ⟨rfl, fun i hi => by cases hi⟩
    · rw [if_neg hb] at h; cases h
  · by_cases ht : isTerminal (if e.inResp then e.code.getD stPartial else 0) = true
    · rw [if_pos ht] at h
      simp only [List.mem_cons, List.mem_nil_iff, or_false] at h
      rcases h with h | h
      · subst h; exact ⟨rfl, fun i hi => by simpa [stepInc] using hi.symm⟩
      · subst h; exact ⟨rfl, fun i hi => by cases hi⟩
    · rw [if_neg ht] at h; cases h

theorem step_of_errSteps {e : Entry} {st : PStep} (h : st ∈ errSteps e) :
    stepId st = e.id ∧ ∀ i, stepInc st = some i → i = e.inc := by
  unfold errSteps at h
  simp only [List.mem_append, List.mem_singleton] at h
  rcases h with (h | h) | h
  · subst h; exact ⟨rfl, fun i hi => by simpa [stepInc] using hi.symm⟩
  · by_cases ht : isTerminal (if e.inResp then e.code.getD stPartial else 0) = true
    · rw [if_pos ht] at h
      simp only [List.mem_singleton] at h; subst h; exact ⟨rfl, fun i hi => by simpa [stepInc] using hi.symm⟩
    · rw [if_neg ht] at h; cases h
  · subst h; exact ⟨rfl, fun i hi => by cases hi⟩

theorem mem_bents_filter {b : Builder} {e : Entry} {P : Entry → Bool} (h : e ∈ b.entries.filter P) :
    e ∈ bents (some b) := (List.mem_filter.1 h).1

theorem pl_netResolve {s s' : State} {p : Peer} {ok : Bool} (h : Places r okP okI s)
    (hs : netResolve s p ok = some s') : Places r okP okI s' := by
  unfold netResolve at hs
  simp only at hs
  split at hs
  · cases hs
  · rename_i b hb
    have hent : ∀ e ∈ b.entries.filter (·.sub), e.id = r → okP p ∧ okI e.inc := by
      intro e he hid
      exact h.bld p e (Or.inl (by rw [hb]; exact mem_bents_filter he)) hid
    split at hs
    · cases hs
      apply Places.release
      apply h.onSetMQ
      · intro e he hid
        show okP (getMQ s p).peer ∧ _
        rw [getMQ_peer]
        rcases he with he | he
        · cases he
        · exact h.bld p e (Or.inr he) hid
      · intro st hst hid
        show okP (getMQ s p).peer ∧ _
        rw [getMQ_peer]
        rcases List.mem_append.1 hst with h1 | h1
        · exact h.pub p st h1 hid
        · simp only [List.mem_flatten, List.mem_map] at h1
          obtain ⟨l, ⟨e, he, rfl⟩, hst'⟩ := h1
          obtain ⟨e1, e2⟩ := step_of_sentSteps hst'
          have := hent e he (by rw [← e1]; exact hid)
          exact ⟨this.1, fun i hi => by rw [e2 i hi]; exact this.2⟩
    · cases hs
      have hc : Places r okP okI (closeStreams s ((b.entries.filter (·.sub)).map (·.id))) :=
        h.of_same rfl rfl rfl rfl rfl rfl
      have h2 : Places r okP okI (setMQ (closeStreams s ((b.entries.filter (·.sub)).map (·.id)))
          { (getMQ s p) with inflight := none,
                             next := (scrubNext (getMQ s p).next ((b.entries.filter (·.sub)).map (·.id))).1,
                             pubQ := (getMQ s p).pubQ ++ ((b.entries.filter (·.sub)).map errSteps).flatten }) := by
        apply hc.onSetMQ
        · intro e he hid
          show okP (getMQ s p).peer ∧ _
          rw [getMQ_peer]
          rcases he with he | he
          · cases he
          · refine h.bld p e (Or.inr ?_) hid
            unfold scrubNext at he
            cases hn : (getMQ s p).next with
            | none => rw [hn] at he; cases he
            | some nb =>
              rw [hn] at he
              simp only at he
              split at he
              · cases he
              · exact (List.mem_filter.1 he).1
        · intro st hst hid
          show okP (getMQ s p).peer ∧ _
          rw [getMQ_peer]
          rcases List.mem_append.1 hst with h1 | h1
          · exact h.pub p st h1 hid
          · simp only [List.mem_flatten, List.mem_map] at h1
            obtain ⟨l, ⟨e, he, rfl⟩, hst'⟩ := h1
            obtain ⟨e1, e2⟩ := step_of_errSteps hst'
            have := hent e he (by rw [← e1]; exact hid)
            exact ⟨this.1, fun i hi => by rw [e2 i hi]; exact this.2⟩
      split
      · exact (h2.release p _).release p _
      · exact h2.release p _

theorem pl_extract {s s' : State} {p : Peer} (h : Places r okP okI s) (hs : extract s p = some s') :
    Places r okP okI s' := by
  unfold extract at hs
  simp only at hs
  split at hs
  · rename_i b hi hn
    split at hs
    · cases hs
    · cases hs
      apply h.onSetMQ
      · intro e he hid
        show okP (getMQ s p).peer ∧ _
        rw [getMQ_peer]
        rcases he with he | he
        · exact h.bld p e (Or.inr (by rw [hn]; exact he)) hid
        · cases he
      · intro st hst hid
        show okP (getMQ s p).peer ∧ _
        rw [getMQ_peer]
        exact h.pub p st hst hid
  · cases hs

theorem pl_primer {s : State} (h : Places r okP okI s) (p : Peer) : Places r okP okI (primer s p) := by
  unfold primer
  simp only
  apply h.onSetMQ
  · intro e he hid
    show okP (getMQ s p).peer ∧ _
    rw [getMQ_peer]
    rcases he with he | he
    · exact h.bld p e (Or.inl he) hid
    · refine h.bld p e (Or.inr ?_) hid
      rw [← bents_getD]; exact he
  · intro st hst hid
    show okP (getMQ s p).peer ∧ _
    rw [getMQ_peer]
    exact h.pub p st hst hid

end GS.RespLife
