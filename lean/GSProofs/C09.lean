import GS.Model.ReqMgr
import GSProofs.Lemmas.ReqMgr
/-!
# C09 — Responses from other peers cannot affect a request

Property sentence: *messages from any peer other than the one a request was sent to have no effect
on that request: they deliver no data, change no status, reach none of the requestor's response or
block hooks for it, and cannot cancel it or cause messages to be sent on its behalf.*

Model: `GS.ReqMgr` (GS/Model/ReqMgr.lean).  `processResponses q rs` is the fold of the stage list
`GS.Generated.ReqPipeline.stages`, which translate/reqpipeline regenerates from
requestmanager/server.go on every check; the theorems below are proved for *every* stage list that
satisfies `Guarded` and then instantiated with the generated one (`pipeline_guarded`, by `decide`).
The filter itself is not hand-written either: `stageOne .filterForPeer` evaluates the comparison term
`ReqPipeline.filterCond` extracted from `filterResponsesForPeer` (`filter_compares_peer`, by `decide`).
Re-ordering the stages in the Go source so that the hooks (or anything else) run before the peer
filter makes `pipeline_guarded` false and this file stops compiling.

What "the request" consists of in the model: its table entry (peer, state, terminal error, context
cancelled, last response as seen by block hooks, loader online flag and loader queue `ingested`,
waiting CancelRequest callers, pending pause) and every output event that names it (response-hook
calls, outgoing messages, connection protect/unprotect, values sent on and closing of its channels,
task-queue operations).
-/
namespace GS.C09
open GS.ReqMgr GS.Generated

/-- Every effectful stage of the response pipeline runs after the peer filter.  The translator
    guarantees linear data flow (each stage consumes what the previous one kept) and every stage
    other than the filter is effectful, so this is: the first stage is the peer filter. -/
def Guarded : List StageOp → Bool
  | [] => true
  | op :: _ => op == .filterForPeer

/-- A response is *foreign* for a message from `q` if its request is in the table for another peer
    (the situation of the property) or not in the table at all. -/
def Foreign (t : Table) (q : Peer) (x : Resp) : Prop := keeps t q x = false

instance (t : Table) (q : Peer) (x : Resp) : Decidable (Foreign t q x) := by
  unfold Foreign; infer_instance

/-- the pipeline extracted from today's `processResponses` is guarded
    (this is the statement that depends on the Go source) -/
theorem pipeline_guarded : Guarded ReqPipeline.stages = true := by decide

/-- the comparison inside the peer filter, as extracted from the source, is "entry's peer ≠ sender"
    (this too depends on the Go source: comparing anything else changes the generated term) -/
theorem filter_compares_peer : GoodFilter ReqPipeline.filterCond = true := by decide

/-- what the filter keeps was sent to the sender -/
theorem keeps_peer (t : Table) (q : Peer) (x : Resp) (h : keeps t q x = true) :
    ∃ e, t.get x.id = some e ∧ e.peer = q := by
  unfold keeps at h
  split at h
  · rename_i e he
    rw [filterKeeps_good _ filter_compares_peer] at h
    exact ⟨e, he, by simpa using h⟩
  · cases h

/-! ## single step -/

/-- General form of the step theorem: with a guarded pipeline, a message from `q` — whatever
    responses (any status, metadata, extensions, blocks, hook outcomes) it carries — leaves the entry
    of every request that was sent to another peer exactly as it was, and produces no event that
    names that request. -/
theorem noninterference_of_guarded (stages : List StageOp) (hg : Guarded stages = true)
    (t : Table) (r : ReqId) (st : Entry) (q : Peer) (rs : List Resp)
    (hr : t.get r = some st) (hq : q ≠ st.peer) :
    (runStages stages q t rs).1.get r = some st ∧ ∀ ev ∈ (runStages stages q t rs).2, ev.req ≠ r := by
  cases stages with
  | nil => simp [runStages, hr]
  | cons op rest =>
    have hop : op = .filterForPeer := by simpa [Guarded] using hg
    subst hop
    simp only [runStages, runStage_filter]
    have hkept : ∀ x ∈ rs.filter (keeps t q), x.id ≠ r := by
      intro x hx hid
      have hk : keeps t q x = true := (List.mem_filter.mp hx).2
      obtain ⟨e, he, hpe⟩ := keeps_peer t q x hk
      rw [hid, hr] at he
      cases he
      exact hq hpe.symm
    obtain ⟨f1, f2⟩ := runStages_frame rest q r t (rs.filter (keeps t q)) hkept
    refine ⟨by rw [f1, hr], ?_⟩
    intro ev hev
    simp only [List.nil_append] at hev
    exact f2 ev hev

/-- **C09, one step.**  For every state `s`, request `r` with table entry `st`, peer `q ≠ st.peer`
    and ANY responses `rs`: handling `processResponses q rs` leaves `r`'s table entry (status,
    loader queue, channel-related fields, …) unchanged, leaves the task queue unchanged, and emits no
    hook event, no outgoing message, no channel event and no other event that mentions `r`.
    (No reachability hypothesis is needed: it holds in every state.) -/
theorem noninterference (s : State) (r : ReqId) (st : Entry) (q : Peer) (rs : List Resp)
    (hr : s.table.get r = some st) (hq : q ≠ st.peer) :
    (step s (.resp q rs)).1.table.get r = some st
    ∧ (step s (.resp q rs)).1.pending = s.pending
    ∧ (step s (.resp q rs)).1.active = s.active
    ∧ ∀ ev ∈ (step s (.resp q rs)).2.1, ev.req ≠ r := by
  have h := noninterference_of_guarded ReqPipeline.stages pipeline_guarded s.table r st q rs hr hq
  exact ⟨h.1, rfl, rfl, h.2⟩

/-! ## whole histories -/

/-- With a guarded pipeline a foreign response can be deleted from a message without changing
    anything: the resulting table and the complete event list are identical. -/
theorem erase_foreign_of_guarded (stages : List StageOp) (hg : Guarded stages = true)
    (t : Table) (q : Peer) (pre post : List Resp) (x : Resp) (hx : Foreign t q x) :
    runStages stages q t (pre ++ x :: post) = runStages stages q t (pre ++ post) := by
  cases stages with
  | nil => simp [runStages]
  | cons op rest =>
    have hop : op = .filterForPeer := by simpa [Guarded] using hg
    subst hop
    simp only [runStages, runStage_filter]
    have : (pre ++ x :: post).filter (keeps t q) = (pre ++ post).filter (keeps t q) := by
      simp [List.filter_append, show keeps t q x = false from hx]
    rw [this]

theorem step_erase_foreign (s : State) (q : Peer) (pre post : List Resp) (x : Resp)
    (hx : Foreign s.table q x) :
    step s (.resp q (pre ++ x :: post)) = step s (.resp q (pre ++ post)) := by
  simp only [step, processResponses]
  rw [erase_foreign_of_guarded ReqPipeline.stages pipeline_guarded s.table q pre post x hx]

/-- `ErasedFrom s h h'`: history `h'` is history `h` run from state `s` with some foreign responses
    deleted — each one foreign in the state in which its message is handled.  Any number of
    deletions, anywhere, interleaved with arbitrary other operations (the genuine exchange, local
    API calls, executor steps). -/
inductive ErasedFrom : State → List Op → List Op → Prop
  | nil (s : State) : ErasedFrom s [] []
  | keep (s : State) (op : Op) (ops ops' : List Op) :
      ErasedFrom (step s op).1 ops ops' → ErasedFrom s (op :: ops) (op :: ops')
  | erase (s : State) (q : Peer) (pre post : List Resp) (x : Resp) (ops ops' : List Op) :
      Foreign s.table q x →
      ErasedFrom s (Op.resp q (pre ++ post) :: ops) ops' →
      ErasedFrom s (Op.resp q (pre ++ x :: post) :: ops) ops'

/-- **C09 over histories.**  Running any history gives exactly the same final state and the same
    outputs at every step as running it with the foreign responses deleted: responses from other
    peers carrying a request's ID are no-ops, however they are interleaved with the genuine exchange.
    By induction on the history. -/
theorem noninterference_run (s : State) (h h' : List Op) (he : ErasedFrom s h h') :
    run s h = run s h' := by
  induction he with
  | nil s => rfl
  | keep s op ops ops' _ ih => simp only [run, ih]
  | erase s q pre post x ops ops' hx _ ih =>
    rw [← ih]
    simp only [run, step_erase_foreign s q pre post x hx]

/-! ## the pre-fix order is refuted (why `Guarded` is needed) -/

/-- the stage order of `processResponses` before commit 33dbc69 -/
def stagesBeforeFix : List StageOp := [.extensions, .filterForPeer, .updateLast, .ingest, .terminations]

/-- request 1 was sent to peer 0 and is queued -/
def tableEx : Table := [(1, { peer := 0 })]

/-- a response from peer 2 carrying request 1's ID, for which the response hook asks for an update
    and then fails -/
def evilResp : Resp := { id := 1, status := 14, hookExt := true, hookErr := true }

/-- **counterexample for the old order**: the third peer's response reaches the response hook, and the
    hook's error terminates the genuine request: its entry is deleted, the error is delivered on its
    error channel, its channels are closed and its connection is unprotected.  (The update sent to
    the third peer and the cancel sent to the genuine responder are in the event list too; they are
    not mentioned here so that the statement does not depend on the generated message targets.) -/
theorem unguarded_counterexample :
    (runStages stagesBeforeFix 2 tableEx [evilResp]).1.get 1 = none
    ∧ Ev.hook 2 1 14 ∈ (runStages stagesBeforeFix 2 tableEx [evilResp]).2
    ∧ Ev.errSent 1 .hook ∈ (runStages stagesBeforeFix 2 tableEx [evilResp]).2
    ∧ Ev.unprotect 0 1 ∈ (runStages stagesBeforeFix 2 tableEx [evilResp]).2
    ∧ Ev.closed 1 ∈ (runStages stagesBeforeFix 2 tableEx [evilResp]).2 := by
  decide

/-- the same input on today's pipeline: nothing happens (non-vacuity of `noninterference`:
    its hypotheses are met by `tableEx`, request 1, peer 2) -/
example : processResponses 2 [evilResp] tableEx = (tableEx, []) := by decide

example : ∃ st, tableEx.get 1 = some st ∧ (2 : Peer) ≠ st.peer := ⟨{ peer := 0 }, by decide, by decide⟩

/-- non-vacuity of `noninterference_run`: a history in which a third-peer response (with a failing
    hook) arrives between the genuine responses of a running request -/
example : ErasedFrom {}
    [.newRequest 1 0, .start 1, .resp 2 ([] ++ evilResp :: []), .resp 0 [{ id := 1, status := 20, count := 1 }], .release 1 .ok]
    [.newRequest 1 0, .start 1, .resp 2 ([] ++ []), .resp 0 [{ id := 1, status := 20, count := 1 }], .release 1 .ok] := by
  apply ErasedFrom.keep; apply ErasedFrom.keep
  apply ErasedFrom.erase
  · decide
  · apply ErasedFrom.keep; apply ErasedFrom.keep; apply ErasedFrom.keep; exact ErasedFrom.nil _

end GS.C09
