// Command respdispatch regenerates lean/GS/Generated/RespDispatch.lean (properties C10, C05) from
// responsemanager/*.go:
//
//   - the key type of the response table (request ID only, or a struct containing the peer);
//   - the field of a table entry that holds the peer the response is served to (the field the
//     new-request handler initialises from its peer parameter);
//   - for the handler of the "process requests" mailbox message (found through the message type's
//     handle method): per request type the handler that is called, and whether a *peer guard*
//     protects it.  A peer guard is a test `entry.<peerField> != <sender>` on the entry found under
//     the request's ID that skips the request, placed (a) at the top of the loop over the requests,
//     (b) at the top of the `case`, or (c) right after the table lookup of the handler, which then
//     must receive the sender as an argument;
//   - that the RequestCloser interface used by the message subscriber addresses responses by
//     request ID only.
//
// Any other comparison involving the peer field, any statement in the dispatch loop that is not
// understood => exit 1.
//
// usage: go run ./respdispatch <repo>
package main

import (
	"fmt"
	"go/ast"
	"go/token"
	"os"
	"path/filepath"
	"regexp"
	"strings"

	"veriftranslate/gocanon"
)

const mgrType = "ResponseManager"
const table = "inProgressResponses"

var p *gocanon.Pkg

func method(name string, at token.Pos) *ast.FuncDecl {
	fd := p.Method(mgrType, name)
	if fd == nil {
		p.Die(at, "method %s.%s not found", mgrType, name)
	}
	return fd
}

// tableTypes returns the key kind and the element struct name of the response table.
func tableTypes() (keyKind, elem string) {
	st := p.Struct(mgrType)
	if st == nil {
		p.Die(token.NoPos, "struct %s not found", mgrType)
	}
	for _, f := range st.Fields.List {
		for _, n := range f.Names {
			if n.Name != table {
				continue
			}
			mt, ok := f.Type.(*ast.MapType)
			if !ok {
				p.Die(f.Pos(), "%s is not a map", table)
			}
			elem = strings.TrimPrefix(p.Src(mt.Value), "*")
			switch k := p.Src(mt.Key); {
			case k == "graphsync.RequestID":
				keyKind = ".requestId"
			default:
				// a struct type of this package with a peer.ID and a graphsync.RequestID field
				ks := p.Struct(k)
				hasPeer, hasID := false, false
				if ks != nil {
					for _, kf := range ks.Fields.List {
						switch p.Src(kf.Type) {
						case "peer.ID":
							hasPeer = true
						case "graphsync.RequestID":
							hasID = true
						}
					}
				}
				if !hasPeer || !hasID {
					p.Die(f.Pos(), "response table key type %s not understood", k)
				}
				keyKind = ".peerAndId"
			}
			return
		}
	}
	p.Die(st.Pos(), "field %s not found in %s", table, mgrType)
	return
}

func ownerField(elem string) string {
	var fields []string
	for _, file := range p.Files {
		for _, d := range file.Decls {
			fd, ok := d.(*ast.FuncDecl)
			if !ok || fd.Body == nil {
				continue
			}
			_, peerParam := p.ParamOfType(fd, "peer.ID")
			if peerParam == nil {
				continue
			}
			ast.Inspect(fd.Body, func(n ast.Node) bool {
				cl, ok := n.(*ast.CompositeLit)
				if !ok || cl.Type == nil || p.Src(cl.Type) != elem {
					return true
				}
				for _, e := range cl.Elts {
					if kv, ok := e.(*ast.KeyValueExpr); ok {
						if id, ok := kv.Value.(*ast.Ident); ok && id.Obj == peerParam.Obj {
							fields = append(fields, p.Src(kv.Key))
						}
					}
				}
				return true
			})
		}
	}
	if len(fields) != 1 {
		p.Die(token.NoPos, "cannot determine which field of %s holds the peer a response is served to (candidates %v)", elem, fields)
	}
	es := p.Struct(elem)
	if es != nil {
		for _, f := range es.Fields.List {
			for _, n := range f.Names {
				if n.Name == fields[0] && p.Src(f.Type) == "peer.ID" {
					return fields[0]
				}
			}
		}
	}
	p.Die(token.NoPos, "field %s.%s is not a peer.ID", elem, fields[0])
	return ""
}

func entryMethod() *ast.FuncDecl {
	var msgType string
	p.Structs(func(name string, st *ast.StructType) {
		for _, f := range st.Fields.List {
			if t := p.Src(f.Type); strings.HasPrefix(t, "[]") && strings.HasSuffix(t, ".GraphSyncRequest") && name != "inProgressResponseStatus" {
				if msgType != "" && msgType != name {
					p.Die(st.Pos(), "two message types carry request lists: %s, %s", msgType, name)
				}
				msgType = name
			}
		}
	})
	if msgType == "" {
		p.Die(token.NoPos, "no mailbox message type with a []GraphSyncRequest field")
	}
	h := p.Method(msgType, "handle")
	if h == nil || len(h.Body.List) != 1 {
		p.Die(token.NoPos, "%s.handle: expected a single call", msgType)
	}
	es, ok := h.Body.List[0].(*ast.ExprStmt)
	if !ok {
		p.Die(h.Pos(), "%s.handle: expected a single call", msgType)
	}
	call, ok := es.X.(*ast.CallExpr)
	if !ok {
		p.Die(h.Pos(), "%s.handle: expected a single call", msgType)
	}
	sel, ok := call.Fun.(*ast.SelectorExpr)
	if !ok || len(call.Args) != 2 {
		p.Die(h.Pos(), "%s.handle: expected rm.<method>(peer, requests)", msgType)
	}
	return method(sel.Sel.Name, h.Pos())
}

type ctxT struct {
	recv      *ast.Object
	peerParam *ast.Object
	loopVar   *ast.Object
	owner     string
}

type guardT struct{ lhs, rhs string }

func (g *guardT) lean() string {
	if g == nil {
		return "none"
	}
	return fmt.Sprintf("some { key := .requestId, lhs := %s, rhs := %s }", g.lhs, g.rhs)
}

// peerTerm classifies an operand of a guard comparison: the peer field of the looked-up entry or the
// sender parameter; anything else is fatal.
func peerTerm(e ast.Expr, entryVar, owner, sender string, at token.Pos) string {
	switch s := p.Src(e); s {
	case entryVar + "." + owner:
		return ".entryPeer"
	case sender:
		return ".sender"
	default:
		p.Die(at, "guard compares %q: neither the entry's peer field %s.%s nor the sender %s", s, entryVar, owner, sender)
	}
	return ""
}

// isGuardIf: `if e, ok := rm.table[v.ID()]; ok && <A> != <B> { (log)* <exit> }` where A, B are the
// entry's peer field or the sender, and exit is `continue` (loop level) or `continue`/`break` (inside
// a case).  Returns the comparison as terms; nil if s is not an if-statement with such an initialiser.
func isGuardIf(s ast.Stmt, c *ctxT, inCase bool) *guardT {
	ifs, ok := s.(*ast.IfStmt)
	if !ok {
		return nil
	}
	as, ok := ifs.Init.(*ast.AssignStmt)
	if !ok || as.Tok != token.DEFINE || len(as.Lhs) != 2 || len(as.Rhs) != 1 {
		return nil
	}
	e, ok1 := as.Lhs[0].(*ast.Ident)
	okv, ok2 := as.Lhs[1].(*ast.Ident)
	if !ok1 || !ok2 {
		return nil
	}
	want := c.recv.Name + "." + table + "[" + c.loopVar.Name + ".ID()]"
	if p.Src(as.Rhs[0]) != want {
		p.Die(s.Pos(), "guard looks up %s instead of %s", p.Src(as.Rhs[0]), want)
	}
	and, ok := ifs.Cond.(*ast.BinaryExpr)
	if !ok || and.Op != token.LAND || p.Src(and.X) != okv.Name {
		p.Die(s.Pos(), "guard condition %q is not `%s && <peer> != <peer>`", p.Src(ifs.Cond), okv.Name)
	}
	cmp, ok := and.Y.(*ast.BinaryExpr)
	if !ok || cmp.Op != token.NEQ {
		p.Die(s.Pos(), "guard condition %q is not `%s && <peer> != <peer>`", p.Src(ifs.Cond), okv.Name)
	}
	g := &guardT{peerTerm(cmp.X, e.Name, c.owner, c.peerParam.Name, s.Pos()), peerTerm(cmp.Y, e.Name, c.owner, c.peerParam.Name, s.Pos())}
	if ifs.Else != nil {
		p.Die(s.Pos(), "guard with an else branch")
	}
	var body []ast.Stmt
	for _, b := range ifs.Body.List {
		if !gocanon.IsLogStmt(b) {
			body = append(body, b)
		}
	}
	if len(body) != 1 {
		p.Die(s.Pos(), "guard body must only skip the request: %s", p.Src(ifs.Body))
	}
	br, ok := body[0].(*ast.BranchStmt)
	if !ok || br.Label != nil || !(br.Tok == token.CONTINUE || (inCase && br.Tok == token.BREAK)) {
		p.Die(s.Pos(), "guard body must only skip the request: %s", p.Src(ifs.Body))
	}
	return g
}

type caseInfo struct {
	typ, handlerName, handlerClass string
	caseGuard, handlerGuard        *guardT
	keyExpr                        string
}

func classifyHandler(fd *ast.FuncDecl) string {
	c := p.Canon(fd)
	isNew := strings.Contains(c, ".NewStream(") && strings.Contains(c, "rm."+table+"[")
	isUpd := strings.Contains(c, ".ProcessUpdateHooks(")
	isAbort := strings.Contains(c, ".ErrSignal <- ")
	n := 0
	for _, b := range []bool{isNew, isUpd, isAbort} {
		if b {
			n++
		}
	}
	if n != 1 {
		p.Die(fd.Pos(), "%s: cannot tell whether this is the new-request, update or abort handler", fd.Name.Name)
	}
	switch {
	case isNew:
		return ".new"
	case isUpd:
		return ".update"
	}
	return ".abort"
}

// handlerGuard: does the handler compare the stored peer with a peer.ID parameter right after its
// table lookup (`e, ok := rm.table[k]; if !ok || e.<owner> != pp … { return … }`)?  Any other use of
// a comparison on the owner field is fatal.  Returns the index of that parameter or -1.
func handlerGuard(fd *ast.FuncDecl, owner string) (int, *guardT) {
	guardParam := -1
	var cmp []*ast.BinaryExpr
	ast.Inspect(fd.Body, func(n ast.Node) bool {
		be, ok := n.(*ast.BinaryExpr)
		if !ok || (be.Op != token.EQL && be.Op != token.NEQ) {
			return true
		}
		for _, side := range []ast.Expr{be.X, be.Y} {
			if sel, ok := side.(*ast.SelectorExpr); ok && sel.Sel.Name == owner {
				cmp = append(cmp, be)
			}
		}
		return true
	})
	if len(cmp) == 0 {
		return -1, nil
	}
	if len(cmp) > 1 {
		p.Die(fd.Pos(), "%s: several comparisons on the peer field", fd.Name.Name)
	}
	be := cmp[0]
	pi, pp := p.ParamOfType(fd, "peer.ID")
	// must be `X.owner != pp` as a disjunct of the condition of a top-level if whose body returns,
	// immediately preceded by the lookup that defines X
	for i, st := range fd.Body.List {
		ifs, ok := st.(*ast.IfStmt)
		if !ok || !contains(ifs.Cond, be) {
			continue
		}
		if i == 0 || pp == nil || be.Op != token.NEQ {
			break
		}
		as, ok := fd.Body.List[i-1].(*ast.AssignStmt)
		if !ok || len(as.Lhs) != 2 || !strings.HasPrefix(p.Src(as.Rhs[0]), gocanon.RecvObj(fd).Name+"."+table+"[") {
			break
		}
		x, okv := p.Src(as.Lhs[0]), p.Src(as.Lhs[1])
		if p.Src(be) != x+"."+owner+" != "+pp.Name {
			break
		}
		if !strings.HasPrefix(p.Src(ifs.Cond), "!"+okv+" || "+p.Src(be)) {
			break
		}
		if len(ifs.Body.List) == 0 {
			break
		}
		if _, ok := ifs.Body.List[len(ifs.Body.List)-1].(*ast.ReturnStmt); !ok {
			break
		}
		guardParam = pi
	}
	if guardParam < 0 {
		p.Die(be.Pos(), "%s: comparison on the peer field of unknown shape: %s", fd.Name.Name, p.Src(be))
	}
	return guardParam, &guardT{".entryPeer", ".sender"}
}

func contains(root ast.Node, target ast.Node) bool {
	found := false
	ast.Inspect(root, func(n ast.Node) bool {
		if n == target {
			found = true
		}
		return !found
	})
	return found
}

func tableKeys(fd *ast.FuncDecl) []string {
	var keys []string
	recv := gocanon.RecvObj(fd)
	ast.Inspect(fd.Body, func(n ast.Node) bool {
		ix, ok := n.(*ast.IndexExpr)
		if !ok {
			return true
		}
		if sel, ok := ix.X.(*ast.SelectorExpr); ok && sel.Sel.Name == table {
			if id, ok := sel.X.(*ast.Ident); ok && id.Obj == recv {
				keys = append(keys, p.Src(ix.Index))
			}
		}
		return true
	})
	return keys
}

// closerKind: how the per-stream message subscriber addresses the response it closes.
//   .requestId    TerminateRequest(id) / CloseWithNetworkError(id) act on whatever is in the table under id
//   .ownResponse  both carry the subscriber; the handlers of the two mailbox messages act only if the table
//                 entry under id is the response that subscriber was created for (entry.<f> == sub, where
//                 <f> is the field the new-request handler sets to the subscriber it gives the stream)
// Found through the handle() methods that call the terminate / abort functions, recognised by shape.
var tHandleTermPlain = gocanon.Template(`{ a0.«term»(rm.requestID) select { case <-a0.ctx.Done(): case rm.done <- struct{}{}: } }`)
var tHandleTermOwn = gocanon.Template(`{ if a0.«chk»(rm.requestID, rm.«sub») { a0.«term»(rm.requestID) } select { case <-a0.ctx.Done(): case rm.done <- struct{}{}: } }`)
var tHandleErrPlain = gocanon.Template(`{ l0 := a0.«abort»(a0.ctx, rm.requestID, rm.err) select { case <-a0.ctx.Done(): case rm.response <- l0: } }`)
var tHandleErrOwn = gocanon.Template(`{ var l0 error = graphsync.RequestNotFoundErr{} if rm.«sub» == nil || a0.«chk»(rm.requestID, rm.«sub2») { l0 = a0.«abort»(a0.ctx, rm.requestID, rm.err) } select { case <-a0.ctx.Done(): case rm.response <- l0: } }`)
var tIsResponseOf = gocanon.Template(`{ l0, l1 := rm.` + table + `[a0] return l1 && l0.«field» == a1 }`)

func closerKind(elem string) string {
	var it *ast.InterfaceType
	for _, file := range p.Files {
		ast.Inspect(file, func(n ast.Node) bool {
			if ts, ok := n.(*ast.TypeSpec); ok && ts.Name.Name == "RequestCloser" {
				if i, ok := ts.Type.(*ast.InterfaceType); ok {
					it = i
				}
				return false
			}
			return true
		})
	}
	if it == nil {
		p.Die(token.NoPos, "interface RequestCloser not found")
	}
	sig := ""
	for _, m := range it.Methods.List {
		ft, ok := m.Type.(*ast.FuncType)
		if !ok {
			continue
		}
		var ts []string
		for _, f := range ft.Params.List {
			n := len(f.Names)
			if n == 0 {
				n = 1
			}
			for i := 0; i < n; i++ {
				ts = append(ts, p.Src(f.Type))
			}
		}
		this := strings.Join(ts, ",")
		if sig != "" && sig != this {
			p.Die(m.Pos(), "RequestCloser methods have different parameter lists: %s / %s", sig, this)
		}
		sig = this
	}
	// the two mailbox messages
	var termH, errH *ast.FuncDecl
	calleeHas := func(name, what string) bool {
		fd := p.Method(mgrType, name)
		return fd != nil && strings.Contains(p.Canon(fd), what)
	}
	for _, fd := range p.Methods("handle") {
		c := p.Canon(fd)
		for _, t := range []*regexp.Regexp{tHandleTermPlain, tHandleTermOwn} {
			if m := gocanon.Match(t, c); m != nil && calleeHas(m["term"], "delete(rm."+table+", a0)") {
				termH = fd
			}
		}
		for _, t := range []*regexp.Regexp{tHandleErrPlain, tHandleErrOwn} {
			if m := gocanon.Match(t, c); m != nil && calleeHas(m["abort"], ".ErrSignal <- ") {
				errH = fd
			}
		}
	}
	if termH == nil || errH == nil {
		p.Die(token.NoPos, "mailbox messages of TerminateRequest / CloseWithNetworkError not found (or of unknown shape)")
	}
	tc, ec := p.Canon(termH), p.Canon(errH)
	switch sig {
	case "graphsync.RequestID":
		if gocanon.Match(tHandleTermPlain, tc) == nil || gocanon.Match(tHandleErrPlain, ec) == nil {
			p.Die(termH.Pos(), "handlers of the closer messages have an unknown shape:\n  %s\n  %s", tc, ec)
		}
		return ".requestId"
	case "graphsync.RequestID,*subscriber":
		mt, me := gocanon.Match(tHandleTermOwn, tc), gocanon.Match(tHandleErrOwn, ec)
		if mt == nil || me == nil {
			p.Die(termH.Pos(), "handlers of the closer messages have an unknown shape:\n  %s\n  %s", tc, ec)
		}
		if mt["chk"] != me["chk"] || me["sub"] != me["sub2"] {
			p.Die(termH.Pos(), "the two closer messages are guarded differently")
		}
		chk := method(mt["chk"], termH.Pos())
		mc := gocanon.Match(tIsResponseOf, p.Canon(chk))
		if mc == nil {
			p.Die(chk.Pos(), "%s: unknown shape:\n  %s", chk.Name.Name, p.Canon(chk))
		}
		// the compared field must be the one the new-request handler sets to the subscriber of the stream
		okField := false
		for _, file := range p.Files {
			ast.Inspect(file, func(n ast.Node) bool {
				cl, ok := n.(*ast.CompositeLit)
				if !ok || cl.Type == nil || p.Src(cl.Type) != elem {
					return true
				}
				for _, e := range cl.Elts {
					if kv, ok := e.(*ast.KeyValueExpr); ok && p.Src(kv.Key) == mc["field"] {
						if id, ok := kv.Value.(*ast.Ident); ok && id.Obj != nil {
							// that variable must be a *subscriber literal defined in the same function
							if as, ok := id.Obj.Decl.(*ast.AssignStmt); ok && len(as.Rhs) == 1 && strings.HasPrefix(p.Src(as.Rhs[0]), "&subscriber{") {
								okField = true
							}
						}
					}
				}
				return true
			})
		}
		if !okField {
			p.Die(chk.Pos(), "%s compares field %q, which is not set to the response's own subscriber when the response is created", chk.Name.Name, mc["field"])
		}
		// and the subscriber must pass itself
		for _, fd := range p.Methods("OnNext") {
			if gocanon.RecvTypeName(fd) != "subscriber" {
				continue
			}
			c := p.Canon(fd)
			if strings.Count(c, ".TerminateRequest(rm.request.ID(), rm)") != 2 || strings.Count(c, ".CloseWithNetworkError(rm.request.ID(), rm)") != 1 ||
				strings.Count(c, ".TerminateRequest(") != 2 || strings.Count(c, ".CloseWithNetworkError(") != 1 {
				p.Die(fd.Pos(), "subscriber.OnNext does not pass itself (and its own request's ID) to the closer calls")
			}
		}
		return ".ownResponse"
	}
	p.Die(it.Pos(), "RequestCloser parameter list %q not understood", sig)
	return ""
}

func main() {
	if len(os.Args) != 2 {
		fmt.Fprintln(os.Stderr, "usage: respdispatch <repo>")
		os.Exit(2)
	}
	p = gocanon.Load("respdispatch", filepath.Join(os.Args[1], "responsemanager"))
	keyKind, elem := tableTypes()
	owner := ownerField(elem)
	entry := entryMethod()
	c := &ctxT{recv: gocanon.RecvObj(entry), owner: owner}
	_, pp := p.ParamOfType(entry, "peer.ID")
	_, rp := p.ParamOfType(entry, "[]gsmsg.GraphSyncRequest")
	if pp == nil || rp == nil {
		p.Die(entry.Pos(), "%s: expected parameters (peer.ID, []gsmsg.GraphSyncRequest)", entry.Name.Name)
	}
	c.peerParam = pp.Obj

	var loop *ast.RangeStmt
	for _, st := range entry.Body.List {
		if gocanon.IsLogStmt(st) || !gocanon.MentionsRecv(st, c.recv, map[string]bool{"ctx": true}) {
			continue
		}
		rs, ok := st.(*ast.RangeStmt)
		if !ok || loop != nil {
			p.Die(st.Pos(), "unrecognised statement using the manager: %s", p.Src(st))
		}
		if id, ok := rs.X.(*ast.Ident); !ok || id.Obj != rp.Obj {
			p.Die(st.Pos(), "loop does not range over the requests of the message")
		}
		loop = rs
	}
	if loop == nil {
		p.Die(entry.Pos(), "no loop over the requests")
	}
	lv, ok := loop.Value.(*ast.Ident)
	if !ok || lv.Obj == nil {
		p.Die(loop.Pos(), "loop variable not understood")
	}
	c.loopVar = lv.Obj

	var loopGuard *guardT
	var sw *ast.SwitchStmt
	for _, st := range loop.Body.List {
		if gocanon.IsLogStmt(st) {
			continue
		}
		if s, ok := st.(*ast.SwitchStmt); ok && sw == nil {
			if s.Init != nil || p.Src(s.Tag) != lv.Name+".Type()" {
				p.Die(s.Pos(), "dispatch switch is not on the request type: %s", p.Src(s.Tag))
			}
			sw = s
			continue
		}
		if sw == nil && loopGuard == nil {
			if g := isGuardIf(st, c, false); g != nil {
				loopGuard = g
				continue
			}
		}
		p.Die(st.Pos(), "unrecognised statement in the dispatch loop: %s", p.Src(st))
	}
	if sw == nil {
		p.Die(loop.Pos(), "no switch on the request type")
	}

	var cases []caseInfo
	for _, cc := range sw.Body.List {
		cl := cc.(*ast.CaseClause)
		if cl.List == nil { // default: only logging allowed
			for _, b := range cl.Body {
				if !gocanon.IsLogStmt(b) {
					p.Die(b.Pos(), "default case does more than logging: %s", p.Src(b))
				}
			}
			continue
		}
		if len(cl.List) != 1 {
			p.Die(cl.Pos(), "case with several request types")
		}
		ci := caseInfo{}
		switch t := p.Src(cl.List[0]); t {
		case "graphsync.RequestTypeCancel":
			ci.typ = ".cancel"
		case "graphsync.RequestTypeUpdate":
			ci.typ = ".update"
		case "graphsync.RequestTypeNew":
			ci.typ = ".new"
		default:
			p.Die(cl.Pos(), "unknown request type %s", t)
		}
		var call *ast.CallExpr
		for _, b := range cl.Body {
			if gocanon.IsLogStmt(b) {
				continue
			}
			if call == nil && ci.caseGuard == nil {
				if g := isGuardIf(b, c, true); g != nil {
					ci.caseGuard = g
					continue
				}
			}
			var e ast.Expr
			switch s := b.(type) {
			case *ast.ExprStmt:
				e = s.X
			case *ast.AssignStmt:
				if len(s.Lhs) == 1 && p.Src(s.Lhs[0]) == "_" && len(s.Rhs) == 1 {
					e = s.Rhs[0]
				}
			}
			ce, ok := e.(*ast.CallExpr)
			if !ok || call != nil {
				p.Die(b.Pos(), "case %s: expected exactly one handler call, found: %s", ci.typ, p.Src(b))
			}
			call = ce
		}
		if call == nil {
			p.Die(cl.Pos(), "case %s calls no handler", ci.typ)
		}
		sel, ok := call.Fun.(*ast.SelectorExpr)
		if x, isID := sel.X.(*ast.Ident); !ok || !isID || x.Obj != c.recv {
			p.Die(call.Pos(), "case %s: handler is not a method of the manager: %s", ci.typ, p.Src(call))
		}
		h := method(sel.Sel.Name, call.Pos())
		ci.handlerName = h.Name.Name
		// which arguments carry the request's identity / the sender
		hasID := false
		senderArg := -1
		for i, a := range call.Args {
			switch s := p.Src(a); {
			case s == lv.Name+".ID()" || s == lv.Name:
				hasID = true
			case s == pp.Name:
				senderArg = i
			}
		}
		if !hasID {
			p.Die(call.Pos(), "case %s: the handler is not given the request or its ID", ci.typ)
		}
		keys := tableKeys(h)
		if len(keys) == 0 {
			p.Die(h.Pos(), "%s never looks at the response table", h.Name.Name)
		}
		ci.keyExpr = strings.Join(keys, ", ")
		if gp, g := handlerGuard(h, owner); gp >= 0 {
			if gp != senderArg {
				p.Die(call.Pos(), "case %s: %s guards on parameter #%d, which is not given the sender of the message", ci.typ, h.Name.Name, gp)
			}
			ci.handlerGuard = g
		}
		ci.handlerClass = classifyHandler(h) // (renames identifiers of h: keep last)
		cases = append(cases, ci)
	}
	if len(cases) != 3 {
		p.Die(sw.Pos(), "expected cases for cancel, update and new requests, found %d", len(cases))
	}

	closerKey := closerKind(elem)

	fmt.Printf(`/-
GENERATED by translate/respdispatch from responsemanager/*.go -- do not edit; regenerated by every check.

entry point (called by the handle() of the message type carrying the requests): %s
response table %s: entry type %s, field holding the peer a response is served to: %s
`, entry.Name.Name, table, elem, owner)
	for _, ci := range cases {
		fmt.Printf("  %-8s -> %s (%s), table keys used: %s\n", ci.typ, ci.handlerName, ci.handlerClass, ci.keyExpr)
	}
	fmt.Printf(`-/
import GS.Model.RespMgrTypes
namespace GS.Generated.RespDispatch
open GS.RespMgr

/-- key type of the response table -/
def keyKind : KeyKind := %s

/-- how the per-stream message subscriber addresses a response (RequestCloser interface) -/
def closerKey : KeyKind := %s

/-- per request type: the handler called by the dispatch loop and the peer guard that runs before it
    (the first of: loop-level, case-level, handler-level), as written in the source: the request is
    skipped if the table has an entry under its ID and lhs != rhs (entryPeer = field '%s' of that
    entry, sender = the peer parameter of the entry point) -/
def dispatch : List DispatchCase := [
`, keyKind, closerKey, owner)
	for i, ci := range cases {
		g := loopGuard
		if g == nil {
			g = ci.caseGuard
		}
		if g == nil {
			g = ci.handlerGuard
		}
		sep := ","
		if i == len(cases)-1 {
			sep = ""
		}
		fmt.Printf("  { typ := %s, handler := %s, guard := %s }%s\n", ci.typ, ci.handlerClass, g.lean(), sep)
	}
	fmt.Printf(`]

end GS.Generated.RespDispatch
`)
}
