import GS.Model.ReqMgrTypes
import GS.Generated.ReqPipeline
import GS.Generated.StatusCodes
/-
Model of the request manager's actor loop: /repo/requestmanager/server.go (+ client.go, messages.go).
Core Lean only.  One constructor of `Op` per mailbox message; `step` is one `message.handle(rm)`.

  newRequest            -> Op.newRequest      (validateRequest always succeeds: no request hooks, valid selector)
  getRequestTask        -> Op.start           (the harness plays the task queue + executor: it pops the
                                               queued task of the request, calls GetRequestTask and, like
                                               executor.ExecuteTask, puts the loader online and sends the request)
  releaseRequestTask    -> Op.release         (preceded by what executor.ExecuteTask does for that outcome)
  processResponses      -> Op.resp            fold over `Generated.ReqPipeline.stages`
  cancelRequest         -> Op.cancel          (CancelRequest API: waits for termination)
  pause/unpause/update  -> Op.pause/unpause/update
  peerStats             -> `peerState`        (printed after every operation by the driver)

Every stage of `processResponses` acts on one table entry at a time through `applyAt`; that is what
makes the per-request locality lemmas in GSProofs/Lemmas/ReqMgr*.lean short.

Hooks are inputs: a response carries the scripted outcome of the response hooks for it
(`hookExt`: the hook asks to send an update, `hookErr`: the hook terminates with an error), and every
hook invocation is an output event carrying (peer, request).
-/
namespace GS.ReqMgr
open GS.Generated

abbrev Peer := Nat
abbrev ReqId := Nat

inductive RState where
  | queued | running | paused
deriving DecidableEq, Repr

/-- error values that reach a request's error channel or an API caller -/
inductive Err where
  | hook                    -- the error a response hook terminated with
  | clientCancelled         -- graphsync.RequestClientCancelledErr (CancelRequest)
  | status (code : Nat)     -- ResponseStatusCode.AsError() of a terminal failure status
  | exec                    -- an error produced by the executor (block hook / traversal)
deriving DecidableEq, Repr

inductive MsgKind where
  | new | cancel | update
deriving DecidableEq, Repr

/-- one response of an incoming message, with the scripted hook outcome -/
structure Resp where
  id      : ReqId
  status  : Nat
  first   : Nat := 0       -- metadata: `count` links starting at block index `first` (all "present", with blocks)
  count   : Nat := 0
  ext     : Bool := false  -- carries an extension
  hookExt : Bool := false
  hookErr : Bool := false
deriving DecidableEq, Repr

structure Entry where
  peer          : Peer
  state         : RState := .queued
  terminalError : Option Err := none
  ctxCancelled  : Bool := false            -- cancelFn() called (executor will stop)
  lastStatus    : Nat := StatusCodes.RequestAcknowledged
  lastExt       : Bool := false
  started       : Bool := false            -- traverser + reconciled loader exist
  online        : Bool := false            -- loader: remote online
  ingested      : List (Nat × Nat) := []   -- loader queue: one (first,count) per ingested response
  waiters       : Nat := 0                 -- len(onTerminated)
  pausePending  : Bool := false            -- pauseMessages (buffer 1)
deriving DecidableEq, Repr

inductive Ev where
  | hook (p : Peer) (r : ReqId) (status : Nat)
  | out (to : Peer) (k : MsgKind) (r : ReqId)
  | protect (p : Peer) (r : ReqId)
  | unprotect (p : Peer) (r : ReqId)
  | errSent (r : ReqId) (e : Err)         -- value sent on the request's error channel
  | closed (r : ReqId)                    -- progress + error channel closed
  | cancelRet (r : ReqId) (found : Bool)  -- a CancelRequest call returns (nil / RequestNotFoundErr)
  | push (p : Peer) (r : ReqId)           -- requestQueue.PushTask
  | taskDone (p : Peer) (r : ReqId)       -- requestQueue.TaskDone
deriving DecidableEq, Repr

/-- the request an event is about -/
def Ev.req : Ev → ReqId
  | .hook _ r _ => r | .out _ _ r => r | .protect _ r => r | .unprotect _ r => r
  | .errSent r _ => r | .closed r => r | .cancelRet r _ => r | .push _ r => r | .taskDone _ r => r

/-! ### the table `inProgressRequestStatuses` -/

abbrev Table := List (ReqId × Entry)

def Table.get (t : Table) (r : ReqId) : Option Entry :=
  match t with
  | [] => none
  | (k, e) :: rest => if k = r then some e else Table.get rest r

def Table.del (t : Table) (r : ReqId) : Table := t.filter (fun x => x.1 ≠ r)

def Table.set (t : Table) (r : ReqId) (e : Entry) : Table := (r, e) :: t.del r

/-- read the entry of `r`, let `f` decide its new value (`none` = deleted) and an output -/
def applyAt {α : Type} (t : Table) (r : ReqId) (f : Option Entry → Option Entry × α) : Table × α :=
  let res := f (t.get r)
  (if res.1 = t.get r then t          -- nothing written
   else match res.1 with
     | some e => t.set r e
     | none => t.del r, res.2)

/-! ### terminateRequest / cancelOnError on one entry -/

def replicateEv (n : Nat) (e : Ev) : List Ev := List.replicate n e

/-- terminateRequest: deliver the terminal error, unprotect, delete, close the channels, wake the
    CancelRequest callers. -/
def terminateEvs (r : ReqId) (e : Entry) : List Ev :=
  (match e.terminalError with
   | some err => [Ev.errSent r err]
   | none => [])
  ++ [Ev.unprotect e.peer r, Ev.closed r] ++ replicateEv e.waiters (Ev.cancelRet r true)

/-- `if ipr.terminalError == nil { ipr.terminalError = terminalError }` -/
def recordErr (cd : ReqMgr.CancelDesc) (e : Entry) (err : Err) : Entry :=
  if cd.keepFirstError && e.terminalError.isSome then e else { e with terminalError := some err }

def cancelOnErrorE (cd : ReqMgr.CancelDesc) (r : ReqId) (e : Entry) (err : Err) : Option Entry × List Ev :=
  if cd.terminateUnlessRunning && (recordErr cd e err).state != .running then
    (none, terminateEvs r (recordErr cd e err))
  else (some { recordErr cd e err with
                 ctxCancelled := (recordErr cd e err).ctxCancelled || cd.runningCancelsCtx,
                 online := (recordErr cd e err).online && !cd.runningSetsOffline }, [])

def targetPeer (t : Target) (sender : Peer) (e : Option Entry) : Option Peer :=
  match t with
  | .sender => some sender
  | .owner => e.map (·.peer)

def outTo (t : Target) (sender : Peer) (e : Option Entry) (k : MsgKind) (r : ReqId) : List Ev :=
  match targetPeer t sender e with
  | some p => [Ev.out p k r]
  | none => []

/-- value of an operand of the filter's comparison -/
def evalPeer (t : PeerTerm) (sender : Peer) (e : Entry) : Peer :=
  match t with
  | .sender => sender
  | .entryPeer => e.peer

/-- the filter keeps a response whose request is in the table unless `lhs != rhs` -/
def filterKeeps (c : FilterCond) (sender : Peer) (e : Entry) : Bool :=
  evalPeer c.lhs sender e == evalPeer c.rhs sender e

/-! ### the stages, one response at a time.  Result: new entry, (events, keep the response?) -/

def stageOne (op : StageOp) (q : Peer) (x : Resp) (e? : Option Entry) : Option Entry × (List Ev × Bool) :=
  match op with
  | .dropForeignLive =>
    match e? with
    | some e => (some e, ([], filterKeeps ReqPipeline.dropCond q e))
    | none => (none, ([], true))          -- not (or no longer) in progress: passes
  | .filterForPeer =>
    match e? with
    | some e => (some e, ([], filterKeeps ReqPipeline.filterCond q e))
    | none => (none, ([], false))
  | .extensions =>
    let hookEv := [Ev.hook q x.id x.status]
    let updEv := if x.hookExt then outTo ReqPipeline.extDesc.updateTo q e? .update x.id else []
    if x.hookErr then
      match e? with
      | none => (none, (hookEv ++ updEv, false))
      | some e =>
        let c := cancelOnErrorE ReqPipeline.cancelDesc x.id e .hook
        (c.1, (hookEv ++ updEv ++ outTo ReqPipeline.extDesc.cancelTo q (some e) .cancel x.id ++ c.2, false))
    else (e?, (hookEv ++ updEv, true))
  | .updateLast =>
    match e? with
    | some e => (some { e with lastStatus := x.status, lastExt := x.ext }, ([], true))
    | none => (none, ([], true))
  | .ingest =>
    match e? with
    | some e => (some (if e.started then { e with ingested := e.ingested ++ [(x.first, x.count)] } else e), ([], true))
    | none => (none, ([], true))
  | .terminations =>
    if StatusCodes.isTerminal x.status then
      match e? with
      | none => (none, ([], true))
      | some e =>
        let c : Option Entry × List Ev :=
          if StatusCodes.isFailure x.status && ReqPipeline.termDesc.failureCancels
          then cancelOnErrorE ReqPipeline.cancelDesc x.id e (.status x.status) else (some e, [])
        (c.1.map (fun e1 => if e1.started && ReqPipeline.termDesc.terminalSetsOffline then { e1 with online := false } else e1),
         (c.2, true))
    else (e?, ([], true))

/-- one stage over the whole list: the table, the responses kept for the next stage, the events -/
def runStage (op : StageOp) (q : Peer) : Table → List Resp → Table × List Resp × List Ev
  | t, [] => (t, [], [])
  | t, x :: xs =>
    let r1 := applyAt t x.id (stageOne op q x)
    let r2 := runStage op q r1.1 xs
    (r2.1, (if r1.2.2 then x :: r2.2.1 else r2.2.1), r1.2.1 ++ r2.2.2)

/-- the stages in order (linear data flow: each consumes the list kept by the previous one) -/
def runStages (stages : List StageOp) (q : Peer) : Table → List Resp → Table × List Ev
  | t, rs =>
    match stages with
    | [] => (t, [])
    | op :: rest =>
      let r1 := runStage op q t rs
      let r2 := runStages rest q r1.1 r1.2.1
      (r2.1, r1.2.2 ++ r2.2)

/-- `processResponses(p, responses, blks)` as written in the Go source today -/
def processResponses (q : Peer) (rs : List Resp) (t : Table) : Table × List Ev :=
  runStages ReqPipeline.stages q t rs

/-! ### whole manager state and the other mailbox messages -/

structure State where
  table   : Table := []
  pending : List (Peer × ReqId) := []     -- task queue: pushed, not yet popped by a worker
  active  : List (Peer × ReqId) := []     -- popped, not yet TaskDone
deriving Repr

inductive Rel where
  | ok | paused | err
deriving DecidableEq, Repr

inductive Op where
  | newRequest (r : ReqId) (p : Peer)
  | start (r : ReqId)
  | release (r : ReqId) (how : Rel)
  | resp (q : Peer) (rs : List Resp)
  | cancel (r : ReqId)
  | pause (r : ReqId)
  | unpause (r : ReqId)
  | update (r : ReqId)
deriving Repr

/-- direct result of an operation (API return value / what the worker sees) -/
inductive Res where
  | ok | notFound | notPaused | alreadyPaused | noTask | emptyTask | running | noExec
deriving DecidableEq, Repr

def removeFirst (l : List (Peer × ReqId)) (r : ReqId) : Option ((Peer × ReqId) × List (Peer × ReqId)) :=
  match l with
  | [] => none
  | x :: rest =>
    if x.2 = r then some (x, rest)
    else match removeFirst rest r with
      | some (y, rest') => some (y, x :: rest')
      | none => none

def step (s : State) : Op → State × List Ev × Res
  | .newRequest r p =>
    ({ s with table := s.table.set r { peer := p }, pending := s.pending ++ [(p, r)] },
     [Ev.protect p r, Ev.push p r], .ok)
  | .start r =>
    match removeFirst s.pending r with
    | none => (s, [], .noTask)
    | some (task, pending') =>
      match s.table.get r with
      | none => ({ s with pending := pending' }, [Ev.taskDone task.1 r], .emptyTask)
      | some e =>
        ({ s with table := s.table.set r { e with state := .running, started := true, online := true },
                  pending := pending', active := s.active ++ [task] },
         [Ev.out e.peer .new r], .running)
  | .release r how =>
    match removeFirst s.active r with
    | none => (s, [], .noExec)
    | some (task, active') =>
      let s1 := { s with active := active' }
      match s.table.get r with
      | none => (s1, [Ev.taskDone task.1 r], .ok)
      | some e =>
        -- what executor.ExecuteTask does before ReleaseRequestTask
        let pre : Entry × List Ev × Bool :=      -- entry, events, "released with ErrPaused"
          match how with
          | .ok => (e, [], false)
          | .paused =>
            if e.ctxCancelled then (e, [], false)                  -- the traversal fails with ContextCancelError first
            else ({ e with online := false }, [Ev.out e.peer .cancel r], true)
          | .err =>
            if e.ctxCancelled then (e, [], false)                  -- ContextCancelError: nothing sent
            else ({ e with online := false }, [Ev.out e.peer .cancel r, Ev.errSent r .exec], false)
        if pre.2.2 then
          ({ s1 with table := s.table.set r { pre.1 with state := .paused } }, pre.2.1 ++ [Ev.taskDone task.1 r], .ok)
        else
          ({ s1 with table := s.table.del r }, pre.2.1 ++ [Ev.taskDone task.1 r] ++ terminateEvs r pre.1, .ok)
  | .resp q rs =>
    let res := processResponses q rs s.table
    ({ s with table := res.1 }, res.2, .ok)
  | .cancel r =>
    match s.table.get r with
    | none => (s, [Ev.cancelRet r false], .ok)
    | some e =>
      let e1 := { e with waiters := e.waiters + 1 }
      let c := cancelOnErrorE ReqPipeline.cancelDesc r e1 .clientCancelled
      ({ s with table := match c.1 with | some e2 => s.table.set r e2 | none => s.table.del r },
       Ev.out e.peer .cancel r :: c.2, .ok)
  | .pause r =>
    match s.table.get r with
    | none => (s, [], .notFound)
    | some e =>
      if e.state = .paused then (s, [], .alreadyPaused)
      else ({ s with table := s.table.set r { e with pausePending := true } }, [], .ok)
  | .unpause r =>
    match s.table.get r with
    | none => (s, [], .notFound)
    | some e =>
      if e.state ≠ .paused then (s, [], .notPaused)
      else ({ s with table := s.table.set r { e with state := .queued }, pending := s.pending ++ [(e.peer, r)] },
            [Ev.push e.peer r], .ok)
  | .update r =>
    match s.table.get r with
    | none => (s, [], .notFound)
    | some e => (s, [Ev.out e.peer .update r], .ok)

/-- run a history, collecting the events of every step -/
def run (s : State) : List Op → State × List (List Ev × Res)
  | [] => (s, [])
  | op :: ops =>
    let r1 := step s op
    let r2 := run r1.1 ops
    (r2.1, (r1.2.1, r1.2.2) :: r2.2)

/-- `peerStats`: the requests of peer `p` with their states -/
def peerState (s : State) (p : Peer) : List (ReqId × RState) :=
  (s.table.filter (fun x => x.2.peer == p)).map (fun x => (x.1, x.2.state))

end GS.ReqMgr
