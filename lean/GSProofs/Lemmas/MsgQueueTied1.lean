import GSProofs.Lemmas.MsgQueueAtt6
/-!
# Message queue: the Error that excuses an attached subscriber is TIED to the request (AUDIT_4 item 6)

`ErrSeen r u n0 s` (MsgQueueAtt2.lean) is two untied facts: `r` closed at some time, and some later
Error to `u`.  Here the escape is one log fact: the log contains a `streamClosed r` event — emitted
only by `publishError` of a message whose response streams include `r` — followed, within the SAME
`publishError` block (only `streamClosed`, allocator events and `Error` notifications of that one
topic in between), by `notify u t' Error`; and `u` had already received `n0` Errors before that block.
The `built` event of the log does not carry the request id, so "message `t'` carried request `r`" is
expressed through the `streamClosed r` event of the `publishError` that failed message `t'`
(`m.streams` = the requests with a response stream in the message).
-/
namespace GS.MQ
open GS.Alloc

/-- the events one `publishError` of message `t'` puts between a `streamClosed` event and one of its
    `Error` notifications -/
def blk (t' : Topic) : Event → Bool
  | .streamClosed _ => true
  | .mem _ => true
  | .notify _ t k => t == t' && k == Kind.error
  | _ => false

/-- the log contains a `publishError` block of a message `t'` that closed request `r`'s response
    stream and delivered `Error` (on `t'`) to `u`, and `u` had received at least `n0` Errors before the
    block began -/
def ErrForL (r : Req) (u : Sub) (n0 : Nat) (L : List Event) : Prop :=
  ∃ (t' : Topic) (pre mid post : List Event),
    L = pre ++ (Event.streamClosed r :: (mid ++ (Event.notify u t' Kind.error :: post))) ∧
    n0 ≤ errCount u pre ∧ ∀ e ∈ mid, blk t' e = true

/-- the tied escape: request `r`'s stream is closed, and the `publishError` that closed it told `u`,
    after `u`'s first `n0` Errors -/
def ErrFor (r : Req) (u : Sub) (n0 : Nat) (s : State) : Prop :=
  r ∈ s.closedStreams ∧ ErrForL r u n0 s.log

theorem ErrForL.append {r : Req} {u : Sub} {n0 : Nat} {L : List Event} (h : ErrForL r u n0 L) (X : List Event) :
    ErrForL r u n0 (L ++ X) := by
  obtain ⟨t', pre, mid, post, e, hn, hm⟩ := h
  exact ⟨t', pre, mid, post ++ X, by rw [e]; simp, hn, hm⟩

theorem ErrForL.anti {r : Req} {u : Sub} {n0 n1 : Nat} {L : List Event} (h : ErrForL r u n0 L) (hle : n1 ≤ n0) :
    ErrForL r u n1 L := by
  obtain ⟨t', pre, mid, post, e, hn, hm⟩ := h
  exact ⟨t', pre, mid, post, e, Nat.le_trans hle hn, hm⟩

theorem ErrForL.prepend {r : Req} {u : Sub} {X : List Event} (h : ErrForL r u 0 X) (L : List Event) :
    ErrForL r u (errCount u L) (L ++ X) := by
  obtain ⟨t', pre, mid, post, e, _, hm⟩ := h
  refine ⟨t', L ++ pre, mid, post, by rw [e]; simp, ?_, hm⟩
  rw [errCount_append]; omega

/-- the tied Error is a new one -/
theorem ErrForL.count {r : Req} {u : Sub} {n0 : Nat} {L : List Event} (h : ErrForL r u n0 L) : n0 < errCount u L := by
  obtain ⟨t', pre, mid, post, e, hn, _⟩ := h
  rw [e, errCount_append]
  simp only [errCount]
  rw [errCount_append]
  simp only [errCount]
  simp only [and_self, if_true]
  omega

/-- the tied escape implies the untied one of `eventually_attached` -/
theorem ErrFor.errSeen {r : Req} {u : Sub} {n0 : Nat} {s : State} (h : ErrFor r u n0 s) : ErrSeen r u n0 s :=
  ⟨h.1, h.2.count⟩

theorem ErrFor.mono {r : Req} {u : Sub} {n0 : Nat} {s s' : State} (h : ErrFor r u n0 s)
    (hc : ∀ r ∈ s.closedStreams, r ∈ s'.closedStreams) (hl : ∃ X, s'.log = s.log ++ X) : ErrFor r u n0 s' := by
  obtain ⟨X, hx⟩ := hl
  exact ⟨hc r h.1, by rw [hx]; exact h.2.append X⟩

theorem errCount_nonote (u : Sub) (X : List Event) (h : ∀ e ∈ X, isNote e = false) : errCount u X = 0 := by
  induction X with
  | nil => rfl
  | cons e r ih =>
    have hr := ih (fun x hx => h x (List.mem_cons_of_mem _ hx))
    cases e with
    | notify a b c => have := h _ (List.mem_cons_self); simp [isNote] at this
    | _ => simpa [errCount] using hr

/-! ## the log of `publishError` -/

theorem release_logT (pick : Pick) (t' : Topic) (s : State) (n : Nat) :
    ∃ M, (∀ e ∈ M, blk t' e = true) ∧ (s.release pick n).log = s.log ++ M ∧
      (s.release pick n).topics = s.topics ∧ (s.release pick n).pubClosed = s.pubClosed :=
  ⟨_, by intro e he; obtain ⟨x, _, rfl⟩ := List.mem_map.mp he; rfl, rfl, rfl, rfl⟩

/-- `publishError` on a running publisher appends: the `streamClosed` events of the message's response
    streams, allocator events, the `Error` notifications to the message's subscribers, allocator events -/
theorem publishError_logT (pick : Pick) (s : State) (m : InFlight) (hp : s.pubClosed = false) :
    ∃ M1 M2, (∀ e ∈ M1, blk m.topic e = true) ∧
      (s.publishError pick m).log = s.log ++ (m.streams.map Event.streamClosed ++ (M1 ++
        (((aget s.topics m.topic).getD []).map (fun u => Event.notify u m.topic Kind.error) ++ M2))) := by
  unfold State.publishError
  simp only
  generalize hs2 : (({ s with closedStreams := m.streams.foldl (fun acc r => if acc.contains r then acc else acc ++ [r]) s.closedStreams } : State).emit
      (m.streams.map Event.streamClosed)) = s2
  have h2 : s2.log = s.log ++ m.streams.map Event.streamClosed ∧ s2.topics = s.topics ∧ s2.pubClosed = false := by
    subst hs2; exact ⟨rfl, rfl, hp⟩
  generalize scrubAll m.streams s2.builders = sc
  obtain ⟨bs, freed⟩ := sc
  simp only
  generalize hs3 : ({ s2 with builders := bs } : State) = s3
  have h3 : s3.log = s.log ++ m.streams.map Event.streamClosed ∧ s3.topics = s.topics ∧ s3.pubClosed = false := by
    subst hs3; exact h2
  have h4 : ∃ M1, (∀ e ∈ M1, blk m.topic e = true) ∧
      (if freed > 0 then s3.release pick freed else s3).log = s.log ++ m.streams.map Event.streamClosed ++ M1 ∧
      (if freed > 0 then s3.release pick freed else s3).topics = s.topics ∧
      (if freed > 0 then s3.release pick freed else s3).pubClosed = false := by
    split
    · obtain ⟨M, hM, l, tp, pc⟩ := release_logT pick m.topic s3 freed
      exact ⟨M, hM, by rw [l, h3.1], by rw [tp, h3.2.1], by rw [pc, h3.2.2]⟩
    · exact ⟨[], by simp, by rw [h3.1]; simp, h3.2.1, h3.2.2⟩
  generalize (if freed > 0 then s3.release pick freed else s3) = s4 at h4
  obtain ⟨M1, hM1, l4, tp4, pc4⟩ := h4
  obtain ⟨l5, _, _⟩ := publish_log pc4 m.topic Kind.error
  obtain ⟨M2, _, l6, _, _⟩ := release_logT pick m.topic (s4.publish m.topic Kind.error) m.size
  refine ⟨M1, M2, hM1, ?_⟩
  rw [l6, l5, l4, tp4]
  simp only [List.append_assoc]

/-- one `publishError` block ties the closed stream `r ∈ m.streams` to the Error for subscriber `u` -/
theorem publishError_tied (pick : Pick) {s : State} {m : InFlight} {U : List Sub} {σ : List Kind} {b : Bool}
    (hm : Mid s m U σ b) {r : Req} {u : Sub} (hr : r ∈ m.streams) (hu : u ∈ U) :
    ErrForL r u (errCount u s.log) (s.publishError pick m).log := by
  obtain ⟨M1, M2, hM1, hl⟩ := publishError_logT pick s m hm.open_
  rw [hl]
  apply ErrForL.prepend
  have hU : (aget s.topics m.topic).getD [] = U := by rw [hm.topics]; simp [aget]
  rw [hU]
  obtain ⟨a1, a2, ha⟩ := List.append_of_mem hr
  obtain ⟨c1, c2, hc⟩ := List.append_of_mem hu
  refine ⟨m.topic, a1.map Event.streamClosed, a2.map Event.streamClosed ++ (M1 ++ c1.map (fun u => Event.notify u m.topic Kind.error)),
    c2.map (fun u => Event.notify u m.topic Kind.error) ++ M2, ?_, Nat.zero_le _, ?_⟩
  · rw [ha, hc]; simp
  · intro e he
    rcases List.mem_append.mp he with he | he
    · obtain ⟨x, _, rfl⟩ := List.mem_map.mp he; rfl
    · rcases List.mem_append.mp he with he | he
      · exact hM1 e he
      · obtain ⟨x, _, rfl⟩ := List.mem_map.mp he
        simp [blk]

/-! ## what each function keeps (the analogue of `Out`, MsgQueueAtt3.lean, with the tied escape) -/

structure OutT (f : Req → Sub) (s s' : State) : Prop where
  out : Out f s s'
  att : (∀ b ∈ s.builders, BFun f b) → ∀ u t r, AttQ u t r s → AttQ u t r s' ∨
      (r ∈ s'.closedStreams ∧ ErrForL r u (errCount u s.log) s'.log)

theorem OutT.refl (f : Req → Sub) (s : State) : OutT f s s := ⟨Out.refl f s, fun _ _ _ _ a => Or.inl a⟩

theorem OutT.trans {f : Req → Sub} {a b c : State} (h1 : OutT f a b) (h2 : OutT f b c) : OutT f a c := by
  refine ⟨h1.out.trans h2.out, ?_⟩
  intro hb u t r hatt
  obtain ⟨Y, y⟩ := h2.out.log
  rcases h1.att hb u t r hatt with h | h
  · rcases h2.att (h1.out.att hb).1 u t r h with h' | h'
    · exact Or.inl h'
    · exact Or.inr ⟨h'.1, h'.2.anti (errCount_mono h1.out.log u)⟩
  · exact Or.inr ⟨h2.out.closed r h.1, by rw [y]; exact h.2.append Y⟩

theorem OutT.same (f : Req → Sub) {s s' : State} (hb : s'.builders = s.builders) (hc : s'.closedStreams = s.closedStreams)
    (hw : WCore s s') (hl : ∃ X, s'.log = s.log ++ X) : OutT f s s' := by
  refine ⟨Out.same f hb hc hw hl, ?_⟩
  intro _ u t r ⟨b, hbm, ha⟩
  exact Or.inl ⟨b, by rw [hb]; exact hbm, ha⟩

/-- a function that appends no notification keeps every attachment -/
theorem OutT.of_quiet {f : Req → Sub} {s s' : State} (o : Out f s s')
    (hq : ∃ X, s'.log = s.log ++ X ∧ ∀ e ∈ X, isNote e = false) : OutT f s s' := by
  refine ⟨o, ?_⟩
  intro hb u t r hatt
  rcases (o.att hb).2 u t r hatt with h | h
  · exact Or.inl h
  · exfalso
    obtain ⟨X, hx, hn⟩ := hq
    have := h.2
    rw [hx, errCount_append, errCount_nonote u X hn] at this
    omega

theorem frame_outT (f : Req → Sub) {s s' : State} (fr : Frame s s') (hl : ∃ X, s'.log = s.log ++ X) : OutT f s s' :=
  OutT.same f fr.builders fr.closedStreams (WCore.of_eq fr.waiters) hl

theorem release_outT (pick : Pick) (f : Req → Sub) (s : State) (n : Nat) : OutT f s (s.release pick n) :=
  OutT.same f rfl rfl (release_wcore pick s n) ⟨_, rfl⟩

theorem allocStep_outT (pick : Pick) (f : Req → Sub) (s : State) (op : Alloc.Op) : OutT f s (s.allocStep pick op).1 :=
  OutT.same f rfl rfl (allocStep_wcore pick s op) ⟨_, rfl⟩

theorem publish_outT (f : Req → Sub) (s : State) (t : Topic) (k : Kind) : OutT f s (s.publish t k) :=
  frame_outT f (publish_frame s t k) (publish_ext pickMin s t k).mono

theorem closeTopic_outT (f : Req → Sub) (s : State) (t : Topic) : OutT f s (s.closeTopic t) :=
  frame_outT f (closeTopic_frame s t) (closeTopic_ext pickMin s t).mono

theorem finish_outT (f : Req → Sub) (s : State) (m : InFlight) : OutT f s (s.finish m) := by
  unfold State.finish
  exact (closeTopic_outT f s m.topic).trans (OutT.same f rfl rfl (WCore.of_eq rfl) ⟨[], by simp⟩)

theorem publishSent_outT (pick : Pick) (f : Req → Sub) (s : State) (m : InFlight) : OutT f s (s.publishSent pick m) := by
  unfold State.publishSent
  exact (publish_outT f s m.topic Kind.sent).trans (release_outT pick f _ _)

/-- **the tie**: an attachment dropped by `publishError` is dropped because the failed message carried
    a response stream of the same request, and the attached subscriber is told `Error` in that block -/
theorem publishError_outT (pick : Pick) (f : Req → Sub) {s : State} {m : InFlight} {U : List Sub} {σ : List Kind} {b : Bool}
    (hm : Mid s m U σ b) (hU : ∀ r ∈ m.streams, f r ∈ U) : OutT f s (s.publishError pick m) := by
  refine ⟨publishError_out pick f hm hU, ?_⟩
  intro hb u t r ⟨x, hx, hatt⟩
  have hsh := publishError_shape pick s m
  have hcl := publishError_closed pick s m
  obtain ⟨ht, hr, hc⟩ := hatt
  by_cases hin : m.streams.contains r = true
  · right
    have hrm : r ∈ m.streams := List.contains_iff_mem.mp hin
    have hfu : f r = u := ((hb x hx).subs (r, u) hr).symm
    exact ⟨hcl.2.1 r hrm, publishError_tied pick hm hrm (hfu ▸ hU r hrm)⟩
  · left
    have hn : m.streams.contains r = false := by simpa using hin
    have ha := (scrub_att f x m.streams (hb x hx)).2 u t r ht hr hc hn
    refine ⟨(x.scrub m.streams).1, ?_, ha⟩
    rw [hsh.1]
    exact scrubAll_keeps _ _ x hx ha.nonempty

theorem buildMessage_outT (pick : Pick) (f : Req → Sub) (s : State) (ticket : Nat) (tx : Tx) (size : Nat)
    (hf : tx.sub = f tx.req) : OutT f s (s.buildMessage pick ticket tx size) := by
  apply OutT.of_quiet (buildMessage_out pick f s ticket tx size hf)
  obtain ⟨X, h1, h2, _⟩ := (buildMessage_quiet pick s ticket tx size).log
  exact ⟨X, h1, h2⟩

theorem attempt_outT (pick : Pick) (f : Req → Sub) {s : State} {m : InFlight} {U : List Sub} {σ : List Kind} {b : Bool}
    (i : Nat) (hm : Mid s m U σ b) (hU : ∀ r ∈ m.streams, f r ∈ U) : OutT f s (s.attempt pick m i) := by
  unfold State.attempt
  split
  · exact OutT.same f rfl rfl (WCore.of_eq rfl) ⟨_, rfl⟩
  · exact (publishError_outT pick f hm hU).trans (finish_outT f _ m)

/-! ## a decidable necessary condition (used to REFUTE the tied escape on concrete logs) -/

/-- a `streamClosed r` event occurs at a position before which `u` has received at least `n0` Errors
    (`c` = Errors counted so far) -/
def closedAfter (r : Req) (u : Sub) (n0 : Nat) : Nat → List Event → Bool
  | _, [] => false
  | c, .streamClosed r' :: l => (r' == r && decide (n0 ≤ c)) || closedAfter r u n0 c l
  | c, .notify u' _ k :: l => closedAfter r u n0 (c + if u' = u ∧ k = Kind.error then 1 else 0) l
  | c, _ :: l => closedAfter r u n0 c l

theorem closedAfter_of_split (r : Req) (u : Sub) (n0 : Nat) (rest : List Event) :
    ∀ (pre : List Event) (c : Nat), n0 ≤ c + errCount u pre →
      closedAfter r u n0 c (pre ++ Event.streamClosed r :: rest) = true
  | [], c, h => by
    have h' : n0 ≤ c := by simpa [errCount] using h
    simp [closedAfter, h']
  | e :: pre, c, h => by
    cases e with
    | notify u' t k =>
      simp only [errCount] at h
      simp only [List.cons_append, closedAfter]
      exact closedAfter_of_split r u n0 rest pre _ (by omega)
    | streamClosed r' =>
      simp only [errCount] at h
      simp only [List.cons_append, closedAfter, closedAfter_of_split r u n0 rest pre c h, Bool.or_true]
    | wire _ _ => simp only [errCount] at h; simpa only [List.cons_append, closedAfter] using closedAfter_of_split r u n0 rest pre c h
    | mem _ => simp only [errCount] at h; simpa only [List.cons_append, closedAfter] using closedAfter_of_split r u n0 rest pre c h
    | built _ _ _ _ => simp only [errCount] at h; simpa only [List.cons_append, closedAfter] using closedAfter_of_split r u n0 rest pre c h
    | dropped _ => simp only [errCount] at h; simpa only [List.cons_append, closedAfter] using closedAfter_of_split r u n0 rest pre c h
    | senderClosed => simp only [errCount] at h; simpa only [List.cons_append, closedAfter] using closedAfter_of_split r u n0 rest pre c h
    | exitCallback => simp only [errCount] at h; simpa only [List.cons_append, closedAfter] using closedAfter_of_split r u n0 rest pre c h

theorem ErrForL.closedAfter {r : Req} {u : Sub} {n0 : Nat} {L : List Event} (h : ErrForL r u n0 L) :
    closedAfter r u n0 0 L = true := by
  obtain ⟨t', pre, mid, post, e, hn, _⟩ := h
  rw [e]; exact closedAfter_of_split r u n0 _ pre 0 (by omega)

end GS.MQ
