import GSProofs.C10Own
/-!
`Untouched p s s'`: what "peer `p`'s responses are unchanged" means for the whole-run corollaries of
GSProofs/C10Own2.lean, and how it follows from the frames of GSProofs/Lemmas/RespMgr.lean.
-/
namespace GS.C10
open GS.RespMgr GS.Generated

/-- going from `s` to `s'` left alone every response object served to `p`, every table entry
    pointing to such an object, and every queued task of `p` -/
structure Untouched (p : Peer) (s s' : State) : Prop where
  objs : ∀ k o, s.obj k = some o → o.peer = p → s'.obj k = some o
  table : ∀ id k o, s.table.get id = some k → s.obj k = some o → o.peer = p → s'.table.get id = some k
  pending : s'.pending.filter (fun t => t.1 == p) = s.pending.filter (fun t => t.1 == p)

theorem Untouched.refl (p : Peer) (s : State) : Untouched p s s := ⟨fun _ _ h _ => h, fun _ _ _ h _ _ => h, rfl⟩

theorem Untouched.trans {p : Peer} {s s' s'' : State} (h1 : Untouched p s s') (h2 : Untouched p s' s'') :
    Untouched p s s'' where
  objs := fun k o hk hp => h2.objs k o (h1.objs k o hk hp) hp
  table := fun id k o ht hk hp => h2.table id k o (h1.table id k o ht hk hp) (h1.objs k o hk hp) hp
  pending := by rw [h2.pending, h1.pending]

theorem filter_peer_of_ne {p q : Peer} (hq : q ≠ p) (l : List (Peer × ReqId)) :
    (l.filter (fun t => t.1 != q)).filter (fun t => t.1 == p) = l.filter (fun t => t.1 == p) := by
  rw [List.filter_filter]
  apply List.filter_congr
  intro t _
  by_cases h : t.1 = p
  · have hne : p ≠ q := fun h' => hq h'.symm
    simp [h, hne]
  · simp [h]

theorem untouched_of_frameW {p q : Peer} (hq : q ≠ p) {s s' : State} (f : FrameW q s s') : Untouched p s s' where
  objs := fun k o hk hp => f.objs k o hk (by rw [hp]; exact fun h => hq h.symm)
  table := fun id k o ht hk hp => f.table id k o ht hk (by rw [hp]; exact fun h => hq h.symm)
  pending := by
    rw [← filter_peer_of_ne hq s'.pending, ← filter_peer_of_ne hq s.pending, f.pending]

theorem untouched_of_frame {p q : Peer} (hq : q ≠ p) {s s' : State} (f : Frame q s s') : Untouched p s s' :=
  untouched_of_frameW hq f.toW

/-- no event concerns `p` -/
def NoEv (p : Peer) (l : List Ev) : Prop := ∀ ev ∈ l, ev.peer ≠ p

theorem noEv_of_allPeer {p q : Peer} (hq : q ≠ p) {l : List Ev} (h : AllPeer q l) : NoEv p l := by
  intro ev hev; rw [h ev hev]; exact hq

theorem noEv_nil (p : Peer) : NoEv p [] := by intro ev h; cases h
theorem noEv_append {p : Peer} {a b : List Ev} (ha : NoEv p a) (hb : NoEv p b) : NoEv p (a ++ b) := by
  intro e he
  rcases List.mem_append.mp he with h | h
  · exact ha e h
  · exact hb e h

end GS.C10
