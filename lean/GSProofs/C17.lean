import GSProofs.Lemmas.PeerManagerInv
import GSProofs.Lemmas.MsgQueueNotes5
import GSProofs.Lemmas.MsgQueueExit
/-!
# C17 — One live message queue per peer, delivering in queued order

Property text: "At any time at most one live outgoing message queue exists per peer, no queue
outlives the last disconnect of its peer, and messages to a peer leave in the order they were queued.
This holds under any interleaving of connects, disconnects, queue failures and concurrent sends."

Model: `GS.PM` (lean/GS/Model/PeerManager.lean) mirrors `/repo/peermanager/peermanager.go` after the
fix `4983136` (a queue's exit callback deletes only its own table entry).  All theorems quantify over
every schedule `acts : List Act` from the empty manager (`Reachable`), any number of peers.

*live* = created by the factory and not yet exited (its goroutine has not run the callback).
*active* = live and neither told to shut down (`Shutdown()` called by the manager or by the queue
itself) nor about to be (`pending`: Disconnected removed its entry and is about to call `Shutdown()`).

**Full statement (S1)**: `∀ reachable s, ∀ p, (live s p).length ≤ 1`.  It is FALSE of the code:
`single_counterexample`.  `Disconnected` removes the entry and calls `Shutdown()` but does not wait for
the queue to end, so a successor can be created while the old queue is still draining (known
finding `overlap-shutting-down`).  Proved instead: `single_partial` (at most one *active* queue per
peer, and every other live queue has been told to stop), and `single_of_prompt_exit` (S1 itself for
every state in which the stopping queues have exited).
-/
namespace GS.C17
open GS.PM

def Reachable (s : State) : Prop := ∃ acts : List Act, s = run {} acts

theorem Reachable.inv {s : State} (h : Reachable s) : Inv s := by
  obtain ⟨acts, rfl⟩ := h
  exact Inv.init.run acts

/-- **(S1, partial) at most one active queue per peer**, on every schedule; it is the one in the
    table (the one `GetProcess`/`Connected` use), and every other live queue of the peer has been or
    is being told to shut down. -/
theorem single_partial {s : State} (h : Reachable s) (p : Nat) :
    (active s p).length ≤ 1 ∧
    (∀ q ∈ active s p, ∃ e ∈ s.table, e.peer = p ∧ e.qid = q.id) ∧
    (∀ q ∈ live s p, q ∉ active s p → q.pending = true ∨ q.shutdown = true) := by
  have hi := h.inv
  have hact : ∀ q ∈ active s p, q ∈ s.queues ∧ q.peer = p ∧ q.exited = false ∧ q.shutdown = false ∧ q.pending = false := by
    intro q hq
    unfold active at hq
    obtain ⟨h1, h2⟩ := List.mem_filter.mp hq
    simp at h2
    exact ⟨h1, h2.1.1.1, h2.1.1.2, h2.1.2, h2.2⟩
  have htab : ∀ q ∈ active s p, ∃ e ∈ s.table, e.peer = p ∧ e.qid = q.id := by
    intro q hq
    obtain ⟨h1, h2, h3, h4, h5⟩ := hact q hq
    rcases hi.orphan q h1 h3 with ⟨e, he, he1, he2⟩ | h' | h'
    · exact ⟨e, he, by rw [he2, h2], he1⟩
    · rw [h5] at h'; cases h'
    · rw [h4] at h'; cases h'
  refine ⟨?_, htab, ?_⟩
  · apply length_le_one_of_same_key (fun q : Queue => q.id)
    · unfold active; exact nodup_filter_map (fun q : Queue => q.id) _ _ hi.nodupQ
    · intro a ha b hb
      obtain ⟨ea, hea, hea1, hea2⟩ := htab a ha
      obtain ⟨eb, heb, heb1, heb2⟩ := htab b hb
      have : ea = eb := hi.entry_unique hea heb (by rw [hea1, heb1])
      subst this
      show a.id = b.id
      rw [← hea2, heb2]
  · intro q hq hna
    unfold live at hq
    obtain ⟨h1, h2⟩ := List.mem_filter.mp hq
    simp at h2
    by_cases hp : q.pending = true
    · exact Or.inl hp
    · by_cases hs : q.shutdown = true
      · exact Or.inr hs
      · exfalso; apply hna
        unfold active
        apply List.mem_filter.mpr
        refine ⟨h1, ?_⟩
        simp [h2.1, h2.2, hp, hs]

/-- **(S1) for states in which every queue that was told to stop has exited** (the hypothesis
    excluded by `single_counterexample`): exactly the full statement. -/
theorem single_of_prompt_exit {s : State} (h : Reachable s) (p : Nat)
    (hprompt : ∀ q ∈ live s p, q.pending = false ∧ q.shutdown = false) : (live s p).length ≤ 1 := by
  have h1 := (single_partial h p).1
  have : live s p = active s p := by
    unfold live active
    apply List.filter_congr
    intro q hq
    by_cases hl : (q.peer == p && !q.exited) = true
    · have hm : q ∈ live s p := by unfold live; exact List.mem_filter.mpr ⟨hq, hl⟩
      obtain ⟨a, b⟩ := hprompt q hm
      simp [a, b]
    · simp only [Bool.not_eq_true] at hl
      simp [hl]
  rw [this]; exact h1

/-- **(S1) is false at full strength**: Connected, Disconnected (entry removed, `Shutdown()` called),
    then GetProcess before the first queue has exited — two live queues for peer 0. -/
theorem single_counterexample :
    ∃ s, Reachable s ∧ (live s 0).length = 2 ∧ (active s 0).length = 1 :=
  ⟨run {} [.connected 0, .disconnected 0, .shutdownCall 0, .getProcess 0], ⟨_, rfl⟩, by decide, by decide⟩

/-- the exit callback as it was before fix `4983136`: deletes whatever entry the peer has -/
def queueExitUnfixed (s : State) (q : Nat) : State :=
  match s.queues.find? (·.id == q) with
  | none => s
  | some x =>
    if x.exited then s
    else { s with table := s.table.filter fun e => !(e.peer == x.peer),
                  queues := setQueue s.queues q ({ · with exited := true, shutdown := true }) }

/-- With the unfixed callback even `single_partial` fails: the old queue's exit deletes its
    successor's entry, the next GetProcess creates a third queue, and two queues that nobody told to
    stop are live (this was the defect; test of the statement, by computation). -/
theorem unfixed_callback_counterexample :
    (active ((getProcess (queueExitUnfixed
      (run {} [.connected 0, .disconnected 0, .shutdownCall 0, .getProcess 0]) 0) 0).1) 0).length = 2 := by
  decide

/-- **(S2) no queue outlives the last disconnect.**  In every reachable state in which peer `p` has
    no table entry — in particular right after the `Disconnected(p)` that brought the reference count
    to zero — every live queue of `p` has been told to shut down or is the one `Disconnected` is
    about to call `Shutdown()` on. -/
theorem no_outlive {s : State} (h : Reachable s) (p : Nat) (hno : lookup s.table p = none) :
    ∀ q ∈ live s p, q.pending = true ∨ q.shutdown = true := by
  intro q hq
  unfold live at hq
  obtain ⟨h1, h2⟩ := List.mem_filter.mp hq
  simp at h2
  rcases h.inv.orphan q h1 h2.2 with ⟨e, he, _, he2⟩ | h' | h'
  · exact absurd (he2.trans h2.1) (lookup_none hno e he)
  · exact Or.inl h'
  · exact Or.inr h'

/-- the `Disconnected(p)` that finds a reference count ≤ 1 removes the entry … -/
theorem disconnected_last {s : State} (p : Nat) {e : Entry} (he : lookup s.table p = some e)
    (hlast : e.refcnt ≤ 1) (hn : (s.table.map (·.peer)).Nodup) : lookup (disconnected s p).table p = none := by
  unfold disconnected
  rw [he]
  have : ¬ (e.refcnt - 1 > 0) := by omega
  simp only [this, if_false]
  unfold lookup
  apply List.find?_eq_none.mpr
  intro x hx
  have := (List.mem_filter.mp hx).2
  simpa using this

/-- … and the `Shutdown()` call that follows leaves no queue of `p` pending: after the last
    disconnect has returned, every live queue of `p` created before has been told to shut down. -/
theorem no_outlive_after_disconnect {s : State} (h : Reachable s) (p : Nat) {e : Entry}
    (he : lookup s.table p = some e) (hlast : e.refcnt ≤ 1)
    (hnop : ∀ q ∈ s.queues, q.pending = false) :
    ∀ q ∈ live (shutdownCall (disconnected s p) e.qid) p, q.shutdown = true := by
  have hr1 : Reachable (disconnected s p) := by
    obtain ⟨acts, rfl⟩ := h; exact ⟨acts ++ [.disconnected p], by simp [run, List.foldl_append, step]⟩
  have hr2 : Reachable (shutdownCall (disconnected s p) e.qid) := by
    obtain ⟨acts, hacts⟩ := hr1
    exact ⟨acts ++ [.shutdownCall e.qid], by rw [hacts]; simp [run, List.foldl_append, step]⟩
  have hno1 := disconnected_last p he hlast h.inv.nodupT
  have hno2 : lookup (shutdownCall (disconnected s p) e.qid).table p = none := hno1
  intro q hq
  rcases no_outlive hr2 p hno2 q hq with hp | hs
  · -- pending is impossible: the only pending queue was e.qid and shutdownCall cleared it
    exfalso
    unfold live at hq
    obtain ⟨hqm, _⟩ := List.mem_filter.mp hq
    unfold shutdownCall at hqm
    obtain ⟨q1, hq1, rfl⟩ := mem_setQueue hqm
    unfold disconnected at hq1
    rw [he] at hq1
    have : ¬ (e.refcnt - 1 > 0) := by omega
    simp only [this, if_false] at hq1
    obtain ⟨q0, hq0, rfl⟩ := mem_setQueue hq1
    have h0 := hnop q0 hq0
    by_cases hc : (q0.id == e.qid) = true
    · simp [hc] at hp
    · simp [hc, h0] at hp
  · exact hs

/-- non-vacuity: a reachable state with an entry of reference count 1 and a second, stopping queue -/
example : ∃ s e, Reachable s ∧ lookup s.table 0 = some e ∧ e.refcnt ≤ 1 ∧ (live s 0).length = 2 :=
  ⟨run {} [.connected 0, .disconnected 0, .shutdownCall 0, .connected 0], { peer := 0, refcnt := 1, qid := 1 },
    ⟨_, rfl⟩, by decide, by decide, by decide⟩

/-- **`GetProcess` never hands out a dead queue** (oracle class `returned-dead`): on every schedule the
    process it returns exists, belongs to the peer, its goroutine has not ended and `Disconnected` is
    not about to shut it down. -/
theorem getProcess_not_exited {s : State} (h : Reachable s) (p : Nat) :
    ∃ q ∈ (getProcess s p).1.queues, q.id = (getProcess s p).2 ∧ q.peer = p ∧ q.exited = false ∧ q.pending = false := by
  have hi : Inv (getOrCreate s p).1 := h.inv.getOrCreate p
  have hmem : (getOrCreate s p).2 ∈ (getOrCreate s p).1.table ∧ (getOrCreate s p).2.peer = p := by
    rcases getOrCreate_cases s p with ⟨e, hl, hg⟩ | ⟨_, hg⟩
    · rw [hg]; exact lookup_some hl
    · rw [hg]; exact ⟨by simp, rfl⟩
  obtain ⟨q, hq, h1, h2, h3, h4⟩ := hi.entry _ hmem.1
  exact ⟨q, hq, h1, h2.trans hmem.2, h3, h4⟩

/-- … but it may hand out a queue that has been told to stop: one that shut itself down after a
    connection failure stays in the table until its goroutine ends (see `told_to_stop_exits`). -/
theorem getProcess_may_return_stopping :
    ∃ s, Reachable s ∧ ∃ q ∈ (getProcess s 0).1.queues, q.id = (getProcess s 0).2 ∧ q.shutdown = true ∧ q.exited = false :=
  ⟨run {} [.connected 0, .selfShutdown 0], ⟨_, rfl⟩, { id := 0, peer := 0, shutdown := true }, by decide, by decide, rfl, rfl⟩

/-! ## (S3) messages leave in the order they were queued

Model `GS.MQ`.  A message is a builder; builders get consecutive topics in the order they are started
(`buildMessage`: `topic := nextBuilderTopic; nextBuilderTopic++`), transactions only ever append to
the last builder, and `Event.wire t 0` records that message `t` is handed to `SendMsg` for the first
time (`wiresOf log` lists these topics in order). -/

def MQReachable (pick : GS.Alloc.Pick) (peer mr mt mp : Nat) (s : GS.MQ.State) : Prop :=
  ∃ acts : List GS.MQ.Act, s = GS.MQ.runActs pick (GS.MQ.init peer mr mt mp) acts

open GS.MQ in
/-- **(S3) FIFO between messages, on every schedule**: the topics of the messages handed to the
    network are strictly increasing (= the order in which their builders were started), every message
    still queued comes after everything already on the wire, and the queued builders are in
    creation order. -/
theorem fifo {pick : GS.Alloc.Pick} {peer mr mt mp : Nat} {s : GS.MQ.State} (h : MQReachable pick peer mr mt mp s) :
    (wiresOf s.log).Pairwise (· < ·) ∧ (topicsOf s.builders).Pairwise (· < ·) ∧
      ∀ w ∈ wiresOf s.log, ∀ t ∈ topicsOf s.builders, w < t := by
  obtain ⟨acts, rfl⟩ := h
  have hn : NInv _ := runActs_J pick (init_J peer mr mt mp) acts
  · generalize runActs pick (init peer mr mt mp) acts = s at hn
    unfold NInv at hn
    have mid : ∀ {m : InFlight} {U : List Sub} {b : Bool}, Mid s m U [Kind.queued] b →
        (wiresOf s.log).Pairwise (· < ·) ∧ (topicsOf s.builders).Pairwise (· < ·) ∧
          ∀ w ∈ wiresOf s.log, ∀ t ∈ topicsOf s.builders, w < t := by
      intro m U b hm
      refine ⟨hm.wsorted, hm.sorted, ?_⟩
      intro w hw t ht
      have h1 := hm.wbelow w hw
      have h2 := hm.mBelow.2 t ht
      cases b
      · have h1' : w ≤ (m.topic : Nat) := by simpa using h1
        exact Nat.lt_of_le_of_lt h1' h2
      · have h1' : w < (m.topic : Nat) := by simpa using h1
        exact Nat.lt_trans h1' h2
    cases hp : s.pc with
    | idle => rw [hp] at hn; exact ⟨hn.wsorted, hn.sorted, fun w hw t ht => (hn.wbelow w hw).2 t ht⟩
    | exiting => rw [hp] at hn; exact ⟨hn.wsorted, hn.sorted, fun w hw t ht => (hn.wbelow w hw).2 t ht⟩
    | exited => rw [hp] at hn; exact ⟨hn.wsorted, hn.sorted, fun w hw t ht => (hn.wbelow w hw).2 t ht⟩
    | opening m r =>
      rw [hp] at hn
      cases r with
      | none => obtain ⟨U, hm⟩ := hn; exact mid hm
      | some i => obtain ⟨U, hm⟩ := hn; exact mid hm
    | sending m i => rw [hp] at hn; obtain ⟨U, hm⟩ := hn; exact mid hm
    | resetting m i => rw [hp] at hn; obtain ⟨U, hm⟩ := hn; exact mid hm

open GS.MQ in
/-- **(S3) FIFO inside a message**: an operation of a transaction appends its link at the end of its
    request's link list — the links of a request are on the wire in the order they were queued. -/
theorem fifo_links (b : Builder) (r : Req) (c sz : Nat) (send : Bool) :
    aget (b.apply r (.block c sz send)).responses r = some ((aget b.responses r).getD [] ++ [(c, true)]) ∧
    aget (b.apply r (.missing c)).responses r = some ((aget b.responses r).getD [] ++ [(c, false)]) := by
  have key : ∀ (m : List (Req × List (Cid × Bool))) (v : List (Cid × Bool)), aget (aset m r v) r = some v := by
    intro m v
    induction m with
    | nil => simp [aset, aget]
    | cons e rest ih =>
      obtain ⟨k, x⟩ := e
      simp only [aset]
      split
      · simp [aget]
      · next hk => simp [aget, hk, ih]
  constructor
  · cases send <;> simp only [Builder.apply] <;> exact key _ _
  · exact key _ _

/-! ## (S2, continued) a queue that was told to shut down really ends, and ends once

`no_outlive` above says: after the last disconnect every queue of the peer has been *told* to shut down
(`Shutdown()` = `Act.shutdown`, sets `done`).  Here, in the queue model `GS.MQ`: such a queue exits.

HYPOTHESIS of `told_to_stop_exits`, stated as the system `LSysQ`: no caller builds on the queue after
it was told to stop (`build`/`wake` disabled).  When is that true?
* a queue stopped by `Disconnected` is out of the peer table first (`disconnected_last`), so `GetProcess`
  cannot hand it out any more; only a caller that obtained the handle earlier can still build on it
  (such a build is drained or rejected with `Error` since the messagequeue fix — C16);
* it is NOT true by construction of a queue that shut ITSELF down (`initializeSender` failed →
  `mq.Shutdown()`): it stays in the peer table until its goroutine has ended, and `GetProcess` keeps
  returning it (`getProcess_may_return_stopping`; it is never returned after it has ended:
  `getProcess_not_exited`).  Builds that arrive while `done` is set but the goroutine has not yet
  taken the `done` branch are accepted, and Go's `select` between `outgoingWork` and `done` is
  resolved by `Act.run preferWork`; an adversarial schedule that keeps building and always prefers
  work postpones the exit forever.  Go's `select` chooses uniformly at random, which the model does
  not express; the theorem therefore assumes the callers stop.  No PM×MQ product model was built.
Fairness: weak fairness of {run, ack} (the queue goroutine is scheduled; the network answers the call
it is blocked in — with any result). -/

open GS.MQ GS.Temporal in
/-- **told to shut down ⇒ exits**, under the hypothesis that callers have stopped building on the queue
    (system `LSysQ`; see the section comment for when that holds and when it does not), on every weakly
    fair execution from any state satisfying the signal/retry invariant `TK`, e.g. any reachable
    state (`runActs_tk`) -/
theorem told_to_stop_exits {pick : GS.Alloc.Pick} {σ : Nat → GS.MQ.State} (h0 : TK (σ 0))
    (hex : Exec (LSysQ pick) σ) (hwf : WFAll (LSysQ pick) fairAct σ) :
    LeadsTo σ (fun s => s.done = true) (fun s => s.pc = .exited) := by
  have htk : ∀ i, TK (σ i) := by
    intro i
    induction i with
    | zero => exact h0
    | succ i ih =>
      rcases hex i with h | ⟨a, h⟩
      · rw [h]; exact ih
      · have hs : σ (i + 1) = GS.MQ.step pick (σ i) a := by
          cases a with
          | run pw =>
            have h' : (if runEnabled (σ i) then some ((σ i).run pick pw) else none) = some (σ (i + 1)) := h
            split at h'
            · exact (Option.some.inj h').symm
            · exact absurd h' (by simp)
          | ack ok =>
            have h' : (if ackEnabled (σ i) then some ((σ i).ack pick ok) else none) = some (σ (i + 1)) := h
            split at h'
            · exact (Option.some.inj h').symm
            · exact absurd h' (by simp)
          | build tx => exact absurd h (by simp [LSysQ])
          | wake w => exact absurd h (by simp [LSysQ])
          | shutdown => have h' : some (GS.MQ.step pick (σ i) .shutdown) = some (σ (i + 1)) := h; exact (Option.some.inj h').symm
          | env op => have h' : some (GS.MQ.step pick (σ i) (.env op)) = some (σ (i + 1)) := h; exact (Option.some.inj h').symm
        rw [hs]; exact step_tk pick ih a
  intro i hd
  by_cases hx : (σ i).pc = .exited
  · exact ⟨i, Nat.le_refl _, hx⟩
  · exact leadsTo_of_variant (exit_rule pick) hex hwf i ⟨htk i, hd, hx⟩

open GS.MQ in
/-- every reachable queue state satisfies `TK` (so `told_to_stop_exits` applies from it) -/
theorem runActs_tk (pick : GS.Alloc.Pick) (peer mr mt mp : Nat) (acts : List MQ.Act) :
    TK (runActs pick (init peer mr mt mp) acts) := by
  have : ∀ (s : GS.MQ.State), TK s → TK (runActs pick s acts) := by
    unfold runActs
    induction acts with
    | nil => intro s h; exact h
    | cons a r ih => intro s h; exact ih _ (step_tk pick h a)
  exact this _ (init_tk peer mr mt mp)

open GS.MQ in
/-- **the exit callback runs in exactly one kind of step, at most once per queue**: the goroutine
    reaches `exited` only from `exiting` by the deferred function of `runQueue` (whose last action is
    `onShutdown`, the log entry `exitCallback`), and `exited` is absorbing.  This discharges the
    assumption "a process calls its callback exactly once, when its goroutine ends" used by the
    peer-manager model (`queueExit`). -/
theorem callback_once (pick : GS.Alloc.Pick) (s : GS.MQ.State) (a : MQ.Act) :
    (s.pc ≠ .exited → (GS.MQ.step pick s a).pc = .exited →
      s.pc = .exiting ∧ (∃ ok, a = .ack ok) ∧ ∃ l, (GS.MQ.step pick s a).log = l ++ [Event.exitCallback]) ∧
    (s.pc = .exited → ∀ acts, (runActs pick s acts).pc = .exited) :=
  ⟨exit_only_by_deferred pick s a, fun h acts => exited_forever pick s acts h⟩

/-
Cross-queue order during the overlap (part of known finding `overlap-shutting-down`): `fifo` is a
statement about ONE queue.  While a stopping queue and its successor are both live, the old queue's
message in flight (and, if it takes the work branch of its select, its queued messages) and the
successor's messages are handed to the network by two goroutines with no ordering between them — the
property's "messages to a peer leave in the order they were queued" does not hold across the two
queues.  No theorem; recorded in known_findings.json.
-/

end GS.C17
