// Command schema regenerates lean/GS/Generated/Schema.lean (properties C11, C12) from
//
//	message/ipldbind/schema.ipldsch   the v2 wire schema: tuple field order, map-struct field sets, wire renames, optional
//	                                  flags, representation kinds, enum members and their wire values,
//	                                  the keyed-union discriminant
//	graphsync.go                      the Go constants RequestType*/LinkAction* (enum member names the
//	                                  Go side stores)
//	responsecode.go                   the Go constants of type ResponseStatusCode
//
// The Lean wire model (GS/Model/Wire.lean) takes every key, enum string and status number from the
// generated file, and the round-trip proofs discharge their side conditions (keys of one struct
// pairwise distinct, enum wire values pairwise distinct, Go constants = schema members) by `decide`
// on the generated tables -- so an edit of the schema or of the constants re-checks the theorems.
//
// usage: go run ./schema <repo>      (prints the Lean file; exits non-zero on anything it does not know)
package main

import (
	"fmt"
	"go/ast"
	"go/parser"
	"go/token"
	"os"
	"path/filepath"
	"regexp"
	"sort"
	"strconv"
	"strings"
)

func die(format string, a ...interface{}) {
	fmt.Fprintf(os.Stderr, "schema: %s\n", fmt.Sprintf(format, a...))
	os.Exit(1)
}

// ---------------------------------------------------------------- ipldsch parsing (strict subset)

type field struct {
	name, typ, rename string
	optional, nullable bool
}
type member struct{ name, repr string }
type decl struct {
	kind    string // bytes int map enum struct list union
	name    string
	repr    string
	fields  []field
	members []member
	elem    string // list element / map value
	keyT    string
	valNullable bool
}

func tokenize(src string) []string {
	var toks []string
	// strip comments
	var sb strings.Builder
	for _, line := range strings.Split(src, "\n") {
		if i := strings.Index(line, "#"); i >= 0 {
			line = line[:i]
		}
		sb.WriteString(line)
		sb.WriteString("\n")
	}
	re := regexp.MustCompile(`"[^"]*"|[A-Za-z_][A-Za-z0-9_]*|[{}\[\]():|]`)
	s := sb.String()
	idx := re.FindAllStringIndex(s, -1)
	pos := 0
	for _, m := range idx {
		if strings.TrimSpace(s[pos:m[0]]) != "" {
			die("schema.ipldsch: unexpected characters %q", s[pos:m[0]])
		}
		toks = append(toks, s[m[0]:m[1]])
		pos = m[1]
	}
	if strings.TrimSpace(s[pos:]) != "" {
		die("schema.ipldsch: unexpected trailing characters %q", s[pos:])
	}
	return toks
}

type parser_ struct {
	t []string
	i int
}

func (p *parser_) peek() string {
	if p.i < len(p.t) {
		return p.t[p.i]
	}
	return ""
}
func (p *parser_) next() string { s := p.peek(); p.i++; return s }
func (p *parser_) expect(s string) {
	if g := p.next(); g != s {
		die("schema.ipldsch: expected %q, got %q (token %d)", s, g, p.i)
	}
}
func unq(s string) string {
	if len(s) < 2 || s[0] != '"' {
		die("schema.ipldsch: expected a quoted string, got %q", s)
	}
	return s[1 : len(s)-1]
}

func parseSchema(src string) []decl {
	p := &parser_{t: tokenize(src)}
	var ds []decl
	for p.peek() != "" {
		p.expect("type")
		d := decl{name: p.next()}
		switch k := p.next(); k {
		case "bytes", "int":
			d.kind = k
		case "{":
			d.kind = "map"
			d.keyT = p.next()
			p.expect(":")
			if p.peek() == "nullable" {
				p.next()
				d.valNullable = true
			}
			d.elem = p.next()
			p.expect("}")
		case "[":
			d.kind = "list"
			d.elem = p.next()
			p.expect("]")
		case "enum":
			d.kind = "enum"
			p.expect("{")
			for p.peek() == "|" {
				p.next()
				m := member{name: p.next()}
				p.expect("(")
				m.repr = unq(p.next())
				p.expect(")")
				d.members = append(d.members, m)
			}
			p.expect("}")
			p.expect("representation")
			d.repr = p.next()
		case "struct":
			d.kind = "struct"
			p.expect("{")
			for p.peek() != "}" {
				f := field{name: p.next()}
				if p.peek() == "optional" {
					p.next()
					f.optional = true
				}
				if p.peek() == "nullable" {
					die("schema.ipldsch: nullable struct fields are not modelled (field %s.%s)", d.name, f.name)
				}
				if p.peek() == "[" {
					p.next()
					f.typ = "[" + p.next() + "]"
					p.expect("]")
				} else {
					f.typ = p.next()
				}
				f.rename = f.name
				if p.peek() == "(" {
					p.next()
					p.expect("rename")
					f.rename = unq(p.next())
					p.expect(")")
				}
				d.fields = append(d.fields, f)
			}
			p.expect("}")
			p.expect("representation")
			d.repr = p.next()
		case "union":
			d.kind = "union"
			p.expect("{")
			for p.peek() == "|" {
				p.next()
				m := member{name: p.next()}
				m.repr = unq(p.next())
				d.members = append(d.members, m)
			}
			p.expect("}")
			p.expect("representation")
			d.repr = p.next()
		default:
			die("schema.ipldsch: unknown type kind %q for %s", k, d.name)
		}
		ds = append(ds, d)
	}
	return ds
}

// ---------------------------------------------------------------- Go constants

func goConsts(path string, typ string) [][2]string {
	fset := token.NewFileSet()
	f, err := parser.ParseFile(fset, path, nil, parser.SkipObjectResolution)
	if err != nil {
		die("parse %s: %v", path, err)
	}
	var out [][2]string
	for _, d := range f.Decls {
		gd, ok := d.(*ast.GenDecl)
		if !ok || gd.Tok != token.CONST {
			continue
		}
		for _, s := range gd.Specs {
			vs := s.(*ast.ValueSpec)
			for i, n := range vs.Names {
				if i >= len(vs.Values) {
					continue
				}
				ce, ok := vs.Values[i].(*ast.CallExpr)
				if !ok {
					continue
				}
				id, ok := ce.Fun.(*ast.Ident)
				if !ok || id.Name != typ {
					continue
				}
				if len(ce.Args) != 1 {
					die("%s: constant %s: expected one argument", path, n.Name)
				}
				bl, ok := ce.Args[0].(*ast.BasicLit)
				if !ok {
					die("%s: constant %s: expected a literal argument", path, n.Name)
				}
				v := bl.Value
				if bl.Kind == token.STRING {
					v, err = strconv.Unquote(bl.Value)
					if err != nil {
						die("%s: %v", path, err)
					}
				}
				out = append(out, [2]string{n.Name, v})
			}
		}
	}
	if len(out) == 0 {
		die("%s: no constants of type %s found", path, typ)
	}
	return out
}

// ---------------------------------------------------------------- Lean output

func leanBytes(s string) string {
	parts := make([]string, len(s))
	for i := 0; i < len(s); i++ {
		parts[i] = fmt.Sprintf("0x%02x", s[i])
	}
	return "[" + strings.Join(parts, ", ") + "]"
}

func main() {
	if len(os.Args) != 2 {
		die("usage: schema <repo>")
	}
	repo := os.Args[1]
	raw, err := os.ReadFile(filepath.Join(repo, "message/ipldbind/schema.ipldsch"))
	if err != nil {
		die("%v", err)
	}
	ds := parseSchema(string(raw))
	by := map[string]decl{}
	var names []string
	for _, d := range ds {
		if _, dup := by[d.name]; dup {
			die("duplicate type %s", d.name)
		}
		by[d.name] = d
		names = append(names, d.name)
	}
	sort.Strings(names)
	want := []string{"GraphSyncBlock", "GraphSyncExtensions", "GraphSyncLinkAction", "GraphSyncMessage", "GraphSyncMessageRoot",
		"GraphSyncMetadata", "GraphSyncMetadatum", "GraphSyncPriority", "GraphSyncRequest", "GraphSyncRequestID",
		"GraphSyncRequestType", "GraphSyncResponse", "GraphSyncResponseStatusCode"}
	if strings.Join(names, ",") != strings.Join(want, ",") {
		die("the set of schema types changed: %v (the wire model knows %v)", names, want)
	}
	get := func(n, kind string) decl {
		d := by[n]
		if d.kind != kind {
			die("type %s: expected kind %s, found %s", n, kind, d.kind)
		}
		return d
	}
	// shape checks: everything the hand-written part of the model relies on
	get("GraphSyncRequestID", "bytes")
	get("GraphSyncPriority", "int")
	ext := get("GraphSyncExtensions", "map")
	if ext.keyT != "String" || ext.elem != "Any" || !ext.valNullable {
		die("GraphSyncExtensions: expected {String : nullable Any}")
	}
	if md := get("GraphSyncMetadata", "list"); md.elem != "GraphSyncMetadatum" {
		die("GraphSyncMetadata: expected [GraphSyncMetadatum]")
	}
	structShape := func(n, repr string, fs []field) decl {
		d := get(n, "struct")
		if d.repr != repr {
			die("struct %s: expected representation %s, found %s", n, repr, d.repr)
		}
		if len(d.fields) != len(fs) {
			die("struct %s: expected %d fields, found %d", n, len(fs), len(d.fields))
		}
		if repr == "map" {
			// Field order of a map-represented struct is not observable: the codec (dagcbor.Encode,
			// MapSortMode_RFC7049) sorts the keys of EVERY map node it emits, typed or not, and the
			// bindnode map-representation assembler accepts keys in any order. So the fields are
			// matched BY NAME and emitted in the canonical order of `fs` (this translator's table):
			// a reorder in schema.ipldsch regenerates an identical Lean file. Everything else stays
			// strict: same set of names, no duplicates, same type / optional flag; renames are emitted.
			seen := map[string]bool{}
			for _, g := range d.fields {
				if seen[g.name] {
					die("struct %s: duplicate field %s", n, g.name)
				}
				seen[g.name] = true
			}
			canon := make([]field, 0, len(fs))
			for _, f := range fs {
				found := false
				for _, g := range d.fields {
					if g.name == f.name {
						canon = append(canon, g)
						found = true
					}
				}
				if !found {
					die("struct %s: field %s not found (the wire model knows exactly the fields %v)", n, f.name, fs)
				}
			}
			d.fields = canon
		}
		// tuple representation: position IS the wire format, so the comparison stays positional
		for i, f := range fs {
			g := d.fields[i]
			if g.name != f.name || g.typ != f.typ || g.optional != f.optional {
				die("struct %s field %d: expected %s %s optional=%v, found %s %s optional=%v", n, i, f.name, f.typ, f.optional, g.name, g.typ, g.optional)
			}
			if repr == "tuple" && g.rename != g.name {
				die("struct %s: rename on a tuple field", n)
			}
		}
		return d
	}
	req := structShape("GraphSyncRequest", "map", []field{
		{name: "id", typ: "GraphSyncRequestID"}, {name: "requestType", typ: "GraphSyncRequestType"},
		{name: "priority", typ: "GraphSyncPriority", optional: true}, {name: "root", typ: "Link", optional: true},
		{name: "selector", typ: "Any", optional: true}, {name: "extensions", typ: "GraphSyncExtensions", optional: true}})
	rsp := structShape("GraphSyncResponse", "map", []field{
		{name: "id", typ: "GraphSyncRequestID"}, {name: "status", typ: "GraphSyncResponseStatusCode"},
		{name: "metadata", typ: "GraphSyncMetadata", optional: true}, {name: "extensions", typ: "GraphSyncExtensions", optional: true}})
	msg := structShape("GraphSyncMessage", "map", []field{
		{name: "requests", typ: "[GraphSyncRequest]", optional: true}, {name: "responses", typ: "[GraphSyncResponse]", optional: true},
		{name: "blocks", typ: "[GraphSyncBlock]", optional: true}})
	structShape("GraphSyncMetadatum", "tuple", []field{{name: "link", typ: "Link"}, {name: "action", typ: "GraphSyncLinkAction"}})
	structShape("GraphSyncBlock", "tuple", []field{{name: "prefix", typ: "Bytes"}, {name: "data", typ: "Bytes"}})
	root := get("GraphSyncMessageRoot", "union")
	if root.repr != "keyed" || len(root.members) != 1 || root.members[0].name != "GraphSyncMessage" {
		die("GraphSyncMessageRoot: expected a keyed union with the single member GraphSyncMessage")
	}
	rt := get("GraphSyncRequestType", "enum")
	la := get("GraphSyncLinkAction", "enum")
	sc := get("GraphSyncResponseStatusCode", "enum")
	if rt.repr != "string" || la.repr != "string" || sc.repr != "int" {
		die("enum representations changed (request type %s, link action %s, status %s)", rt.repr, la.repr, sc.repr)
	}
	memberNames := func(d decl) string {
		var s []string
		for _, m := range d.members {
			s = append(s, m.name)
		}
		return strings.Join(s, ",")
	}
	if memberNames(rt) != "New,Cancel,Update" {
		die("GraphSyncRequestType members changed: %s (the model has new/cancel/update)", memberNames(rt))
	}
	if memberNames(la) != "Present,DuplicateNotSent,Missing,DuplicateDAGSkipped" {
		die("GraphSyncLinkAction members changed: %s", memberNames(la))
	}

	gsgo := filepath.Join(repo, "graphsync.go")
	rtConsts := goConsts(gsgo, "RequestType")
	laConsts := goConsts(gsgo, "LinkAction")
	scConsts := goConsts(filepath.Join(repo, "responsecode.go"), "ResponseStatusCode")
	lookup := func(cs [][2]string, name string) string {
		for _, c := range cs {
			if c[0] == name {
				return c[1]
			}
		}
		die("Go constant %s not found", name)
		return ""
	}

	var o strings.Builder
	w := func(format string, a ...interface{}) { fmt.Fprintf(&o, format, a...); o.WriteString("\n") }
	w("/-")
	w("GENERATED by translate/schema from message/ipldbind/schema.ipldsch, graphsync.go, responsecode.go.")
	w("Do not edit: `./check C11` / `./check C12` rewrite this file from the current source.")
	w("-/")
	w("namespace GS.Generated.Schema")
	w("")
	w("abbrev B := List UInt8")
	w("")
	w("/-- discriminant of the keyed union GraphSyncMessageRoot for member GraphSyncMessage: %q -/", root.members[0].repr)
	w("def rootKey : B := %s", leanBytes(root.members[0].repr))
	w("/-- the member's type name (bindnode accepts it in place of the discriminant): %q -/", root.members[0].name)
	w("def rootMember : B := %s", leanBytes(root.members[0].name))
	w("")
	emitStruct := func(prefix string, d decl) {
		w("-- struct %s (representation %s): wire key of each field, in canonical (translator table) order", d.name, d.repr)
		var keys []string
		for _, f := range d.fields {
			w("/-- %s.%s %s(rename %q) -/", d.name, f.name, map[bool]string{true: "optional ", false: ""}[f.optional], f.rename)
			w("def %s_%s : B := %s", prefix, f.name, leanBytes(f.rename))
			w("def %s_%s_name : B := %s  -- %q", prefix, f.name, leanBytes(f.name), f.name)
			keys = append(keys, prefix+"_"+f.name)
		}
		w("def %sKeys : List B := [%s]", prefix, strings.Join(keys, ", "))
		var pairs []string
		for _, k := range keys {
			pairs = append(pairs, fmt.Sprintf("(%s_name, %s)", k, k))
		}
		w("/-- (schema field name, wire key): bindnode accepts either spelling as a map key -/")
		w("def %sFields : List (B × B) := [%s]", prefix, strings.Join(pairs, ", "))
		w("")
	}
	emitStruct("msg", msg)
	emitStruct("req", req)
	emitStruct("rsp", rsp)
	emitEnum := func(name string, d decl) {
		w("-- enum %s (representation %s): (member name, wire string)", d.name, d.repr)
		var es []string
		for _, m := range d.members {
			es = append(es, fmt.Sprintf("(%s, %s)", leanBytes(m.name), leanBytes(m.repr)))
		}
		w("def %s : List (B × B) := [%s]", name, strings.Join(es, ",\n  "))
		var cm []string
		for _, m := range d.members {
			cm = append(cm, fmt.Sprintf("%s=%q", m.name, m.repr))
		}
		w("-- %s", strings.Join(cm, " "))
		w("")
	}
	emitEnum("requestTypeEnum", rt)
	emitEnum("linkActionEnum", la)
	w("-- enum GraphSyncResponseStatusCode (representation int): wire integers, in schema order")
	var codes []string
	for _, m := range sc.members {
		n, err := strconv.Atoi(m.repr)
		if err != nil || n < 0 {
			die("status code %s: wire value %q is not a non-negative integer", m.name, m.repr)
		}
		codes = append(codes, strconv.Itoa(n))
	}
	w("def statusEnum : List Nat := [%s]", strings.Join(codes, ", "))
	w("")
	w("-- Go constants (graphsync.go): the enum member name each constant holds")
	for _, c := range [][2]string{{"goRequestTypeNew", "RequestTypeNew"}, {"goRequestTypeCancel", "RequestTypeCancel"}, {"goRequestTypeUpdate", "RequestTypeUpdate"}} {
		w("def %s : B := %s  -- %q", c[0], leanBytes(lookup(rtConsts, c[1])), lookup(rtConsts, c[1]))
	}
	for _, c := range [][2]string{{"goLinkActionPresent", "LinkActionPresent"}, {"goLinkActionDuplicateNotSent", "LinkActionDuplicateNotSent"},
		{"goLinkActionMissing", "LinkActionMissing"}, {"goLinkActionDuplicateDAGSkipped", "LinkActionDuplicateDAGSkipped"}} {
		w("def %s : B := %s  -- %q", c[0], leanBytes(lookup(laConsts, c[1])), lookup(laConsts, c[1]))
	}
	w("")
	w("-- Go constants of type ResponseStatusCode (responsecode.go), in source order")
	var gc, gn []string
	for _, c := range scConsts {
		n, err := strconv.Atoi(c[1])
		if err != nil || n < 0 {
			die("responsecode.go: constant %s = %s is not a non-negative integer literal", c[0], c[1])
		}
		gc = append(gc, strconv.Itoa(n))
		gn = append(gn, c[0]+"="+c[1])
	}
	w("def goStatusCodes : List Nat := [%s]", strings.Join(gc, ", "))
	w("-- %s", strings.Join(gn, " "))
	w("")
	w("end GS.Generated.Schema")
	fmt.Print(o.String())
}
