import GS.Driver.SelvalCore
/-! model driver executable for component `selvale2e` (C08 end-to-end stream: `wired` ops) -/
def main : IO Unit := GS.Proto.runModel GS.Driver.Selval.handler
