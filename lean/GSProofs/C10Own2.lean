import GSProofs.Lemmas.RespDispatchOwn2Start
import GSProofs.Lemmas.RespDispatchOwn2Inj
/-!
# C10, remaining items of DESIGN §8

(a) `start_noninterference_reachable`: the frame theorem for `.start p id` (StartTask and the
    immediate completion), in every state reached by a history without own-ID reuse.
(b) `foreign_new_ignored`: what the loop-level peer guard (fix 7d665e5) does to the *sender* `q` of a
    request whose ID is live for another peer: nothing at all happens — no response object, no
    status on the wire, no hook, no table change, no event.  `q`'s request is silently dropped
    (a liveness gap for `q` that the property sentence does not forbid).
(c) `noninterference_all_ops_reachable`: one theorem for every `Op` constructor.
-/
namespace GS.C10
open GS.RespMgr GS.Generated

/-! ## (a) `start` -/

/-- **C10, task start.**  In every state reached from the initial state by a history in which no
    peer re-uses one of its own live request IDs, starting the task `(p, id)` — StartTask, the
    processing listener, and the immediate FinishRequest + FinishTask of a traversal that had
    already delivered its last block — touches only `p`'s responses: objects, table entries and
    queued tasks of every other peer are unchanged, and every event concerns `p`. -/
theorem start_noninterference_reachable (ops : List Op) (hr : NoOwnReuse {} ops = true) (p : Peer) (id : ReqId) :
    let s := (runD RespDispatch.dispatch RespDispatch.closerKey {} ops).1
    FrameW p s (step s (.start p id)).1 ∧ AllPeer p (step s (.start p id)).2.1 :=
  startExec_frame (inv_reachable ops hr) (p, id)

/-- the reachability hypothesis of `start_noninterference_reachable` cannot simply be dropped: in
    this (unreachable) state the queue holds a task `(0, 1)` while the table entry under ID 1 is
    served to peer 1, and starting the task sets peer 1's response running -/
def sStaleTask : State :=
  { objs := [{ peer := 1, id := 1, total := 2, bh := .none, state := .queued }], table := [(1, 0)], pending := [(0, 1)] }

theorem start_stale_counterexample :
    (sStaleTask.obj 0).map (·.state) = some .queued
    ∧ ((step sStaleTask (.start 0 1)).1.obj 0).map (·.state) = some .running := by
  decide

/-- non-vacuity: a reachable state in which `start 0 1` does start a task (peer 1 holds ID 2 and
    was refused ID 1) -/
example : NoOwnReuse {} [.msg 0 [{ typ := .new, id := 1, total := 1 }],
      .msg 1 [{ typ := .new, id := 1, total := 2 }, { typ := .new, id := 2, total := 2 }]] = true
    ∧ (step (runD RespDispatch.dispatch RespDispatch.closerKey {} [.msg 0 [{ typ := .new, id := 1, total := 1 }],
      .msg 1 [{ typ := .new, id := 1, total := 2 }, { typ := .new, id := 2, total := 2 }]]).1 (.start 0 1)).2.2 = .running := by
  decide

/-! ## (b) the sender of a foreign request gets no answer -/

/-- one iteration of the dispatch loop, reachable states: a request of `q` — of any type, in
    particular `new` — whose ID is live for another peer `p` changes nothing and produces no event -/
theorem foreign_ignored_handleOne (ops : List Op) (hr : NoOwnReuse {} ops = true) (p q : Peer) (hq : q ≠ p) (x : Request)
    (hl : liveFor (runD RespDispatch.dispatch RespDispatch.closerKey {} ops).1 p x.id = true) :
    handleOne RespDispatch.dispatch q (runD RespDispatch.dispatch RespDispatch.closerKey {} ops).1 x
      = ((runD RespDispatch.dispatch RespDispatch.closerKey {} ops).1, []) :=
  handleOne_foreign RespDispatch.dispatch dispatch_guarded q _ x (foreign_of_live (inv_reachable ops hr) hq x hl)

/-- **The foreign `new` request is ignored without an answer.**  If request ID `x.id` is live for
    `p` (table entry served to `p`, or an executor of `p`), then a message from another peer `q`
    that consists of the request `x` (say `new x.id`) is a no-op: the state is the same — no response
    object is allocated, the table is unchanged, nothing is queued — and there is NO event: no
    rejection status or any other operation on a stream of `q`, no request hook, no listener, no
    protect / unprotect.  `q` never learns that its request was dropped. -/
theorem foreign_new_ignored (ops : List Op) (hr : NoOwnReuse {} ops = true) (p q : Peer) (hq : q ≠ p) (x : Request)
    (hl : liveFor (runD RespDispatch.dispatch RespDispatch.closerKey {} ops).1 p x.id = true) :
    step (runD RespDispatch.dispatch RespDispatch.closerKey {} ops).1 (.msg q [x])
      = ((runD RespDispatch.dispatch RespDispatch.closerKey {} ops).1, [], .ok) := by
  have h := foreign_ignored_handleOne ops hr p q hq x hl
  simp only [step, stepD, processRequests, h, List.append_nil]

/-- … and inside a longer message the rest is handled as if the request had not been there -/
theorem foreign_new_ignored_in_message (ops : List Op) (hr : NoOwnReuse {} ops = true) (p q : Peer) (hq : q ≠ p)
    (x : Request) (post : List Request)
    (hl : liveFor (runD RespDispatch.dispatch RespDispatch.closerKey {} ops).1 p x.id = true) :
    step (runD RespDispatch.dispatch RespDispatch.closerKey {} ops).1 (.msg q (x :: post))
      = step (runD RespDispatch.dispatch RespDispatch.closerKey {} ops).1 (.msg q post) :=
  step_erase_foreign _ q [] post x (foreign_of_live (inv_reachable ops hr) hq x hl)

/-- test: peer 0 holds ID 1 (its executor is between two blocks); peer 1's `new 1` leaves no trace —
    no event, no object, peer 1 has no response — while the same request with a free ID is answered -/
example :
    let s := (runD RespDispatch.dispatch RespDispatch.closerKey {}
      [.msg 0 [{ typ := .new, id := 1, total := 3 }], .start 0 1, .step 0 1]).1
    liveFor s 0 1 = true
    ∧ (step s (.msg 1 [{ typ := .new, id := 1, total := 2 }])).2.1 = []
    ∧ (step s (.msg 1 [{ typ := .new, id := 1, total := 2 }])).1.objs.length = s.objs.length
    ∧ peerState (step s (.msg 1 [{ typ := .new, id := 1, total := 2 }])).1 1 = []
    ∧ (step s (.msg 1 [{ typ := .new, id := 2, total := 2 }])).2.1
        = [Ev.protect 1 2, Ev.hookReq 1 2, Ev.push 1 2] := by
  decide

/-! ## (c) every operation of another peer -/

/-- the operation `op`, applied in state `s`, is not an operation of / on peer `p`:
    a message, task start, executor step or sent / network-error notification of a peer `q ≠ p`
    (for `neterrInj` both the notified and the injected peer differ from `p`); a local API call
    (pause / unpause / cancel / update response, addressed by request ID) whose ID is not in the
    table for `p`. -/
def Avoids (s : State) (p : Peer) : Op → Prop
  | .msg q _ => q ≠ p
  | .start q _ => q ≠ p
  | .step q _ => q ≠ p
  | .sent q _ => q ≠ p
  | .neterr q _ => q ≠ p
  | .neterrInj q _ q' _ => q ≠ p ∧ q' ≠ p
  | .pauseResp id => ∀ k o, s.lookup id = some (k, o) → o.peer ≠ p
  | .unpauseResp id => ∀ k o, s.lookup id = some (k, o) → o.peer ≠ p
  | .cancelResp id => ∀ k o, s.lookup id = some (k, o) → o.peer ≠ p
  | .updateResp id => ∀ k o, s.lookup id = some (k, o) → o.peer ≠ p

theorem all_ops_of_inv (s : State) (hi : Inv none s) (p : Peer) (op : Op) (ha : Avoids s p op) :
    Untouched p s (step s op).1 ∧ NoEv p (step s op).2.1 := by
  cases op with
  | msg q reqs =>
    obtain ⟨f, e⟩ := processRequests_frame RespDispatch.dispatch dispatch_guarded q s reqs
    exact ⟨untouched_of_frame ha f, noEv_of_allPeer ha e⟩
  | start q id =>
    obtain ⟨f, e⟩ := startExec_frame hi (q, id)
    exact ⟨untouched_of_frameW ha f, noEv_of_allPeer ha e⟩
  | step q id =>
    obtain ⟨f, e⟩ := executor_noninterference s q id (fun e he => ownExec_of_inv s hi q id e he)
    exact ⟨untouched_of_frameW ha f, noEv_of_allPeer ha e⟩
  | sent q j =>
    obtain ⟨f, e⟩ := notification_noninterference s q j false
    exact ⟨untouched_of_frame ha f, noEv_of_allPeer ha e⟩
  | neterr q j =>
    obtain ⟨f, e⟩ := notification_noninterference s q j true
    exact ⟨untouched_of_frame ha f, noEv_of_allPeer ha e⟩
  | neterrInj q j q' reqs => exact notifyAt_inj_untouched s p q q' j reqs ha.1 ha.2
  | pauseResp id =>
    obtain ⟨q, hq, hown⟩ := localApi_pick s p id ha
    obtain ⟨f, e⟩ := pauseResp_frame q s id hown
    exact ⟨untouched_of_frame hq f, noEv_of_allPeer hq e⟩
  | unpauseResp id =>
    obtain ⟨q, hq, hown⟩ := localApi_pick s p id ha
    obtain ⟨f, e⟩ := unpause_frame q s id hown
    exact ⟨untouched_of_frame hq f, noEv_of_allPeer hq e⟩
  | cancelResp id =>
    obtain ⟨q, hq, hown⟩ := localApi_pick s p id ha
    obtain ⟨f, e⟩ := abort_frame q s id .byCommand hown
    exact ⟨untouched_of_frame hq f, noEv_of_allPeer hq e⟩
  | updateResp id =>
    obtain ⟨q, hq, hown⟩ := localApi_pick s p id ha
    obtain ⟨f, e⟩ := updateResp_frame q s id hown
    exact ⟨untouched_of_frame hq f, noEv_of_allPeer hq e⟩

/-- **C10, every operation.**  In every state `s` reached from the initial state by a history without
    own-ID reuse, EVERY operation that is not `p`'s (`Avoids s p op`: message, task start, executor
    step, sent / network-error notification — with or without a message injected between the two
    closer calls — of other peers; local API calls on responses not served to `p`) leaves `p`'s
    responses alone: every response object served to `p` is unchanged (state, signals, queued
    updates, position, flags, un-notified status), every table entry pointing to one is unchanged,
    `p`'s queued tasks are unchanged, and no event of the step concerns `p`. -/
theorem noninterference_all_ops_reachable (ops : List Op) (hr : NoOwnReuse {} ops = true) (p : Peer) (op : Op)
    (ha : Avoids (runD RespDispatch.dispatch RespDispatch.closerKey {} ops).1 p op) :
    let s := (runD RespDispatch.dispatch RespDispatch.closerKey {} ops).1
    Untouched p s (step s op).1 ∧ NoEv p (step s op).2.1 :=
  all_ops_of_inv _ (inv_reachable ops hr) p op ha

/-- … and over a whole continuation: any further operations none of which is `p`'s -/
inductive AvoidsAll (p : Peer) : State → List Op → Prop
  | nil (s : State) : AvoidsAll p s []
  | cons (s : State) (op : Op) (rest : List Op) : Avoids s p op → AvoidsAll p (step s op).1 rest →
      AvoidsAll p s (op :: rest)

theorem noninterference_all_ops_run (s : State) (hi : Inv none s) (ht : TableOk s) (p : Peer) (rest : List Op)
    (hr : NoOwnReuse s rest = true) (ha : AvoidsAll p s rest) :
    Untouched p s (runD RespDispatch.dispatch RespDispatch.closerKey s rest).1
    ∧ ∀ out ∈ (runD RespDispatch.dispatch RespDispatch.closerKey s rest).2, NoEv p out.1 := by
  induction ha with
  | nil s => exact ⟨Untouched.refl p s, by intro out h; cases h⟩
  | cons s op rest hop _ ih =>
    simp only [NoOwnReuse, Bool.and_eq_true] at hr
    obtain ⟨u1, e1⟩ := all_ops_of_inv s hi p op hop
    obtain ⟨hi1, ht1⟩ := inv_step s op hi ht hr.1
    obtain ⟨u2, e2⟩ := ih hi1 ht1 hr.2
    refine ⟨Untouched.trans u1 u2, ?_⟩
    intro out hout
    simp only [runD] at hout
    rcases List.mem_cons.mp hout with h | h
    · rw [h]; exact e1
    · exact e2 out h

/-- non-vacuity of `noninterference_all_ops_reachable`: peer 0's executor is between two blocks, peer
    1 has a response 2 of its own and one queued; each of these operations avoids peer 0 -/
example :
    let s := (runD RespDispatch.dispatch RespDispatch.closerKey {}
      [.msg 0 [{ typ := .new, id := 1, total := 3 }], .start 0 1, .step 0 1,
       .msg 1 [{ typ := .new, id := 2, total := 2 }]]).1
    Avoids s 0 (.msg 1 [{ typ := .cancel, id := 1 }]) ∧ Avoids s 0 (.start 1 2) ∧ Avoids s 0 (.cancelResp 2)
    ∧ Avoids s 0 (.neterrInj 1 0 1 [{ typ := .new, id := 1 }])
    ∧ (s.obj 0).map (·.peer) = some 0 ∧ s.table.get 1 = some 0 := by
  have h10 : (1 : Nat) ≠ 0 := by decide
  refine ⟨h10, h10, ?_, ⟨h10, h10⟩, by decide, by decide⟩
  intro k o h
  have : (k, o).2.peer = 1 := by
    have h2 : (runD RespDispatch.dispatch RespDispatch.closerKey {}
      [.msg 0 [{ typ := .new, id := 1, total := 3 }], .start 0 1, .step 0 1,
       .msg 1 [{ typ := .new, id := 2, total := 2 }]]).1.lookup 2 = some (1, { peer := 1, id := 2, total := 2, bh := .none, state := .queued }) := by decide
    rw [h2] at h; cases h; rfl
  intro hp; rw [hp] at this; cases this

end GS.C10
