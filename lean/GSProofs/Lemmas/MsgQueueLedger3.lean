import GSProofs.Lemmas.MsgQueueLedger2
/-!
# Message queue ledger: `ack`, `buildMessage`, `build`, `wake`, other peers, whole schedules
-/
namespace GS.MQ
open GS.Alloc

theorem heldInFlight_pc {s s' : State} (h : s'.pc = s.pc) : heldInFlight s' = heldInFlight s := by
  unfold heldInFlight; rw [h]

theorem getLast?_append_singleton {α : Type} (l : List α) (a : α) : (l ++ [a]).getLast? = some a := by
  simp

theorem shouldBegin_false_getLast {bs : List Builder} {size : Nat} (h : shouldBegin bs size = false) :
    ∃ b, bs.getLast? = some b := by
  unfold shouldBegin at h
  cases hl : bs.getLast? with
  | none => rw [hl] at h; simp at h
  | some b => exact ⟨b, rfl⟩

theorem mem_of_getLast? {α : Type} {l : List α} {a : α} (h : l.getLast? = some a) : a ∈ l := by
  exact List.mem_of_getLast? h

section ops
variable {pick : Pick} (hp : Admissible pick)
include hp

/-- `buildMessage(size, fn)` after the reservation of `size` bytes has been granted -/
theorem buildMessage_linv {s : State} (ticket : Nat) (tx : Tx) (size : Nat)
    (h : Led s (hb s.builders + heldInFlight s + size)) (hbi : ∀ b ∈ s.builders, BInv b)
    (hsz : (tx.who = .response → size = itemsSize tx.items) ∧ (tx.who = .request → size = 0)) :
    LInv (s.buildMessage pick ticket tx size) ∧ (s.buildMessage pick ticket tx size).pc = s.pc := by
  unfold State.buildMessage
  -- the state after possibly starting a new builder
  generalize hs0 : (if shouldBegin s.builders size = true
      then { s with builders := s.builders ++ [{ topic := s.nextTopic }], nextTopic := s.nextTopic + 1 }
      else s) = s0
  have h0 : Led s0 (hb s0.builders + heldInFlight s0 + size) ∧ (∀ b ∈ s0.builders, BInv b) ∧ s0.pc = s.pc ∧
      (∃ b, s0.builders.getLast? = some b) ∧ s0.peer = s.peer := by
    subst hs0
    split
    · next hsb =>
      refine ⟨?_, ?_, rfl, ⟨_, getLast?_append_singleton _ _⟩, rfl⟩
      · refine ⟨⟨h.1.ainv, h.1.pend, h.1.nodupW, h.1.fresh, h.1.wsize⟩, ?_⟩
        show tot s.alloc s.peer = hb (s.builders ++ [{ topic := s.nextTopic }]) + heldInFlight s + size + _
        rw [hb_append]
        have : hb [({ topic := s.nextTopic } : Builder)] = 0 := rfl
        rw [this, Nat.add_zero]; exact h.2
      · intro b hb'
        rcases List.mem_append.mp hb' with hb' | hb'
        · exact hbi b hb'
        · simp at hb'; subst hb'; exact BInv.new _
    · next hsb =>
      have : shouldBegin s.builders size = false := by simpa using hsb
      exact ⟨h, hbi, rfl, shouldBegin_false_getLast this, rfl⟩
  obtain ⟨l0, b0, pc0, ⟨b, hlast⟩, peer0⟩ := h0
  simp only
  rw [hlast]
  simp only
  obtain ⟨r1, _, r3⟩ := runFn_spec (b0 b (mem_of_getLast? hlast)) s0.closedStreams tx
  obtain ⟨sl1, sl2, _⟩ := setLast_spec s0.builders b (runFn s0.closedStreams b tx) hlast
  generalize hb' : runFn s0.closedStreams b tx = b' at r1 r3 sl1 sl2
  -- the state after the build function ran
  generalize hs1 : ({ s0 with builders := setLast s0.builders b' } : State).emit
      [Event.built ticket b.topic size (b'.accounted - b.accounted)] = s1
  have f1 : QFrame { s0 with builders := setLast s0.builders b' } s1 := by subst hs1; exact (emit_frame _ _).q
  have hs1b : s1.builders = setLast s0.builders b' := f1.builders
  have l1 : Led s1 (hb s0.builders + heldInFlight s0 + size) := by
    subst hs1
    have : Led ({ s0 with builders := setLast s0.builders b' } : State) (hb s0.builders + heldInFlight s0 + size) :=
      ⟨⟨l0.1.ainv, l0.1.pend, l0.1.nodupW, l0.1.fresh, l0.1.wsize⟩, l0.2⟩
    exact this.frame (emit_frame _ _)
  have b1 : ∀ x ∈ s1.builders, BInv x := by
    rw [hs1b]; intro x hx
    rcases sl2 x hx with rfl | hx
    · exact r1
    · exact b0 x hx
  have pc1 : s1.pc = s.pc := f1.pc.trans pc0
  have if1 : heldInFlight s1 = heldInFlight s0 := heldInFlight_pc f1.pc
  -- the release of the unused part, and the signal
  have key : ∀ s2 : State, (s2 = (if b'.accounted ≥ b.accounted ∧ b'.accounted - b.accounted < size
        then s1.release pick (size - (b'.accounted - b.accounted)) else s1)) →
      LInv s2 ∧ s2.pc = s.pc := by
    intro s2 hs2
    rcases r3 with hsame | ⟨hwho, hgrow⟩
    · -- nothing added
      have hused : b'.accounted - b.accounted = 0 := by omega
      have hhb : hb s1.builders = hb s0.builders := by rw [hs1b]; omega
      by_cases hz : size = 0
      · have : s2 = s1 := by rw [hs2]; simp [hused, hz]
        rw [this]
        refine ⟨⟨?_, b1⟩, pc1⟩
        rw [hhb, if1]; rw [hz, Nat.add_zero] at l1; exact l1
      · have : s2 = s1.release pick size := by
          rw [hs2, hused]; simp [hsame]; omega
        rw [this]
        have l2 := l1.release hp size (by omega)
        have q := release_qframe pick s1 size
        refine ⟨⟨?_, by rw [q.builders]; exact b1⟩, q.pc.trans pc1⟩
        rw [q.builders, heldInFlight_pc q.pc, hhb, if1]
        rw [show hb s0.builders + heldInFlight s0 + size - size = hb s0.builders + heldInFlight s0 by omega] at l2
        exact l2
    · -- the whole reservation was used
      have hsize : size = itemsSize tx.items := hsz.1 hwho
      have hused : b'.accounted - b.accounted = size := by omega
      have : s2 = s1 := by rw [hs2, hused]; simp
      rw [this]
      refine ⟨⟨?_, b1⟩, pc1⟩
      have hhb : hb s1.builders = hb s0.builders + size := by rw [hs1b]; omega
      rw [hhb, if1]
      have := l1
      rw [show hb s0.builders + heldInFlight s0 + size = hb s0.builders + size + heldInFlight s0 by omega] at this
      exact this
  generalize hs2 : (if b'.accounted ≥ b.accounted ∧ b'.accounted - b.accounted < size
        then s1.release pick (size - (b'.accounted - b.accounted)) else s1) = s2
  obtain ⟨k1, k2⟩ := key s2 hs2.symm
  split
  · refine ⟨⟨?_, k1.binv⟩, k2⟩
    exact ⟨⟨k1.led.1.ainv, k1.led.1.pend, k1.led.1.nodupW, k1.led.1.fresh, k1.led.1.wsize⟩, k1.led.2⟩
  · exact ⟨k1, k2⟩

/-- `buildMessage` as seen by callers: on a closed queue the message is failed at once -/
theorem buildMsg_linv {s : State} (ticket : Nat) (tx : Tx) (size : Nat)
    (h : Led s (hb s.builders + heldInFlight s + size)) (hbi : ∀ b ∈ s.builders, BInv b)
    (hsz : (tx.who = .response → size = itemsSize tx.items) ∧ (tx.who = .request → size = 0)) :
    LInv (s.buildMsg pick ticket tx size) ∧ (s.buildMsg pick ticket tx size).pc = s.pc := by
  obtain ⟨k1, k2⟩ := buildMessage_linv hp ticket tx size h hbi hsz
  unfold State.buildMsg
  split
  · next hc =>
    have hif : heldInFlight (s.buildMessage pick ticket tx size) = 0 :=
      heldInFlight_closed (by rw [closed_pc k2]; exact hc)
    obtain ⟨d1, d2, d3⟩ := drain_led hp 1 _ (by have := k1.led; rwa [hif, Nat.add_zero] at this) k1.binv
    refine ⟨⟨?_, d2⟩, d3.trans k2⟩
    rw [heldInFlight_pc d3, hif, Nat.add_zero]; exact d1
  · exact ⟨k1, k2⟩

omit hp in
theorem unanswered_append (a b : List Waiter) : unanswered (a ++ b) = unanswered a ++ unanswered b := by
  unfold unanswered; rw [List.filter_append, List.map_append]

omit hp in
theorem grantedBytes_append (a b : List Waiter) : grantedBytes (a ++ b) = grantedBytes a + grantedBytes b := by
  unfold grantedBytes; rw [List.filter_append, List.map_append, sumNat_append]

/-- the part of `State.build` after the closed-stream check, with the reservation size as a parameter -/
def buildWith (pick : Pick) (s : State) (tx : Tx) (size : Nat) : State :=
  let ticket := s.nextTicket
  let s := { s with nextTicket := ticket + 1 }
  if size == 0 then s.buildMsg pick ticket tx 0
  else
    let (s, evs) := s.allocStep pick (.alloc s.peer size ticket)
    if evs.contains (.granted s.peer ticket size) then s.buildMsg pick ticket tx size
    else { s with waiters := s.waiters ++ [{ ticket, tx, size }] }

omit hp in
/-- `AllocateAndBuildMessage` as it was BEFORE the fix (no `closed` check: the transaction is queued
    on a builder nobody will ever extract) -/
def buildOld (pick : Pick) (s : State) (tx : Tx) : State :=
  if tx.who == .response && s.closedStreams.contains tx.req then s
  else
    let size := match tx.who with | .response => itemsSize tx.items | .request => 0
    let ticket := s.nextTicket
    let s := { s with nextTicket := ticket + 1 }
    if size == 0 then s.buildMessage pick ticket tx 0
    else
      let (s, evs) := s.allocStep pick (.alloc s.peer size ticket)
      if evs.contains (.granted s.peer ticket size) then s.buildMessage pick ticket tx size
      else { s with waiters := s.waiters ++ [{ ticket, tx, size }] }

omit hp in
theorem build_eq (s : State) (tx : Tx) :
    s.build pick tx = if tx.who == .response && s.closedStreams.contains tx.req then s
      else buildWith pick s tx (match tx.who with | .response => itemsSize tx.items | .request => 0) := rfl

theorem buildWith_linv {s : State} (h : LInv s) (tx : Tx) (size : Nat)
    (hsz : (tx.who = .response → size = itemsSize tx.items) ∧ (tx.who = .request → size = 0)) :
    LInv (buildWith pick s tx size) ∧ (buildWith pick s tx size).pc = s.pc := by
  have c0 : Coupled ({ s with nextTicket := s.nextTicket + 1 } : State) :=
    ⟨h.led.1.ainv, h.led.1.pend, h.led.1.nodupW, fun w hw => Nat.lt_succ_of_lt (h.led.1.fresh w hw),
      h.led.1.wsize⟩
  unfold buildWith
  simp only
  by_cases hz : size = 0
  · subst hz
    simp only [beq_self_eq_true, if_true]
    apply buildMsg_linv hp
    · exact ⟨c0, by have := h.led.2; rw [Nat.add_zero]; exact this⟩
    · exact h.binv
    · exact hsz
  · have hb0 : (size == 0) = false := by simp [hz]
    simp only [hb0, Bool.false_eq_true, if_false]
    have hwho : tx.who = .response ∧ size = itemsSize tx.items := by
      cases hw : tx.who with
      | response => exact ⟨rfl, hsz.1 hw⟩
      | request => exact absurd (hsz.2 hw) hz
    have hv := view hp h.led.1.ainv (.alloc s.peer size s.nextTicket) s.peer
    have hfresh : s.nextTicket ∉ s.waiters.map (·.ticket) := by
      intro hm
      obtain ⟨w, hw, he⟩ := List.mem_map.mp hm
      have := h.led.1.fresh w hw
      omega
    rcases alloc_own (pick := pick) h.led.1.ainv s.peer size s.nextTicket with ⟨hev, hpd⟩ | ⟨hev, hpd⟩
    · -- granted at once
      have hws : answerWaiters s.peer s.waiters (Alloc.step pick s.alloc (.alloc s.peer size s.nextTicket)).2 = s.waiters := by
        rw [hev, answerWaiters_cons, answerWaiters_nil]
        simp only [beq_self_eq_true, if_true]
        exact mark_absent _ _ _ hfresh
      have hled := hv.ledger
      rw [hev] at hled
      simp only [releasedSum, grantsOf, if_true, amounts, List.map_cons, List.map_nil, sumNat_cons, sumNat_nil] at hled
      have hc : (State.allocStep pick ({ s with nextTicket := s.nextTicket + 1 } : State) (.alloc s.peer size s.nextTicket)).2
          = [Alloc.Event.granted s.peer s.nextTicket size] := hev
      rw [hc]
      rw [if_pos (by
        show ([Alloc.Event.granted s.peer s.nextTicket size].contains (Alloc.Event.granted s.peer s.nextTicket size)) = true
        simp)]
      apply buildMsg_linv hp
      · refine ⟨⟨hv.inv, ?_, ?_, ?_, ?_⟩, ?_⟩
        · show pendTA (Alloc.step pick s.alloc _).1 s.peer = unanswered (answerWaiters s.peer s.waiters _)
          rw [hws, hpd]; exact h.led.1.pend
        · show ((answerWaiters s.peer s.waiters _).map (·.ticket)).Nodup
          rw [hws]; exact h.led.1.nodupW
        · show ∀ w ∈ answerWaiters s.peer s.waiters _, w.ticket < s.nextTicket + 1
          rw [hws]; exact c0.fresh
        · show ∀ w ∈ answerWaiters s.peer s.waiters _, _
          rw [hws]; exact h.led.1.wsize
        · show tot (Alloc.step pick s.alloc _).1 s.peer = hb s.builders + heldInFlight s + size + grantedBytes (answerWaiters s.peer s.waiters _)
          rw [hws]
          have := h.led.2
          simp only [Nat.add_zero, tot] at hled this ⊢
          omega
      · exact h.binv
      · exact ⟨fun _ => hwho.2, fun hw => by rw [hwho.1] at hw; cases hw⟩
    · -- deferred: the caller waits
      have hws : answerWaiters s.peer s.waiters (Alloc.step pick s.alloc (.alloc s.peer size s.nextTicket)).2 = s.waiters := by
        rw [hev]; rfl
      have hled := hv.ledger
      rw [hev] at hled
      simp only [releasedSum, grantsOf, amounts, List.map_nil, sumNat_nil, Nat.add_zero] at hled
      have hc : (State.allocStep pick ({ s with nextTicket := s.nextTicket + 1 } : State) (.alloc s.peer size s.nextTicket)).2
          = [] := hev
      rw [hc]
      rw [if_neg (by simp)]
      refine ⟨⟨⟨⟨hv.inv, ?_, ?_, ?_, ?_⟩, ?_⟩, h.binv⟩, rfl⟩
      · show pendTA (Alloc.step pick s.alloc _).1 s.peer = unanswered (answerWaiters s.peer s.waiters _ ++ [_])
        rw [hws, hpd, unanswered_append, h.led.1.pend]; rfl
      · show ((answerWaiters s.peer s.waiters _ ++ [_]).map (fun w : Waiter => w.ticket)).Nodup
        rw [hws, List.map_append, List.nodup_append]
        refine ⟨h.led.1.nodupW, by simp, ?_⟩
        intro a ha b hb'
        simp at hb'; subst hb'
        intro hab; subst hab; exact hfresh ha
      · show ∀ w ∈ answerWaiters s.peer s.waiters _ ++ [_], w.ticket < s.nextTicket + 1
        rw [hws]; intro w hw
        rcases List.mem_append.mp hw with hw | hw
        · exact c0.fresh w hw
        · simp at hw; subst hw; exact Nat.lt_succ_self _
      · show ∀ w ∈ answerWaiters s.peer s.waiters _ ++ [_], _
        rw [hws]; intro w hw
        rcases List.mem_append.mp hw with hw | hw
        · exact h.led.1.wsize w hw
        · simp at hw; subst hw; exact hwho
      · show tot (Alloc.step pick s.alloc _).1 s.peer = hb s.builders + heldInFlight s + grantedBytes (answerWaiters s.peer s.waiters _ ++ [_])
        rw [hws, grantedBytes_append]
        have := h.led.2
        have e : grantedBytes [({ ticket := s.nextTicket, tx := tx, size := size } : Waiter)] = 0 := rfl
        rw [e]
        simp only [tot] at hled this ⊢
        omega

/-- `AllocateAndBuildMessage` -/
theorem build_linv {s : State} (h : LInv s) (tx : Tx) : LInv (s.build pick tx) ∧ (s.build pick tx).pc = s.pc := by
  rw [build_eq]
  split
  · exact ⟨h, rfl⟩
  · apply buildWith_linv hp h
    constructor
    · intro hw; rw [hw]
    · intro hw; rw [hw]

end ops

end GS.MQ
