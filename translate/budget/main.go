// Command budget regenerates lean/GS/Generated/Budget.lean (property C07) from
//
//	ipldutil/traverser.go (start)                 shape of the root budget check (order of decrement
//	                                              and test, comparison, amount), that it precedes the
//	                                              root load, and that the same counter goes to WalkAdv
//	go-ipld-prime traversal/walk.go               shape of checkLinkBudget (pinned dependency)
//	requestmanager/server.go (requestTask)        choice between global and per-request limit, the
//	responsemanager/server.go (taskDataForKey)    "has a budget" guard, the uint64 -> int64 conversion
//
// usage: go run ./budget <repo>      (prints the Lean file; exits non-zero on syntax it does not know)
package main

import (
	"fmt"
	"go/ast"
	"go/parser"
	"go/token"
	"os"
	"os/exec"
	"path/filepath"
	"strconv"
	"strings"
)

var fset = token.NewFileSet()

func die(pos token.Pos, format string, a ...interface{}) {
	where := ""
	if pos.IsValid() {
		where = fset.Position(pos).String() + ": "
	}
	fmt.Fprintf(os.Stderr, "budget: %s%s\n", where, fmt.Sprintf(format, a...))
	os.Exit(1)
}

func parseFile(path string) *ast.File {
	f, err := parser.ParseFile(fset, path, nil, parser.SkipObjectResolution)
	if err != nil {
		die(token.NoPos, "parse %s: %v", path, err)
	}
	return f
}

func src(n ast.Node) string {
	b, _ := os.ReadFile(fset.Position(n.Pos()).Filename)
	return string(b[fset.Position(n.Pos()).Offset:fset.Position(n.End()).Offset])
}

func findMethod(f *ast.File, name string) *ast.FuncDecl {
	for _, d := range f.Decls {
		if fd, ok := d.(*ast.FuncDecl); ok && fd.Name.Name == name && fd.Body != nil {
			return fd
		}
	}
	die(f.Pos(), "function %s not found", name)
	return nil
}

func leanInt(v int64) string {
	if v < 0 {
		return fmt.Sprintf("(%d)", v)
	}
	return fmt.Sprintf("%d", v)
}

// isLinkBudget: <anything>.LinkBudget
func isLinkBudget(e ast.Expr) bool {
	se, ok := e.(*ast.SelectorExpr)
	return ok && se.Sel.Name == "LinkBudget"
}

func intLit(e ast.Expr) (int64, bool) {
	switch x := e.(type) {
	case *ast.BasicLit:
		if x.Kind == token.INT {
			v, err := strconv.ParseInt(x.Value, 0, 64)
			return v, err == nil
		}
	case *ast.UnaryExpr:
		if x.Op == token.SUB {
			v, ok := intLit(x.X)
			return -v, ok
		}
	case *ast.ParenExpr:
		return intLit(x.X)
	}
	return 0, false
}

var cmpNames = map[token.Token]string{token.LEQ: "le", token.LSS: "lt", token.EQL: "eq", token.GEQ: "ge", token.GTR: "gt", token.NEQ: "ne"}

// containsBudgetError: the block raises ErrBudgetExceeded and leaves the function
func raisesBudgetError(b *ast.BlockStmt) bool {
	found, returns := false, false
	ast.Inspect(b, func(n ast.Node) bool {
		switch x := n.(type) {
		case *ast.CompositeLit:
			switch t := x.Type.(type) {
			case *ast.SelectorExpr:
				if t.Sel.Name == "ErrBudgetExceeded" {
					found = true
				}
			case *ast.Ident:
				if t.Name == "ErrBudgetExceeded" {
					found = true
				}
			}
		case *ast.ReturnStmt:
			returns = true
		}
		return true
	})
	return found && returns
}

// budgetSteps: the statements of a `if <budget> != nil { … }` block as Lean `Step`s
func budgetSteps(stmts []ast.Stmt) []string {
	var out []string
	for _, st := range stmts {
		switch x := st.(type) {
		case *ast.IncDecStmt:
			if !isLinkBudget(x.X) {
				die(st.Pos(), "unsupported statement in budget check: %s", src(st))
			}
			if x.Tok == token.DEC {
				out = append(out, "Step.dec 1")
			} else {
				out = append(out, "Step.dec (-1)")
			}
		case *ast.AssignStmt:
			if len(x.Lhs) != 1 || len(x.Rhs) != 1 || !isLinkBudget(x.Lhs[0]) {
				die(st.Pos(), "unsupported statement in budget check: %s", src(st))
			}
			k, ok := intLit(x.Rhs[0])
			if !ok {
				die(st.Pos(), "unsupported statement in budget check: %s", src(st))
			}
			switch x.Tok {
			case token.SUB_ASSIGN:
				out = append(out, "Step.dec "+leanInt(k))
			case token.ADD_ASSIGN:
				out = append(out, "Step.dec "+leanInt(-k))
			default:
				die(st.Pos(), "unsupported statement in budget check: %s", src(st))
			}
		case *ast.IfStmt:
			be, ok := x.Cond.(*ast.BinaryExpr)
			if !ok || x.Init != nil || x.Else != nil || !isLinkBudget(be.X) || !raisesBudgetError(x.Body) {
				die(st.Pos(), "unsupported statement in budget check: %s", src(st))
			}
			k, ok := intLit(be.Y)
			name, ok2 := cmpNames[be.Op]
			if !ok || !ok2 {
				die(st.Pos(), "unsupported comparison in budget check: %s", src(x.Cond))
			}
			out = append(out, fmt.Sprintf("Step.failIf Cmp.%s %s", name, leanInt(k)))
		default:
			die(st.Pos(), "unsupported statement in budget check: %s", src(st))
		}
	}
	return out
}

// isNotNil: `<x>.budget != nil` / `prog.Budget != nil`
func isBudgetNotNil(e ast.Expr) bool {
	be, ok := e.(*ast.BinaryExpr)
	if !ok || be.Op != token.NEQ {
		return false
	}
	id, ok := be.Y.(*ast.Ident)
	if !ok || id.Name != "nil" {
		return false
	}
	se, ok := be.X.(*ast.SelectorExpr)
	return ok && (se.Sel.Name == "budget" || se.Sel.Name == "Budget")
}

// ------------------------------------------------------------------ ipldutil/traverser.go

type rootInfo struct {
	steps      []string
	beforeLoad bool
	shared     bool
}

func extractRoot(f *ast.File) rootInfo {
	fd := findMethod(f, "start")
	var goBody *ast.BlockStmt
	for _, st := range fd.Body.List {
		if g, ok := st.(*ast.GoStmt); ok {
			if fl, ok := g.Call.Fun.(*ast.FuncLit); ok {
				goBody = fl.Body
			}
		}
	}
	if goBody == nil {
		die(fd.Pos(), "start: `go func() {…}()` not found")
	}
	var ri rootInfo
	checkAt, loadAt := -1, -1
	for i, st := range goBody.List {
		if ifs, ok := st.(*ast.IfStmt); ok && isBudgetNotNil(ifs.Cond) {
			if checkAt >= 0 {
				die(st.Pos(), "start: two budget blocks")
			}
			if ifs.Else != nil || ifs.Init != nil {
				die(st.Pos(), "start: unsupported budget block")
			}
			checkAt = i
			ri.steps = budgetSteps(ifs.Body.List)
			continue
		}
		// the root load: <x>.linkSystem.Load(…, t.root, …)
		ast.Inspect(st, func(n ast.Node) bool {
			c, ok := n.(*ast.CallExpr)
			if !ok {
				return true
			}
			se, ok := c.Fun.(*ast.SelectorExpr)
			if ok && se.Sel.Name == "Load" && loadAt < 0 {
				for _, a := range c.Args {
					if ase, ok := a.(*ast.SelectorExpr); ok && ase.Sel.Name == "root" {
						loadAt = i
					}
				}
			}
			// Progress{…, Budget: t.budget}
			if cl, ok := n.(*ast.CompositeLit); ok {
				_ = cl
			}
			return true
		})
		ast.Inspect(st, func(n ast.Node) bool {
			cl, ok := n.(*ast.CompositeLit)
			if !ok {
				return true
			}
			if se, ok := cl.Type.(*ast.SelectorExpr); !ok || se.Sel.Name != "Progress" {
				return true
			}
			for _, el := range cl.Elts {
				kv, ok := el.(*ast.KeyValueExpr)
				if !ok {
					continue
				}
				if k, ok := kv.Key.(*ast.Ident); ok && k.Name == "Budget" {
					if v, ok := kv.Value.(*ast.SelectorExpr); ok && v.Sel.Name == "budget" {
						ri.shared = true
					} else {
						die(kv.Pos(), "start: WalkAdv is given a budget other than the traverser's own: %s", src(kv.Value))
					}
				}
			}
			return true
		})
	}
	if loadAt < 0 {
		die(fd.Pos(), "start: root load not found")
	}
	if !ri.shared {
		// no `Budget:` field in the Progress literal: fine (unbudgeted walk) unless the field is set elsewhere
		ast.Inspect(goBody, func(n ast.Node) bool {
			if as, ok := n.(*ast.AssignStmt); ok {
				for _, l := range as.Lhs {
					if se, ok := l.(*ast.SelectorExpr); ok && se.Sel.Name == "Budget" {
						die(as.Pos(), "start: the walk's budget is assigned outside the Progress literal (%s): not understood", src(as))
					}
				}
			}
			return true
		})
	}
	if checkAt < 0 {
		// no root check at all: the empty step list
		ri.steps = nil
		ri.beforeLoad = true
	} else {
		ri.beforeLoad = checkAt < loadAt
	}
	return ri
}

// ------------------------------------------------------------------ go-ipld-prime checkLinkBudget

func extractLinkCheck(repo string) []string {
	cmd := exec.Command("go", "list", "-m", "-f", "{{.Dir}}", "github.com/ipld/go-ipld-prime")
	cmd.Dir = repo
	cmd.Stderr = os.Stderr
	out, err := cmd.Output()
	if err != nil {
		die(token.NoPos, "cannot locate go-ipld-prime: %v", err)
	}
	lines := strings.Split(strings.TrimSpace(string(out)), "\n")
	dir := strings.TrimSpace(lines[len(lines)-1])
	f := parseFile(filepath.Join(dir, "traversal", "walk.go"))
	fd := findMethod(f, "checkLinkBudget")
	if len(fd.Body.List) != 2 {
		die(fd.Pos(), "checkLinkBudget: unexpected shape")
	}
	ifs, ok := fd.Body.List[0].(*ast.IfStmt)
	if !ok || !isBudgetNotNil(ifs.Cond) || ifs.Else != nil {
		die(fd.Pos(), "checkLinkBudget: unexpected shape")
	}
	if r, ok := fd.Body.List[1].(*ast.ReturnStmt); !ok || len(r.Results) != 1 {
		die(fd.Pos(), "checkLinkBudget: unexpected shape")
	}
	// loadLink must charge before it loads
	ll := findMethod(f, "loadLink")
	first, ok := ll.Body.List[0].(*ast.IfStmt)
	okc := false
	if ok && first.Init != nil {
		if as, ok := first.Init.(*ast.AssignStmt); ok && len(as.Rhs) == 1 {
			if c, ok := as.Rhs[0].(*ast.CallExpr); ok {
				if se, ok := c.Fun.(*ast.SelectorExpr); ok && se.Sel.Name == "checkLinkBudget" {
					okc = true
				}
			}
		}
	}
	if !okc {
		die(ll.Pos(), "loadLink does not start with the checkLinkBudget call")
	}
	return budgetSteps(ifs.Body.List)
}

// ------------------------------------------------------------------ the two server.go files

type pickInfo struct {
	cond  string // Lean Bool over g p
	guard string // Lean Bool over m
	clamp bool
}

// expr over the identifiers the selection uses; vars maps Go spellings to Lean names
func boolExpr(e ast.Expr, num func(ast.Expr) (string, bool)) string {
	switch x := e.(type) {
	case *ast.ParenExpr:
		return "(" + boolExpr(x.X, num) + ")"
	case *ast.UnaryExpr:
		if x.Op == token.NOT {
			return "(!" + boolExpr(x.X, num) + ")"
		}
	case *ast.BinaryExpr:
		switch x.Op {
		case token.LOR:
			return "(" + boolExpr(x.X, num) + " || " + boolExpr(x.Y, num) + ")"
		case token.LAND:
			return "(" + boolExpr(x.X, num) + " && " + boolExpr(x.Y, num) + ")"
		case token.EQL, token.NEQ, token.LSS, token.GTR, token.LEQ, token.GEQ:
			a, ok1 := num(x.X)
			b, ok2 := num(x.Y)
			if ok1 && ok2 {
				op := map[token.Token]string{token.EQL: "==", token.NEQ: "!=", token.LSS: "<", token.GTR: ">", token.LEQ: "≤", token.GEQ: "≥"}[x.Op]
				if x.Op == token.EQL || x.Op == token.NEQ {
					return fmt.Sprintf("(%s %s %s)", a, op, b)
				}
				return fmt.Sprintf("decide (%s %s %s)", a, op, b)
			}
		}
	}
	die(e.Pos(), "unsupported expression in budget selection: %s", src(e))
	return ""
}

func extractPick(f *ast.File, fn string) pickInfo {
	fd := findMethod(f, fn)
	var pi pickInfo
	found := false
	ast.Inspect(fd.Body, func(n ast.Node) bool {
		blk, ok := n.(*ast.BlockStmt)
		if !ok || found {
			return !found
		}
		for i, st := range blk.List {
			as, ok := st.(*ast.AssignStmt)
			if !ok || as.Tok != token.DEFINE || len(as.Lhs) != 1 || len(as.Rhs) != 1 {
				continue
			}
			lhs, ok := as.Lhs[0].(*ast.Ident)
			rhs, ok2 := as.Rhs[0].(*ast.SelectorExpr)
			if !ok || !ok2 || rhs.Sel.Name != "maxLinksPerRequest" {
				continue
			}
			v := lhs.Name // "maxLinks"
			if i+2 >= len(blk.List) {
				die(st.Pos(), "%s: budget selection: statements missing after %s", fn, src(st))
			}
			found = true
			// if COND { v = X.maxLinks }
			ifs, ok := blk.List[i+1].(*ast.IfStmt)
			if !ok || ifs.Init != nil || ifs.Else != nil || len(ifs.Body.List) != 1 {
				die(blk.List[i+1].Pos(), "%s: expected `if … { %s = <request>.maxLinks }`", fn, v)
			}
			as2, ok := ifs.Body.List[0].(*ast.AssignStmt)
			okb := ok && as2.Tok == token.ASSIGN && len(as2.Lhs) == 1 && len(as2.Rhs) == 1
			if okb {
				l, ok1 := as2.Lhs[0].(*ast.Ident)
				r, ok2 := as2.Rhs[0].(*ast.SelectorExpr)
				okb = ok1 && ok2 && l.Name == v && r.Sel.Name == "maxLinks"
			}
			if !okb {
				die(ifs.Body.Pos(), "%s: expected `%s = <request>.maxLinks`", fn, v)
			}
			numGP := func(e ast.Expr) (string, bool) {
				switch x := e.(type) {
				case *ast.Ident:
					if x.Name == v {
						return "g", true
					}
				case *ast.SelectorExpr:
					if x.Sel.Name == "maxLinks" {
						return "p", true
					}
					if x.Sel.Name == "maxLinksPerRequest" {
						return "g", true
					}
				case *ast.BasicLit:
					if x.Kind == token.INT {
						return x.Value, true
					}
				}
				return "", false
			}
			pi.cond = boolExpr(ifs.Cond, numGP)
			// if v > 0 { [clamp]; budget = &traversal.Budget{…, LinkBudget: int64(v)} }
			g, ok := blk.List[i+2].(*ast.IfStmt)
			if !ok || g.Init != nil || g.Else != nil {
				die(blk.List[i+2].Pos(), "%s: expected `if %s > 0 { budget = … }`", fn, v)
			}
			numM := func(e ast.Expr) (string, bool) {
				switch x := e.(type) {
				case *ast.Ident:
					if x.Name == v {
						return "m", true
					}
				case *ast.BasicLit:
					if x.Kind == token.INT {
						return x.Value, true
					}
				}
				return "", false
			}
			pi.guard = boolExpr(g.Cond, numM)
			body := g.Body.List
			if len(body) == 2 {
				// if v > math.MaxInt64 { v = math.MaxInt64 }
				c, ok := body[0].(*ast.IfStmt)
				okc := ok && c.Init == nil && c.Else == nil && len(c.Body.List) == 1
				if okc {
					be, ok := c.Cond.(*ast.BinaryExpr)
					okc = ok && be.Op == token.GTR && src(be.X) == v && src(be.Y) == "math.MaxInt64"
					ca, ok := c.Body.List[0].(*ast.AssignStmt)
					okc = okc && ok && ca.Tok == token.ASSIGN && len(ca.Lhs) == 1 && len(ca.Rhs) == 1 && src(ca.Lhs[0]) == v && src(ca.Rhs[0]) == "math.MaxInt64"
				}
				if !okc {
					die(body[0].Pos(), "%s: unsupported statement before the budget assignment: %s", fn, src(body[0]))
				}
				pi.clamp = true
				body = body[1:]
			}
			if len(body) != 1 {
				die(g.Body.Pos(), "%s: unsupported budget construction", fn)
			}
			ba, ok := body[0].(*ast.AssignStmt)
			okb = ok && len(ba.Lhs) == 1 && len(ba.Rhs) == 1 && src(ba.Lhs[0]) == "budget"
			var lit *ast.CompositeLit
			if okb {
				u, ok := ba.Rhs[0].(*ast.UnaryExpr)
				okb = ok && u.Op == token.AND
				if okb {
					lit, okb = u.X.(*ast.CompositeLit)
				}
			}
			if !okb {
				die(body[0].Pos(), "%s: expected `budget = &traversal.Budget{…}`", fn)
			}
			okLB := false
			for _, el := range lit.Elts {
				kv, ok := el.(*ast.KeyValueExpr)
				if !ok {
					die(el.Pos(), "%s: unkeyed Budget literal", fn)
				}
				switch src(kv.Key) {
				case "LinkBudget":
					if src(kv.Value) != "int64("+v+")" {
						die(kv.Pos(), "%s: LinkBudget: expected int64(%s), got %s", fn, v, src(kv.Value))
					}
					okLB = true
				case "NodeBudget":
					if src(kv.Value) != "math.MaxInt64" {
						die(kv.Pos(), "%s: NodeBudget is limited (%s): not modelled", fn, src(kv.Value))
					}
				default:
					die(kv.Pos(), "%s: unknown Budget field %s", fn, src(kv.Key))
				}
			}
			if !okLB {
				die(lit.Pos(), "%s: Budget literal without LinkBudget", fn)
			}
			return false
		}
		return true
	})
	if !found {
		die(fd.Pos(), "%s: `maxLinks := <manager>.maxLinksPerRequest` not found", fn)
	}
	// the budget variable must reach the TraversalBuilder
	reaches := false
	ast.Inspect(fd.Body, func(n ast.Node) bool {
		kv, ok := n.(*ast.KeyValueExpr)
		if ok && src(kv.Key) == "Budget" && src(kv.Value) == "budget" {
			reaches = true
		}
		return true
	})
	if !reaches {
		die(fd.Pos(), "%s: `Budget: budget` not passed to the TraversalBuilder", fn)
	}
	return pi
}

func main() {
	if len(os.Args) != 2 {
		fmt.Fprintln(os.Stderr, "usage: budget <repo>")
		os.Exit(2)
	}
	repo := os.Args[1]
	ri := extractRoot(parseFile(filepath.Join(repo, "ipldutil", "traverser.go")))
	link := extractLinkCheck(repo)
	rq := extractPick(parseFile(filepath.Join(repo, "requestmanager", "server.go")), "requestTask")
	rs := extractPick(parseFile(filepath.Join(repo, "responsemanager", "server.go")), "taskDataForKey")
	b := func(v bool) string {
		if v {
			return "true"
		}
		return "false"
	}
	var o strings.Builder
	o.WriteString("/-\nGENERATED by /verif/translate/budget from the go-graphsync sources — do not edit.\n")
	o.WriteString("  ipldutil/traverser.go start                : rootCheck, rootCheckBeforeLoad, sharedCounter\n")
	o.WriteString("  go-ipld-prime traversal/walk.go            : linkCheck (checkLinkBudget; loadLink charges before loading)\n")
	o.WriteString("  requestmanager/server.go requestTask       : requestorPick / requestorGuard / requestorClamp\n")
	o.WriteString("  responsemanager/server.go taskDataForKey   : responderPick / responderGuard / responderClamp\n-/\n")
	o.WriteString("import GS.Model.Budget\nnamespace GS.Generated.Budget\nopen GS.Budget\n\n")
	o.WriteString("/-- statements of `if t.budget != nil { … }` in traverser.start, in source order -/\n")
	o.WriteString("def rootCheck : List Step := [" + strings.Join(ri.steps, ", ") + "]\n")
	o.WriteString("/-- the block stands before `t.linkSystem.Load(…, t.root, …)` -/\n")
	o.WriteString("def rootCheckBeforeLoad : Bool := " + b(ri.beforeLoad) + "\n")
	o.WriteString("/-- `Progress{…, Budget: t.budget}`: WalkAdv continues on the same counter -/\n")
	o.WriteString("def sharedCounter : Bool := " + b(ri.shared) + "\n\n")
	o.WriteString("/-- statements of `if prog.Budget != nil { … }` in go-ipld-prime's checkLinkBudget -/\n")
	o.WriteString("def linkCheck : List Step := [" + strings.Join(link, ", ") + "]\n\n")
	for _, x := range []struct {
		name string
		pi   pickInfo
	}{{"requestor", rq}, {"responder", rs}} {
		o.WriteString(fmt.Sprintf("/-- `maxLinks := rm.maxLinksPerRequest; if … { maxLinks = <request>.maxLinks }` (g = global, p = per request) -/\n"))
		o.WriteString(fmt.Sprintf("def %sPick (g p : Nat) : Nat := if %s then p else g\n", x.name, x.pi.cond))
		o.WriteString(fmt.Sprintf("/-- `if … { budget = &traversal.Budget{…} }`: otherwise the budget stays nil -/\n"))
		o.WriteString(fmt.Sprintf("def %sGuard (m : Nat) : Bool := %s\n", x.name, x.pi.guard))
		o.WriteString(fmt.Sprintf("/-- `if maxLinks > math.MaxInt64 { maxLinks = math.MaxInt64 }` present before `int64(maxLinks)` -/\n"))
		o.WriteString(fmt.Sprintf("def %sClamp : Bool := %s\n\n", x.name, b(x.pi.clamp)))
	}
	o.WriteString("end GS.Generated.Budget\n")
	fmt.Print(o.String())
}
