// Package peermgr drives the real peermanager.PeerManager (component "peermgr", property C17) with a
// fake PeerProcess factory.  The fake's Shutdown() blocks until the script says `shutret` (this is
// the window between Disconnected removing the table entry and the process being told to stop),
// and a process "exits" -- runs the onShutdown callback the manager gave it -- when the script says
// `exit <q>`.
package peermgr

import (
	"bufio"
	"context"
	"fmt"
	"math/rand"
	"sort"
	"strconv"
	"strings"
	"time"

	"github.com/ipfs/go-graphsync/peermanager"
	"github.com/libp2p/go-libp2p/core/peer"

	"verifharness/reg"
)

func init() {
	reg.Register(&reg.Component{Name: "peermgr", Gen: Gen, Run: Run})
}

// ---------------------------------------------------------------- generator

func genCase(r *rand.Rand, w *bufio.Writer, id string, n int) {
	fmt.Fprintf(w, "case %s\n", id)
	created := 0
	for i := 0; i < n; i++ {
		p := r.Intn(2)
		if r.Intn(4) > 0 {
			p = 0
		}
		switch k := r.Intn(100); {
		case k < 22:
			fmt.Fprintf(w, "conn %d\n", p)
			created++
		case k < 44:
			fmt.Fprintf(w, "disc %d\n", p)
		case k < 60:
			fmt.Fprintf(w, "shutret\n")
		case k < 80:
			fmt.Fprintf(w, "get %d\n", p)
			created++
		case k < 85:
			fmt.Fprintf(w, "self %d\n", r.Intn(created+1))
		default:
			fmt.Fprintf(w, "exit %d\n", r.Intn(created+1))
		}
	}
}

var alphabet = []string{"conn 0", "disc 0", "shutret", "get 0", "exit 0", "exit 1", "exit 2", "self 1", "conn 1", "disc 1", "get 1"}

// Gen: random schedules, plus every schedule of length <= 5 (quick) / <= 6 (thorough) over an
// 11-letter alphabet (2 peers, the first three processes).
func Gen(seed int64, n int, tier string, w *bufio.Writer) {
	r := rand.New(rand.NewSource(seed))
	for i := 0; i < n; i++ {
		genCase(r, w, fmt.Sprintf("r%d", i), 3+r.Intn(18))
	}
	depth := 5
	if tier == "thorough" {
		depth = 6
	}
	k := 0
	var rec func(prefix []string, d int)
	rec = func(prefix []string, d int) {
		if d == 0 {
			fmt.Fprintf(w, "case x%d\n%s\n", k, strings.Join(prefix, "\n"))
			k++
			return
		}
		for _, a := range alphabet {
			// prune: an exit/self of a process that cannot exist yet
			if strings.HasPrefix(a, "exit") || strings.HasPrefix(a, "self") {
				q, _ := strconv.Atoi(a[5:])
				made := 0
				for _, x := range prefix {
					if strings.HasPrefix(x, "conn") || strings.HasPrefix(x, "get") {
						made++
					}
				}
				if q >= made {
					continue
				}
			}
			rec(append(append([]string{}, prefix...), a), d-1)
		}
	}
	rec(nil, depth)
}

// ---------------------------------------------------------------- run + oracle

type proc struct {
	id       int
	p        int
	e        *env
	onExit   func(peer.ID)
	started  bool
	shutdown bool // Shutdown() called (or shut itself down)
	pending  bool // manager is inside Shutdown() of this process
	exited   bool
	rel      chan struct{}
}

func (f *proc) Startup() { f.started = true }

// one call of Shutdown() by the manager
type shutCall struct {
	f   *proc
	rel chan struct{}
}

func (f *proc) Shutdown() {
	f.pending = true
	c := &shutCall{f: f, rel: make(chan struct{})}
	f.e.arrive <- c
	<-c.rel
	f.pending = false
	f.shutdown = true
}

type env struct {
	pm      *peermanager.PeerManager
	procs   []*proc
	arrive  chan *shutCall
	release chan struct{}
	blocked []*blockedCall
	conns   map[int]int
	seen    []int
}

type blockedCall struct {
	call   *shutCall
	f      *proc
	done   chan struct{}
	p      int
	last   bool // by the harness's own count of Connected/Disconnected this is the last disconnect
	nProcs int  // processes that existed when Disconnected was called
}

func pid(i int) peer.ID { return peer.ID(fmt.Sprintf("verif-peer-%d", i)) }

func joinInts(xs []int) string {
	ss := make([]string, len(xs))
	for i, x := range xs {
		ss[i] = strconv.Itoa(x)
	}
	return strings.Join(ss, ",")
}

func Run(cases []reg.Case, out *reg.Out) {
	for _, c := range cases {
		out.BeginCase(c)
		runCase(c, out)
	}
}

func runCase(c reg.Case, out *reg.Out) {
	e := &env{arrive: make(chan *shutCall), release: make(chan struct{}), conns: map[int]int{}}
	e.pm = peermanager.New(context.Background(), func(ctx context.Context, p peer.ID, onShutdown func(peer.ID)) peermanager.PeerHandler {
		pi := -1
		fmt.Sscanf(string(p), "verif-peer-%d", &pi)
		f := &proc{id: len(e.procs), p: pi, e: e, onExit: onShutdown, rel: make(chan struct{})}
		e.procs = append(e.procs, f)
		return f
	})
	see := func(p int) {
		for _, x := range e.seen {
			if x == p {
				return
			}
		}
		e.seen = append(e.seen, p)
		sort.Ints(e.seen)
	}
	for _, op := range c.Ops {
		out.Cov("op." + op[0])
		nProcs := len(e.procs)
		wasShut := map[int]bool{}
		for _, f := range e.procs {
			wasShut[f.id] = f.shutdown || f.exited
		}
		ret := "-"
		arg := -1
		if len(op) > 1 {
			a, err := strconv.Atoi(op[1])
			if err != nil {
				out.Line("bad-op")
				continue
			}
			arg = a
		}
		var finishedDisc *blockedCall
		switch {
		case op[0] == "conn" && arg >= 0:
			e.pm.Connected(pid(arg))
			e.conns[arg]++
			see(arg)
		case op[0] == "disc" && arg >= 0:
			see(arg)
			e.conns[arg]--
			bc := &blockedCall{done: make(chan struct{}), p: arg, last: e.conns[arg] <= 0, nProcs: len(e.procs)}
			if e.conns[arg] < 0 {
				e.conns[arg] = 0
			}
			go func() {
				e.pm.Disconnected(pid(arg))
				close(bc.done)
			}()
			select {
			case <-bc.done:
				finishedDisc = bc
				out.Cov("disc.returned")
			case c := <-e.arrive:
				bc.f = c.f
				bc.call = c
				e.blocked = append(e.blocked, bc)
				out.Cov("disc.in-shutdown")
			case <-time.After(10 * time.Second):
				out.Fail("watchdog", "Disconnected(%d) neither returned nor called Shutdown()", arg)
			}
		case op[0] == "shutret" && len(op) == 1:
			if len(e.blocked) > 0 {
				// the outstanding Shutdown() call on the process with the smallest id returns
				k := 0
				for i, b := range e.blocked {
					if b.f.id < e.blocked[k].f.id {
						k = i
					}
				}
				bc := e.blocked[k]
				e.blocked = append(e.blocked[:k:k], e.blocked[k+1:]...)
				bc.call.rel <- struct{}{}
				<-bc.done
				finishedDisc = bc
			}
		case op[0] == "get" && arg >= 0:
			see(arg)
			h := e.pm.GetProcess(pid(arg))
			ret = strconv.Itoa(h.(*proc).id)
		case op[0] == "self" && arg >= 0:
			if arg < len(e.procs) && !e.procs[arg].exited {
				e.procs[arg].shutdown = true
			}
		case op[0] == "exit" && arg >= 0:
			if arg < len(e.procs) && !e.procs[arg].exited {
				f := e.procs[arg]
				f.exited = true
				f.shutdown = true
				f.onExit(pid(f.p))
				out.Cov("exit.callback")
			}
		default:
			out.Line("bad-op")
			continue
		}
		var created, shut []int
		for _, f := range e.procs[nProcs:] {
			created = append(created, f.id)
			if !f.started {
				out.Fail("not-started", "process %d created but Startup() not called", f.id)
			}
		}
		for _, f := range e.procs {
			if f.shutdown && !f.exited && !wasShut[f.id] {
				shut = append(shut, f.id)
			}
		}
		var peers []int
		for _, p := range e.pm.ConnectedPeers() {
			pi := -1
			fmt.Sscanf(string(p), "verif-peer-%d", &pi)
			peers = append(peers, pi)
		}
		sort.Ints(peers)
		var lv []string
		for _, p := range e.seen {
			n := 0
			for _, f := range e.procs {
				if f.p == p && !f.exited {
					n++
				}
			}
			lv = append(lv, fmt.Sprintf("%d:%d", p, n))
		}
		out.Line("ret=%s new=%s shut=%s blocked=%d peers=%s live=%s", ret, joinInts(created), joinInts(shut), len(e.blocked), joinInts(peers), strings.Join(lv, ","))

		// ---- oracle (C17): at most one live (created, not exited) process per peer
		for _, p := range e.seen {
			var liveP []*proc
			for _, f := range e.procs {
				if f.p == p && !f.exited {
					liveP = append(liveP, f)
				}
			}
			if len(liveP) > 1 {
				notStopping := 0
				for _, f := range liveP {
					if !f.shutdown && !f.pending {
						notStopping++
					}
				}
				if notStopping > 1 {
					out.Fail("two-active", "peer %d has %d live processes none of which was told to shut down (ids %v)", p, notStopping, ids(liveP))
				} else {
					out.Cov("state.overlap")
					out.Fail("overlap-shutting-down", "peer %d has %d live processes: a successor was created while process(es) told to shut down have not exited yet (ids %v)", p, len(liveP), ids(liveP))
				}
			}
		}
		// ---- GetProcess returns the live, not-stopping process of the peer if there is one in the table
		if op[0] == "get" {
			id, _ := strconv.Atoi(ret)
			if e.procs[id].exited {
				out.Fail("returned-dead", "GetProcess(%d) returned process %d which has already exited", arg, id)
			}
		}
		// ---- no process outlives the last disconnect of its peer
		if finishedDisc != nil && finishedDisc.last {
			for _, f := range e.procs {
				if f.p == finishedDisc.p && !f.exited && !f.shutdown && !f.pending && f.id < finishedDisc.nProcs {
					out.Fail("outlives-disconnect", "Disconnected(%d) was the last disconnect, it returned, but process %d of that peer was never told to shut down", finishedDisc.p, f.id)
				}
			}
		}
	}
	// let blocked Disconnected calls finish
	for len(e.blocked) > 0 {
		bc := e.blocked[0]
		e.blocked = e.blocked[1:]
		bc.call.rel <- struct{}{}
		<-bc.done
	}
}

func ids(fs []*proc) []int {
	var out []int
	for _, f := range fs {
		out = append(out, f.id)
	}
	return out
}
