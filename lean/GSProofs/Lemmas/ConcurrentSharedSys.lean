import GSProofs.Lemmas.ConcurrentNonint
import GSProofs.Lemmas.ConcurrentConfl
import GSProofs.Lemmas.ConcurrentSharedReq
/-!
Property C20, requests with distinct dedup keys over the SHARED default store: the composed system.

`A` = the whole system (any number of requests, all over the shared store, any interleaving);
`B` = a system in which only request `i`'s actions happen.  `SimS i k A B`: request `i` is in the same
state in both (executor, loader, responder cursor, tracker view, FIFO, reports) except for the block
store, and `B`'s store is a part of `A`'s.  Steps of other requests in `A` keep it (`sim_other`: they only
add blocks the responder holds, `GOK`), steps of `i` keep it in lock-step (`sim_start`, `sim_resp`,
`sim_deliver`) as long as the run of `B` is clean (`CleanAt`), hence `sim_run`.
-/
set_option linter.unusedSimpArgs false
namespace GS.C20
open GS.Loader GS.Requestor GS.LinkTrack GS.Concurrent GS.C03L

/-- invariant of a system in which every request uses the shared default store: every block in the
    store, in a loader's queue or on the wire is a block the responder holds -/
structure GOK (s : Sys) : Prop where
  own : s.own = []
  store : RemOK s.rem s.store
  rq : ∀ (j : Nat) (r : Requestor.State), s.reqs[j]? = some r → QOK s.rem r.L.rq
  chan : ∀ (j : Nat) (ws : List Wire) (w : Wire), s.chan[j]? = some ws → w ∈ ws → RemOK s.rem w.blocks

theorem storeOf_shared (s : Sys) (j : Nat) (h : s.own = []) : storeOf s j = s.store := by
  unfold storeOf; rw [h]; rfl

theorem putStore_shared (s : Sys) (j : Nat) (st : List (Cid × Blk)) (h : s.own = []) :
    putStore s j st = { s with store := st } := by
  unfold putStore; rw [h]; rfl

theorem RemOK_nil (rem : List Cid) : RemOK rem [] := by
  intro c h; simp [Has, storeGet] at h

theorem traverse_send (t : PeerTracker) (r : Req) (l : Link) (b : Bool) (h : (t.traverse r l b).2.1 = true) : b = true := by
  unfold PeerTracker.traverse at h
  simp only [Bool.and_eq_true] at h
  exact h.1.1

theorem respStep_blocks (t : PeerTracker) (rem : List Cid) (j : Nat) (rr : RespRun) :
    RemOK rem (respStep t rem j rr).2.2.blocks := by
  unfold respStep
  split
  · exact RemOK_nil rem
  · split
    · exact RemOK_nil rem
    · rename_i _ n rest _
      simp only
      split
      · rename_i hs
        have := traverse_send _ _ _ _ hs
        exact RemOK.cons (RemOK_nil rem) n.cid n.cid (by simpa using this)
      · exact RemOK_nil rem

theorem set_get {α : Type} (l : List α) (j j' : Nat) (v x : α) (h : (l.set j v)[j']? = some x) :
    (j' = j ∧ x = v) ∨ (j' ≠ j ∧ l[j']? = some x) := by
  by_cases hj : j' = j
  · subst hj
    rw [getElem?_set_self] at h
    cases hl : l[j']? with
    | none => rw [hl] at h; cases h
    | some y => rw [hl] at h; simp at h; exact Or.inl ⟨rfl, h.symm⟩
  · rw [getElem?_set_ne _ _ _ _ hj] at h
    exact Or.inr ⟨hj, h⟩

theorem reqStart_eq (r : Requestor.State) (st : List (Cid × Blk)) (lt : LT) : reqStart r st lt = request (rws r st) lt 0 := rfl

theorem reqMsg_eq (r : Requestor.State) (st : List (Cid × Blk)) (w : Wire) :
    reqMsg r st w = message (rws r st) true true w.status w.md w.blocks := rfl

theorem GOK_step (s : Sys) (a : Act) (h : GOK s) : GOK (Concurrent.step s a) ∧ Sub s.store (Concurrent.step s a).store := by
  cases a with
  | start j =>
    simp only [Concurrent.step]
    split
    · rename_i r lt hr hl
      split
      · exact ⟨h, Sub.refl _⟩
      · rw [storeOf_shared s j h.own]
        have h1 := request_LOK s.rem (rws r s.store) lt 0 ⟨h.store, h.rq j r hr⟩
        have h2 := request_mono (rws r s.store) lt 0
        rw [← reqStart_eq] at h1 h2
        generalize reqStart r s.store lt = rq at h1 h2
        obtain ⟨r', ev⟩ := rq
        simp only at h1 h2 ⊢
        rw [putStore_shared s j _ h.own]
        have hg : GOK { s with store := r'.L.store, reqs := setAt s.reqs j r', evs := setAt s.evs j (s.evs.getD j [] ++ ev) } := by
          refine ⟨h.own, h1.1, ?_, h.chan⟩
          intro j' x hx
          rcases set_get _ _ _ _ _ hx with ⟨_, rfl⟩ | ⟨_, hx⟩
          · exact h1.2
          · exact h.rq j' x hx
        split
        · exact ⟨hg, h2⟩
        · exact ⟨⟨hg.own, hg.store, hg.rq, hg.chan⟩, h2⟩
    · exact ⟨h, Sub.refl _⟩
  | resp j =>
    simp only [Concurrent.step]
    split
    · rename_i rr hrr
      split
      · exact ⟨h, Sub.refl _⟩
      · have hb := respStep_blocks s.tracker s.rem j rr
        generalize respStep s.tracker s.rem j rr = rs at hb
        obtain ⟨t', rr', w⟩ := rs
        simp only at hb ⊢
        refine ⟨⟨h.own, h.store, h.rq, ?_⟩, Sub.refl _⟩
        intro j' ws x hws hx
        rcases set_get _ _ _ _ _ hws with ⟨hj, rfl⟩ | ⟨_, hws⟩
        · subst hj
          simp only [List.mem_append, List.mem_singleton] at hx
          rcases hx with hx | rfl
          · cases hc : s.chan[j']? with
            | none => simp [List.getD_eq_getElem?_getD, hc] at hx
            | some old =>
              simp only [List.getD_eq_getElem?_getD, hc, Option.getD_some] at hx
              exact h.chan j' old x hc hx
          · exact hb
        · exact h.chan j' ws x hws hx
    · exact ⟨h, Sub.refl _⟩
  | deliver j =>
    simp only [Concurrent.step]
    split
    · rename_i r w ws hr hc
      rw [storeOf_shared s j h.own]
      have hw := h.chan j (w :: ws) w hc List.mem_cons_self
      have h1 := message_LOK s.rem (rws r s.store) w.status w.md w.blocks ⟨h.store, h.rq j r hr⟩ hw
      have h2 := message_mono (rws r s.store) w.status w.md w.blocks
      rw [← reqMsg_eq] at h1 h2
      generalize reqMsg r s.store w = rq at h1 h2
      obtain ⟨r', ev⟩ := rq
      simp only at h1 h2 ⊢
      rw [putStore_shared s j _ h.own]
      refine ⟨⟨h.own, h1.1, ?_, ?_⟩, h2⟩
      · intro j' x hx
        rcases set_get _ _ _ _ _ hx with ⟨_, rfl⟩ | ⟨_, hx⟩
        · exact h1.2
        · exact h.rq j' x hx
      · intro j' ws' x hws hx
        rcases set_get _ _ _ _ _ hws with ⟨hj, rfl⟩ | ⟨_, hws⟩
        · subst hj
          exact h.chan j' (w :: ws') x hc (List.mem_cons_of_mem _ hx)
        · exact h.chan j' ws' x hws hx
    · exact ⟨h, Sub.refl _⟩

/-! ## request `i` of system `A` (shared store, other requests active) follows request `i` of system `B` -/

structure SimS (i : Nat) (k : Key) (A B : Sys) : Prop where
  req : A.reqs[i]?.map (fun r => rws r []) = B.reqs[i]?.map (fun r => rws r [])
  lt : A.lts[i]? = B.lts[i]?
  resp : A.resp[i]? = B.resp[i]?
  chan : A.chan[i]? = B.chan[i]?
  evs : A.evs[i]? = B.evs[i]?
  rem : A.rem = B.rem
  tr : tv A.tracker i k = tv B.tracker i k
  keys : A.keys = B.keys
  sub : Sub B.store A.store
  ownB : B.own = []
  len : (B.evs[i]?).isSome = (B.reqs[i]?).isSome

theorem others_keys' (i : Nat) (k : Key) (s : Sys) (hK : KInv s) (hoth : ∀ j, j ≠ i → s.keys.getD j none ≠ some k) :
    ∀ e ∈ s.tracker.dedupKeys, e.1 ≠ i → e.2 ≠ k := by
  intro e he hne heq
  have := hK e he
  rw [heq] at this
  exact hoth e.1 hne this

theorem ActV_step' (i : Nat) (k : Key) (s : Sys) (a : Act) (hK : KInv s)
    (hmine : s.keys.getD i none = some k) (hoth : ∀ j, j ≠ i → s.keys.getD j none ≠ some k) (h : ActV i k s) :
    ActV i k (Concurrent.step s a) := by
  by_cases ha : Act.idx a = i
  · obtain ⟨_, _, hsh⟩ := step_shape s a
    rcases hsh with ⟨ht, hr⟩ | ⟨j, n, lt, hj, ht, _⟩ | ⟨j, rr, hj, hrr, hac, ht, hr⟩
    · intro rr' h1 h2
      rw [ht]
      rw [hr] at h1
      exact h rr' h1 h2
    · intro rr' _ _
      rw [hj] at ha
      simp only [Act.idx] at ha
      subst ha
      rw [ht, hmine, prepare_dedupKeys, aget_aset]
      simp
    · intro rr' h1 h2
      rw [hj] at ha
      simp only [Act.idx] at ha
      subst ha
      rw [hr] at h1
      simp only [setAt, getElem?_set_self, hrr, Option.map_some, Option.some.injEq] at h1
      subst h1
      rw [ht, respStep_active _ _ _ _ h2]
      exact h rr hrr hac
  · have hv := other_step i k s a ha hK hoth
    simp only [view, View.mk.injEq, tv, TV.mk.injEq] at hv
    intro rr' h1 h2
    rw [hv.2.2.2.2.1] at h1
    rw [hv.2.2.2.2.2.2.2.2.1]
    exact h rr' h1 h2

/-- a step of another request in `A` -/
theorem sim_other (i : Nat) (k : Key) (A B : Sys) (a : Act) (ha : Act.idx a ≠ i) (h : SimS i k A B)
    (hG : GOK A) (hK : KInv A) (hoth : ∀ j, j ≠ i → A.keys.getD j none ≠ some k) :
    SimS i k (Concurrent.step A a) B := by
  have hv := other_step i k A a ha hK hoth
  simp only [view, View.mk.injEq] at hv
  obtain ⟨v1, v2, _, _, v5, v6, v7, v8, v9⟩ := hv
  have hk := (step_shape A a).1
  exact ⟨by rw [v1]; exact h.req, v2.trans h.lt, v5.trans h.resp, v6.trans h.chan, v7.trans h.evs, v8.trans h.rem,
    v9.trans h.tr, hk.trans h.keys, Sub.trans h.sub (GOK_step A a hG).2, h.ownB, h.len⟩

/-- the responder handles a link of request `i` in both systems -/
theorem sim_resp (i : Nat) (k : Key) (A B : Sys) (h : SimS i k A B) (hKA : KInv A) (hKB : KInv B)
    (hoth : ∀ j, j ≠ i → A.keys.getD j none ≠ some k) (hA : ActV i k A) :
    SimS i k (Concurrent.step A (.resp i)) (Concurrent.step B (.resp i)) := by
  have hothB : ∀ j, j ≠ i → B.keys.getD j none ≠ some k := by rw [← h.keys]; exact hoth
  simp only [Concurrent.step]
  rw [h.resp]
  cases hr : B.resp[i]? with
  | none => exact h
  | some rr =>
    simp only
    cases hac : rr.active with
    | false => simp only [Bool.not_false, if_true]; exact h
    | true =>
      simp only [Bool.not_true, Bool.false_eq_true, if_false]
      have hi := hA rr (h.resp.trans hr) hac
      have hrs := respStep_self A.tracker B.tracker B.rem i k rr h.tr hi
        (others_keys' i k A hKA hoth) (others_keys' i k B hKB hothB)
      rw [h.rem]
      generalize respStep A.tracker B.rem i rr = x at hrs
      generalize respStep B.tracker B.rem i rr = y at hrs
      obtain ⟨x1, x2, x3⟩ := x
      obtain ⟨y1, y2, y3⟩ := y
      simp only [Prod.mk.injEq] at hrs
      obtain ⟨⟨e2, e3⟩, e1⟩ := hrs
      subst e2; subst e3
      have hch : A.chan.getD i [] = B.chan.getD i [] := by
        rw [List.getD_eq_getElem?_getD, List.getD_eq_getElem?_getD, h.chan]
      refine ⟨h.req, h.lt, ?_, ?_, h.evs, rfl, e1, h.keys, h.sub, h.ownB, h.len⟩
      · simp only [setAt, getElem?_set_self]; rw [h.resp]
      · simp only [setAt, getElem?_set_self]; rw [h.chan, hch]

/-- what the theorems assume of the run of request `i` ALONE, at each of its states: the request has
    not been failed by the responder (no failure status is delivered while it runs), a running request
    has been sent and has a node at its cursor (always true of a parked executor), and it has reported
    no block missing that the responder holds (completeness of the single request: property C02) -/
structure CleanAt (i : Nat) (s : Sys) : Prop where
  reg : ∀ r : Requestor.State, s.reqs[i]? = some r →
    r.ctxCancelled = false ∧ (r.phase = .running → r.requestSent = true ∧ r.todo ≠ [])
  nofail : ∀ (r : Requestor.State) (w : Wire) (ws : List Wire), s.reqs[i]? = some r → r.phase = .running →
    s.chan[i]? = some (w :: ws) → isFailure w.status = false
  miss : ∀ c p, (c, p) ∈ missingOf (s.evs.getD i []) → c ∉ s.rem

theorem missingOf_mem (evs : List Ev) (c : Cid) (p : Path) (h : Ev.err (.load (.missing c p)) ∈ evs) :
    (c, p) ∈ missingOf evs := by
  unfold missingOf
  rw [List.mem_filterMap]
  exact ⟨_, h, rfl⟩

theorem sim_deliver (i : Nat) (k : Key) (A B : Sys) (h : SimS i k A B) (hG : GOK A)
    (hc : CleanAt i B) (hc' : CleanAt i (Concurrent.step B (.deliver i))) :
    SimS i k (Concurrent.step A (.deliver i)) (Concurrent.step B (.deliver i)) := by
  cases hrB : B.reqs[i]? with
  | none =>
    have hrA : A.reqs[i]? = none := by
      have := h.req; rw [hrB] at this
      cases hx : A.reqs[i]? with
      | none => rfl
      | some x => rw [hx] at this; cases this
    rw [deliver_noop_req A i hrA, deliver_noop_req B i hrB]; exact h
  | some rB =>
    cases hrA : A.reqs[i]? with
    | none => have := h.req; rw [hrB, hrA] at this; cases this
    | some rA =>
      have hreq : rws rA [] = rws rB [] := by
        have := h.req; rw [hrB, hrA] at this; simpa using this
      cases hcB : B.chan[i]? with
      | none =>
        have e1 : A.chan.getD i [] = [] := by rw [List.getD_eq_getElem?_getD, h.chan, hcB]; rfl
        have e2 : B.chan.getD i [] = [] := by rw [List.getD_eq_getElem?_getD, hcB]; rfl
        rw [deliver_noop_chan A i e1, deliver_noop_chan B i e2]; exact h
      | some l =>
        cases l with
        | nil =>
          have e1 : A.chan.getD i [] = [] := by rw [List.getD_eq_getElem?_getD, h.chan, hcB]; rfl
          have e2 : B.chan.getD i [] = [] := by rw [List.getD_eq_getElem?_getD, hcB]; rfl
          rw [deliver_noop_chan A i e1, deliver_noop_chan B i e2]; exact h
        | cons w ws =>
          have hcA : A.chan[i]? = some (w :: ws) := h.chan.trans hcB
          rw [deliver_eq A i rA w ws hrA hcA, deliver_eq B i rB w ws hrB hcB] at *
          unfold delivOut at *
          rw [storeOf_shared A i hG.own, putStore_shared A i _ hG.own] at *
          rw [storeOf_shared B i h.ownB, putStore_shared B i _ h.ownB] at *
          have e1 : reqMsg rA A.store w = message (rws (rws rB B.store) A.store) true true w.status w.md w.blocks := by
            rw [reqMsg_eq]
            have : rws rA A.store = rws (rws rB B.store) A.store := by
              show rws (rws rA []) A.store = rws (rws rB []) A.store
              rw [hreq]
            rw [this]
          have e2 : reqMsg rB B.store w = message (rws rB B.store) true true w.status w.md w.blocks := reqMsg_eq _ _ _
          obtain ⟨g1, g2⟩ := hc.reg rB hrB
          have hq : QOK A.rem rB.L.rq := by
            have := hG.rq i rA hrA
            have e : rA.L.rq = rB.L.rq := congrArg (fun r => r.L.rq) hreq
            rw [← e]; exact this
          have hsim := message_sim A.rem (rws rB B.store) A.store w.status w.md w.blocks g2 g1
            (fun hp => hc.nofail rB w ws hrB hp hcB) h.sub ⟨hG.store, hq⟩ (hG.chan i (w :: ws) w hcA List.mem_cons_self)
          rw [← e1, ← e2] at hsim
          generalize reqMsg rA A.store w = o1 at hsim hc' ⊢
          generalize reqMsg rB B.store w = o2 at hsim hc' ⊢
          obtain ⟨r1, ev1⟩ := o1
          obtain ⟨r2, ev2⟩ := o2
          rcases hsim with ⟨he, hf1, hf2⟩ | ⟨c, p, hm, hcr⟩
          · simp only at he hf1 hf2
            have hev : A.evs.getD i [] = B.evs.getD i [] := by
              rw [List.getD_eq_getElem?_getD, List.getD_eq_getElem?_getD, h.evs]
            refine ⟨?_, h.lt, h.resp, ?_, ?_, h.rem, h.tr, h.keys, hf2, h.ownB, ?_⟩
            · simp only [setAt, getElem?_set_self, hrA, hrB, Option.map_some]
              rw [hf1]; rfl
            · simp only [setAt, getElem?_set_self]; rw [h.chan]
            · simp only [setAt, getElem?_set_self]; rw [h.evs, hev, he]
            · have := h.len
              simp only [setAt, getElem?_set_self, Option.isSome_map]
              exact this
          · exfalso
            have := hc'.miss c p
            simp only [setAt, List.getD_eq_getElem?_getD, getElem?_set_self] at this
            cases hev : B.evs[i]? with
            | none =>
              have := h.len; rw [hev, hrB] at this; cases this
            | some e =>
              rw [hev] at this
              simp only [Option.map_some, Option.getD_some] at this
              exact this (missingOf_mem _ c p (List.mem_append_right _ hm)) (by rw [← h.rem]; exact hcr)

/-- the request is issued in both systems over the same store -/
theorem sim_start (i : Nat) (k : Key) (A B : Sys) (h : SimS i k A B) (hG : GOK A)
    (hreq : A.reqs[i]? = B.reqs[i]?) (hst : A.store = B.store) (hk : A.keys.getD i none = some k) :
    SimS i k (Concurrent.step A (.start i)) (Concurrent.step B (.start i)) := by
  have hkB : B.keys.getD i none = some k := by rw [← h.keys]; exact hk
  have hev : A.evs.getD i [] = B.evs.getD i [] := by
    rw [List.getD_eq_getElem?_getD, List.getD_eq_getElem?_getD, h.evs]
  simp only [Concurrent.step]
  rw [hreq, h.lt, storeOf_shared A i hG.own, storeOf_shared B i h.ownB, hst, hev, hk, hkB]
  cases hr : B.reqs[i]? with
  | none => exact h
  | some r =>
    cases hl : B.lts[i]? with
    | none => exact h
    | some lt =>
      simp only
      by_cases hp : (r.phase != Phase.idle) = true
      · simp only [if_pos hp]; exact h
      · simp only [if_neg hp]
        generalize reqStart r B.store lt = rq
        obtain ⟨r', ev⟩ := rq
        simp only
        rw [putStore_shared A i _ hG.own, putStore_shared B i _ h.ownB]
        have hlen : ((setAt B.evs i (B.evs.getD i [] ++ ev))[i]?).isSome = ((setAt B.reqs i r')[i]?).isSome := by
          have := h.len
          simp only [setAt, getElem?_set_self, Option.isSome_map]
          exact this
        cases hs : sentSkip ev with
        | none =>
          simp only
          refine ⟨?_, h.lt, h.resp, h.chan, ?_, h.rem, h.tr, h.keys, Sub.refl _, h.ownB, hlen⟩
          · simp only [setAt, getElem?_set_self]; rw [hreq]
          · simp only [setAt, getElem?_set_self]; rw [h.evs]
        | some n =>
          simp only
          refine ⟨?_, h.lt, ?_, h.chan, ?_, h.rem, tv_prepare_self _ _ i k n h.tr, h.keys, Sub.refl _, h.ownB, hlen⟩
          · simp only [setAt, getElem?_set_self]; rw [hreq]
          · simp only [setAt, getElem?_set_self]; rw [h.resp]
          · simp only [setAt, getElem?_set_self]; rw [h.evs]

theorem prefix_cons_of {α : Type} (a : α) {τ l : List α} (h : τ <+: l) : (a :: τ) <+: (a :: l) := by
  obtain ⟨t, rfl⟩ := h
  exact ⟨t, rfl⟩

/-- **the run of `A` (any interleaving with other requests over the shared store) and the run of `B`
    in which only request `i`'s actions happen keep request `i` in the same state up to the store** -/
theorem sim_run (i : Nat) (k : Key) : ∀ (post : List Act) (A B : Sys), SimS i k A B → GOK A → KInv A → KInv B →
    ActV i k A → A.keys.getD i none = some k → (∀ j, j ≠ i → A.keys.getD j none ≠ some k) →
    (∀ a ∈ post, a ≠ .start i) →
    (∀ τ, τ <+: post.filter (fun a => Act.idx a == i) → CleanAt i (Concurrent.run B τ)) →
    SimS i k (Concurrent.run A post) (Concurrent.run B (post.filter (fun a => Act.idx a == i)))
  | [], A, B, h, _, _, _, _, _, _, _, _ => h
  | a :: rest, A, B, h, hG, hKA, hKB, hAct, hk, hoth, hns, hcl => by
    have hkeys := (step_shape A a).1
    have hG' := (GOK_step A a hG).1
    have hKA' := KInv_step A a hKA
    have hAct' := ActV_step' i k A a hKA hk hoth hAct
    have hk' : (Concurrent.step A a).keys.getD i none = some k := by rw [hkeys]; exact hk
    have hoth' : ∀ j, j ≠ i → (Concurrent.step A a).keys.getD j none ≠ some k := by rw [hkeys]; exact hoth
    have hns' : ∀ b ∈ rest, b ≠ .start i := fun b hb => hns b (List.mem_cons_of_mem _ hb)
    by_cases ha : Act.idx a = i
    · have hb : (Act.idx a == i) = true := by simpa using ha
      simp only [List.filter_cons, hb, if_true, Concurrent.run, List.foldl_cons] at hcl ⊢
      have hcl' : ∀ τ, τ <+: rest.filter (fun a => Act.idx a == i) →
          CleanAt i (Concurrent.run (Concurrent.step B a) τ) := fun τ hτ => hcl (a :: τ) (prefix_cons_of a hτ)
      have hstep : SimS i k (Concurrent.step A a) (Concurrent.step B a) := by
        cases a with
        | start j =>
          simp only [Act.idx] at ha; subst ha
          exact absurd rfl (hns _ List.mem_cons_self)
        | resp j =>
          simp only [Act.idx] at ha; subst ha
          exact sim_resp j k A B h hKA hKB hoth hAct
        | deliver j =>
          simp only [Act.idx] at ha; subst ha
          exact sim_deliver j k A B h hG (hcl [] (List.nil_prefix)) (hcl [.deliver j] (prefix_cons_of _ List.nil_prefix))
      exact sim_run i k rest _ _ hstep hG' hKA' (KInv_step B a hKB) hAct' hk' hoth' hns' hcl'
    · have hb : (Act.idx a == i) = false := by simpa using ha
      simp only [List.filter_cons, hb, Bool.false_eq_true, if_false, Concurrent.run, List.foldl_cons] at hcl ⊢
      exact sim_run i k rest _ B (sim_other i k A B a ha h hG hKA hoth) hG' hKA' hKB hAct' hk' hoth' hns' hcl
end GS.C20
