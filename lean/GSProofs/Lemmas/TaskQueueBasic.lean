import GS.Model.TaskQueue
/-!
Helper lemmas for C21, part 1: sums over lists, the tracker map, effect of every PTQ operation on
the tracker list (the heap layout `order` is irrelevant to all of them).
-/
namespace GS.TQ

/-! ### sums -/

def sumBy {α : Type} (f : α → Nat) : List α → Nat
  | [] => 0
  | x :: xs => f x + sumBy f xs

theorem sumBy_append {α : Type} (f : α → Nat) (xs ys : List α) :
    sumBy f (xs ++ ys) = sumBy f xs + sumBy f ys := by
  induction xs with
  | nil => simp [sumBy]
  | cons x xs ih => simp [sumBy, ih, Nat.add_assoc]

theorem sumBy_map_le {α : Type} (f : α → Nat) (h : α → α) (xs : List α)
    (hle : ∀ x ∈ xs, f (h x) ≤ f x) : sumBy f (xs.map h) ≤ sumBy f xs := by
  induction xs with
  | nil => simp [sumBy]
  | cons x xs ih =>
    simp only [List.map, sumBy]
    have := hle x (by simp)
    have := ih (fun y hy => hle y (by simp [hy]))
    omega

theorem sumBy_map_lt {α : Type} (f : α → Nat) (h : α → α) (xs : List α)
    (hle : ∀ x ∈ xs, f (h x) ≤ f x) (hlt : ∃ x ∈ xs, f (h x) < f x) :
    sumBy f (xs.map h) < sumBy f xs := by
  induction xs with
  | nil => obtain ⟨x, hx, _⟩ := hlt; cases hx
  | cons x xs ih =>
    simp only [List.map, sumBy]
    have h1 := hle x (by simp)
    have h2 := sumBy_map_le f h xs (fun y hy => hle y (by simp [hy]))
    obtain ⟨y, hy, hyl⟩ := hlt
    rcases List.mem_cons.mp hy with rfl | hy'
    · omega
    · have := ih (fun z hz => hle z (by simp [hz])) ⟨y, hy', hyl⟩
      omega

theorem sumBy_filter_le {α : Type} (f : α → Nat) (p : α → Bool) (xs : List α) :
    sumBy f (xs.filter p) ≤ sumBy f xs := by
  induction xs with
  | nil => simp [sumBy]
  | cons x xs ih =>
    simp only [List.filter]
    split <;> simp only [sumBy] <;> omega

theorem sumBy_set {α : Type} (f : α → Nat) (xs : List α) (i : Nat) (x y : α)
    (h : xs[i]? = some x) : sumBy f (xs.set i y) + f x = sumBy f xs + f y := by
  induction xs generalizing i with
  | nil => simp at h
  | cons z zs ih =>
    cases i with
    | zero => simp at h; subst h; simp [sumBy]; omega
    | succ i =>
      simp at h
      have := ih i h
      simp [sumBy]; omega

theorem set_same {α : Type} (xs : List α) (i : Nat) (x : α) (h : xs[i]? = some x) :
    xs.set i x = xs := by
  induction xs generalizing i with
  | nil => simp
  | cons z zs ih =>
    cases i with
    | zero => simp at h; subst h; simp
    | succ i => simp at h; simp [ih i h]

/-! ### measures on a queue -/

def nPending (ps : List Tracker) : Nat := sumBy (fun t => t.pending.length) ps
def sumFreeze (ps : List Tracker) : Nat := sumBy (fun t => t.freeze) ps

/-! ### the tracker map -/

theorem findT_some {ps : List Tracker} {p : Nat} {t : Tracker} (h : findT ps p = some t) :
    t ∈ ps ∧ t.id = p := by
  unfold findT at h
  have h1 := List.mem_of_find?_eq_some h
  have h2 := List.find?_some h
  exact ⟨h1, by simpa using h2⟩

theorem findT_none {ps : List Tracker} {p : Nat} (h : findT ps p = none) :
    ∀ t ∈ ps, t.id ≠ p := by
  unfold findT at h
  intro t ht he
  have := List.find?_eq_none.mp h t ht
  simp [he] at this

theorem findT_isSome_of_mem {ps : List Tracker} {t : Tracker} (h : t ∈ ps) :
    ∃ u, findT ps t.id = some u := by
  cases hf : findT ps t.id with
  | some u => exact ⟨u, rfl⟩
  | none => exact absurd rfl (findT_none hf t h)

theorem mem_modifyT {ps : List Tracker} {p : Nat} {f : Tracker → Tracker} {t' : Tracker}
    (h : t' ∈ modifyT ps p f) : ∃ t ∈ ps, (t.id ≠ p ∧ t' = t) ∨ (t.id = p ∧ t' = f t) := by
  unfold modifyT at h
  obtain ⟨t, ht, rfl⟩ := List.mem_map.mp h
  refine ⟨t, ht, ?_⟩
  by_cases he : t.id = p
  · right; simp [he]
  · left; simp [he]

theorem mem_setT {ps : List Tracker} {u t' : Tracker}
    (h : t' ∈ setT ps u) : (t' ∈ ps ∧ t'.id ≠ u.id) ∨ t' = u := by
  unfold setT at h
  obtain ⟨t, ht, rfl⟩ := List.mem_map.mp h
  by_cases he : t.id = u.id
  · right; simp [he]
  · left; simp [he, ht]

theorem mem_eraseT {ps : List Tracker} {p : Nat} {t : Tracker} (h : t ∈ eraseT ps p) :
    t ∈ ps ∧ t.id ≠ p := by
  unfold eraseT at h
  have := List.mem_filter.mp h
  exact ⟨this.1, by simpa using this.2⟩

@[simp] theorem refix_peers (q : PTQ) (ps : List Tracker) (ord : List Nat) (p : Nat) :
    (refix q ps ord p).peers = ps := rfl
@[simp] theorem refix_frozen (q : PTQ) (ps : List Tracker) (ord : List Nat) (p : Nat) :
    (refix q ps ord p).frozen = q.frozen := rfl
@[simp] theorem refix_cap (q : PTQ) (ps : List Tracker) (ord : List Nat) (p : Nat) :
    (refix q ps ord p).cap = q.cap := rfl
@[simp] theorem refix_ign (q : PTQ) (ps : List Tracker) (ord : List Nat) (p : Nat) :
    (refix q ps ord p).ignoreFreeze = q.ignoreFreeze := rfl

/-! ### peek is comparator-minimal -/

theorem peek_some {q : PTQ} {t : Tracker} (h : peek q = some t) :
    t ∈ q.peers ∧ isMin q.peers t = true := by
  unfold peek at h
  have hfind : ∀ {t}, q.peers.find? (isMin q.peers) = some t → t ∈ q.peers ∧ isMin q.peers t = true :=
    fun h => ⟨List.mem_of_find?_eq_some h, List.find?_some h⟩
  split at h
  · rename_i u hu
    split at h
    · rename_i hm
      cases h
      unfold heapTop at hu
      split at hu
      · cases hu
      · exact ⟨(findT_some hu).1, hm⟩
    · exact hfind h
  · exact hfind h

theorem isMin_spec {ps : List Tracker} {t u : Tracker} (h : isMin ps t = true) (hu : u ∈ ps) :
    peerLess u t = false := by
  unfold isMin at h
  have := List.all_eq_true.mp h u hu
  simpa using this

/-- if nothing is minimal-less, `peek` finds something as soon as a minimal tracker exists -/
theorem peek_isSome_of_min {q : PTQ} {t : Tracker} (ht : t ∈ q.peers) (hm : isMin q.peers t = true) :
    ∃ u, peek q = some u := by
  have hfind : ∃ u, q.peers.find? (isMin q.peers) = some u := by
    cases hf : q.peers.find? (isMin q.peers) with
    | some u => exact ⟨u, rfl⟩
    | none =>
      have := List.find?_eq_none.mp hf t ht
      simp [hm] at this
  unfold peek
  split
  · split
    · exact ⟨_, rfl⟩
    · exact hfind
  · exact hfind

end GS.TQ
