import GSProofs.Lemmas.ReqLifeVar
import GS.Temporal
/-!
Liveness layer of C04: in every state that satisfies the invariant, in which the request has been
cancelled or its peer has sent a terminal status, and in which the two returned channels are not both
closed, some internal ("fair") action is enabled (`progress`); together with the strictly decreasing
variant this gives `terminates` through the leads-to rule of `GS.Temporal`.
-/
namespace GS.ReqLife
open GS.Generated GS.Temporal

def sys : Sys State Action := ⟨step⟩

def en (s : State) (a : Action) : Prop := a.fair = true ∧ (step s a).isSome = true

def SomeFair (s : State) : Prop := ∃ a, en s a

/-- a process offers an error on `inProgressErr`: some receiver (or the caller behind it) can move. -/
theorem progress_receiver {s : State} (hi : Inv s) (hl : s.reg = .live) (hsnd : (errSender s).isSome = true) :
    SomeFair s := by
  obtain ⟨⟨e, s1⟩, hes⟩ := Option.isSome_iff_exists.mp hsnd
  have n1 := hi.n1; have n2 := hi.n2; have n2e := hi.n2e; have n3d := hi.n3d
  cases hce : s.ce with
  | none => exact absurd hce (n1 (by simp [hl])).2
  | run buf io =>
    cases io
    · have := n2e (by simp [hce, ceNeedsGone]); simp [hl] at this
    · exact ⟨.ceRecv, rfl, by simp [step, hce, hes]⟩
  | sendCC x buf => exact ⟨.ceDeliverCC, rfl, by cases x <;> simp [step, hce]⟩
  | done =>
    have hctx : s.callerCtx = true := by
      rcases n3d hce with h | h
      · simp [hl] at h
      · exact h
    cases hcp : s.cp with
    | none => exact absurd hcp (n1 (by simp [hl])).1
    | run buf io => exact ⟨.cpSeeCtx, rfl, by cases io <;> simp [step, hcp, hctx]⟩
    | cancelling sent pO eO =>
      cases eO
      · have := n2 (by simp [hcp, cpNeedsGone]); simp [hl] at this
      · exact ⟨.cpDrainE, rfl, by simp [step, hcp, hes]⟩
    | done => have := n2 (by simp [hcp, cpNeedsGone]); simp [hl] at this

/-- the caller's context is cancelled and the request is still tracked and not yet being cancelled:
    the progress collector can move. -/
theorem progress_ctx {s : State} (hi : Inv s) (hl : s.reg = .live) (hctx : s.callerCtx = true)
    (hmb : s.mbox = []) (hm : s.mphase = .idle) (hnc : s.ctxDone = false) : SomeFair s := by
  have n1 := hi.n1; have n2 := hi.n2; have zCtx := hi.zCtx
  cases hcp : s.cp with
  | none => exact absurd hcp (n1 (by simp [hl])).1
  | run buf io => exact ⟨.cpSeeCtx, rfl, by cases io <;> simp [step, hcp, hctx]⟩
  | cancelling sent pO eO =>
    cases sent
    · exact ⟨.cpSendCancel, rfl, by simp [step, hcp]⟩
    · have := zCtx (by simp [hcp, cpCancelSent])
      simp [hmb, hl, hnc, hm] at this
  | done => have := n2 (by simp [hcp, cpNeedsGone]); simp [hl] at this

/-- after the manager has dropped the request the two collectors run to completion. -/
theorem progress_gone {s : State} (hi : Inv s) (hg : s.reg = .gone) (hq : bothClosed s = false) : SomeFair s := by
  have n1 := hi.n1
  have hP : s.chanPClosed = true := by rw [hi.a1]; simp [hg]
  have hE : s.chanEClosed = true := by rw [hi.a2]; simp [hg]
  cases hcp : s.cp with
  | none => exact absurd hcp (n1 (by simp [hg])).1
  | run buf io =>
    cases io
    · cases buf with
      | zero => exact ⟨.cpExit, rfl, by simp [step, hcp]⟩
      | succ b => exact ⟨.cpDeliver, rfl, by simp [step, hcp]⟩
    · exact ⟨.cpSeeClose, rfl, by simp [step, hcp, hP]⟩
  | cancelling sent pO eO =>
    cases sent
    · exact ⟨.cpSendCancel, rfl, by simp [step, hcp]⟩
    · cases pO
      · cases eO
        · exact ⟨.cpCancelExit, rfl, by simp [step, hcp]⟩
        · exact ⟨.cpSeeCloseE, rfl, by simp [step, hcp, hE]⟩
      · exact ⟨.cpSeeCloseP, rfl, by simp [step, hcp, hP]⟩
  | done =>
    cases hce : s.ce with
    | none => exact absurd hce (n1 (by simp [hg])).2
    | run buf io =>
      cases io
      · cases buf with
        | nil => exact ⟨.ceExit, rfl, by simp [step, hce]⟩
        | cons e b => exact ⟨.ceDeliver, rfl, by simp [step, hce]⟩
      · exact ⟨.ceSeeClose, rfl, by cases hc : s.callerCtx <;> simp [step, hce, hE, hc]⟩
    | sendCC x buf => exact ⟨.ceDeliverCC, rfl, by cases x <;> simp [step, hce]⟩
    | done => simp [bothClosed, hcp, hce] at hq

/-- the precondition of the liveness clause: the request's own peer has sent a terminal status, or the
    caller has cancelled (API or context) -/
def Triggered (s : State) : Prop := s.termSent = true ∨ s.apiCancelled = true ∨ s.callerCtx = true

/-- the executor is blocked waiting for the remote (`waitRemote`: online, nothing queued): the trigger
    guarantees that something else can move. -/
theorem progress_blocked {s : State} (hi : Inv s) (ht : Triggered s) (hw : s.w = .wait) (hmb : s.mbox = [])
    (hm : s.mphase = .idle) (hon : s.online = true) : SomeFair s := by
  have hj := hi.j (by simp [hw, execActive])
  have hnc : s.ctxDone = false := by
    cases hc : s.ctxDone
    · rfl
    · have := hi.o1 hj.1 hc; simp [hon] at this
  rcases ht with ht | ht | ht
  · have := hi.zTerm ht
    simp [hmb, pendingTerm, hj.1, hj.2.1, hon, hw] at this
    exact ⟨.oblAnswer, rfl, by simp [step, ht, this]⟩
  · have := hi.zApi ht
    simp [hmb, hj.1, hnc, hm] at this
  · exact progress_ctx hi hj.1 ht hmb hm hnc

/-- **progress**: while the trigger holds and the two returned channels are not both closed, some
    internal action is enabled. -/
theorem progress {s : State} (hi : Inv s) (ht : Triggered s) (hq : bothClosed s = false) : SomeFair s := by
  by_cases hm' : ¬ s.mphase = .idle
  · -- the manager is inside terminateRequest, offering the terminal error
    have hm := hm'
    have hl := hi.b hm
    refine progress_receiver hi hl ?_
    cases hmp : s.mphase with
    | idle => exact absurd hmp hm
    | termSend e rw => simp [errSender, hmp]
  have hm : s.mphase = .idle := Classical.not_not.mp hm'
  cases hmb : s.mbox with
  | cons m rest => exact ⟨.mgr, rfl, by simp [step, hm, hmb]⟩
  | nil =>
    have k1 := hi.k1; have k2 := hi.k2
    simp only [hmb, List.countP_nil] at k1 k2
    cases hw : s.w with
    | waitTask => simp [hw] at k1
    | waitDone => simp [hw, hm, replyPending] at k2
    | popped => exact ⟨.wGet, rfl, by simp [step, hw]⟩
    | top =>
      have hj := hi.j (by simp [hw, execActive])
      cases htp : s.t with
      | none => exact absurd htp (hi.c2 hj.2.2)
      | waitLoad => exact ⟨.xTop, rfl, by simp [step, hw, htp]⟩
      | done e => exact ⟨.xTop, rfl, by cases e <;> simp [step, hw, htp, sendRelease]⟩
      | visiting n more =>
        have tv := hi.tv; simp [htp, tVisitOk] at tv
        obtain ⟨n', rfl⟩ : ∃ n', n = n' + 1 := ⟨n - 1, by omega⟩
        cases hcp : s.cp with
        | none => exact absurd hcp (hi.n1 (by simp [hj.1])).1
        | run buf io =>
          cases io
          · have := hi.n2 (by simp [hcp, cpNeedsGone]); simp [hj.1] at this
          · exact ⟨.cpRecv, rfl, by simp [step, hcp, htp]⟩
        | cancelling sent pO eO =>
          cases pO
          · have := hi.n2 (by simp [hcp, cpNeedsGone]); simp [hj.1] at this
          · exact ⟨.cpDrainP, rfl, by simp [step, hcp, htp]⟩
        | done => have := hi.n2 (by simp [hcp, cpNeedsGone]); simp [hj.1] at this
    | wait =>
      by_cases hrq : 1 ≤ s.rq
      · exact ⟨.xWaitRemote false 0 false, rfl, by simp [step, hw, hrq]⟩
      · cases hon : s.online
        · exact ⟨.xWaitLocal, rfl, by simp [step, hw, hon]; omega⟩
        · exact progress_blocked hi ht hw hmb hm hon
    | read => exact ⟨.xRead false 0 false, rfl, by simp only [step, hw]; simp; (repeat' split) <;> simp⟩
    | hook => exact ⟨.xHook .ok, rfl, by simp [step, hw]⟩
    | errSend f =>
      have hj := hi.j (by simp [hw, execActive])
      exact progress_receiver hi hj.1 (by simp [errSender, hm, hw])
    | errSent f =>
      have htw := hi.tw (by simp [hw, needsLoad])
      exact ⟨.xAfterErr .rootErr, rfl, by cases f <;> simp [step, hw, htw]⟩
    | sendReq => exact ⟨.xSendReq, rfl, by simp [step, hw]⟩
    | fin1 k => exact ⟨.xFin1, rfl, by cases k <;> simp [step, hw]⟩
    | finErr e =>
      have hj := hi.j (by simp [hw, execActive])
      exact progress_receiver hi hj.1 (by simp [errSender, hm, hw])
    | idle =>
      by_cases hp : 0 < s.tqPending
      · exact ⟨.wPop, rfl, by simp [step, hw, hp]⟩
      · rcases reg_cases s with hr | hr | hr
        · -- not yet created: the trigger implies the newRequest message is in the (empty) mailbox
          have hns : s.newSent = true := by
            rcases ht with h | h | h
            · exact (hi.ts h).1
            · exact hi.ac h
            · exact hi.cx h
          have := hi.f0 hr hns
          simp [hmb] at this
        · rcases rstate_cases s with hs | hs | hs
          · have := hi.t1 hr hs hm; simp [hw] at this; omega
          · have := hi.j2 hr hs hm; simp [hw, execActive] at this
          · -- paused
            have hnc : s.ctxDone = false := by
              cases hc : s.ctxDone
              · rfl
              · have := hi.pz hr hc hm; simp [hs] at this
            by_cases hapi : s.apiCancelled = true
            · have := hi.zApi hapi; simp [hmb, hr, hnc, hm] at this
            · by_cases hctx : s.callerCtx = true
              · exact progress_ctx hi hr hctx hmb hm hnc
              · exact ⟨.oblUnpause, rfl, by simp [step, hr, hs, hapi, hctx, hmb]⟩
        · exact progress_gone hi hr hq

/-! ### the trigger is stable -/

theorem terminate_flags (s : State) (r : Bool) :
    (terminate s r).termSent = s.termSent ∧ (terminate s r).apiCancelled = s.apiCancelled := by
  unfold terminate; split <;> simp [finishTerminate]

theorem cancelOnError_flags (s : State) (e : Option Err) :
    (cancelOnError s e).termSent = s.termSent ∧ (cancelOnError s e).apiCancelled = s.apiCancelled := by
  unfold cancelOnError
  simp only
  split <;> split <;> simp [terminate_flags]

theorem handle_flags (s : State) (m : Msg) :
    (handle s m).termSent = s.termSent ∧ (handle s m).apiCancelled = s.apiCancelled := by
  cases m <;> simp only [handle, cancelLive, hookCancel, ingest, procTerminations]
  · split <;> simp
  · (repeat' split) <;> simp [cancelOnError_flags]
  · (repeat' split) <;> simp [cancelOnError_flags]
  · (repeat' split) <;> simp
  · (repeat' split) <;> simp
  · (repeat' split) <;> simp
  · (repeat' split) <;> simp [terminate_flags]

theorem errSender_flags {s s1 : State} {e : Err} (h : errSender s = some (e, s1)) :
    s1.termSent = s.termSent ∧ s1.apiCancelled = s.apiCancelled := by
  rcases errSender_cases h with ⟨rw, _, rfl⟩ | ⟨_, fatal, _, _, rfl⟩ | ⟨_, _, rfl⟩ <;>
    simp [finishTerminate, sendRelease, pushMsg]

theorem triggered_step {s s' : State} {a : Action} (ht : Triggered s) (hs : step s a = some s') : Triggered s' := by
  unfold Triggered at *
  cases a
  case mgr =>
    simp only [step] at hs
    split at hs
    next m rest hm hb =>
      cases hs
      obtain ⟨h1, h2⟩ := handle_flags { s with mbox := rest } m
      obtain ⟨_, _, h3, _⟩ := handle_frame { s with mbox := rest } m
      grind
    next => cases hs
  case ceRecv =>
    simp only [step] at hs
    split at hs
    next buf e s1 hce hsnd =>
      cases hs
      obtain ⟨h1, h2⟩ := errSender_flags hsnd
      obtain ⟨_, _, _, _, h3⟩ := errSender_frame hsnd
      grind
    next => cases hs
  case cpDrainE =>
    simp only [step] at hs
    split at hs
    next sent pO e s1 hcp hsnd =>
      cases hs
      obtain ⟨h1, h2⟩ := errSender_flags hsnd
      obtain ⟨_, _, _, _, h3⟩ := errSender_frame hsnd
      grind
    next => cases hs
  all_goals
    simp only [step, env, pushMsg, sendRelease, pauseCheck, dataLoaded, loadFailed, afterVisit,
      Option.map_eq_some_iff] at hs
    (repeat' split at hs) <;> (first | (cases hs; done) | (obtain ⟨_, hs1, hs2⟩ := hs; simp at hs1; subst hs2; grind) | (cases hs; grind))

/-! ### fairness -/

/-- weak fairness of every process group (manager loop, worker, the two collectors with the caller
    reading behind them, the two environment obligations): a group that stays enabled eventually moves. -/
def GroupFair (σ : Nat → State) : Prop :=
  ∀ g : Group, ∀ i, (∀ j, i ≤ j → ∃ a, a.group = some g ∧ (step (σ j) a).isSome = true) →
    ∃ j, i ≤ j ∧ ∃ a, a.group = some g ∧ step (σ j) a = some (σ (j + 1))

theorem V_mono {σ : Nat → State} (hex : Exec sys σ) (i d : Nat) : V (σ (i + d)) ≤ V (σ i) := by
  induction d with
  | zero => exact Nat.le_refl _
  | succ d ih =>
    rcases hex (i + d) with h | ⟨a, h⟩
    · have : σ (i + (d + 1)) = σ (i + d) := h
      rw [this]; exact ih
    · have := var_step_lt (a := a) h
      have e : i + (d + 1) = i + d + 1 := rfl
      rw [e]; omega

/-- group fairness implies weak fairness of the set of internal actions (every action strictly decreases
    the variant, so an execution without internal steps eventually stutters forever). -/
theorem wfAll_of_groupFair {σ : Nat → State} (hex : Exec sys σ) (hf : GroupFair σ) :
    WFAll sys (fun a => a.fair = true) σ := by
  intro i hen
  -- strong induction on the variant at position i
  have main : ∀ n i, V (σ i) = n → (∀ j, i ≤ j → ∃ a, a.fair = true ∧ sys.enabled a (σ j)) →
      ∃ j, i ≤ j ∧ ∃ a, a.fair = true ∧ sys.step (σ j) a = some (σ (j + 1)) := by
    intro n
    induction n using Nat.strongRecOn with
    | _ n ih =>
      intro i hv hen
      apply Classical.byContradiction
      intro hno
      have hnof : ∀ j, i ≤ j → ∀ a, a.fair = true → step (σ j) a ≠ some (σ (j + 1)) :=
        fun j hj a ha hs => hno ⟨j, hj, a, ha, hs⟩
      -- either some later position takes an (environment) action, or the state is constant
      by_cases hact : ∃ d a, step (σ (i + d)) a = some (σ (i + d + 1))
      · obtain ⟨d, a, hs⟩ := hact
        have hlt : V (σ (i + d + 1)) < n := by
          have h1 := var_step_lt hs
          have h2 := V_mono hex i d
          omega
        obtain ⟨j, hj, b, hb, hsb⟩ := ih _ hlt (i + d + 1) rfl
          (fun j hj => hen j (by omega))
        exact hno ⟨j, by omega, b, hb, hsb⟩
      · have hconst : ∀ d, σ (i + d) = σ i := by
          intro d
          induction d with
          | zero => rfl
          | succ d ihd =>
            rcases hex (i + d) with h | ⟨a, h⟩
            · have e : i + (d + 1) = i + d + 1 := rfl
              rw [e, h, ihd]
            · exact absurd ⟨d, a, h⟩ hact
        obtain ⟨a, ha, hena⟩ := hen i (Nat.le_refl _)
        obtain ⟨g, hg⟩ := Option.isSome_iff_exists.mp (show a.group.isSome = true from ha)
        have hgen : ∀ j, i ≤ j → ∃ b, b.group = some g ∧ (step (σ j) b).isSome = true := by
          intro j hj
          obtain ⟨d, rfl⟩ := Nat.exists_eq_add_of_le hj
          rw [hconst d]; exact ⟨a, hg, hena⟩
        obtain ⟨j, hj, b, hbg, hsb⟩ := hf g i hgen
        exact hnof j hj b (by simp [Action.fair, hbg]) hsb
  exact main _ i rfl hen

/-! ### the rule instance -/

theorem variantRule (hf1 : ReqLifecycleSpec.releasePauseGuardChecksCtx = true)
    (hf2 : ReqLifecycleSpec.goOnlineChecksCtx = true) :
    VariantRule sys (fun a => a.fair = true) (fun s => Inv s ∧ Triggered s) (fun s => bothClosed s = true) V where
  progress := by
    intro s hP hnQ
    obtain ⟨a, ha, hen⟩ := progress hP.1 hP.2 (by simpa using hnQ)
    exact ⟨a, ha, hen⟩
  keep := by
    intro s a s' hP _ hs
    exact ⟨Or.inl ⟨inv_step hf1 hf2 hP.1 hs, triggered_step hP.2 hs⟩, Nat.le_of_lt (var_step_lt hs)⟩
  decr := by
    intro s a s' _ _ _ hs
    exact Or.inr (var_step_lt hs)

theorem exec_reachable {σ : Nat → State} (h0 : ∃ p e t, σ 0 = init p e t) (hex : Exec sys σ) :
    ∀ i, Reachable (σ i) := by
  intro i
  induction i with
  | zero => obtain ⟨p, e, t, h⟩ := h0; rw [h]; exact Reachable.init p e t
  | succ i ih =>
    rcases hex i with h | ⟨a, h⟩
    · rw [h]; exact ih
    · exact Reachable.step ih h

end GS.ReqLife
