import GSProofs.Lemmas.TaskQueueLasso
/-!
Helper lemmas for C21, part 10: a tick of an idle worker makes progress whenever some peer is
eligible; the per-peer cap invariant.
-/
namespace GS.TQ

def idleAt (i : Nat) (s : Sys) : Prop := s.workers[i]? = some .idle

/-- some peer has a queued task and is below its outstanding-work cap (frozen or not: the ticks
    thaw it) -/
def eligible (s : Sys) : Prop :=
  ∃ t ∈ s.q.peers, t.pending ≠ [] ∧ (s.q.cap = 0 ∨ t.activeWork < s.q.cap)

/-- ticker branch of the worker loop (ThawRound; PopTasks): with an eligible peer around, the worker
    gets a task or the total freeze value drops -/
theorem tick_progress {s : Sys} {i : Nat} (hI : Inv s) (hw : idleAt i s) (he : eligible s) :
    ¬ idleAt i (s.popFor i (thaw s.q)) ∨ M (s.popFor i (thaw s.q)) < M s := by
  have hIt := hI.thaw
  obtain ⟨tN, tF, tStrict, tDesc, tCap⟩ := thaw_facts s.q
  obtain ⟨h1, h2⟩ := popFor_measure s i (thaw s.q) _ hw hIt.idinj
  simp only [phase] at h1
  have hlen : i < s.workers.length := by
    rcases Nat.lt_or_ge i s.workers.length with h | h
    · exact h
    · unfold idleAt at hw; simp [List.getElem?_eq_none h] at hw
  by_cases hk : (pop (thaw s.q) 1).2.tasks.length = 0
  · right
    rw [if_pos hk] at h1
    suffices hs : sumFreeze (thaw s.q).peers < sumFreeze s.q.peers by
      unfold M; rw [h2]; omega
    apply tStrict
    obtain ⟨e, hemem, hepend, hecap⟩ := he
    obtain ⟨e1, he1mem, _, he1p, he1a, he1f⟩ := thaw_asc s.q e hemem
    have hne : (thaw s.q).peers ≠ [] := fun h => by rw [h] at he1mem; cases he1mem
    obtain ⟨m, hm⟩ := peek_isSome (thaw s.q) hne
    obtain ⟨hmmem, hmmin⟩ := peek_some hm
    have hmp : m.pending ≠ [] := peek_pending hm ⟨e1, he1mem, by rw [he1p]; exact hepend⟩
    -- nothing was popped from `m`
    have hnil : (popLoop (thaw s.q).cap 1 (m.pending.length + 1) m [] 0).2 = [] := by
      rcases pop_cases (thaw s.q) 1 with ⟨hnone, _⟩ | ⟨tr, htr, _, htasks, _⟩
      · rw [hm] at hnone; cases hnone
      · rw [hm] at htr; cases htr
        rw [← htasks]; exact List.length_eq_zero_iff.mp hk
    obtain ⟨t, htmem, htid, _, hta, htf⟩ := tDesc m hmmem
    by_cases hmf : m.freeze = 0
    · -- `m` is unfrozen, so it must be at its cap; then the eligible peer cannot be unfrozen
      have hcapped : ¬ ((thaw s.q).cap = 0 ∨ m.activeWork < (thaw s.q).cap) := by
        intro hc
        exact popLoop_nonempty (thaw s.q).cap 1 m.pending.length m (Nat.le_refl 1) hmf hmp hc hnil
      rw [tCap] at hcapped
      have hless := isMin_spec hmmin he1mem
      have he1f0 : 0 < e1.freeze := by
        apply Classical.byContradiction
        intro hnot
        have hz : e1.freeze = 0 := by omega
        unfold peerLess at hless
        have a1 : ¬ (e1.pending.length == 0) = true := by simp [he1p]; exact hepend
        have a2 : ¬ (m.pending.length == 0) = true := by simp; exact hmp
        rw [if_neg a1, if_neg a2, hz, hmf] at hless
        simp only [gt_iff_lt, Nat.lt_irrefl, if_false] at hless
        have aw : e1.activeWork = e.activeWork := by unfold Tracker.activeWork; rw [he1a]
        have : e1.activeWork < m.activeWork := by
          rw [aw]
          rcases hecap with h0 | hlt
          · exact absurd (Or.inl h0) hcapped
          · have : ¬ m.activeWork < s.q.cap := fun h => hcapped (Or.inr h)
            omega
        have hne : ¬ (e1.activeWork == m.activeWork) = true := by simp; omega
        rw [if_neg hne] at hless
        simp at hless; omega
      exact ⟨e, hemem, hI.frozen e hemem (by omega), by omega⟩
    · exact ⟨t, htmem, by rw [← htid]; exact hI.frozen t htmem (by omega) |> fun h => by rw [htid]; exact h, by omega⟩
  · left
    intro hidle
    unfold idleAt at hidle
    have hget : (s.popFor i (thaw s.q)).workers[i]? = some (startFrom (pop (thaw s.q) 1).2) := by
      show (s.workers.set i _)[i]? = _
      simp [hlen]
    rw [hget] at hidle
    have hne : (pop (thaw s.q) 1).2.tasks ≠ [] := fun h => hk (by rw [h]; rfl)
    rcases pop_cases (thaw s.q) 1 with ⟨_, hpop⟩ | ⟨tr, _, hpeer, _⟩
    · rw [hpop] at hne; exact hne rfl
    · obtain ⟨t, ts, hst⟩ := startFrom_exec_of_ne _ tr.id hpeer hne
      rw [hst] at hidle; cases hidle

/-! ### per-peer cap -/

def Work1 (l : List Task) : Prop := ∀ t ∈ l, t.work = 1

theorem sumWork_eq_length {l : List Task} (h : Work1 l) : sumWork l = l.length := by
  induction l with
  | nil => rfl
  | cons x xs ih =>
    simp only [sumWork, List.length_cons]
    have := h x (by simp)
    have := ih (fun t ht => h t (by simp [ht]))
    omega

/-- with every task of work 1, the cap bounds the NUMBER of active tasks of a peer -/
structure CapInv (q : PTQ) : Prop where
  pend : ∀ tr ∈ q.peers, Work1 tr.pending
  act : ∀ tr ∈ q.peers, Work1 tr.active
  bound : 0 < q.cap → ∀ tr ∈ q.peers, tr.active.length ≤ q.cap

theorem popLoop_cap (cap target : Nat) (hcap : 0 < cap) : ∀ (f : Nat) (tr : Tracker) (out : List Task) (w : Nat),
    Work1 tr.pending → Work1 tr.active → tr.active.length ≤ cap →
    (popLoop cap target f tr out w).1.active.length ≤ cap := by
  intro f
  induction f with
  | zero => intro tr out w _ _ h; exact h
  | succ f ih =>
    intro tr out w hp ha hb
    simp only [popLoop]
    split
    · exact hb
    · split
      · exact hb
      · rename_i hnc
        split
        · exact hb
        · rename_i t ht
          have htm := bestPending_mem ht
          apply ih
          · intro x hx; exact hp x (List.mem_filter.mp hx).1
          · intro x hx
            simp only [startTask, List.mem_append, List.mem_singleton] at hx
            rcases hx with hx | rfl
            · exact ha x hx
            · exact hp x htm
          · simp only [startTask, List.length_append, List.length_singleton]
            have : tr.activeWork = tr.active.length := sumWork_eq_length ha
            simp at hnc
            have := hnc hcap
            omega

end GS.TQ
