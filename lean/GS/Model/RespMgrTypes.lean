/-
Vocabulary shared by the hand-written response-manager model (GS/Model/RespMgr.lean) and the file
GS/Generated/RespDispatch.lean that translate/respdispatch regenerates from responsemanager/*.go.
Core Lean only.
-/
namespace GS.RespMgr

/-- how the response table is keyed / how a caller addresses a response:
    by request ID only, by (peer, ID), or — for the message subscriber's closer calls — by request ID
    plus the identity of the response the subscriber was created for -/
inductive KeyKind where
  | requestId | peerAndId | ownResponse
deriving DecidableEq, Repr

/-- type of an incoming request -/
inductive ReqType where
  | new | cancel | update
deriving DecidableEq, Repr

/-- the three handlers `processRequests` dispatches to (recognised by what they do, not by name):
    `new` creates a response and stores it in the table, `abort` cancels one, `update` runs the
    update hooks / queues the update for the executor -/
inductive Handler where
  | new | abort | update
deriving DecidableEq, Repr

/-- an operand of the comparison inside a peer guard: the sender of the message or the peer field of
    the table entry found under the request's ID -/
inductive PeerTerm where
  | sender | entryPeer
deriving DecidableEq, Repr

/-- how a guard finds the table entry it inspects -/
inductive KeyTerm where
  | requestId      -- `table[request.ID()]`
deriving DecidableEq, Repr

/-- a peer guard as written in the source:
    `e, ok := table[<key>]; ok && <lhs> != <rhs>`  ⇒ the request is skipped -/
structure PeerGuard where
  key : KeyTerm
  lhs : PeerTerm
  rhs : PeerTerm
deriving DecidableEq, Repr

structure DispatchCase where
  typ : ReqType
  handler : Handler
  /-- the guard (at loop, case or handler level) that runs before the handler, if any -/
  guard : Option PeerGuard
deriving Repr

end GS.RespMgr
