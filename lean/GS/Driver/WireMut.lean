import GS.Driver.WireCore
/-! model driver of component `wiremut` (malformed stream; same handler as `wire`) -/
def main : IO Unit := GS.Proto.runModel GS.Driver.WireCore.handler
