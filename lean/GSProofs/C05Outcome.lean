import GSProofs.Lemmas.RespLifeOutcomeRMain
import GSProofs.C05
/-!
# C05 — "exactly one outcome", the positive (partial) form

Property sentence: *every request … reaches exactly one outcome: completed (reported once to
completed-response listeners), cancelled by the requestor (reported once to cancel listeners), or failed on
the network*.

Model: `GS.RespLife` (lean/GS/Model/RespLifecycle.lean).  The ghost log `State.events` holds the listener
calls: `done r code` (completed listeners), `canc r` (cancel listeners), `nerr r` (network-error listeners)
and the ConnManager calls `protect p r` (one per registration of a request with id `r`: `newRequest`).

Proved here, for every state reachable under the hypothesis `ReachableDrained` (every `new` request carries
an id that is drained at the responder: no response, no task-queue topic, no busy task worker, no other
waiting `new` request with that id — the hypothesis of `retired_holds_no_work` / C23; it implies the
complement of known finding `dup-live-id`, and ids may be re-used after they are drained), all schedules,
hooks, API calls, send failures:

* `outcome_count_le_registrations` — for every id `r`: #completed(r) + #cancelled(r) ≤ #registrations(r)
  (completed/cancelled events are never more than the requests registered under that id).
* `one_outcome_partial` — hence for an id registered at most once so far (not re-used): `completed r` at
  most once, `cancelled r` at most once, never both.
* `no_outcome_while_pending` — for such an id, while its response is still Queued or Paused (and the
  manager is not parked in that response's update-hook error) neither event has been emitted.
* `after_outcome_nothing_pending` — once such an id has been reported completed or cancelled, no source of a
  further outcome is left: no terminal status of it in any builder / publisher queue / parked or blocked
  transaction, its response not Queued / Paused, no worker of it before its final status.
* `retired_holds_no_state_partial` — `retired_holds_no_work` extended by these components (one statement).
* `outcome_sources_le_registrations` — the invariant itself: outcome events + everything that can still
  produce one (terminal statuses in parked / blocked transactions, message builders and publisher queues,
  Queued / Paused responses, task workers before their final status, pausing / cancelling FinishTask
  messages) ≤ registrations.
* `cancelled_network_error_le_registrations`, `cancelled_excludes_network_error` — for EVERY reachable state (no
  hypothesis on ids at all): #cancelled(r) + [a network error of r was reported] ≤ #registrations(r); hence a
  request registered once is never reported both to the cancel listeners and to the network-error listeners, in
  either order (the former finding `network-error-and-other-outcome`, /repo e842a00, now as a theorem instead of
  the single regression `fix_e842a00_regression`).  Second invariant `Inv2` (Lemmas/RespLifeOutcomeN*): an
  `emitNerr r` in a publisher queue is CONFIRMED when no `callClose r` / pending `closeNetErr r` of that publisher
  is in front of it; cancelled events + [confirmed or reported network error] + [response alive and not failed]
  + [parked newRequest] ≤ registrations.
* `registrations_le_requests`, `one_outcome_partial_requests` — registrations(r) ≤ number of `new r` requests
  received (`seenIds`); so the hypothesis "registered at most once" can be replaced by the environment
  hypothesis "the id was sent at most once".
* `fresh_is_not_enough_counterexample` — under the weaker hypothesis of `protect_balanced_partial`
  (`ReachableFresh`: the id is not live *for that peer*) the count fails: a second peer re-uses the id
  of a cancelled request whose task was already popped; both StartTask messages find the new response,
  two executors serve it: 1 cancelled + 2 completed for 2 registrations.

* `completed_excludes_network_error`, `completed_after_retired` — for an id registered once (drained ids): never
  reported completed AND failed on the network (either order); the completed listeners are only told after the
  response has left the table.  Third invariant `Inv3` (Lemmas/RespLifeOutcome{P,Q,R}*.lean):
    U   nothing about `r` exists before its registration (`Places r False False`);
    P/I all places of `r` (table entry, topics, workers, builder entries, publisher steps, publisher calls, park) are at
        ONE peer and all response identities attached to them are EQUAL (`Places r (· = p0) (· = i0)`);
    K   every `emitDone r` in a publisher queue is behind a `callTerminate r` of that queue, a pending `terminate r`
        call of that publisher, or the response is not live (`kOK`);   D1  completed logged ⇒ response not live;
    H1  queued `callClose r` / pending `closeNetErr r` ⇒ stream of `r` closed;   J2  stream closed ⇒ no builder entry of `r`;
    J3  no `emitDone r` behind a `callClose r` (`wf3`);
    D2  network error confirmed or reported ⇒ no completed notification, stream closed, no `emitDone r` queued.
  `one_outcome_partial_full` / `one_outcome_partial_requests` now state all FIVE clauses: completed ≤ 1, cancelled ≤ 1,
  and no two of {completed, cancelled, network error} together.

FULL STATEMENT (not proved):
--   theorem one_outcome : ReachableDrained c s → ∀ incarnation of r, exactly one of
--     {completed once, cancelled once, network error}
NOT proved: "at least one outcome" (liveness, oracle class `outcome-none`), and the per-registration reading when an
id is re-used (the log is keyed by id: outcomes of different registrations of one id interleave).
-/
namespace GS.C05
open GS.RespLife

/-- calls of the completed-response listeners for request id `r` -/
def completedCount (s : State) (r : Id) : Nat :=
  s.events.countP fun e => match e with | .done id _ => id == r | _ => false

/-- calls of the requestor-cancelled listeners for request id `r` -/
def cancelledCount (s : State) (r : Id) : Nat :=
  s.events.countP fun e => match e with | .canc id => id == r | _ => false

/-- registrations of a request with id `r` (`newRequest`: one `Protect(peer, tag r)` each) -/
def registrations (s : State) (r : Id) : Nat :=
  s.events.countP fun e => match e with | .protect _ id => id == r | _ => false

theorem evW_split (l : List Event) (r : Id) :
    evW r l = l.countP (fun e => match e with | .done id _ => id == r | _ => false) +
      l.countP (fun e => match e with | .canc id => id == r | _ => false) := by
  induction l with
  | nil => rfl
  | cons e l ih =>
    simp only [evW, List.countP_cons] at ih ⊢
    rw [ih]
    cases e <;> simp [outEv] <;> omega

/-- from the lifecycle invariant: a StartTask message never meets a response that is already Running -/
theorem noRunStart_of_linv {s : State} (hi : LInv (acc s)) : NoRunStart s := by
  intro w wk x hw hk hl hrun
  have hwk : (acc s).wk[w]? = some (wk.peer, wk.id, wkind wk.phase) := by
    unfold workerOf at hw
    simp [acc, wcore, List.getElem?_map, hw]
  have hkind : wkind wk.phase = .waitStart := by
    simpa [Acc.kindAt, hwk] using hk
  have hlive : (acc s).liveW w wk.peer wk.id := ⟨_, hwk, by rw [hkind]; simp⟩
  have hent := entOf_lookup hl
  have hpeer : x.peer = wk.peer := hi.own w wk.peer wk.id hlive _ hent
  rw [hrun, hpeer] at hent
  obtain ⟨_, i, hli, _, hki⟩ := hi.entry wk.id wk.peer .running x.aux.task hent
  have := hi.liveUniq i w wk.peer wk.id hli hlive
  subst this
  exact hki hk

theorem pot_init (c : Cfg) (r : Id) : Pot r (init c) = 0 := rfl

/-- **the invariant**: outcome events plus everything that can still produce one never exceed the
    registrations (and message-queue records stay keyed by peer with sorted builders) -/
theorem outcome_inv {c : Cfg} {s : State} (h : ReachableDrained c s) :
    MQN s ∧ ∀ r, Pot r s ≤ regs r s := by
  induction h with
  | init => exact ⟨⟨List.nodup_nil, fun _ h => by cases h⟩, fun r => by rw [pot_init]; exact Nat.zero_le _⟩
  | step hr _ hs ih =>
    have hi := (linv_reachable hr).1
    have hall := fun r => chgR_step r (noRunStart_of_linv hi) hi.startsIff hs ih.1
    refine ⟨(hall 0).2, fun r => ?_⟩
    have := (hall r).1
    have := ih.2 r
    omega

/-- **C05.outcome_sources_le_registrations**: the accounting invariant in full (see `Pot`). -/
theorem outcome_sources_le_registrations {c : Cfg} {s : State} (h : ReachableDrained c s) (r : Id) :
    completedCount s r + cancelledCount s r + entW r s + parkW r s.park + wkSum r s.workers +
      mbSum r s.workers s.mailbox + mqSum r s.mqs ≤ registrations s r := by
  have := (outcome_inv h).2 r
  unfold Pot at this
  rw [evW_split] at this
  exact this

/-- **C05.outcome_count_le_registrations**: for every request id, the completed and cancelled
    notifications together never outnumber the requests registered under that id. -/
theorem outcome_count_le_registrations {c : Cfg} {s : State} (h : ReachableDrained c s) (r : Id) :
    completedCount s r + cancelledCount s r ≤ registrations s r := by
  have := outcome_sources_le_registrations h r
  omega

/-- helper: each outcome count is bounded by the registrations -/
theorem outcome_count_le_one {c : Cfg} {s : State} (h : ReachableDrained c s) (r : Id)
    (hreg : registrations s r ≤ 1) : completedCount s r ≤ 1 ∧ cancelledCount s r ≤ 1 := by
  have := outcome_count_le_registrations h r
  omega

/-- **C05.one_outcome_partial** ("exactly one outcome", the at-most-one half for completed / cancelled;
    hypothesis: drained ids, and `r` registered at most once so far, i.e. not re-used).  `completed r` occurs
    at most once in the listener log, `cancelled r` at most once, and never both. -/
theorem one_outcome_partial {c : Cfg} {s : State} (h : ReachableDrained c s) (r : Id)
    (hreg : registrations s r ≤ 1) :
    completedCount s r ≤ 1 ∧ cancelledCount s r ≤ 1 ∧ ¬ (1 ≤ completedCount s r ∧ 1 ≤ cancelledCount s r) := by
  have := outcome_count_le_registrations h r
  refine ⟨by omega, by omega, fun h2 => by omega⟩

/-- **C05.no_outcome_while_pending**: an id registered once whose response is still Queued or Paused has
    not been reported to the completed or cancelled listeners. -/
theorem no_outcome_while_pending {c : Cfg} {s : State} (h : ReachableDrained c s) (r : Id)
    (hreg : registrations s r ≤ 1) {x : Resp} (hl : lookup s r = some x)
    (hst : x.state = .queued ∨ x.state = .paused) (hpk : parkErr r s.park = false) :
    completedCount s r = 0 ∧ cancelledCount s r = 0 := by
  have := outcome_sources_le_registrations h r
  have he : entW r s = 1 := by
    unfold entW
    rw [hpk]
    simp only [Bool.false_eq_true, if_false]
    rw [stOf_lookup hl]
    rcases hst with h | h <;> rw [h] <;> rfl
  omega

/-- **C05.after_outcome_nothing_pending** ("afterwards the responder holds no state for it", the part that
    follows from the outcome accounting).  Once an id registered once has been reported to the completed or
    the cancelled listeners, nothing that could produce a further outcome is left anywhere in the model: its
    response is not Queued / Paused (`entW`), no `newRequest` or update-hook error for it is parked and no
    parked transaction carries a terminal status for it (`parkW`), no task worker of it is before its final
    status or holds a terminal status in a blocked transaction (`wkSum`), no pausing / cancelling FinishTask
    of it is in the mailbox (`mbSum`), and no message builder or publisher queue of any peer holds a
    terminal status of it (`mqSum`). -/
theorem after_outcome_nothing_pending {c : Cfg} {s : State} (h : ReachableDrained c s) (r : Id)
    (hreg : registrations s r ≤ 1) (hout : 1 ≤ completedCount s r + cancelledCount s r) :
    entW r s = 0 ∧ parkW r s.park = 0 ∧ wkSum r s.workers = 0 ∧ mbSum r s.workers s.mailbox = 0 ∧
      mqSum r s.mqs = 0 := by
  have := outcome_sources_le_registrations h r
  refine ⟨by omega, by omega, by omega, by omega, by omega⟩

/-- unfolding of `mqSum r s.mqs = 0`: no builder entry (in flight or accumulating) of any peer has a terminal
    status queued for `r`, and no publisher queue holds a completed notification for `r` -/
theorem mqSum_zero_iff (r : Id) (l : List PeerMQ) :
    mqSum r l = 0 ↔ ∀ q ∈ l, tokB r q.inflight = 0 ∧ tokB r q.next = 0 ∧ tokQ r q.pubQ = 0 := by
  induction l with
  | nil => simp [mqSum]
  | cons a l ih =>
    simp only [mqSum, List.map_cons, List.sum_cons, List.mem_cons, forall_eq_or_imp] at ih ⊢
    rw [← ih]
    simp only [mqW]
    omega

/-- **C05.retired_holds_no_state_partial** ("afterwards the responder holds no state for it", everything that is
    proved, in one statement).  Drained ids; `r` registered once, reported completed or cancelled, no longer in
    the table, its newRequest not parked, its task workers returned.  Then: the connection is not protected
    for it; no table entry (hence no `PeerState` line) has its id; no peer's task queue has an active topic
    for it; no message builder (in flight or accumulating) and no publisher queue of any peer holds a terminal
    status / completed notification for it; no parked manager transaction and no task worker holds a terminal
    status or a pending outcome for it.
    NOT proved (open): no PENDING topic, no waiting allocator reservation and no NON-terminal builder content
    (hook data / a late `UpdateResponse` status) of the retired id. -/
theorem retired_holds_no_state_partial {c : Cfg} {s : State} (h : ReachableDrained c s) (p : Peer) (r : Id)
    (hreg : registrations s r ≤ 1) (hout : 1 ≤ completedCount s r + cancelledCount s r)
    (hgone : lookup s r = none) (hpark : parkNew s.park ≠ some (p, r))
    (hw : ∀ w ∈ s.workers, w.id = r → w.phase = .done) :
    (p, r) ∉ s.prot ∧ (∀ x ∈ s.table, x.id ≠ r) ∧ (∀ q, r ∉ (getQ s q).active) ∧
      (∀ q ∈ s.mqs, tokB r q.inflight = 0 ∧ tokB r q.next = 0 ∧ tokQ r q.pubQ = 0) ∧
      parkW r s.park = 0 ∧ wkSum r s.workers = 0 ∧ mbSum r s.workers s.mailbox = 0 := by
  obtain ⟨h1, h2⟩ := retired_holds_no_work h p r hgone hpark hw
  obtain ⟨_, h4, h5, h6, h7⟩ := after_outcome_nothing_pending h r hreg hout
  refine ⟨h1, ?_, h2, (mqSum_zero_iff r s.mqs).1 h7, h4, h5, h6⟩
  intro x hx hid
  unfold lookup at hgone
  have := List.find?_eq_none.1 hgone x hx
  simp [hid] at this

-- ------------------------------------------------------------------ cancelled vs network error
/-- calls of the network-error listeners for request id `r` -/
def networkErrorCount (s : State) (r : Id) : Nat :=
  s.events.countP fun e => match e with | .nerr id => id == r | _ => false

theorem cancC_eq (s : State) (r : Id) : cancC r s = cancelledCount s r := by
  unfold cancC cancelledCount
  congr 1

theorem nerrC_eq (s : State) (r : Id) : nerrC r s = networkErrorCount s r := by
  unfold nerrC networkErrorCount
  congr 1

theorem regs_eq (s : State) (r : Id) : regs r s = registrations s r := by
  unfold regs registrations
  congr 1

/-- **C05.cancelled_network_error_le_registrations** (every reachable state, no hypothesis on request ids).
    For every id: the cancelled notifications, plus one if a network error of that id was ever reported, never
    exceed the registrations of that id. -/
theorem cancelled_network_error_le_registrations {c : Cfg} {s : State} (h : Reachable c s) (r : Id) :
    cancelledCount s r + (if 1 ≤ networkErrorCount s r then 1 else 0) ≤ registrations s r := by
  have hi := inv2_reachable h r
  rw [← cancC_eq, ← nerrC_eq, ← regs_eq]
  split
  · rename_i hn
    have := hi.potF (Or.inl hn)
    omega
  · have := hi.pot0
    omega

/-- **C05.cancelled_excludes_network_error** (the repaired finding `network-error-and-other-outcome`, /repo
    e842a00, for all schedules): a request whose id was registered at most once is never reported both as
    cancelled by the requestor and as failed on the network — whichever comes first. -/
theorem cancelled_excludes_network_error {c : Cfg} {s : State} (h : Reachable c s) (r : Id)
    (hreg : registrations s r ≤ 1) : ¬ (1 ≤ cancelledCount s r ∧ 1 ≤ networkErrorCount s r) := by
  intro ⟨h1, h2⟩
  have := cancelled_network_error_le_registrations h r
  rw [if_pos h2] at this
  omega

theorem reachable_of_drained {c : Cfg} {s : State} (h : ReachableDrained c s) : Reachable c s := by
  induction h with
  | init => exact Reachable.init
  | step _ _ hs ih => exact Reachable.step ih hs

theorem doneC_eq (s : State) (r : Id) : doneC r s = completedCount s r := by
  unfold doneC completedCount
  congr 1

/-- **C05.completed_excludes_network_error** (drained ids, `r` registered at most once): a request is never
    reported both to the completed listeners and to the network-error listeners — whichever comes first.
    Invariant `Inv3` (Lemmas/RespLifeOutcome{P,Q,R}*): everything about `r` lives at one peer and carries one
    response identity; a closed response stream leaves no entry of `r` in any builder; an `emitDone r` is always
    behind its `callTerminate r` and never behind a `callClose r`; once a network error is confirmed no terminal
    status of `r` is left in any publisher queue. -/
theorem completed_excludes_network_error {c : Cfg} {s : State} (h : ReachableDrained c s) (r : Id)
    (hreg : registrations s r ≤ 1) : ¬ (1 ≤ completedCount s r ∧ 1 ≤ networkErrorCount s r) := by
  rw [← doneC_eq, ← nerrC_eq]
  exact done_excludes_nerr h r (by rw [regs_eq]; exact hreg)

/-- **C05.completed_after_retired**: the completed listeners are only told after the response has left the
    table (`terminateRequest` ran) — for an id registered at most once, drained ids. -/
theorem completed_after_retired {c : Cfg} {s : State} (h : ReachableDrained c s) (r : Id)
    (hreg : registrations s r ≤ 1) (hd : 1 ≤ completedCount s r) : lookup s r = none := by
  have hl := (inv3_reachable h r (by rw [regs_eq]; exact hreg)).core.d1 (by rw [doneC_eq]; exact hd)
  unfold live at hl
  cases hx : lookup s r with
  | none => rfl
  | some x => rw [hx] at hl; simp at hl

/-- **C05.one_outcome_partial_full**: "exactly one outcome", the whole at-most-one half, for an id registered
    once (drained ids): completed ≤ 1, cancelled ≤ 1, and no two of {completed, cancelled, network error}
    together. -/
theorem one_outcome_partial_full {c : Cfg} {s : State} (h : ReachableDrained c s) (r : Id)
    (hreg : registrations s r ≤ 1) :
    completedCount s r ≤ 1 ∧ cancelledCount s r ≤ 1 ∧ ¬ (1 ≤ completedCount s r ∧ 1 ≤ cancelledCount s r) ∧
      ¬ (1 ≤ cancelledCount s r ∧ 1 ≤ networkErrorCount s r) ∧
      ¬ (1 ≤ completedCount s r ∧ 1 ≤ networkErrorCount s r) :=
  ⟨(one_outcome_partial h r hreg).1, (one_outcome_partial h r hreg).2.1, (one_outcome_partial h r hreg).2.2,
    cancelled_excludes_network_error (reachable_of_drained h) r hreg, completed_excludes_network_error h r hreg⟩

/-- **C05.registrations_le_requests**: an id is registered at most as often as a `new` request with that id
    was received (`seenIds` = ghost log of the ids of all received `new` requests). -/
theorem registrations_le_requests {c : Cfg} {s : State} (h : ReachableFresh c s) (r : Id) :
    registrations s r ≤ s.seenIds.count r := by
  rw [← regs_eq]; exact regs_le_seen h r

/-- **C05.one_outcome_partial_requests**: `one_outcome_partial_full` with the hypothesis on the environment
    only — drained ids, and the requestors sent a `new` request with id `r` at most once (the id is not
    re-used): completed at most once, cancelled at most once, never both, never cancelled and network error. -/
theorem one_outcome_partial_requests {c : Cfg} {s : State} (h : ReachableDrained c s) (r : Id)
    (hreq : s.seenIds.count r ≤ 1) :
    completedCount s r ≤ 1 ∧ cancelledCount s r ≤ 1 ∧ ¬ (1 ≤ completedCount s r ∧ 1 ≤ cancelledCount s r) ∧
      ¬ (1 ≤ cancelledCount s r ∧ 1 ≤ networkErrorCount s r) ∧
      ¬ (1 ≤ completedCount s r ∧ 1 ≤ networkErrorCount s r) :=
  one_outcome_partial_full h r (Nat.le_trans (registrations_le_requests (reachableFresh_of_drained h) r) hreq)

/-- non-vacuity: a reachable state with a reported network error of an id registered once (the replay of
    /repo 369d047) -/
example : ∃ s, Reachable {} s ∧ registrations s 0 ≤ 1 ∧ 1 ≤ networkErrorCount s 0 ∧ cancelledCount s 0 = 0 :=
  ⟨run (init {}) fix369Script, reachable_run Reachable.init _, by decide, by decide, by decide⟩

/-- non-vacuity: the schedule of the former counterexample (cancel, then the message with left-over hook data
    fails) — cancelled, and no network error reported -/
example : ∃ s, Reachable {} s ∧ registrations s 0 ≤ 1 ∧ cancelledCount s 0 = 1 ∧ networkErrorCount s 0 = 0 :=
  ⟨run (init {}) cancelNerrScript, reachable_run Reachable.init _, by decide, by decide, by decide⟩

-- ------------------------------------------------------------------ the weaker hypothesis is not enough
/-- peer 1 re-uses the id of peer 0's request, cancelled after its task was popped: both StartTask messages
    find peer 1's response and two executors serve it -/
def twoPeerScript : List Action :=
  [.recv 0 (.new 0 (cfgA 1)), .mgr,           -- peer 0 registers id 0, task pending
   .recv 0 (.cancel 0),                        -- peer 0's cancel waits in the mailbox
   .recv 1 (.new 0 (cfgA 1)),                  -- peer 1: `new` with the same id (not live for peer 1)
   .pop 0 0,                                   -- a worker pops peer 0's task: StartTask(0) behind the two requests
   .mgr,                                       -- cancel: cancelled(0), response retired
   .mgr,                                       -- peer 1's request registered, its task pending in peer 1's queue
   .pop 1 0,                                   -- second worker: StartTask(1)
   .mgr, .mgr,                                 -- both StartTask messages find the new response
   .wstep 0 0, .wstep 0 0, .wstep 1 0, .wstep 1 0,
   .mgr, .mgr,
   .extract 0, .net 0 true, .pub 0, .pub 0, .mgr, .pub 0,
   .extract 1, .net 1 true, .pub 1, .pub 1, .mgr, .pub 1]

/-- **C05.fresh_is_not_enough_counterexample**: under `ReachableFresh` (the hypothesis of
    `protect_balanced_partial`: a `new` id is not live for THAT peer) the outcome count fails — two
    registrations of id 0, one cancelled and two completed notifications.  The step excluded by
    `ReachableDrained` is peer 1's `new` while peer 0's response with that id is still in the table. -/
theorem fresh_is_not_enough_counterexample :
    ∃ s, ReachableFresh {} s ∧ registrations s 0 = 2 ∧ cancelledCount s 0 = 1 ∧ completedCount s 0 = 2 :=
  ⟨run (init {}) twoPeerScript, reachableFresh_run ReachableFresh.init _ (by decide), by decide, by decide, by decide⟩

-- ------------------------------------------------------------------ non-vacuity
def doneScript : List Action :=
  [.recv 0 (.new 0 (cfgA 1)), .mgr, .pop 0 0, .mgr, .wstep 0 0, .wstep 0 0, .mgr,
   .extract 0, .net 0 true, .pub 0, .pub 0, .mgr, .pub 0]

/-- the hypotheses of `one_outcome_partial` are met by a state in which the request completed … -/
example : ∃ s, ReachableDrained {} s ∧ registrations s 0 ≤ 1 ∧ completedCount s 0 = 1 ∧ cancelledCount s 0 = 0 :=
  ⟨run (init {}) doneScript, reachableDrained_run ReachableDrained.init _ (by decide), by decide, by decide, by decide⟩

/-- … and by one in which it was cancelled by the requestor -/
example : ∃ s, ReachableDrained {} s ∧ registrations s 0 ≤ 1 ∧ completedCount s 0 = 0 ∧ cancelledCount s 0 = 1 :=
  ⟨run (init {}) [.recv 0 (.new 0 (cfgA 1)), .mgr, .recv 0 (.cancel 0), .mgr],
   reachableDrained_run ReachableDrained.init _ (by decide), by decide, by decide, by decide⟩

/-- `no_outcome_while_pending`: a Queued response of an id registered once -/
example : ∃ s x, ReachableDrained {} s ∧ registrations s 0 ≤ 1 ∧ lookup s 0 = some x ∧ x.state = .queued ∧
    parkErr 0 s.park = false :=
  ⟨run (init {}) [.recv 0 (.new 0 (cfgA 1)), .mgr], _,
   reachableDrained_run ReachableDrained.init _ (by decide), by decide, rfl, by decide, by decide⟩

/-- the hypotheses of `after_outcome_nothing_pending`, `retired_holds_no_state_partial` and
    `one_outcome_partial_requests` are met by the end state of a complete response -/
example : ∃ s, ReachableDrained {} s ∧ registrations s 0 ≤ 1 ∧ s.seenIds.count 0 ≤ 1 ∧
    1 ≤ completedCount s 0 + cancelledCount s 0 ∧ lookup s 0 = none ∧ parkNew s.park ≠ some (0, 0) ∧
    (∀ w ∈ s.workers, w.id = 0 → w.phase = .done) :=
  ⟨run (init {}) doneScript, reachableDrained_run ReachableDrained.init _ (by decide), by decide, by decide, by decide,
   by decide, by decide, by decide⟩

/-- re-use after the id is drained: two registrations, two outcomes (`outcome_count_le_registrations` is tight) -/
example : ∃ s, ReachableDrained {} s ∧ registrations s 0 = 2 ∧ completedCount s 0 + cancelledCount s 0 = 2 :=
  ⟨run (init {}) ([.recv 0 (.new 0 (cfgA 1)), .mgr, .recv 0 (.cancel 0), .mgr, .thaw] ++ doneScript),
   reachableDrained_run ReachableDrained.init _ (by decide), by decide, by decide⟩

end GS.C05
