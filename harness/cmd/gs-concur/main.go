package main

import (
	_ "verifharness/concur"
	"verifharness/reg"
)

func main() { reg.Main("concur") }
