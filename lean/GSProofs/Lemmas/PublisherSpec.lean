import GS.Model.Publisher
/-!
Specification vocabulary for C18 (definitions only): the projection of a callback trace to one
(subscriber, topic) pair, subscription intervals read off the command list, and the interval
automaton `specFrom`.  None of this mentions the registry.
-/
namespace GS.Publisher

/-- the callback is addressed to subscriber `s` and concerns topic `t` -/
def Callback.about (s : Sub) (t : Topic) : Callback → Bool
  | .onNext s' t' _ => s' == s && t' == t
  | .onClose s' t' => s' == s && t' == t

/-- what subscriber `s` sees about topic `t`, in order -/
def proj (s : Sub) (t : Topic) (tr : List Callback) : List Callback := tr.filter (Callback.about s t)

/-- the command ends a subscription of `s` to `t`: `closeTopic t`, `unsubAll s`, `shutdown` -/
def isEnd (s : Sub) (t : Topic) : Cmd → Bool
  | .closeTopic t' => t' == t
  | .unsubAll s' => s' == s
  | .shutdown => true
  | _ => false

/-- After the commands `pre` (none of them processed after a shutdown), `s` is subscribed to `t`:
    some `subscribe t s` in `pre` is followed by no end of the subscription, and the publisher had
    not shut down before it. -/
def Subscribed (s : Sub) (t : Topic) (pre : List Cmd) : Prop :=
  ∃ a b, pre = a ++ Cmd.subscribe t s :: b ∧ Cmd.shutdown ∉ a ∧ ∀ c ∈ b, isEnd s t c = false

/-- what one processed command means for the pair (s,t), given whether it is subscribed:
    (subscribed afterwards, callbacks to `s` about `t`) -/
def stepSpec (s : Sub) (t : Topic) (act : Bool) : Cmd → Bool × List Callback
  | .subscribe t' s' => (act || (t' == t && s' == s), [])
  | .publish t' e => (act, if act && t' == t then [Callback.onNext s t e] else [])
  | .closeTopic t' => if act && t' == t then (false, [Callback.onClose s t]) else (act, [])
  | .unsubAll s' => if act && s' == s then (false, [Callback.onClose s t]) else (act, [])
  | .shutdown => (false, if act then [Callback.onClose s t] else [])

/-- interval automaton over the command list: the callbacks `s` must see about `t` when the queue
    `cmds` is consumed, starting subscribed (`act = true`) or not; everything after the first
    `shutdown` is ignored. -/
def specFrom (s : Sub) (t : Topic) (act : Bool) : List Cmd → List Callback
  | [] => []
  | c :: rest =>
    match c with
    | .shutdown => if act then [Callback.onClose s t] else []
    | c => (stepSpec s t act c).2 ++ specFrom s t (stepSpec s t act c).1 rest

/-- is (s,t) subscribed after consuming `cmds` (no shutdown inside), starting from `act` -/
def activeAfter (s : Sub) (t : Topic) (act : Bool) : List Cmd → Bool
  | [] => act
  | c :: rest => activeAfter s t (stepSpec s t act c).1 rest

/-- the events published on `t` in a stretch of commands -/
def pubsOn (t : Topic) : List Cmd → List Ev
  | [] => []
  | .publish t' e :: rest => if t' = t then e :: pubsOn t rest else pubsOn t rest
  | _ :: rest => pubsOn t rest

end GS.Publisher
